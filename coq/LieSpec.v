(* LieSpec.v — the short specification layer: what it means for a GroupOps
   record (over the reals) to realise a matrix group through transform().
   Every field is a statement about the *model's* functions and the generic
   matrix product / identity of Mat.v. *)
From Coq Require Import Reals List.
From Manif Require Import Scalar Mat Group RInst Generic.
Import ListNotations.
Local Open Scope R_scope.

Record GroupLaws (G : GroupOps RS) : Type := mkLaws {
  gl_valid : list R -> Prop;             (* right length and unit-norm rotation part *)
  gl_hom : list R -> list R;             (* a point in the homogeneous coordinates act() documents *)
  gl_compose_valid : forall X Y, gl_valid X -> gl_valid Y -> gl_valid (g_compose G X Y);
  gl_inverse_valid : forall X, gl_valid X -> gl_valid (g_inverse G X);
  gl_identity_valid : gl_valid (g_identity G);
  gl_compose_M : forall X Y, gl_valid X -> gl_valid Y ->
     g_transform G (g_compose G X Y) = mmul (g_transform G X) (g_transform G Y);
  gl_inverse_Ml : forall X, gl_valid X ->
     mmul (g_transform G (g_inverse G X)) (g_transform G X) = mid (g_tra G);
  gl_inverse_Mr : forall X, gl_valid X ->
     mmul (g_transform G X) (g_transform G (g_inverse G X)) = mid (g_tra G);
  gl_identity_M : g_transform G (g_identity G) = mid (g_tra G);
  gl_act_M : forall X p, gl_valid X -> length p = g_actdim G ->
     gl_hom (g_act G X p) = mvmul (g_transform G X) (gl_hom p);
  (* consequences, on coefficient vectors *)
  gl_assoc : forall X Y Z, gl_valid X -> gl_valid Y -> gl_valid Z ->
     g_compose G (g_compose G X Y) Z = g_compose G X (g_compose G Y Z);
  gl_neutral_l : forall X, gl_valid X -> g_compose G (g_identity G) X = X;
  gl_neutral_r : forall X, gl_valid X -> g_compose G X (g_identity G) = X;
  gl_inv_l : forall X, gl_valid X -> g_transform G (g_compose G (g_inverse G X) X) = mid (g_tra G);
  gl_inv_r : forall X, gl_valid X -> g_transform G (g_compose G X (g_inverse G X)) = mid (g_tra G)
}.
Arguments gl_valid {G}. Arguments gl_hom {G}.
