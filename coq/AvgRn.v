(* AvgRn.v — property C16 for Rn (any dimension): the bi-invariant mean of N >= 2 points is, after at most one update, the
   arithmetic mean (1/N) sum_i X_i: the routine returns its first point when that is already within the stopping tolerance
   of the mean and the mean itself otherwise, so the returned element m always satisfies |mean - m|^2 < e (stationarity up to
   the stopping tolerance: the residual (1/N) sum_i (X_i - m) IS mean - m).  The arithmetic mean does not depend on the order
   of the points and commutes with translation of all points. *)
From Coq Require Import Reals ZArith List Lra Lia Permutation.
From Manif Require Import Scalar Mat Consts Group RInst Tac Generic Algorithms Rn AvgProofs.
Import ListNotations.
Local Open Scope R_scope.

Local Notation vec := (list R).
Local Notation add := (@vadd RS).
Local Notation neg := (@vneg RS).
Local Notation scl := (@vscale_r RS).
Local Notation zero := (@vzero RS).

(* ---- vectors as lists ---- *)
Lemma add_comm (a b : vec) : add a b = add b a.
Proof. revert b. induction a as [|x a IH]; intros [|y b]; cbn [vadd vmap2]; try reflexivity. unfold vadd in *. cbn [vmap2]. rewrite IH. cbn [K RS kadd]. f_equal. apply Rplus_comm. Qed.
Lemma add_assoc (a b c : vec) : add (add a b) c = add a (add b c).
Proof. revert b c. induction a as [|x a IH]; intros [|y b] [|z c]; unfold vadd in *; cbn [vmap2]; try reflexivity. rewrite IH. cbn [K RS kadd]. f_equal. apply Rplus_assoc. Qed.
Lemma add_len (a b : vec) n : length a = n -> length b = n -> length (add a b) = n.
Proof. revert b n. induction a as [|x a IH]; intros [|y b] n Ha Hb; unfold vadd in *; cbn [vmap2 length] in *; try congruence. destruct n; [discriminate|]. f_equal. apply IH; congruence. Qed.
Lemma add_zero_r (a : vec) : add a (zero (length a)) = a.
Proof. induction a as [|x a IH]; [reflexivity|]. unfold vadd, vzero in *. cbn [length repeat vmap2]. rewrite IH. cbn [K RS kadd k0]. f_equal. apply Rplus_0_r. Qed.
Lemma add_zero_l (a : vec) : add (zero (length a)) a = a.
Proof. rewrite add_comm. apply add_zero_r. Qed.
Lemma add_neg (a : vec) : add a (neg a) = zero (length a).
Proof. induction a as [|x a IH]; [reflexivity|]. unfold vadd, vneg, vzero in *. cbn [length repeat vmap2 map]. rewrite IH. cbn [K RS kadd kopp k0]. f_equal. apply Rplus_opp_r. Qed.
Lemma neg_len (a : vec) : length (neg a) = length a.
Proof. unfold vneg. apply map_length. Qed.
Lemma scl_len (a : vec) w : length (scl a w) = length a.
Proof. unfold vscale_r. apply map_length. Qed.
Lemma zero_len n : length (zero n) = n.
Proof. unfold vzero. apply repeat_length. Qed.
Lemma scl_add (a b : vec) w : scl (add a b) w = add (scl a w) (scl b w).
Proof. revert b. induction a as [|x a IH]; intros [|y b]; unfold vadd, vscale_r in *; cbn [vmap2 map]; try reflexivity. rewrite IH. cbn [K RS kadd kmul]. f_equal. apply Rmult_plus_distr_r. Qed.
Lemma scl_zero n w : scl (zero n) w = zero n.
Proof. induction n as [|n IH]; [reflexivity|]. unfold vscale_r, vzero in *. cbn [repeat map]. rewrite IH. cbn [K RS kmul k0]. f_equal. apply Rmult_0_l. Qed.
Lemma scl_scl (a : vec) u w : scl (scl a u) w = scl a (u * w).
Proof. unfold vscale_r. rewrite map_map. apply map_ext. intros x. cbn [K RS kmul]. apply Rmult_assoc. Qed.
Lemma scl_one (a : vec) : scl a 1 = a.
Proof. unfold vscale_r. rewrite <- (map_id a) at 2. apply map_ext. intros x. cbn [K RS kmul]. apply Rmult_1_r. Qed.
Lemma scl_plus (a : vec) u w : scl a (u + w) = add (scl a u) (scl a w).
Proof. induction a as [|x a IH]; [reflexivity|]. unfold vscale_r, vadd in *. cbn [map vmap2]. rewrite IH. cbn [K RS kmul kadd]. f_equal. apply Rmult_plus_distr_l. Qed.
Lemma neg_scl (a : vec) : neg a = scl a (-1).
Proof. unfold vneg, vscale_r. apply map_ext. intros x. cbn [K RS kmul kopp]. ring. Qed.
Lemma sqnorm_zero n : @sqnorm RS (zero n) = 0.
Proof. induction n as [|n IH]; [reflexivity|]. unfold sqnorm, vzero in *. cbn [repeat dot]. rewrite IH. cbn [K RS kadd kmul k0]. ring. Qed.

(* ---- sums of points ---- *)
Section Dim.
Variable n : nat.
Local Notation G := (Rn RS n).
Definition vsum (pts : list vec) : vec := fold_left add pts (zero n).
Definition amean (pts : list vec) : vec := scl (vsum pts) (1 / INR (length pts)).
Definition pts_ok (pts : list vec) : Prop := Forall (fun p => length p = n) pts.

Lemma fold_add_len pts acc : pts_ok pts -> length acc = n -> length (fold_left add pts acc) = n.
Proof. intros H. revert acc. induction H as [|p pts Hp Hps IH]; intros acc Ha; cbn [fold_left]; [exact Ha|]. apply IH. apply add_len; assumption. Qed.
Lemma vsum_len pts : pts_ok pts -> length (vsum pts) = n.
Proof. intros H. apply fold_add_len; [exact H|apply zero_len]. Qed.
Lemma zero_add (p : vec) : length p = n -> add (zero n) p = p.
Proof. intros H. rewrite <- H. apply add_zero_l. Qed.
Lemma add_zero (p : vec) : length p = n -> add p (zero n) = p.
Proof. intros H. rewrite <- H. apply add_zero_r. Qed.
Lemma fold_add_acc pts acc : pts_ok pts -> length acc = n -> fold_left add pts acc = add acc (vsum pts).
Proof.
  intros H. unfold vsum. revert acc. induction H as [|p pts Hp Hps IH]; intros acc Ha; cbn [fold_left].
  - symmetry. apply add_zero. exact Ha.
  - rewrite IH by (apply add_len; assumption). rewrite (IH (add (zero n) p)) by (apply add_len; [apply zero_len|assumption]).
    rewrite (zero_add p Hp). apply add_assoc.
Qed.

(* the sum of the residuals at m: sum_i (-m + X_i) = sum_i X_i - N m *)
Lemma scl_0 (m : vec) : length m = n -> scl m 0 = zero n.
Proof. intros <-. induction m as [|x m IH]; [reflexivity|]. unfold vscale_r, vzero in *. cbn [map length repeat]. rewrite IH. cbn [K RS kmul k0]. f_equal. ring. Qed.
Lemma vsum_cons p pts : length p = n -> pts_ok pts -> vsum (p :: pts) = add p (vsum pts).
Proof. intros Hp H. unfold vsum at 1. cbn [fold_left]. rewrite (zero_add p Hp). apply fold_add_acc; assumption. Qed.
Lemma residual_sum pts m : pts_ok pts -> length m = n ->
  fold_left (fun acc p => add acc (rminus_v G p m)) pts (zero n) = add (vsum pts) (scl m (- INR (length pts))).
Proof.
  intros H Hm. unfold rminus_v. cbn [g_log g_compose g_inverse Rn]. unfold rn_log, rn_compose, rn_inverse.
  assert (Hgen : forall acc, length acc = n ->
            fold_left (fun acc p => add acc (add (neg m) p)) pts acc = add (add acc (vsum pts)) (scl m (- INR (length pts)))).
  { induction H as [|p pts Hp Hps IH]; intros acc Ha.
    - cbn [fold_left length INR]. unfold vsum. cbn [fold_left]. rewrite (add_zero acc Ha).
      replace (- 0) with 0 by ring. rewrite (scl_0 m Hm). symmetry. apply add_zero. exact Ha.
    - cbn [fold_left]. rewrite IH by (apply add_len; [exact Ha|apply add_len; [rewrite neg_len; exact Hm|exact Hp]]).
      rewrite (vsum_cons p pts Hp Hps).
      change (length (p :: pts)) with (S (length pts)). rewrite S_INR.
      replace (- (INR (length pts) + 1)) with (-1 + - INR (length pts)) by ring. rewrite scl_plus, <- neg_scl.
      (* ((acc + (-m + p)) + S) + k m  =  (acc + (p + S)) + (-m + k m) *)
      rewrite !add_assoc. f_equal. rewrite <- (add_assoc (neg m) p). rewrite (add_comm (neg m) p). rewrite !add_assoc. f_equal.
      rewrite <- !add_assoc. rewrite (add_comm (neg m) (vsum pts)). reflexivity. }
  etransitivity; [exact (Hgen (zero n) (zero_len n))|]. f_equal. apply zero_add. apply vsum_len. exact H.
Qed.

(* the mean tangent at m is mean - m *)
Lemma mean_tangent_rn pts m : pts_ok pts -> length m = n -> pts <> [] ->
  mean_tangent G pts m (1 / INR (length pts)) = add (amean pts) (neg m).
Proof.
  intros H Hm Hne. unfold mean_tangent. cbn [g_dof Rn]. rewrite (residual_sum pts m H Hm). rewrite scl_add. unfold amean. f_equal.
  rewrite scl_scl. assert (HN : INR (length pts) <> 0) by (apply not_0_INR; destruct pts; [congruence|discriminate]).
  replace (- INR (length pts) * (1 / INR (length pts))) with (-1) by (field; exact HN). symmetry. apply neg_scl.
Qed.
Lemma amean_len pts : pts_ok pts -> length (amean pts) = n.
Proof. intros H. unfold amean. rewrite scl_len. apply vsum_len. exact H. Qed.

(* the routine: the first point if it is within tolerance of the mean, else the mean *)
Theorem average_biinvariant_rn p q pts e it : pts_ok (p :: q :: pts) -> 0 < e ->
  average_biinvariant G (p :: q :: pts) e (S (S it)) =
  Ok (if Rltb (@sqnorm RS (add (amean (p :: q :: pts)) (neg p))) e then p else amean (p :: q :: pts)).
Proof.
  intros H He. assert (Hp : length p = n) by (inversion H; assumption).
  unfold average_biinvariant. set (P := p :: q :: pts) in *.
  assert (Hne : P <> []) by discriminate.
  assert (Ew : forall N, @kdiv RS (@kz RS 1) (@nscalar RS N) = 1 / INR N).
  { intros N. unfold nscalar, kz. cbn [klit kdiv RS]. rewrite <- INR_IZR_INZ. reflexivity. }
  rewrite Ew. f_equal. rewrite biinv_loop_unfold. pose proof (mean_tangent_rn P p H Hp Hne) as EM. cbn [K RS] in *. rewrite EM.
  destruct (Rltb _ e) eqn:E1; [reflexivity|].
  (* one update: avg1 = p + (mean - p) = mean *)
  assert (E2 : rplus_v G p (add (amean P) (neg p)) = amean P).
  { unfold rplus_v. cbn [g_compose g_exp Rn]. unfold rn_compose, rn_exp. rewrite (add_comm (amean P)). rewrite <- add_assoc. rewrite add_neg.
    rewrite Hp. rewrite <- (amean_len P H) at 1. apply add_zero_l. }
  rewrite E2. rewrite biinv_loop_unfold. pose proof (mean_tangent_rn P (amean P) H (amean_len P H) Hne) as EM2. cbn [K RS] in *. rewrite EM2.
  rewrite add_neg, sqnorm_zero. rewrite (Rltb_lt_true 0 e He). reflexivity.
Qed.

(* hence: the returned element is within the stopping tolerance of the arithmetic mean (the residual mean tangent at m IS mean - m) *)
Corollary average_biinvariant_rn_stationary p q pts e it : pts_ok (p :: q :: pts) -> 0 < e ->
  exists m, average_biinvariant G (p :: q :: pts) e (S (S it)) = Ok m /\ @sqnorm RS (add (amean (p :: q :: pts)) (neg m)) < e.
Proof.
  intros H He. rewrite (average_biinvariant_rn p q pts e it H He). eexists. split; [reflexivity|].
  destruct (Rltb _ e) eqn:E1; [apply Rltb_true; exact E1|].
  rewrite add_neg, sqnorm_zero. exact He.
Qed.

(* the arithmetic mean does not depend on the order of the points ... *)
Lemma vsum_perm pts pts' : Permutation pts pts' -> pts_ok pts -> vsum pts = vsum pts'.
Proof.
  intros HP. induction HP as [|x l l' HP IH|x y l|l l' l'' HP1 IH1 HP2 IH2]; intros H.
  - reflexivity.
  - inversion H as [|? ? Hx Hl]; subst. unfold vsum. cbn [fold_left]. assert (Hl' : pts_ok l') by (unfold pts_ok; rewrite <- HP; exact Hl).
    rewrite (fold_add_acc l _ Hl) by (apply add_len; [apply zero_len|exact Hx]). rewrite (fold_add_acc l' _ Hl') by (apply add_len; [apply zero_len|exact Hx]).
    f_equal. apply IH. exact Hl.
  - inversion H as [|? ? Hy Hl]; subst. inversion Hl as [|? ? Hx Hl2]; subst. unfold vsum. cbn [fold_left]. f_equal.
    rewrite !add_assoc. f_equal. apply add_comm.
  - rewrite IH1 by exact H. apply IH2. unfold pts_ok. rewrite <- HP1. exact H.
Qed.
Theorem amean_order_independent pts pts' : Permutation pts pts' -> pts_ok pts -> amean pts = amean pts'.
Proof. intros HP H. unfold amean. rewrite (vsum_perm pts pts' HP H). rewrite (Permutation_length HP). reflexivity. Qed.

(* ... and commutes with translation of all points (left and right translation coincide: the group is commutative) *)
Lemma vsum_translate g pts : length g = n -> pts_ok pts -> vsum (map (fun p => add g p) pts) = add (vsum pts) (scl g (INR (length pts))).
Proof.
  intros Hg H. induction H as [|p pts Hp Hps IH].
  - cbn [map length INR]. unfold vsum. cbn [fold_left]. rewrite (scl_0 g Hg). symmetry. apply add_zero. apply zero_len.
  - cbn [map].
    assert (Hps' : pts_ok (map (fun x => add g x) pts)).
    { unfold pts_ok in *. apply Forall_map. eapply Forall_impl; [|exact Hps]. intros a Ha. apply add_len; assumption. }
    pose proof (vsum_cons (add g p) _ (add_len g p n Hg Hp) Hps') as E1. pose proof (vsum_cons p pts Hp Hps) as E2. cbn [K RS] in *. unfold Mat.vec in *. cbn [K RS] in *.
    rewrite E1, E2, IH.
    change (length (p :: pts)) with (S (length pts)). rewrite S_INR, scl_plus, scl_one.
    (* (g + p) + (S + k g) = (p + S) + (k g + g) *)
    rewrite (add_comm g p). rewrite !add_assoc. f_equal. rewrite <- !add_assoc. rewrite (add_comm g (vsum pts)). rewrite !add_assoc. f_equal.
    apply add_comm.
Qed.
Theorem amean_translate g pts : length g = n -> pts_ok pts -> pts <> [] -> amean (map (g_compose G g) pts) = g_compose G g (amean pts).
Proof.
  intros Hg H Hne. unfold amean. change (map (g_compose G g) pts) with (map (fun p : vec => add g p) pts). change (g_compose G g) with (fun p : vec => add g p). cbv beta.
  pose proof (vsum_translate g pts Hg H) as EV. cbn [K RS] in *. unfold Mat.vec in *. cbn [K RS] in *. rewrite map_length, EV, scl_add, scl_scl.
  assert (HN : INR (length pts) <> 0) by (apply not_0_INR; destruct pts; [congruence|discriminate]).
  replace (INR (length pts) * (1 / INR (length pts))) with 1 by (field; exact HN). rewrite scl_one.
  apply add_comm.
Qed.
End Dim.
