(* AdjTac.v — tactics for identities that hold modulo a unit-norm hypothesis:
   `ring [H]` with H : w*w = 1 - x*x - y*y - z*z  (resp. i*i = 1 - r*r) used as a rewrite rule. *)
From Coq Require Import Reals ZArith List Lra.
From Manif Require Import Scalar Mat Consts Group RInst Tac SO3Proofs AlgTac.
Import ListNotations.
Local Open Scope R_scope.

Lemma n4_w x y z w : n4 x y z w = 1 -> w * w = 1 - x * x - y * y - z * z.
Proof. unfold n4; intros; lra. Qed.
Lemma n2_i r i : r * r + i * i = 1 -> i * i = 1 - r * r.
Proof. intros; lra. Qed.

(* close entrywise goals by ring, possibly modulo one or two unit-norm rules *)
Ltac ringm1 H := first [ ring | ring [H] ].
Ltac ringm2 H1 H2 := first [ ring | ring [H1] | ring [H2] | ring [H1 H2] ].
