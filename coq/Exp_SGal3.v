(* Exp_SGal3.v — C02 for SGal(3): above the small-angle threshold the 5x5 matrix of the model's exp (rotation through
   angle-axis; velocity V nu; position V rho + E (tau nu) with V = SO3 left Jacobian and E = fillE, as the code computes
   them; time tau) is the matrix exponential of hat.  Same method as Exp_SE3.v; the entries along the ray are affine in
   1, s, s^2/2, Sf, Cf, Df, Ef. *)
From Coq Require Import Reals ZArith List Lra Lia.
From Coquelicot Require Import Coquelicot.
From Manif Require Import Scalar Mat Consts Group RInst Tac SO2 SO3 SE3 SGal3 Generic LieSpec Ode ExpSpec AlgTac Exp_SO3 JacInv_SO3 AdjExp_SO3 Exp_SE3 Exp_SE23.
Import ListNotations.
Local Open Scope R_scope.

Section SGal3.
Variables a b c d e f x y z tau phi : R.
Hypothesis Hphi : phi <> 0.
Hypothesis Hphi2 : phi * phi = x * x + y * y + z * z.
Local Notation S := (Sf phi).
Local Notation C := (Cf phi).
Local Notation D := (Df phi).
Definition Ef (s : R) := (s * s / 2 - Cf phi s) / (phi * phi).
Definition aff7 (k0 k1 k2 k3 k4 k5 k6 s : R) : R := k0 + k1 * s + k2 * S s + k3 * C s + k4 * D s + k5 * (s * s / 2) + k6 * Ef s.

Lemma dE s : is_derive Ef s (D s).
Proof. unfold Ef, Df, Sf, Cf. auto_derive; [exact I|]. field. exact Hphi. Qed.
Lemma dQ s : is_derive (fun s => s * s / 2) s s.
Proof. auto_derive; [exact I|]. field. Qed.
Lemma der_aff7 k0 k1 k2 k3 k4 k5 k6 s v :
  v = k1 + k2 * (1 - (x * x + y * y + z * z) * C s) + k3 * S s + k4 * C s + k5 * s + k6 * D s ->
  is_derive (aff7 k0 k1 k2 k3 k4 k5 k6) s v.
Proof.
  intros ->. unfold aff7.
  replace (k1 + k2 * (1 - (x * x + y * y + z * z) * C s) + k3 * S s + k4 * C s + k5 * s + k6 * D s)
    with (0 + k1 * 1 + k2 * (1 - (x * x + y * y + z * z) * C s) + k3 * S s + k4 * C s + k5 * s + k6 * D s) by ring.
  repeat apply @is_derive_plus.
  - apply @is_derive_const.
  - apply is_derive_scal. apply @is_derive_id.
  - apply is_derive_scal. apply (dS x y z phi Hphi Hphi2).
  - apply is_derive_scal. apply (dC phi Hphi).
  - apply is_derive_scal. apply (dD phi Hphi).
  - apply is_derive_scal. apply dQ.
  - apply is_derive_scal. apply dE.
Qed.

Definition Hsg : list (list R) :=
  [[0; - z; y; d; a]; [z; 0; - x; e; b]; [- y; x; 0; f; c]; [0; 0; 0; 0; tau]; [0; 0; 0; 0; 0]].
Definition Gsg (s : R) : list (list R) :=
  let '(p1, q1, r1) := w1 a b c x y z in let '(p2, q2, r2) := w2 a b c x y z in
  let '(u1, v1, t1) := w1 d e f x y z in let '(u2, v2, t2) := w2 d e f x y z in
  [[aff7 1 0 0 (- (y * y + z * z)) 0 0 0 s; aff7 0 0 (- z) (x * y) 0 0 0 s; aff7 0 0 y (x * z) 0 0 0 s;
      aff7 0 d 0 u1 u2 0 0 s; aff7 0 a 0 p1 (p2 + tau * u1) (tau * d) (tau * u2) s];
   [aff7 0 0 z (x * y) 0 0 0 s; aff7 1 0 0 (- (x * x + z * z)) 0 0 0 s; aff7 0 0 (- x) (y * z) 0 0 0 s;
      aff7 0 e 0 v1 v2 0 0 s; aff7 0 b 0 q1 (q2 + tau * v1) (tau * e) (tau * v2) s];
   [aff7 0 0 (- y) (x * z) 0 0 0 s; aff7 0 0 x (y * z) 0 0 0 s; aff7 1 0 0 (- (x * x + y * y)) 0 0 0 s;
      aff7 0 f 0 t1 t2 0 0 s; aff7 0 c 0 r1 (r2 + tau * t1) (tau * f) (tau * t2) s];
   [aff7 0 0 0 0 0 0 0 s; aff7 0 0 0 0 0 0 0 s; aff7 0 0 0 0 0 0 0 s; aff7 1 0 0 0 0 0 0 s; aff7 0 tau 0 0 0 0 0 s];
   [aff7 0 0 0 0 0 0 0 s; aff7 0 0 0 0 0 0 0 s; aff7 0 0 0 0 0 0 0 s; aff7 0 0 0 0 0 0 0 s; aff7 1 0 0 0 0 0 0 s]].

Lemma Gsg_ode s i j : is_derive (fun s => fmat 4 (Gsg s) i j) s (mmul 4 (fmat 4 (Gsg s)) (fmat 4 Hsg) i j).
Proof.
  unfold mmul. rewrite !sum_Sn, sum_O. unfold Hierarchy.plus; simpl.
  ij5 i j; unfold fmat, Gsg, Hsg, w2, w1; cbn [Nat.leb andb mnth nth];
  try (apply is_derive_ext with (f := fun _ => 0); [reflexivity|];
       match goal with |- is_derive _ _ ?d => replace d with 0 by ring end; apply @is_derive_const).
  all: apply der_aff7; unfold aff7; ring.
Qed.

Lemma sg_matexp : MatExp 4 Hsg (Gsg 1).
Proof.
  intros i j Hi Hj.
  apply (ode_matexp 4 (fmat 4 Hsg) (fun s => fmat 4 (Gsg s)))
    with (a := Rabs x + Rabs y + Rabs z + Rabs a + Rabs b + Rabs c + Rabs d + Rabs e + Rabs f + Rabs tau); try assumption.
  - intros i' j' Hi'. unfold fmat, Gsg, w2, w1, mid, aff7, Ef, Df, Sf, Cf. rewrite !Rmult_0_l, cos_0, sin_0.
    ij5 i' j'; cbn [Nat.leb andb mnth nth Nat.eqb]; try reflexivity; try lia; field; exact Hphi.
  - apply Gsg_ode.
  - intros i' j'. unfold fmat, Hsg.
    assert (Hx := Rabs_pos x). assert (Hy := Rabs_pos y). assert (Hz := Rabs_pos z).
    assert (Ha := Rabs_pos a). assert (Hb := Rabs_pos b). assert (Hc := Rabs_pos c).
    assert (Hd := Rabs_pos d). assert (He := Rabs_pos e). assert (Hf := Rabs_pos f). assert (Ht := Rabs_pos tau).
    ij5 i' j'; cbn [Nat.leb andb mnth nth]; rewrite ?Rabs_Ropp, ?Rabs_R0; lra.
Qed.
End SGal3.

Theorem SGal3_exp_matexp eps a b c d e f x y z tau : 0 < eps -> eps < x * x + y * y + z * z ->
  MatExp 4 (g_hat (SGal3 RS eps) [a; b; c; d; e; f; x; y; z; tau])
           (g_transform (SGal3 RS eps) (g_exp (SGal3 RS eps) [a; b; c; d; e; f; x; y; z; tau])).
Proof.
  intros He Hgt.
  set (n := x * x + y * y + z * z) in *.
  assert (Hn : 0 < n) by lra.
  set (phi := sqrt n).
  assert (Hphi : phi <> 0) by (unfold phi; intros H0; apply sqrt_eq_0 in H0; lra).
  assert (Hphi2 : phi * phi = x * x + y * y + z * z) by (unfold phi; rewrite sqrt_sqrt by lra; reflexivity).
  assert (Hh : g_hat (SGal3 RS eps) [a; b; c; d; e; f; x; y; z; tau] = Hsg a b c d e f x y z tau) by (rcbv; list_eq; ring).
  assert (Hx : g_transform (SGal3 RS eps) (g_exp (SGal3 RS eps) [a; b; c; d; e; f; x; y; z; tau]) = Gsg a b c d e f x y z tau phi 1).
  { cbn [g_transform g_exp SGal3]. unfold sg_exp, sgt_ang, sgt_lin, sgt_lin2, sgt_t. cbn [vslice skipn firstn vnth nth]. cbn [K RS].
    pose proof (so3_exp_rodrigues eps He x y z Hgt) as ER. pose proof (so3_ljac_poly eps x y z Hgt) as EL. cbv zeta in ER, EL.
    fold n in ER, EL. fold phi in ER, EL.
    assert (EE : fillE RS eps [x; y; z] = @madd RS (SGal3.I33 RS (1 / 2))
                  (@madd RS (@mscale RS ((phi - sin phi) / n / phi) (@skew3 RS [x; y; z]))
                            (@Mat.mmul RS (@mscale RS ((n + 2 * cos phi - 2) / (2 * n * n)) (@skew3 RS [x; y; z])) (@skew3 RS [x; y; z])))).
    { unfold fillE. assert (Hsq : @sqnorm RS [x; y; z] = n) by (unfold n; mat_unfold; ring). rewrite Hsq.
      cbn [kltb RS]. rewrite (Rltb_lt_false n eps) by lra. cbn [ksqrt ksin kcos RS]. fold phi. unfold c_half, kz. cbn. 
      repeat f_equal; try field; try lra. }
    assert (Hq : exists q0 q1 q2 q3, so3_exp RS eps [x; y; z] = [q0; q1; q2; q3]).
    { unfold so3_exp. destruct (kgtb _ _); [|do 4 eexists; reflexivity].
      unfold quat_of_angle_axis, eigen_normalized. destruct (kgtb _ _); do 4 eexists; reflexivity. }
    destruct Hq as (q0 & q1 & q2 & q3 & Eq). rewrite Eq in ER |- *. rewrite EL, EE.
    unfold sg_transform, sg_rotation, sg_q, sg_p, sg_v, sg_t. cbn [vscale map].
    repeat match goal with |- context [@mvmul RS ?M ?r] =>
      let Hm := fresh "Hm" in
      assert (Hm : @mvmul RS M r = [@dot RS (nth 0 M []) r; @dot RS (nth 1 M []) r; @dot RS (nth 2 M []) r])
        by (unfold poly3, SGal3.I33; mat_unfold; reflexivity); rewrite Hm; clear Hm end.
    cbn [vadd vmap2 app vslice skipn firstn vnth nth]. rewrite ER.
    unfold Gsg, w2, w1, aff7, Ef, Df, Sf, Cf, poly3, SGal3.I33. rewrite !Rmult_1_l. mat_unfold. unfold n. rewrite <- Hphi2.
    match goal with |- @eq _ ?u ?v => change (@eq (list (list R)) u v) end.
    assert (Hpp : phi * phi <> 0) by nra.
    list_eq; field_simplify_eq; try (repeat split; assumption); try exact Hphi; try ring. }
  rewrite Hh, Hx. apply sg_matexp; assumption.
Qed.
