(* Dual.v — the forward-mode dual-number scalar over any scalar record (the ceres::Jet / autodiff pattern with one
   infinitesimal direction): K = primal * dual, eps^2 = 0.  Every comparison looks at the primal part only (as
   ceres::Jet's operator< does); literals have a zero dual part; the transcendental primitives carry the chain rule.
   The whole scalar-generic model instantiated at DS S is the model of manif instantiated over such a scalar. *)
From Coq Require Import ZArith List Bool.
From Manif Require Import Scalar.

Section Dual.
Variable S : Sc.
Local Notation T := (K S).
Local Notation "a + b" := (kadd S a b) : k_scope.
Local Notation "a - b" := (ksub S a b) : k_scope.
Local Notation "a * b" := (kmul S a b) : k_scope.
Local Notation "a / b" := (kdiv S a b) : k_scope.
Local Notation "- a" := (kopp S a) : k_scope.
Local Open Scope k_scope.

Definition d_add (x y : T * T) : T * T := (fst x + fst y, snd x + snd y).
Definition d_sub (x y : T * T) : T * T := (fst x - fst y, snd x - snd y).
Definition d_mul (x y : T * T) : T * T := (fst x * fst y, fst x * snd y + snd x * fst y).
(* (a + b e) / (c + d e) = a/c + (b - (a/c) d)/c e *)
Definition d_div (x y : T * T) : T * T :=
  let q := fst x / fst y in (q, (snd x - q * snd y) / fst y).
Definition d_opp (x : T * T) : T * T := (- fst x, - snd x).
Definition d_sin (x : T * T) : T * T := (ksin S (fst x), snd x * kcos S (fst x)).
Definition d_cos (x : T * T) : T * T := (kcos S (fst x), - (snd x * ksin S (fst x))).
Definition d_sqrt (x : T * T) : T * T := let r := ksqrt S (fst x) in (r, snd x / (kz 2 * r)).
Definition d_acos (x : T * T) : T * T :=
  (kacos S (fst x), - (snd x / ksqrt S (kz 1 - fst x * fst x))).
(* atan2(y, x): d = (x dy - y dx) / (x^2 + y^2) *)
Definition d_atan2 (y x : T * T) : T * T :=
  (katan2 S (fst y) (fst x), (fst x * snd y - fst y * snd x) / (fst x * fst x + fst y * fst y)).

Definition DS : Sc := {|
  K := T * T; k0 := (k0 S, k0 S); k1 := (k1 S, k0 S);
  kadd := d_add; ksub := d_sub; kmul := d_mul; kdiv := d_div; kopp := d_opp;
  kltb := fun x y => kltb S (fst x) (fst y);
  klit := fun n d => (klit S n d, k0 S);
  ksin := d_sin; kcos := d_cos; ksqrt := d_sqrt; kacos := d_acos; katan2 := d_atan2
|}.
End Dual.
