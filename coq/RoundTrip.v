(* RoundTrip.v — property C04, the consequences: (X + t) - X = t and X + (Y - X) = Y (right and left versions), for any
   group with a GroupCore (C01), given the two halves of C03 at the relative element:  log(exp t) = t,  exp(log Z) = Z. *)
From Coq Require Import Reals ZArith List Lra.
From Manif Require Import Scalar Mat Group RInst Generic LieSpec.
Import ListNotations.
Local Open Scope R_scope.

Section RT.
Variable G : GroupOps RS.
Variable C : GroupCore G.
Local Notation valid := (gc_valid C).
Local Notation rp X t := (fst (fst (rplus G X t false false))).
Local Notation lp X t := (fst (fst (lplus G X t false false))).
Local Notation rm X Y := (fst (fst (rminus G X Y false false))).
Local Notation lm X Y := (fst (fst (lminus G X Y false false))).

Theorem rplus_rminus X t : valid X -> valid (g_exp G t) -> g_log G (g_exp G t) = t -> rm (rp X t) X = t.
Proof.
  intros HX He Hl. cbn [rplus rminus fst].
  rewrite <- (gc_assoc G C) by (try apply (gc_inverse_valid G C); assumption).
  rewrite (gc_inv_l G C) by assumption. rewrite (gc_neutral_l G C) by assumption. exact Hl.
Qed.
Theorem rminus_rplus X Y : valid X -> valid Y ->
  g_exp G (g_log G (g_compose G (g_inverse G X) Y)) = g_compose G (g_inverse G X) Y -> rp X (rm Y X) = Y.
Proof.
  intros HX HY He. cbn [rplus rminus fst]. rewrite He.
  rewrite <- (gc_assoc G C) by (try apply (gc_inverse_valid G C); assumption).
  rewrite (gc_inv_r G C) by assumption. apply (gc_neutral_l G C). assumption.
Qed.
Theorem lplus_lminus X t : valid X -> valid (g_exp G t) -> g_log G (g_exp G t) = t -> lm (lp X t) X = t.
Proof.
  intros HX He Hl. cbn [lplus lminus fst].
  rewrite (gc_assoc G C) by (try apply (gc_inverse_valid G C); assumption).
  rewrite (gc_inv_r G C) by assumption. rewrite (gc_neutral_r G C) by assumption. exact Hl.
Qed.
Theorem lminus_lplus X Y : valid X -> valid Y ->
  g_exp G (g_log G (g_compose G Y (g_inverse G X))) = g_compose G Y (g_inverse G X) -> lp X (lm Y X) = Y.
Proof.
  intros HX HY He. cbn [lplus lminus fst]. rewrite He.
  rewrite (gc_assoc G C) by (try apply (gc_inverse_valid G C); assumption).
  rewrite (gc_inv_l G C) by assumption. apply (gc_neutral_r G C). assumption.
Qed.
End RT.
