(* HistProofs.v — property C08 over the reals: the invariant "right shape and |n^2 - 1| <= eps for the
   rotation coefficients" is preserved by every step of the history machine of Hist.v, hence by every
   history, with a bound (eps) that does not depend on the length of the history; and every element
   satisfying it passes the constructors' assertion |n - 1| < eps.  NormCore is what is proved per group
   (HistInst.v); the induction over histories is done once here. *)
From Coq Require Import Reals ZArith List Lra Bool.
From Manif Require Import Scalar Mat Consts Group RInst Tac Generic Algorithms Hist.
Import ListNotations.
Local Open Scope R_scope.

(* the polynomial renormalisation: x * approxSqrtInv(x)^2 - 1 is cubic in x - 1 *)
Definition asi (x : R) : R := 15 / 8 - 5 / 4 * x + 3 / 8 * x * x.
Lemma renorm_cubic d : (1 + d) * (asi (1 + d) * asi (1 + d)) - 1 = d * d * d * (5 / 8 - 15 / 64 * d + 9 / 64 * (d * d)).
Proof. unfold asi. field. Qed.

Lemma Rabs_le_iff a b : Rabs a <= b <-> - b <= a <= b.
Proof. unfold Rabs. destruct (Rcase_abs a); split; intros H; lra. Qed.

Lemma renorm_bound eps a b : 0 < eps -> eps <= 1 / 8 -> Rabs (a - 1) <= eps -> Rabs (b - 1) <= eps ->
  Rabs (a * b * (asi (a * b) * asi (a * b)) - 1) <= eps.
Proof.
  intros He He8 Ha Hb. apply Rabs_le_iff in Ha. apply Rabs_le_iff in Hb.
  set (d := a * b - 1). replace (a * b) with (1 + d) by (unfold d; ring). rewrite renorm_cubic.
  assert (Hd : - (3 * eps) <= d <= 3 * eps) by (unfold d; split; nra).
  assert (Hd1 : - (3 / 8) <= d <= 3 / 8) by lra.
  set (p := 5 / 8 - 15 / 64 * d + 9 / 64 * (d * d)).
  assert (Hp : 0 <= p <= 1) by (unfold p; split; nra).
  assert (Hdd : 0 <= d * d <= 9 * eps * eps) by (split; nra).
  apply Rabs_le_iff.
  assert (Hc : - (27 * eps * eps * eps) <= d * d * d <= 27 * eps * eps * eps).
  { split.
    - destruct (Rle_dec 0 d); [nra|]. assert (- d <= 3 * eps) by lra. assert (0 <= - d) by lra.
      assert ((- d) * (d * d) <= (3 * eps) * (9 * eps * eps)) by (apply Rmult_le_compat; lra). nra.
    - destruct (Rle_dec 0 d); [|nra]. assert (d * (d * d) <= (3 * eps) * (9 * eps * eps)) by (apply Rmult_le_compat; lra). nra. }
  assert (He3 : 27 * eps * eps * eps <= eps) by nra.
  split.
  - destruct (Rle_dec 0 (d * d * d)); [nra|]. assert (- (d * d * d) * p <= - (d * d * d) * 1) by (apply Rmult_le_compat_l; lra). nra.
  - destruct (Rle_dec 0 (d * d * d)); [|nra]. assert ((d * d * d) * p <= (d * d * d) * 1) by (apply Rmult_le_compat_l; lra). nra.
Qed.

(* kept or renormalised, the product of two near-unit norms is near-unit: the decision the code takes *)
Lemma renorm_decision eps a b : 0 < eps -> eps <= 1 / 8 -> Rabs (a - 1) <= eps -> Rabs (b - 1) <= eps ->
  Rabs ((if Rltb eps (if Rltb (a * b - 1) 0 then - (a * b - 1) else a * b - 1)
         then a * b * (asi (a * b) * asi (a * b)) else a * b) - 1) <= eps.
Proof.
  intros He He8 Ha Hb.
  destruct (Rltb eps _) eqn:E.
  - apply renorm_bound; assumption.
  - apply Rltb_false in E. destruct (Rltb (a * b - 1) 0) eqn:E2; [apply Rltb_true in E2|apply Rltb_false in E2]; apply Rabs_le_iff; lra.
Qed.

(* accepted by the constructors: |sqrt(n2) - 1| < eps whenever |n2 - 1| <= eps *)
Lemma accepted eps n2 : 0 < eps -> eps <= 1 / 8 -> Rabs (n2 - 1) <= eps -> Rabs (sqrt n2 - 1) < eps.
Proof.
  intros He He8 H. apply Rabs_le_iff in H.
  assert (Hn : 0 < n2) by lra. pose proof (sqrt_lt_R0 n2 Hn) as Hs. pose proof (sqrt_sqrt n2 (Rlt_le _ _ Hn)) as Hss.
  apply Rabs_def1; nra.
Qed.

Record NormCore (G : GroupOps RS) (cast : list R -> list R) (eps : R) : Type := mkNorm {
  nc_inv : list R -> Prop;               (* right shape and |n^2 - 1| <= eps for the rotation coefficients *)
  nc_twf : list R -> Prop;               (* tangent of the right size *)
  nc_compose : forall X Y, nc_inv X -> nc_inv Y -> nc_inv (g_compose G X Y);
  nc_inverse : forall X, nc_inv X -> nc_inv (g_inverse G X);
  nc_exp : forall t, nc_twf t -> nc_inv (g_exp G t);
  nc_log : forall X, nc_inv X -> nc_twf (g_log G X);
  nc_scale : forall t s, nc_twf t -> nc_twf (@vscale_r RS t s);
  nc_zero : nc_twf (@vzero RS (g_dof G));
  nc_cast : forall X, nc_inv X -> nc_inv (cast X);
  nc_draw : list R -> Prop;              (* the draws LieGroup::Random() consumes are in range (UnitRandom's u1 in [0,1]) *)
  nc_draw_zero : nc_draw (@vzero RS (g_dof G));
  nc_random : forall u, nc_twf u -> nc_draw u -> nc_inv (g_random G u);
  nc_accept : forall X, nc_inv X -> g_assert_ok G X = true
}.
Arguments nc_inv {G cast eps}. Arguments nc_twf {G cast eps}. Arguments nc_draw {G cast eps}.

Section History.
Variable G : GroupOps RS.
Variable cast : list R -> list R.
Variable eps : R.
Variable N : NormCore G cast eps.
Local Notation Inv := (nc_inv N).
Local Notation Twf := (nc_twf N).
Local Notation Draw := (nc_draw N).

Lemma Forall_nth_default {A} (P : A -> Prop) (l : list A) (d : A) n : Forall P l -> P d -> P (nth n l d).
Proof. intros Hl Hd. revert n. induction Hl as [|x l Hx Hl IH]; intros [|n]; cbn [nth]; auto. Qed.
Lemma nth_t_twf ts s : Forall Twf ts -> Twf (nth_t G ts s).
Proof. intros H. unfold nth_t. apply Forall_nth_default; [exact H|apply nc_zero]. Qed.
Lemma nth_t_draw ts s : Forall Draw ts -> Draw (nth_t G ts s).
Proof. intros H. unfold nth_t. apply Forall_nth_default; [exact H|apply nc_draw_zero]. Qed.

Lemma slerp_inv X Y u : Inv X -> Inv Y -> Inv (match interpolate_slerp G X Y u with Ok Z => Z | _ => X end).
Proof.
  intros HX HY. unfold interpolate_slerp. destruct (in01 u); [|exact HX].
  unfold rplus_v, rminus_v, tscale. apply nc_compose; [exact HX|]. apply nc_exp. apply nc_scale. apply nc_log.
  apply nc_compose; [apply nc_inverse; exact HX | exact HY].
Qed.

Theorem hstep_inv ts us X Y digit s : Forall Twf ts -> Forall Draw ts -> Inv X -> Inv Y ->
  Inv (fst (hstep G cast ts us (X, Y) digit s)) /\ Inv (snd (hstep G cast ts us (X, Y) digit s)).
Proof.
  intros Hts Hds HX HY. pose proof (nth_t_twf ts s Hts) as Ht. pose proof (nth_t_draw ts s Hds) as Hd.
  unfold hstep. destruct digit as [|p|p]; [split; assumption| |split; assumption].
  do 4 (try match goal with q : positive |- _ => destruct q as [q|q|] end); cbn [fst snd]; split; try assumption; unfold rplus_v, lplus_v.
  all: try (apply nc_compose; try assumption).
  all: try (apply nc_exp; try assumption).
  all: try (apply nc_inverse; assumption).
  all: try (apply nc_cast; assumption).
  all: try (apply slerp_inv; assumption).
  all: try (apply nc_random; assumption).
Qed.

(* every history, of any length: the bound eps does not depend on the number of steps *)
Theorem hrun_inv fuel ts us code s X Y : Forall Twf ts -> Forall Draw ts -> Inv X -> Inv Y ->
  Inv (fst (hrun G cast fuel ts us code s (X, Y))) /\ Inv (snd (hrun G cast fuel ts us code s (X, Y))).
Proof.
  intros Hts Hds. revert code s X Y. induction fuel as [|fuel IH]; intros code s X Y HX HY; cbn [hrun].
  - split; assumption.
  - destruct (Z.eqb code 0); [split; assumption|].
    destruct (hstep_inv ts us X Y (code mod 16) s Hts Hds HX HY) as [H1 H2].
    destruct (hstep G cast ts us (X, Y) (code mod 16) s) as [X' Y'] eqn:E. cbn [fst snd] in *. apply IH; assumption.
Qed.

(* the same statement over an explicit list of steps (no encoding, no fuel) *)
Theorem history_inv ts us (ops : list (Z * nat)) X Y : Forall Twf ts -> Forall Draw ts -> Inv X -> Inv Y ->
  let st := fold_left (fun st o => hstep G cast ts us st (fst o) (snd o)) ops (X, Y) in
  Inv (fst st) /\ Inv (snd st) /\ g_assert_ok G (fst st) = true /\ g_assert_ok G (snd st) = true.
Proof.
  intros Hts Hds. revert X Y. induction ops as [|o ops IH]; intros X Y HX HY; cbn [fold_left].
  - repeat split; try assumption; apply (nc_accept _ _ _ N); assumption.
  - destruct (hstep_inv ts us X Y (fst o) (snd o) Hts Hds HX HY) as [H1 H2].
    destruct (hstep G cast ts us (X, Y) (fst o) (snd o)) as [X' Y'] eqn:E. cbn [fst snd] in *. apply IH; assumption.
Qed.
End History.
