(* Properties_C13.v — property C13: construction, accessors and conversions are consistent and validated.
   Over the reals, on the model of the concrete classes' constructors (Ctor.v) and accessors.
   Closed: validation (with assertions: rejected iff | |rotation data| - 1 | >= eps, accepted iff < eps; without:
   never rejected); SO2 / SE2 from an angle or a complex number (accessors return the supplied quantities, angle()
   round trip on (-pi, pi], feeding angle() back reproduces the element, SE2 from an isometry); SO3 rotation() is
   orthonormal with determinant +1 for every valid element; an angle-axis pair with a unit axis gives a valid element;
   roll-pitch-yaw gives the valid element whose rotation() is Rz(yaw) Ry(pitch) Rx(roll) for ALL angles (no gimbal
   restriction); normalize() makes non-degenerate data acceptable; cast<>() of a valid element is the element.
   Not proved (evaluated on the implementation on every run): Quaternion(Matrix3)'s four branches (isometry
   constructors of the 3D groups), SE_2(3) / SGal(3) accessor round trips, precision of cast<float>. *)
From Coq Require Import Reals ZArith List Lra.
From Manif Require Import Scalar Mat Group RInst Generic LieSpec SO2 SE2 SO3 SE3 Rn Ctor Hist SE2Proofs SO3Proofs CtorProofs QuatOfMatrix SE23 SGal3 CtorFamily.
Import ListNotations.
Local Open Scope R_scope.

Theorem C13_ndebug (G : GroupOps RS) c : checked G false c = Ok c.
Proof. exact (checked_ndebug G c). Qed.
Theorem C13_accept (G : GroupOps RS) c : g_assert_ok G c = true -> checked G true c = Ok c.
Proof. exact (checked_accept G c). Qed.
Theorem C13_reject (G : GroupOps RS) c : g_assert_ok G c = false -> checked G true c = InvalidArgument.
Proof. exact (checked_reject G c). Qed.
Theorem C13_SO3_assert_spec eps x y z w : so3_assert_ok RS eps [x; y; z; w] = true <-> Rabs (sqrt (n4 x y z w) - 1) < eps.
Proof. exact (so3_assert_spec eps x y z w). Qed.
Theorem C13_SO2_assert_spec eps r i : so2_assert_ok RS eps [r; i] = true <-> Rabs (sqrt (r * r + i * i) - 1) < eps.
Proof. exact (so2_assert_spec eps r i). Qed.
Theorem C13_SE2_assert_spec eps x y r i : se2_assert_ok RS eps [x; y; r; i] = true <-> Rabs (sqrt (r * r + i * i) - 1) < eps.
Proof. exact (se2_assert_spec eps x y r i). Qed.
Theorem C13_SE3_assert_spec eps tx ty tz x y z w : se3_assert_ok RS eps [tx; ty; tz; x; y; z; w] = true <-> Rabs (sqrt (n4 x y z w) - 1) < eps.
Proof. exact (se3_assert_spec eps tx ty tz x y z w). Qed.
Theorem C13_SO3_reject eps x y z w : eps <= Rabs (sqrt (n4 x y z w) - 1) -> checked (SO3 RS eps) true [x; y; z; w] = InvalidArgument.
Proof. exact (so3_reject eps x y z w). Qed.
Theorem C13_SO3_accept eps x y z w : Rabs (sqrt (n4 x y z w) - 1) < eps -> checked (SO3 RS eps) true [x; y; z; w] = Ok [x; y; z; w].
Proof. exact (so3_accept_ctor eps x y z w). Qed.
Theorem C13_SO2_reject eps r i : eps <= Rabs (sqrt (r * r + i * i) - 1) -> checked (SO2 RS eps) true [r; i] = InvalidArgument.
Proof. exact (so2_reject eps r i). Qed.
Theorem C13_SO2_accept eps r i : Rabs (sqrt (r * r + i * i) - 1) < eps -> checked (SO2 RS eps) true [r; i] = Ok [r; i].
Proof. exact (so2_accept_ctor eps r i). Qed.
Print Assumptions C13_SO3_reject.

Theorem C13_SO2_from_angle th : @so2_ctor RS 1 [[th]] = Some [cos th; sin th] /\ so2_valid [cos th; sin th] /\
  so2_rotation RS [cos th; sin th] = [[cos th; - sin th]; [sin th; cos th]].
Proof. exact (so2_from_angle th). Qed.
Theorem C13_SO2_angle_roundtrip th : - PI < th <= PI -> so2_angle RS [cos th; sin th] = th.
Proof. exact (so2_angle_roundtrip th). Qed.
Theorem C13_SO2_angle_feedback X : so2_valid X -> @so2_ctor RS 1 [[so2_angle RS X]] = Some X.
Proof. exact (so2_angle_feedback X). Qed.
Theorem C13_SO2_from_complex r i : @so2_ctor RS 0 [[r; i]] = Some [r; i] /\ so2_real RS [r; i] = r /\ so2_imag RS [r; i] = i.
Proof. exact (so2_from_complex r i). Qed.
Theorem C13_SE2_from_angle x y th : @se2_ctor RS 0 [[x; y; th]] = Some [x; y; cos th; sin th] /\ se2_valid [x; y; cos th; sin th] /\
  se2_translation RS [x; y; cos th; sin th] = [x; y].
Proof. exact (se2_from_angle_spec x y th). Qed.
Theorem C13_SE2_from_isometry x y c s : c * c + s * s = 1 -> @se2_ctor RS 2 [[x; y]; [c; - s; s; c]] = Some [x; y; c; s].
Proof. exact (se2_from_isometry x y c s). Qed.

Theorem C13_SO3_rotation_orthonormal x y z w : n4 x y z w = 1 ->
  @mmul RS (so3_rotation RS [x; y; z; w]) (@mT RS (so3_rotation RS [x; y; z; w])) = @mid RS 3 /\ det3 (so3_rotation RS [x; y; z; w]) = 1.
Proof. exact (so3_rotation_orthonormal x y z w). Qed.
Theorem C13_SO2_rotation_orthonormal r i : r * r + i * i = 1 ->
  @mmul RS (so2_rotation RS [r; i]) (@mT RS (so2_rotation RS [r; i])) = @mid RS 2.
Proof. exact (so2_rotation_orthonormal r i). Qed.
Theorem C13_SO3_from_angle_axis th ux uy uz : ux * ux + uy * uy + uz * uz = 1 ->
  exists x y z w, @so3_ctor RS 1 [[th]; [ux; uy; uz]] = Some [x; y; z; w] /\ n4 x y z w = 1.
Proof. exact (so3_from_angle_axis th ux uy uz). Qed.
Theorem C13_SO3_from_rpy roll pitch yaw :
  exists x y z w, @so3_ctor RS 2 [[roll; pitch; yaw]] = Some [x; y; z; w] /\ n4 x y z w = 1 /\
    so3_rotation RS [x; y; z; w] = @mmul RS (@mmul RS (Rz yaw) (Ry pitch)) (Rx roll).
Proof. exact (so3_from_rpy roll pitch yaw). Qed.
Print Assumptions C13_SO3_from_rpy.

Theorem C13_SO3_normalize_accepted eps x y z w : 0 < eps -> 0 < n4 x y z w -> eps <= 1 / 8 -> so3_assert_ok RS eps (so3_normalize RS [x; y; z; w]) = true.
Proof. intros H. exact (so3_normalize_accepted eps H x y z w). Qed.
Theorem C13_SO3_cast x y z w : n4 x y z w = 1 -> so3_cast RS [x; y; z; w] = [x; y; z; w].
Proof. exact (so3_cast_valid x y z w). Qed.
Theorem C13_SO2_cast X : so2_valid X -> so2_cast RS X = X.
Proof. exact (so2_cast_valid X). Qed.
Theorem C13_SE2_cast X : se2_valid X -> se2_cast RS X = X.
Proof. exact (se2_cast_valid X). Qed.

(* construction from a rotation matrix (Eigen's Quaternion(Matrix3), all four branches): given the rotation matrix of a
   unit quaternion q the constructor returns q or -q, whose rotation() is the supplied matrix *)
Theorem C13_so3_from_matrix x y z w : n4 x y z w = 1 ->
  exists q, @so3_ctor RS 3 [concat (@quat_matrix RS [x; y; z; w])] = Some q /\
            so3_rotation RS q = @quat_matrix RS [x; y; z; w] /\ (q = [x; y; z; w] \/ q = [- x; - y; - z; - w]).
Proof. exact (so3_from_matrix x y z w). Qed.
Print Assumptions C13_so3_from_matrix.

(* SE3, SE_2(3), SGal(3): constructors from (translation, quaternion[, velocity[, time]]) and their accessors *)
Theorem C13_se3_accessors t0 t1 t2 x y z w :
  let X := [t0; t1; t2; x; y; z; w] in
  @se3_ctor RS 0 [[t0; t1; t2]; [x; y; z; w]] = Some X /\
  se3_t RS X = [t0; t1; t2] /\ se3_q RS X = [x; y; z; w] /\ se3_rotation RS X = so3_rotation RS [x; y; z; w] /\
  @se3_ctor RS 0 [se3_t RS X; se3_q RS X] = Some X.
Proof. exact (se3_ctor_accessors t0 t1 t2 x y z w). Qed.
Theorem C13_se23_accessors t0 t1 t2 x y z w v0 v1 v2 :
  let X := [t0; t1; t2; x; y; z; w; v0; v1; v2] in
  @se23_ctor RS 0 [[t0; t1; t2]; [x; y; z; w]; [v0; v1; v2]] = Some X /\
  se23_t RS X = [t0; t1; t2] /\ se23_q RS X = [x; y; z; w] /\ se23_v RS X = [v0; v1; v2] /\
  se23_rotation RS X = so3_rotation RS [x; y; z; w] /\
  @se23_ctor RS 0 [se23_t RS X; se23_q RS X; se23_v RS X] = Some X.
Proof. exact (se23_ctor_accessors t0 t1 t2 x y z w v0 v1 v2). Qed.
Theorem C13_sgal3_accessors p0 p1 p2 x y z w v0 v1 v2 t :
  let X := [p0; p1; p2; x; y; z; w; v0; v1; v2; t] in
  @sg_ctor RS 0 [[p0; p1; p2]; [x; y; z; w]; [v0; v1; v2]; [t]] = Some X /\
  sg_p RS X = [p0; p1; p2] /\ sg_q RS X = [x; y; z; w] /\ sg_v RS X = [v0; v1; v2] /\ sg_t RS X = t /\
  sg_rotation RS X = so3_rotation RS [x; y; z; w] /\
  @sg_ctor RS 0 [sg_p RS X; sg_q RS X; sg_v RS X; [sg_t RS X]] = Some X.
Proof. exact (sg_ctor_accessors p0 p1 p2 x y z w v0 v1 v2 t). Qed.
Theorem C13_se23_transform_layout t0 t1 t2 x y z w v0 v1 v2 :
  exists r00 r01 r02 r10 r11 r12 r20 r21 r22, so3_rotation RS [x; y; z; w] = [[r00; r01; r02]; [r10; r11; r12]; [r20; r21; r22]] /\
  se23_transform RS [t0; t1; t2; x; y; z; w; v0; v1; v2] = [[r00; r01; r02; t0; v0]; [r10; r11; r12; t1; v1]; [r20; r21; r22; t2; v2]; [0; 0; 0; 1; 0]; [0; 0; 0; 0; 1]].
Proof. exact (se23_transform_layout t0 t1 t2 x y z w v0 v1 v2). Qed.
Theorem C13_sgal3_transform_layout p0 p1 p2 x y z w v0 v1 v2 t :
  exists r00 r01 r02 r10 r11 r12 r20 r21 r22, so3_rotation RS [x; y; z; w] = [[r00; r01; r02]; [r10; r11; r12]; [r20; r21; r22]] /\
  sg_transform RS [p0; p1; p2; x; y; z; w; v0; v1; v2; t] = [[r00; r01; r02; v0; p0]; [r10; r11; r12; v1; p1]; [r20; r21; r22; v2; p2]; [0; 0; 0; 1; t]; [0; 0; 0; 0; 1]].
Proof. exact (sg_transform_layout p0 p1 p2 x y z w v0 v1 v2 t). Qed.

Example C13_nonvacuous : n4 (2/7) (3/7) (6/7) 0 = 1 /\ (3/5) * (3/5) + (4/5) * (4/5) = 1 /\ 1/8 <= Rabs (sqrt (n4 1 1 0 0) - 1).
Proof.
  unfold n4. repeat split; try lra. replace (1 * 1 + 1 * 1 + 0 * 0 + 0 * 0) with 2 by ring.
  assert (1 < sqrt 2) by (rewrite <- sqrt_1 at 1; apply sqrt_lt_1; lra).
  assert (sqrt 2 * sqrt 2 = 2) by (apply sqrt_sqrt; lra). rewrite Rabs_right by lra. nra.
Qed.
