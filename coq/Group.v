(* Group.v — the "minimum API" every manif group provides, as a record of
   functions on coefficient vectors (mirror of the per-group *_base.h /
   *Tangent_base.h).  Values and Jacobians are separate fields: in the C++ a
   Jacobian is computed inside the same function under `if (J)`, and never
   influences the value (that is property C09, checked by the correspondence
   over every output mask). *)
From Coq Require Import ZArith List Bool.
Import ListNotations.
From Manif Require Import Scalar Mat.

Record GroupOps (F : Sc) := mkGroup {
  g_dim : nat;      (* Dim *)
  g_dof : nat;      (* DoF *)
  g_rep : nat;      (* RepSize *)
  g_tra : nat;      (* rows of Transformation *)
  g_alg : nat;      (* rows of LieAlg *)
  g_actdim : nat;   (* size of the vector act() takes *)
  (* group side *)
  g_inverse : list (K F) -> list (K F);
  g_inverse_J : list (K F) -> list (list (K F));
  g_log : list (K F) -> list (K F);
  g_log_J : list (K F) -> list (list (K F));
  g_compose : list (K F) -> list (K F) -> list (K F);
  g_compose_Ja : list (K F) -> list (K F) -> list (list (K F));
  g_compose_Jb : list (K F) -> list (K F) -> list (list (K F));
  g_act : list (K F) -> list (K F) -> list (K F);
  g_act_Jm : list (K F) -> list (K F) -> list (list (K F));
  g_act_Jv : list (K F) -> list (K F) -> list (list (K F));
  g_adj : list (K F) -> list (list (K F));
  g_transform : list (K F) -> list (list (K F));
  g_rotation : list (K F) -> list (list (K F));
  g_translation : list (K F) -> list (K F);
  g_normalize : list (K F) -> list (K F);
  g_assert_ok : list (K F) -> bool;     (* AssignmentEvaluator's MANIF_ASSERT condition *)
  (* tangent side *)
  g_exp : list (K F) -> list (K F);
  g_exp_J : list (K F) -> list (list (K F));
  g_hat : list (K F) -> list (list (K F));
  g_rjac : list (K F) -> list (list (K F));
  g_ljac : list (K F) -> list (list (K F));
  g_rjacinv : list (K F) -> list (list (K F));
  g_ljacinv : list (K F) -> list (list (K F));
  g_smallAdj : list (K F) -> list (list (K F));
  g_generator : Z -> res (list (list (K F)));   (* argument: the C++ `int i` *)
  g_vee : list (list (K F)) -> list (K F);
  g_bracket : list (K F) -> list (K F) -> list (K F);   (* BracketEvaluatorImpl *)
  g_innerweights : list (list (K F));
  g_trandom : list (K F) -> list (K F);  (* Tangent::setRandom as a function of Eigen's setRandom() draw in [-1,1]^DoF *)
  g_grandom : list (K F) -> list (K F)   (* LieGroup::setRandom as a function of the DoF underlying draws: exp of a random tangent
                                            for SO2, SE2, Rn; for SO3, SE3, SE_2(3), SGal(3) the constructor applied to random
                                            translation-like parts and Eigen's Quaternion::UnitRandom (randQuat) *)
}.

Arguments g_dim {F}. Arguments g_dof {F}. Arguments g_rep {F}. Arguments g_tra {F}. Arguments g_alg {F}.
Arguments g_actdim {F}.
Arguments g_inverse {F}. Arguments g_inverse_J {F}. Arguments g_log {F}. Arguments g_log_J {F}.
Arguments g_compose {F}. Arguments g_compose_Ja {F}. Arguments g_compose_Jb {F}.
Arguments g_act {F}. Arguments g_act_Jm {F}. Arguments g_act_Jv {F}. Arguments g_adj {F}.
Arguments g_transform {F}. Arguments g_rotation {F}. Arguments g_translation {F}.
Arguments g_normalize {F}. Arguments g_assert_ok {F}.
Arguments g_exp {F}. Arguments g_exp_J {F}. Arguments g_hat {F}. Arguments g_rjac {F}. Arguments g_ljac {F}.
Arguments g_rjacinv {F}. Arguments g_ljacinv {F}. Arguments g_smallAdj {F}. Arguments g_generator {F}.
Arguments g_vee {F}. Arguments g_bracket {F}. Arguments g_innerweights {F}. Arguments g_trandom {F}. Arguments g_grandom {F}.

(* the signed -> unsigned conversion of Generator(const int i) -> run(const unsigned int i) *)
Definition to_unsigned32 (i : Z) : Z := Z.modulo i 4294967296.

(* generic InnerWeightsEvaluator (generator.h): W(r,c) = trace(G_r * G_c^T) *)
Section IW.
Variable F : Sc.
Definition gen_or_zero (gen : Z -> res (list (list (K F)))) (n : nat) (i : nat) : list (list (K F)) :=
  match gen (Z.of_nat i) with Ok m => m | _ => mzero n n end.
Definition inner_weights_generic (dof alg : nat) (gen : Z -> res (list (list (K F)))) : list (list (K F)) :=
  map (fun r => map (fun c =>
     trace (mmul (gen_or_zero gen alg r) (mT (gen_or_zero gen alg c)))) (seq 0 dof)) (seq 0 dof).
End IW.
Arguments inner_weights_generic {F}.
