(* Series_SO3.v — property C06 for SO3: t.ljac() is the series sum_k ad_t^k / (k+1)! and t.rjac() the series
   sum_k (-ad_t)^k / (k+1)!, entrywise, on the generic branch (for SO3 ad_t = hat(t) = smallAdj(t)).
   Derived from the SE3 matrix exponential (Exp_SE3): the powers of hat(rho, theta) = [[W, rho]; [0, 0]] are
   [[W^k, W^(k-1) rho]; [0, 0]], so the last column of exp(hat) = [[R, V rho]; [0, 1]] is sum_k W^k rho / (k+1)!, and
   V is the left Jacobian. *)
From Coq Require Import Reals ZArith List Lra Lia.
From Coquelicot Require Import Coquelicot.
From Manif Require Import Scalar Mat Consts Group RInst Tac SO3 SE3 Generic LieSpec Ode ExpSpec AlgTac Exp_SO3 JacInv_SO3 AdjExp_SO3 Exp_SE3.
Import ListNotations.
Local Open Scope R_scope.

Ltac rr := match goal with |- @eq _ ?u ?v => change (@eq R u v) end; ring.

Section S.
Variables a b c x y z : R.
Local Notation W := (fmat 2 (Hso3 x y z)).
Local Notation H := (fmat 3 (Hse3 a b c x y z)).
Definition rho (j : nat) : R := match j with O => a | S O => b | S (S O) => c | _ => 0 end.

Lemma mmul3 A B i j : Ode.mmul 3 A B i j = A i 0%nat * B 0%nat j + A i 1%nat * B 1%nat j + A i 2%nat * B 2%nat j + A i 3%nat * B 3%nat j.
Proof. unfold Ode.mmul. rewrite !sum_Sn, sum_O. unfold Hierarchy.plus; simpl. rr. Qed.
Lemma mmul2 A B i j : Ode.mmul 2 A B i j = A i 0%nat * B 0%nat j + A i 1%nat * B 1%nat j + A i 2%nat * B 2%nat j.
Proof. unfold Ode.mmul. rewrite !sum_Sn, sum_O. unfold Hierarchy.plus; simpl. rr. Qed.

Lemma H_top i l : (i <= 2)%nat -> (l <= 2)%nat -> H i l = W i l.
Proof. intros Hi Hl. unfold fmat, Hse3, Hso3. destruct i as [|[|[|i]]]; [| | |lia]; (destruct l as [|[|[|l]]]; [| | |lia]); reflexivity. Qed.
Lemma H_col i : (i <= 2)%nat -> H i 3%nat = rho i.
Proof. intros Hi. unfold fmat, Hse3, rho. destruct i as [|[|[|i]]]; [| | |lia]; reflexivity. Qed.
Lemma H_row j : H 3%nat j = 0.
Proof. unfold fmat, Hse3. destruct j as [|[|[|[|j]]]]; reflexivity. Qed.

(* the bottom row of H^k *)
Lemma pow_row k j : (j <= 3)%nat -> mpow 3 H k 3%nat j = if Nat.eqb k 0 then (if Nat.eqb j 3 then 1 else 0) else 0.
Proof.
  intros Hj. destruct k as [|k]; cbn [mpow Nat.eqb].
  - unfold Ode.mid. destruct j as [|[|[|[|j]]]]; try reflexivity; lia.
  - rewrite mmul3. rewrite !H_row. ring.
Qed.
(* the top-left block of H^k is W^k *)
Lemma pow_top k : forall i j, (i <= 2)%nat -> (j <= 2)%nat -> mpow 3 H k i j = mpow 2 W k i j.
Proof.
  induction k as [|k IH]; intros i j Hi Hj; cbn [mpow].
  - unfold Ode.mid. reflexivity.
  - rewrite mmul3, mmul2. rewrite !(H_top i) by lia. rewrite !IH by lia.
    rewrite (pow_row k j ltac:(lia)). destruct (Nat.eqb k 0); [replace (Nat.eqb j 3) with false by (symmetry; apply Nat.eqb_neq; lia)|]; ring.
Qed.
(* the last column of H^(k+1) is W^k rho *)
Lemma pow_col k : forall i, (i <= 2)%nat ->
  mpow 3 H (S k) i 3%nat = mpow 2 W k i 0%nat * a + mpow 2 W k i 1%nat * b + mpow 2 W k i 2%nat * c.
Proof.
  induction k as [|k IH]; intros i Hi.
  - cbn [mpow]. rewrite mmul3. unfold Ode.mid at 1 2 3 4. cbn [Nat.eqb]. rewrite (H_col i Hi).
    unfold Ode.mid, rho. destruct i as [|[|[|i]]]; [| | |lia]; cbn [Nat.eqb]; ring.
  - change (mpow 3 H (S (S k)) i 3%nat) with (Ode.mmul 3 H (mpow 3 H (S k)) i 3%nat). rewrite mmul3.
    rewrite !(H_top i) by lia. rewrite !IH by lia. rewrite (pow_row (S k) 3 ltac:(lia)). cbn [Nat.eqb].
    change (mpow 2 W (S k)) with (Ode.mmul 2 W (mpow 2 W k)). rewrite !mmul2. ring.
Qed.
End S.

Section P.
Variable eps : R.
Hypothesis eps_pos : 0 < eps.

(* V rho = sum_k W^k rho / (k+1)!, for every rho, hence entrywise V = sum_k W^k / (k+1)! *)
Theorem so3_ljac_series x y z i j : eps < x * x + y * y + z * z -> (i <= 2)%nat -> (j <= 2)%nat ->
  is_series (fun k => mpow 2 (fmat 2 (so3_hat RS [x; y; z])) k i j / INR (fact (S k))) (@mnth RS (so3_ljac RS eps [x; y; z]) i j).
Proof.
  intros Hgt Hi Hj.
  set (n := x * x + y * y + z * z) in *. assert (Hn : 0 < n) by lra. set (phi := sqrt n).
  assert (Hphi : phi <> 0) by (unfold phi; intros H0; apply sqrt_eq_0 in H0; lra).
  assert (Hphi2 : phi * phi = x * x + y * y + z * z) by (unfold phi; rewrite sqrt_sqrt by lra; reflexivity).
  (* rho = e_j *)
  set (a := if Nat.eqb j 0 then 1 else 0). set (b := if Nat.eqb j 1 then 1 else 0). set (c := if Nat.eqb j 2 then 1 else 0).
  pose proof (se3_matexp a b c x y z phi Hphi Hphi2 i 3%nat ltac:(lia) ltac:(lia)) as HS.
  assert (HS' : is_series (fun k => mpow 3 (fmat 3 (Hse3 a b c x y z)) (S k) i 3%nat / INR (fact (S k)))
                          (Hierarchy.plus (fmat 3 (Gse3 a b c x y z phi 1) i 3%nat) (Hierarchy.opp (mpow 3 (fmat 3 (Hse3 a b c x y z)) 0 i 3%nat / INR (fact 0))))).
  { apply (is_series_incr_1 (fun k => mpow 3 (fmat 3 (Hse3 a b c x y z)) k i 3%nat / INR (fact k))).
    match goal with |- is_series _ ?l => replace l with (fmat 3 (Gse3 a b c x y z phi 1) i 3%nat); [exact HS|] end.
    unfold Hierarchy.plus, Hierarchy.opp; simpl. match goal with |- @eq _ ?u ?v => change (@eq R u v) end. ring. }
  clear HS. rename HS' into HS.
  assert (Hhat : so3_hat RS [x; y; z] = Hso3 x y z) by (unfold so3_hat, Hso3; mat_unfold; match goal with |- @eq _ ?u ?v => change (@eq (list (list R)) u v) end; list_eq; ring).
  rewrite Hhat.
  eapply is_series_ext; [|].
  2:{ assert (E : Hierarchy.plus (fmat 3 (Gse3 a b c x y z phi 1) i 3%nat) (Hierarchy.opp (mpow 3 (fmat 3 (Hse3 a b c x y z)) 0 i 3%nat / INR (fact 0))) = @mnth RS (so3_ljac RS eps [x; y; z]) i j).
      { cbn [mpow fact]. unfold Ode.mid. replace (Nat.eqb i 3) with false by (symmetry; apply Nat.eqb_neq; lia).
        unfold Hierarchy.plus, Hierarchy.opp; simpl. rewrite (so3_ljac_poly eps x y z Hgt). cbv zeta. fold n. fold phi.
        unfold fmat, Gse3, w2, w1, aff, Df, Sf, Cf, poly3, a, b, c. rewrite !Rmult_1_l.
        assert (Hpp : phi * phi <> 0) by nra. unfold n. rewrite <- Hphi2.
        destruct i as [|[|[|i]]]; [| | |lia]; (destruct j as [|[|[|j]]]; [| | |lia]); cbn [Nat.leb andb Nat.eqb]; mat_unfold; field; repeat split; assumption. }
      rewrite <- E. exact HS. }
  intros k. cbn beta. rewrite (pow_col a b c x y z k i Hi). unfold a, b, c.
  match goal with |- @eq _ ?u ?v => change (@eq R u v) end.
  destruct j as [|[|[|j]]]; [| | |lia]; cbn [Nat.eqb]; field; apply INR_fact_neq_0.
Qed.

(* the right Jacobian: rjac(t) = ljac(-t), and hat(-t) = -hat(t) = -ad_t *)
Theorem so3_rjac_series x y z i j : eps < x * x + y * y + z * z -> (i <= 2)%nat -> (j <= 2)%nat ->
  is_series (fun k => mpow 2 (fmat 2 (so3_hat RS [- x; - y; - z])) k i j / INR (fact (S k))) (@mnth RS (so3_rjac RS eps [x; y; z]) i j).
Proof.
  intros Hgt Hi Hj.
  assert (Hneg : eps < - x * - x + - y * - y + - z * - z) by (replace (- x * - x + - y * - y + - z * - z) with (x * x + y * y + z * z) by ring; exact Hgt).
  assert (E : so3_rjac RS eps [x; y; z] = so3_ljac RS eps [- x; - y; - z]).
  { unfold so3_rjac. rewrite (so3_ljac_poly eps x y z Hgt), (so3_ljac_poly eps (- x) (- y) (- z) Hneg). cbv zeta. rewrite mT_poly3.
    replace (- x * - x + - y * - y + - z * - z) with (x * x + y * y + z * z) by ring.
    unfold poly3. mat_unfold. match goal with |- @eq _ ?u ?v => change (@eq (list (list R)) u v) end. list_eq; ring. }
  rewrite E. apply so3_ljac_series; assumption.
Qed.
End P.
