(* Properties_C03.v — property C03: log is the principal inverse of exp.  Closed (exact over the reals):
   SO2 and SE2 — exp(log X) = X for every valid X (any hemisphere of the complex number, any translation), log(exp t) = t for
   every tangent with rotation in (-pi, pi] (both the Taylor and the generic branch of SE2's V matrix), rotation of log in
   (-pi, pi]; Rn (log and exp are the identity);
   SO3, SE3, SE_2(3), SGal(3), closed-form branches — exp(log X) = X up to the sign of the quaternion (the same
   transformation; off the exact half turn for the groups with a translation, where the code's V^-1 divides by sin theta),
   log(exp t) = t for every tangent with rotation angle below pi, log(-q) = log(q), rotation angle of log at most pi;
   Bundles of any layout of groups with exp(log X) = X.
   Not closed: the small-angle (Taylor) branches of the quaternion groups, where the truncated series make the round trips
   hold only to O(theta^2 eps): tested on every run in 100-digit arithmetic and in double, including q / -q pairs and
   elements with w < 0 and a tiny vector part (the defect repaired by fix edde36d). *)
From Coq Require Import Reals List Lra Lia.
From Manif Require Import Scalar Mat Group RInst Generic LieSpec SO2 SE2 SO3 Rn SE2Proofs SO3Proofs RnProofs Log_SE2 Approx_Inst SE3 Log_SO3 Log_SE3 LogExp_SO3 LogExp_SE3 SE23 LogExp_SE23 Log_SE23 SGal3 LogExp_SGal3
  Bundle BundleLaws BundleInst InterpProofs InterpInst BundleExpLog BundleLogExp.
Import ListNotations.
Local Open Scope R_scope.

Theorem C03_SO2_exp_log X : so2_valid X -> so2_exp RS (so2_log RS X) = X.
Proof. exact (so2_exp_log X). Qed.
Theorem C03_SO2_log_exp th : - PI < th <= PI -> so2_log RS (so2_exp RS [th]) = [th].
Proof. exact (so2_log_exp th). Qed.
Theorem C03_SO2_log_range X : exists th, so2_log RS X = [th] /\ - PI < th <= PI.
Proof. exact (so2_log_range X). Qed.
Print Assumptions C03_SO2_log_exp.

Theorem C03_SE2_exp_log eps X : 0 < eps -> eps <= 1 -> se2_valid X -> se2_exp RS eps (se2_log RS eps X) = X.
Proof. intros H1 H2. exact (se2_exp_log eps H1 H2 X). Qed.
Theorem C03_SE2_log_exp eps x y th : 0 < eps -> eps <= 1 -> - PI < th <= PI ->
  se2_log RS eps (se2_exp RS eps [x; y; th]) = [x; y; th].
Proof. intros H1 H2. exact (se2_log_exp eps H1 H2 x y th). Qed.
Print Assumptions C03_SE2_log_exp.

Theorem C03_Rn n t : rn_log RS (rn_exp RS t) = t /\ rn_exp RS (rn_log RS t) = t /\ g_log (Rn RS n) t = t.
Proof. repeat split. Qed.

(* two coefficient vectors of one rotation (q and -q) have the same logarithm: any quaternion, both branches of
   SO3::log, off the exact half turn w = 0 (where the rotation has two principal logarithms); the SE3-family logs
   are functions of this one and of the other coefficients, which q -> -q does not touch *)
Theorem C03_SO3_log_double_cover eps x y z w : 0 < eps -> w <> 0 ->
  so3_log RS eps [- x; - y; - z; - w] = so3_log RS eps [x; y; z; w].
Proof. intros H. exact (so3_log_neg eps H x y z w). Qed.
Theorem C03_SO3_log_conj eps x y z w : so3_log RS eps [- x; - y; - z; w] = @vneg RS (so3_log RS eps [x; y; z; w]).
Proof. exact (so3_log_conj eps x y z w). Qed.
Print Assumptions C03_SO3_log_double_cover.

(* SO3, generic branch (vector part of the quaternion with squared norm above eps), BOTH hemispheres: exp(log q) is q when
   w >= 0 and -q when w < 0, i.e. the same rotation; and the rotation angle of the logarithm is at most pi *)
Theorem C03_SO3_exp_log_generic eps x y z w : 0 < eps -> n4 x y z w = 1 -> eps < x * x + y * y + z * z ->
  so3_exp RS eps (so3_log RS eps [x; y; z; w]) = if Rlt_dec w 0 then [- x; - y; - z; - w] else [x; y; z; w].
Proof. intros H. exact (so3_exp_log_generic eps H x y z w). Qed.
Theorem C03_SO3_exp_log_rotation eps x y z w : 0 < eps -> n4 x y z w = 1 -> eps < x * x + y * y + z * z ->
  so3_rotation RS (so3_exp RS eps (so3_log RS eps [x; y; z; w])) = so3_rotation RS [x; y; z; w].
Proof. intros H. exact (so3_exp_log_rotation eps H x y z w). Qed.
Theorem C03_SO3_log_angle_le_pi eps x y z w : 0 < eps -> n4 x y z w = 1 -> eps < x * x + y * y + z * z ->
  @sqnorm RS (so3_log RS eps [x; y; z; w]) <= PI * PI.
Proof. intros H. exact (so3_log_angle_le_pi eps H x y z w). Qed.
(* SE3, generic branch, off the exact half turn (where the code's V^-1 divides by sin(theta) = 0): the translation is recovered exactly *)
Theorem C03_SE3_exp_log_generic eps tx ty tz x y z w : 0 < eps -> n4 x y z w = 1 -> eps < x * x + y * y + z * z -> w <> 0 ->
  se3_exp RS eps (se3_log RS eps [tx; ty; tz; x; y; z; w]) = [tx; ty; tz] ++ (if Rlt_dec w 0 then [- x; - y; - z; - w] else [x; y; z; w]).
Proof. intros H. exact (se3_exp_log_generic eps H tx ty tz x y z w). Qed.
Print Assumptions C03_SE3_exp_log_generic.

Example C03_nonvacuous : se2_valid [1000000; -3; -3/5; 4/5] /\ - PI < 1 <= PI.
Proof. split; [exists 1000000, (-3), (-3/5), (4/5); split; [reflexivity|lra] | pose proof PI2_1; pose proof PI_RGT_0; lra]. Qed.

(* SE_2(3), generic branch, off the half turn: translation and velocity recovered exactly, quaternion up to sign *)
Theorem C03_SE23_exp_log_generic eps tx ty tz x y z w vx vy vz : 0 < eps -> n4 x y z w = 1 -> eps < x * x + y * y + z * z -> w <> 0 ->
  se23_exp RS eps (se23_log RS eps [tx; ty; tz; x; y; z; w; vx; vy; vz]) =
  [tx; ty; tz] ++ (if Rlt_dec w 0 then [- x; - y; - z; - w] else [x; y; z; w]) ++ [vx; vy; vz].
Proof. intros H. exact (se23_exp_log_generic eps H tx ty tz x y z w vx vy vz). Qed.
Print Assumptions C03_SE23_exp_log_generic.

(* log(exp t) = t for every tangent with rotation angle below pi: SO3 and SE3, generic branches of exp and log *)
Theorem C03_SO3_log_exp eps x y z : 0 < eps -> eps < x * x + y * y + z * z -> sqrt (x * x + y * y + z * z) < PI ->
  eps < sin (sqrt (x * x + y * y + z * z) / 2) * sin (sqrt (x * x + y * y + z * z) / 2) ->
  so3_log RS eps (so3_exp RS eps [x; y; z]) = [x; y; z].
Proof. intros H. exact (so3_log_exp_generic eps H x y z). Qed.
Theorem C03_SE3_log_exp eps a b c x y z : 0 < eps -> eps < x * x + y * y + z * z -> sqrt (x * x + y * y + z * z) < PI ->
  eps < sin (sqrt (x * x + y * y + z * z) / 2) * sin (sqrt (x * x + y * y + z * z) / 2) ->
  se3_log RS eps (se3_exp RS eps [a; b; c; x; y; z]) = [a; b; c; x; y; z].
Proof. intros H. exact (se3_log_exp_generic eps H a b c x y z). Qed.
Theorem C03_SE23_log_exp eps a b c x y z d e f : 0 < eps -> eps < x * x + y * y + z * z -> sqrt (x * x + y * y + z * z) < PI ->
  eps < sin (sqrt (x * x + y * y + z * z) / 2) * sin (sqrt (x * x + y * y + z * z) / 2) ->
  se23_log RS eps (se23_exp RS eps [a; b; c; x; y; z; d; e; f]) = [a; b; c; x; y; z; d; e; f].
Proof. intros H. exact (se23_log_exp_generic eps H a b c x y z d e f). Qed.
Theorem C03_SGal3_log_exp eps a b c d e f x y z tau : 0 < eps -> eps < x * x + y * y + z * z -> sqrt (x * x + y * y + z * z) < PI ->
  eps < sin (sqrt (x * x + y * y + z * z) / 2) * sin (sqrt (x * x + y * y + z * z) / 2) ->
  sg_log RS eps (sg_exp RS eps [a; b; c; d; e; f; x; y; z; tau]) = [a; b; c; d; e; f; x; y; z; tau].
Proof. intros H. exact (sg_log_exp_generic eps H a b c d e f x y z tau). Qed.
Theorem C03_SGal3_exp_log_generic eps px py pz x y z w vx vy vz t : 0 < eps -> n4 x y z w = 1 -> eps < x * x + y * y + z * z -> w <> 0 ->
  sg_exp RS eps (sg_log RS eps [px; py; pz; x; y; z; w; vx; vy; vz; t]) =
  [px; py; pz] ++ (if Rlt_dec w 0 then [- x; - y; - z; - w] else [x; y; z; w]) ++ [vx; vy; vz; t].
Proof. intros H. exact (sg_exp_log_generic eps H px py pz x y z w vx vy vz t). Qed.
Print Assumptions C03_SE3_log_exp.

(* Bundles: exp(log X) = X lifts from the element groups to a Bundle of ANY layout of them (BundleLaws.v: the Bundle's
   exp / log are the element operations on the views at the offset tables).  Packs: SO2, SE2, R3 (BundleExpLog.v). *)
Theorem C03_Bundle_exp_log (LP : list PackedEL) (dP : PackedEL) X :
  bvalid RS (map q_G LP) (fun i X => gc_valid (el_core _ (q_el (nth i LP dP))) X) X ->
  g_exp (Bundle (map q_G LP)) (g_log (Bundle (map q_G LP)) X) = X.
Proof. exact (bundle_exp_log_of_cores LP dP X). Qed.
Print Assumptions C03_Bundle_exp_log.
Example C03_Bundle_nonvacuous eps (H : 0 < eps) (H1 : eps <= 1) :
  bvalid RS (map q_G [SE2_packEL eps H H1; R3_packEL; SO2_packEL eps H H1])
    (fun i X => gc_valid (el_core _ (q_el (nth i [SE2_packEL eps H H1; R3_packEL; SO2_packEL eps H H1] R3_packEL))) X)
    ([7; -2; 3/5; 4/5] ++ [1; 2; 3] ++ [-3/5; 4/5]).
Proof.
  exists [[7; -2; 3/5; 4/5]; [1; 2; 3]; [-3/5; 4/5]]. split; [|reflexivity]. split; [reflexivity|].
  intros i Hi. cbn [length map] in Hi. destruct i as [|[|[|i]]]; [| | |exfalso; lia]; cbn.
  - exists 7, (-2), (3/5), (4/5); split; [reflexivity|lra].
  - reflexivity.
  - exists (-3/5), (4/5); split; [reflexivity|lra].
Qed.

(* non-vacuity of the log(exp t) = t hypotheses: the quarter turn about the x axis *)
Example C03_log_exp_nonvacuous :
  let x := PI / 2 in
  1 / 100 < x * x + 0 * 0 + 0 * 0 /\ sqrt (x * x + 0 * 0 + 0 * 0) < PI /\
  1 / 100 < sin (sqrt (x * x + 0 * 0 + 0 * 0) / 2) * sin (sqrt (x * x + 0 * 0 + 0 * 0) / 2).
Proof.
  cbv zeta. pose proof PI2_1 as H1. pose proof PI_RGT_0 as H0.
  assert (E : sqrt (PI / 2 * (PI / 2) + 0 * 0 + 0 * 0) = PI / 2).
  { replace (PI / 2 * (PI / 2) + 0 * 0 + 0 * 0) with ((PI / 2)²) by (unfold Rsqr; ring). apply sqrt_Rsqr. lra. }
  rewrite E. split; [nra|]. split; [lra|].
  replace (PI / 2 / 2) with (PI / 4) by field. rewrite sin_PI4.
  replace (1 / sqrt 2 * (1 / sqrt 2)) with (1 / (sqrt 2 * sqrt 2)) by (field; apply Rgt_not_eq; apply sqrt_lt_R0; lra).
  rewrite sqrt_sqrt by lra. lra.
Qed.

(* Bundles, the other direction: log(exp t) = t lifts from the element groups to a Bundle of ANY layout over ANY scalar
   (D i: the tangents of the i-th element on which it holds; V i: elements of the right size containing their exps). *)
Theorem C03_Bundle_log_exp (F : Sc) (L : list (GroupOps F)) (d : GroupOps F) (V D : nat -> list (K F) -> Prop) :
  (forall i X, (i < length L)%nat -> V i X -> length X = g_rep (nth i L d)) ->
  (forall i t, (i < length L)%nat -> D i t -> length t = g_dof (nth i L d)) ->
  (forall i t, (i < length L)%nat -> D i t -> V i (g_exp (nth i L d) t)) ->
  (forall i X, (i < length L)%nat -> V i X -> length (g_log (nth i L d) X) = g_dof (nth i L d)) ->
  (forall i t, (i < length L)%nat -> D i t -> g_log (nth i L d) (g_exp (nth i L d) t) = t) ->
  forall ts, tangent_parts F L D ts -> g_log (Bundle L) (g_exp (Bundle L) (concat ts)) = concat ts.
Proof. intros H1 H2 H3 H4 H5. exact (bundle_log_exp F L d V H1 D H2 H3 H4 H5). Qed.
Print Assumptions C03_Bundle_log_exp.
(* discharged for the layout Bundle<SO3, R3, SE3>: every rotation below pi on the closed-form branches *)
Theorem C03_Bundle_SO3_R3_SE3_log_exp eps (H : 0 < eps) x y z p q r a b c u v w :
  rot_ok eps x y z -> rot_ok eps u v w ->
  g_log (Bundle (L3 eps)) (g_exp (Bundle (L3 eps)) ([x; y; z] ++ [p; q; r] ++ [a; b; c; u; v; w])) =
  [x; y; z] ++ [p; q; r] ++ [a; b; c; u; v; w].
Proof.
  intros H1 H2. apply (bundle3_log_exp eps H [[x; y; z]; [p; q; r]; [a; b; c; u; v; w]]).
  split; [reflexivity|]. intros i Hi. destruct i as [|[|[|i]]]; [| | |cbn in Hi; lia]; cbn.
  - exists x, y, z. split; [reflexivity|exact H1].
  - exists p, q, r. reflexivity.
  - exists a, b, c, u, v, w. split; [reflexivity|exact H2].
Qed.
Print Assumptions C03_Bundle_SO3_R3_SE3_log_exp.
Example C03_Bundle_log_exp_nonvacuous : rot_ok (1 / 100) (PI / 2) 0 0.
Proof. exact C03_log_exp_nonvacuous. Qed.
