(* Run.v — one entry point that runs any modelled operation on any modelled
   group; this is what is extracted and executed by the correspondence check
   (instance QS) and what the property theorems quantify over (instance RS). *)
From Coq Require Import ZArith List Bool.
Import ListNotations.
From Manif Require Import Scalar Mat Consts Group SO2 SE2 SO3 SE3 SE23 SGal3 Rn Generic Api Algorithms Hist Ctor Bundle Views.

Inductive gid : Type :=
| GSO2 | GSE2 | GSO3 | GSE3 | GSE23 | GSGal3 | GRn (n : nat) | GBundle (l : list gid).

Inductive opcode : Type :=
| OInverse | OLog | OCompose | OAct | OAdj | ORplus | OLplus | OPlus | ORminus | OLminus | OMinus
| OBetween | OTransform | ORotation | OTranslation | OIsApprox | OIdentity | ONormalize | OAssertOk
| OExp | OHat | ORjac | OLjac | ORjacinv | OLjacinv | OSmallAdj | OGenerator | OVee | OBracket
| OInner | OInnerWeights | OWeightedNorm | OSqWeightedNorm | OTPlus | OTMinus | OTIsApprox | ORandom
| OAliasGT | OAliasGG | OAliasG | OAliasT | OAliasGV | OAliasId
| OHistory | OInterp | OPhi | OAverage | ODecasteljau | ODcPlan | OCast | OCtor | OView.

Section Run.
Variable F : Sc.
Variable eps : K F.
Local Notation vec := (list (K F)).
Local Notation mat := (list (list (K F))).

Fixpoint group_of (g : gid) : GroupOps F :=
  match g with
  | GSO2 => SO2 F eps
  | GSE2 => SE2 F eps
  | GSO3 => SO3 F eps
  | GSE3 => SE3 F eps
  | GSE23 => SE23 F eps
  | GSGal3 => SGal3 F eps
  | GRn n => Rn F n
  | GBundle l => Bundle (map group_of l)
  end.

Definition cast_of (g : gid) : vec -> vec :=
  match g with
  | GSO2 => so2_cast F | GSE2 => se2_cast F | GSO3 => so3_cast F | GSE3 => se3_cast F
  | GSE23 => se23_cast F | GSGal3 => sg_cast F | GRn _ => fun c => c | GBundle _ => fun c => c
  end.

Definition mflat (m : mat) : vec := concat m.
Definition bit (mask : list bool) (i : nat) : bool := nth i mask false.
Definition arg (args : list vec) (i : nat) : vec := nth i args [].
Definition kbool (b : bool) : vec := [if b then k1 F else k0 F].

Definition out1 (v : vec) (J : option mat) : list vec :=
  v :: match J with Some m => [mflat m] | None => [] end.
Definition out2 (r : vec * option mat * option mat) : list vec :=
  let '(v, Ja, Jb) := r in
  v :: (match Ja with Some m => [mflat m] | None => [] end)
    ++ (match Jb with Some m => [mflat m] | None => [] end).

Definition run_op (g : gid) (op : opcode) (mask : list bool) (iarg : Z) (args : list vec)
  : res (list vec) :=
  let G := group_of g in
  let a0 := arg args 0 in let a1 := arg args 1 in let a2 := arg args 2 in
  let m0 := bit mask 0 in let m1 := bit mask 1 in
  match op with
  | OInverse => Ok (out1 (g_inverse G a0) (if m0 then Some (g_inverse_J G a0) else None))
  | OLog => Ok (out1 (g_log G a0) (if m0 then Some (g_log_J G a0) else None))
  | OCompose => Ok (out2 (g_compose G a0 a1,
                          (if m0 then Some (g_compose_Ja G a0 a1) else None),
                          (if m1 then Some (g_compose_Jb G a0 a1) else None)))
  | OAct => Ok (out2 (g_act G a0 a1,
                      (if m0 then Some (g_act_Jm G a0 a1) else None),
                      (if m1 then Some (g_act_Jv G a0 a1) else None)))
  | OAdj => Ok [mflat (g_adj G a0)]
  | ORplus => Ok (out2 (rplus G a0 a1 m0 m1))
  | OLplus => Ok (out2 (lplus G a0 a1 m0 m1))
  | OPlus => Ok (out2 (plus G a0 a1 m0 m1))
  | ORminus => Ok (out2 (rminus G a0 a1 m0 m1))
  | OLminus => Ok (out2 (lminus G a0 a1 m0 m1))
  | OMinus => Ok (out2 (minus G a0 a1 m0 m1))
  | OBetween => Ok (out2 (between G a0 a1 m0 m1))
  | OTransform => Ok [mflat (g_transform G a0)]
  | ORotation => Ok [mflat (g_rotation G a0)]
  | OTranslation => Ok [g_translation G a0]
  | OIsApprox => Ok [kbool (g_isApprox G a0 a1 (vnth a2 0))]
  | OIdentity => Ok [g_identity G]
  | ONormalize => Ok [g_normalize G a0]
  | OAssertOk => if g_assert_ok G a0 then Ok [a0] else InvalidArgument
  | OExp => Ok (out1 (g_exp G a0) (if m0 then Some (g_exp_J G a0) else None))
  | OHat => Ok [mflat (g_hat G a0)]
  | ORjac => Ok [mflat (g_rjac G a0)]
  | OLjac => Ok [mflat (g_ljac G a0)]
  | ORjacinv => Ok [mflat (g_rjacinv G a0)]
  | OLjacinv => Ok [mflat (g_ljacinv G a0)]
  | OSmallAdj => Ok [mflat (g_smallAdj G a0)]
  | OGenerator => rmap (fun m => [mflat m]) (g_generator G iarg)
  | OVee => Ok [g_vee G (map (fun i => vslice a0 (i * g_alg G) (g_alg G)) (seq 0 (g_alg G)))]
  | OBracket => Ok [g_bracket G a0 a1]
  | OInner => Ok [[t_inner G a0 a1]]
  | OInnerWeights => Ok [mflat (g_innerweights G)]
  | OWeightedNorm => Ok [[t_wnorm G a0]]
  | OSqWeightedNorm => Ok [[t_sqwnorm G a0]]
  | OTPlus => Ok (out2 (t_plus G a0 a1 m0 m1))
  | OTMinus => Ok (out2 (t_minus G a0 a1 m0 m1))
  | OTIsApprox => Ok [kbool (t_isApprox a0 a1 (vnth a2 0))]
  | ORandom => Ok [g_random G a0]
  | OAliasGT => match alias_gt iarg with Some c => Ok (out2 (sem2 G c a0 a1 m0 m1)) | None => LogicError end
  | OAliasGG => match alias_gg iarg with Some c => Ok (out2 (sem2 G c a0 a1 m0 m1)) | None => LogicError end
  | OAliasG => match alias_g iarg with Some c => let '(v, J) := sem1 G c a0 m0 in Ok (out1 v J) | None => LogicError end
  | OAliasT => match alias_t iarg with Some c => let '(v, J) := sem1 G c a0 m0 in Ok (out1 v J) | None => LogicError end
  | OAliasGV => Ok (out2 (g_act G a0 a1,
                      (if m0 then Some (g_act_Jm G a0 a1) else None),
                      (if m1 then Some (g_act_Jv G a0 a1) else None)))
  | OAliasId => Ok [g_identity G; t_zero G; t_zero G; t_zero G; t_zero G]
  (* args: X, Y, us, t_0, t_1, ...; iarg: the encoded history (Hist.v) *)
  | OHistory => let '(X, Y) := hrun G (cast_of g) 400 (skipn 3 args) a2 iarg 0 (a0, a1) in Ok [X; Y]
  (* args: A, B, [t], ta, tb; iarg: 0 SLERP, 1 CUBIC, 2 CNSMOOTH, 10+m: interpolate_smooth with m *)
  | OInterp => rmap (fun v => [v])
                 (if Z.leb 10 iarg then interpolate_smooth G a0 a1 (vnth a2 0) (iarg - 10) (arg args 3) (arg args 4)
                  else interpolate G a0 a1 (vnth a2 0) iarg (arg args 3) (arg args 4))
  | OPhi => rmap (fun x => [[x]]) (smoothing_phi (vnth a0 0) iarg)
  (* args: [e], points...; iarg: 100*kind + max_iterations; kind 0 biinvariant, 1 average, 2 frechet_left, 3 frechet_right *)
  | OAverage => let pts := skipn 1 args in let e := vnth a0 0 in let it := Z.to_nat (Z.modulo iarg 100) in
                rmap (fun v => [v])
                 (match Z.div iarg 100 with
                  | 0%Z => average_biinvariant G pts e it
                  | 1%Z => average_weighted G eps pts it
                  | 2%Z => average_frechet_left G pts e it
                  | _ => average_frechet_right G pts e it
                  end)
  (* args: ts (the parameters t_01 of one window), points...; iarg = (degree * 1000 + k) * 2 + closed *)
  | ODecasteljau => let traj := skipn 1 args in
                    let closed := Z.odd iarg in let d := Z.div (Z.div iarg 2) 1000 in let k := Z.modulo (Z.div iarg 2) 1000 in
                    match dc_plan (Z.of_nat (length traj)) d k closed with
                    | DcOk ws _ => dc_curve G traj d ws a0
                    | DcRuntimeError => RuntimeError
                    | DcBadAlloc => OutOfBounds (-1)
                    end
  (* the plan only: args: [N]; output: points per window, number of windows, then the window indices *)
  | ODcPlan => let closed := Z.odd iarg in let d := Z.div (Z.div iarg 2) 1000 in let k := Z.modulo (Z.div iarg 2) 1000 in
               match dc_plan (Z.of_nat (length args)) d k closed with
               | DcOk ws sk => Ok ([kz sk; kz (Z.of_nat (length ws))] :: map (map kz) ws)
               | DcRuntimeError => RuntimeError
               | DcBadAlloc => OutOfBounds (-1)
               end
  | OCast => Ok [cast_of g a0]
  (* constructors (iarg < 10) and setters (iarg >= 10); mask bit 0: assertions enabled (the build mode) *)
  | OCtor =>
    let fin := fun (c : vec) => [c; mflat (g_transform G c)] in
    if Z.ltb iarg 10 then
      match (match g with
             | GSO2 => so2_ctor iarg args | GSE2 => se2_ctor iarg args | GSO3 => so3_ctor iarg args
             | GSE3 => se3_ctor iarg args | GSE23 => se23_ctor iarg args | GSGal3 => sg_ctor iarg args
             | GRn _ | GBundle _ => if Z.eqb iarg 0 then Some a0 else None end) with
      | Some c => rmap fin (checked G m0 c)
      | None => LogicError
      end
    else match g, iarg with
      | GSO3, 10%Z => if m0 && negb (quat_ok eps a1) then InvalidArgument else Ok (fin (set_quat 0 a0 a1))
      | GSE3, 10%Z => if m0 && negb (quat_ok eps a1) then InvalidArgument else Ok (fin (set_quat 3 a0 a1))
      | GSE3, 11%Z => Ok (fin (vset a0 0 (firstn 3 a1)))
      (* every group: 20 G(Eigen::Map<G>), 21 G(Eigen::Map<const G>): the converting constructors delegate to the validating
         coefficient constructor.  22 X = data, 23 X = Map, 24 Map = data: the assignment operators the class macros
         (MANIF_GROUP_ASSIGN_OP / MANIF_GROUP_MAP_ASSIGN_OP) declare copy the coefficients unvalidated - they hide
         LieGroupBase::operator=(MatrixBase), the only caller of the AssignmentEvaluator - so nothing is rejected, as the code does *)
      | _, 20%Z | _, 21%Z => rmap fin (checked G m0 a0)
      | _, 22%Z | _, 23%Z | _, 24%Z => Ok (fin a0)
      | _, _ => LogicError
      end
  (* args: buffer, [off; off2] (as scalars: read back through the literal they came from), Y, t, [k; value]; see Views.v.
     The offsets are integers: they travel in iarg as off + 1000 * off2 + 1000000 * k + 1000000000 * id *)
  | OView => let off := Z.to_nat (Z.modulo iarg 1000) in let off2 := Z.to_nat (Z.modulo (Z.div iarg 1000) 1000) in
             let k := Z.to_nat (Z.modulo (Z.div iarg 1000000) 1000) in let id := Z.div iarg 1000000000 in
             match view_op G id a0 off off2 (arg args 2) (arg args 3) k (vnth (arg args 4) 1) with
             | Ok (rs, mem) => Ok (rs ++ [mem])
             | InvalidArgument => InvalidArgument | RuntimeError => RuntimeError | LogicError => LogicError | OutOfBounds i => OutOfBounds i
             end
  end.
End Run.
Arguments run_op {F}. Arguments group_of {F}.
