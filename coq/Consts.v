(* Consts.v — the literal constants the C++ contains, with the exact value the
   *double* literal has (Scalar(1./6.) is the double nearest 1/6, a dyadic). *)
From Coq Require Import ZArith.
From Manif Require Import Scalar.
Section C.
Variable F : Sc.
Definition c_half : K F := klit F 1 2.                                   (* Scalar(.5) / Scalar(0.5) *)
Definition c_1_6d : K F := klit F 6004799503160661 36028797018963968.    (* Scalar(1. / 6.)  *)
Definition c_1_24d : K F := klit F 6004799503160661 144115188075855872.  (* Scalar(1. / 24.) *)
Definition c_1_12d : K F := klit F 6004799503160661 72057594037927936.   (* Scalar(1. / 12.) *)
Definition c_1_120d : K F := klit F 4803839602528529 576460752303423488. (* Scalar(1. / 120.) *)
Definition c_1_720d : K F := klit F 6405119470038039 4611686018427387904. (* Scalar(1. / 720.) *)
Definition c_1_60d : K F := klit F 4803839602528529 288230376151711744.   (* Scalar(1. / 60.) *)
Definition c_1_3d : K F := klit F 6004799503160661 18014398509481984.    (* Scalar(1. / 3.)  *)
Definition c_1_30d : K F := klit F 4803839602528529 144115188075855872.  (* Scalar(1. / 30.) *)
Definition c_1_8d : K F := klit F 1 8.                                   (* Scalar(1. / 8.)  *)
Definition c_1_10d : K F := klit F 3602879701896397 36028797018963968.   (* Scalar(1. / 10.) *)
Definition c_1_240d : K F := klit F 4803839602528529 1152921504606846976. (* Scalar(1. / 240.) *)
Definition c_pi : K F := klit F 884279719003555 281474976710656.         (* MANIF_PI as a double *)
Definition c_2pi : K F := klit F 884279719003555 140737488355328.        (* 2. * MANIF_PI *)
Definition eps_double : K F := klit F 25 1125899906842624.               (* 100 * 2^-52 *)
Definition eps_float : K F := klit F 25 2097152.                         (* 100 * 2^-23 *)
End C.
Arguments c_1_3d {F}. Arguments c_1_30d {F}. Arguments c_1_8d {F}. Arguments c_1_10d {F}. Arguments c_1_240d {F}.
Arguments c_half {F}. Arguments c_1_6d {F}. Arguments c_1_24d {F}. Arguments c_1_12d {F}. Arguments c_1_120d {F}.
Arguments c_1_720d {F}. Arguments c_1_60d {F}. Arguments c_pi {F}. Arguments c_2pi {F}. Arguments eps_double {F}. Arguments eps_float {F}.
