(* Properties_C19.v — property C19 (level: exhaustive enumeration, not proof).  The enumeration of the API matrix is
   done in Coq (ApiMatrix.v: all_cells) and is complete by theorem; the per-run obligation `run_ok : matrix_ok entries
   groups results = true` lives in the regenerated file build/ApiMatrixGen.v, whose `results` are what the compiler and
   the linked programs reported for the current tree. *)
From Coq Require Import List Bool Arith String.
From Manif Require Import ApiMatrix.
Import ListNotations.

Theorem C19_enumeration_complete es gs e g sc st : In e es -> In g gs -> (sc < 2)%nat -> (st < 6)%nat -> applicable e g st = true ->
  In (e_id e, g_id g, sc, st) (all_cells es gs).
Proof. exact (all_cells_complete es gs e g sc st). Qed.
Theorem C19_matrix_ok_sound es gs results e g sc st : matrix_ok es gs results = true ->
  In e es -> In g gs -> (sc < 2)%nat -> (st < 6)%nat -> applicable e g st = true -> cell_ok results (e_id e, g_id g, sc, st) = true.
Proof. exact (matrix_ok_sound es gs results e g sc st). Qed.
Theorem C19_matrix_ok_except_sound es gs excused results e g sc st : matrix_ok_except es gs excused results = true ->
  In e es -> In g gs -> (sc < 2)%nat -> (st < 6)%nat -> applicable e g st = true ->
  existsb (cell_eqb (e_id e, g_id g, sc, st)) excused = true \/ cell_ok results (e_id e, g_id g, sc, st) = true.
Proof. exact (matrix_ok_except_sound es gs excused results e g sc st). Qed.
Print Assumptions C19_matrix_ok_sound.

Example C19_applicability : let g := mkGrp 0 "R3" false false false in
  applicable (mkEntry 0 "X.rotation()" [NeedRot]) g 0 = false /\ applicable (mkEntry 1 "X += w" [NeedMutX; NeedBin]) g 2 = false /\
  applicable (mkEntry 1 "X += w" [NeedMutX; NeedBin]) g 1 = true /\ applicable (mkEntry 2 "X.inverse()" []) g 2 = true /\
  applicable (mkEntry 1 "X += w" [NeedMutX; NeedBin]) g 3 = true /\ applicable (mkEntry 1 "X += w" [NeedMutX; NeedBin]) g 5 = false /\
  applicable (mkEntry 3 "w += t" [NeedMutW; NeedBin]) g 4 = false /\ applicable (mkEntry 2 "X.inverse()" []) g 4 = false.
Proof. repeat split. Qed.
