(* AlgExplicit.v — the documented bases and inner weights written out (property C07). *)
From Coq Require Import Reals ZArith List Lra.
From Manif Require Import Scalar Mat Consts Group RInst Tac SO2 SE2 SO3 SE3 SE23 SGal3 Rn Generic LieSpec AlgSpec RnProofs AlgTac.
Import ListNotations.
Local Open Scope R_scope.

Lemma hat_explicit eps :
  (forall th, g_hat (SO2 RS eps) [th] = [[0; - th]; [th; 0]]) /\
  (forall x y th, g_hat (SE2 RS eps) [x; y; th] = [[0; - th; x]; [th; 0; y]; [0; 0; 0]]) /\
  (forall a b c, g_hat (SO3 RS eps) [a; b; c] = [[0; - c; b]; [c; 0; - a]; [- b; a; 0]]) /\
  (forall x y z a b c, g_hat (SE3 RS eps) [x; y; z; a; b; c] =
      [[0; - c; b; x]; [c; 0; - a; y]; [- b; a; 0; z]; [0; 0; 0; 0]]) /\
  (forall x y z a b c u v w, g_hat (SE23 RS eps) [x; y; z; a; b; c; u; v; w] =
      [[0; - c; b; x; u]; [c; 0; - a; y; v]; [- b; a; 0; z; w]; [0; 0; 0; 0; 0]; [0; 0; 0; 0; 0]]) /\
  (forall x y z u v w a b c s, g_hat (SGal3 RS eps) [x; y; z; u; v; w; a; b; c; s] =
      [[0; - c; b; u; x]; [c; 0; - a; v; y]; [- b; a; 0; w; z]; [0; 0; 0; 0; s]; [0; 0; 0; 0; 0]]) /\
  (forall x y z, g_hat (Rn RS 3) [x; y; z] = [[0; 0; 0; x]; [0; 0; 0; y]; [0; 0; 0; z]; [0; 0; 0; 0]]).
Proof. repeat split; intros; rcbv; list_eq; ring. Qed.

Lemma weights_explicit eps :
  g_innerweights (SO2 RS eps) = [[2]] /\
  g_innerweights (SE2 RS eps) = [[1; 0; 0]; [0; 1; 0]; [0; 0; 2]] /\
  g_innerweights (SO3 RS eps) = [[2; 0; 0]; [0; 2; 0]; [0; 0; 2]] /\
  g_innerweights (SE3 RS eps) = @mset_block RS (@mid RS 6) 3 3 [[2; 0; 0]; [0; 2; 0]; [0; 0; 2]] /\
  g_innerweights (SE23 RS eps) = @mset_block RS (@mid RS 9) 3 3 [[2; 0; 0]; [0; 2; 0]; [0; 0; 2]] /\
  g_innerweights (SGal3 RS eps) = @mset_block RS (@mid RS 10) 6 6 [[2; 0; 0]; [0; 2; 0]; [0; 0; 2]] /\
  g_innerweights (Rn RS 4) = @mid RS 4.
Proof. repeat split; rcbv; list_eq; ring. Qed.

Lemma alg_nonvacuous eps :
  g_bracket (SO3 RS eps) [1; 0; 0] [0; 1; 0] = [0; 0; 1] /\
  g_bracket (SE2 RS eps) [1; 0; 0] [0; 0; 1] <> [0; 0; 0] /\
  t_inner (SE3 RS eps) [1; 2; 3; 4; 5; 6] [1; 1; 1; 1; 1; 1] = 36.
Proof.
  repeat split.
  - rcbv; list_eq; ring.
  - rcbv. intros H. injection H. intros. lra.
  - rcbv. match goal with |- @eq _ ?x ?y => change (@eq R x y) end. ring.
Qed.
