(* Jr_SE3.v — property C05 for SE3: rjac(t) is the right Jacobian of exp at t (generic branch), translation part.
   exp(t) = (V(theta) rho, q(theta)) with V = I + g2 W + g3 W^2.  Along h -> t + h d the translation V(theta(h)) rho(h) has
   derivative R(theta) u_rho at h = 0, where u = rjac(t) d = (Jr d_rho + Q(-t) d_theta, Jr d_theta) and Q = fillQ; the
   rotation part is Jr_SO3.  Together: d/dh T(exp(t + h d)) = T(exp t) hat(rjac(t) d) for the homogeneous matrix T. *)
From Coq Require Import Reals ZArith List Lra Psatz Lia.
From Coquelicot Require Import Coquelicot.
From Manif Require Import Scalar Mat Consts Group RInst Tac SO3 SE3 JacInv_SO3 AdjExp_SO3 Jr_SO3.
Import ListNotations.
Local Open Scope R_scope.

(* the closed form of the translation of exp: (V rho)_i with V = I + g2 W + g3 W^2, W = hat(x, y, z), rho = (a, b, c) *)
Definition vrho (i : nat) (a b c x y z : R) : R :=
  let t := th_of x y z in
  let '(p1, q1, r1) := (y * c - z * b, z * a - x * c, x * b - y * a) in
  let '(p2, q2, r2) := (y * r1 - z * q1, z * p1 - x * r1, x * q1 - y * p1) in
  match i with
  | O => a + g2 t * p1 + g3 t * p2
  | S O => b + g2 t * q1 + g3 t * q2
  | _ => c + g2 t * r1 + g3 t * r2
  end.

(* the coefficient functions of fillQ (generic branch) *)
Definition qB (t : R) : R := (t - sin t) / (t * t * t).
Definition qC (t : R) : R := (1 - t * t / 2 - cos t) / (t * t * t * t).
Definition qD (t : R) : R := qC t - 3 * (t - sin t - t * t * t / 6) / (t * t * t * t * t).
(* fillQ as a function of (rho, theta) in closed form *)
Definition Qcf (t a b c x y z : R) : list (list R) :=
  let V := @skew3 RS [a; b; c] in let W := @skew3 RS [x; y; z] in
  let VW := @mmul RS V W in let WV := @mT RS VW in let WVW := @mmul RS WV W in let VWW := @mmul RS VW W in
  @msub RS (@msub RS (@madd RS (@mscale RS (1 / 2) V) (@mscale RS (qB t) (@madd RS (@madd RS WV VW) WVW)))
                     (@mscale RS (qC t) (@msub RS (@msub RS VWW (@mT RS VWW)) (@mscale RS 3 WVW))))
           (@mmul RS (@mscale RS (qD t) WVW) W).

(* u_rho = Jr d_rho + Q(-rho, -theta) d_theta with Jr = I - g2 W + g3 W^2 *)
Definition urho (a b c x y z da db dc dx dy dz : R) : list R :=
  let t := th_of x y z in
  @vadd RS (@mvmul RS (poly3 x y z (- g2 t) (g3 t)) [da; db; dc]) (@mvmul RS (Qcf t (- a) (- b) (- c) (- x) (- y) (- z)) [dx; dy; dz]).
(* (R u_rho)_i with R = I + g1 W + g2 W^2 *)
Definition rurho (i : nat) (a b c x y z da db dc dx dy dz : R) : R :=
  let t := th_of x y z in
  nth i (@mvmul RS (poly3 x y z (g1 t) (g2 t)) (urho a b c x y z da db dc dx dy dz)) 0.

Ltac prep3 :=
  let Hn := fresh "Hn" in intros Hn; unfold rurho, urho, Qcf, vrho, poly3, qD, qB, qC, g1, g2, g3, th_of; mat_unfold; cbv zeta; cbn beta iota;
  match type of Hn with 0 < ?e =>
    let Hth := fresh "Hth" in let Hsq := fresh "Hsq" in
    assert (Hth : 0 < sqrt e) by (apply sqrt_lt_R0; exact Hn);
    assert (Hsq : sqrt e * sqrt e = e) by (apply sqrt_sqrt; lra);
    auto_derive; [rewrite !Rmult_0_l, !Rplus_0_r; repeat split; try lra; try nra|];
    rewrite !Rmult_0_l, !Rplus_0_r;
    let Hsc := fresh "Hsc" in
    assert (Hsc : sin (sqrt e) * sin (sqrt e) + cos (sqrt e) * cos (sqrt e) = 1) by (pose proof (sin2_cos2 (sqrt e)) as H; unfold Rsqr in H; lra);
    generalize dependent (sin (sqrt e)); generalize dependent (cos (sqrt e)); generalize dependent (sqrt e)
  end;
  let t := fresh "t" in let c := fresh "c" in let s := fresh "s" in
  intros t Hth Hsq c s Hsc; clear Hn;
  field_simplify_eq; [|lra];
  match type of Hsq with _ = ?e =>
    try replace (t ^ 12) with (e * e * e * e * e * e) by (rewrite <- Hsq; ring);
    try replace (t ^ 11) with (t * (e * e * e * e * e)) by (rewrite <- Hsq; ring);
    try replace (t ^ 10) with (e * e * e * e * e) by (rewrite <- Hsq; ring);
    try replace (t ^ 9) with (t * (e * e * e * e)) by (rewrite <- Hsq; ring);
    try replace (t ^ 8) with (e * e * e * e) by (rewrite <- Hsq; ring);
    try replace (t ^ 7) with (t * (e * e * e)) by (rewrite <- Hsq; ring);
    try replace (t ^ 6) with (e * e * e) by (rewrite <- Hsq; ring);
    try replace (t ^ 5) with (t * (e * e)) by (rewrite <- Hsq; ring);
    try replace (t ^ 4) with (e * e) by (rewrite <- Hsq; ring);
    try replace (t ^ 3) with (t * e) by (rewrite <- Hsq; ring);
    try replace (t ^ 2) with e by (rewrite <- Hsq; ring)
  end;
  try replace (s ^ 4) with ((1 - c * c) * (1 - c * c)) by (replace (1 - c * c) with (s * s) by lra; ring);
  try replace (s ^ 3) with (s * (1 - c * c)) by (replace (1 - c * c) with (s * s) by lra; ring);
  try replace (s ^ 2) with (1 - c * c) by (replace (1 - c * c) with (s * s) by lra; ring);
  ring.

Lemma dv0 a b c x y z da db dc dx dy dz : 0 < x * x + y * y + z * z ->
  is_derive (fun h => vrho 0 (a + h * da) (b + h * db) (c + h * dc) (x + h * dx) (y + h * dy) (z + h * dz)) 0 (rurho 0 a b c x y z da db dc dx dy dz).
Proof. prep3. Qed.
Lemma dv1 a b c x y z da db dc dx dy dz : 0 < x * x + y * y + z * z ->
  is_derive (fun h => vrho 1 (a + h * da) (b + h * db) (c + h * dc) (x + h * dx) (y + h * dy) (z + h * dz)) 0 (rurho 1 a b c x y z da db dc dx dy dz).
Proof. prep3. Qed.
Lemma dv2 a b c x y z da db dc dx dy dz : 0 < x * x + y * y + z * z ->
  is_derive (fun h => vrho 2 (a + h * da) (b + h * db) (c + h * dc) (x + h * dx) (y + h * dy) (z + h * dz)) 0 (rurho 2 a b c x y z da db dc dx dy dz).
Proof. prep3. Qed.

(* ---- tie to the model ---- *)
Section P.
Variable eps : R.
Hypothesis eps_pos : 0 < eps.

Definition trans_exp (a b c x y z : R) (i : nat) : R := nth i (se3_exp RS eps [a; b; c; x; y; z]) 0.

Lemma trans_exp_vrho a b c x y z i : eps < x * x + y * y + z * z -> (i < 3)%nat -> trans_exp a b c x y z i = vrho i a b c x y z.
Proof.
  intros H Hi. unfold trans_exp, se3_exp, se3t_ang, se3t_lin. cbn [skipn firstn]. cbn [K RS].
  rewrite (so3_ljac_poly eps x y z H). cbv zeta. unfold vrho, g2, g3, th_of, poly3.
  set (n := x * x + y * y + z * z) in *. assert (Hn : 0 < n) by lra.
  assert (Hth : sqrt n <> 0) by (apply Rgt_not_eq; apply sqrt_lt_R0; exact Hn).
  assert (Hsq : sqrt n * sqrt n = n) by (apply sqrt_sqrt; lra).
  set (t := sqrt n) in *. clearbody t. clearbody n.
  destruct i as [|[|[|i]]]; [| | |exfalso; lia]; mat_unfold; rewrite <- Hsq; field; exact Hth.
Qed.

Lemma fillQ_generic a b c x y z : eps < x * x + y * y + z * z ->
  fillQ RS eps [a; b; c; x; y; z] = Qcf (sqrt (x * x + y * y + z * z)) a b c x y z.
Proof.
  intros H. unfold fillQ, Qcf, qD, qB, qC. cbn [skipn firstn].
  assert (Hsn : @sqnorm RS [x; y; z] = x * x + y * y + z * z) by (mat_unfold; ring). rewrite Hsn.
  unfold kleb. cbn [kltb RS negb]. rewrite (Rltb_lt_true eps _ H). cbn [negb].
  set (n := x * x + y * y + z * z) in *. 
  assert (Hn : 0 < n) by lra. assert (Hth : sqrt n <> 0) by (apply Rgt_not_eq; apply sqrt_lt_R0; exact Hn).
  assert (Hsq : sqrt n * sqrt n = n) by (apply sqrt_sqrt; lra).
  unfold c_half. mat_unfold. set (t := sqrt n) in *. clearbody t. clearbody n. rewrite <- Hsq.
  match goal with |- @eq _ ?u ?v => change (@eq (list (list R)) u v) end.
  list_eq; field; exact Hth.
Qed.

(* u = rjac(t) d, its translation-like part *)
Definition rjac_lin (a b c x y z da db dc dx dy dz : R) : list R :=
  firstn 3 (@mvmul RS (se3_rjac RS eps [a; b; c; x; y; z]) [da; db; dc; dx; dy; dz]).

Lemma rjac_lin_urho a b c x y z da db dc dx dy dz : eps < x * x + y * y + z * z ->
  rjac_lin a b c x y z da db dc dx dy dz = urho a b c x y z da db dc dx dy dz.
Proof.
  intros H. unfold rjac_lin, se3_rjac, se3t_ang. cbn [skipn]. cbn [K RS].
  assert (Hneg : eps < - x * - x + - y * - y + - z * - z) by (replace (- x * - x + - y * - y + - z * - z) with (x * x + y * y + z * z) by ring; exact H).
  change (@vneg RS [a; b; c; x; y; z]) with [- a; - b; - c; - x; - y; - z].
  rewrite (fillQ_generic (- a) (- b) (- c) (- x) (- y) (- z) Hneg).
  replace (- x * - x + - y * - y + - z * - z) with (x * x + y * y + z * z) by ring.
  unfold so3_rjac. rewrite (so3_ljac_poly eps x y z H). cbv zeta. rewrite mT_poly3.
  unfold urho, g2, g3, th_of.
  set (n := x * x + y * y + z * z) in *. assert (Hn : 0 < n) by lra.
  assert (Hth : sqrt n <> 0) by (apply Rgt_not_eq; apply sqrt_lt_R0; exact Hn).
  assert (Hsq : sqrt n * sqrt n = n) by (apply sqrt_sqrt; lra).
  set (t := sqrt n) in *.
  assert (E1 : - ((1 - cos t) / n) = - ((1 - cos t) / (t * t))) by (rewrite Hsq; reflexivity).
  assert (E2 : (t - sin t) / (n * t) = (t - sin t) / (t * t * t)) by (rewrite <- Hsq; field; exact Hth).
  rewrite E1, E2.
  set (J := poly3 x y z (- ((1 - cos t) / (t * t))) ((t - sin t) / (t * t * t))).
  set (Q := Qcf t (- a) (- b) (- c) (- x) (- y) (- z)).
  assert (HJ : exists j1 j2 j3 j4 j5 j6 j7 j8 j9, J = [[j1; j2; j3]; [j4; j5; j6]; [j7; j8; j9]]) by (unfold J, poly3; mat_unfold; do 9 eexists; reflexivity).
  assert (HQ : exists j1 j2 j3 j4 j5 j6 j7 j8 j9, Q = [[j1; j2; j3]; [j4; j5; j6]; [j7; j8; j9]]) by (unfold Q, Qcf; mat_unfold; do 9 eexists; reflexivity).
  destruct HJ as (j1 & j2 & j3 & j4 & j5 & j6 & j7 & j8 & j9 & ->). destruct HQ as (q1 & q2 & q3 & q4 & q5 & q6 & q7 & q8 & q9 & ->).
  mat_unfold. match goal with |- @eq _ ?u ?v => change (@eq (list R) u v) end. list_eq; ring.
Qed.

(* the statement of C05 for exp on SE3, translation part: along any direction d, the translation of exp(t + h d) has
   derivative R(exp t) * (translation-like part of rjac(t) d) at h = 0 (the rotation part is C05_SO3_rjac_is_derivative:
   the angular part of rjac(t) d is the SO3 right Jacobian applied to the angular part of d) *)
Theorem se3_rjac_translation_derivative a b c x y z da db dc dx dy dz i : eps < x * x + y * y + z * z -> (i < 3)%nat ->
  is_derive (fun h => trans_exp (a + h * da) (b + h * db) (c + h * dc) (x + h * dx) (y + h * dy) (z + h * dz) i) 0
    (nth i (@mvmul RS (so3_rotation RS (so3_exp RS eps [x; y; z])) (rjac_lin a b c x y z da db dc dx dy dz)) 0).
Proof.
  intros H Hi.
  assert (Hloc : locally 0 (fun h => eps < (x + h * dx) * (x + h * dx) + (y + h * dy) * (y + h * dy) + (z + h * dz) * (z + h * dz))).
  { assert (Hc : continuous (fun h => (x + h * dx) * (x + h * dx) + (y + h * dy) * (y + h * dy) + (z + h * dz) * (z + h * dz)) 0).
    { apply (ex_derive_continuous (fun h : R => (x + h * dx) * (x + h * dx) + (y + h * dy) * (y + h * dy) + (z + h * dz) * (z + h * dz))). auto_derive. exact I. }
    apply Hc. apply (open_gt eps). rewrite !Rmult_0_l, !Rplus_0_r. exact H. }
  apply (is_derive_ext_loc (fun h => vrho i (a + h * da) (b + h * db) (c + h * dc) (x + h * dx) (y + h * dy) (z + h * dz))).
  { apply (filter_imp (fun h => eps < (x + h * dx) * (x + h * dx) + (y + h * dy) * (y + h * dy) + (z + h * dz) * (z + h * dz))); [|exact Hloc].
    intros h Hh. symmetry. apply trans_exp_vrho; assumption. }
  assert (Hn : 0 < x * x + y * y + z * z) by lra.
  assert (E : nth i (@mvmul RS (so3_rotation RS (so3_exp RS eps [x; y; z])) (rjac_lin a b c x y z da db dc dx dy dz)) 0 = rurho i a b c x y z da db dc dx dy dz).
  { rewrite (rjac_lin_urho a b c x y z da db dc dx dy dz H). rewrite (so3_exp_rodrigues eps eps_pos x y z H). cbv zeta.
    unfold rurho, g1, g2, th_of. rewrite sqrt_sqrt by lra. reflexivity. }
  rewrite E.
  destruct i as [|[|[|i]]]; [| | |exfalso; lia].
  - apply dv0; exact Hn.
  - apply dv1; exact Hn.
  - apply dv2; exact Hn.
Qed.

(* the angular part of rjac(t) d is the SO3 right Jacobian applied to the angular part of d (block structure of se3_rjac) *)
Lemma rjac_ang a b c x y z da db dc dx dy dz : eps < x * x + y * y + z * z ->
  skipn 3 (@mvmul RS (se3_rjac RS eps [a; b; c; x; y; z]) [da; db; dc; dx; dy; dz]) = @mvmul RS (so3_rjac RS eps [x; y; z]) [dx; dy; dz].
Proof.
  intros H. unfold se3_rjac, se3t_ang. cbn [skipn]. cbn [K RS].
  assert (HJ : exists j1 j2 j3 j4 j5 j6 j7 j8 j9, so3_rjac RS eps [x; y; z] = [[j1; j2; j3]; [j4; j5; j6]; [j7; j8; j9]]).
  { unfold so3_rjac. rewrite (so3_ljac_poly eps x y z H). cbv zeta. rewrite mT_poly3. unfold poly3. mat_unfold. do 9 eexists. reflexivity. }
  assert (Hneg : eps < - x * - x + - y * - y + - z * - z) by (replace (- x * - x + - y * - y + - z * - z) with (x * x + y * y + z * z) by ring; exact H).
  change (@vneg RS [a; b; c; x; y; z]) with [- a; - b; - c; - x; - y; - z].
  rewrite (fillQ_generic (- a) (- b) (- c) (- x) (- y) (- z) Hneg).
  set (Q := Qcf _ _ _ _ _ _ _).
  assert (HQ : exists j1 j2 j3 j4 j5 j6 j7 j8 j9, Q = [[j1; j2; j3]; [j4; j5; j6]; [j7; j8; j9]]) by (unfold Q, Qcf; mat_unfold; do 9 eexists; reflexivity).
  destruct HJ as (j1 & j2 & j3 & j4 & j5 & j6 & j7 & j8 & j9 & ->). destruct HQ as (q1 & q2 & q3 & q4 & q5 & q6 & q7 & q8 & q9 & ->).
  mat_unfold. match goal with |- @eq _ ?u ?v => change (@eq (list R) u v) end. list_eq; ring.
Qed.
End P.
