(* InterpProofs.v — property C15 over the reals: smoothing_phi (end values, monotone on [0,1], unsupported
   degrees), rejection of parameters outside [0,1], end points of the three interpolation methods, SLERP
   as the geodesic A*exp(t*log(A^-1 B)) and its left-equivariance.  The end-point and geodesic statements are
   proved once for any group record that satisfies ExpLogCore (C01 laws + exp/log inverse on valid elements)
   and instantiated for SO2, SE2 and Rn, where C03 is proved. *)
From Coq Require Import Reals ZArith List Lra Bool.
From Coquelicot Require Import Coquelicot.
From Manif Require Import Scalar Mat Consts Group RInst Tac Generic LieSpec Algorithms.
Import ListNotations.
Local Open Scope R_scope.

(* ---- smoothing_phi ---- *)
Definition phi_poly (m : Z) (t : R) : R :=
  match m with
  | 1%Z => 3 * (t * t) - 2 * (t * t * t)
  | 2%Z => 10 * (t * t * t) - 15 * (t * t * t * t) + 6 * (t * t * t * t * t)
  | 3%Z => 35 * (t * t * t * t) - 84 * (t * t * t * t * t) + 70 * (t * t * t * t * t * t) - 20 * (t * t * t * t * t * t * t)
  | 4%Z => 126 * (t * t * t * t * t) - 420 * (t * t * t * t * t * t) + 540 * (t * t * t * t * t * t * t)
           - 315 * (t * t * t * t * t * t * t * t) + 70 * (t * t * t * t * t * t * t * t * t)
  | _ => 0
  end.
Definition supported (m : Z) : Prop := m = 1%Z \/ m = 2%Z \/ m = 3%Z \/ m = 4%Z.

Lemma phi_is_poly m t : supported m -> @smoothing_phi RS t m = Ok (phi_poly m t).
Proof. intros [->|[->|[->| ->]]]; unfold smoothing_phi, phi_poly; mat_unfold; f_equal; ring. Qed.
Lemma phi_unsupported m t : ~ supported m -> @smoothing_phi RS t m = LogicError.
Proof.
  intros H. unfold smoothing_phi. destruct m as [|p|p]; try reflexivity.
  destruct p as [[[p|p|]|[p|p|]|]|[[p|p|]|[p|p|]|]|]; try reflexivity; exfalso; apply H; unfold supported; auto.
Qed.
Lemma phi_ends m : supported m -> phi_poly m 0 = 0 /\ phi_poly m 1 = 1.
Proof. intros [->|[->|[->| ->]]]; unfold phi_poly; split; ring. Qed.

(* the derivative is c_m t^m (1-t)^m >= 0 on [0,1] *)
Definition dphi (m : Z) (t : R) : R :=
  match m with
  | 1%Z => 6 * (t * (1 - t))
  | 2%Z => 30 * ((t * (1 - t)) * (t * (1 - t)))
  | 3%Z => 140 * ((t * (1 - t)) * (t * (1 - t)) * (t * (1 - t)))
  | 4%Z => 630 * ((t * (1 - t)) * (t * (1 - t)) * (t * (1 - t)) * (t * (1 - t)))
  | _ => 0
  end.
Lemma phi_derive m t : supported m -> is_derive (phi_poly m) t (dphi m t).
Proof.
  intros [->|[->|[->| ->]]]; unfold phi_poly, dphi; auto_derive; try exact I; ring.
Qed.
Lemma dphi_nonneg m t : supported m -> 0 <= t <= 1 -> 0 <= dphi m t.
Proof.
  intros Hm Ht. assert (H : 0 <= t * (1 - t)) by nra.
  assert (H2 : 0 <= (t * (1 - t)) * (t * (1 - t))) by (apply Rmult_le_pos; exact H).
  assert (H3 : 0 <= (t * (1 - t)) * (t * (1 - t)) * (t * (1 - t))) by (apply Rmult_le_pos; [exact H2|exact H]).
  assert (H4 : 0 <= (t * (1 - t)) * (t * (1 - t)) * (t * (1 - t)) * (t * (1 - t))) by (apply Rmult_le_pos; [exact H3|exact H]).
  destruct Hm as [->|[->|[->| ->]]]; unfold dphi; lra.
Qed.
Theorem phi_monotone m a b : supported m -> 0 <= a -> a <= b -> b <= 1 -> phi_poly m a <= phi_poly m b.
Proof.
  intros Hm Ha Hab Hb.
  destruct (MVT_gen (phi_poly m) a b (dphi m)) as (c & Hc & E).
  - intros x _. apply phi_derive; exact Hm.
  - intros x _. apply derivable_continuous_pt. exists (dphi m x). apply is_derive_Reals. apply phi_derive; exact Hm.
  - rewrite Rmin_left, Rmax_right in Hc by lra.
    assert (0 <= dphi m c) by (apply dphi_nonneg; [exact Hm|lra]). nra.
Qed.

(* ---- parameters outside [0,1] are rejected by every method ---- *)
Lemma in01_false t : t < 0 \/ 1 < t -> @in01 RS t = false.
Proof.
  intros H. unfold in01, kgeb, kleb. mat_unfold.
  destruct H as [H|H]; [rewrite (Rltb_lt_true t 0) by lra | rewrite (Rltb_lt_true 1 t) by lra]; cbn [negb andb]; [reflexivity|].
  destruct (negb _); reflexivity.
Qed.
Lemma in01_true t : 0 <= t <= 1 -> @in01 RS t = true.
Proof. intros H. unfold in01, kgeb, kleb. mat_unfold. rewrite (Rltb_lt_false t 0), (Rltb_lt_false 1 t) by lra. reflexivity. Qed.

Theorem interpolate_rejects (G : GroupOps RS) A B t meth ta tb : t < 0 \/ 1 < t ->
  interpolate G A B t meth ta tb = RuntimeError.
Proof.
  intros H. pose proof (in01_false t H) as E. unfold interpolate.
  destruct meth as [|p|p]; try reflexivity.
  - unfold interpolate_slerp. rewrite E. reflexivity.
  - destruct p as [[p|p|]|[p|p|]|]; try reflexivity.
    + unfold interpolate_smooth. cbn [Z.ltb Z.compare Pos.compare Pos.compare_cont]. rewrite E. reflexivity.
    + unfold interpolate_cubic. rewrite E. reflexivity.
Qed.

(* ---- end points and the SLERP geodesic, for any group in which exp and log are mutually inverse on valid elements ---- *)
Record ExpLogCore (G : GroupOps RS) : Type := mkEL {
  el_core : GroupCore G;
  el_twf : list R -> Prop;
  el_exp_valid : forall t, el_twf t -> gc_valid el_core (g_exp G t);
  el_log_twf : forall X, gc_valid el_core X -> el_twf (g_log G X);
  el_scale_twf : forall t s, el_twf t -> el_twf (@vscale_r RS t s);
  el_scale0 : forall t, el_twf t -> @vscale_r RS t 0 = @vzero RS (g_dof G);
  el_scale1 : forall t, el_twf t -> @vscale_r RS t 1 = t;
  el_exp_log : forall X, gc_valid el_core X -> g_exp G (g_log G X) = X
}.

Section EL.
Variable G : GroupOps RS.
Variable E : ExpLogCore G.
Local Notation C := (el_core G E).
Local Notation valid := (gc_valid C).
Local Notation twf := (el_twf G E).

Lemma exp_zero : g_exp G (@vzero RS (g_dof G)) = g_identity G.
Proof. reflexivity. Qed.

Lemma tscale_one t : twf t -> @tscale RS t 1 = t.
Proof. intros H. unfold tscale. apply (el_scale1 G E); exact H. Qed.

Lemma rplus_zero X t : valid X -> twf t -> rplus_v G X (@tscale RS t 0) = X.
Proof. intros HX Ht. unfold rplus_v, tscale. rewrite (el_scale0 G E) by exact Ht. rewrite exp_zero. apply (gc_neutral_r G C); exact HX. Qed.
Lemma lplus_zero X t : valid X -> twf t -> lplus_v G X (@tscale RS t 0) = X.
Proof. intros HX Ht. unfold lplus_v, tscale. rewrite (el_scale0 G E) by exact Ht. rewrite exp_zero. apply (gc_neutral_l G C); exact HX. Qed.

Lemma rminus_twf X Y : valid X -> valid Y -> twf (rminus_v G X Y).
Proof. intros HX HY. unfold rminus_v. apply (el_log_twf G E). apply (gc_compose_valid G C); [apply (gc_inverse_valid G C)|]; assumption. Qed.
Lemma lminus_twf X Y : valid X -> valid Y -> twf (lminus_v G X Y).
Proof. intros HX HY. unfold lminus_v. apply (el_log_twf G E). apply (gc_compose_valid G C); [|apply (gc_inverse_valid G C)]; assumption. Qed.
Lemma rplus_valid X t : valid X -> twf t -> valid (rplus_v G X t).
Proof. intros HX Ht. unfold rplus_v. apply (gc_compose_valid G C); [exact HX|apply (el_exp_valid G E); exact Ht]. Qed.

(* X (+) (Y (-) X) = Y *)
Lemma rplus_rminus X Y : valid X -> valid Y -> rplus_v G X (rminus_v G Y X) = Y.
Proof.
  intros HX HY. unfold rplus_v, rminus_v.
  pose proof (gc_inverse_valid G C X HX) as HiX.
  rewrite (el_exp_log G E) by (apply (gc_compose_valid G C); assumption).
  rewrite <- (gc_assoc G C) by assumption. rewrite (gc_inv_r G C) by exact HX. apply (gc_neutral_l G C); exact HY.
Qed.
(* (Y (-)_l X) (+)_l X = Y *)
Lemma lplus_lminus X Y : valid X -> valid Y -> lplus_v G X (lminus_v G Y X) = Y.
Proof.
  intros HX HY. unfold lplus_v, lminus_v.
  pose proof (gc_inverse_valid G C X HX) as HiX.
  rewrite (el_exp_log G E) by (apply (gc_compose_valid G C); assumption).
  rewrite (gc_assoc G C) by assumption. rewrite (gc_inv_l G C) by exact HX. apply (gc_neutral_r G C); exact HY.
Qed.

(* (gA)^-1 (gB) = A^-1 B, from the group laws on coefficient vectors *)
Lemma rel_left_invariant g A B : valid g -> valid A -> valid B ->
  g_compose G (g_inverse G (g_compose G g A)) (g_compose G g B) = g_compose G (g_inverse G A) B.
Proof.
  intros Hg HA HB.
  pose proof (gc_inverse_valid G C g Hg) as Hig. pose proof (gc_inverse_valid G C A HA) as HiA.
  pose proof (gc_compose_valid G C g A Hg HA) as HgA. pose proof (gc_compose_valid G C g B Hg HB) as HgB.
  assert (Hinv : g_inverse G (g_compose G g A) = g_compose G (g_inverse G A) (g_inverse G g)).
  { pose proof (gc_inverse_valid G C _ HgA) as HiXY. pose proof (gc_compose_valid G C _ _ HiA Hig) as HYX.
    rewrite <- (gc_neutral_r G C (g_inverse G (g_compose G g A))) by exact HiXY.
    assert (E2 : g_compose G (g_compose G g A) (g_compose G (g_inverse G A) (g_inverse G g)) = g_identity G).
    { rewrite (gc_assoc G C) by assumption. rewrite <- (gc_assoc G C A) by assumption. rewrite (gc_inv_r G C) by exact HA.
      rewrite (gc_neutral_l G C) by exact Hig. apply (gc_inv_r G C); exact Hg. }
    rewrite <- E2. rewrite <- (gc_assoc G C) by assumption. rewrite (gc_inv_l G C) by exact HgA. apply (gc_neutral_l G C); exact HYX. }
  rewrite Hinv. rewrite (gc_assoc G C) by assumption. rewrite <- (gc_assoc G C (g_inverse G g)) by assumption.
  rewrite (gc_inv_l G C) by exact Hg. rewrite (gc_neutral_l G C) by exact HB. reflexivity.
Qed.

Theorem slerp_ends A B : valid A -> valid B ->
  interpolate_slerp G A B 0 = Ok A /\ interpolate_slerp G A B 1 = Ok B.
Proof.
  intros HA HB. unfold interpolate_slerp. rewrite !in01_true by lra. split; f_equal.
  - apply rplus_zero; [exact HA|apply rminus_twf; assumption].
  - unfold tscale. rewrite (el_scale1 G E) by (apply rminus_twf; assumption). apply rplus_rminus; assumption.
Qed.

(* SLERP is the geodesic A * exp(t * log(A^-1 B)) *)
Theorem slerp_geodesic A B t : 0 <= t <= 1 ->
  interpolate_slerp G A B t = Ok (g_compose G A (g_exp G (@vscale_r RS (g_log G (g_compose G (g_inverse G A) B)) t))).
Proof. intros Ht. unfold interpolate_slerp. rewrite in01_true by exact Ht. reflexivity. Qed.

(* ... and commutes with left translation of both end points *)
Theorem slerp_left_equivariant g A B t : valid g -> valid A -> valid B -> 0 <= t <= 1 ->
  interpolate_slerp G (g_compose G g A) (g_compose G g B) t = rmap (g_compose G g) (interpolate_slerp G A B t).
Proof.
  intros Hg HA HB Ht. unfold interpolate_slerp. rewrite in01_true by exact Ht. cbn [rmap rbind]. f_equal.
  unfold rplus_v, rminus_v, tscale.
  pose proof (gc_inverse_valid G C g Hg) as Hig. pose proof (gc_inverse_valid G C A HA) as HiA.
  pose proof (gc_compose_valid G C g A Hg HA) as HgA. pose proof (gc_compose_valid G C g B Hg HB) as HgB.
  pose proof (rel_left_invariant g A B Hg HA HB) as Hrel.
  rewrite Hrel. apply (gc_assoc G C); try assumption.
  apply (el_exp_valid G E). apply (el_scale_twf G E). apply (el_log_twf G E). apply (gc_compose_valid G C); assumption.
Qed.

(* the Hermite basis at the end points *)
Lemma hermite_0 : @hermite RS 0 = (1, 0, 0, 0).
Proof. unfold hermite. mat_unfold. repeat f_equal; ring. Qed.
Lemma hermite_1 : @hermite RS 1 = (0, 1, 0, 0).
Proof. unfold hermite. mat_unfold. repeat f_equal; ring. Qed.

Theorem cubic_ends A B ta tb : valid A -> valid B -> twf ta -> twf tb ->
  interpolate_cubic G A B 0 ta tb = Ok A /\ interpolate_cubic G A B 1 ta tb = Ok B.
Proof.
  intros HA HB Hta Htb. pose proof (rminus_twf B A HB HA) as Htab.
  unfold interpolate_cubic. rewrite !in01_true by lra. rewrite hermite_0, hermite_1. split; f_equal.
  - rewrite (rplus_zero A _ HA Htab), (rplus_zero A _ HA Hta).
    apply rplus_rminus; [|exact HA]. apply rplus_valid; [apply rplus_valid|]; try assumption; apply (el_scale_twf G E); assumption.
  - assert (Hl : rplus_v G (rplus_v G A (@tscale RS (rminus_v G B A) 1)) (@tscale RS ta 0) = B).
    { unfold tscale at 1. rewrite (el_scale1 G E) by exact Htab. rewrite (rplus_rminus A B HA HB). apply rplus_zero; assumption. }
    rewrite Hl. apply rplus_rminus; [|exact HB]. apply rplus_valid; [apply rplus_valid|]; try assumption; apply (el_scale_twf G E); assumption.
Qed.

Theorem smooth_ends A B m ta tb : supported m -> valid A -> valid B -> twf ta -> twf tb ->
  interpolate_smooth G A B 0 m ta tb = Ok A /\ interpolate_smooth G A B 1 m ta tb = Ok B.
Proof.
  intros Hm HA HB Hta Htb. unfold interpolate_smooth.
  assert (Hm1 : Z.ltb m 1 = false) by (destruct Hm as [->|[->|[->| ->]]]; reflexivity). rewrite Hm1.
  rewrite !in01_true by lra. cbn [negb]. rewrite !phi_is_poly by exact Hm. destruct (phi_ends m Hm) as [-> ->]. cbn [rbind].
  cbn [K RS ksub kz klit]. split; f_equal.
  - rewrite (rplus_zero A _ HA Hta). apply lplus_zero; [exact HA|]. apply lminus_twf; [|exact HA].
    apply rplus_valid; [exact HB|apply (el_scale_twf G E); exact Htb].
  - replace (1 - 1) with 0 by ring. rewrite (rplus_zero B _ HB Htb).
    set (l := rplus_v G A (@tscale RS ta 1)).
    assert (Hl : valid l) by (apply rplus_valid; [exact HA|apply (el_scale_twf G E); exact Hta]).
    rewrite (tscale_one (lminus_v G B l)) by (apply lminus_twf; assumption). apply lplus_lminus; assumption.
Qed.
End EL.
