(* Scalar.v — the scalar interface over which the whole model is written.
   A plain record of operations (no laws): laws are lemmas about instances.
   Instances: RS (Coq reals; all theorems), QS (exact rationals + oracle table;
   executable, used by the correspondence check), DS (dual numbers over any Sc). *)
From Coq Require Import ZArith List Bool.
Import ListNotations.

Record Sc := mkSc {
  K : Type;
  k0 : K; k1 : K;
  kadd : K -> K -> K; ksub : K -> K -> K; kmul : K -> K -> K; kdiv : K -> K -> K;
  kopp : K -> K;
  kltb : K -> K -> bool;                 (* every C++ comparison is derived from < *)
  klit : Z -> positive -> K;             (* literal n/d (C++ double literals are dyadic) *)
  ksin : K -> K; kcos : K -> K; ksqrt : K -> K; kacos : K -> K;
  katan2 : K -> K -> K                   (* atan2 y x *)
}.

Declare Scope k_scope.
Delimit Scope k_scope with k.

Section Derived.
Variable F : Sc.
Definition kgtb (a b : K F) := kltb F b a.
Definition kleb (a b : K F) := negb (kltb F b a).
Definition kgeb (a b : K F) := negb (kltb F a b).
Definition keqb (a b : K F) := negb (kltb F a b) && negb (kltb F b a).
Definition kabs (a : K F) : K F := if kltb F a (k0 F) then kopp F a else a.
Definition kmin (a b : K F) : K F := if kltb F b a then b else a.   (* std::min *)
Definition kmax (a b : K F) : K F := if kltb F a b then b else a.   (* std::max *)
Definition kz (n : Z) : K F := klit F n 1.
Definition ksq (a : K F) : K F := kmul F a a.
End Derived.

Arguments kgtb {F}. Arguments kleb {F}. Arguments kgeb {F}. Arguments keqb {F}.
Arguments kabs {F}. Arguments kmin {F}. Arguments kmax {F}. Arguments kz {F}. Arguments ksq {F}.

(* error values: the exceptions the library raises *)
Inductive res (A : Type) : Type :=
| Ok (a : A)
| InvalidArgument          (* manif::invalid_argument *)
| RuntimeError             (* manif::runtime_error *)
| LogicError               (* std::logic_error (smoothing_phi) *)
| OutOfBounds (i : Z).     (* a checked access went out of range: never raised by correct code *)
Arguments Ok {A}. Arguments InvalidArgument {A}. Arguments RuntimeError {A}.
Arguments LogicError {A}. Arguments OutOfBounds {A}.

Definition rbind {A B} (r : res A) (f : A -> res B) : res B :=
  match r with
  | Ok a => f a | InvalidArgument => InvalidArgument | RuntimeError => RuntimeError
  | LogicError => LogicError | OutOfBounds i => OutOfBounds i
  end.
Definition rmap {A B} (f : A -> B) (r : res A) : res B := rbind r (fun a => Ok (f a)).
