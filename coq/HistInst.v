(* HistInst.v — NormCore (HistProofs.v) for every group: the rotation coefficients stay within eps of unit
   norm under compose (kept or renormalised with approxSqrtInv), inverse, exp, cast; shapes are preserved. *)
From Coq Require Import Reals ZArith List Lra Bool.
From Manif Require Import Scalar Mat Consts Group RInst Tac Generic Algorithms Hist Atan2 SO2 SE2 SO3 SE3 SE23 SGal3 Rn
  SO3Proofs HistProofs.
Import ListNotations.
Local Open Scope R_scope.

Section P.
Variable eps : R.
Hypothesis eps_pos : 0 < eps.
Hypothesis eps_small : eps <= 1 / 8.

Lemma asi_eq x : approxSqrtInv RS x = asi x.
Proof. unfold approxSqrtInv, asi. mat_unfold. reflexivity. Qed.

(* ---- complex numbers (SO2, SE2) ---- *)
Lemma renorm2_inv re im a b : re * re + im * im = a * b -> Rabs (a - 1) <= eps -> Rabs (b - 1) <= eps ->
  Rabs (fst (renorm2 RS eps re im) * fst (renorm2 RS eps re im) + snd (renorm2 RS eps re im) * snd (renorm2 RS eps re im) - 1) <= eps.
Proof.
  intros Hn Ha Hb. pose proof (renorm_decision eps a b eps_pos eps_small Ha Hb) as D.
  unfold renorm2. rewrite asi_eq. mat_unfold. rewrite Hn.
  destruct (Rltb eps _); cbn [fst snd].
  - replace (re * asi (a * b) * (re * asi (a * b)) + im * asi (a * b) * (im * asi (a * b)))
      with ((re * re + im * im) * (asi (a * b) * asi (a * b))) by ring. rewrite Hn. exact D.
  - rewrite Hn. exact D.
Qed.

Definition so2_inv (c : list R) : Prop := exists r i, c = [r; i] /\ Rabs (r * r + i * i - 1) <= eps.
Definition t1 (t : list R) : Prop := exists a, t = [a].

Lemma unit_inv : Rabs (1 - 1) <= eps.
Proof. replace (1 - 1) with 0 by ring. rewrite Rabs_R0. lra. Qed.

Lemma so2_accept r i : Rabs (r * r + i * i - 1) <= eps -> so2_assert_ok RS eps [r; i] = true.
Proof.
  intros H. unfold so2_assert_ok, eigen_norm. mat_unfold. replace (r * r + (i * i + 0)) with (r * r + i * i) by ring.
  pose proof (accepted eps _ eps_pos eps_small H) as A. apply Rltb_true.
  destruct (Rltb (sqrt (r * r + i * i) - 1) 0) eqn:E; [apply Rltb_true in E|apply Rltb_false in E];
    unfold Rabs in A; destruct (Rcase_abs (sqrt (r * r + i * i) - 1)); lra.
Qed.

Definition SO2_norm : NormCore (SO2 RS eps) (so2_cast RS) eps.
Proof.
  refine (mkNorm _ _ _ so2_inv t1 _ _ _ _ _ _ _ (fun _ => True) _ _ _); cbn [g_compose g_inverse g_exp g_log g_dof g_trandom g_grandom g_assert_ok SO2].
  - intros X Y (ar & ai & -> & Ha) (br & bi & -> & Hb). unfold so2_compose, so2_real, so2_imag. mat_unfold.
    set (re := ar * br - ai * bi). set (im := ar * bi + ai * br).
    pose proof (renorm2_inv re im (ar * ar + ai * ai) (br * br + bi * bi) ltac:(unfold re, im; ring) Ha Hb) as H.
    destruct (renorm2 RS eps re im) as [r' i']. cbn [fst snd] in H. exists r', i'. split; [reflexivity|exact H].
  - intros X (r & i & -> & H). unfold so2_inverse, so2_real, so2_imag. mat_unfold. exists r, (- i). split; [reflexivity|].
    replace (r * r + - i * - i - 1) with (r * r + i * i - 1) by ring. exact H.
  - intros t (a & ->). unfold so2_exp, so2t_angle. mat_unfold. exists (cos a), (sin a). split; [reflexivity|].
    replace (cos a * cos a + sin a * sin a - 1) with ((sin a)² + (cos a)² - 1) by (unfold Rsqr; ring). rewrite sin2_cos2. apply unit_inv.
  - intros X (r & i & -> & H). unfold so2_log. eexists; reflexivity.
  - intros t s (a & ->). eexists; reflexivity.
  - eexists; reflexivity.
  - intros X (r & i & -> & H). unfold so2_cast, so2_exp, so2t_angle. mat_unfold. eexists _, _. split; [reflexivity|].
    match goal with |- Rabs (cos ?a * cos ?a + sin ?a * sin ?a - 1) <= _ =>
      replace (cos a * cos a + sin a * sin a - 1) with ((sin a)² + (cos a)² - 1) by (unfold Rsqr; ring) end.
    rewrite sin2_cos2. apply unit_inv.
  - exact I.
  - intros u (a & ->) _. unfold g_random. cbn [g_grandom SO2]. unfold so2_trandom, so2_exp, so2t_angle. mat_unfold. eexists _, _. split; [reflexivity|].
    match goal with |- Rabs (cos ?a * cos ?a + sin ?a * sin ?a - 1) <= _ => replace (cos a * cos a + sin a * sin a - 1) with ((sin a)² + (cos a)² - 1) by (unfold Rsqr; ring) end. rewrite sin2_cos2. apply unit_inv.
  - intros X (r & i & -> & H). apply so2_accept; exact H.
Defined.

Definition se2_inv (c : list R) : Prop := exists x y r i, c = [x; y; r; i] /\ Rabs (r * r + i * i - 1) <= eps.
Definition t3 (t : list R) : Prop := exists a b c, t = [a; b; c].

Definition SE2_norm : NormCore (SE2 RS eps) (se2_cast RS) eps.
Proof.
  refine (mkNorm _ _ _ se2_inv t3 _ _ _ _ _ _ _ (fun _ => True) _ _ _); cbn [g_compose g_inverse g_exp g_log g_dof g_trandom g_grandom g_assert_ok SE2].
  - intros X Y (ax & ay & ar & ai & -> & Ha) (bx & by_ & br & bi & -> & Hb). unfold se2_compose, se2_real, se2_imag, se2_x, se2_y. mat_unfold.
    set (re := ar * br - ai * bi). set (im := ar * bi + ai * br).
    pose proof (renorm2_inv re im (ar * ar + ai * ai) (br * br + bi * bi) ltac:(unfold re, im; ring) Ha Hb) as H.
    destruct (renorm2 RS eps re im) as [r' i']. cbn [fst snd] in H. eexists _, _, r', i'. split; [reflexivity|exact H].
  - intros X (x & y & r & i & -> & H). unfold se2_inverse, se2_real, se2_imag, se2_x, se2_y. mat_unfold. eexists _, _, r, (- i). split; [reflexivity|].
    replace (r * r + - i * - i - 1) with (r * r + i * i - 1) by ring. exact H.
  - intros t (a & b & c & ->). unfold se2_exp. mat_unfold. destruct (se2_AB RS eps c (cos c) (sin c)) as [A B].
    eexists _, _, (cos c), (sin c). split; [reflexivity|].
    replace (cos c * cos c + sin c * sin c - 1) with ((sin c)² + (cos c)² - 1) by (unfold Rsqr; ring). rewrite sin2_cos2. apply unit_inv.
  - intros X (x & y & r & i & -> & H). unfold se2_log. destruct (se2_AB _ _ _ _ _) as [A B]. eexists _, _, _; reflexivity.
  - intros t s (a & b & c & ->). eexists _, _, _; reflexivity.
  - eexists _, _, _; reflexivity.
  - intros X (x & y & r & i & -> & H). unfold se2_cast, se2_from_angle. mat_unfold. eexists _, _, _, _. split; [reflexivity|].
    match goal with |- Rabs (cos ?a * cos ?a + sin ?a * sin ?a - 1) <= _ =>
      replace (cos a * cos a + sin a * sin a - 1) with ((sin a)² + (cos a)² - 1) by (unfold Rsqr; ring) end.
    rewrite sin2_cos2. apply unit_inv.
  - exact I.
  - intros u (a & b & c & ->) _. unfold g_random. cbn [g_grandom SE2]. unfold se2_trandom, se2_exp. mat_unfold.
    match goal with |- context [se2_AB RS eps ?th ?cc ?ss] => destruct (se2_AB RS eps th cc ss) as [A B] end.
    eexists _, _, _, _. split; [reflexivity|].
    match goal with |- Rabs (cos ?a * cos ?a + sin ?a * sin ?a - 1) <= _ => replace (cos a * cos a + sin a * sin a - 1) with ((sin a)² + (cos a)² - 1) by (unfold Rsqr; ring) end. rewrite sin2_cos2. apply unit_inv.
  - intros X (x & y & r & i & -> & H). unfold se2_assert_ok. cbn [skipn]. apply so2_accept; exact H.
Defined.


(* ---- quaternions (SO3 and the SE3 family) ---- *)
Definition q_inv (x y z w : R) : Prop := Rabs (n4 x y z w - 1) <= eps.
Definition so3_inv (c : list R) : Prop := exists x y z w, c = [x; y; z; w] /\ q_inv x y z w.

Lemma so3_compose_inv ax ay az aw bx by_ bz bw : q_inv ax ay az aw -> q_inv bx by_ bz bw ->
  exists x y z w, so3_compose RS eps [ax; ay; az; aw] [bx; by_; bz; bw] = [x; y; z; w] /\ q_inv x y z w.
Proof.
  unfold q_inv. intros Ha Hb. pose proof (renorm_decision eps _ _ eps_pos eps_small Ha Hb) as D.
  unfold so3_compose. rewrite quat_mul_eq, asi_eq.
  set (qx := aw * bx + ax * bw + ay * bz - az * by_). set (qy := aw * by_ + ay * bw + az * bx - ax * bz).
  set (qz := aw * bz + az * bw + ax * by_ - ay * bx). set (qw := aw * bw - ax * bx - ay * by_ - az * bz).
  assert (Hn : @sqnorm RS [qx; qy; qz; qw] = n4 ax ay az aw * n4 bx by_ bz bw).
  { rewrite <- quat_mul_n4. fold qx qy qz qw. unfold n4. mat_unfold. ring. }
  rewrite Hn. mat_unfold.
  destruct (Rltb eps _).
  - eexists _, _, _, _. split; [reflexivity|].
    replace (n4 (qx * asi (n4 ax ay az aw * n4 bx by_ bz bw)) (qy * asi (n4 ax ay az aw * n4 bx by_ bz bw))
                (qz * asi (n4 ax ay az aw * n4 bx by_ bz bw)) (qw * asi (n4 ax ay az aw * n4 bx by_ bz bw)))
      with (n4 qx qy qz qw * (asi (n4 ax ay az aw * n4 bx by_ bz bw) * asi (n4 ax ay az aw * n4 bx by_ bz bw))) by (unfold n4; ring).
    replace (n4 qx qy qz qw) with (n4 ax ay az aw * n4 bx by_ bz bw) by (rewrite <- Hn; unfold n4; mat_unfold; ring). exact D.
  - exists qx, qy, qz, qw. split; [reflexivity|].
    replace (n4 qx qy qz qw) with (n4 ax ay az aw * n4 bx by_ bz bw) by (rewrite <- Hn; unfold n4; mat_unfold; ring). exact D.
Qed.

Lemma so3_exp_inv a b c : exists x y z w, so3_exp RS eps ([a; b; c] : list R) = [x; y; z; w] /\ q_inv x y z w.
Proof.
  unfold so3_exp, quat_of_angle_axis, eigen_normalized, c_half. mat_unfold.
  set (z := a * a + (b * b + (c * c + 0))).
  destruct (Rltb eps z) eqn:E.
  - apply Rltb_true in E. rewrite (Rltb_lt_true 0 z) by lra. mat_unfold.
    eexists _, _, _, _. split; [reflexivity|]. unfold q_inv, n4.
    assert (Hz : 0 < z) by lra. pose proof (sqrt_sqrt z (Rlt_le _ _ Hz)) as Hs. pose proof (sqrt_lt_R0 z Hz) as Hp.
    set (s := sqrt z) in *. set (h := 1 / 2 * s).
    replace (sin h * (a / s) * (sin h * (a / s)) + sin h * (b / s) * (sin h * (b / s)) +
             sin h * (c / s) * (sin h * (c / s)) + cos h * cos h - 1)
      with (sin h * sin h * (z / (s * s)) + cos h * cos h - 1) by (unfold z; field; lra).
    rewrite Hs. replace (z / z) with 1 by (field; lra).
    replace (sin h * sin h * 1 + cos h * cos h - 1) with ((sin h)² + (cos h)² - 1) by (unfold Rsqr; ring). rewrite sin2_cos2. apply unit_inv.
  - apply Rltb_false in E. eexists _, _, _, _. split; [reflexivity|]. unfold q_inv, n4.
    replace (a / 2 * (a / 2) + b / 2 * (b / 2) + c / 2 * (c / 2) + 1 * 1 - 1) with (z / 4) by (unfold z; field).
    assert (0 <= z) by (unfold z; nra). apply Rabs_le_iff. lra.
Qed.

Lemma so3_accept x y z w : q_inv x y z w -> so3_assert_ok RS eps [x; y; z; w] = true.
Proof.
  unfold q_inv. intros H. unfold so3_assert_ok, eigen_norm. mat_unfold.
  replace (x * x + (y * y + (z * z + (w * w + 0)))) with (n4 x y z w) by (unfold n4; ring).
  pose proof (accepted eps _ eps_pos eps_small H) as A. apply Rltb_true.
  destruct (Rltb (sqrt (n4 x y z w) - 1) 0) eqn:E; [apply Rltb_true in E|apply Rltb_false in E];
    unfold Rabs in A; destruct (Rcase_abs (sqrt (n4 x y z w) - 1)); lra.
Qed.

Lemma normalized_inv x y z w : q_inv x y z w ->
  exists x' y' z' w', eigen_normalized RS ([x; y; z; w] : list R) = [x'; y'; z'; w'] /\ q_inv x' y' z' w'.
Proof.
  unfold q_inv. intros H. unfold eigen_normalized. mat_unfold.
  replace (x * x + (y * y + (z * z + (w * w + 0)))) with (n4 x y z w) by (unfold n4; ring).
  apply Rabs_le_iff in H. assert (Hz : 0 < n4 x y z w) by lra.
  rewrite (Rltb_lt_true 0 _) by exact Hz. mat_unfold. eexists _, _, _, _. split; [reflexivity|].
  pose proof (sqrt_sqrt _ (Rlt_le _ _ Hz)) as Hs. pose proof (sqrt_lt_R0 _ Hz) as Hp. set (r := sqrt (n4 x y z w)) in *.
  unfold q_inv. replace (n4 (x / r) (y / r) (z / r) (w / r)) with (n4 x y z w / (r * r)) by (unfold n4; field; lra).
  rewrite Hs. replace (n4 x y z w / n4 x y z w) with 1 by (field; lra). apply unit_inv.
Qed.

Lemma conj_inv x y z w : q_inv x y z w -> q_inv (- x) (- y) (- z) w.
Proof. unfold q_inv, n4. intros H. replace (- x * - x + - y * - y + - z * - z + w * w - 1) with (x * x + y * y + z * z + w * w - 1) by ring. exact H. Qed.


(* Eigen's UnitRandom (randQuat) is exactly unit-norm over the reals when its first draw is in [0, 1] *)
Definition draw_q (k : nat) (u : list R) : Prop := 0 <= @vnth RS u k <= 1.
Lemma rand_quat_inv u1 u2 u3 : 0 <= u1 <= 1 -> exists x y z w, rand_quat RS u1 u2 u3 = [x; y; z; w] /\ q_inv x y z w.
Proof.
  intros Hu. unfold rand_quat. cbn [K RS ksqrt ksin kcos kmul ksub]. unfold kz. cbn [klit RS].
  eexists _, _, _, _. split; [reflexivity|]. unfold q_inv, n4.
  assert (Ha : sqrt (1 - u1) * sqrt (1 - u1) = 1 - u1) by (apply sqrt_sqrt; lra).
  assert (Hb : sqrt u1 * sqrt u1 = u1) by (apply sqrt_sqrt; lra).
  set (a := sqrt (1 - u1)) in *. set (b := sqrt u1) in *.
  replace (a * cos u2 * (a * cos u2) + b * sin u3 * (b * sin u3) + b * cos u3 * (b * cos u3) + a * sin u2 * (a * sin u2) - 1)
    with ((a * a) * ((sin u2)² + (cos u2)²) + (b * b) * ((sin u3)² + (cos u3)²) - 1) by (unfold Rsqr; ring).
  rewrite !sin2_cos2, Ha, Hb. replace ((1 - u1) * 1 + u1 * 1 - 1) with 0 by ring. rewrite Rabs_R0. lra.
Qed.

Definition SO3_norm : NormCore (SO3 RS eps) (so3_cast RS) eps.
Proof.
  refine (mkNorm _ _ _ so3_inv t3 _ _ _ _ _ _ _ (draw_q 0) _ _ _); cbn [g_compose g_inverse g_exp g_log g_dof g_trandom g_grandom g_assert_ok SO3].
  - intros X Y (ax & ay & az & aw & -> & Ha) (bx & by_ & bz & bw & -> & Hb). apply so3_compose_inv; assumption.
  - intros X (x & y & z & w & -> & H). eexists _, _, _, _. split; [reflexivity|]. apply conj_inv; exact H.
  - intros t (a & b & c & ->). apply so3_exp_inv.
  - intros X (x & y & z & w & -> & H). unfold so3_log. cbn [firstn]. eexists _, _, _; reflexivity.
  - intros t s (a & b & c & ->). eexists _, _, _; reflexivity.
  - eexists _, _, _; reflexivity.
  - intros X (x & y & z & w & -> & H). apply normalized_inv; exact H.
  - unfold draw_q, vnth, vzero. cbn. lra.
  - intros u (a & b & c & ->) Hd. unfold g_random. cbn [g_grandom SO3]. unfold draw_q in Hd. cbn [vnth nth] in *. apply rand_quat_inv. exact Hd.
  - intros X (x & y & z & w & -> & H). apply so3_accept; exact H.
Defined.

Definition t6 (t : list R) : Prop := exists a b c d e f, t = [a; b; c; d; e; f].
Definition se3_inv (c : list R) : Prop := exists tx ty tz x y z w, c = [tx; ty; tz; x; y; z; w] /\ q_inv x y z w.

Lemma so3_ljac_shape a b c : exists r1 r2 r3 r4 r5 r6 r7 r8 r9, so3_ljac RS eps ([a; b; c] : list R) = [[r1; r2; r3]; [r4; r5; r6]; [r7; r8; r9]].
Proof. unfold so3_ljac, so3_hat. mat_unfold. destruct (negb _); mat_unfold; eexists _, _, _, _, _, _, _, _, _; reflexivity. Qed.
Lemma so3_ljacinv_shape a b c : exists r1 r2 r3 r4 r5 r6 r7 r8 r9, so3_ljacinv RS eps ([a; b; c] : list R) = [[r1; r2; r3]; [r4; r5; r6]; [r7; r8; r9]].
Proof. unfold so3_ljacinv, so3_hat. mat_unfold. destruct (negb _); mat_unfold; eexists _, _, _, _, _, _, _, _, _; reflexivity. Qed.
Lemma so3_log_shape x y z w : exists a b c, so3_log RS eps ([x; y; z; w] : list R) = [a; b; c].
Proof. unfold so3_log. cbn [firstn]. eexists _, _, _; reflexivity. Qed.
Lemma quat_matrix_shape x y z w : exists r1 r2 r3 r4 r5 r6 r7 r8 r9, quat_matrix RS ([x; y; z; w] : list R) = [[r1; r2; r3]; [r4; r5; r6]; [r7; r8; r9]].
Proof. unfold quat_matrix. eexists _, _, _, _, _, _, _, _, _; reflexivity. Qed.

Definition SE3_norm : NormCore (SE3 RS eps) (se3_cast RS) eps.
Proof.
  refine (mkNorm _ _ _ se3_inv t6 _ _ _ _ _ _ _ (draw_q 3) _ _ _); cbn [g_compose g_inverse g_exp g_log g_dof g_trandom g_grandom g_assert_ok SE3].
  - intros X Y (atx & aty & atz & ax & ay & az & aw & -> & Ha) (btx & bty & btz & bx & by_ & bz & bw & -> & Hb).
    unfold se3_compose, se3_rotation, se3_q, se3_t, so3_rotation. cbn [vslice skipn firstn]. cbn [K RS].
    destruct (so3_compose_inv _ _ _ _ _ _ _ _ Ha Hb) as (x & y & z & w & -> & H).
    destruct (quat_matrix_shape ax ay az aw) as (r1 & r2 & r3 & r4 & r5 & r6 & r7 & r8 & r9 & ->). mat_unfold.
    eexists _, _, _, x, y, z, w. split; [reflexivity|exact H].
  - intros X (tx & ty & tz & x & y & z & w & -> & H). unfold se3_inverse, se3_q, se3_t, so3_inverse, so3_act, so3_rotation, quat_conj, qx, qy, qz, qw.
    cbn [vslice skipn firstn]. cbn [K RS]. mat_unfold.
    destruct (quat_matrix_shape (- x) (- y) (- z) w) as (r1 & r2 & r3 & r4 & r5 & r6 & r7 & r8 & r9 & ->). mat_unfold.
    eexists _, _, _, _, _, _, _. split; [reflexivity|]. apply conj_inv; exact H.
  - intros t (a & b & c & d & e & f & ->). unfold se3_exp, se3t_ang, se3t_lin. cbn [skipn firstn]. cbn [K RS].
    destruct (so3_exp_inv d e f) as (x & y & z & w & -> & H).
    destruct (so3_ljac_shape d e f) as (r1 & r2 & r3 & r4 & r5 & r6 & r7 & r8 & r9 & ->). mat_unfold.
    eexists _, _, _, x, y, z, w. split; [reflexivity|exact H].
  - intros X (tx & ty & tz & x & y & z & w & -> & H). unfold se3_log, se3_q, se3_t. cbn [vslice skipn firstn]. cbn [K RS].
    destruct (so3_log_shape x y z w) as (a & b & c & ->). cbn [K RS].
    destruct (so3_ljacinv_shape a b c) as (r1 & r2 & r3 & r4 & r5 & r6 & r7 & r8 & r9 & ->). mat_unfold.
    eexists _, _, _, _, _, _; reflexivity.
  - intros t s (a & b & c & d & e & f & ->). eexists _, _, _, _, _, _; reflexivity.
  - eexists _, _, _, _, _, _; reflexivity.
  - intros X (tx & ty & tz & x & y & z & w & -> & H). unfold se3_cast. cbn [vslice skipn firstn]. cbn [K RS].
    destruct (normalized_inv _ _ _ _ H) as (x' & y' & z' & w' & -> & H'). eexists _, _, _, _, _, _, _. split; [reflexivity|exact H'].
  - unfold draw_q, vnth, vzero. cbn. lra.
  - intros u (a & b & c & d & e & f & ->) Hd. unfold g_random. cbn [g_grandom SE3]. unfold draw_q in Hd. cbn [vnth nth firstn] in *.
    destruct (rand_quat_inv d e f Hd) as (x & y & z & w & -> & Hq). eexists _, _, _, x, y, z, w. split; [reflexivity|exact Hq].
  - intros X (tx & ty & tz & x & y & z & w & -> & H). unfold se3_assert_ok. cbn [skipn]. apply so3_accept; exact H.
Defined.


Definition t9 (t : list R) : Prop := exists a b c d e f g h i, t = [a; b; c; d; e; f; g; h; i].
Definition se23_inv (c : list R) : Prop :=
  exists tx ty tz x y z w vx vy vz, c = [tx; ty; tz; x; y; z; w; vx; vy; vz] /\ q_inv x y z w.

Definition SE23_norm : NormCore (SE23 RS eps) (se23_cast RS) eps.
Proof.
  refine (mkNorm _ _ _ se23_inv t9 _ _ _ _ _ _ _ (draw_q 3) _ _ _); cbn [g_compose g_inverse g_exp g_log g_dof g_trandom g_grandom g_assert_ok SE23].
  - intros X Y (atx & aty & atz & ax & ay & az & aw & avx & avy & avz & -> & Ha) (btx & bty & btz & bx & by_ & bz & bw & bvx & bvy & bvz & -> & Hb).
    unfold se23_compose, se23_rotation, se23_q, se23_t, se23_v, so3_rotation. cbn [vslice skipn firstn]. cbn [K RS].
    destruct (so3_compose_inv _ _ _ _ _ _ _ _ Ha Hb) as (x & y & z & w & -> & H).
    destruct (quat_matrix_shape ax ay az aw) as (r1 & r2 & r3 & r4 & r5 & r6 & r7 & r8 & r9 & ->). mat_unfold.
    eexists _, _, _, x, y, z, w, _, _, _. split; [reflexivity|exact H].
  - intros X (tx & ty & tz & x & y & z & w & vx & vy & vz & -> & H).
    unfold se23_inverse, se23_q, se23_t, se23_v, so3_inverse, so3_act, so3_rotation, quat_conj, qx, qy, qz, qw.
    cbn [vslice skipn firstn]. mat_unfold. cbn [K RS].
    destruct (quat_matrix_shape (- x) (- y) (- z) w) as (r1 & r2 & r3 & r4 & r5 & r6 & r7 & r8 & r9 & ->). mat_unfold.
    eexists _, _, _, _, _, _, _, _, _, _. split; [reflexivity|]. apply conj_inv; exact H.
  - intros t (a & b & c & d & e & f & g & h & i & ->). unfold se23_exp, se23t_ang, se23t_lin, se23t_lin2. cbn [vslice skipn firstn]. cbn [K RS].
    destruct (so3_exp_inv d e f) as (x & y & z & w & -> & H).
    destruct (so3_ljac_shape d e f) as (r1 & r2 & r3 & r4 & r5 & r6 & r7 & r8 & r9 & ->). mat_unfold.
    eexists _, _, _, x, y, z, w, _, _, _. split; [reflexivity|exact H].
  - intros X (tx & ty & tz & x & y & z & w & vx & vy & vz & -> & H). unfold se23_log, se23_q, se23_t, se23_v. cbn [vslice skipn firstn]. cbn [K RS].
    destruct (so3_log_shape x y z w) as (a & b & c & ->). cbn [K RS].
    destruct (so3_ljacinv_shape a b c) as (r1 & r2 & r3 & r4 & r5 & r6 & r7 & r8 & r9 & ->). mat_unfold.
    eexists _, _, _, _, _, _, _, _, _; reflexivity.
  - intros t s (a & b & c & d & e & f & g & h & i & ->). eexists _, _, _, _, _, _, _, _, _; reflexivity.
  - eexists _, _, _, _, _, _, _, _, _; reflexivity.
  - intros X (tx & ty & tz & x & y & z & w & vx & vy & vz & -> & H). unfold se23_cast. cbn [vslice skipn firstn]. cbn [K RS].
    destruct (normalized_inv _ _ _ _ H) as (x' & y' & z' & w' & -> & H'). eexists _, _, _, _, _, _, _, _, _, _. split; [reflexivity|exact H'].
  - unfold draw_q, vnth, vzero. cbn. lra.
  - intros u (a & b & c & d & e & f & g & h & i & ->) Hd. unfold g_random. cbn [g_grandom SE23]. unfold draw_q in Hd. cbn [vnth nth firstn vslice skipn] in *.
    destruct (rand_quat_inv d e f Hd) as (x & y & z & w & -> & Hq). eexists _, _, _, x, y, z, w, _, _, _. split; [reflexivity|exact Hq].
  - intros X (tx & ty & tz & x & y & z & w & vx & vy & vz & -> & H). unfold se23_assert_ok. cbn [vslice skipn firstn]. apply so3_accept; exact H.
Defined.

Definition t10 (t : list R) : Prop := exists a b c d e f g h i j, t = [a; b; c; d; e; f; g; h; i; j].
Definition sg_inv (c : list R) : Prop :=
  exists px py pz x y z w vx vy vz t, c = [px; py; pz; x; y; z; w; vx; vy; vz; t] /\ q_inv x y z w.

Lemma fillE_shape a b c : exists r1 r2 r3 r4 r5 r6 r7 r8 r9, fillE RS eps ([a; b; c] : list R) = [[r1; r2; r3]; [r4; r5; r6]; [r7; r8; r9]].
Proof. unfold fillE, I33. mat_unfold. destruct (Rltb _ _); mat_unfold; eexists _, _, _, _, _, _, _, _, _; reflexivity. Qed.

Definition SGal3_norm : NormCore (SGal3 RS eps) (sg_cast RS) eps.
Proof.
  refine (mkNorm _ _ _ sg_inv t10 _ _ _ _ _ _ _ (draw_q 3) _ _ _); cbn [g_compose g_inverse g_exp g_log g_dof g_trandom g_grandom g_assert_ok SGal3].
  - intros X Y (apx & apy & apz & ax & ay & az & aw & avx & avy & avz & at_ & -> & Ha) (bpx & bpy & bpz & bx & by_ & bz & bw & bvx & bvy & bvz & bt & -> & Hb).
    unfold sg_compose, sg_rotation, sg_q, sg_p, sg_v, sg_t, so3_rotation. cbn [vslice skipn firstn]. cbn [K RS].
    destruct (so3_compose_inv _ _ _ _ _ _ _ _ Ha Hb) as (x & y & z & w & -> & H).
    destruct (quat_matrix_shape ax ay az aw) as (r1 & r2 & r3 & r4 & r5 & r6 & r7 & r8 & r9 & ->). mat_unfold.
    eexists _, _, _, x, y, z, w, _, _, _, _. split; [reflexivity|exact H].
  - intros X (px & py & pz & x & y & z & w & vx & vy & vz & t & -> & H).
    unfold sg_inverse, sg_q, sg_p, sg_v, sg_t, so3_inverse, so3_act, so3_rotation, quat_conj, qx, qy, qz, qw.
    cbn [vslice skipn firstn]. mat_unfold. cbn [K RS].
    destruct (quat_matrix_shape (- x) (- y) (- z) w) as (r1 & r2 & r3 & r4 & r5 & r6 & r7 & r8 & r9 & ->). mat_unfold.
    eexists _, _, _, _, _, _, _, _, _, _, _. split; [reflexivity|]. apply conj_inv; exact H.
  - intros t (a & b & c & d & e & f & g & h & i & j & ->). unfold sg_exp, sgt_ang, sgt_lin, sgt_lin2, sgt_t. cbn [vslice skipn firstn]. cbn [K RS].
    destruct (so3_exp_inv g h i) as (x & y & z & w & -> & H).
    destruct (so3_ljac_shape g h i) as (r1 & r2 & r3 & r4 & r5 & r6 & r7 & r8 & r9 & ->).
    destruct (fillE_shape g h i) as (e1 & e2 & e3 & e4 & e5 & e6 & e7 & e8 & e9 & ->). mat_unfold.
    eexists _, _, _, x, y, z, w, _, _, _, _. split; [reflexivity|exact H].
  - intros X (px & py & pz & x & y & z & w & vx & vy & vz & t & -> & H). unfold sg_log, sg_q, sg_p, sg_v, sg_t. cbn [vslice skipn firstn]. cbn [K RS].
    destruct (so3_log_shape x y z w) as (a & b & c & ->). cbn [K RS].
    destruct (so3_ljacinv_shape a b c) as (r1 & r2 & r3 & r4 & r5 & r6 & r7 & r8 & r9 & ->).
    destruct (fillE_shape a b c) as (e1 & e2 & e3 & e4 & e5 & e6 & e7 & e8 & e9 & ->). mat_unfold.
    eexists _, _, _, _, _, _, _, _, _, _; reflexivity.
  - intros t s (a & b & c & d & e & f & g & h & i & j & ->). eexists _, _, _, _, _, _, _, _, _, _; reflexivity.
  - eexists _, _, _, _, _, _, _, _, _, _; reflexivity.
  - intros X (px & py & pz & x & y & z & w & vx & vy & vz & t & -> & H). unfold sg_cast. cbn [vslice skipn firstn]. cbn [K RS].
    destruct (normalized_inv _ _ _ _ H) as (x' & y' & z' & w' & -> & H'). eexists _, _, _, _, _, _, _, _, _, _, _. split; [reflexivity|exact H'].
  - unfold draw_q, vnth, vzero. cbn. lra.
  - intros u (a & b & c & d & e & f & g & h & i & j & ->) Hd. unfold g_random. cbn [g_grandom SGal3]. unfold draw_q in Hd. cbn [vnth nth firstn vslice skipn] in *.
    destruct (rand_quat_inv d e f Hd) as (x & y & z & w & -> & Hq). eexists _, _, _, x, y, z, w, _, _, _, _. split; [reflexivity|exact Hq].
  - intros X (px & py & pz & x & y & z & w & vx & vy & vz & t & -> & H). unfold sg_assert_ok. cbn [vslice skipn firstn]. apply so3_accept; exact H.
Defined.

End P.

(* ---- Rn: no rotation part; only the shape ---- *)
Lemma vadd_length (a b : list R) n : length a = n -> length b = n -> length (@vadd RS a b) = n.
Proof. unfold vadd. revert b n. induction a as [|x a IH]; intros [|y b] n Ha Hb; cbn [vmap2 length] in *; try congruence. destruct n; [discriminate|]. f_equal. apply IH; congruence. Qed.

Definition Rn_norm (n : nat) (eps : R) : NormCore (Rn RS n) (fun c => c) eps.
Proof.
  refine (mkNorm _ _ _ (fun c => length c = n) (fun t => length t = n) _ _ _ _ _ _ _ (fun _ => True) _ _ _); cbn [g_compose g_inverse g_exp g_log g_dof g_trandom g_grandom g_assert_ok Rn].
  - intros X Y HX HY. unfold rn_compose. apply vadd_length; assumption.
  - intros X HX. unfold rn_inverse, vneg. rewrite map_length. exact HX.
  - intros t H; exact H.
  - intros X H; exact H.
  - intros t s H. unfold vscale_r. rewrite map_length. exact H.
  - unfold vzero. apply repeat_length.
  - intros X H; exact H.
  - exact I.
  - intros u H _. unfold g_random. cbn [g_grandom Rn]. exact H.
  - reflexivity.
Defined.

