#!/usr/bin/env python3
"""development helper: run the correspondence for some groups/ops and print disagreements.
usage: try_corr.py GROUP[,GROUP...] [N per op] [seed] [op,op,...]"""
import sys, os, time
sys.path.insert(0, os.path.dirname(os.path.abspath(__file__)))
import corr, gen2
from gen import G
groups = sys.argv[1].split(";") if "[" in sys.argv[1] else sys.argv[1].split(",")
n = int(sys.argv[2]) if len(sys.argv) > 2 else 30
seed = int(sys.argv[3]) if len(sys.argv) > 3 else 1
ops = sys.argv[4].split(",") if len(sys.argv) > 4 else list(corr.OPSIG)
g = G(seed); cases = []
for gn in groups:
    for op in ops:
        if not corr.op_applicable(op, gn): continue
        for k in range(n): cases.append(corr.gen_case(g, gn, op))
t = time.time()
res, be = corr.run_cases(cases)
for n_, log in be.items(): print("BUILD FAILED", n_, log[-3000:])
s, dis = corr.summarize(res)
print({k: v for k, v in s.items() if k != "per_op"}, "%.1fs" % (time.time() - t))
seen = {}
for d in dis:
    k = (d["case"]["group"], d["case"]["op"])
    seen[k] = seen.get(k, 0) + 1
    if seen[k] > 2: continue
    print(corr.case_line(0, d["case"])[:400]); print("  impl ", d["impl"][:400]); print("  model", d["model"][:400])
print("disagreements per (group,op):", seen)
