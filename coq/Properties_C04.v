(* Properties_C04.v — property C04: plus / minus / between are the documented compositions and
   every alias agrees with its canonical member.
   On the model the derived operations are *defined* as LieGroupBase defines them, so the first
   group of theorems is by computation; their content is that the code is compared, entry point by
   entry point (every row of Api.v is executed on the implementation on every run), against these
   definitions.  C04_alias_* state that every spelling of the alias table denotes one of the
   canonical members and which one. *)
From Coq Require Import Reals ZArith List Lra.
From Manif Require Import Scalar Mat Group RInst Generic Api Run.
Import ListNotations.
Local Open Scope R_scope.

Section AnyGroup.
Variable F : Sc.
Variable G : GroupOps F.

(* values *)
Theorem C04_rplus X t ja jb : fst (fst (rplus G X t ja jb)) = g_compose G X (g_exp G t).
Proof. reflexivity. Qed.
Theorem C04_lplus X t ja jb : fst (fst (lplus G X t ja jb)) = g_compose G (g_exp G t) X.
Proof. reflexivity. Qed.
Theorem C04_rminus X Y ja jb : fst (fst (rminus G X Y ja jb)) = g_log G (g_compose G (g_inverse G Y) X).
Proof. reflexivity. Qed.
Theorem C04_lminus X Y ja jb : fst (fst (lminus G X Y ja jb)) = g_log G (g_compose G X (g_inverse G Y)).
Proof. unfold lminus. destruct ja, jb; reflexivity. Qed.
Theorem C04_between X Y ja jb : fst (fst (between G X Y ja jb)) = g_compose G (g_inverse G X) Y.
Proof. reflexivity. Qed.
Theorem C04_plus_is_rplus X t ja jb : plus G X t ja jb = rplus G X t ja jb.
Proof. reflexivity. Qed.
Theorem C04_minus_is_rminus X Y ja jb : minus G X Y ja jb = rminus G X Y ja jb.
Proof. reflexivity. Qed.

(* every alias spelling denotes the canonical member the README documents *)
Theorem C04_alias_gt k c : alias_gt k = Some c ->
  (In k [0; 1; 2; 3; 4; 8; 10]%Z /\ c = CRplus) \/ (In k [5; 6; 7; 9; 11]%Z /\ c = CLplus).
Proof.
  unfold alias_gt. intros H.
  destruct k as [|p|p]; try discriminate;
  repeat (destruct p as [p|p|]; try discriminate);
  injection H as <-; cbn; intuition auto.
Qed.
Theorem C04_alias_gg k c : alias_gg k = Some c ->
  (In k [0; 1; 2; 4]%Z /\ c = CRminus) \/ (k = 3%Z /\ c = CLminus) \/
  (In k [5; 6; 7]%Z /\ c = CCompose) \/ (k = 8%Z /\ c = CBetween).
Proof.
  unfold alias_gg. intros H.
  destruct k as [|p|p]; try discriminate;
  repeat (destruct p as [p|p|]; try discriminate);
  injection H as <-; cbn; intuition auto.
Qed.

(* the value of an alias never depends on which Jacobians are requested with it *)
Theorem C04_alias_value c X a ja jb : fst (fst (sem2 G c X a ja jb)) = fst (fst (sem2 G c X a false false)).
Proof. destruct c; cbn; try reflexivity. unfold lminus. destruct ja, jb; reflexivity. Qed.
End AnyGroup.
Print Assumptions C04_alias_value.

(* what the executable entry point runs for an alias index is the canonical semantic function *)
Theorem C04_run_alias_gt (F : Sc) eps g k c mask args : alias_gt k = Some c ->
  @run_op F eps g OAliasGT mask k args =
  Ok (out2 F (sem2 (group_of eps g) c (arg F args 0) (arg F args 1) (bit mask 0) (bit mask 1))).
Proof. intros H. unfold run_op. rewrite H. reflexivity. Qed.
Print Assumptions C04_run_alias_gt.

(* ---- the round trips: (X + t) - X = t and X + (Y - X) = Y, right and left, for ANY group with the C01 laws, given the
   two halves of C03 at the relative element (log(exp t) = t when the rotation of t is below pi; exp(log Z) = Z) ---- *)
From Manif Require Import LieSpec RoundTrip SE2 SO3 SE2Proofs SO3Proofs Log_SE2 InterpProofs InterpInst LogExp_SO3.
Theorem C04_rplus_rminus (G : GroupOps RS) (C : GroupCore G) X t : gc_valid C X -> gc_valid C (g_exp G t) -> g_log G (g_exp G t) = t ->
  fst (fst (rminus G (fst (fst (rplus G X t false false))) X false false)) = t.
Proof. exact (RoundTrip.rplus_rminus G C X t). Qed.
Theorem C04_rminus_rplus (G : GroupOps RS) (C : GroupCore G) X Y : gc_valid C X -> gc_valid C Y ->
  g_exp G (g_log G (g_compose G (g_inverse G X) Y)) = g_compose G (g_inverse G X) Y ->
  fst (fst (rplus G X (fst (fst (rminus G Y X false false))) false false)) = Y.
Proof. exact (RoundTrip.rminus_rplus G C X Y). Qed.
Theorem C04_lplus_lminus (G : GroupOps RS) (C : GroupCore G) X t : gc_valid C X -> gc_valid C (g_exp G t) -> g_log G (g_exp G t) = t ->
  fst (fst (lminus G (fst (fst (lplus G X t false false))) X false false)) = t.
Proof. exact (RoundTrip.lplus_lminus G C X t). Qed.
Theorem C04_lminus_lplus (G : GroupOps RS) (C : GroupCore G) X Y : gc_valid C X -> gc_valid C Y ->
  g_exp G (g_log G (g_compose G Y (g_inverse G X))) = g_compose G Y (g_inverse G X) ->
  fst (fst (lplus G X (fst (fst (lminus G Y X false false))) false false)) = Y.
Proof. exact (RoundTrip.lminus_lplus G C X Y). Qed.
Print Assumptions C04_lminus_lplus.

(* instances with the hypotheses discharged: SE2 (any translation, rotation of t in (-pi, pi]; any valid X, Y) *)
Theorem C04_SE2_plus_minus eps X x y th : 0 < eps -> eps <= 1 -> se2_valid X -> - PI < th <= PI ->
  fst (fst (rminus (SE2 RS eps) (fst (fst (rplus (SE2 RS eps) X [x; y; th] false false))) X false false)) = [x; y; th].
Proof.
  intros H H1 HX Hth. apply (RoundTrip.rplus_rminus _ (SE2_core eps H)); [exact HX| |].
  - apply (el_exp_valid _ (SE2_explog eps H H1)). exists x, y, th. reflexivity.
  - apply (se2_log_exp eps H H1 x y th Hth).
Qed.
Theorem C04_SE2_minus_plus eps X Y : 0 < eps -> eps <= 1 -> se2_valid X -> se2_valid Y ->
  fst (fst (rplus (SE2 RS eps) X (fst (fst (rminus (SE2 RS eps) Y X false false))) false false)) = Y.
Proof.
  intros H H1 HX HY. apply (RoundTrip.rminus_rplus _ (SE2_core eps H)); [exact HX|exact HY|].
  apply (se2_exp_log eps H H1). apply (gc_compose_valid _ (SE2_core eps H)); [apply (gc_inverse_valid _ (SE2_core eps H))|]; assumption.
Qed.
(* SO3: rotation of t below pi, generic branches *)
Theorem C04_SO3_plus_minus eps X x y z : 0 < eps -> so3_valid X ->
  eps < x * x + y * y + z * z -> sqrt (x * x + y * y + z * z) < PI ->
  eps < sin (sqrt (x * x + y * y + z * z) / 2) * sin (sqrt (x * x + y * y + z * z) / 2) ->
  fst (fst (rminus (SO3 RS eps) (fst (fst (rplus (SO3 RS eps) X [x; y; z] false false))) X false false)) = [x; y; z].
Proof.
  intros H HX H1 H2 H3. apply (RoundTrip.rplus_rminus _ (SO3_core eps H)); [exact HX|apply (so3_exp_valid_generic eps H x y z H1)|].
  apply (so3_log_exp_generic eps H x y z H1 H2 H3).
Qed.

(* SE3, SE_2(3), SGal(3): both round trips, right and left, for every valid X (RoundTrip_Fam: C01 core + validity of exp + C03) *)
From Manif Require Import SE3 SE23 SGal3 SE23Proofs RoundTrip_Fam.
Theorem C04_SE3_plus_minus eps (Heps : 0 < eps) x y z
  (Hgt : eps < x * x + y * y + z * z) (Hpi : sqrt (x * x + y * y + z * z) < PI)
  (Hsin : eps < sin (sqrt (x * x + y * y + z * z) / 2) * sin (sqrt (x * x + y * y + z * z) / 2)) X a b c : se3_valid X ->
  fst (fst (rminus (SE3 RS eps) (fst (fst (rplus (SE3 RS eps) X [a; b; c; x; y; z] false false))) X false false)) = [a; b; c; x; y; z] /\
  fst (fst (lminus (SE3 RS eps) (fst (fst (lplus (SE3 RS eps) X [a; b; c; x; y; z] false false))) X false false)) = [a; b; c; x; y; z].
Proof. exact (se3_plus_minus eps Heps x y z Hgt Hpi Hsin X a b c). Qed.
Theorem C04_SE23_plus_minus eps (Heps : 0 < eps) x y z
  (Hgt : eps < x * x + y * y + z * z) (Hpi : sqrt (x * x + y * y + z * z) < PI)
  (Hsin : eps < sin (sqrt (x * x + y * y + z * z) / 2) * sin (sqrt (x * x + y * y + z * z) / 2)) X a b c d e f : se23_valid X ->
  fst (fst (rminus (SE23 RS eps) (fst (fst (rplus (SE23 RS eps) X [a; b; c; x; y; z; d; e; f] false false))) X false false)) = [a; b; c; x; y; z; d; e; f] /\
  fst (fst (lminus (SE23 RS eps) (fst (fst (lplus (SE23 RS eps) X [a; b; c; x; y; z; d; e; f] false false))) X false false)) = [a; b; c; x; y; z; d; e; f].
Proof. exact (se23_plus_minus eps Heps x y z Hgt Hpi Hsin X a b c d e f). Qed.
Theorem C04_SGal3_plus_minus eps (Heps : 0 < eps) x y z
  (Hgt : eps < x * x + y * y + z * z) (Hpi : sqrt (x * x + y * y + z * z) < PI)
  (Hsin : eps < sin (sqrt (x * x + y * y + z * z) / 2) * sin (sqrt (x * x + y * y + z * z) / 2)) X a b c d e f tau : sg_valid X ->
  fst (fst (rminus (SGal3 RS eps) (fst (fst (rplus (SGal3 RS eps) X [a; b; c; d; e; f; x; y; z; tau] false false))) X false false)) = [a; b; c; d; e; f; x; y; z; tau] /\
  fst (fst (lminus (SGal3 RS eps) (fst (fst (lplus (SGal3 RS eps) X [a; b; c; d; e; f; x; y; z; tau] false false))) X false false)) = [a; b; c; d; e; f; x; y; z; tau].
Proof. exact (sg_plus_minus eps Heps x y z Hgt Hpi Hsin X a b c d e f tau). Qed.
Theorem C04_SE3_minus_plus eps (Heps : 0 < eps) X Y tx ty tz x y z w : se3_valid X -> se3_valid Y ->
  g_compose (SE3 RS eps) (g_inverse (SE3 RS eps) X) Y = [tx; ty; tz; x; y; z; w] -> 0 < w -> eps < x * x + y * y + z * z ->
  fst (fst (rplus (SE3 RS eps) X (fst (fst (rminus (SE3 RS eps) Y X false false))) false false)) = Y.
Proof. exact (se3_minus_plus eps Heps X Y tx ty tz x y z w). Qed.
Theorem C04_SE3_lminus_lplus eps (Heps : 0 < eps) X Y tx ty tz x y z w : se3_valid X -> se3_valid Y ->
  g_compose (SE3 RS eps) Y (g_inverse (SE3 RS eps) X) = [tx; ty; tz; x; y; z; w] -> 0 < w -> eps < x * x + y * y + z * z ->
  fst (fst (lplus (SE3 RS eps) X (fst (fst (lminus (SE3 RS eps) Y X false false))) false false)) = Y.
Proof. exact (se3_lminus_lplus eps Heps X Y tx ty tz x y z w). Qed.
Theorem C04_SE23_minus_plus eps (Heps : 0 < eps) X Y tx ty tz x y z w vx vy vz : se23_valid X -> se23_valid Y ->
  g_compose (SE23 RS eps) (g_inverse (SE23 RS eps) X) Y = [tx; ty; tz; x; y; z; w; vx; vy; vz] -> 0 < w -> eps < x * x + y * y + z * z ->
  fst (fst (rplus (SE23 RS eps) X (fst (fst (rminus (SE23 RS eps) Y X false false))) false false)) = Y.
Proof. exact (se23_minus_plus eps Heps X Y tx ty tz x y z w vx vy vz). Qed.
Theorem C04_SGal3_minus_plus eps (Heps : 0 < eps) X Y px py pz x y z w vx vy vz t : sg_valid X -> sg_valid Y ->
  g_compose (SGal3 RS eps) (g_inverse (SGal3 RS eps) X) Y = [px; py; pz; x; y; z; w; vx; vy; vz; t] -> 0 < w -> eps < x * x + y * y + z * z ->
  fst (fst (rplus (SGal3 RS eps) X (fst (fst (rminus (SGal3 RS eps) Y X false false))) false false)) = Y.
Proof. exact (sg_minus_plus eps Heps X Y px py pz x y z w vx vy vz t). Qed.
Print Assumptions C04_SGal3_plus_minus.
Print Assumptions C04_SE3_minus_plus.

(* Bundles: the round trips hold on a Bundle as soon as its elements have the C01 laws (BundleGroup.Bundle_core is a GroupCore,
   so C04_rplus_rminus ... apply) and C03 holds at the relative element; discharged for EVERY valid X of Bundle<SO3, R3, SE3>
   and every tangent whose rotations are below pi on the closed-form branches (BundleRoundTrip, BundleLogExp, BundleCoreValid). *)
From Manif Require Import Bundle BundleProofs BundleLaws BundleInst BundleCore BundleGroup BundleLogExp BundleCoreValid BundleRoundTrip.
Theorem C04_Bundle_SO3_R3_SE3_plus_minus eps (H : 0 < eps) X x y z p q r a b c u v w :
  gc_valid (C3 eps H) X -> rot_ok eps x y z -> rot_ok eps u v w ->
  fst (fst (rminus (Bundle (L3 eps)) (fst (fst (rplus (Bundle (L3 eps)) X (tan3 x y z p q r a b c u v w) false false))) X false false))
  = tan3 x y z p q r a b c u v w.
Proof. exact (bundle3_rplus_rminus eps H X x y z p q r a b c u v w). Qed.
Theorem C04_Bundle_SO3_R3_SE3_lplus_lminus eps (H : 0 < eps) X x y z p q r a b c u v w :
  gc_valid (C3 eps H) X -> rot_ok eps x y z -> rot_ok eps u v w ->
  fst (fst (lminus (Bundle (L3 eps)) (fst (fst (lplus (Bundle (L3 eps)) X (tan3 x y z p q r a b c u v w) false false))) X false false))
  = tan3 x y z p q r a b c u v w.
Proof. exact (bundle3_lplus_lminus eps H X x y z p q r a b c u v w). Qed.
(* what "valid" means for the Bundle's GroupCore: a concatenation of valid elements *)
Theorem C04_Bundle_core_valid (LG : list PackedG) (dG : PackedG) X :
  gc_valid (Bundle_core LG dG) X <->
  bvalid RS (map p_G (map m_pack (map g_m LG))) (fun i X => gc_valid (p_core (nth i (map m_pack (map g_m LG)) (m_pack (g_m dG)))) X) X.
Proof. exact (Bundle_core_valid LG dG X). Qed.
Example C04_Bundle_nonvacuous eps (H : 0 < eps) : gc_valid (C3 eps H) (g_identity (Bundle (L3 eps))).
Proof. exact (C3_identity_valid eps H). Qed.
Print Assumptions C04_Bundle_SO3_R3_SE3_plus_minus.
Print Assumptions C04_Bundle_core_valid.
