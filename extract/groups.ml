(* textual group names -> Model.gid;  bundles: B[g,g,...] (no nesting) *)
let rec parse nat_of_int (s : string) : Model.gid =
  match s with
  | "SO2" -> Model.GSO2
  | "SE2" -> Model.GSE2
  | "SO3" -> Model.GSO3
  | "SE3" -> Model.GSE3
  | "SE23" -> Model.GSE23
  | "SGal3" -> Model.GSGal3
  | _ when String.length s > 2 && s.[0] = 'B' && s.[1] = '[' ->
    let inner = String.sub s 2 (String.length s - 3) in
    Model.GBundle (List.map (parse nat_of_int) (String.split_on_char ',' inner))
  | _ when String.length s > 1 && s.[0] = 'R' ->
    Model.GRn (nat_of_int (int_of_string (String.sub s 1 (String.length s - 1))))
  | _ -> failwith ("unknown group " ^ s)
