(* Jr_SO3.v — property C05 for SO3: rjac(t) is the right Jacobian of exp at t (generic branch).
   The rotation matrix of exp(t) is Rodrigues' R(t) = I + g1 W + g2 W^2 (AdjExp_SO3.so3_exp_rodrigues); along the curve
   h -> t + h d its derivative at h = 0 is R(t) * hat(u) with u = rjac(t) d = (I - g2 W + g3 W^2) d. *)
From Coq Require Import Reals ZArith List Lra Psatz Lia.
From Coquelicot Require Import Coquelicot.
From Manif Require Import Scalar Mat Consts Group RInst Tac SO3 JacInv_SO3 AdjExp_SO3.
Import ListNotations.
Local Open Scope R_scope.

Definition th_of (x y z : R) : R := sqrt (x * x + y * y + z * z).
Definition g1 (t : R) : R := sin t / t.
Definition g2 (t : R) : R := (1 - cos t) / (t * t).
Definition g3 (t : R) : R := (t - sin t) / (t * t * t).
(* Rodrigues entries as functions of the tangent *)
Definition rod (i j : nat) (x y z : R) : R :=
  let a := g1 (th_of x y z) in let b := g2 (th_of x y z) in
  match i, j with
  | O, O => 1 - b * (y * y + z * z) | O, S O => - a * z + b * (x * y)       | O, S (S _) => a * y + b * (x * z)
  | S O, O => a * z + b * (x * y)     | S O, S O => 1 - b * (x * x + z * z)     | S O, S (S _) => - a * x + b * (y * z)
  | S (S _), O => - a * y + b * (x * z)   | S (S _), S O => a * x + b * (y * z)         | S (S _), S (S _) => 1 - b * (x * x + y * y)
  end.

(* u = Jr(t) d with Jr = I - g2 W + g3 W^2 *)
Definition ju (x y z dx dy dz : R) : R * R * R :=
  let t := th_of x y z in
  let '(w1x, w1y, w1z) := (y * dz - z * dy, z * dx - x * dz, x * dy - y * dx) in
  let '(w2x, w2y, w2z) := (y * w1z - z * w1y, z * w1x - x * w1z, x * w1y - y * w1x) in
  (dx - g2 t * w1x + g3 t * w2x, dy - g2 t * w1y + g3 t * w2y, dz - g2 t * w1z + g3 t * w2z).
(* (R hat(u))_ij *)
Definition rhu (i j : nat) (x y z dx dy dz : R) : R :=
  let '(u1, u2, u3) := ju x y z dx dy dz in
  match j with
  | O => rod i 1 x y z * u3 - rod i 2 x y z * u2
  | S O => - rod i 0 x y z * u3 + rod i 2 x y z * u1
  | S (S _) => rod i 0 x y z * u2 - rod i 1 x y z * u1
  end.

Ltac prep :=
  let Hn := fresh "Hn" in intros Hn; unfold rhu, ju, rod, g1, g2, g3, th_of; cbv zeta; cbn beta iota;
  match type of Hn with 0 < ?e =>
    let Hth := fresh "Hth" in let Hsq := fresh "Hsq" in
    assert (Hth : 0 < sqrt e) by (apply sqrt_lt_R0; exact Hn);
    assert (Hsq : sqrt e * sqrt e = e) by (apply sqrt_sqrt; lra);
    auto_derive; [rewrite !Rmult_0_l, !Rplus_0_r; repeat split; try lra; try nra|];
    rewrite !Rmult_0_l, !Rplus_0_r;
    let Hsc := fresh "Hsc" in
    assert (Hsc : sin (sqrt e) * sin (sqrt e) + cos (sqrt e) * cos (sqrt e) = 1) by (pose proof (sin2_cos2 (sqrt e)) as H; unfold Rsqr in H; lra);
    generalize dependent (sin (sqrt e)); generalize dependent (cos (sqrt e)); generalize dependent (sqrt e)
  end;
  let t := fresh "t" in let c := fresh "c" in let s := fresh "s" in
  intros t Hth Hsq c s Hsc; clear Hn;
  field_simplify_eq; [|lra];
  match type of Hsq with _ = ?e =>
    try replace (t ^ 6) with (e * e * e) by (rewrite <- Hsq; ring);
    try replace (t ^ 5) with (t * (e * e)) by (rewrite <- Hsq; ring);
    try replace (t ^ 4) with (e * e) by (rewrite <- Hsq; ring);
    try replace (t ^ 3) with (t * e) by (rewrite <- Hsq; ring);
    try replace (t ^ 2) with e by (rewrite <- Hsq; ring)
  end;
  try replace (s ^ 4) with ((1 - c * c) * (1 - c * c)) by (replace (1 - c * c) with (s * s) by lra; ring);
  try replace (s ^ 3) with (s * (1 - c * c)) by (replace (1 - c * c) with (s * s) by lra; ring);
  try replace (s ^ 2) with (1 - c * c) by (replace (1 - c * c) with (s * s) by lra; ring);
  ring.

Lemma d00 x y z dx dy dz : 0 < x * x + y * y + z * z -> is_derive (fun h => rod 0 0 (x + h * dx) (y + h * dy) (z + h * dz)) 0 (rhu 0 0 x y z dx dy dz).
Proof. prep. Qed.
Lemma d01 x y z dx dy dz : 0 < x * x + y * y + z * z -> is_derive (fun h => rod 0 1 (x + h * dx) (y + h * dy) (z + h * dz)) 0 (rhu 0 1 x y z dx dy dz).
Proof. prep. Qed.
Lemma d02 x y z dx dy dz : 0 < x * x + y * y + z * z -> is_derive (fun h => rod 0 2 (x + h * dx) (y + h * dy) (z + h * dz)) 0 (rhu 0 2 x y z dx dy dz).
Proof. prep. Qed.
Lemma d10 x y z dx dy dz : 0 < x * x + y * y + z * z -> is_derive (fun h => rod 1 0 (x + h * dx) (y + h * dy) (z + h * dz)) 0 (rhu 1 0 x y z dx dy dz).
Proof. prep. Qed.
Lemma d11 x y z dx dy dz : 0 < x * x + y * y + z * z -> is_derive (fun h => rod 1 1 (x + h * dx) (y + h * dy) (z + h * dz)) 0 (rhu 1 1 x y z dx dy dz).
Proof. prep. Qed.
Lemma d12 x y z dx dy dz : 0 < x * x + y * y + z * z -> is_derive (fun h => rod 1 2 (x + h * dx) (y + h * dy) (z + h * dz)) 0 (rhu 1 2 x y z dx dy dz).
Proof. prep. Qed.
Lemma d20 x y z dx dy dz : 0 < x * x + y * y + z * z -> is_derive (fun h => rod 2 0 (x + h * dx) (y + h * dy) (z + h * dz)) 0 (rhu 2 0 x y z dx dy dz).
Proof. prep. Qed.
Lemma d21 x y z dx dy dz : 0 < x * x + y * y + z * z -> is_derive (fun h => rod 2 1 (x + h * dx) (y + h * dy) (z + h * dz)) 0 (rhu 2 1 x y z dx dy dz).
Proof. prep. Qed.
Lemma d22 x y z dx dy dz : 0 < x * x + y * y + z * z -> is_derive (fun h => rod 2 2 (x + h * dx) (y + h * dy) (z + h * dz)) 0 (rhu 2 2 x y z dx dy dz).
Proof. prep. Qed.

(* ---- tie to the model ---- *)
Section P.
Variable eps : R.
Hypothesis eps_pos : 0 < eps.

Definition rot_exp (x y z : R) (i j : nat) : R := @mnth RS (so3_rotation RS (so3_exp RS eps [x; y; z])) i j.
Definition rjac_d (x y z dx dy dz : R) : list R := @mvmul RS (so3_rjac RS eps [x; y; z]) [dx; dy; dz].

Lemma rot_exp_rod x y z i j : eps < x * x + y * y + z * z -> (i < 3)%nat -> (j < 3)%nat -> rot_exp x y z i j = rod i j x y z.
Proof.
  intros H Hi Hj. unfold rot_exp. rewrite (AdjExp_SO3.so3_exp_rodrigues eps eps_pos x y z H). cbv zeta.
  unfold JacInv_SO3.poly3, rod, g1, g2, th_of.
  assert (Hn : 0 < x * x + y * y + z * z) by lra.
  assert (Hsq : sqrt (x * x + y * y + z * z) * sqrt (x * x + y * y + z * z) = x * x + y * y + z * z) by (apply sqrt_sqrt; lra).
  rewrite Hsq.
  destruct i as [|[|[|i]]]; [| | |exfalso; lia]; (destruct j as [|[|[|j]]]; [| | |exfalso; lia]); mat_unfold; ring.
Qed.

Lemma rjac_d_ju x y z dx dy dz : eps < x * x + y * y + z * z ->
  let '(u1, u2, u3) := ju x y z dx dy dz in rjac_d x y z dx dy dz = [u1; u2; u3].
Proof.
  intros H. unfold rjac_d, so3_rjac. rewrite (JacInv_SO3.so3_ljac_poly eps x y z H). cbv zeta. rewrite JacInv_SO3.mT_poly3.
  unfold ju, JacInv_SO3.poly3, g2, g3, th_of.
  set (n := x * x + y * y + z * z) in *.
  assert (Hn : 0 < n) by lra.
  assert (Hth : sqrt n <> 0) by (apply Rgt_not_eq; apply sqrt_lt_R0; exact Hn).
  assert (Hsq : sqrt n * sqrt n = n) by (apply sqrt_sqrt; lra).
  set (t := sqrt n) in *. clearbody t. clearbody n.
  mat_unfold. rewrite <- Hsq. match goal with |- @eq _ ?u ?v => change (@eq (list R) u v) end.
  list_eq; field; exact Hth.
Qed.

(* the statement of C05 for exp on SO3: along any direction d, the rotation matrix of exp(t + h d) has derivative
   R(exp t) * hat(rjac(t) d) at h = 0 *)
Theorem so3_rjac_is_derivative x y z dx dy dz i j : eps < x * x + y * y + z * z -> (i < 3)%nat -> (j < 3)%nat ->
  is_derive (fun h => rot_exp (x + h * dx) (y + h * dy) (z + h * dz) i j) 0
    (@mnth RS (@Mat.mmul RS (so3_rotation RS (so3_exp RS eps [x; y; z])) (@skew3 RS (rjac_d x y z dx dy dz))) i j).
Proof.
  intros H Hi Hj.
  assert (Hloc : locally 0 (fun h => eps < (x + h * dx) * (x + h * dx) + (y + h * dy) * (y + h * dy) + (z + h * dz) * (z + h * dz))).
  { assert (Hc : continuous (fun h => (x + h * dx) * (x + h * dx) + (y + h * dy) * (y + h * dy) + (z + h * dz) * (z + h * dz)) 0).
    { apply (ex_derive_continuous (fun h : R => (x + h * dx) * (x + h * dx) + (y + h * dy) * (y + h * dy) + (z + h * dz) * (z + h * dz))). auto_derive. exact I. }
    apply Hc. apply (open_gt eps). rewrite !Rmult_0_l, !Rplus_0_r. exact H. }
  apply (is_derive_ext_loc (fun h => rod i j (x + h * dx) (y + h * dy) (z + h * dz))).
  { apply (filter_imp (fun h => eps < (x + h * dx) * (x + h * dx) + (y + h * dy) * (y + h * dy) + (z + h * dz) * (z + h * dz))); [|exact Hloc].
    intros h Hh. symmetry. apply rot_exp_rod; assumption. }
  assert (Hn : 0 < x * x + y * y + z * z) by lra.
  assert (E : @mnth RS (@Mat.mmul RS (so3_rotation RS (so3_exp RS eps [x; y; z])) (@skew3 RS (rjac_d x y z dx dy dz))) i j = rhu i j x y z dx dy dz).
  { pose proof (rjac_d_ju x y z dx dy dz H) as EJ. unfold rhu. destruct (ju x y z dx dy dz) as [[u1 u2] u3]. rewrite EJ.
    pose proof (fun a b Ha Hb => rot_exp_rod x y z a b H Ha Hb) as ER. unfold rot_exp in ER.
    rewrite <- !ER by lia.
    assert (Hq : exists q0 q1 q2 q3, so3_exp RS eps [x; y; z] = [q0; q1; q2; q3]).
    { unfold so3_exp. destruct (kgtb _ _); [|do 4 eexists; reflexivity].
      unfold quat_of_angle_axis, eigen_normalized. destruct (kgtb _ _); do 4 eexists; reflexivity. }
    destruct Hq as (q0 & q1 & q2 & q3 & Eq). rewrite Eq. unfold so3_rotation, quat_matrix.
    destruct i as [|[|[|i]]]; [| | |exfalso; lia]; (destruct j as [|[|[|j]]]; [| | |exfalso; lia]); mat_unfold; ring. }
  rewrite E.
  destruct i as [|[|[|i]]]; [| | |exfalso; lia]; (destruct j as [|[|[|j]]]; [| | |exfalso; lia]).
  - apply d00; exact Hn.
  - apply d01; exact Hn.
  - apply d02; exact Hn.
  - apply d10; exact Hn.
  - apply d11; exact Hn.
  - apply d12; exact Hn.
  - apply d20; exact Hn.
  - apply d21; exact Hn.
  - apply d22; exact Hn.
Qed.
End P.
