(* SO3.v — model of impl/so3/SO3_base.h, SO3Tangent_base.h and of the Eigen
   quaternion routines they delegate to.  Coefficients: [x; y; z; w]. Tangent: [x; y; z]. *)
From Coq Require Import ZArith List Bool.
Import ListNotations.
From Manif Require Import Scalar Mat Consts Group SO2.

Section SO3.
Variable F : Sc.
Variable eps : K F.
Local Notation "a + b" := (kadd F a b) : k_scope.
Local Notation "a - b" := (ksub F a b) : k_scope.
Local Notation "a * b" := (kmul F a b) : k_scope.
Local Notation "a / b" := (kdiv F a b) : k_scope.
Local Notation "- a" := (kopp F a) : k_scope.
Local Open Scope k_scope.
Local Notation "0" := (k0 F) : k_scope.
Local Notation "1" := (k1 F) : k_scope.
Local Notation vec := (list (K F)).
Local Notation mat := (list (list (K F))).

(* ---- Eigen::Quaternion ---- *)
Definition qx (q : vec) := vnth q 0. Definition qy (q : vec) := vnth q 1.
Definition qz (q : vec) := vnth q 2. Definition qw (q : vec) := vnth q 3.
Definition quat_mul (a b : vec) : vec :=
  [ qw a * qx b + qx a * qw b + qy a * qz b - qz a * qy b;
    qw a * qy b + qy a * qw b + qz a * qx b - qx a * qz b;
    qw a * qz b + qz a * qw b + qx a * qy b - qy a * qx b;
    qw a * qw b - qx a * qx b - qy a * qy b - qz a * qz b ].
Definition quat_conj (q : vec) : vec := [- qx q; - qy q; - qz q; qw q].
(* QuaternionBase::toRotationMatrix *)
Definition quat_matrix (q : vec) : mat :=
  let tx := kz 2 * qx q in let ty := kz 2 * qy q in let tz := kz 2 * qz q in
  let twx := tx * qw q in let twy := ty * qw q in let twz := tz * qw q in
  let txx := tx * qx q in let txy := ty * qx q in let txz := tz * qx q in
  let tyy := ty * qy q in let tyz := tz * qy q in let tzz := tz * qz q in
  [[kz 1 - (tyy + tzz); txy - twz; txz + twy];
   [txy + twz; kz 1 - (txx + tzz); tyz - twx];
   [txz - twy; tyz + twx; kz 1 - (txx + tyy)]].
(* Quaternion(AngleAxis(angle, axis)) *)
Definition quat_of_angle_axis (angle : K F) (axis : vec) : vec :=
  let ha := c_half * angle in
  vscale (ksin F ha) axis ++ [kcos F ha].
(* MatrixBase::normalized() *)
Definition eigen_normalized (v : vec) : vec :=
  let z := sqnorm v in if kgtb z 0 then vdivs v (ksqrt F z) else v.

(* Eigen::Quaternion::UnitRandom (impl/eigen.h randQuat): u1 in [0,1], u2, u3 in [0, 2 pi];
   Quaternion(w = a sin u2, x = a cos u2, y = b sin u3, z = b cos u3), coefficient order (x, y, z, w) *)
Definition rand_quat (u1 u2 u3 : K F) : vec :=
  let a := ksqrt F (kz 1 - u1) in let b := ksqrt F u1 in
  [a * kcos F u2; b * ksin F u3; b * kcos F u3; a * ksin F u2].
(* ---- SO3Base ---- *)
Definition so3_rotation (c : vec) : mat := quat_matrix c.
Definition so3_transform (c : vec) : mat := mset_block (mid 4) 0 0 (so3_rotation c).
Definition so3_inverse (c : vec) : vec := quat_conj c.
Definition so3_inverse_J (c : vec) : mat := mneg (so3_rotation c).

Definition so3_hat (t : vec) : mat := skew3 t.

Definition so3_log (c : vec) : vec :=
  let v := firstn 3 c in
  let sin_angle_squared := sqnorm v in
  let log_coeff :=
    if kgtb sin_angle_squared eps then
      let sin_angle := ksqrt F sin_angle_squared in
      let cos_angle := qw c in
      let two_angle := kz 2 * (if kltb F cos_angle (kz 0)
                               then katan2 F (- sin_angle) (- cos_angle)
                               else katan2 F sin_angle cos_angle) in
      two_angle / sin_angle
    else (if kltb F (qw c) (kz 0) then kz (-2) else kz 2) in
  vscale_r v log_coeff.

(* I + 0.5 W + (1/theta2 - (1+cos theta)/(2 theta sin theta)) W W   (log's own Jacobian code) *)
Definition so3_log_J (c : vec) : mat :=
  let tan := so3_log c in
  let W := so3_hat tan in
  let J := madd (mid 3) (mscale c_half W) in
  let theta2 := sqnorm tan in
  if kgtb theta2 eps then
    let theta := ksqrt F theta2 in
    madd J (mmul (mscale (kz 1 / theta2 - (kz 1 + kcos F theta) / (kz 2 * theta * ksin F theta)) W) W)
  else J.

Definition so3_compose (a b : vec) : vec :=
  let q := quat_mul a b in
  let n2 := sqnorm q in
  if kgtb (kabs (n2 - kz 1)) eps then vscale_r q (approxSqrtInv F n2) else q.
Definition so3_compose_Ja (a b : vec) : mat := mT (so3_rotation b).
Definition so3_compose_Jb (a b : vec) : mat := mid 3.

Definition so3_act (c v : vec) : vec := mvmul (so3_rotation c) v.
Definition so3_act_Jm (c v : vec) : mat := mmul (mneg (so3_rotation c)) (skew3 v).
Definition so3_act_Jv (c v : vec) : mat := so3_rotation c.
Definition so3_adj (c : vec) : mat := so3_rotation c.
Definition so3_normalize (c : vec) : vec := eigen_normalize F c.
Definition so3_assert_ok (c : vec) : bool := kltb F (kabs (eigen_norm F c - kz 1)) eps.

(* ---- SO3TangentBase ---- *)
Definition so3_exp (t : vec) : vec :=
  let theta_sq := sqnorm t in
  if kgtb theta_sq eps then
    let theta := ksqrt F theta_sq in
    quat_of_angle_axis theta (eigen_normalized t)
  else [vnth t 0 / kz 2; vnth t 1 / kz 2; vnth t 2 / kz 2; kz 1].

Definition so3_exp_J (t : vec) : mat :=
  let theta_sq := sqnorm t in
  if kgtb theta_sq eps then
    let theta := ksqrt F theta_sq in
    let W := so3_hat t in
    madd (msub (mid 3) (mscale ((kz 1 - kcos F theta) / theta_sq) W))
         (mmul (mscale ((theta - ksin F theta) / (theta_sq * theta)) W) W)
  else msub (mid 3) (mscale c_half (so3_hat t)).

Definition so3_ljac (t : vec) : mat :=
  let theta_sq := sqnorm t in
  let W := so3_hat t in
  if kleb theta_sq eps then madd (mid 3) (mscale c_half W)
  else
    let theta := ksqrt F theta_sq in
    madd (madd (mid 3) (mscale ((kz 1 - kcos F theta) / theta_sq) W))
         (mmul (mscale ((theta - ksin F theta) / (theta_sq * theta)) W) W).
Definition so3_rjac (t : vec) : mat := mT (so3_ljac t).

Definition so3_ljacinv (t : vec) : mat :=
  let theta_sq := sqnorm t in
  let W := so3_hat t in
  if kleb theta_sq eps then msub (mid 3) (mscale c_half W)
  else
    let theta := ksqrt F theta_sq in
    madd (msub (mid 3) (mscale c_half W))
         (mmul (mscale (kz 1 / theta_sq - (kz 1 + kcos F theta) / (kz 2 * theta * ksin F theta)) W) W).
Definition so3_rjacinv (t : vec) : mat := mT (so3_ljacinv t).
Definition so3_smallAdj (t : vec) : mat := so3_hat t.

Definition so3_generator (i : Z) : res mat :=
  match to_unsigned32 i with
  | 0%Z => Ok [[kz 0; kz 0; kz 0]; [kz 0; kz 0; kz (-1)]; [kz 0; kz 1; kz 0]]
  | 1%Z => Ok [[kz 0; kz 0; kz 1]; [kz 0; kz 0; kz 0]; [kz (-1); kz 0; kz 0]]
  | 2%Z => Ok [[kz 0; kz (-1); kz 0]; [kz 1; kz 0; kz 0]; [kz 0; kz 0; kz 0]]
  | _ => InvalidArgument
  end.
Definition so3_vee (m : mat) : vec := [mnth m 2 1; mnth m 0 2; mnth m 1 0].

Definition SO3 : GroupOps F := {|
  g_dim := 3; g_dof := 3; g_rep := 4; g_tra := 4; g_alg := 3; g_actdim := 3;
  g_inverse := so3_inverse; g_inverse_J := so3_inverse_J;
  g_log := so3_log; g_log_J := so3_log_J;
  g_compose := so3_compose; g_compose_Ja := so3_compose_Ja; g_compose_Jb := so3_compose_Jb;
  g_act := so3_act; g_act_Jm := so3_act_Jm; g_act_Jv := so3_act_Jv;
  g_adj := so3_adj; g_transform := so3_transform; g_rotation := so3_rotation;
  g_translation := fun _ => []; g_normalize := so3_normalize; g_assert_ok := so3_assert_ok;
  g_exp := so3_exp; g_exp_J := so3_exp_J; g_hat := so3_hat;
  g_rjac := so3_rjac; g_ljac := so3_ljac; g_rjacinv := so3_rjacinv; g_ljacinv := so3_ljacinv;
  g_smallAdj := so3_smallAdj; g_generator := so3_generator; g_vee := so3_vee;
  g_bracket := fun a b => mvmul (so3_smallAdj a) b;
  g_innerweights := inner_weights_generic 3 3 so3_generator;
  g_trandom := fun u => u;
  g_grandom := fun u => rand_quat (vnth u 0) (vnth u 1) (vnth u 2)
|}.
End SO3.
