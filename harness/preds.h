// preds.h — executable property predicates evaluated ON THE IMPLEMENTATION (any scalar).
// Each predicate op "Pnn..." prints an even number of outputs: (lhs, rhs) pairs that the
// property says are equal; the Python side compares each pair (exactly over ExQ, within the
// documented tolerance in floating point).
#pragma once
#include "run.h"
#include <type_traits>
#include <functional>
#include "preds2.h"

template<class G, class Enable=void> struct HomTail { static std::vector<int> get(){ return {1}; } };
template<class S_> struct HomTail<manif::SE_2_3<S_>> { static std::vector<int> get(){ return {1,0}; } };
template<class S_> struct HomTail<manif::SGal3<S_>> { static std::vector<int> get(){ return {0,1}; } };

template<class G> struct Pred {
  using S = typename G::Scalar;
  using T = typename G::Tangent;
  using J = typename G::Jacobian;
  using DG = typename G::DataType;
  using DT = typename T::DataType;
  using Vec = typename G::Vector;
  using Tr = typename G::Transformation;
  using Dyn = Eigen::Matrix<S, Eigen::Dynamic, Eigen::Dynamic>;
  using DynV = Eigen::Matrix<S, Eigen::Dynamic, 1>;
  static G mkG(const std::vector<std::string>& a){ return G(vec_from<S,DG>(a)); }
  static T mkT(const std::vector<std::string>& a){ return T(vec_from<S,DT>(a)); }
  static DynV hom(const Vec& p){
    auto tail = HomTail<G>::get();
    DynV h = DynV::Zero(p.size()+tail.size()); for(int i=0;i<p.size();i++) h(i)=p(i);
    for(size_t k=0;k<tail.size();k++) h(p.size()+k)=S(tail[k]); return h; }
  // the point part (first Dim rows) of T * hom(p); a transform whose size does not fit the
  // homogeneous point is reported as an empty vector (shape mismatch on the Python side)
  static DynV apply(const Dyn& T, const Vec& p){
    DynV h = hom(p); if(T.cols()!=h.size()) return DynV();
    DynV r = T*h; return DynV(r.head(p.size())); }
  static Dyn eye(int n){ Dyn I = Dyn::Zero(n,n); for(int i=0;i<n;i++) I(i,i)=S(1); return I; }

  static bool run(const Case& c, Out<S>& o){
    const std::string& op = c.op;
    if(op=="P01"){   // C01: X, Y, Z, p
      G X=mkG(c.args[0]), Y=mkG(c.args[1]), Z=mkG(c.args[2]); Vec p=vec_from<S,Vec>(c.args[3]);
      Dyn TX=X.transform(), TY=Y.transform(); int n=TX.rows();
      o.mat(X.compose(Y).transform()); o.mat(Dyn(TX*TY));
      Dyn TXi=X.inverse().transform();
      o.mat(Dyn(TXi*TX)); o.mat(eye(n));
      o.mat(Dyn(TX*TXi)); o.mat(eye(n));
      o.mat(G::Identity().transform()); o.mat(eye(n));
      o.mat(X.act(p)); o.mat(apply(TX,p));
      o.mat(X.compose(Y).compose(Z).transform()); o.mat(X.compose(Y.compose(Z)).transform());
      o.mat((X*Y).coeffs()); o.mat(X.compose(Y).coeffs());
      o.mat(G::Identity().compose(X).transform()); o.mat(TX);
      o.mat(X.compose(G::Identity()).transform()); o.mat(TX);
      o.mat(X.inverse().compose(X).transform()); o.mat(eye(n));
      o.mat(X.compose(X.inverse()).transform()); o.mat(eye(n));
      return true;
    }
    if(op=="P07"){   // C07: a, b, c tangents
      T a=mkT(c.args[0]), b=mkT(c.args[1]), cc=mkT(c.args[2]);
      using Alg = typename T::LieAlg;
      Alg ah=a.hat(), bh=b.hat();
      Alg sum = Alg::Zero(); for(int i=0;i<T::DoF;i++) sum += a.coeffs()(i)*T::Generator(i);
      o.mat(ah); o.mat(sum);                                            // hat = sum t_i G_i
      o.mat(T::Vee(ah).coeffs()); o.mat(a.coeffs());                    // Vee(hat) = id
      o.mat(T::Bracket(a,b).hat()); o.mat(Alg(ah*bh-bh*ah));            // bracket = commutator
      { T ab=a.bracket(b), ba=b.bracket(a); DT nba = -ba.coeffs(); o.mat(ab.coeffs()); o.mat(nba); }   // antisymmetry
      { T j1=a.bracket(b.bracket(cc)), j2=b.bracket(cc.bracket(a)), j3=cc.bracket(a.bracket(b));
        DT j = j1.coeffs() + j2.coeffs() + j3.coeffs(); DT z = DT::Zero();
        o.mat(j); o.mat(z); }                                           // Jacobi
      o.scalar(a.inner(b)); o.scalar((ah*bh.transpose()).trace());      // Frobenius
      o.mat(T::InnerWeights()); o.mat(T::InnerWeights().transpose().eval());    // symmetric
      o.scalar(a.squaredWeightedNorm()); o.scalar(a.inner(a));
      { S k=cc.coeffs()(0); T lin = a + b*k;                            // hat linear
        o.mat(lin.hat()); o.mat(Alg(ah + k*bh)); }
      { int thrown=0, tried=0; int idx[] = {-1, -2, T::DoF, T::DoF+1, 1000, -2147483647-1, 2147483647};
        for(int i: idx){ tried++; try{ (void)T::Generator(i); } catch(const manif::invalid_argument&){ thrown++; } }
        o.scalar(S(thrown)); o.scalar(S(tried)); }                      // out-of-range indices raise
      { // positive definite: a^T W a > 0 unless a = 0  (reported as the pair (sign, expected sign))
        S q = a.inner(a); bool zero = a.coeffs().squaredNorm()==S(0);
        o.scalar(S( (q>S(0)) ? 1 : ((q==S(0))?0:-1) )); o.scalar(S(zero?0:1)); }
      return true;
    }
    if(op=="P06"){   // C06: X, Y, t, s
      G X=mkG(c.args[0]), Y=mkG(c.args[1]); T t=mkT(c.args[2]), sv=mkT(c.args[3]);
      using Alg = typename T::LieAlg; const int A = Alg::RowsAtCompileTime;
      Dyn TX=X.transform(), TXi=X.inverse().transform();
      Alg MX = TX.topLeftCorner(A,A), MXi = TXi.topLeftCorner(A,A);
      J I = J::Identity();
      { Alg conj = MX*sv.hat()*MXi; T as; as = (X.adj()*sv.coeffs()).eval(); o.mat(as.hat()); o.mat(conj); }   // Adj conj (exact)
      o.mat(X.compose(Y).adj()); o.mat(J(X.adj()*Y.adj()));                                     // Adj hom (exact)
      { Alg th=t.hat(), sh=sv.hat(); T r; r = (t.smallAdj()*sv.coeffs()).eval(); o.mat(r.hat()); o.mat(Alg(th*sh-sh*th)); }   // smallAdj (exact)
      { T mt = -t; o.mat(t.ljac()); o.mat(mt.rjac()); }                                        // ljac = rjac(-t) (exact)
      o.mat(J(t.rjac()*t.rjacinv())); o.mat(I);
      o.mat(J(t.rjacinv()*t.rjac())); o.mat(I);
      o.mat(J(t.ljac()*t.ljacinv())); o.mat(I);
      o.mat(J(t.ljacinv()*t.ljac())); o.mat(I);
      o.mat(t.exp().adj()); o.mat(J(t.ljac()*t.rjacinv()));                                    // Adj(exp t) = Jl Jr^-1
      o.mat(J(X.inverse().adj()*X.adj())); o.mat(I);
      return true;
    }
    if(op=="P06S"){  // C06 series: t   rjac = sum_k (-ad)^k/(k+1)!,  Adj(exp t) = sum_k ad^k/k!   (floating point only; |ad| moderate)
      T t=mkT(c.args[0]);
      J ad = t.smallAdj(); J term = J::Identity(), sumE = J::Identity(), sumJ = J::Identity();
      for(int k=1;k<60;k++){ term = (term*ad/S(k)).eval(); sumE += term; sumJ += term/S(k+1); }    // sumJ = sum ad^k/(k+1)! = ljac
      o.mat(t.ljac()); o.mat(sumJ);
      o.mat(t.exp().adj()); o.mat(sumE);
      { T mt=-t; J adm = mt.smallAdj(); J tm = J::Identity(), sj = J::Identity();
        for(int k=1;k<60;k++){ tm = (tm*adm/S(k)).eval(); sj += tm/S(k+1); }
        o.mat(t.rjac()); o.mat(sj); }
      return true;
    }
    if(op=="P04"){   // C04: X, Y, t
      G X=mkG(c.args[0]), Y=mkG(c.args[1]); T t=mkT(c.args[2]);
      G E = t.exp();
      o.mat(X.rplus(t).coeffs()); o.mat(X.compose(E).coeffs());
      o.mat(X.lplus(t).coeffs()); o.mat(E.compose(X).coeffs());
      o.mat(X.rminus(Y).coeffs()); o.mat(Y.inverse().compose(X).log().coeffs());
      o.mat(X.lminus(Y).coeffs()); o.mat(X.compose(Y.inverse()).log().coeffs());
      o.mat(X.between(Y).coeffs()); o.mat(X.inverse().compose(Y).coeffs());
      o.mat((X+t).coeffs()); o.mat(X.compose(E).coeffs());
      o.mat((t+X).coeffs()); o.mat(E.compose(X).coeffs());
      o.mat(t.plus(X).coeffs()); o.mat(E.compose(X).coeffs());
      o.mat(t.lplus(X).coeffs()); o.mat(E.compose(X).coeffs());
      o.mat(t.rplus(X).coeffs()); o.mat(X.compose(E).coeffs());
      o.mat((X-Y).coeffs()); o.mat(Y.inverse().compose(X).log().coeffs());
      o.mat((X*Y).coeffs()); o.mat(X.compose(Y).coeffs());
      { G Z=X; Z+=t; o.mat(Z.coeffs()); o.mat(X.compose(E).coeffs()); }
      { G Z=X; Z*=Y; o.mat(Z.coeffs()); o.mat(X.compose(Y).coeffs()); }
      // round trips (valid whenever the relative rotation is below pi; the generator keeps it there)
      { T d = (X+t)-X; o.mat(d.coeffs()); o.mat(t.coeffs()); }
      { G Z = X+(Y-X); o.mat(Z.transform()); o.mat(Y.transform()); }
      return true;
    }
    if(op=="P05" || op=="J05"){   // C05: X, Y, t, p.   P05: (analytic J, forward difference of the same scalar's function) pairs
                                  //                    J05: the analytic Jacobians only (compared across scalars by the driver)
      const bool fd = (op=="P05");
      G X=mkG(c.args[0]), Y=mkG(c.args[1]); T t=mkT(c.args[2]); Vec p=vec_from<S,Vec>(c.args[3]);
      using Jam = Eigen::Matrix<S, G::Dim, G::DoF>; using Jav = Eigen::Matrix<S, G::Dim, G::Dim>;
      const S h = S(1)/S(1e30); S hh = h;
      auto pg = [&](const G& Z, int i){ T d=T::Zero(); d.coeffs()(i)=hh; return Z.rplus(d); };
      auto pt = [&](const T& z, int i){ T d=z; d.coeffs()(i)+=hh; return d; };
      // forward differences are evaluated with two steps; where they disagree the implemented function is not differentiable at
      // this input (it sits on one of the code's own branch thresholds, where the result jumps by ~theta^3): the pair is skipped
      auto emit = [&](const Dyn& Ja, const std::function<Dyn()>& num){
        o.mat(Ja); if(!fd){ o.mat(Ja); return; }
        hh = h; Dyn N1 = num(); hh = h*S(4096); Dyn N2 = num(); hh = h;
        S sc = S(1) + N1.cwiseAbs().maxCoeff() + Ja.cwiseAbs().maxCoeff();
        if( !((N1-N2).cwiseAbs().maxCoeff() < S(1e-7)*sc) ) o.mat(Ja); else o.mat(N1); };
      J ja, jb; Jam jm; Jav jv;
      // inverse
      { G r=X.inverse(ja); emit(ja, [&]{ Dyn N(G::DoF,G::DoF); for(int i=0;i<G::DoF;i++) N.col(i)=pg(X,i).inverse().rminus(r).coeffs()/hh; return N; }); }
      // log
      { T r=X.log(ja); emit(ja, [&]{ Dyn N(G::DoF,G::DoF); for(int i=0;i<G::DoF;i++) N.col(i)=(pg(X,i).log().coeffs()-r.coeffs())/hh; return N; }); }
      // exp
      { G r=t.exp(ja); emit(ja, [&]{ Dyn N(G::DoF,G::DoF); for(int i=0;i<G::DoF;i++) N.col(i)=pt(t,i).exp().rminus(r).coeffs()/hh; return N; }); }
      // compose
      { G r=X.compose(Y,ja,jb);
        emit(ja, [&]{ Dyn N(G::DoF,G::DoF); for(int i=0;i<G::DoF;i++) N.col(i)=pg(X,i).compose(Y).rminus(r).coeffs()/hh; return N; });
        emit(jb, [&]{ Dyn N(G::DoF,G::DoF); for(int i=0;i<G::DoF;i++) N.col(i)=X.compose(pg(Y,i)).rminus(r).coeffs()/hh; return N; }); }
      // between
      { G r=X.between(Y,ja,jb);
        emit(ja, [&]{ Dyn N(G::DoF,G::DoF); for(int i=0;i<G::DoF;i++) N.col(i)=pg(X,i).between(Y).rminus(r).coeffs()/hh; return N; });
        emit(jb, [&]{ Dyn N(G::DoF,G::DoF); for(int i=0;i<G::DoF;i++) N.col(i)=X.between(pg(Y,i)).rminus(r).coeffs()/hh; return N; }); }
      // rplus
      { G r=X.rplus(t,ja,jb);
        emit(ja, [&]{ Dyn N(G::DoF,G::DoF); for(int i=0;i<G::DoF;i++) N.col(i)=pg(X,i).rplus(t).rminus(r).coeffs()/hh; return N; });
        emit(jb, [&]{ Dyn N(G::DoF,G::DoF); for(int i=0;i<G::DoF;i++) N.col(i)=X.rplus(pt(t,i)).rminus(r).coeffs()/hh; return N; }); }
      // lplus
      { G r=X.lplus(t,ja,jb);
        emit(ja, [&]{ Dyn N(G::DoF,G::DoF); for(int i=0;i<G::DoF;i++) N.col(i)=pg(X,i).lplus(t).rminus(r).coeffs()/hh; return N; });
        emit(jb, [&]{ Dyn N(G::DoF,G::DoF); for(int i=0;i<G::DoF;i++) N.col(i)=X.lplus(pt(t,i)).rminus(r).coeffs()/hh; return N; }); }
      // rminus
      { T r=Y.rminus(X,ja,jb);
        emit(ja, [&]{ Dyn N(G::DoF,G::DoF); for(int i=0;i<G::DoF;i++) N.col(i)=(pg(Y,i).rminus(X).coeffs()-r.coeffs())/hh; return N; });
        emit(jb, [&]{ Dyn N(G::DoF,G::DoF); for(int i=0;i<G::DoF;i++) N.col(i)=(Y.rminus(pg(X,i)).coeffs()-r.coeffs())/hh; return N; }); }
      // lminus
      { T r=Y.lminus(X,ja,jb);
        emit(ja, [&]{ Dyn N(G::DoF,G::DoF); for(int i=0;i<G::DoF;i++) N.col(i)=(pg(Y,i).lminus(X).coeffs()-r.coeffs())/hh; return N; });
        emit(jb, [&]{ Dyn N(G::DoF,G::DoF); for(int i=0;i<G::DoF;i++) N.col(i)=(Y.lminus(pg(X,i)).coeffs()-r.coeffs())/hh; return N; }); }
      // act
      { Vec r=X.act(p,jm,jv);
        emit(jm, [&]{ Dyn N(G::Dim,G::DoF); for(int i=0;i<G::DoF;i++) N.col(i)=(pg(X,i).act(p)-r)/hh; return N; });
        emit(jv, [&]{ Dyn N(G::Dim,G::Dim); for(int i=0;i<G::Dim;i++){ Vec q=p; q(i)+=hh; N.col(i)=(X.act(q)-r)/hh; } return N; }); }
      // tangent plus / minus
      { T s2 = t*S(2); T r=t.plus(s2,ja,jb); o.mat(ja); o.mat(J(J::Identity())); o.mat(jb); o.mat(J(J::Identity()));
        r=t.minus(s2,ja,jb); o.mat(ja); o.mat(J(J::Identity())); o.mat(jb); o.mat(J(-J::Identity())); }
      return true;
    }
    if(op=="P09"){   // C09: X, Y, t, p — optional outputs are transparent; operations are pure and deterministic
      G X=mkG(c.args[0]), Y=mkG(c.args[1]); T t=mkT(c.args[2]); Vec p=vec_from<S,Vec>(c.args[3]);
      using Jam = Eigen::Matrix<S, G::Dim, G::DoF>; using Jav = Eigen::Matrix<S, G::Dim, G::Dim>;
      const DG X0=X.coeffs(), Y0=Y.coeffs(); const DT t0=t.coeffs(); const Vec p0=p;
      // (value, Ja, Jb) of a two-output operation under the four request masks
#define SUBSETS(NAME, VT, CALL0, CALLA, CALLB, CALLAB, JA_T, JB_T) { \
        JA_T a1, a3; JB_T b2, b3; \
        VT v0 = CALL0; VT v1 = CALLA(a1); VT v2 = CALLB(b2); VT v3 = CALLAB(a3,b3); \
        o.mat(v1); o.mat(v0); o.mat(v2); o.mat(v0); o.mat(v3); o.mat(v0); o.mat(a1); o.mat(a3); o.mat(b2); o.mat(b3); }
#define C1(a) X.compose(Y,a).coeffs()
#define C2(b) X.compose(Y,G::_,b).coeffs()
#define C3(a,b) X.compose(Y,a,b).coeffs()
      SUBSETS("compose", DG, X.compose(Y).coeffs(), C1, C2, C3, J, J)
#undef C1
#undef C2
#undef C3
#define C1(a) X.between(Y,a).coeffs()
#define C2(b) X.between(Y,G::_,b).coeffs()
#define C3(a,b) X.between(Y,a,b).coeffs()
      SUBSETS("between", DG, X.between(Y).coeffs(), C1, C2, C3, J, J)
#undef C1
#undef C2
#undef C3
#define C1(a) X.rplus(t,a).coeffs()
#define C2(b) X.rplus(t,G::_,b).coeffs()
#define C3(a,b) X.rplus(t,a,b).coeffs()
      SUBSETS("rplus", DG, X.rplus(t).coeffs(), C1, C2, C3, J, J)
#undef C1
#undef C2
#undef C3
#define C1(a) X.lplus(t,a).coeffs()
#define C2(b) X.lplus(t,G::_,b).coeffs()
#define C3(a,b) X.lplus(t,a,b).coeffs()
      SUBSETS("lplus", DG, X.lplus(t).coeffs(), C1, C2, C3, J, J)
#undef C1
#undef C2
#undef C3
#define C1(a) X.rminus(Y,a).coeffs()
#define C2(b) X.rminus(Y,G::_,b).coeffs()
#define C3(a,b) X.rminus(Y,a,b).coeffs()
      SUBSETS("rminus", DT, X.rminus(Y).coeffs(), C1, C2, C3, J, J)
#undef C1
#undef C2
#undef C3
#define C1(a) X.lminus(Y,a).coeffs()
#define C2(b) X.lminus(Y,G::_,b).coeffs()
#define C3(a,b) X.lminus(Y,a,b).coeffs()
      SUBSETS("lminus", DT, X.lminus(Y).coeffs(), C1, C2, C3, J, J)
#undef C1
#undef C2
#undef C3
#define C1(a) X.act(p,a)
#define C2(b) X.act(p,tl::nullopt,b)
#define C3(a,b) X.act(p,a,b)
      SUBSETS("act", Vec, X.act(p), C1, C2, C3, Jam, Jav)
#undef C1
#undef C2
#undef C3
#undef SUBSETS
      { J a1; G v0=X.inverse(), v1=X.inverse(a1); o.mat(v1.coeffs()); o.mat(v0.coeffs()); }
      { J a1; T v0=X.log(), v1=X.log(a1); o.mat(v1.coeffs()); o.mat(v0.coeffs()); }
      { J a1; G v0=t.exp(), v1=t.exp(a1); o.mat(v1.coeffs()); o.mat(v0.coeffs()); }
      // an output bound to a block of a larger matrix writes exactly that block
      { const int N = 2*G::DoF+3; Eigen::Matrix<S,N,N> big; for(int i=0;i<N;i++) for(int j=0;j<N;j++) big(i,j)=S(1000+i*N+j);
        Eigen::Matrix<S,N,N> ref = big; J ja, jb; G r0 = X.compose(Y, ja, jb);
        G r1 = X.compose(Y, big.template block<G::DoF,G::DoF>(1,2), big.template block<G::DoF,G::DoF>(G::DoF+2,1));
        ref.template block<G::DoF,G::DoF>(1,2) = ja; ref.template block<G::DoF,G::DoF>(G::DoF+2,1) = jb;
        o.mat(big); o.mat(ref); o.mat(r1.coeffs()); o.mat(r0.coeffs());
        for(int i=0;i<N;i++) for(int j=0;j<N;j++) big(i,j)=S(1000+i*N+j); ref = big;
        T l0 = X.rminus(Y, ja, jb); T l1 = X.rminus(Y, big.template block<G::DoF,G::DoF>(2,1), big.template block<G::DoF,G::DoF>(G::DoF+3,2));
        ref.template block<G::DoF,G::DoF>(2,1) = ja; ref.template block<G::DoF,G::DoF>(G::DoF+3,2) = jb;
        o.mat(big); o.mat(ref); o.mat(l1.coeffs()); o.mat(l0.coeffs()); }
      // no operation modified its operands
      o.mat(X.coeffs()); o.mat(X0); o.mat(Y.coeffs()); o.mat(Y0); o.mat(t.coeffs()); o.mat(t0); o.mat(p); o.mat(p0);
      // the same call repeated after other library activity returns the identical result
      { G a1 = X.compose(Y); T l1 = X.rminus(Y); J j1; X.log(j1);
        (void)G::Identity(); (void)T::Zero(); (void)T::Generator(0); (void)T::InnerWeights(); (void)Y.compose(X).inverse().log().exp().adj(); (void)t.rjac(); (void)t.ljacinv();
        G a2 = X.compose(Y); T l2 = X.rminus(Y); J j2; X.log(j2);
        o.mat(a2.coeffs()); o.mat(a1.coeffs()); o.mat(l2.coeffs()); o.mat(l1.coeffs()); o.mat(j2); o.mat(j1); }
      // results assigned back onto an operand equal the unaliased computation
      { G Z=X; Z = Z*Z; o.mat(Z.coeffs()); o.mat(X.compose(X).coeffs()); }
      { G Z=X; Z = Z.inverse(); o.mat(Z.coeffs()); o.mat(X.inverse().coeffs()); }
      { G Z=X; Z *= Z; o.mat(Z.coeffs()); o.mat(X.compose(X).coeffs()); }
      { G Z=X; Z = Z.compose(Y); o.mat(Z.coeffs()); o.mat(X.compose(Y).coeffs()); }
      { G Z=Y; Z = X.compose(Z); o.mat(Z.coeffs()); o.mat(X.compose(Y).coeffs()); }
      { DG buf = X.coeffs(); Eigen::Map<G> M(buf.data()); M += t; o.mat(buf); o.mat(X.rplus(t).coeffs()); }
      { DG buf = X.coeffs(); Eigen::Map<G> M(buf.data()); M = M.between(Y); o.mat(buf); o.mat(X.between(Y).coeffs()); }
      { T z=t; z = z + z; DT e2 = t.coeffs()+t.coeffs(); o.mat(z.coeffs()); o.mat(e2); }
      // every other operation with optional Jacobian outputs, each output bound to a block of a larger (column-major, hence
      // strided) matrix with sentinel values around it: exactly the block is written, with the values the plain call returns
      { const int MX = (G::DoF > G::Dim ? G::DoF : G::Dim), N = 2*MX+3; using Big = Eigen::Matrix<S,N,N>;
        auto fresh = [&](){ Big b; for(int i=0;i<N;i++) for(int j=0;j<N;j++) b(i,j)=S(2000+i*N+j); return b; };
#define BLK2(CALLPLAIN, CALLBLK, R1, C1_, R2, C2_) { \
          Eigen::Matrix<S,R1,C1_> pa; Eigen::Matrix<S,R2,C2_> pb; auto v0 = CALLPLAIN(pa,pb); \
          Big big = fresh(), ref = big; auto v1 = CALLBLK((big.template block<R1,C1_>(1,2)), (big.template block<R2,C2_>(MX+2,1))); \
          ref.template block<R1,C1_>(1,2) = pa; ref.template block<R2,C2_>(MX+2,1) = pb; o.mat(big); o.mat(ref); o.mat(v1); o.mat(v0); }
#define BLK1(CALLPLAIN, CALLBLK) { \
          J pa; auto v0 = CALLPLAIN(pa); Big big = fresh(), ref = big; auto v1 = CALLBLK((big.template block<G::DoF,G::DoF>(2,1))); \
          ref.template block<G::DoF,G::DoF>(2,1) = pa; o.mat(big); o.mat(ref); o.mat(v1); o.mat(v0); }
#define F2(a,b) X.between(Y,a,b).coeffs()
        BLK2(F2, F2, G::DoF, G::DoF, G::DoF, G::DoF)
#undef F2
#define F2(a,b) X.rplus(t,a,b).coeffs()
        BLK2(F2, F2, G::DoF, G::DoF, G::DoF, G::DoF)
#undef F2
#define F2(a,b) X.lplus(t,a,b).coeffs()
        BLK2(F2, F2, G::DoF, G::DoF, G::DoF, G::DoF)
#undef F2
#define F2(a,b) X.lminus(Y,a,b).coeffs()
        BLK2(F2, F2, G::DoF, G::DoF, G::DoF, G::DoF)
#undef F2
#define F2(a,b) X.act(p,a,b)
        BLK2(F2, F2, G::Dim, G::DoF, G::Dim, G::Dim)
#undef F2
#define F2(a,b) t.plus(t2,a,b).coeffs()
        { T t2 = t*S(2);
        BLK2(F2, F2, G::DoF, G::DoF, G::DoF, G::DoF) }
#undef F2
#define F1(a) X.inverse(a).coeffs()
        BLK1(F1, F1)
#undef F1
#define F1(a) X.log(a).coeffs()
        BLK1(F1, F1)
#undef F1
#define F1(a) t.exp(a).coeffs()
        BLK1(F1, F1)
#undef F1
#undef BLK1
#undef BLK2
      }
      return true;
    }
    if(op=="P02"){   // C02: t — exp(t) against an independent matrix exponential of hat(t) (scaling and squaring of the power series)
      T t=mkT(c.args[0]);
      using Alg = typename T::LieAlg; const int A = Alg::RowsAtCompileTime;
      Alg H = t.hat(); Dyn TX = t.exp().transform(); Alg M = TX.topLeftCorner(A,A);
      int sq=0; S mx = H.cwiseAbs().maxCoeff(); while(mx > S(0.5)){ mx = mx/S(2); sq++; }
      Alg Hs = H; for(int i=0;i<sq;i++) Hs = (Hs/S(2)).eval();
      Alg E = Alg::Identity(), term = Alg::Identity();
      for(int k=1;k<40;k++){ term = (term*Hs/S(k)).eval(); E += term; }
      for(int i=0;i<sq;i++) E = (E*E).eval();
      o.mat(M); o.mat(E);
      // hat is the documented linear combination of the generators
      Alg sum = Alg::Zero(); for(int i=0;i<T::DoF;i++) sum += t.coeffs()(i)*T::Generator(i);
      o.mat(H); o.mat(sum);
      // finite values for finite input
      bool fin = true; for(int i=0;i<TX.rows();i++) for(int j=0;j<TX.cols();j++){ using std::isfinite; if(!isfinite(TX(i,j))) fin=false; }
      o.scalar(S(fin?1:0)); o.scalar(S(1));
      return true;
    }
    if(op=="P03"){   // C03: X, t
      G X=mkG(c.args[0]); T t=mkT(c.args[1]);
      T l = X.log();
      o.mat(l.exp().transform()); o.mat(X.transform());                 // exp(log X) = X as a transformation
      o.mat(t.exp().log().coeffs()); o.mat(t.coeffs());                 // log(exp t) = t (rotation below pi)
      bool fin = true; for(int i=0;i<T::DoF;i++){ using std::isfinite; if(!isfinite(l.coeffs()(i))) fin=false; }
      o.scalar(S(fin?1:0)); o.scalar(S(1));
      o.mat(X.log().exp().log().coeffs()); o.mat(l.coeffs());           // log is idempotent through exp
      if(c.args.size()>2){ G Xn=mkG(c.args[2]);                        // the same transformation written with the other sign of the quaternion
        o.mat(Xn.log().coeffs()); o.mat(l.coeffs()); o.mat(Xn.transform()); o.mat(X.transform()); }
      else { o.mat(l.coeffs()); o.mat(l.coeffs()); o.mat(X.transform()); o.mat(X.transform()); }
      return true;
    }
    return Pred2<G>::run(c,o);
  }
};
