(* Properties_C01.v — property C01: compose / inverse / identity / act realise the matrix
   group.  Only statements, each closed by `exact`, each followed by Print Assumptions.
   GroupLaws (LieSpec.v) is the conjunction: closure of validity; M(X∘Y) = M X × M Y;
   M(X⁻¹) is the two-sided matrix inverse; M(Identity) = I; hom(act X p) = M X × hom p;
   associativity, neutrality and two-sided inverse on coefficient vectors.
   Stated for every threshold 0 < eps (the library's eps is one instance). *)
From Coq Require Import Reals List Lra Lia.
From Manif Require Import Scalar Mat Group RInst Generic LieSpec SO2 SE2 SO3 SE3 SE23 SGal3 Rn SE2Proofs SO3Proofs SE23Proofs RnProofs
  Bundle BundleLaws BundleInst BundleCore BundleGroup.
Import ListNotations.
Local Open Scope R_scope.

Theorem C01_SO2 eps : 0 < eps -> GroupLaws (SO2 RS eps) so2_valid hom2 (fun _ => hom2).
Proof. intros H. exact (laws_of_core _ (SO2_core eps H)). Qed.
Print Assumptions C01_SO2.

Theorem C01_SE2 eps : 0 < eps -> GroupLaws (SE2 RS eps) se2_valid hom2 (fun _ => hom2).
Proof. intros H. exact (laws_of_core _ (SE2_core eps H)). Qed.
Print Assumptions C01_SE2.

Theorem C01_SO3 eps : 0 < eps -> GroupLaws (SO3 RS eps) so3_valid hom3 (fun _ => hom3).
Proof. intros H. exact (laws_of_core _ (SO3_core eps H)). Qed.
Print Assumptions C01_SO3.

Theorem C01_SE3 eps : 0 < eps -> GroupLaws (SE3 RS eps) se3_valid hom3 (fun _ => hom3).
Proof. intros H. exact (laws_of_core _ (SE3_core eps H)). Qed.
Print Assumptions C01_SE3.

Theorem C01_SE23 eps : 0 < eps -> GroupLaws (SE23 RS eps) se23_valid hom10 (fun _ => hom10).
Proof. intros H. exact (laws_of_core _ (SE23_core eps H)). Qed.
Print Assumptions C01_SE23.

(* SGal(3): a point p is the event (p; 0; 1); its image is (act X p; t(X); 1) *)
Theorem C01_SGal3 eps : 0 < eps -> GroupLaws (SGal3 RS eps) sg_valid hom01 hom_t1.
Proof. intros H. exact (laws_of_core _ (SGal3_core eps H)). Qed.
Print Assumptions C01_SGal3.

Theorem C01_R1 : GroupLaws (Rn RS 1) (rn_valid 1) homn (fun _ => homn). Proof. exact (laws_of_core _ R1_core). Qed.
Theorem C01_R2 : GroupLaws (Rn RS 2) (rn_valid 2) homn (fun _ => homn). Proof. exact (laws_of_core _ R2_core). Qed.
Theorem C01_R3 : GroupLaws (Rn RS 3) (rn_valid 3) homn (fun _ => homn). Proof. exact (laws_of_core _ R3_core). Qed.
Theorem C01_R4 : GroupLaws (Rn RS 4) (rn_valid 4) homn (fun _ => homn). Proof. exact (laws_of_core _ R4_core). Qed.
Theorem C01_R5 : GroupLaws (Rn RS 5) (rn_valid 5) homn (fun _ => homn). Proof. exact (laws_of_core _ R5_core). Qed.
Theorem C01_R6 : GroupLaws (Rn RS 6) (rn_valid 6) homn (fun _ => homn). Proof. exact (laws_of_core _ R6_core). Qed.
Theorem C01_R7 : GroupLaws (Rn RS 7) (rn_valid 7) homn (fun _ => homn). Proof. exact (laws_of_core _ R7_core). Qed.
Theorem C01_R8 : GroupLaws (Rn RS 8) (rn_valid 8) homn (fun _ => homn). Proof. exact (laws_of_core _ R8_core). Qed.
Theorem C01_R9 : GroupLaws (Rn RS 9) (rn_valid 9) homn (fun _ => homn). Proof. exact (laws_of_core _ R9_core). Qed.
Print Assumptions C01_R9.

(* non-vacuity: concrete non-trivial valid elements exist in every group *)
Example C01_nonvacuous :
  so2_valid [3/5; 4/5] /\ se2_valid [7; -2; 3/5; 4/5] /\
  so3_valid [2/7; 3/7; 6/7; 0] /\ se3_valid [1; 2; 3; -1/2; 1/2; -1/2; -1/2] /\ rn_valid 3 [1; 2; 3] /\
  se23_valid [1; 2; 3; -1/2; 1/2; -1/2; -1/2; 4; 5; 6] /\ sg_valid [1; 2; 3; 2/7; 3/7; 6/7; 0; 4; 5; 6; 9].
Proof.
  repeat split.
  - exists (3/5), (4/5); split; [reflexivity|lra].
  - exists 7, (-2), (3/5), (4/5); split; [reflexivity|lra].
  - exists (2/7), (3/7), (6/7), 0; split; [reflexivity|unfold n4; lra].
  - exists 1, 2, 3, (-1/2), (1/2), (-1/2), (-1/2); split; [reflexivity|unfold n4; lra].
  - exists 1, 2, 3, (-1/2), (1/2), (-1/2), (-1/2), 4, 5, 6; split; [reflexivity|unfold n4; lra].
  - exists 1, 2, 3, (2/7), (3/7), (6/7), 0, 4, 5, 6, 9; split; [reflexivity|unfold n4; lra].
Qed.

(* ---- Bundles ("and bundles of them"): for ANY list of element groups, each with the GroupCore proved above (packs:
   BundleInst.v / BundleCore.v), the Bundle of Bundle.v — written as impl/bundle/* is: offset tables, element views, pack
   expansion — satisfies the group laws on coefficient vectors and its transform() (the block-diagonal matrix of the
   elements' homogeneous matrices) is multiplicative, maps Identity() to I and inverse() to the two-sided matrix inverse.
   Valid Bundle elements are the concatenations of valid element coefficient vectors. *)
Definition bundle_valid (LM : list PackedM) (dM : PackedM) : list R -> Prop :=
  bvalid RS (map p_G (map m_pack LM)) (fun i X => gc_valid (p_core (nth i (map m_pack LM) (m_pack dM))) X).
Theorem C01_Bundle (LM : list PackedM) (dM : PackedM) :
  BundleMatrixLaws (Bundle (map p_G (map m_pack LM))) (bundle_valid LM dM).
Proof. exact (bundle_matrix_laws LM dM). Qed.
Print Assumptions C01_Bundle.

(* one of the layouts the correspondence runs (harness layout 100): Bundle<SO2, SE3, R5, SGal3> *)
Definition layout100 eps (H : 0 < eps) : list PackedM := [SO2_packM eps H; SE3_packM eps H; R5_packM; SGal3_packM eps H].
Theorem C01_Bundle_layout100 eps (H : 0 < eps) :
  BundleMatrixLaws (Bundle [SO2 RS eps; SE3 RS eps; Rn RS 5; SGal3 RS eps]) (bundle_valid (layout100 eps H) R1_packM).
Proof. exact (bundle_matrix_laws (layout100 eps H) R1_packM). Qed.
Example C01_Bundle_nonvacuous eps (H : 0 < eps) :
  bundle_valid (layout100 eps H) R1_packM
    ([3/5; 4/5] ++ [1; 2; 3; -1/2; 1/2; -1/2; -1/2] ++ [1; 2; 3; 4; 5] ++ [1; 2; 3; 2/7; 3/7; 6/7; 0; 4; 5; 6; 9]).
Proof.
  exists [[3/5; 4/5]; [1; 2; 3; -1/2; 1/2; -1/2; -1/2]; [1; 2; 3; 4; 5]; [1; 2; 3; 2/7; 3/7; 6/7; 0; 4; 5; 6; 9]].
  split; [|reflexivity]. split; [reflexivity|]. intros i Hi. cbn [length map layout100] in Hi.
  destruct i as [|[|[|[|i]]]]; [| | | |exfalso; lia]; cbn.
  - exists (3/5), (4/5); split; [reflexivity|lra].
  - exists 1, 2, 3, (-1/2), (1/2), (-1/2), (-1/2); split; [reflexivity|unfold n4; lra].
  - reflexivity.
  - exists 1, 2, 3, (2/7), (3/7), (6/7), 0, 4, 5, 6, 9; split; [reflexivity|unfold n4; lra].
Qed.

(* The full statement of C01 (GroupLaws, act included) for Bundles: the Bundle of groups with a GroupCore has a GroupCore
   (BundleGroup.Bundle_core), for ANY list of element groups.  The homogeneous point of a Bundle is the concatenation of
   the elements' homogeneous sub-points (bhom / bhomo), and act is the block-diagonal transform() applied to it. *)
Theorem C01_Bundle_GroupLaws (LG : list PackedG) (dG : PackedG) :
  GroupLaws (Bundle (map p_G (map m_pack (map g_m LG)))) (gc_valid (Bundle_core LG dG)) (gc_hom (Bundle_core LG dG)) (gc_homo (Bundle_core LG dG)).
Proof. exact (laws_of_core _ (Bundle_core LG dG)). Qed.
Print Assumptions C01_Bundle_GroupLaws.
Theorem C01_Bundle_layout101_GroupLaws eps (H : 0 < eps) :
  let LG := [R1_packG; SO3_packG eps H; SE2_packG eps H] in
  GroupLaws (Bundle [Rn RS 1; SO3 RS eps; SE2 RS eps]) (gc_valid (Bundle_core LG R1_packG)) (gc_hom (Bundle_core LG R1_packG)) (gc_homo (Bundle_core LG R1_packG)).
Proof. exact (laws_of_core _ (Bundle_core [R1_packG; SO3_packG eps H; SE2_packG eps H] R1_packG)). Qed.

(* non-vacuity of the Bundle GroupLaws: the validity predicate of the Bundle's GroupCore is "a concatenation of valid elements"
   (BundleCoreValid), and a concrete element of Bundle<R1, SO3, SE2> satisfies it *)
From Manif Require Import BundleCoreValid.
Theorem C01_Bundle_core_valid (LG : list PackedG) (dG : PackedG) X :
  gc_valid (Bundle_core LG dG) X <->
  bvalid RS (map p_G (map m_pack (map g_m LG))) (fun i X => gc_valid (p_core (nth i (map m_pack (map g_m LG)) (m_pack (g_m dG)))) X) X.
Proof. exact (Bundle_core_valid LG dG X). Qed.
Print Assumptions C01_Bundle_core_valid.
Example C01_Bundle_layout101_nonvacuous eps (H : 0 < eps) :
  gc_valid (Bundle_core [R1_packG; SO3_packG eps H; SE2_packG eps H] R1_packG) ([5] ++ [3/5; 0; 0; 4/5] ++ [7; -2; 3/5; 4/5]).
Proof.
  apply (proj2 (Bundle_core_valid _ _ _)).
  exists [[5]; [3/5; 0; 0; 4/5]; [7; -2; 3/5; 4/5]]. split; [|reflexivity]. split; [reflexivity|].
  intros i Hi. destruct i as [|[|[|i]]]; [| | |cbn in Hi; lia]; cbn.
  - reflexivity.
  - exists (3/5), 0, 0, (4/5). split; [reflexivity|unfold n4; lra].
  - exists 7, (-2), (3/5), (4/5). split; [reflexivity|lra].
Qed.
