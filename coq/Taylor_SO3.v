(* Taylor_SO3.v — property C02 on the small-angle branch of SO3: for |t|^2 <= eps the model's exp is the quaternion
   (t/2, 1); the exact exponential is (sin(th/2) t/th, cos(th/2)).  The truncation error is at most |t_i| th^2/48 in the
   vector part and th^2/8 in w: uniformly at most eps/8, and zero at t = 0. *)
From Coq Require Import Reals ZArith List Lra Psatz.
From Coquelicot Require Import Coquelicot.
From Manif Require Import Scalar Mat Consts Group RInst Tac SO3 Taylor_SE2.
Import ListNotations.
Local Open Scope R_scope.

Section P.
Variable eps : R.
Hypothesis eps_pos : 0 < eps.

Lemma so3_exp_small x y z : x * x + y * y + z * z <= eps -> so3_exp RS eps [x; y; z] = [x / 2; y / 2; z / 2; 1].
Proof.
  intros H. unfold so3_exp. assert (Hsn : @sqnorm RS [x; y; z] = x * x + y * y + z * z) by (mat_unfold; ring). rewrite Hsn.
  unfold kgtb. cbn [kltb RS]. rewrite (Rltb_lt_false eps _ H). mat_unfold. reflexivity.
Qed.

(* half-angle coefficient errors, a = th/2 > 0 *)
Lemma half_sin_err a : 0 < a -> 0 <= 1 / 2 - sin a / (2 * a) <= a * a / 12.
Proof.
  intros Ha. pose proof (L1 a ltac:(lra)) as H1. pose proof (L3 a ltac:(lra)) as H3.
  assert (E : 1 / 2 - sin a / (2 * a) = (a - sin a) / (2 * a)) by (field; lra). rewrite E. split.
  - apply Rmult_le_pos; [lra|]. apply Rlt_le. apply Rinv_0_lt_compat. lra.
  - apply (Rmult_le_reg_r (2 * a)); [lra|]. replace ((a - sin a) / (2 * a) * (2 * a)) with (a - sin a) by (field; lra). nra.
Qed.
Lemma half_cos_err a : 0 <= 1 - cos a <= a * a / 2.
Proof.
  pose proof (COS_bound a). split; [lra|].
  destruct (Rle_dec 0 a) as [Hp|Hn]; [pose proof (L2 a Hp); lra|].
  pose proof (L2 (- a) ltac:(lra)) as H2. rewrite cos_neg in H2. nra.
Qed.

Theorem so3_exp_taylor_bound x y z :
  let n := x * x + y * y + z * z in let th := sqrt n in
  0 < n -> n <= eps ->
  so3_exp RS eps [x; y; z] = [x / 2; y / 2; z / 2; 1] /\
  Rabs (x / 2 - sin (th / 2) * (x / th)) <= Rabs x * n / 48 /\
  Rabs (y / 2 - sin (th / 2) * (y / th)) <= Rabs y * n / 48 /\
  Rabs (z / 2 - sin (th / 2) * (z / th)) <= Rabs z * n / 48 /\
  Rabs (1 - cos (th / 2)) <= n / 8.
Proof.
  cbv zeta. intros Hn Hle. set (n := x * x + y * y + z * z) in *. set (th := sqrt n).
  assert (Hth : 0 < th) by (apply sqrt_lt_R0; exact Hn). assert (Hsq : th * th = n) by (apply sqrt_sqrt; lra).
  split; [apply so3_exp_small; exact Hle|].
  destruct (half_sin_err (th / 2) ltac:(lra)) as [Hs0 Hs1].
  assert (Hc : forall c, Rabs (c / 2 - sin (th / 2) * (c / th)) <= Rabs c * n / 48).
  { intros c. replace (c / 2 - sin (th / 2) * (c / th)) with (c * (1 / 2 - sin (th / 2) / (2 * (th / 2)))) by (field; lra).
    rewrite Rabs_mult. rewrite (Rabs_right (1 / 2 - sin (th / 2) / (2 * (th / 2)))) by lra.
    pose proof (Rabs_pos c). replace (Rabs c * n / 48) with (Rabs c * (n / 48)) by field.
    apply Rmult_le_compat_l; [assumption|]. rewrite <- Hsq. lra. }
  repeat split; try apply Hc.
  destruct (half_cos_err (th / 2)) as [Hc0 Hc1]. rewrite Rabs_right by lra. rewrite <- Hsq. lra.
Qed.
End P.
