(* Exp_SO3.v — C02 for SO3: above the small-angle threshold the model's exp (quaternion through
   angle-axis, as the code does) has rotation matrix equal to the matrix exponential of hat (Rodrigues). *)
From Coq Require Import Reals ZArith List Lra Lia.
From Coquelicot Require Import Coquelicot.
From Manif Require Import Scalar Mat Consts Group RInst Tac SO2 SO3 Generic LieSpec Ode ExpSpec AlgTac.
Import ListNotations.
Local Open Scope R_scope.

Ltac ij3 i j := destruct i as [|[|[|i]]]; destruct j as [|[|[|j]]].
Ltac rring := match goal with |- @eq _ ?a ?b => change (@eq R a b); ring end.

Section SO3.
Variables x y z phi : R.
Hypothesis Hphi : phi <> 0.
Hypothesis Hphi2 : phi * phi = x * x + y * y + z * z.
Definition Sf (s : R) := sin (s * phi) / phi.
Definition Cf (s : R) := (1 - cos (s * phi)) / (phi * phi).
Definition Hso3 : list (list R) := [[0; - z; y]; [z; 0; - x]; [- y; x; 0]].
(* Rodrigues along the ray s*(x,y,z):  I + Sf s * W + Cf s * W^2 *)
Definition Gso3 (s : R) : list (list R) :=
  [[1 + Cf s * - (y * y + z * z); Sf s * - z + Cf s * (x * y); Sf s * y + Cf s * (x * z)];
   [Sf s * z + Cf s * (x * y); 1 + Cf s * - (x * x + z * z); Sf s * - x + Cf s * (y * z)];
   [Sf s * - y + Cf s * (x * z); Sf s * x + Cf s * (y * z); 1 + Cf s * - (x * x + y * y)]].

Lemma dS s : is_derive Sf s (1 - (x * x + y * y + z * z) * Cf s).
Proof. unfold Sf, Cf. auto_derive; [exact I|]. rewrite <- Hphi2. field. exact Hphi. Qed.
Lemma dC s : is_derive Cf s (Sf s).
Proof. unfold Sf, Cf. auto_derive; [exact I|]. field. exact Hphi. Qed.

(* every entry of Gso3 is  a + b * Sf s + c * Cf s  with constant a b c *)
Lemma is_derive_affine (a b c : R) s :
  is_derive (fun s => a + (b * Sf s + c * Cf s)) s (0 + (b * (1 - (x * x + y * y + z * z) * Cf s) + c * Sf s)).
Proof.
  apply @is_derive_plus; [apply @is_derive_const|].
  apply @is_derive_plus; apply is_derive_scal; [apply dS|apply dC].
Qed.

Lemma der_aff (a b c : R) s d : d = b * (1 - (x * x + y * y + z * z) * Cf s) + c * Sf s ->
  is_derive (fun s => a + (b * Sf s + c * Cf s)) s d.
Proof.
  intros ->. replace (b * (1 - (x * x + y * y + z * z) * Cf s) + c * Sf s)
    with (0 + (b * (1 - (x * x + y * y + z * z) * Cf s) + c * Sf s)) by ring.
  apply is_derive_affine.
Qed.

Lemma Gso3_ode s i j : is_derive (fun s => fmat 2 (Gso3 s) i j) s (mmul 2 (fmat 2 (Gso3 s)) (fmat 2 Hso3) i j).
Proof.
  unfold mmul. rewrite !sum_Sn, sum_O. unfold Hierarchy.plus; simpl.
  ij3 i j; unfold fmat, Gso3, Hso3; cbn [Nat.leb andb mnth nth];
  try (apply is_derive_ext with (f := fun _ => 0); [reflexivity|];
       match goal with |- is_derive _ _ ?d => replace d with 0 by ring end; apply @is_derive_const).
  all: match goal with
       | |- is_derive (fun s => 1 + Cf s * ?c) _ _ =>
           apply is_derive_ext with (f := fun s => 1 + (0 * Sf s + c * Cf s)); [intros t; rring|]; apply der_aff
       | |- is_derive (fun s => Sf s * ?b + Cf s * ?c) _ _ =>
           apply is_derive_ext with (f := fun s => 0 + (b * Sf s + c * Cf s)); [intros t; rring|]; apply der_aff
       end.
  all: ring.
Qed.

Lemma so3_matexp : MatExp 2 Hso3 (Gso3 1).
Proof.
  intros i j Hi Hj.
  apply (ode_matexp 2 (fmat 2 Hso3) (fun s => fmat 2 (Gso3 s))) with (a := Rabs x + Rabs y + Rabs z); try assumption.
  - intros i' j' Hi'. unfold fmat, Gso3, mid, Sf, Cf. rewrite !Rmult_0_l, cos_0, sin_0.
    ij3 i' j'; cbn [Nat.leb andb mnth nth Nat.eqb]; try reflexivity; try lia; field; exact Hphi.
  - apply Gso3_ode.
  - intros i' j'. unfold fmat, Hso3. assert (Hx := Rabs_pos x). assert (Hy := Rabs_pos y). assert (Hz := Rabs_pos z).
    ij3 i' j'; cbn [Nat.leb andb mnth nth]; rewrite ?Rabs_Ropp, ?Rabs_R0; lra.
Qed.
End SO3.

(* ---- the model's exp, above the threshold, has exactly this rotation matrix ---- *)
Theorem SO3_exp_matexp eps x y z : 0 < eps -> eps < x * x + y * y + z * z ->
  MatExp 2 (g_hat (SO3 RS eps) [x; y; z]) (g_matrep (SO3 RS eps) (g_exp (SO3 RS eps) [x; y; z])).
Proof.
  intros He Hgt.
  set (n := x * x + y * y + z * z) in *.
  assert (Hn : 0 < n) by lra.
  set (phi := sqrt n).
  assert (Hphi : phi <> 0) by (unfold phi; intros H0; apply sqrt_eq_0 in H0; lra).
  assert (Hphi2 : phi * phi = x * x + y * y + z * z) by (unfold phi; rewrite sqrt_sqrt by lra; reflexivity).
  assert (Hh : g_hat (SO3 RS eps) [x; y; z] = Hso3 x y z) by (rcbv; list_eq; ring).
  assert (Hsq : @sqnorm RS [x; y; z] = n) by (unfold n; rcbv; ring).
  assert (Hx : g_matrep (SO3 RS eps) (g_exp (SO3 RS eps) [x; y; z]) = Gso3 x y z phi 1).
  { unfold g_matrep. cbn [g_transform g_exp g_alg SO3]. unfold so3_exp, so3_transform, so3_rotation.
    rewrite Hsq. unfold kgtb. cbn [kltb RS]. rewrite (Rltb_lt_true eps n Hgt).
    unfold quat_of_angle_axis, eigen_normalized. rewrite Hsq. unfold kgtb. cbn [kltb RS k0].
    rewrite (Rltb_lt_true 0 n Hn). cbn [ksqrt RS]. fold phi.
    unfold Gso3, Sf, Cf. rewrite Rmult_1_l.
    set (h := @kmul RS c_half phi).
    assert (Hs : sin phi = 2 * sin h * cos h).
    { replace phi with (2 * h) at 1 by (unfold h, c_half; cbn; field). apply sin_2a. }
    assert (Hc : cos phi = 1 - 2 * sin h * sin h).
    { replace phi with (2 * h) at 1 by (unfold h, c_half; cbn; field). apply cos_2a_sin. }
    rewrite Hs, Hc. cbn [ksin kcos RS]. set (sh := sin h). set (ch := cos h). clearbody sh ch.
    rcbv. list_eq; field_simplify_eq; try exact Hphi; rewrite ?Hphi2; try ring. }
  rewrite Hh, Hx. apply so3_matexp; assumption.
Qed.
