(* Properties_C07.v — property C07: Lie-algebra structure (hat, vee, generators, bracket,
   inner product).  Only statements, each closed by `exact`, with Print Assumptions.
   AlgLaws (AlgSpec.v) is the conjunction, for one group G:
     Generator(i) = hat(e_i) for 0 <= i < DoF; every other C++ `int` raises invalid_argument
       (the signed -> unsigned conversion of the index is part of the model);
     hat t = sum_i t_i * Generator(i); hat is linear; Vee(hat t) = t;
     hat(Bracket a b) = hat a * hat b - hat b * hat a; bilinear, antisymmetric, Jacobi;
     inner a b = trace(hat a * (hat b)^T) (Frobenius); InnerWeights symmetric, positive definite;
     weightedNorm^2 = squaredWeightedNorm = inner t t.
   All exact over the reals (hence over any exact scalar), for every threshold eps.
   The `explicit` theorems pin hat to the documented basis, written out. *)
From Coq Require Import Reals List Lra.
From Manif Require Import Scalar Mat Group RInst Generic SO2 SE2 SO3 SE3 SE23 SGal3 Rn AlgSpec AlgProofs.
Import ListNotations.
Local Open Scope R_scope.

Theorem C07_SO2 eps : AlgLaws (SO2 RS eps).     Proof. exact (SO2_alg eps). Qed.
Theorem C07_SE2 eps : AlgLaws (SE2 RS eps).     Proof. exact (SE2_alg eps). Qed.
Theorem C07_SO3 eps : AlgLaws (SO3 RS eps).     Proof. exact (SO3_alg eps). Qed.
Theorem C07_SE3 eps : AlgLaws (SE3 RS eps).     Proof. exact (SE3_alg eps). Qed.
Theorem C07_SE23 eps : AlgLaws (SE23 RS eps).   Proof. exact (SE23_alg eps). Qed.
Theorem C07_SGal3 eps : AlgLaws (SGal3 RS eps). Proof. exact (SGal3_alg eps). Qed.
Print Assumptions C07_SGal3.
Theorem C07_R1 : AlgLaws (Rn RS 1). Proof. exact R1_alg. Qed.
Theorem C07_R2 : AlgLaws (Rn RS 2). Proof. exact R2_alg. Qed.
Theorem C07_R3 : AlgLaws (Rn RS 3). Proof. exact R3_alg. Qed.
Theorem C07_R4 : AlgLaws (Rn RS 4). Proof. exact R4_alg. Qed.
Theorem C07_R5 : AlgLaws (Rn RS 5). Proof. exact R5_alg. Qed.
Theorem C07_R6 : AlgLaws (Rn RS 6). Proof. exact R6_alg. Qed.
Theorem C07_R7 : AlgLaws (Rn RS 7). Proof. exact R7_alg. Qed.
Theorem C07_R8 : AlgLaws (Rn RS 8). Proof. exact R8_alg. Qed.
Theorem C07_R9 : AlgLaws (Rn RS 9). Proof. exact R9_alg. Qed.
Print Assumptions C07_R9.

(* the documented basis, written out: hat of a coefficient vector *)
Theorem C07_hat_explicit eps :
  (forall th, g_hat (SO2 RS eps) [th] = [[0; - th]; [th; 0]]) /\
  (forall x y th, g_hat (SE2 RS eps) [x; y; th] = [[0; - th; x]; [th; 0; y]; [0; 0; 0]]) /\
  (forall a b c, g_hat (SO3 RS eps) [a; b; c] = [[0; - c; b]; [c; 0; - a]; [- b; a; 0]]) /\
  (forall x y z a b c, g_hat (SE3 RS eps) [x; y; z; a; b; c] =
      [[0; - c; b; x]; [c; 0; - a; y]; [- b; a; 0; z]; [0; 0; 0; 0]]) /\
  (forall x y z a b c u v w, g_hat (SE23 RS eps) [x; y; z; a; b; c; u; v; w] =
      [[0; - c; b; x; u]; [c; 0; - a; y; v]; [- b; a; 0; z; w]; [0; 0; 0; 0; 0]; [0; 0; 0; 0; 0]]) /\
  (forall x y z u v w a b c s, g_hat (SGal3 RS eps) [x; y; z; u; v; w; a; b; c; s] =
      [[0; - c; b; u; x]; [c; 0; - a; v; y]; [- b; a; 0; w; z]; [0; 0; 0; 0; s]; [0; 0; 0; 0; 0]]) /\
  (forall x y z, g_hat (Rn RS 3) [x; y; z] = [[0; 0; 0; x]; [0; 0; 0; y]; [0; 0; 0; z]; [0; 0; 0; 0]]).
Proof. exact (hat_explicit eps). Qed.
Print Assumptions C07_hat_explicit.

(* the inner weights, written out *)
Theorem C07_weights_explicit eps :
  g_innerweights (SO2 RS eps) = [[2]] /\
  g_innerweights (SE2 RS eps) = [[1; 0; 0]; [0; 1; 0]; [0; 0; 2]] /\
  g_innerweights (SO3 RS eps) = [[2; 0; 0]; [0; 2; 0]; [0; 0; 2]] /\
  g_innerweights (SE3 RS eps) = @mset_block RS (@mid RS 6) 3 3 [[2; 0; 0]; [0; 2; 0]; [0; 0; 2]] /\
  g_innerweights (SE23 RS eps) = @mset_block RS (@mid RS 9) 3 3 [[2; 0; 0]; [0; 2; 0]; [0; 0; 2]] /\
  g_innerweights (SGal3 RS eps) = @mset_block RS (@mid RS 10) 6 6 [[2; 0; 0]; [0; 2; 0]; [0; 0; 2]] /\
  g_innerweights (Rn RS 4) = @mid RS 4.
Proof. exact (weights_explicit eps). Qed.

(* non-vacuity: the laws are about non-trivial objects *)
Example C07_nonvacuous eps :
  g_bracket (SO3 RS eps) [1; 0; 0] [0; 1; 0] = [0; 0; 1] /\
  g_bracket (SE2 RS eps) [1; 0; 0] [0; 0; 1] <> [0; 0; 0] /\
  t_inner (SE3 RS eps) [1; 2; 3; 4; 5; 6] [1; 1; 1; 1; 1; 1] = 36.
Proof. exact (alg_nonvacuous eps). Qed.
