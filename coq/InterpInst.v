(* InterpInst.v — ExpLogCore (InterpProofs.v) for SO2, SE2 and R3: exp maps every tangent to a valid element,
   log maps valid elements to tangents, and exp(log X) = X (C03). *)
From Coq Require Import Reals ZArith List Lra Bool.
From Manif Require Import Scalar Mat Consts Group RInst Tac Generic LieSpec Algorithms Atan2 SO2 SE2 Rn
  SE2Proofs RnProofs Log_SE2 InterpProofs.
Import ListNotations.
Local Open Scope R_scope.

Section P.
Variable eps : R.
Hypothesis eps_pos : 0 < eps.
Hypothesis eps_le : eps <= 1.

Definition SO2_explog : ExpLogCore (SO2 RS eps).
Proof.
  refine (mkEL _ (SO2_core eps eps_pos) (fun t => exists a, t = [a]) _ _ _ _ _ _); cbn [gc_valid SO2_core g_exp g_log g_dof SO2].
  - intros t (a & ->). unfold so2_exp, so2t_angle. mat_unfold. exists (cos a), (sin a). split; [reflexivity|].
    replace (cos a * cos a + sin a * sin a) with ((sin a)² + (cos a)²) by (unfold Rsqr; ring). apply sin2_cos2.
  - intros X _. unfold so2_log. eexists; reflexivity.
  - intros t s (a & ->). eexists; reflexivity.
  - intros t (a & ->). mat_unfold. match goal with |- @eq _ ?u ?v => change (@eq (list R) u v) end. list_eq; ring.
  - intros t (a & ->). mat_unfold. match goal with |- @eq _ ?u ?v => change (@eq (list R) u v) end. list_eq; ring.
  - intros X HX. apply so2_exp_log; exact HX.
Defined.

Definition SE2_explog : ExpLogCore (SE2 RS eps).
Proof.
  refine (mkEL _ (SE2_core eps eps_pos) (fun t => exists a b c, t = [a; b; c]) _ _ _ _ _ _); cbn [gc_valid SE2_core g_exp g_log g_dof SE2].
  - intros t (a & b & c & ->). unfold se2_exp. mat_unfold. destruct (se2_AB RS eps c (cos c) (sin c)) as [A B].
    eexists _, _, (cos c), (sin c). split; [reflexivity|].
    replace (cos c * cos c + sin c * sin c) with ((sin c)² + (cos c)²) by (unfold Rsqr; ring). apply sin2_cos2.
  - intros X _. unfold se2_log. destruct (se2_AB _ _ _ _ _) as [A B]. eexists _, _, _; reflexivity.
  - intros t s (a & b & c & ->). eexists _, _, _; reflexivity.
  - intros t (a & b & c & ->). mat_unfold. match goal with |- @eq _ ?u ?v => change (@eq (list R) u v) end. list_eq; ring.
  - intros t (a & b & c & ->). mat_unfold. match goal with |- @eq _ ?u ?v => change (@eq (list R) u v) end. list_eq; ring.
  - intros X HX. apply (se2_exp_log eps eps_pos eps_le); exact HX.
Defined.
End P.

Definition R3_explog : ExpLogCore (Rn RS 3).
Proof.
  refine (mkEL _ R3_core (fun t => length t = 3%nat) _ _ _ _ _ _); cbn [gc_valid R3_core g_exp g_log g_dof Rn]; unfold rn_valid, rn_exp, rn_log.
  - intros t H; exact H.
  - intros X H; exact H.
  - intros t s H. unfold vscale_r. rewrite map_length. exact H.
  - intros t H. destruct t as [|a [|b [|c [|d t]]]]; try discriminate H. mat_unfold. match goal with |- @eq _ ?u ?v => change (@eq (list R) u v) end. list_eq; ring.
  - intros t H. destruct t as [|a [|b [|c [|d t]]]]; try discriminate H. mat_unfold. match goal with |- @eq _ ?u ?v => change (@eq (list R) u v) end. list_eq; ring.
  - reflexivity.
Defined.
