(* BundleCoreValid.v — the validity predicate of BundleGroup.Bundle_core IS "a concatenation of valid elements" (the Bundle_core
   record is built by destructing an opaque theorem, so its projections do not reduce; this lemma exposes gc_valid). *)
From Coq Require Import Reals List Lia.
From Manif Require Import Scalar Mat Group RInst Generic LieSpec Bundle BundleProofs BundleLaws BundleInst BundleCore BundleGroup.
Import ListNotations.

Lemma Bundle_core_valid (LG : list PackedG) (dG : PackedG) X :
  gc_valid (Bundle_core LG dG) X <->
  bvalid RS (map p_G (map m_pack (map g_m LG)))
    (fun i X => gc_valid (p_core (nth i (map m_pack (map g_m LG)) (m_pack (g_m dG)))) X) X.
Proof.
  unfold Bundle_core.
  destruct (bundle_matrix_laws (map g_m LG) (g_m dG)) as [[cv iv idv asc nl nr il ir] cM iM x1 x2].
  cbn [gc_valid]. tauto.
Qed.
