(* SE23.v — model of impl/se_2_3/SE_2_3_base.h, SE_2_3Tangent_base.h.
   Coefficients: [x; y; z; qx; qy; qz; qw; vx; vy; vz].  Tangent: [lin(3); ang(3); lin2(3)]. *)
From Coq Require Import ZArith List Bool.
Import ListNotations.
From Manif Require Import Scalar Mat Consts Group SO2 SO3 SE3.

Section SE23.
Variable F : Sc.
Variable eps : K F.
Local Notation "a + b" := (kadd F a b) : k_scope.
Local Notation "a - b" := (ksub F a b) : k_scope.
Local Notation "a * b" := (kmul F a b) : k_scope.
Local Notation "a / b" := (kdiv F a b) : k_scope.
Local Notation "- a" := (kopp F a) : k_scope.
Local Open Scope k_scope.
Local Notation vec := (list (K F)).
Local Notation mat := (list (list (K F))).

Definition se23_t (c : vec) : vec := firstn 3 c.            (* translation(): head<3> *)
Definition se23_q (c : vec) : vec := vslice c 3 4.          (* asSO3(): view at offset 3 *)
Definition se23_v (c : vec) : vec := vslice c 7 3.          (* linearVelocity(): tail<3> *)
Definition se23_rotation (c : vec) : mat := so3_rotation F (se23_q c).
Definition se23_transform (c : vec) : mat :=
  mset_block (mset_block (mset_block (mid 5) 0 0 (se23_rotation c)) 0 3 (colvec (se23_t c))) 0 4 (colvec (se23_v c)).

Definition se23_adj (c : vec) : mat :=
  let R := se23_rotation c in
  let Z := mzero 3 3 in
  vcat (vcat (hcat (hcat R (mmul (skew3 (se23_t c)) R)) Z)
             (hcat (hcat Z R) Z))
       (hcat (hcat Z (mmul (skew3 (se23_v c)) R)) R).

Definition se23_inverse (c : vec) : vec :=
  let qi := so3_inverse F (se23_q c) in
  vneg (so3_act F qi (se23_t c)) ++ qi ++ vneg (so3_act F qi (se23_v c)).
Definition se23_inverse_J (c : vec) : mat := mneg (se23_adj c).

Definition se23_compose (a b : vec) : vec :=
  vadd (mvmul (se23_rotation a) (se23_t b)) (se23_t a)
  ++ so3_compose F eps (se23_q a) (se23_q b)
  ++ vadd (mvmul (se23_rotation a) (se23_v b)) (se23_v a).
Definition se23_compose_Ja (a b : vec) : mat := se23_adj (se23_inverse b).
Definition se23_compose_Jb (a b : vec) : mat := mid 9.

Definition se23_act (c v : vec) : vec := vadd (se23_t c) (mvmul (se23_rotation c) v).
Definition se23_act_Jm (c v : vec) : mat :=
  let R := se23_rotation c in hcat (hcat R (mmul (mneg R) (skew3 v))) (mzero 3 3).
Definition se23_act_Jv (c v : vec) : mat := se23_rotation c.

Definition se23_normalize (c : vec) : vec := firstn 3 c ++ eigen_normalize F (vslice c 3 4) ++ skipn 7 c.
Definition se23_assert_ok (c : vec) : bool :=
  kltb F (kabs (eigen_norm F (vslice c 3 4) - kz 1)) eps.

(* ---- tangent ---- *)
Definition se23t_lin (t : vec) : vec := firstn 3 t.
Definition se23t_ang (t : vec) : vec := vslice t 3 3.       (* asSO3(): view at offset 3 *)
Definition se23t_lin2 (t : vec) : vec := vslice t 6 3.

Definition se23_hat (t : vec) : mat :=
  let c := fun i => vnth t i in
  [[kz 0; - c 5; c 4; c 0; c 6]; [c 5; kz 0; - c 3; c 1; c 7]; [- c 4; c 3; kz 0; c 2; c 8];
   [kz 0; kz 0; kz 0; kz 0; kz 0]; [kz 0; kz 0; kz 0; kz 0; kz 0]].

Definition se23_exp (t : vec) : vec :=
  let Jl := so3_ljac F eps (se23t_ang t) in
  mvmul Jl (se23t_lin t) ++ so3_exp F eps (se23t_ang t) ++ mvmul Jl (se23t_lin2 t).

(* 9x9 block matrix [[D Qv 0];[0 D 0];[0 Qa D]] *)
Definition se23_jblocks (D Qv Qa : mat) : mat :=
  let Z := mzero 3 3 in
  vcat (vcat (hcat (hcat D Qv) Z) (hcat (hcat Z D) Z)) (hcat (hcat Z Qa) D).

Definition se23_ljac (t : vec) : mat :=
  se23_jblocks (so3_ljac F eps (se23t_ang t))
               (fillQ F eps (firstn 6 t))
               (fillQ F eps (se23t_lin2 t ++ se23t_ang t)).
Definition se23_rjac (t : vec) : mat :=
  se23_jblocks (so3_rjac F eps (se23t_ang t))
               (fillQ F eps (vneg (firstn 6 t)))
               (fillQ F eps (vneg (se23t_lin2 t) ++ vneg (se23t_ang t))).
Definition se23_ljacinv (t : vec) : mat :=
  let D := so3_ljacinv F eps (se23t_ang t) in
  let Qv := fillQ F eps (firstn 6 t) in
  let Qa := fillQ F eps (se23t_lin2 t ++ se23t_ang t) in
  se23_jblocks D (mmul (mmul (mneg D) Qv) D) (mmul (mmul (mneg D) Qa) D).
Definition se23_rjacinv (t : vec) : mat :=
  let D := so3_rjacinv F eps (se23t_ang t) in
  let Qv := fillQ F eps (vneg (firstn 6 t)) in
  let Qa := fillQ F eps (vneg (se23t_lin2 t) ++ vneg (se23t_ang t)) in
  se23_jblocks D (mmul (mmul (mneg D) Qv) D) (mmul (mmul (mneg D) Qa) D).

Definition se23_log (c : vec) : vec :=
  let w := so3_log F eps (se23_q c) in
  let Ji := so3_ljacinv F eps w in
  mvmul Ji (se23_t c) ++ w ++ mvmul Ji (se23_v c).
Definition se23_log_J (c : vec) : mat := se23_rjacinv (se23_log c).

Definition se23_smallAdj (t : vec) : mat :=
  let W := skew3 (se23t_ang t) in
  se23_jblocks W (skew3 (se23t_lin t)) (skew3 (se23t_lin2 t)).

Definition rotgen (n : nat) (k : nat) : mat :=
  mset_block (mzero n n) 0 0
    (match k with
     | 0%nat => [[kz 0; kz 0; kz 0]; [kz 0; kz 0; kz (-1)]; [kz 0; kz 1; kz 0]]
     | 1%nat => [[kz 0; kz 0; kz 1]; [kz 0; kz 0; kz 0]; [kz (-1); kz 0; kz 0]]
     | _ => [[kz 0; kz (-1); kz 0]; [kz 1; kz 0; kz 0]; [kz 0; kz 0; kz 0]]
     end).
Definition se23_generator (i : Z) : res mat :=
  match to_unsigned32 i with
  | 0%Z => Ok (e_ij F 5 0 3 (kz 1)) | 1%Z => Ok (e_ij F 5 1 3 (kz 1)) | 2%Z => Ok (e_ij F 5 2 3 (kz 1))
  | 3%Z => Ok (rotgen 5 0) | 4%Z => Ok (rotgen 5 1) | 5%Z => Ok (rotgen 5 2)
  | 6%Z => Ok (e_ij F 5 0 4 (kz 1)) | 7%Z => Ok (e_ij F 5 1 4 (kz 1)) | 8%Z => Ok (e_ij F 5 2 4 (kz 1))
  | _ => InvalidArgument
  end.
Definition se23_vee (m : mat) : vec :=
  [mnth m 0 3; mnth m 1 3; mnth m 2 3; mnth m 2 1; mnth m 0 2; mnth m 1 0; mnth m 0 4; mnth m 1 4; mnth m 2 4].

Definition SE23 : GroupOps F := {|
  g_dim := 3; g_dof := 9; g_rep := 10; g_tra := 5; g_alg := 5; g_actdim := 3;
  g_inverse := se23_inverse; g_inverse_J := se23_inverse_J;
  g_log := se23_log; g_log_J := se23_log_J;
  g_compose := se23_compose; g_compose_Ja := se23_compose_Ja; g_compose_Jb := se23_compose_Jb;
  g_act := se23_act; g_act_Jm := se23_act_Jm; g_act_Jv := se23_act_Jv;
  g_adj := se23_adj; g_transform := se23_transform; g_rotation := se23_rotation;
  g_translation := se23_t; g_normalize := se23_normalize; g_assert_ok := se23_assert_ok;
  g_exp := se23_exp; g_exp_J := se23_rjac; g_hat := se23_hat;
  g_rjac := se23_rjac; g_ljac := se23_ljac; g_rjacinv := se23_rjacinv; g_ljacinv := se23_ljacinv;
  g_smallAdj := se23_smallAdj; g_generator := se23_generator; g_vee := se23_vee;
  g_bracket := fun a b => mvmul (se23_smallAdj a) b;
  g_innerweights := inner_weights_generic 9 5 se23_generator;
  g_trandom := fun u => u;
  g_grandom := fun u => firstn 3 u ++ rand_quat F (vnth u 3) (vnth u 4) (vnth u 5) ++ vslice u 6 3
|}.
End SE23.
