(* RInst.v — the instance over Coq's real numbers: the object of every theorem.
   sin, cos, sqrt, acos are the standard library's; atan2 is defined from atan
   by cases (principal value in (-PI, PI]); comparisons through Rlt_dec. *)
From Coq Require Import Reals ZArith List Lra.
From Manif Require Import Scalar.
Local Open Scope R_scope.

Definition Rltb (a b : R) : bool := if Rlt_dec a b then true else false.

Definition atan2 (y x : R) : R :=
  if Rlt_dec 0 x then atan (y / x)
  else if Rlt_dec x 0 then (if Rle_dec 0 y then atan (y / x) + PI else atan (y / x) - PI)
  else if Rlt_dec 0 y then PI / 2
  else if Rlt_dec y 0 then - (PI / 2)
  else 0.

Definition RS : Sc := {|
  K := R; k0 := 0; k1 := 1;
  kadd := Rplus; ksub := Rminus; kmul := Rmult; kdiv := Rdiv; kopp := Ropp;
  kltb := Rltb;
  klit := fun n d => match d with xH => IZR n | _ => IZR n / IZR (Zpos d) end;
  ksin := sin; kcos := cos; ksqrt := sqrt; kacos := acos; katan2 := atan2
|}.

Lemma Rltb_true a b : Rltb a b = true <-> a < b.
Proof. unfold Rltb; destruct (Rlt_dec a b); split; intros; try easy; lra. Qed.
Lemma Rltb_false a b : Rltb a b = false <-> b <= a.
Proof. unfold Rltb; destruct (Rlt_dec a b); split; intros; try easy; lra. Qed.
