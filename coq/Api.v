(* Api.v — the alias surface of the public API (property C04): every spelling the README
   documents for plus / minus / compose / ..., the tangent-side forms and the free functions of
   functions.h, as a table from the spelling's index (the same index the C++ harness switches on)
   to the canonical member it must agree with. *)
From Coq Require Import ZArith List Bool.
Import ListNotations.
From Manif Require Import Scalar Mat Group Generic.

Inductive canon2 := CRplus | CLplus | CRminus | CLminus | CCompose | CBetween.
Inductive canon1 := CInverse | CLog | CExp.

(* AliasGT k : forms taking (X, t) *)
Definition alias_gt (k : Z) : option canon2 :=
  match k with
  | 0 => Some CRplus    (* X.rplus(t, Ja, Jb)            — canonical *)
  | 1 => Some CRplus    (* X.plus(t, Ja, Jb)   *)
  | 2 => Some CRplus    (* X + t               *)
  | 3 => Some CRplus    (* X += t              *)
  | 4 => Some CRplus    (* t.rplus(X, Jt, Jx)  = X * exp(t) *)
  | 5 => Some CLplus    (* t.lplus(X, Jt, Jx)  = exp(t) * X *)
  | 6 => Some CLplus    (* t.plus(X, Jt, Jx)   *)
  | 7 => Some CLplus    (* t + X               *)
  | 8 => Some CRplus    (* manif::rplus(X, t, Ja, Jb) *)
  | 9 => Some CLplus    (* manif::lplus(X, t, Ja, Jb) *)
  | 10 => Some CRplus   (* manif::plus(X, t, Ja, Jb)  *)
  | 11 => Some CLplus   (* X.lplus(t, Ja, Jb)            — canonical *)
  | _ => None
  end%Z.

(* AliasGG k : forms taking (X, Y) *)
Definition alias_gg (k : Z) : option canon2 :=
  match k with
  | 0 => Some CRminus   (* X.minus(Y, Ja, Jb)  *)
  | 1 => Some CRminus   (* X - Y               *)
  | 2 => Some CRminus   (* manif::rminus(X, Y, Ja, Jb) *)
  | 3 => Some CLminus   (* manif::lminus(X, Y, Ja, Jb) *)
  | 4 => Some CRminus   (* manif::minus(X, Y, Ja, Jb)  *)
  | 5 => Some CCompose  (* X * Y               *)
  | 6 => Some CCompose  (* X *= Y              *)
  | 7 => Some CCompose  (* manif::compose(X, Y, Ja, Jb) *)
  | 8 => Some CBetween  (* manif::between(X, Y, Ja, Jb) *)
  | _ => None
  end%Z.

Definition alias_g (k : Z) : option canon1 :=
  match k with
  | 0 => Some CInverse  (* manif::inverse(X, J) *)
  | 1 => Some CLog      (* manif::log(X, J)     *)
  | 2 => Some CLog      (* manif::lift(X, J)    *)
  | 3 => Some CLog      (* X.lift(J)            *)
  | _ => None
  end%Z.

Definition alias_t (k : Z) : option canon1 :=
  match k with
  | 0 => Some CExp      (* manif::exp(t, J)     *)
  | 1 => Some CExp      (* manif::retract(t, J) *)
  | 2 => Some CExp      (* t.retract(J)         *)
  | _ => None
  end%Z.

Section Sem.
Variable F : Sc.
Variable G : GroupOps F.
Local Notation vec := (list (K F)).
Local Notation mat := (list (list (K F))).

Definition sem2 (c : canon2) (a b : vec) (ja jb : bool) : vec * option mat * option mat :=
  match c with
  | CRplus => rplus G a b ja jb
  | CLplus => lplus G a b ja jb
  | CRminus => rminus G a b ja jb
  | CLminus => lminus G a b ja jb
  | CCompose => (g_compose G a b, (if ja then Some (g_compose_Ja G a b) else None),
                                  (if jb then Some (g_compose_Jb G a b) else None))
  | CBetween => between G a b ja jb
  end.
Definition sem1 (c : canon1) (a : vec) (j : bool) : vec * option mat :=
  match c with
  | CInverse => (g_inverse G a, if j then Some (g_inverse_J G a) else None)
  | CLog => (g_log G a, if j then Some (g_log_J G a) else None)
  | CExp => (g_exp G a, if j then Some (g_exp_J G a) else None)
  end.
End Sem.
Arguments sem2 {F}. Arguments sem1 {F}.
