(* ViewProofs.v — property C10 on the memory model of Views.v, for ANY scalar and ANY group record: a write through a
   view of n scalars at offset off changes exactly the cells [off, off+n) and keeps the size of the buffer; a read-only
   operation leaves the buffer as it is and returns what the operation returns on an owning object with the same
   coefficients; assignment through a view stores the assigned coefficients exactly. *)
From Coq Require Import ZArith List Lia Bool.
Import ListNotations.
From Manif Require Import Scalar Mat Consts Group Generic Algorithms Views BundleProofs.

Section V.
Variable F : Sc.
Variable G : GroupOps F.
Local Notation vec := (list (K F)).

(* the frame property of a single write *)
Theorem write_frame (mem w : vec) off a : (off + length w <= length mem)%nat -> (a < off \/ off + length w <= a)%nat ->
  nth a (vwrite mem off w) (k0 F) = nth a mem (k0 F).
Proof.
  intros Hb Ha. unfold vwrite. rewrite nth_vset by exact Hb.
  destruct ((off <=? a)%nat && (a <? off + length w)%nat) eqn:E; [|reflexivity].
  apply andb_true_iff in E. destruct E as [E1 E2]. apply Nat.leb_le in E1. apply Nat.ltb_lt in E2. lia.
Qed.
Theorem write_length (mem w : vec) off : (off + length w <= length mem)%nat -> length (vwrite mem off w) = length mem.
Proof. apply vset_length. Qed.
(* what was written can be read back: the view then holds exactly the assigned coefficients *)
Theorem write_read (mem w : vec) off : (off + length w <= length mem)%nat -> vslice (vwrite mem off w) off (length w) = w.
Proof.
  intros Hb. unfold vwrite, vset, vslice. rewrite skipn_app, skipn_all2 by (rewrite firstn_length_le; lia).
  rewrite firstn_length_le by lia. rewrite Nat.sub_diag. cbn [skipn app]. rewrite firstn_app, firstn_all, Nat.sub_diag. cbn [firstn]. apply app_nil_r.
Qed.

Definition is_read (id : Z) : bool :=
  match id with 0 | 1 | 2 | 3 | 4 | 5 | 6 | 8 | 9 | 20 | 30 | 35 => true | _ => false end%Z.

(* read-only operations never change the buffer *)
Theorem read_ops_pure id mem off off2 Y t k v rs mem' : is_read id = true ->
  view_op G id mem off off2 Y t k v = Ok (rs, mem') -> mem' = mem.
Proof.
  intros Hr H. unfold view_op in H.
  destruct id as [|p|p]; try discriminate Hr.
  - inversion H; reflexivity.
  - do 6 (try destruct p as [p|p|]); try discriminate Hr; inversion H; reflexivity.
Qed.

(* a view gives the same result as an owning object holding the same coefficients (the slice) *)
Theorem view_equals_owning mem off off2 Y t k v :
  view_op G 0 mem off off2 Y t k v = Ok ([g_inverse G (vread G mem off)], mem) /\
  view_op G 1 mem off off2 Y t k v = Ok ([g_log G (vread G mem off)], mem) /\
  view_op G 2 mem off off2 Y t k v = Ok ([g_compose G (vread G mem off) Y], mem) /\
  view_op G 4 mem off off2 Y t k v = Ok ([rplus_v G (vread G mem off) t], mem) /\
  view_op G 8 mem off off2 Y t k v = Ok ([rminus_v G (vread G mem off) Y], mem) /\
  view_op G 20 mem off off2 Y t k v = Ok ([vread G mem off], mem).
Proof. repeat split. Qed.

(* every writing operation writes ONE vector at the view's offset (or one scalar at off + k) *)
Definition written (id : Z) (mem : vec) (off off2 : nat) (Y t : vec) (k : nat) (v : K F) : option (nat * vec) :=
  let X := vread G mem off in let X2 := vread G mem off2 in
  match id with
  | 10 | 22 => Some (off, Y) | 11 => Some (off, g_identity G) | 12 => Some (off, rplus_v G X t)
  | 13 => Some (off, g_compose G X Y) | 14 => Some (off, g_normalize G X) | 15 => Some ((off + k)%nat, [v])
  | 16 => Some (off, g_inverse G X) | 17 | 18 | 19 => Some (off, X2) | 21 => Some (off, g_compose G X X2)
  | 31 => Some (off, vadd (tread G mem off) t) | 32 => Some (off, vzero (g_dof G)) | 33 => Some (off, t)
  | 34 => Some (off, tread G mem off2) | 36 => Some (off, vscale_r (tread G mem off) v)
  | _ => None
  end%Z.
Lemma write_ops_are_writes id mem off off2 Y t k v o w : written id mem off off2 Y t k v = Some (o, w) ->
  view_op G id mem off off2 Y t k v = Ok ([], vwrite mem o w).
Proof.
  unfold written, view_op. destruct id as [|p|p]; try discriminate.
  do 6 (try destruct p as [p|p|]); try discriminate; intros H; inversion H; reflexivity.
Qed.

(* the frame theorem for every writing operation: cells outside the written range are untouched, the size is kept *)
Theorem view_write_frame id mem off off2 Y t k v o w a : written id mem off off2 Y t k v = Some (o, w) ->
  (o + length w <= length mem)%nat -> (a < o \/ o + length w <= a)%nat ->
  exists mem', view_op G id mem off off2 Y t k v = Ok ([], mem') /\ nth a mem' (k0 F) = nth a mem (k0 F) /\ length mem' = length mem.
Proof.
  intros Hw Hb Ha. exists (vwrite mem o w). split; [apply write_ops_are_writes; exact Hw|]. split; [apply write_frame; assumption|apply write_length; exact Hb].
Qed.

(* copy / move / cross-kind assignment preserves coefficients exactly *)
Theorem assign_preserves mem off off2 Y t k v mem' : length Y = g_rep G -> (off + g_rep G <= length mem)%nat ->
  view_op G 10 mem off off2 Y t k v = Ok ([], mem') -> vread G mem' off = Y.
Proof. intros HY Hb H. inversion H; subst. unfold vread. rewrite <- HY. apply write_read. lia. Qed.
Theorem view_to_view_preserves id mem off off2 Y t k v mem' : (id = 17 \/ id = 18 \/ id = 19)%Z ->
  (off + g_rep G <= length mem)%nat -> (off2 + g_rep G <= length mem)%nat ->
  view_op G id mem off off2 Y t k v = Ok ([], mem') -> vread G mem' off = vread G mem off2.
Proof.
  intros Hid Hb Hb2 H. assert (E : mem' = vwrite mem off (vread G mem off2)) by (destruct Hid as [->|[->| ->]]; inversion H; reflexivity). subst mem'.
  assert (Hl : length (vread G mem off2) = g_rep G) by (unfold vread, vslice; rewrite firstn_length_le; [reflexivity|rewrite skipn_length; lia]).
  set (w := vread G mem off2) in *. unfold vread. rewrite <- Hl. apply write_read. lia.
Qed.
End V.
