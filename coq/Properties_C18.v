(* Properties_C18.v — property C18: approximate equality is a well-behaved tolerance relation.
   Only statements, each closed by `exact`, each followed by Print Assumptions.  The model functions are
   Generic.v's t_isApprox (TangentBase::isApprox with Eigen's isZero / isApprox spelled out) and g_isApprox
   (LieGroupBase::isApprox = rminus(m).isApprox(Tangent::Zero(), eps)); operator== is isApprox with the
   default tolerance Constants<Scalar>::eps.  All statements are over the reals: what IEEE rounding does
   to X == X at large coordinates is decided by the double / float sweep of the check (known finding F7). *)
From Coq Require Import Reals List Lra.
From Manif Require Import Scalar Mat Group RInst Generic LieSpec SO2 SE2 SO3 SE3 SE23 SGal3 Rn
  SE2Proofs SO3Proofs SE23Proofs RnProofs Approx Approx_Inst Sym_SE2 Sym_SE3 Sym_SE23.
Import ListNotations.
Local Open Scope R_scope.

(* tangents: identical arguments, symmetry, absolute test near zero, relative test otherwise *)
Theorem C18_tangent_refl (a : list R) e : 0 < e -> @t_isApprox RS a a e = true.
Proof. exact (t_isApprox_refl a e). Qed.
Theorem C18_tangent_sym (a b : list R) e : @t_isApprox RS a b e = @t_isApprox RS b a e.
Proof. exact (t_isApprox_sym a b e). Qed.
Theorem C18_tangent_absolute (a b : list R) e :
  Rmin (sqrt (@sqnorm RS a)) (sqrt (@sqnorm RS b)) < e ->
  (@t_isApprox RS a b e = true <-> Forall (fun c => Rabs c <= e) (@vsub RS a b)).
Proof. exact (t_isApprox_absolute a b e). Qed.
Theorem C18_tangent_relative (a b : list R) e :
  e <= Rmin (sqrt (@sqnorm RS a)) (sqrt (@sqnorm RS b)) ->
  (@t_isApprox RS a b e = true <-> @sqnorm RS (@vsub RS a b) <= e * e * Rmin (@sqnorm RS a) (@sqnorm RS b)).
Proof. exact (t_isApprox_relative a b e). Qed.
Print Assumptions C18_tangent_relative.

(* groups, any GroupOps record: isApprox(X, Y, e) holds exactly when every component of X (-) Y is at most e *)
Theorem C18_threshold (G : GroupOps RS) X Y e : 0 < e -> length (rminus_val G X Y) = g_dof G ->
  (g_isApprox G X Y e = true <-> Forall (fun c => Rabs c <= e) (rminus_val G X Y)).
Proof. exact (g_isApprox_threshold G X Y e). Qed.
Print Assumptions C18_threshold.

(* X.isApprox(X, e) (hence X == X) for every valid X, any coordinates, any e > 0 *)
Theorem C18_refl_SO2 eps X e : 0 < eps -> so2_valid X -> 0 < e -> g_isApprox (SO2 RS eps) X X e = true.
Proof. intros H. exact (so2_isApprox_refl eps H X e). Qed.
Theorem C18_refl_SE2 eps X e : 0 < eps -> se2_valid X -> 0 < e -> g_isApprox (SE2 RS eps) X X e = true.
Proof. intros H. exact (se2_isApprox_refl eps H X e). Qed.
Theorem C18_refl_SO3 eps X e : 0 < eps -> so3_valid X -> 0 < e -> g_isApprox (SO3 RS eps) X X e = true.
Proof. intros H. exact (so3_isApprox_refl eps H X e). Qed.
Theorem C18_refl_SE3 eps X e : 0 < eps -> se3_valid X -> 0 < e -> g_isApprox (SE3 RS eps) X X e = true.
Proof. intros H. exact (se3_isApprox_refl eps H X e). Qed.
Theorem C18_refl_SE23 eps X e : 0 < eps -> se23_valid X -> 0 < e -> g_isApprox (SE23 RS eps) X X e = true.
Proof. intros H. exact (se23_isApprox_refl eps H X e). Qed.
Theorem C18_refl_SGal3 eps X e : 0 < eps -> sg_valid X -> 0 < e -> g_isApprox (SGal3 RS eps) X X e = true.
Proof. intros H. exact (sg_isApprox_refl eps H X e). Qed.
Print Assumptions C18_refl_SGal3.

(* two coefficient vectors of one rotation (q and -q) are approximately equal *)
Theorem C18_double_cover_SO3 eps x y z w e : 0 < eps -> n4 x y z w = 1 -> 0 < e ->
  g_isApprox (SO3 RS eps) [x; y; z; w] [- x; - y; - z; - w] e = true.
Proof. intros H. exact (so3_isApprox_double_cover eps H x y z w e). Qed.

(* symmetry *)
Theorem C18_sym_SO3 eps X Y e : 0 < eps -> so3_valid X -> so3_valid Y -> 0 < e ->
  g_isApprox (SO3 RS eps) X Y e = g_isApprox (SO3 RS eps) Y X e.
Proof. intros H. exact (so3_isApprox_sym eps H X Y e). Qed.
Theorem C18_sym_SO2 eps X Y e : 0 < eps -> so2_valid X -> so2_valid Y -> 0 < e ->
  (forall r i, g_compose (SO2 RS eps) (g_inverse (SO2 RS eps) Y) X = [r; i] -> ~ (i = 0 /\ r < 0)) ->
  g_isApprox (SO2 RS eps) X Y e = g_isApprox (SO2 RS eps) Y X e.
Proof. intros H. exact (so2_isApprox_sym eps H X Y e). Qed.
(* SE2: symmetric whenever the relative element is on the closed-form branch of log (eps <= theta^2) and not a half turn;
   on the Taylor branch log(Z^-1) = -log(Z) holds only to O(theta^4) (truncated series), so symmetry there is a
   floating-point-grade statement (predicate P18) *)
Theorem C18_sym_SE2 eps X Y e : 0 < eps -> se2_valid X -> se2_valid Y -> 0 < e ->
  (forall x y r i, g_compose (SE2 RS eps) (g_inverse (SE2 RS eps) Y) X = [x; y; r; i] ->
     ~ (i = 0 /\ r < 0) /\ eps <= atan2 i r * atan2 i r) ->
  g_isApprox (SE2 RS eps) X Y e = g_isApprox (SE2 RS eps) Y X e.
Proof. intros H. exact (se2_isApprox_sym eps H X Y e). Qed.
(* SE3: symmetric whenever the relative element is on the closed-form branch of log and not a half turn *)
Theorem C18_sym_SE3 eps X Y e : 0 < eps -> se3_valid X -> se3_valid Y -> 0 < e ->
  (forall tx ty tz x y z w, g_compose (SE3 RS eps) (g_inverse (SE3 RS eps) Y) X = [tx; ty; tz; x; y; z; w] -> eps < x * x + y * y + z * z /\ w <> 0) ->
  g_isApprox (SE3 RS eps) X Y e = g_isApprox (SE3 RS eps) Y X e.
Proof. intros H. exact (se3_isApprox_sym eps H X Y e). Qed.
Theorem C18_sym_SE23 eps X Y e : 0 < eps -> se23_valid X -> se23_valid Y -> 0 < e ->
  (forall tx ty tz x y z w vx vy vz, g_compose (SE23 RS eps) (g_inverse (SE23 RS eps) Y) X = [tx; ty; tz; x; y; z; w; vx; vy; vz] -> eps < x * x + y * y + z * z /\ w <> 0) ->
  g_isApprox (SE23 RS eps) X Y e = g_isApprox (SE23 RS eps) Y X e.
Proof. intros H. exact (se23_isApprox_sym eps H X Y e). Qed.
From Manif Require Import SGal3 Sym_SGal3.
Theorem C18_sym_SGal3 eps X Y e : 0 < eps -> sg_valid X -> sg_valid Y -> 0 < e ->
  (forall px py pz x y z w vx vy vz t, g_compose (SGal3 RS eps) (g_inverse (SGal3 RS eps) Y) X = [px; py; pz; x; y; z; w; vx; vy; vz; t] -> eps < x * x + y * y + z * z /\ w <> 0) ->
  g_isApprox (SGal3 RS eps) X Y e = g_isApprox (SGal3 RS eps) Y X e.
Proof. intros H. exact (sg_isApprox_sym eps H X Y e). Qed.
Print Assumptions C18_sym_SGal3.
(* any group: symmetric whenever log(Z^-1) = -log(Z) for the relative element Z = Y^-1 X *)
Theorem C18_sym_generic (G : GroupOps RS) (C : GroupCore G) X Y e : gc_valid C X -> gc_valid C Y -> 0 < e ->
  length (rminus_val G X Y) = g_dof G ->
  g_log G (g_inverse G (g_compose G (g_inverse G Y) X)) = @vneg RS (rminus_val G X Y) ->
  g_isApprox G X Y e = g_isApprox G Y X e.
Proof. exact (g_isApprox_sym G C X Y e). Qed.
Print Assumptions C18_sym_SO3.

Example C18_nonvacuous : so3_valid [2/7; 3/7; 6/7; 0] /\ se2_valid [1000000000; -3; -3/5; 4/5] /\ 0 < 1/1000000.
Proof.
  repeat split; try lra.
  - exists (2/7), (3/7), (6/7), 0; split; [reflexivity|unfold n4; lra].
  - exists 1000000000, (-3), (-3/5), (4/5); split; [reflexivity|lra].
Qed.

(* Bundles: X.isApprox(X, e) for EVERY valid element of Bundle<SO3, R3, SE3>, at any coordinates (the general reflexivity theorem at
   the Bundle's GroupCore; log(identity) = 0 for the Bundle from the elements': BundleApprox) *)
From Manif Require Import Bundle BundleGroup BundleLogExp BundleRoundTrip BundleApprox.
Theorem C18_Bundle_SO3_R3_SE3_isApprox_refl eps (H : 0 < eps) X e :
  gc_valid (C3 eps H) X -> 0 < e -> g_isApprox (Bundle (L3 eps)) X X e = true.
Proof. exact (bundle3_isApprox_refl eps H X e). Qed.
Print Assumptions C18_Bundle_SO3_R3_SE3_isApprox_refl.
