(* Interp_SE23.v — property C15 for SE_2(3) and SGal(3): SLERP starts at A exactly and ends at B as a transformation (B with its
   quaternion up to sign) whenever the relative element A^-1 B is on the closed-form branch of log and not a half turn. *)
From Coq Require Import Reals ZArith List Lra Psatz.
From Manif Require Import Scalar Mat Consts Group RInst Tac Atan2 SO3 SE3 SE23 SGal3 Generic LieSpec SO3Proofs SE23Proofs Algorithms Log_SO3 JacInv_SO3 Log_SE3 Log_SE23
  InterpProofs Interp_SO3 LogExp_SGal3.
Import ListNotations.
Local Open Scope R_scope.

Definition negq (B : list R) : list R := firstn 3 B ++ @vneg RS (vslice B 3 4) ++ skipn 7 B.

Section P.
Variable eps : R.
Hypothesis eps_pos : 0 < eps.

Lemma so3_log_shape x y z w : exists a b c, so3_log RS eps [x; y; z; w] = [a; b; c].
Proof. unfold so3_log; cbn [firstn]; unfold vscale_r; cbn [map]; do 3 eexists; reflexivity. Qed.
Lemma so3_ljacinv_shape a b c : exists a1 a2 a3 a4 a5 a6 a7 a8 a9, so3_ljacinv RS eps [a; b; c] = [[a1; a2; a3]; [a4; a5; a6]; [a7; a8; a9]].
Proof. unfold so3_ljacinv, so3_hat. destruct (kleb _ _); mat_unfold; do 9 eexists; reflexivity. Qed.
Lemma so3_rotation_shape qx qy qz qw : exists a1 a2 a3 a4 a5 a6 a7 a8 a9, so3_rotation RS [qx; qy; qz; qw] = [[a1; a2; a3]; [a4; a5; a6]; [a7; a8; a9]].
Proof. unfold so3_rotation, quat_matrix; mat_unfold; do 9 eexists; reflexivity. Qed.

(* ---------------- SE_2(3) ---------------- *)
Section SE23.
Local Notation G := (SE23 RS eps).
Local Notation C := (SE23_core eps eps_pos).

Lemma se23_log_shape X : se23_valid X -> exists a b c d e f g h i, se23_log RS eps X = [a; b; c; d; e; f; g; h; i].
Proof.
  intros (tx & ty & tz & x & y & z & w & vx & vy & vz & -> & Hn). unfold se23_log, se23_q, se23_t, se23_v. cbv zeta. cbn [vslice skipn firstn].
  destruct (so3_log_shape x y z w) as (a & b & c & Hl). cbn [K RS] in *. rewrite Hl.
  destruct (mvmul3_shape _ [tx; ty; tz] (so3_ljacinv_shape a b c)) as (p0 & p1 & p2 & Ep).
  destruct (mvmul3_shape _ [vx; vy; vz] (so3_ljacinv_shape a b c)) as (v0 & v1 & v2 & Ev). cbn [K RS] in *. rewrite Ep, Ev. do 9 eexists. reflexivity.
Qed.

Theorem se23_slerp_zero A B : se23_valid A -> se23_valid B -> @interpolate_slerp RS G A B 0 = Ok A.
Proof.
  intros HA HB. unfold interpolate_slerp. rewrite in01_true by lra. f_equal.
  unfold rplus_v, rminus_v, tscale. cbn [g_compose g_exp g_log g_inverse SE23].
  assert (HZ : se23_valid (se23_compose RS eps (se23_inverse RS A) B)).
  { apply (gc_compose_valid _ C); [apply (gc_inverse_valid _ C)|]; assumption. }
  destruct (se23_log_shape _ HZ) as (a & b & c & d & e & f & g & h & i & ->). cbn [vscale_r map]. cbn [K RS kmul].
  assert (He : se23_exp RS eps [a * 0; b * 0; c * 0; d * 0; e * 0; f * 0; g * 0; h * 0; i * 0] = g_identity G).
  { rewrite (se23_identity_eq eps eps_pos). unfold se23_exp, se23t_ang, se23t_lin, se23t_lin2, so3_ljac, so3_exp, so3_hat. cbv zeta. cbn [vslice skipn firstn]. mat_unfold.
    replace (d * 0 * (d * 0) + (e * 0 * (e * 0) + (f * 0 * (f * 0) + 0))) with 0 by ring.
    rewrite (Rltb_lt_false eps 0) by lra. cbn [negb]. unfold c_half. mat_unfold.
    match goal with |- @eq _ ?u ?v => change (@eq (list R) u v) end. list_eq; field. }
  rewrite He. exact (gc_neutral_r _ C A HA).
Qed.

Lemma se23_compose_neg_r A tx ty tz x y z w vx vy vz : se23_valid A -> n4 x y z w = 1 ->
  se23_compose RS eps A [tx; ty; tz; - x; - y; - z; - w; vx; vy; vz] = negq (se23_compose RS eps A [tx; ty; tz; x; y; z; w; vx; vy; vz]).
Proof.
  intros (ax & ay & az & qx & qy & qz & qw & ux & uy & uz & -> & Ha) Hz. unfold se23_compose, se23_rotation, se23_q, se23_t, se23_v. cbn [vslice skipn firstn].
  assert (Hq : so3_valid [qx; qy; qz; qw]) by (exists qx, qy, qz, qw; split; [reflexivity|assumption]).
  pose proof (so3_compose_neg_r eps eps_pos [qx; qy; qz; qw] x y z w Hq Hz) as EN. cbn [K RS] in *. unfold Mat.vec in *. cbn [K RS] in *. rewrite EN.
  destruct (mvmul3_shape _ [tx; ty; tz] (so3_rotation_shape qx qy qz qw)) as (r0 & r1 & r2 & Er).
  destruct (mvmul3_shape _ [vx; vy; vz] (so3_rotation_shape qx qy qz qw)) as (s0 & s1 & s2 & Es). cbn [K RS] in *. rewrite Er, Es. cbn [vadd vmap2 app].
  assert (Hc : exists c0 c1 c2 c3, so3_compose RS eps [qx; qy; qz; qw] [x; y; z; w] = [c0; c1; c2; c3]).
  { unfold so3_compose. cbv zeta. destruct (kgtb _ _); unfold vscale_r, quat_mul; mat_unfold; do 4 eexists; reflexivity. }
  destruct Hc as (c0 & c1 & c2 & c3 & Ec). cbn [K RS] in *. unfold Mat.vec in *. cbn [K RS] in *. rewrite Ec. unfold negq. cbn [app firstn skipn vslice vneg map]. reflexivity.
Qed.

Theorem se23_slerp_one A B : se23_valid A -> se23_valid B ->
  (forall tx ty tz x y z w vx vy vz, se23_compose RS eps (se23_inverse RS A) B = [tx; ty; tz; x; y; z; w; vx; vy; vz] -> eps < x * x + y * y + z * z /\ w <> 0) ->
  @interpolate_slerp RS G A B 1 = Ok B \/ @interpolate_slerp RS G A B 1 = Ok (negq B).
Proof.
  intros HA HB Hgen. unfold interpolate_slerp. rewrite in01_true by lra.
  unfold rplus_v, rminus_v, tscale. cbn [g_compose g_exp g_log g_inverse SE23].
  assert (HZ : se23_valid (se23_compose RS eps (se23_inverse RS A) B)).
  { apply (gc_compose_valid _ C); [apply (gc_inverse_valid _ C)|]; assumption. }
  assert (HAZ : se23_compose RS eps A (se23_compose RS eps (se23_inverse RS A) B) = B).
  { pose proof (gc_assoc _ C A (se23_inverse RS A) B HA (gc_inverse_valid _ C A HA) HB) as H1.
    pose proof (gc_inv_r _ C A HA) as H2. pose proof (gc_neutral_l _ C B HB) as H3.
    cbn [g_compose g_inverse SE23] in H1, H2, H3. rewrite <- H1, H2. exact H3. }
  destruct (se23_log_shape _ HZ) as (a & b & c & d & e & f & g & h & i & El).
  destruct HZ as (tx & ty & tz & x & y & z & w & vx & vy & vz & EZ & Hn). destruct (Hgen tx ty tz x y z w vx vy vz EZ) as [Hs2 Hw]. rewrite EZ in *.
  rewrite El.
  assert (E1 : @vscale_r RS [a; b; c; d; e; f; g; h; i] 1 = [a; b; c; d; e; f; g; h; i]) by (unfold vscale_r; cbn [map]; cbn [K RS kmul]; match goal with |- @eq _ ?u ?v => change (@eq (list R) u v) end; list_eq; ring).
  rewrite E1, <- El. rewrite (se23_exp_log_generic eps eps_pos tx ty tz x y z w vx vy vz Hn Hs2 Hw). cbn [app].
  destruct (Rlt_dec w 0).
  - right. f_equal. cbn [app]. rewrite (se23_compose_neg_r A tx ty tz x y z w vx vy vz HA Hn). rewrite HAZ. reflexivity.
  - left. f_equal. cbn [app]. exact HAZ.
Qed.
End SE23.

(* ---------------- SGal(3) ---------------- *)
Section SGAL.
Local Notation G := (SGal3 RS eps).
Local Notation C := (SGal3_core eps eps_pos).

Lemma sg_log_shape X : sg_valid X -> exists a b c d e f g h i j, sg_log RS eps X = [a; b; c; d; e; f; g; h; i; j].
Proof.
  intros (px & py & pz & x & y & z & w & vx & vy & vz & t & -> & Hn). unfold sg_log, sg_q, sg_p, sg_v, sg_t. cbv zeta. cbn [vslice skipn firstn vnth nth].
  destruct (so3_log_shape x y z w) as (a & b & c & Hl). cbn [K RS] in *. rewrite Hl.
  destruct (mvmul3_shape _ [vx; vy; vz] (so3_ljacinv_shape a b c)) as (v0 & v1 & v2 & Ev). cbn [K RS] in *. rewrite Ev.
  destruct (mvmul3_shape _ (@vscale RS t [v0; v1; v2]) (fillE_shape eps a b c)) as (e0 & e1 & e2 & Ee). cbn [K RS] in *. rewrite Ee. cbn [vsub vmap2].
  match goal with |- context [@mvmul RS ?M ?v] => destruct (mvmul3_shape M v (so3_ljacinv_shape a b c)) as (p0 & p1 & p2 & Ep) end.
  cbn [K RS] in *. rewrite Ep. do 10 eexists. reflexivity.
Qed.

Theorem sg_slerp_zero A B : sg_valid A -> sg_valid B -> @interpolate_slerp RS G A B 0 = Ok A.
Proof.
  intros HA HB. unfold interpolate_slerp. rewrite in01_true by lra. f_equal.
  unfold rplus_v, rminus_v, tscale. cbn [g_compose g_exp g_log g_inverse SGal3].
  assert (HZ : sg_valid (sg_compose RS eps (sg_inverse RS A) B)).
  { apply (gc_compose_valid _ C); [apply (gc_inverse_valid _ C)|]; assumption. }
  destruct (sg_log_shape _ HZ) as (a & b & c & d & e & f & g & h & i & j & ->). cbn [vscale_r map]. cbn [K RS kmul].
  assert (He : sg_exp RS eps [a * 0; b * 0; c * 0; d * 0; e * 0; f * 0; g * 0; h * 0; i * 0; j * 0] = g_identity G).
  { rewrite (sg_identity_eq eps eps_pos). unfold sg_exp, sgt_ang, sgt_lin, sgt_lin2, sgt_t, fillE, so3_ljac, so3_exp, so3_hat. cbv zeta. cbn [vslice skipn firstn vnth nth]. mat_unfold.
    replace (g * 0 * (g * 0) + (h * 0 * (h * 0) + (i * 0 * (i * 0) + 0))) with 0 by ring.
    rewrite (Rltb_lt_false eps 0) by lra. cbn [negb]. unfold c_half. mat_unfold. rewrite ?(Rltb_lt_true 0 eps eps_pos). unfold I33. mat_unfold.
    match goal with |- @eq _ ?u ?v => change (@eq (list R) u v) end. list_eq; field. }
  rewrite He. exact (gc_neutral_r _ C A HA).
Qed.

Lemma sg_compose_neg_r A px py pz x y z w vx vy vz t : sg_valid A -> n4 x y z w = 1 ->
  sg_compose RS eps A [px; py; pz; - x; - y; - z; - w; vx; vy; vz; t] = negq (sg_compose RS eps A [px; py; pz; x; y; z; w; vx; vy; vz; t]).
Proof.
  intros (ax & ay & az & qx & qy & qz & qw & ux & uy & uz & at_ & -> & Ha) Hz. unfold sg_compose, sg_rotation, sg_q, sg_p, sg_v, sg_t. cbn [vslice skipn firstn vnth nth].
  assert (Hq : so3_valid [qx; qy; qz; qw]) by (exists qx, qy, qz, qw; split; [reflexivity|assumption]).
  pose proof (so3_compose_neg_r eps eps_pos [qx; qy; qz; qw] x y z w Hq Hz) as EN. cbn [K RS] in *. unfold Mat.vec in *. cbn [K RS] in *. rewrite EN.
  destruct (mvmul3_shape _ [px; py; pz] (so3_rotation_shape qx qy qz qw)) as (r0 & r1 & r2 & Er).
  destruct (mvmul3_shape _ [vx; vy; vz] (so3_rotation_shape qx qy qz qw)) as (s0 & s1 & s2 & Es). cbn [K RS] in *. rewrite Er, Es. cbn [vadd vmap2 vscale map app].
  assert (Hc : exists c0 c1 c2 c3, so3_compose RS eps [qx; qy; qz; qw] [x; y; z; w] = [c0; c1; c2; c3]).
  { unfold so3_compose. cbv zeta. destruct (kgtb _ _); unfold vscale_r, quat_mul; mat_unfold; do 4 eexists; reflexivity. }
  destruct Hc as (c0 & c1 & c2 & c3 & Ec). cbn [K RS] in *. unfold Mat.vec in *. cbn [K RS] in *. rewrite Ec. unfold negq. cbn [app firstn skipn vslice vneg map]. reflexivity.
Qed.

Theorem sg_slerp_one A B : sg_valid A -> sg_valid B ->
  (forall px py pz x y z w vx vy vz t, sg_compose RS eps (sg_inverse RS A) B = [px; py; pz; x; y; z; w; vx; vy; vz; t] -> eps < x * x + y * y + z * z /\ w <> 0) ->
  @interpolate_slerp RS G A B 1 = Ok B \/ @interpolate_slerp RS G A B 1 = Ok (negq B).
Proof.
  intros HA HB Hgen. unfold interpolate_slerp. rewrite in01_true by lra.
  unfold rplus_v, rminus_v, tscale. cbn [g_compose g_exp g_log g_inverse SGal3].
  assert (HZ : sg_valid (sg_compose RS eps (sg_inverse RS A) B)).
  { apply (gc_compose_valid _ C); [apply (gc_inverse_valid _ C)|]; assumption. }
  assert (HAZ : sg_compose RS eps A (sg_compose RS eps (sg_inverse RS A) B) = B).
  { pose proof (gc_assoc _ C A (sg_inverse RS A) B HA (gc_inverse_valid _ C A HA) HB) as H1.
    pose proof (gc_inv_r _ C A HA) as H2. pose proof (gc_neutral_l _ C B HB) as H3.
    cbn [g_compose g_inverse SGal3] in H1, H2, H3. rewrite <- H1, H2. exact H3. }
  destruct (sg_log_shape _ HZ) as (a & b & c & d & e & f & g & h & i & j & El).
  destruct HZ as (px & py & pz & x & y & z & w & vx & vy & vz & t & EZ & Hn). destruct (Hgen px py pz x y z w vx vy vz t EZ) as [Hs2 Hw]. rewrite EZ in *.
  rewrite El.
  assert (E1 : @vscale_r RS [a; b; c; d; e; f; g; h; i; j] 1 = [a; b; c; d; e; f; g; h; i; j]) by (unfold vscale_r; cbn [map]; cbn [K RS kmul]; match goal with |- @eq _ ?u ?v => change (@eq (list R) u v) end; list_eq; ring).
  rewrite E1, <- El. rewrite (sg_exp_log_generic eps eps_pos px py pz x y z w vx vy vz t Hn Hs2 Hw). cbn [app].
  destruct (Rlt_dec w 0).
  - right. f_equal. cbn [app]. rewrite (sg_compose_neg_r A px py pz x y z w vx vy vz t HA Hn). rewrite HAZ. reflexivity.
  - left. f_equal. cbn [app]. exact HAZ.
Qed.
End SGAL.
End P.
