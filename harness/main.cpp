// main.cpp — harness binary: runs cases (group, op, mask, args) on manif instantiated over
//   VQ_SCALAR 0: vq::ExQ exact rationals (correspondence + exact predicates)
//   VQ_SCALAR 1: double   2: float   3: hp = boost cpp_bin_float_100 with the double thresholds
// One binary per group set (VQ_GROUPSET). Built from /repo's current working tree.
#ifndef VQ_SCALAR
#define VQ_SCALAR 0
#endif
#include <gmpxx.h>
#include <mpfr.h>
#if VQ_SCALAR == 0
#include "exq.h"
#elif VQ_SCALAR == 3
#include "hp.h"
#elif VQ_SCALAR == 4
#include "exq.h"
#include "dual.h"
#elif VQ_SCALAR == 5
#include "dual.h"
#endif
#include <manif/manif.h>
#include "run.h"
#include <set>
#include <tuple>

#if VQ_SCALAR == 0
using S = vq::ExQ;
template<> struct ScalarIO<S> {
  static S parse(const std::string& s){ mpq_class q(s); q.canonicalize(); return S(q); }
  static std::string print(const S& x){ return x.v.get_str(); }
};
#elif VQ_SCALAR == 1 || VQ_SCALAR == 2
#if VQ_SCALAR == 1
using S = double;
#else
using S = float;
#endif
static double q_to_double(const std::string& s, bool single){
  mpq_class q(s); q.canonicalize();
  mpfr_t f; mpfr_init2(f, single ? 24 : 53); mpfr_set_q(f, q.get_mpq_t(), MPFR_RNDN);
  double d = mpfr_get_d(f, MPFR_RNDN); mpfr_clear(f); return d;
}
template<> struct ScalarIO<S> {
  static S parse(const std::string& s){ return (S)q_to_double(s, VQ_SCALAR==2); }
  static std::string print(const S& x){
    if(std::isnan((double)x)) return "nan"; if(std::isinf((double)x)) return x>0?"inf":"-inf";
    return mpq_class((double)x).get_str(); }      // exact value of the float
};
#elif VQ_SCALAR == 4 || VQ_SCALAR == 5
#if VQ_SCALAR == 4
using BaseS = vq::ExQ;
template<> struct ScalarIO<BaseS> {
  static BaseS parse(const std::string& s){ mpq_class q(s); q.canonicalize(); return BaseS(q); }
  static std::string print(const BaseS& x){ return x.v.get_str(); } };
#else
using BaseS = double;
template<> struct ScalarIO<BaseS> {
  static BaseS parse(const std::string& s){ mpq_class q(s); q.canonicalize(); mpfr_t f; mpfr_init2(f,53); mpfr_set_q(f,q.get_mpq_t(),MPFR_RNDN); double d=mpfr_get_d(f,MPFR_RNDN); mpfr_clear(f); return d; }
  static std::string print(const BaseS& x){ if(std::isnan(x)) return "nan"; if(std::isinf(x)) return x>0?"inf":"-inf"; return mpq_class(x).get_str(); } };
#endif
using S = vq::Dual<BaseS>;
template<> struct ScalarIO<S> {
  static S parse(const std::string& s){ return S(ScalarIO<BaseS>::parse(s), BaseS(0)); }
  static std::string print(const S& x){ return ScalarIO<BaseS>::print(x.a); } };
template<> struct DualIO<S> { static constexpr bool value=true;
  static S make(const std::string& p, const std::string& d){ return S(ScalarIO<BaseS>::parse(p), ScalarIO<BaseS>::parse(d)); }
  static std::string primal(const S& x){ return ScalarIO<BaseS>::print(x.a); } static std::string dualpart(const S& x){ return ScalarIO<BaseS>::print(x.b); } };
#else
using S = vq::hp;
template<> struct ScalarIO<S> {
  static S parse(const std::string& s){
    size_t i=s.find('/'); if(i==std::string::npos) return S(vq::hp_t(s));
    return S(vq::hp_t(s.substr(0,i))/vq::hp_t(s.substr(i+1))); }
  static std::string print(const S& x){ return x.v.str(60, std::ios_base::scientific); }
};
#endif

#include "ops.h"
#include "ops2.h"
#include "preds.h"
#if VQ_GROUPSET >= 100
#include "bundles.h"
#endif
#if VQ_SCALAR == 4 || VQ_SCALAR == 5
#include "pred12.h"
#endif

#if VQ_GROUPSET == 1
#define VQ_GROUPS X("SO2", manif::SO2<S>)
#elif VQ_GROUPSET == 2
#define VQ_GROUPS X("SE2", manif::SE2<S>)
#elif VQ_GROUPSET == 3
#define VQ_GROUPS X("R1", manif::R1<S>) X("R2", manif::R2<S>) X("R3", manif::R3<S>) X("R5", manif::R5<S>) X("R9", manif::R9<S>)
#elif VQ_GROUPSET == 4
#define VQ_GROUPS X("SO3", manif::SO3<S>)
#elif VQ_GROUPSET == 5
#define VQ_GROUPS X("SE3", manif::SE3<S>)
#elif VQ_GROUPSET == 6
#define VQ_GROUPS X("SE23", manif::SE_2_3<S>)
#elif VQ_GROUPSET == 7
#define VQ_GROUPS X("SGal3", manif::SGal3<S>)
#endif

static bool dispatch(const Case& c, Out<S>& o){
#if VQ_GROUPSET >= 100
#define X(name, type) if(c.group==name && c.op=="P11") return PredB<type>::run(c,o);
  VQ_GROUPS
#undef X
#endif
#if VQ_SCALAR == 4 || VQ_SCALAR == 5
#define X(name, type) if(c.group==name && c.op=="P12") return Pred12<type>::run(c,o);
  VQ_GROUPS
#undef X
#endif
#define X(name, type) if(c.group==name) return (c.op.size()>1 && (c.op[0]=='P' || c.op[0]=='J' || c.op[0]=='W') && isdigit(c.op[1])) ? Pred<type>::run(c,o) : (GroupRunner<type>::run(c,o) || GroupRunner2<type>::run(c,o));
  VQ_GROUPS
#undef X
  return false;
}

int main(int argc, char** argv){
  std::ifstream fin; std::istream* in=&std::cin;
  if(argc>1){ fin.open(argv[1]); in=&fin; }
  std::string line; Case c;
  while(std::getline(*in,line)){
    if(!parse_case(line,c)) continue;
#if VQ_SCALAR == 0 || VQ_SCALAR == 4
    vq::oracle_log().clear(); vq::angle_registry().clear();
#endif
    std::string res;
    try {
      Out<S> o;
      if(!dispatch(c,o)) res="unsupported"; else res=o.str();
    }
    catch(const manif::invalid_argument&){ res="exc invalid_argument"; }
    catch(const manif::runtime_error&){ res="exc runtime_error"; }
#if VQ_SCALAR == 0 || VQ_SCALAR == 4
    catch(const vq::div_by_zero&){ res="exc div0"; }
#endif
    catch(const std::bad_alloc&){ res="exc bad_alloc"; }
    catch(const std::logic_error&){ res="exc logic_error"; }
    catch(const std::exception& e){ res=std::string("exc other ")+e.what(); }
    std::cout << c.raw << "\n";
#if VQ_SCALAR == 0 || VQ_SCALAR == 4
    std::map<std::tuple<int,std::string,std::string>,std::string> seen; bool conflict=false;
    for(auto& k: vq::oracle_log()){
      auto key=std::make_tuple(k.f,k.a.get_str(),k.b.get_str());
      auto it=seen.find(key);
      if(it!=seen.end()){ if(it->second!=k.r.get_str()) conflict=true; continue; }
      seen[key]=k.r.get_str();
      std::cout << "O " << k.f << " " << k.a.get_str() << " " << k.b.get_str() << " " << k.r.get_str() << "\n";
    }
    if(conflict) res="oracle_conflict";
#endif
    std::cout << "R " << c.id << " " << res << "\n";
  }
  return 0;
}
