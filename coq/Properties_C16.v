(* Properties_C16.v — property C16: averages are valid, stationary and equivariant.  Over the reals, on the model
   of algorithms/average.h (fuelled loops: the iteration budget is the recursion argument, so every routine
   terminates within its budget by construction).
   Closed: empty set raises / single point returned (all four routines); the bi-invariant mean returns one of the
   first max_iterations+1 iterates, and when it leaves through its stopping test the residual mean tangent
   (1/N) sum_i log(m^-1 X_i) has squared norm below the tolerance (C16_stationary_at_exit); for any group with
   ExpLogCore and tangents closed under addition (instantiated: SO2, SE2) every iterate is a valid element, the
   bi-invariant mean of left-translated points is the left-translated mean with the same stopping decisions, and a
   set of identical points returns that point.
   NOT proved (partial): that the iteration reaches its stopping test within the budget for clouds of moderate
   radius on non-commutative groups (a contraction estimate), hence order-independence and right-equivariance of
   the computed value, and the corresponding statements for average() / frechet_left / frechet_right beyond
   empty / single: these are evaluated on the implementation on every run (double and exact). *)
From Coq Require Import Reals ZArith List Lra.
From Manif Require Import Scalar Mat Group RInst Generic LieSpec Algorithms SO2 SE2 SE2Proofs InterpProofs InterpInst AvgProofs AvgInst.
Import ListNotations.
Local Open Scope R_scope.

Theorem C16_empty (G : GroupOps RS) e it eps : average_biinvariant G [] e it = RuntimeError /\ average_weighted G eps [] it = RuntimeError /\
  average_frechet_left G [] e it = RuntimeError /\ average_frechet_right G [] e it = RuntimeError.
Proof. exact (avg_empty G e it eps). Qed.
Theorem C16_single (G : GroupOps RS) X e it eps : average_biinvariant G [X] e it = Ok X /\ average_weighted G eps [X] it = Ok X /\
  average_frechet_left G [X] e it = Ok X /\ average_frechet_right G [X] e it = Ok X.
Proof. exact (avg_single G X e it eps). Qed.
Theorem C16_budget (G : GroupOps RS) fuel pts avg w e : exists n, (n <= fuel)%nat /\ biinv_loop G fuel pts avg w e = biinv_iter G n pts avg w.
Proof. exact (biinv_budget G fuel pts avg w e). Qed.
Theorem C16_stationary_at_exit (G : GroupOps RS) fuel pts avg w e :
  let m := biinv_loop G fuel pts avg w e in
  @sqnorm RS (mean_tangent G pts m w) < e \/ m = biinv_iter G fuel pts avg w.
Proof. exact (biinv_post G fuel pts avg w e). Qed.
Print Assumptions C16_stationary_at_exit.

Theorem C16_left_equivariant G (E : ExpLogCore G) (Hadd : forall a b, el_twf G E a -> el_twf G E b -> el_twf G E (@vadd RS a b)) (Hz : el_twf G E (@vzero RS (g_dof G))) g pts e it :
  gc_valid (el_core G E) g -> Forall (gc_valid (el_core G E)) pts ->
  average_biinvariant G (map (g_compose G g) pts) e it = rmap (g_compose G g) (average_biinvariant G pts e it).
Proof. exact (average_biinvariant_left_equivariant G E Hadd Hz g pts e it). Qed.
Theorem C16_valid G (E : ExpLogCore G) (Hadd : forall a b, el_twf G E a -> el_twf G E b -> el_twf G E (@vadd RS a b)) (Hz : el_twf G E (@vzero RS (g_dof G))) fuel pts avg w e :
  Forall (gc_valid (el_core G E)) pts -> gc_valid (el_core G E) avg -> gc_valid (el_core G E) (biinv_loop G fuel pts avg w e).
Proof. exact (biinv_valid G E Hadd Hz fuel pts avg w e). Qed.

Theorem C16_SE2_left_equivariant eps g pts e it : 0 < eps -> eps <= 1 -> se2_valid g -> Forall se2_valid pts ->
  average_biinvariant (SE2 RS eps) (map (g_compose (SE2 RS eps) g) pts) e it = rmap (g_compose (SE2 RS eps) g) (average_biinvariant (SE2 RS eps) pts e it).
Proof. intros H1 H2. exact (se2_average_left_equivariant eps H1 H2 g pts e it). Qed.
Theorem C16_SO2_left_equivariant eps g pts e it : 0 < eps -> so2_valid g -> Forall so2_valid pts ->
  average_biinvariant (SO2 RS eps) (map (g_compose (SO2 RS eps) g) pts) e it = rmap (g_compose (SO2 RS eps) g) (average_biinvariant (SO2 RS eps) pts e it).
Proof. intros H1. exact (so2_average_left_equivariant eps H1 g pts e it). Qed.
Theorem C16_SE2_identical eps X n e it : 0 < eps -> eps <= 1 -> se2_valid X -> 0 < e ->
  average_biinvariant (SE2 RS eps) (repeat X (S (S n))) e (S it) = Ok X.
Proof. intros H1 H2. exact (se2_average_identical eps H1 H2 X n e it). Qed.
Theorem C16_SO2_identical eps X n e it : 0 < eps -> so2_valid X -> 0 < e ->
  average_biinvariant (SO2 RS eps) (repeat X (S (S n))) e (S it) = Ok X.
Proof. intros H1. exact (so2_average_identical eps H1 X n e it). Qed.
Theorem C16_SE2_valid eps fuel pts avg w e : 0 < eps -> eps <= 1 -> Forall se2_valid pts -> se2_valid avg ->
  se2_valid (biinv_loop (SE2 RS eps) fuel pts avg w e).
Proof. intros H1 H2. exact (se2_average_valid eps H1 H2 fuel pts avg w e). Qed.
Print Assumptions C16_SE2_left_equivariant.

Example C16_nonvacuous : Forall se2_valid [[7; -2; 3/5; 4/5]; [0; 1; 1; 0]] /\ se2_valid [1; 1; 0; -1].
Proof.
  split; [repeat constructor|].
  - exists 7, (-2), (3/5), (4/5); split; [reflexivity|lra].
  - exists 0, 1, 1, 0; split; [reflexivity|lra].
  - exists 1, 1, 0, (-1); split; [reflexivity|lra].
Qed.

(* Rn, any dimension: the bi-invariant mean of N >= 2 points is the first point when that is already within the stopping
   tolerance of the arithmetic mean (1/N) sum_i X_i, and the arithmetic mean otherwise (at most one update; the budget of two
   iterations suffices for every input); so the returned m satisfies |mean - m|^2 < e, where mean - m IS the residual
   (1/N) sum_i log(m^-1 X_i).  The arithmetic mean does not depend on the order of the points and commutes with translation of all
   points (left and right translation coincide on the commutative group). *)
From Coq Require Import Permutation.
From Manif Require Import Rn AvgRn.
Theorem C16_Rn_biinvariant_is_mean n p q pts e it : pts_ok n (p :: q :: pts) -> 0 < e ->
  average_biinvariant (Rn RS n) (p :: q :: pts) e (S (S it)) =
  Ok (if Rltb (@sqnorm RS (@vadd RS (amean n (p :: q :: pts)) (@vneg RS p))) e then p else amean n (p :: q :: pts)).
Proof. exact (average_biinvariant_rn n p q pts e it). Qed.
Theorem C16_Rn_stationary n p q pts e it : pts_ok n (p :: q :: pts) -> 0 < e ->
  exists m, average_biinvariant (Rn RS n) (p :: q :: pts) e (S (S it)) = Ok m /\ @sqnorm RS (@vadd RS (amean n (p :: q :: pts)) (@vneg RS m)) < e.
Proof. exact (average_biinvariant_rn_stationary n p q pts e it). Qed.
Theorem C16_Rn_order_independent n pts pts' : Permutation pts pts' -> pts_ok n pts -> amean n pts = amean n pts'.
Proof. exact (amean_order_independent n pts pts'). Qed.
Theorem C16_Rn_translation_equivariant n g pts : length g = n -> pts_ok n pts -> pts <> [] ->
  amean n (map (g_compose (Rn RS n) g) pts) = g_compose (Rn RS n) g (amean n pts).
Proof. exact (amean_translate n g pts). Qed.
Print Assumptions C16_Rn_biinvariant_is_mean.
