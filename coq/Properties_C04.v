(* Properties_C04.v — property C04: plus / minus / between are the documented compositions and
   every alias agrees with its canonical member.
   On the model the derived operations are *defined* as LieGroupBase defines them, so the first
   group of theorems is by computation; their content is that the code is compared, entry point by
   entry point (every row of Api.v is executed on the implementation on every run), against these
   definitions.  C04_alias_* state that every spelling of the alias table denotes one of the
   canonical members and which one. *)
From Coq Require Import Reals ZArith List Lra.
From Manif Require Import Scalar Mat Group RInst Generic Api Run.
Import ListNotations.
Local Open Scope R_scope.

Section AnyGroup.
Variable F : Sc.
Variable G : GroupOps F.

(* values *)
Theorem C04_rplus X t ja jb : fst (fst (rplus G X t ja jb)) = g_compose G X (g_exp G t).
Proof. reflexivity. Qed.
Theorem C04_lplus X t ja jb : fst (fst (lplus G X t ja jb)) = g_compose G (g_exp G t) X.
Proof. reflexivity. Qed.
Theorem C04_rminus X Y ja jb : fst (fst (rminus G X Y ja jb)) = g_log G (g_compose G (g_inverse G Y) X).
Proof. reflexivity. Qed.
Theorem C04_lminus X Y ja jb : fst (fst (lminus G X Y ja jb)) = g_log G (g_compose G X (g_inverse G Y)).
Proof. unfold lminus. destruct ja, jb; reflexivity. Qed.
Theorem C04_between X Y ja jb : fst (fst (between G X Y ja jb)) = g_compose G (g_inverse G X) Y.
Proof. reflexivity. Qed.
Theorem C04_plus_is_rplus X t ja jb : plus G X t ja jb = rplus G X t ja jb.
Proof. reflexivity. Qed.
Theorem C04_minus_is_rminus X Y ja jb : minus G X Y ja jb = rminus G X Y ja jb.
Proof. reflexivity. Qed.

(* every alias spelling denotes the canonical member the README documents *)
Theorem C04_alias_gt k c : alias_gt k = Some c ->
  (In k [0; 1; 2; 3; 4; 8; 10]%Z /\ c = CRplus) \/ (In k [5; 6; 7; 9; 11]%Z /\ c = CLplus).
Proof.
  unfold alias_gt. intros H.
  destruct k as [|p|p]; try discriminate;
  repeat (destruct p as [p|p|]; try discriminate);
  injection H as <-; cbn; intuition auto.
Qed.
Theorem C04_alias_gg k c : alias_gg k = Some c ->
  (In k [0; 1; 2; 4]%Z /\ c = CRminus) \/ (k = 3%Z /\ c = CLminus) \/
  (In k [5; 6; 7]%Z /\ c = CCompose) \/ (k = 8%Z /\ c = CBetween).
Proof.
  unfold alias_gg. intros H.
  destruct k as [|p|p]; try discriminate;
  repeat (destruct p as [p|p|]; try discriminate);
  injection H as <-; cbn; intuition auto.
Qed.

(* the value of an alias never depends on which Jacobians are requested with it *)
Theorem C04_alias_value c X a ja jb : fst (fst (sem2 G c X a ja jb)) = fst (fst (sem2 G c X a false false)).
Proof. destruct c; cbn; try reflexivity. unfold lminus. destruct ja, jb; reflexivity. Qed.
End AnyGroup.
Print Assumptions C04_alias_value.

(* what the executable entry point runs for an alias index is the canonical semantic function *)
Theorem C04_run_alias_gt (F : Sc) eps g k c mask args : alias_gt k = Some c ->
  @run_op F eps g OAliasGT mask k args =
  Ok (out2 F (sem2 (group_of eps g) c (arg F args 0) (arg F args 1) (bit mask 0) (bit mask 1))).
Proof. intros H. unfold run_op. rewrite H. reflexivity. Qed.
Print Assumptions C04_run_alias_gt.
