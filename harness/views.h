// views.h — operations through Eigen::Map views over a user buffer with guard zones (property C10). Same ids as coq/Views.v.
// args: [0] the whole buffer (guard zones included), [1] unused, [2] Y (owning), [3] t (tangent), [4] [unused, value];
// iarg = off + 1000*off2 + 10^6*k + 10^9*id
// mask "1": Map<const G> (read-only operations), otherwise Map<G>.  Output: the results, then the whole buffer afterwards.
#pragma once
#include "run.h"
template<class G> static bool run_view(const Case& c, Out<typename G::Scalar>& o){
  using S = typename G::Scalar; using T = typename G::Tangent; using DG = typename G::DataType; using DT = typename T::DataType;
  using Buf = Eigen::Matrix<S, Eigen::Dynamic, 1>;
  Buf buf = vec_from<S,Buf>(c.args[0]); const long long code = std::stoll(c.iarg);
  const int off = (int)(code % 1000), off2 = (int)((code / 1000) % 1000);
  G Y(vec_from<S,DG>(c.args[2])); T t(vec_from<S,DT>(c.args[3]));
  const int k = (int)((code / 1000000) % 1000); const S val = ScalarIO<S>::parse(c.args[4][1]);
  const int id = (int)(code / 1000000000LL); const bool cst = c.m(0);
  S* p = buf.data() + off; S* p2 = buf.data() + off2;
  if(id < 10 || id == 20){
    // read-only operations through Map<const G> or Map<G>
#define VIEW_READ(M) switch(id){ \
      case 0: o.mat(M.inverse().coeffs()); break; case 1: o.mat(M.log().coeffs()); break; \
      case 2: o.mat(M.compose(Y).coeffs()); break; case 3: o.mat(Y.compose(M).coeffs()); break; \
      case 4: o.mat(M.rplus(t).coeffs()); break; case 5: o.mat(M.between(Y).coeffs()); break; \
      case 6: o.mat(M.adj()); break; case 8: o.mat(M.rminus(Y).coeffs()); break; case 9: o.mat(M.transform()); break; \
      case 20: { G Z = M; o.mat(Z.coeffs()); } break; default: return false; }
    if(cst){ Eigen::Map<const G> M(p); VIEW_READ(M) } else { Eigen::Map<G> M(p); VIEW_READ(M) }
#undef VIEW_READ
  } else if(id < 30){
    Eigen::Map<G> M(p);
    switch(id){
      case 10: M = Y; break;
      case 11: M.setIdentity(); break;
      case 12: M += t; break;
      case 13: M *= Y; break;
      case 14: GroupRunner<G>::try_normalize(M, o, 0); o.outs.clear(); break;
      case 15: M.coeffs()(k) = val; break;
      case 16: M = M.inverse(); break;
      case 17: { Eigen::Map<G> M2(p2); M = M2; } break;
      case 18: { Eigen::Map<G> M2(p2); M = std::move(M2); } break;
      case 19: { Eigen::Map<const G> M2(p2); M = M2; } break;
      case 21: { Eigen::Map<const G> M2(p2); M = M.compose(M2); } break;
      case 22: { G Z(Y); M = std::move(Z); } break;
      default: return false; }
  } else {
    switch(id){
      case 30: { if(cst){ Eigen::Map<const T> Mt(p); o.mat(Mt.exp().coeffs()); } else { Eigen::Map<T> Mt(p); o.mat(Mt.exp().coeffs()); } } break;
      case 31: { Eigen::Map<T> Mt(p); Mt += t; } break;
      case 32: { Eigen::Map<T> Mt(p); Mt.setZero(); } break;
      case 33: { Eigen::Map<T> Mt(p); Mt = t; } break;
      case 34: { Eigen::Map<T> Mt(p); Eigen::Map<const T> M2(p2); Mt = M2; } break;
      case 35: { Eigen::Map<const T> Mt(p); o.mat(Mt.hat()); } break;
      case 36: { Eigen::Map<T> Mt(p); Mt *= val; } break;
      default: return false; }
  }
  o.mat(buf);
  return true;
}
