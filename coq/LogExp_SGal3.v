(* LogExp_SGal3.v — property C03 for SGal(3): log(exp t) = t for every tangent with rotation angle below pi, and
   exp(log X) = X up to the sign of the quaternion, on the generic branches.  Rotation: LogExp_SO3 / Log_SO3; velocity and
   position: V^-1 V = I = V V^-1 (JacInv_SO3) and the E (tau nu) term cancels because the same E is used by exp and log. *)
From Coq Require Import Reals ZArith List Lra Psatz.
From Manif Require Import Scalar Mat Consts Group RInst Tac Atan2 SO3 SE3 SGal3 Generic LieSpec SO3Proofs Log_SO3 JacInv_SO3 Log_SE3 LogExp_SO3 LogExp_SE3 Log_SE23.
Import ListNotations.
Local Open Scope R_scope.

Lemma vsub_vadd3 a0 a1 a2 b0 b1 b2 : @vsub RS (@vadd RS [a0; a1; a2] [b0; b1; b2]) [b0; b1; b2] = [a0; a1; a2].
Proof. mat_unfold. match goal with |- @eq _ ?u ?v => change (@eq (list R) u v) end. list_eq; ring. Qed.
Lemma vadd_vsub3 a0 a1 a2 b0 b1 b2 : @vadd RS (@vsub RS [a0; a1; a2] [b0; b1; b2]) [b0; b1; b2] = [a0; a1; a2].
Proof. mat_unfold. match goal with |- @eq _ ?u ?v => change (@eq (list R) u v) end. list_eq; ring. Qed.
Lemma mvmul3_shape (M : list (list R)) (v : list R) :
  (exists a1 a2 a3 a4 a5 a6 a7 a8 a9, M = [[a1; a2; a3]; [a4; a5; a6]; [a7; a8; a9]]) -> exists p0 p1 p2 : R, @mvmul RS M v = [p0; p1; p2].
Proof. intros (a1 & a2 & a3 & a4 & a5 & a6 & a7 & a8 & a9 & ->). unfold mvmul. cbn [map]. do 3 eexists. reflexivity. Qed.

Section P.
Variable eps : R.
Hypothesis eps_pos : 0 < eps.

Lemma fillE_shape x y z : exists a1 a2 a3 a4 a5 a6 a7 a8 a9, fillE RS eps [x; y; z] = [[a1; a2; a3]; [a4; a5; a6]; [a7; a8; a9]].
Proof. unfold fillE. destruct (kltb RS _ _); unfold SGal3.I33; mat_unfold; do 9 eexists; reflexivity. Qed.

Theorem sg_log_exp_generic a b c d e f x y z tau :
  let n := x * x + y * y + z * z in let th := sqrt n in
  eps < n -> th < PI -> eps < sin (th / 2) * sin (th / 2) ->
  sg_log RS eps (sg_exp RS eps [a; b; c; d; e; f; x; y; z; tau]) = [a; b; c; d; e; f; x; y; z; tau].
Proof.
  cbv zeta. intros Hgt Hpi Hsin.
  pose proof (so3_log_exp_generic eps eps_pos x y z Hgt Hpi Hsin) as HL.
  set (n := x * x + y * y + z * z) in *. set (th := sqrt n) in *.
  assert (Hn : 0 < n) by lra. assert (Hth : 0 < th) by (apply sqrt_lt_R0; exact Hn).
  assert (HS : sin th <> 0) by (apply Rgt_not_eq; apply sin_gt_0; lra).
  destruct (so3_ljac_ljacinv eps eps_pos x y z Hgt HS) as [_ Hinv].
  assert (HA : exists a1 a2 a3 a4 a5 a6 a7 a8 a9, so3_ljacinv RS eps [x; y; z] = [[a1; a2; a3]; [a4; a5; a6]; [a7; a8; a9]])
    by (rewrite (so3_ljacinv_poly eps x y z Hgt); cbv zeta; unfold poly3; mat_unfold; do 9 eexists; reflexivity).
  assert (HB : exists a1 a2 a3 a4 a5 a6 a7 a8 a9, so3_ljac RS eps [x; y; z] = [[a1; a2; a3]; [a4; a5; a6]; [a7; a8; a9]])
    by (rewrite (so3_ljac_poly eps x y z Hgt); cbv zeta; unfold poly3; mat_unfold; do 9 eexists; reflexivity).
  unfold sg_exp, sgt_ang, sgt_lin, sgt_lin2, sgt_t. cbv zeta. cbn [vslice skipn firstn vnth nth]. cbn [K RS].
  assert (Hq : exists q0 q1 q2 q3, so3_exp RS eps [x; y; z] = [q0; q1; q2; q3]).
  { unfold so3_exp. destruct (kgtb _ _); [|do 4 eexists; reflexivity].
    unfold quat_of_angle_axis, eigen_normalized. destruct (kgtb _ _); do 4 eexists; reflexivity. }
  destruct Hq as (q0 & q1 & q2 & q3 & Eq). rewrite Eq in HL |- *.
  destruct (mvmul3_shape _ [a; b; c] HB) as (p0 & p1 & p2 & Ep).
  destruct (mvmul3_shape _ [d; e; f] HB) as (v0 & v1 & v2 & Ev).
  destruct (mvmul3_shape _ (@vscale RS tau [d; e; f]) (fillE_shape x y z)) as (e0 & e1 & e2 & Ee).
  cbn [K RS] in *. rewrite Ep, Ev, Ee. cbn [vadd vmap2].
  unfold sg_log, sg_q, sg_p, sg_v, sg_t. cbv zeta. cbn [app vslice skipn firstn vnth nth]. cbn [K RS] in *. rewrite HL.
  rewrite <- Ev. rewrite mvmul_mmul3 by (first [exact HA | exact HB | do 3 eexists; reflexivity]). rewrite Hinv, mid3_mvmul.
  cbn [K RS] in *. rewrite Ee. cbn [kadd RS].
  change [p0 + e0; p1 + e1; p2 + e2] with (@vadd RS [p0; p1; p2] [e0; e1; e2]). rewrite vsub_vadd3. cbn [K RS] in *. rewrite <- Ep.
  rewrite mvmul_mmul3 by (first [exact HA | exact HB | do 3 eexists; reflexivity]). rewrite Hinv, mid3_mvmul. reflexivity.
Qed.

Theorem sg_exp_log_generic px py pz x y z w vx vy vz t : n4 x y z w = 1 -> eps < x * x + y * y + z * z -> w <> 0 ->
  sg_exp RS eps (sg_log RS eps [px; py; pz; x; y; z; w; vx; vy; vz; t]) =
  [px; py; pz] ++ (if Rlt_dec w 0 then [- x; - y; - z; - w] else [x; y; z; w]) ++ [vx; vy; vz; t].
Proof.
  intros Hn Hs2 Hw. destruct (so3_log_round eps eps_pos x y z w Hn Hs2 Hw) as (a & b & c & Hl & Hbig & HJ & He).
  cbn [K RS] in *.
  assert (HA : exists a1 a2 a3 a4 a5 a6 a7 a8 a9, so3_ljacinv RS eps [a; b; c] = [[a1; a2; a3]; [a4; a5; a6]; [a7; a8; a9]])
    by (rewrite (so3_ljacinv_poly eps a b c Hbig); cbv zeta; unfold poly3; mat_unfold; do 9 eexists; reflexivity).
  assert (HB : exists a1 a2 a3 a4 a5 a6 a7 a8 a9, so3_ljac RS eps [a; b; c] = [[a1; a2; a3]; [a4; a5; a6]; [a7; a8; a9]])
    by (rewrite (so3_ljac_poly eps a b c Hbig); cbv zeta; unfold poly3; mat_unfold; do 9 eexists; reflexivity).
  unfold sg_log, sg_q, sg_p, sg_v, sg_t. cbv zeta. cbn [vslice skipn firstn vnth nth]. cbn [K RS]. rewrite Hl.
  destruct (mvmul3_shape _ [vx; vy; vz] HA) as (n0 & n1 & n2 & En). cbn [K RS] in *. rewrite En. cbn [vscale map].
  destruct (mvmul3_shape _ [t * n0; t * n1; t * n2] (fillE_shape a b c)) as (e0 & e1 & e2 & Ee). cbn [K RS kmul] in *. rewrite Ee.
  cbn [vsub vmap2]. cbn [ksub RS].
  destruct (mvmul3_shape _ [px - e0; py - e1; pz - e2] HA) as (r0 & r1 & r2 & Er). cbn [K RS] in *. rewrite Er.
  unfold sg_exp, sgt_ang, sgt_lin, sgt_lin2, sgt_t. cbv zeta. cbn [app vslice skipn firstn vnth nth]. cbn [K RS]. rewrite He.
  cbn [vscale map]. cbn [K RS kmul]. rewrite Ee.
  rewrite <- Er, <- En. rewrite !mvmul_mmul3 by (first [exact HA | exact HB | do 3 eexists; reflexivity]). rewrite HJ, !mid3_mvmul.
  change [px - e0; py - e1; pz - e2] with (@vsub RS [px; py; pz] [e0; e1; e2]). rewrite vadd_vsub3.
  destruct (Rlt_dec w 0); reflexivity.
Qed.
End P.
