(* AvgProofs.v — property C16 over the reals, for the model of algorithms/average.h (Algorithms.v):
   empty / single / identical inputs, the stopping test as a post-condition (stationarity up to the tolerance when
   the loop exits through its test), the iteration budget, and left-equivariance of the bi-invariant mean (every
   iterate and every stopping decision), for any group record with ExpLogCore whose tangents are closed under
   addition.  Convergence within the budget for clouds of moderate radius on the non-commutative groups is NOT
   proved (it needs a contraction estimate); it is evaluated on the implementation. *)
From Coq Require Import Reals ZArith List Lra Bool.
From Manif Require Import Scalar Mat Consts Group RInst Tac Generic LieSpec Algorithms InterpProofs Approx.
Import ListNotations.
Local Open Scope R_scope.

Section Avg.
Variable G : GroupOps RS.

(* the mean tangent at m: (1/N) sum_i (X_i (-) m) *)
Definition mean_tangent (pts : list (list R)) (m : list R) (w : R) : list R :=
  @vscale_r RS (fold_left (fun acc p => @vadd RS acc (rminus_v G p m)) pts (@vzero RS (g_dof G))) w.

(* the iterates without the stopping test *)
Fixpoint biinv_iter (n : nat) (pts : list (list R)) (avg : list R) (w : R) : list R :=
  match n with O => avg | S n' => biinv_iter n' pts (rplus_v G avg (mean_tangent pts avg w)) w end.

Lemma biinv_loop_unfold fuel pts avg w e :
  biinv_loop G (S fuel) pts avg w e =
  if Rltb (@sqnorm RS (mean_tangent pts avg w)) e then avg
  else biinv_loop G fuel pts (rplus_v G avg (mean_tangent pts avg w)) w e.
Proof. reflexivity. Qed.

(* empty set raises; a single point is returned; at most max_iterations updates *)
Theorem avg_empty e it eps : average_biinvariant G [] e it = RuntimeError /\ average_weighted G eps [] it = RuntimeError /\
  average_frechet_left G [] e it = RuntimeError /\ average_frechet_right G [] e it = RuntimeError.
Proof. repeat split. Qed.
Theorem avg_single X e it eps : average_biinvariant G [X] e it = Ok X /\ average_weighted G eps [X] it = Ok X /\
  average_frechet_left G [X] e it = Ok X /\ average_frechet_right G [X] e it = Ok X.
Proof. repeat split. Qed.

(* exit through the stopping test => the residual mean tangent at the returned element is below the tolerance;
   otherwise the budget was used up and the result is the max_iterations-th iterate *)
Theorem biinv_post fuel pts avg w e :
  let m := biinv_loop G fuel pts avg w e in
  @sqnorm RS (mean_tangent pts m w) < e \/ m = biinv_iter fuel pts avg w.
Proof.
  revert avg. induction fuel as [|fuel IH]; intros avg; cbv zeta.
  - right. reflexivity.
  - rewrite biinv_loop_unfold. destruct (Rltb _ e) eqn:Et.
    + left. apply Rltb_true in Et. exact Et.
    + cbn [biinv_iter]. apply IH.
Qed.
(* the loop performs at most `fuel` updates: its result is one of the first fuel+1 iterates *)
Theorem biinv_budget fuel pts avg w e : exists n, (n <= fuel)%nat /\ biinv_loop G fuel pts avg w e = biinv_iter n pts avg w.
Proof.
  revert avg. induction fuel as [|fuel IH]; intros avg.
  - exists 0%nat. split; [apply le_n|reflexivity].
  - rewrite biinv_loop_unfold. destruct (Rltb _ e).
    + exists 0%nat. split; [apply Nat.le_0_l|reflexivity].
    + destruct (IH (rplus_v G avg (mean_tangent pts avg w))) as (n & Hn & E). exists (S n). split; [apply le_n_S; exact Hn|exact E].
Qed.

Variable E : ExpLogCore G.
Local Notation C := (el_core G E).
Local Notation valid := (gc_valid C).
Local Notation twf := (el_twf G E).
Hypothesis twf_add : forall a b, twf a -> twf b -> twf (@vadd RS a b).
Hypothesis twf_zero : twf (@vzero RS (g_dof G)).

Lemma sum_twf pts m acc : Forall valid pts -> valid m -> twf acc ->
  twf (fold_left (fun acc p => @vadd RS acc (rminus_v G p m)) pts acc).
Proof.
  intros Hp Hm. revert acc. induction Hp as [|p pts Hp Hps IH]; intros acc Ha; cbn [fold_left]; [exact Ha|].
  apply IH. apply twf_add; [exact Ha|apply (rminus_twf G E); assumption].
Qed.
Lemma mean_twf pts m w : Forall valid pts -> valid m -> twf (mean_tangent pts m w).
Proof. intros Hp Hm. unfold mean_tangent. apply (el_scale_twf G E). apply sum_twf; assumption. Qed.

(* X_i (-) m is unchanged when every point and m are translated on the left *)
Lemma rminus_left g p m : valid g -> valid p -> valid m ->
  rminus_v G (g_compose G g p) (g_compose G g m) = rminus_v G p m.
Proof. intros Hg Hp Hm. unfold rminus_v. f_equal. apply (rel_left_invariant G E); assumption. Qed.

Lemma sum_left g pts m acc : valid g -> Forall valid pts -> valid m ->
  fold_left (fun acc p => @vadd RS acc (rminus_v G p (g_compose G g m))) (map (g_compose G g) pts) acc =
  fold_left (fun acc p => @vadd RS acc (rminus_v G p m)) pts acc.
Proof.
  intros Hg Hp Hm. revert acc. induction Hp as [|p pts Hp Hps IH]; intros acc; cbn [map fold_left]; [reflexivity|].
  rewrite rminus_left by assumption. apply IH.
Qed.

(* left-equivariance of the bi-invariant mean: same stopping decisions, translated iterates *)
Theorem biinv_left_equivariant fuel g pts avg w e : valid g -> Forall valid pts -> valid avg ->
  biinv_loop G fuel (map (g_compose G g) pts) (g_compose G g avg) w e = g_compose G g (biinv_loop G fuel pts avg w e).
Proof.
  intros Hg Hp. revert avg. induction fuel as [|fuel IH]; intros avg Ha; [reflexivity|].
  rewrite !biinv_loop_unfold.
  assert (Em : mean_tangent (map (g_compose G g) pts) (g_compose G g avg) w = mean_tangent pts avg w).
  { unfold mean_tangent. rewrite sum_left by assumption. reflexivity. }
  rewrite Em. destruct (Rltb _ e); [reflexivity|].
  assert (Hts : twf (mean_tangent pts avg w)) by (apply mean_twf; assumption).
  assert (Er : rplus_v G (g_compose G g avg) (mean_tangent pts avg w) = g_compose G g (rplus_v G avg (mean_tangent pts avg w))).
  { unfold rplus_v. apply (gc_assoc G C); try assumption. apply (el_exp_valid G E). exact Hts. }
  rewrite Er. apply IH. apply (rplus_valid G E); assumption.
Qed.

Theorem average_biinvariant_left_equivariant g pts e it : valid g -> Forall valid pts ->
  average_biinvariant G (map (g_compose G g) pts) e it = rmap (g_compose G g) (average_biinvariant G pts e it).
Proof.
  intros Hg Hp. unfold average_biinvariant. destruct pts as [|p [|q pts]]; try reflexivity.
  cbn [map rmap rbind]. f_equal.
  replace (length (g_compose G g p :: g_compose G g q :: map (g_compose G g) pts)) with (length (p :: q :: pts)) by (cbn [length]; rewrite map_length; reflexivity).
  change (g_compose G g p :: g_compose G g q :: map (g_compose G g) pts) with (map (g_compose G g) (p :: q :: pts)).
  apply biinv_left_equivariant; [exact Hg|exact Hp|]. inversion Hp; assumption.
Qed.

(* the result is a valid element (every iterate is) *)
Theorem biinv_valid fuel pts avg w e : Forall valid pts -> valid avg -> valid (biinv_loop G fuel pts avg w e).
Proof.
  intros Hp. revert avg. induction fuel as [|fuel IH]; intros avg Ha; [exact Ha|].
  rewrite biinv_loop_unfold. destruct (Rltb _ e); [exact Ha|]. apply IH. apply (rplus_valid G E); [exact Ha|apply mean_twf; assumption].
Qed.

(* identical points: the mean tangent vanishes and the point itself is returned at the first test *)
Hypothesis log_identity : g_log G (g_identity G) = @vzero RS (g_dof G).
Hypothesis vadd_zero : @vadd RS (@vzero RS (g_dof G)) (@vzero RS (g_dof G)) = @vzero RS (g_dof G).
Hypothesis scale_zero : forall w, @vscale_r RS (@vzero RS (g_dof G)) w = @vzero RS (g_dof G).

Lemma sum_identical X n : valid X ->
  fold_left (fun acc p => @vadd RS acc (rminus_v G p X)) (repeat X n) (@vzero RS (g_dof G)) = @vzero RS (g_dof G).
Proof.
  intros HX. induction n as [|n IH]; cbn [repeat fold_left]; [reflexivity|].
  unfold rminus_v at 2. rewrite (gc_inv_l G C) by exact HX. rewrite log_identity, vadd_zero. exact IH.
Qed.

Theorem average_identical X n e it : valid X -> 0 < e -> average_biinvariant G (repeat X (S (S n))) e (S it) = Ok X.
Proof.
  intros HX He. cbn [repeat average_biinvariant]. f_equal. rewrite biinv_loop_unfold.
  assert (Em : forall w, mean_tangent (X :: X :: repeat X n) X w = @vzero RS (g_dof G)).
  { intros w. unfold mean_tangent. change (X :: X :: repeat X n) with (repeat X (S (S n))). rewrite sum_identical by exact HX. apply scale_zero. }
  rewrite (Em _), sqnorm_vzero. rewrite (Rltb_lt_true 0 e) by exact He. reflexivity.
Qed.
End Avg.
