(* Rn.v — model of impl/rn/Rn_base.h, RnTangent_base.h for any dimension n. *)
From Coq Require Import ZArith List Bool.
Import ListNotations.
From Manif Require Import Scalar Mat Consts Group.

Section Rn.
Variable F : Sc.
Variable n : nat.
Local Notation "0" := (k0 F) : k_scope.
Local Open Scope k_scope.

Definition rn_transform (c : list (K F)) : list (list (K F)) :=
  mset_block (mid (S n)) 0 n (colvec c).
Definition rn_inverse (c : list (K F)) : list (K F) := vneg c.
Definition rn_inverse_J (c : list (K F)) : list (list (K F)) := mscale_r (mid n) (kz (-1)).
Definition rn_log (c : list (K F)) : list (K F) := c.
Definition rn_id (c : list (K F)) : list (list (K F)) := mid n.
Definition rn_id2 (a b : list (K F)) : list (list (K F)) := mid n.
Definition rn_compose (a b : list (K F)) : list (K F) := vadd a b.
Definition rn_act (c v : list (K F)) : list (K F) := vadd c v.
Definition rn_exp (t : list (K F)) : list (K F) := t.
Definition rn_hat (t : list (K F)) : list (list (K F)) :=
  mset_block (mzero (S n) (S n)) 0 n (colvec t).
Definition rn_zero (t : list (K F)) : list (list (K F)) := mzero n n.
Definition rn_generator (i : Z) : res (list (list (K F))) :=
  let u := to_unsigned32 i in
  if Z.ltb u (Z.of_nat n)
  then Ok (mset_block (mzero (S n) (S n)) (Z.to_nat u) n [[kz 1]])
  else InvalidArgument.
Definition rn_vee (m : list (list (K F))) : list (K F) := col (mblock m 0 n n 1) 0.

Definition Rn : GroupOps F := {|
  g_dim := n; g_dof := n; g_rep := n; g_tra := S n; g_alg := S n; g_actdim := n;
  g_inverse := rn_inverse; g_inverse_J := rn_inverse_J;
  g_log := rn_log; g_log_J := rn_id;
  g_compose := rn_compose; g_compose_Ja := rn_id2; g_compose_Jb := rn_id2;
  g_act := rn_act; g_act_Jm := rn_id2; g_act_Jv := rn_id2;
  g_adj := rn_id; g_transform := rn_transform; g_rotation := fun _ => mid n;
  g_translation := fun c => c; g_normalize := fun c => c; g_assert_ok := fun _ => true;
  g_exp := rn_exp; g_exp_J := rn_id; g_hat := rn_hat;
  g_rjac := rn_id; g_ljac := rn_id; g_rjacinv := rn_id; g_ljacinv := rn_id;
  g_smallAdj := rn_zero; g_generator := rn_generator; g_vee := rn_vee;
  g_bracket := fun _ _ => vzero n;
  g_innerweights := inner_weights_generic n (S n) rn_generator;
  g_trandom := fun u => u;
  g_grandom := fun u => rn_exp u
|}.
End Rn.
