(* CtorProofs.v — property C13 over the reals: validation at construction (reject / accept / NDEBUG), the
   constructors from an angle, a complex number, a quaternion, an angle-axis pair and roll-pitch-yaw produce the
   element whose accessors return the supplied quantities, rotation() is orthonormal with determinant +1,
   normalize() makes non-degenerate data acceptable, cast<>() of a valid element is the element. *)
From Coq Require Import Reals ZArith List Lra Bool.
From Manif Require Import Scalar Mat Consts Group RInst Tac Generic LieSpec Atan2 SO2 SE2 SO3 SE3 Rn Ctor Hist
  SE2Proofs SO3Proofs HistProofs HistInst.
Import ListNotations.
Local Open Scope R_scope.

(* ---- validation ---- *)
Theorem checked_ndebug (G : GroupOps RS) c : checked G false c = Ok c.
Proof. reflexivity. Qed.
Theorem checked_accept (G : GroupOps RS) c : g_assert_ok G c = true -> checked G true c = Ok c.
Proof. intros H. unfold checked. rewrite H. reflexivity. Qed.
Theorem checked_reject (G : GroupOps RS) c : g_assert_ok G c = false -> checked G true c = InvalidArgument.
Proof. intros H. unfold checked. rewrite H. reflexivity. Qed.

Ltac meq := match goal with |- @eq _ ?u ?v => change (@eq (list (list R)) u v) end; list_eq.
Ltac veq := match goal with |- @eq _ ?u ?v => change (@eq (list R) u v) end; list_eq.

Section P.
Variable eps : R.
Hypothesis eps_pos : 0 < eps.

Lemma kabs_lt (x : R) : Rltb (if Rltb x 0 then - x else x) eps = true <-> Rabs x < eps.
Proof.
  rewrite Rltb_true. unfold Rabs. destruct (Rcase_abs x), (Rltb x 0) eqn:E; try apply Rltb_true in E; try apply Rltb_false in E; lra.
Qed.

(* what the assertion tests, spelled out: | |rotation part| - 1 | < eps *)
Theorem so2_assert_spec r i : so2_assert_ok RS eps [r; i] = true <-> Rabs (sqrt (r * r + i * i) - 1) < eps.
Proof.
  unfold so2_assert_ok, eigen_norm. mat_unfold. replace (r * r + (i * i + 0)) with (r * r + i * i) by ring. apply kabs_lt.
Qed.
Theorem so3_assert_spec x y z w : so3_assert_ok RS eps [x; y; z; w] = true <-> Rabs (sqrt (n4 x y z w) - 1) < eps.
Proof.
  unfold so3_assert_ok, eigen_norm. mat_unfold. replace (x * x + (y * y + (z * z + (w * w + 0)))) with (n4 x y z w) by (unfold n4; ring). apply kabs_lt.
Qed.
Theorem se2_assert_spec x y r i : se2_assert_ok RS eps [x; y; r; i] = true <-> Rabs (sqrt (r * r + i * i) - 1) < eps.
Proof. unfold se2_assert_ok. cbn [skipn]. apply so2_assert_spec. Qed.
Theorem se3_assert_spec tx ty tz x y z w : se3_assert_ok RS eps [tx; ty; tz; x; y; z; w] = true <-> Rabs (sqrt (n4 x y z w) - 1) < eps.
Proof. unfold se3_assert_ok. cbn [skipn]. apply so3_assert_spec. Qed.

(* rejected when the norm is off by eps or more, accepted when it is within eps; never rejected without assertions *)
Theorem so3_reject x y z w : eps <= Rabs (sqrt (n4 x y z w) - 1) -> checked (SO3 RS eps) true [x; y; z; w] = InvalidArgument.
Proof.
  intros H. apply checked_reject. cbn [g_assert_ok SO3]. destruct (so3_assert_ok RS eps [x; y; z; w]) eqn:E; [|reflexivity].
  apply so3_assert_spec in E. lra.
Qed.
Theorem so3_accept_ctor x y z w : Rabs (sqrt (n4 x y z w) - 1) < eps -> checked (SO3 RS eps) true [x; y; z; w] = Ok [x; y; z; w].
Proof. intros H. apply checked_accept. cbn [g_assert_ok SO3]. apply so3_assert_spec. exact H. Qed.
Theorem so2_reject r i : eps <= Rabs (sqrt (r * r + i * i) - 1) -> checked (SO2 RS eps) true [r; i] = InvalidArgument.
Proof.
  intros H. apply checked_reject. cbn [g_assert_ok SO2]. destruct (so2_assert_ok RS eps [r; i]) eqn:E; [|reflexivity].
  apply so2_assert_spec in E. lra.
Qed.
Theorem so2_accept_ctor r i : Rabs (sqrt (r * r + i * i) - 1) < eps -> checked (SO2 RS eps) true [r; i] = Ok [r; i].
Proof. intros H. apply checked_accept. cbn [g_assert_ok SO2]. apply so2_assert_spec. exact H. Qed.

(* ---- SO2 / SE2 from an angle ---- *)
Theorem so2_from_angle th : @so2_ctor RS 1 [[th]] = Some [cos th; sin th] /\ so2_valid [cos th; sin th] /\
  so2_rotation RS [cos th; sin th] = [[cos th; - sin th]; [sin th; cos th]].
Proof.
  assert (H : cos th * cos th + sin th * sin th = 1) by (replace (cos th * cos th + sin th * sin th) with ((sin th)² + (cos th)²) by (unfold Rsqr; ring); apply sin2_cos2).
  repeat split.
  - exists (cos th), (sin th). split; [reflexivity|exact H].
  - apply so2_rotation_valid. exact H.
Qed.
Theorem so2_angle_roundtrip th : - PI < th <= PI -> so2_angle RS [cos th; sin th] = th.
Proof. intros H. unfold so2_angle, so2_imag, so2_real. mat_unfold. apply atan2_sin_cos. exact H. Qed.
Theorem so2_from_complex r i : @so2_ctor RS 0 [[r; i]] = Some [r; i] /\ so2_real RS [r; i] = r /\ so2_imag RS [r; i] = i.
Proof. repeat split. Qed.
(* feeding angle() back reproduces the element *)
Theorem so2_angle_feedback X : so2_valid X -> @so2_ctor RS 1 [[so2_angle RS X]] = Some X.
Proof.
  intros (r & i & -> & H). unfold so2_ctor, a0, a, so2_angle, so2_real, so2_imag. mat_unfold.
  destruct (atan2_unit i r H) as [-> ->]. reflexivity.
Qed.
Theorem se2_from_angle_spec x y th : @se2_ctor RS 0 [[x; y; th]] = Some [x; y; cos th; sin th] /\ se2_valid [x; y; cos th; sin th] /\
  se2_translation RS [x; y; cos th; sin th] = [x; y].
Proof.
  repeat split. exists x, y, (cos th), (sin th). split; [reflexivity|].
  replace (cos th * cos th + sin th * sin th) with ((sin th)² + (cos th)²) by (unfold Rsqr; ring). apply sin2_cos2.
Qed.
(* from an isometry: the rotation matrix [[c, -s], [s, c]] gives back (c, s) *)
Theorem se2_from_isometry x y c s : c * c + s * s = 1 -> @se2_ctor RS 2 [[x; y]; [c; - s; s; c]] = Some [x; y; c; s].
Proof.
  intros H. unfold se2_ctor, a, se2_from_angle. mat_unfold. destruct (atan2_unit s c H) as [-> ->]. reflexivity.
Qed.

(* ---- SO3: rotation() of a valid element is orthonormal with determinant +1 ---- *)
Definition det3 (m : list (list R)) : R :=
  match m with
  | [[a; b; c]; [d; e; f]; [g; h; i]] => a * (e * i - f * h) - b * (d * i - f * g) + c * (d * h - e * g)
  | _ => 0
  end.
Theorem so3_rotation_orthonormal x y z w : n4 x y z w = 1 ->
  @mmul RS (so3_rotation RS [x; y; z; w]) (@mT RS (so3_rotation RS [x; y; z; w])) = @mid RS 3 /\
  det3 (so3_rotation RS [x; y; z; w]) = 1.
Proof.
  intros H. unfold so3_rotation. rewrite quat_matrix_unit by exact H. unfold rot_hom, det3. split.
  - mat_unfold. unfold n4 in H. meq.
    all: try (replace 1 with ((x * x + y * y + z * z + w * w) * (x * x + y * y + z * z + w * w)) by (rewrite H; ring); ring).
    all: ring.
  - unfold n4 in H. replace 1 with ((x * x + y * y + z * z + w * w) * (x * x + y * y + z * z + w * w) * (x * x + y * y + z * z + w * w)) by (rewrite H; ring). ring.
Qed.
Theorem so2_rotation_orthonormal r i : r * r + i * i = 1 ->
  @mmul RS (so2_rotation RS [r; i]) (@mT RS (so2_rotation RS [r; i])) = @mid RS 2.
Proof. intros H. rewrite so2_rotation_valid by exact H. mat_unfold. meq; try ring; rewrite <- H; ring. Qed.

(* ---- SO3 from an angle-axis pair with a unit axis: a valid element ---- *)
Theorem so3_from_angle_axis th ux uy uz : ux * ux + uy * uy + uz * uz = 1 ->
  exists x y z w, @so3_ctor RS 1 [[th]; [ux; uy; uz]] = Some [x; y; z; w] /\ n4 x y z w = 1.
Proof.
  intros H. unfold so3_ctor, so3_quat_ctor, aa_quat, quat_of_angle_axis, a0, a, c_half. mat_unfold.
  eexists _, _, _, _. split; [reflexivity|]. unfold n4. set (h := 1 / 2 * th).
  replace (sin h * ux * (sin h * ux) + sin h * uy * (sin h * uy) + sin h * uz * (sin h * uz) + cos h * cos h)
    with ((sin h)² * (ux * ux + uy * uy + uz * uz) + (cos h)²) by (unfold Rsqr; ring).
  rewrite H, Rmult_1_r. apply sin2_cos2.
Qed.

(* ---- roll-pitch-yaw: the element is valid and its rotation is Rz(yaw) * Ry(pitch) * Rx(roll), for ALL angles ---- *)
Definition Rx (a : R) : list (list R) := [[1; 0; 0]; [0; cos a; - sin a]; [0; sin a; cos a]].
Definition Ry (a : R) : list (list R) := [[cos a; 0; sin a]; [0; 1; 0]; [- sin a; 0; cos a]].
Definition Rz (a : R) : list (list R) := [[cos a; - sin a; 0]; [sin a; cos a; 0]; [0; 0; 1]].

Lemma half_cos a : cos (1 / 2 * a) * cos (1 / 2 * a) - sin (1 / 2 * a) * sin (1 / 2 * a) = cos a.
Proof. rewrite <- cos_2a. f_equal. field. Qed.
Lemma half_sin a : 2 * (sin (1 / 2 * a) * cos (1 / 2 * a)) = sin a.
Proof. replace (2 * (sin (1 / 2 * a) * cos (1 / 2 * a))) with (2 * sin (1 / 2 * a) * cos (1 / 2 * a)) by ring. rewrite <- sin_2a. f_equal. field. Qed.
Lemma half_one a : cos (1 / 2 * a) * cos (1 / 2 * a) + sin (1 / 2 * a) * sin (1 / 2 * a) = 1.
Proof. replace (cos (1 / 2 * a) * cos (1 / 2 * a) + sin (1 / 2 * a) * sin (1 / 2 * a)) with ((sin (1 / 2 * a))² + (cos (1 / 2 * a))²) by (unfold Rsqr; ring). apply sin2_cos2. Qed.

Lemma rot_hom_z a : rot_hom [0; 0; sin (1 / 2 * a); cos (1 / 2 * a)] = Rz a.
Proof.
  unfold rot_hom, Rz. rewrite <- (half_cos a), <- (half_sin a). pose proof (half_one a) as H1. meq; try ring; nra.
Qed.
Lemma rot_hom_y a : rot_hom [0; sin (1 / 2 * a); 0; cos (1 / 2 * a)] = Ry a.
Proof.
  unfold rot_hom, Ry. rewrite <- (half_cos a), <- (half_sin a). pose proof (half_one a) as H1. meq; try ring; nra.
Qed.
Lemma rot_hom_x a : rot_hom [sin (1 / 2 * a); 0; 0; cos (1 / 2 * a)] = Rx a.
Proof.
  unfold rot_hom, Rx. rewrite <- (half_cos a), <- (half_sin a). pose proof (half_one a) as H1. meq; try ring; nra.
Qed.

Lemma aa_z a : @aa_quat RS a (unitZ RS) = [0; 0; sin (1 / 2 * a); cos (1 / 2 * a)].
Proof. unfold aa_quat, quat_of_angle_axis, unitZ, c_half. mat_unfold. veq; ring. Qed.
Lemma aa_y a : @aa_quat RS a (unitY RS) = [0; sin (1 / 2 * a); 0; cos (1 / 2 * a)].
Proof. unfold aa_quat, quat_of_angle_axis, unitY, c_half. mat_unfold. veq; ring. Qed.
Lemma aa_x a : @aa_quat RS a (unitX RS) = [sin (1 / 2 * a); 0; 0; cos (1 / 2 * a)].
Proof. unfold aa_quat, quat_of_angle_axis, unitX, c_half. mat_unfold. veq; ring. Qed.

Theorem so3_from_rpy roll pitch yaw :
  exists x y z w, @so3_ctor RS 2 [[roll; pitch; yaw]] = Some [x; y; z; w] /\ n4 x y z w = 1 /\
    so3_rotation RS [x; y; z; w] = @mmul RS (@mmul RS (Rz yaw) (Ry pitch)) (Rx roll).
Proof.
  unfold so3_ctor, so3_quat_ctor, rpy_quat, a. cbn [nth vnth]. rewrite aa_z, aa_y, aa_x.
  rewrite (quat_mul_eq 0 0 (sin (1 / 2 * yaw)) (cos (1 / 2 * yaw))). rewrite quat_mul_eq.
  eexists _, _, _, _. split; [reflexivity|].
  assert (H1 : forall a, n4 0 0 (sin (1 / 2 * a)) (cos (1 / 2 * a)) = 1) by (intros a; unfold n4; pose proof (half_one a); nra).
  assert (H2 : forall a, n4 0 (sin (1 / 2 * a)) 0 (cos (1 / 2 * a)) = 1) by (intros a; unfold n4; pose proof (half_one a); nra).
  assert (H3 : forall a, n4 (sin (1 / 2 * a)) 0 0 (cos (1 / 2 * a)) = 1) by (intros a; unfold n4; pose proof (half_one a); nra).
  match goal with |- n4 ?x ?y ?z ?w = 1 /\ _ => assert (Hq : n4 x y z w = 1) end.
  { apply quat_mul_unit; [apply quat_mul_unit; [apply H1|apply H2]|apply H3]. }
  split; [exact Hq|]. unfold so3_rotation. etransitivity; [exact (quat_matrix_unit _ _ _ _ Hq)|].
  change (rot_hom (quat_mul RS (quat_mul RS [0; 0; sin (1 / 2 * yaw); cos (1 / 2 * yaw)] [0; sin (1 / 2 * pitch); 0; cos (1 / 2 * pitch)])
                                [sin (1 / 2 * roll); 0; 0; cos (1 / 2 * roll)]) = @mmul RS (@mmul RS (Rz yaw) (Ry pitch)) (Rx roll)).
  rewrite (quat_mul_eq 0 0 (sin (1 / 2 * yaw)) (cos (1 / 2 * yaw))) at 1.
  rewrite rot_hom_mul. rewrite <- (quat_mul_eq 0 0 (sin (1 / 2 * yaw)) (cos (1 / 2 * yaw))). rewrite rot_hom_mul.
  rewrite rot_hom_z, rot_hom_y, rot_hom_x. reflexivity.
Qed.

(* ---- normalize() makes any non-degenerate data acceptable ---- *)
Theorem so3_normalize_accepted x y z w : 0 < n4 x y z w -> eps <= 1 / 8 -> so3_assert_ok RS eps (so3_normalize RS [x; y; z; w]) = true.
Proof.
  intros Hz He. unfold so3_normalize, eigen_normalize. mat_unfold.
  replace (x * x + (y * y + (z * z + (w * w + 0)))) with (n4 x y z w) by (unfold n4; ring).
  rewrite (Rltb_lt_true 0 _) by exact Hz. mat_unfold.
  pose proof (sqrt_sqrt _ (Rlt_le _ _ Hz)) as Hs. pose proof (sqrt_lt_R0 _ Hz) as Hp. set (r := sqrt (n4 x y z w)) in *.
  apply (so3_accept eps eps_pos He). unfold q_inv.
  replace (n4 (x / r) (y / r) (z / r) (w / r)) with (n4 x y z w / (r * r)) by (unfold n4; field; lra).
  rewrite Hs. replace (n4 x y z w / n4 x y z w) with 1 by (field; lra). replace (1 - 1) with 0 by ring. rewrite Rabs_R0. lra.
Qed.

(* ---- cast<>() of a valid element (same scalar): the element itself ---- *)
Theorem so3_cast_valid x y z w : n4 x y z w = 1 -> so3_cast RS [x; y; z; w] = [x; y; z; w].
Proof.
  intros H. unfold so3_cast, eigen_normalized. mat_unfold.
  replace (x * x + (y * y + (z * z + (w * w + 0)))) with (n4 x y z w) by (unfold n4; ring). rewrite H, sqrt_1.
  rewrite (Rltb_lt_true 0 1) by lra. mat_unfold. veq; field.
Qed.
Theorem so2_cast_valid X : so2_valid X -> so2_cast RS X = X.
Proof. intros (r & i & -> & H). unfold so2_cast, so2_exp, so2t_angle, so2_angle, so2_real, so2_imag. mat_unfold. destruct (atan2_unit i r H) as [-> ->]. reflexivity. Qed.
Theorem se2_cast_valid X : se2_valid X -> se2_cast RS X = X.
Proof. intros (x & y & r & i & -> & H). unfold se2_cast, se2_from_angle, se2_angle, se2_real, se2_imag, se2_x, se2_y. mat_unfold. destruct (atan2_unit i r H) as [-> ->]. reflexivity. Qed.
End P.
