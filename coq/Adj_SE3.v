(* Adj_SE3.v — AdjLaws (property C06, algebraic part) for the SE3 model. *)
From Coq Require Import Reals ZArith List Lra.
From Manif Require Import Scalar Mat Consts Group RInst Tac SO2 SO3 SE3 Generic LieSpec SO3Proofs RnProofs AlgTac AdjTac Adj_SO3.
Import ListNotations.
Local Open Scope R_scope.
Section P.
Variable eps : R.
Hypothesis eps_pos : 0 < eps.

Lemma SE3_adj : AdjLaws (SE3 RS eps) se3_valid.
Proof.
  assert (Hhom : forall X Y, se3_valid X -> se3_valid Y ->
     se3_adj RS (se3_compose RS eps X Y) = @mmul RS (se3_adj RS X) (se3_adj RS Y)).
  { intros X Y (atx & aty & atz & ax & ay & az & aw & -> & Ha) (btx & bty & btz & bx & by_ & bz & bw & -> & Hb).
    rewrite se3_compose_valid_eq, quat_mul_eq by assumption.
    pose proof (quat_mul_unit _ _ _ _ _ _ _ _ Ha Hb) as Hc.
    unfold rot_hom at 1. mat_unfold. unfold se3_adj.
    rewrite !se3_rotation_unit by assumption. unfold rot_hom.
    pose proof (n4_w _ _ _ _ Ha) as Hw. rcbv. list_eq; ringm1 Hw. }
  assert (Hid : se3_adj RS (g_identity (SE3 RS eps)) = @mid RS 6).
  { rewrite (se3_identity_eq eps eps_pos). rcbv. list_eq; ring. }
  constructor; unfold g_matrep; cbn [g_alg g_dof g_transform g_hat g_inverse g_adj g_compose g_smallAdj g_ljac g_rjac SE3].
  - intros X s (tx & ty & tz & x & y & z & w & -> & H) Hs. destruct_len s Hs.
    rewrite se3_inverse_valid_eq by assumption. unfold rot_hom at 1. mat_unfold.
    unfold se3_transform, se3_adj.
    rewrite !se3_rotation_unit by (unfold n4 in *; try assumption; rewrite <- H; ring).
    unfold rot_hom. pose proof (n4_w _ _ _ _ H) as Hw. rcbv. list_eq; ringm1 Hw.
  - exact Hhom.
  - exact Hid.
  - exact (adj_inverse_of_hom _ (SE3_core eps eps_pos) Hhom Hid).
  - intros t s Ht Hs. destruct_len t Ht. destruct_len s Hs. rcbv. list_eq; ring.
  - intros t Ht. destruct_len t Ht.
    unfold se3_ljac, se3_rjac, se3t_ang. cbn [vneg map skipn].
    cbn [K RS kopp]. rewrite (so3_rjac_neg' eps). rewrite !Ropp_involutive. reflexivity.
Qed.
End P.
