(* Log_SO3.v — property C03 for SO3, generic branch: for every unit quaternion q whose vector part has squared norm
   above eps, exp(log q) is q itself when w >= 0 and -q when w < 0 — the same rotation in both cases — and the
   logarithm's rotation angle is at most pi. *)
From Coq Require Import Reals ZArith List Lra.
From Manif Require Import Scalar Mat Consts Group RInst Tac Atan2 SO3 Generic LieSpec SO3Proofs.
Import ListNotations.
Local Open Scope R_scope.

Lemma sin_sq_le_sq a : (sin a) * (sin a) <= a * a.
Proof.
  assert (H : forall b, 0 <= b -> sin b * sin b <= b * b).
  { intros b Hb. destruct (Req_dec b 0) as [->|Hn]; [rewrite sin_0; lra|].
    assert (Hp : 0 < b) by lra. pose proof (sin_lt_x b Hp). pose proof (SIN_bound b).
    destruct (Rle_dec 0 (sin b)); [nra|]. destruct (Rle_dec b 1); [|nra].
    (* sin b < 0 with 0 < b <= 1 is impossible *)
    assert (0 <= sin b) by (apply sin_ge_0; [lra|pose proof PI_RGT_0; pose proof PI2_1; lra]). lra. }
  destruct (Rle_dec 0 a); [apply H; assumption|].
  replace (sin a * sin a) with (sin (- a) * sin (- a)) by (rewrite sin_neg; ring). replace (a * a) with (- a * - a) by ring. apply H. lra.
Qed.

Section P.
Variable eps : R.
Hypothesis eps_pos : 0 < eps.

(* the value of log in the generic branch *)
Definition so3_phi (x y z w : R) : R :=
  let s := sqrt (x * x + y * y + z * z) in if Rlt_dec w 0 then atan2 (- s) (- w) else atan2 s w.

Lemma so3_log_generic x y z w : eps < x * x + y * y + z * z ->
  so3_log RS eps [x; y; z; w] =
  let k := 2 * so3_phi x y z w / sqrt (x * x + y * y + z * z) in [x * k; y * k; z * k].
Proof.
  intros Hs. unfold so3_log, qw, so3_phi. cbn [firstn]. mat_unfold.
  replace (x * x + (y * y + (z * z + 0))) with (x * x + y * y + z * z) by ring.
  rewrite (Rltb_lt_true eps _) by exact Hs. unfold Rltb. destruct (Rlt_dec w 0); reflexivity.
Qed.

Lemma phi_facts x y z w : n4 x y z w = 1 -> 0 < x * x + y * y + z * z ->
  let s := sqrt (x * x + y * y + z * z) in let phi := so3_phi x y z w in
  (w < 0 -> cos phi = - w /\ sin phi = - s /\ phi < 0) /\ (0 <= w -> cos phi = w /\ sin phi = s /\ 0 < phi).
Proof.
  intros Hn Hs2. cbv zeta. set (s2 := x * x + y * y + z * z) in *. set (s := sqrt s2).
  assert (Hs : 0 < s) by (apply sqrt_lt_R0; exact Hs2). assert (Hss : s * s = s2) by (apply sqrt_sqrt; lra).
  assert (Hu : w * w + s * s = 1) by (rewrite Hss; unfold s2, n4 in *; lra).
  unfold so3_phi. fold s2. fold s. split; intros Hw.
  - destruct (Rlt_dec w 0); [|lra].
    destruct (atan2_unit (- s) (- w) ltac:(nra)) as [Hc Hsn]. repeat split; try assumption.
    pose proof (atan2_range (- s) (- w)) as Hr. destruct (Rle_dec 0 (atan2 (- s) (- w))) as [Hp|]; [|lra].
    assert (0 <= sin (atan2 (- s) (- w))) by (apply sin_ge_0; lra). lra.
  - destruct (Rlt_dec w 0); [lra|].
    destruct (atan2_unit s w ltac:(nra)) as [Hc Hsn]. repeat split; try assumption.
    pose proof (atan2_range s w) as Hr. destruct (Rlt_dec 0 (atan2 s w)) as [Hp|]; [exact Hp|].
    assert (Hq : 0 <= sin (- atan2 s w)) by (apply sin_ge_0; lra). rewrite sin_neg in Hq. lra.
Qed.

(* exp(log q) = q (w >= 0) or -q (w < 0): the same rotation *)
Theorem so3_exp_log_generic x y z w : n4 x y z w = 1 -> eps < x * x + y * y + z * z ->
  so3_exp RS eps (so3_log RS eps [x; y; z; w]) = if Rlt_dec w 0 then [- x; - y; - z; - w] else [x; y; z; w].
Proof.
  intros Hn Hs2. rewrite so3_log_generic by exact Hs2. cbv zeta.
  set (s2 := x * x + y * y + z * z) in *. set (s := sqrt s2). set (phi := so3_phi x y z w).
  assert (Hs2p : 0 < s2) by lra. assert (Hs : 0 < s) by (apply sqrt_lt_R0; exact Hs2p). assert (Hss : s * s = s2) by (apply sqrt_sqrt; lra).
  destruct (phi_facts x y z w Hn Hs2p) as [Fneg Fpos]. fold s2 in Fneg, Fpos. fold s in Fneg, Fpos. fold phi in Fneg, Fpos.
  unfold so3_exp, quat_of_angle_axis, eigen_normalized, c_half. mat_unfold.
  set (k := 2 * phi / s).
  assert (Hth : x * k * (x * k) + (y * k * (y * k) + (z * k * (z * k) + 0)) = (2 * phi) * (2 * phi)).
  { unfold k. replace (x * (2 * phi / s) * (x * (2 * phi / s)) + (y * (2 * phi / s) * (y * (2 * phi / s)) + (z * (2 * phi / s) * (z * (2 * phi / s)) + 0)))
      with ((2 * phi) * (2 * phi) * (s2 / (s * s))) by (unfold s2; field; lra). rewrite Hss. field. lra. }
  rewrite Hth.
  assert (Hsin : sin phi * sin phi = s2) by (destruct (Rlt_dec w 0) as [Hw|Hw]; [destruct (Fneg Hw) as (_ & -> & _)|destruct (Fpos ltac:(lra)) as (_ & -> & _)]; lra).
  assert (Hbig : eps < 2 * phi * (2 * phi)) by (pose proof (sin_sq_le_sq phi); nra).
  rewrite (Rltb_lt_true eps _) by exact Hbig. rewrite (Rltb_lt_true 0 _) by lra. mat_unfold.
  destruct (Rlt_dec w 0) as [Hw|Hw].
  - destruct (Fneg Hw) as (Hc & Hsn & Hphi).
    assert (Hsq : sqrt (2 * phi * (2 * phi)) = - (2 * phi)) by (replace (2 * phi * (2 * phi)) with ((- (2 * phi))²) by (unfold Rsqr; ring); apply sqrt_Rsqr; lra).
    rewrite Hsq. replace (1 / 2 * - (2 * phi)) with (- phi) by field. rewrite sin_neg, cos_neg, Hc, Hsn.
    unfold k. list_eq; field; lra.
  - destruct (Fpos ltac:(lra)) as (Hc & Hsn & Hphi).
    assert (Hsq : sqrt (2 * phi * (2 * phi)) = 2 * phi) by (replace (2 * phi * (2 * phi)) with ((2 * phi)²) by (unfold Rsqr; ring); apply sqrt_Rsqr; lra).
    rewrite Hsq. replace (1 / 2 * (2 * phi)) with phi by field. rewrite Hc, Hsn.
    unfold k. list_eq; field; lra.
Qed.

(* as a transformation: rotation(exp(log q)) = rotation(q) *)
Theorem so3_exp_log_rotation x y z w : n4 x y z w = 1 -> eps < x * x + y * y + z * z ->
  so3_rotation RS (so3_exp RS eps (so3_log RS eps [x; y; z; w])) = so3_rotation RS [x; y; z; w].
Proof.
  intros Hn Hs. rewrite so3_exp_log_generic by assumption. destruct (Rlt_dec w 0); [|reflexivity].
  unfold so3_rotation, quat_matrix, qx, qy, qz, qw. mat_unfold. list_eq; ring.
Qed.

(* the rotation angle of log is at most pi (generic branch): |log q| = 2 |phi| with |phi| <= pi/2 *)
Theorem so3_log_angle_le_pi x y z w : n4 x y z w = 1 -> eps < x * x + y * y + z * z ->
  @sqnorm RS (so3_log RS eps [x; y; z; w]) <= PI * PI.
Proof.
  intros Hn Hs2. rewrite so3_log_generic by exact Hs2. cbv zeta.
  set (s2 := x * x + y * y + z * z) in *. set (s := sqrt s2). set (phi := so3_phi x y z w).
  assert (Hs2p : 0 < s2) by lra. assert (Hs : 0 < s) by (apply sqrt_lt_R0; exact Hs2p). assert (Hss : s * s = s2) by (apply sqrt_sqrt; lra).
  mat_unfold.
  replace (x * (2 * phi / s) * (x * (2 * phi / s)) + (y * (2 * phi / s) * (y * (2 * phi / s)) + (z * (2 * phi / s) * (z * (2 * phi / s)) + 0)))
    with ((2 * phi) * (2 * phi) * (s2 / (s * s))) by (unfold s2; field; lra). rewrite Hss. replace (s2 / s2) with 1 by (field; lra).
  (* |phi| <= pi/2: phi = atan (.) on the branch taken (the second argument of atan2 is >= 0) *)
  assert (Hb : - (PI / 2) <= phi <= PI / 2).
  { unfold phi, so3_phi. fold s2. fold s. pose proof PI_RGT_0.
    destruct (Rlt_dec w 0) as [Hw|Hw]; unfold atan2.
    - destruct (Rlt_dec 0 (- w)); [|lra]. pose proof (atan_bound (- s / - w)). lra.
    - destruct (Rlt_dec 0 w); [pose proof (atan_bound (s / w)); lra|]. destruct (Rlt_dec w 0); [lra|]. destruct (Rlt_dec 0 s); lra. }
  pose proof PI_RGT_0. nra.
Qed.
End P.
