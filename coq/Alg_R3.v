(* Alg_R3.v — AlgLaws (AlgSpec.v, property C07) for the R3 model at the real instance; one lemma per field. *)
From Coq Require Import Reals ZArith List Lra Lia.
From Manif Require Import Scalar Mat Consts Group RInst Tac SO2 SE2 SO3 SE3 SE23 SGal3 Rn Generic LieSpec AlgSpec RnProofs AlgTac.
Import ListNotations.
Local Open Scope R_scope.
Ltac Zify.zify_post_hook ::= Z.div_mod_to_equations.
Lemma R3_gen_ok : forall i, (i < g_dof (Rn RS 3))%nat -> g_generator (Rn RS 3) (Z.of_nat i) = Ok (g_hat (Rn RS 3) (@unitv RS (g_dof (Rn RS 3)) i)).
Proof. gen_ok. Qed.
Lemma R3_gen_oob : forall i, int_range i -> (i < 0 \/ Z.of_nat (g_dof (Rn RS 3)) <= i)%Z -> g_generator (Rn RS 3) i = InvalidArgument.
Proof. gen_oob. Qed.
Lemma R3_hat_gen : forall t, length t = g_dof (Rn RS 3) -> g_hat (Rn RS 3) t = lincomb (g_dof (Rn RS 3)) (g_alg (Rn RS 3)) t (fun i => g_hat (Rn RS 3) (@unitv RS (g_dof (Rn RS 3)) i)).
Proof. intros t Ht; destruct_len t Ht; rcbv; list_eq; ring. Qed.
Lemma R3_hat_linear : forall a b c, length a = g_dof (Rn RS 3) -> length b = g_dof (Rn RS 3) -> g_hat (Rn RS 3) (@vadd RS a (@vscale RS c b)) = @madd RS (g_hat (Rn RS 3) a) (@mscale RS c (g_hat (Rn RS 3) b)).
Proof. intros a b c Ha Hb; destruct_len a Ha; destruct_len b Hb; rcbv; list_eq; ring. Qed.
Lemma R3_vee_hat : forall t, length t = g_dof (Rn RS 3) -> g_vee (Rn RS 3) (g_hat (Rn RS 3) t) = t.
Proof. intros t Ht; destruct_len t Ht; rcbv; list_eq; ring. Qed.
Lemma R3_bracket : forall a b, length a = g_dof (Rn RS 3) -> length b = g_dof (Rn RS 3) -> g_hat (Rn RS 3) (g_bracket (Rn RS 3) a b) = commutator (g_hat (Rn RS 3) a) (g_hat (Rn RS 3) b).
Proof. intros a b Ha Hb; destruct_len a Ha; destruct_len b Hb; rcbv; list_eq; ring. Qed.
Lemma R3_bracket_len : forall a b, length a = g_dof (Rn RS 3) -> length b = g_dof (Rn RS 3) -> length (g_bracket (Rn RS 3) a b) = g_dof (Rn RS 3).
Proof. intros a b Ha Hb; destruct_len a Ha; destruct_len b Hb; reflexivity. Qed.
Lemma R3_antisym : forall a b, length a = g_dof (Rn RS 3) -> length b = g_dof (Rn RS 3) -> g_bracket (Rn RS 3) a b = @vneg RS (g_bracket (Rn RS 3) b a).
Proof. intros a b Ha Hb; destruct_len a Ha; destruct_len b Hb; rcbv; list_eq; ring. Qed.
Lemma R3_linear_l : forall a b c d, length a = g_dof (Rn RS 3) -> length b = g_dof (Rn RS 3) -> length d = g_dof (Rn RS 3) -> g_bracket (Rn RS 3) (@vadd RS a (@vscale RS c b)) d = @vadd RS (g_bracket (Rn RS 3) a d) (@vscale RS c (g_bracket (Rn RS 3) b d)).
Proof. intros a b c d Ha Hb Hd; destruct_len a Ha; destruct_len b Hb; destruct_len d Hd; rcbv; list_eq; ring. Qed.
Lemma R3_jacobi : forall a b c, length a = g_dof (Rn RS 3) -> length b = g_dof (Rn RS 3) -> length c = g_dof (Rn RS 3) -> @vadd RS (@vadd RS (g_bracket (Rn RS 3) a (g_bracket (Rn RS 3) b c)) (g_bracket (Rn RS 3) b (g_bracket (Rn RS 3) c a))) (g_bracket (Rn RS 3) c (g_bracket (Rn RS 3) a b)) = @vzero RS (g_dof (Rn RS 3)).
Proof. intros a b c Ha Hb Hc; destruct_len a Ha; destruct_len b Hb; destruct_len c Hc; rcbv; list_eq; ring. Qed.
Lemma R3_inner_frob : forall a b, length a = g_dof (Rn RS 3) -> length b = g_dof (Rn RS 3) -> t_inner (Rn RS 3) a b = @trace RS (@mmul RS (g_hat (Rn RS 3) a) (@mT RS (g_hat (Rn RS 3) b))).
Proof. intros a b Ha Hb; destruct_len a Ha; destruct_len b Hb; rcbv; match goal with |- @eq _ ?x ?y => change (@eq R x y) end; ring. Qed.
Lemma R3_w_sym : @mT RS (g_innerweights (Rn RS 3)) = g_innerweights (Rn RS 3).
Proof. rcbv; list_eq; ring. Qed.
Lemma R3_w_pos : forall t, length t = g_dof (Rn RS 3) -> 0 <= t_inner (Rn RS 3) t t.
Proof. intros t Ht; destruct_len t Ht; rcbv; nra. Qed.
Lemma R3_w_def : forall t, length t = g_dof (Rn RS 3) -> t_inner (Rn RS 3) t t = 0 -> t = @vzero RS (g_dof (Rn RS 3)).
Proof. intros t Ht; destruct_len t Ht; rcbv; intros H0; list_eq; apply sq0; nra. Qed.
Lemma R3_wnorm : forall t, length t = g_dof (Rn RS 3) -> t_wnorm (Rn RS 3) t * t_wnorm (Rn RS 3) t = t_sqwnorm (Rn RS 3) t.
Proof. intros t Ht; unfold t_wnorm; cbn [ksqrt RS]; apply sqrt_sqrt; unfold t_sqwnorm; destruct_len t Ht; rcbv; nra. Qed.
Lemma R3_alg : AlgLaws (Rn RS 3).
Proof.
  constructor; [apply R3_gen_ok | apply R3_gen_oob | apply R3_hat_gen | apply R3_hat_linear | apply R3_vee_hat | apply R3_bracket | apply R3_bracket_len | apply R3_antisym | apply R3_linear_l | apply R3_jacobi | apply R3_inner_frob | apply R3_w_sym | apply R3_w_pos | apply R3_w_def | apply R3_wnorm].
Qed.
