(* Adj_SE2.v — AdjLaws (property C06, algebraic part) for the SE2 model. *)
From Coq Require Import Reals ZArith List Lra.
From Manif Require Import Scalar Mat Consts Group RInst Tac Atan2 SO2 SE2 Generic LieSpec SE2Proofs RnProofs AlgTac AdjTac.
Import ListNotations.
Local Open Scope R_scope.
Section P.
Variable eps : R.
Hypothesis eps_pos : 0 < eps.

Lemma se2_AB_neg th : se2_AB RS eps (- th) (cos (- th)) (sin (- th)) =
  (fst (se2_AB RS eps th (cos th) (sin th)), - snd (se2_AB RS eps th (cos th) (sin th))).
Proof.
  unfold se2_AB. cbn [K RS kmul kltb]. replace (- th * - th) with (th * th) by ring.
  destruct (Rltb (th * th) eps) eqn:E; cbn [fst snd]; rewrite ?cos_neg, ?sin_neg.
  - rcbv. apply f_equal2; (match goal with |- @eq _ ?a ?b => change (@eq R a b) end); ring.
  - assert (th <> 0). { intros ->. apply Rltb_false in E. lra. }
    rcbv. apply f_equal2; (match goal with |- @eq _ ?a ?b => change (@eq R a b) end); field; assumption.
Qed.

Lemma SE2_adj : AdjLaws (SE2 RS eps) se2_valid.
Proof.
  constructor; unfold g_matrep; cbn [g_alg g_dof g_transform g_hat g_inverse g_adj g_compose g_smallAdj g_ljac g_rjac SE2].
  - intros X s (x & y & r & i & -> & H) Hs. destruct_len s Hs.
    rewrite se2_inverse_valid_eq by assumption.
    pose proof (n2_i _ _ H) as Hw. rcbv. list_eq; ringm1 Hw.
  - intros X Y (ax & ay & ar & ai & -> & Ha) (bx & by_ & br & bi & -> & Hb).
    rewrite se2_compose_valid_eq by assumption. rcbv. list_eq; ring.
  - rewrite (se2_identity_eq eps eps_pos). rcbv. list_eq; ring.
  - intros X (x & y & r & i & -> & H). rewrite se2_inverse_valid_eq by assumption.
    pose proof (n2_i _ _ H) as Hw. rcbv. list_eq; ringm1 Hw.
  - intros t s Ht Hs. destruct_len t Ht. destruct_len s Hs. rcbv. list_eq; ring.
  - intros t Ht. destruct_len t Ht. rename k1 into th.
    unfold se2_ljac, se2_rjac. cbn [vneg map]. cbn [vnth nth K RS kopp kcos ksin kmul kltb].
    rewrite se2_AB_neg. destruct (se2_AB RS eps th (cos th) (sin th)) as [A B]. cbn [fst snd].
    replace (- th * - th) with (th * th) by ring. rewrite cos_neg, sin_neg.
    destruct (Rltb (th * th) eps) eqn:E.
    + rcbv. list_eq; try ring; field.
    + assert (th <> 0). { intros ->. apply Rltb_false in E. lra. }
      rcbv. list_eq; try ring; field; assumption.
Qed.
End P.
