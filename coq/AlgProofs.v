(* AlgProofs.v — collects the per-group AlgLaws proofs. *)
From Manif Require Export AlgSpec AlgExplicit Alg_SO2 Alg_SE2 Alg_SO3 Alg_SE3 Alg_SE23 Alg_SGal3 Alg_R1 Alg_R2 Alg_R3 Alg_R4 Alg_R5 Alg_R6 Alg_R7 Alg_R8 Alg_R9.
