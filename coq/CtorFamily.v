(* CtorFamily.v — property C13 for SE3, SE_2(3) and SGal(3): the constructors from (translation, quaternion[, velocity[, time]])
   yield the element whose translation(), quat(), linearVelocity(), t() return the supplied quantities, whose rotation() is the
   quaternion's rotation matrix and whose transform() carries them in the documented places; feeding the accessors back
   reproduces the element. *)
From Coq Require Import Reals ZArith List Lra.
From Manif Require Import Scalar Mat Consts Group RInst Tac SO3 SE3 SE23 SGal3 Ctor.
Import ListNotations.
Local Open Scope R_scope.

Theorem se3_ctor_accessors t0 t1 t2 x y z w :
  let X := [t0; t1; t2; x; y; z; w] in
  @se3_ctor RS 0 [[t0; t1; t2]; [x; y; z; w]] = Some X /\
  se3_t RS X = [t0; t1; t2] /\ se3_q RS X = [x; y; z; w] /\ se3_rotation RS X = so3_rotation RS [x; y; z; w] /\
  @se3_ctor RS 0 [se3_t RS X; se3_q RS X] = Some X.
Proof. cbv zeta. repeat split. Qed.

Theorem se23_ctor_accessors t0 t1 t2 x y z w v0 v1 v2 :
  let X := [t0; t1; t2; x; y; z; w; v0; v1; v2] in
  @se23_ctor RS 0 [[t0; t1; t2]; [x; y; z; w]; [v0; v1; v2]] = Some X /\
  se23_t RS X = [t0; t1; t2] /\ se23_q RS X = [x; y; z; w] /\ se23_v RS X = [v0; v1; v2] /\
  se23_rotation RS X = so3_rotation RS [x; y; z; w] /\
  @se23_ctor RS 0 [se23_t RS X; se23_q RS X; se23_v RS X] = Some X.
Proof. cbv zeta. repeat split. Qed.

Theorem sg_ctor_accessors p0 p1 p2 x y z w v0 v1 v2 t :
  let X := [p0; p1; p2; x; y; z; w; v0; v1; v2; t] in
  @sg_ctor RS 0 [[p0; p1; p2]; [x; y; z; w]; [v0; v1; v2]; [t]] = Some X /\
  sg_p RS X = [p0; p1; p2] /\ sg_q RS X = [x; y; z; w] /\ sg_v RS X = [v0; v1; v2] /\ sg_t RS X = t /\
  sg_rotation RS X = so3_rotation RS [x; y; z; w] /\
  @sg_ctor RS 0 [sg_p RS X; sg_q RS X; sg_v RS X; [sg_t RS X]] = Some X.
Proof. cbv zeta. repeat split. Qed.

(* transform() carries rotation(), translation(), linearVelocity() and t() in the documented places *)
Theorem se23_transform_layout t0 t1 t2 x y z w v0 v1 v2 :
  let X := [t0; t1; t2; x; y; z; w; v0; v1; v2] in
  exists r00 r01 r02 r10 r11 r12 r20 r21 r22, so3_rotation RS [x; y; z; w] = [[r00; r01; r02]; [r10; r11; r12]; [r20; r21; r22]] /\
  se23_transform RS X = [[r00; r01; r02; t0; v0]; [r10; r11; r12; t1; v1]; [r20; r21; r22; t2; v2]; [0; 0; 0; 1; 0]; [0; 0; 0; 0; 1]].
Proof. cbv zeta. unfold se23_transform, se23_rotation, se23_q, se23_t, se23_v, so3_rotation, quat_matrix. mat_unfold. do 9 eexists. split; reflexivity. Qed.
Theorem sg_transform_layout p0 p1 p2 x y z w v0 v1 v2 t :
  let X := [p0; p1; p2; x; y; z; w; v0; v1; v2; t] in
  exists r00 r01 r02 r10 r11 r12 r20 r21 r22, so3_rotation RS [x; y; z; w] = [[r00; r01; r02]; [r10; r11; r12]; [r20; r21; r22]] /\
  sg_transform RS X = [[r00; r01; r02; v0; p0]; [r10; r11; r12; v1; p1]; [r20; r21; r22; v2; p2]; [0; 0; 0; 1; t]; [0; 0; 0; 0; 1]].
Proof. cbv zeta. unfold sg_transform, sg_rotation, sg_q, sg_p, sg_v, sg_t, so3_rotation, quat_matrix. mat_unfold. do 9 eexists. split; reflexivity. Qed.
