(* Hist.v — operation histories (property C08): a small state machine over a pair of elements (X, Y)
   whose steps are the library operations that produce elements: compose, inverse, between, rplus (+=),
   lplus, *=, exp, interpolate (SLERP), cast, Random.  A history is encoded as an integer
   (base-16 digits, least significant first; digit 0 ends it) so that the harness and the extracted model
   decode the same sequence. *)
From Coq Require Import ZArith List Bool.
Import ListNotations.
From Manif Require Import Scalar Mat Consts Group SO2 SE2 SO3 SE3 SE23 SGal3 Rn Generic Algorithms.

Section Hist.
Variable F : Sc.
Variable G : GroupOps F.
Variable cast : list (K F) -> list (K F).      (* X.cast<Scalar>() for this group *)
Local Notation vec := (list (K F)).

Definition nth_t (ts : list vec) (s : nat) : vec := nth (Nat.modulo s (Nat.max 1 (length ts))) ts (vzero (g_dof G)).
Definition nth_u (us : vec) (s : nat) : K F := nth (Nat.modulo s (Nat.max 1 (length us))) us (k0 F).

Definition hstep (ts : list vec) (us : vec) (st : vec * vec) (digit : Z) (s : nat) : vec * vec :=
  let '(X, Y) := st in
  let t := nth_t ts s in
  match digit with
  | 1%Z => (g_compose G X Y, Y)                               (* X = X * Y *)
  | 2%Z => (g_inverse G X, Y)                                 (* X = X.inverse() *)
  | 3%Z => (g_compose G (g_inverse G X) Y, Y)                 (* X = X.between(Y) *)
  | 4%Z => (rplus_v G X t, Y)                                 (* X += t *)
  | 5%Z => (lplus_v G X t, Y)                                 (* X = X.lplus(t) *)
  | 6%Z => (g_compose G X X, Y)                               (* X *= X *)
  | 7%Z => (g_exp G t, Y)                                     (* X = t.exp() *)
  | 8%Z => (Y, X)                                             (* swap *)
  | 9%Z => (match interpolate_slerp G X Y (nth_u us s) with Ok Z => Z | _ => X end, Y)   (* X = interpolate(X, Y, u, SLERP) *)
  | 10%Z => (g_compose G Y X, Y)                              (* X = Y * X *)
  | 11%Z => (cast X, Y)                                       (* X = X.cast<Scalar>() *)
  | 12%Z => (g_random G t, Y)                                 (* X = Random() from the draw t in [-1,1]^DoF *)
  | _ => (X, Y)
  end.

Fixpoint hrun (fuel : nat) (ts : list vec) (us : vec) (code : Z) (s : nat) (st : vec * vec) : vec * vec :=
  match fuel with
  | O => st
  | S fuel' => if Z.eqb code 0 then st
               else hrun fuel' ts us (Z.div code 16) (S s) (hstep ts us st (Z.modulo code 16) s)
  end.
End Hist.
Arguments hstep {F}. Arguments hrun {F}. Arguments nth_t {F}. Arguments nth_u {F}.

(* cast<NewScalar>() per group (CastEvaluatorImpl specialisations): over one scalar type the conversion of the
   coefficients is the identity; what remains is the re-normalisation each group applies *)
Section Cast.
Variable F : Sc.
Local Notation vec := (list (K F)).
Definition so2_cast (c : vec) : vec := so2_exp F [so2_angle F c].                         (* SO2(angle()) *)
Definition se2_cast (c : vec) : vec := se2_from_angle F (se2_x F c) (se2_y F c) (se2_angle F c).
Definition so3_cast (c : vec) : vec := eigen_normalized F c.                              (* quat().normalized() *)
Definition se3_cast (c : vec) : vec := firstn 3 c ++ eigen_normalized F (vslice c 3 4).
Definition se23_cast (c : vec) : vec := firstn 3 c ++ eigen_normalized F (vslice c 3 4) ++ skipn 7 c.
Definition sg_cast (c : vec) : vec := firstn 3 c ++ eigen_normalized F (vslice c 3 4) ++ skipn 7 c.
End Cast.
