"""corr.py — the correspondence check: run the same cases on manif instantiated over the
exact rational scalar (C++ harness, built from /repo's working tree) and on the extracted
Coq model, and compare the printed results for exact textual equality."""
import os, sys, subprocess, json, time, re
from fractions import Fraction as Fr
from concurrent.futures import ThreadPoolExecutor
import vlib
from gen import G, fs, EPS_D, EPS_F, SQRT_EPS_D, PI_D

# ------------------------------------------------------------------ groups
class GD:
    """group descriptor: element / tangent layouts as lists of parts"""
    def __init__(self, name, eparts, tparts, dim, alg, gset):
        self.name, self.eparts, self.tparts, self.dim, self.alg, self.gset = name, eparts, tparts, dim, alg, gset
        self.rep = sum(n for _, n in eparts); self.dof = sum(n for _, n in tparts)

BASE = {
    "SO2":   GD("SO2",   [("rot2", 2)], [("ang1", 1)], 2, 2, 1),
    "SE2":   GD("SE2",   [("lin", 2), ("rot2", 2)], [("lin", 2), ("ang1", 1)], 2, 3, 2),
    "SO3":   GD("SO3",   [("rot4", 4)], [("ang3", 3)], 3, 3, 4),
    "SE3":   GD("SE3",   [("lin", 3), ("rot4", 4)], [("lin", 3), ("ang3", 3)], 3, 4, 5),
    "SE23":  GD("SE23",  [("lin", 3), ("rot4", 4), ("lin", 3)], [("lin", 3), ("ang3", 3), ("lin", 3)], 3, 5, 6),
    "SGal3": GD("SGal3", [("lin", 3), ("rot4", 4), ("lin", 3), ("lin", 1)], [("lin", 3), ("lin", 3), ("ang3", 3), ("lin", 1)], 3, 5, 7),
}
BUNDLES = {"B[SO2,SE3,R5,SGal3]": 100, "B[R1,SO3,SE2]": 101, "B[SE23,R2,SO3]": 102, "B[SGal3,SO2,SO2,SE23]": 103,
           "B[SE2]": 104, "B[SE3,SE3]": 104, "B[SO3,SGal3,R3,SE2,SE3]": 105}
def bundle_elems(name): return name[2:-1].split(",")
def group(name):
    if name in BASE: return BASE[name]
    if name.startswith("B["):
        els = [group(e) for e in bundle_elems(name)]
        gd = GD(name, [p for e in els for p in e.eparts], [p for e in els for p in e.tparts], sum(e.dim for e in els), sum(e.alg for e in els), BUNDLES.get(name))
        gd.elems = els
        return gd
    m = re.fullmatch(r"R(\d+)", name)
    if m:
        n = int(m.group(1)); return GD(name, [("lin", n)], [("lin", n)], n, n + 1, 3)
    raise KeyError(name)

# harness binaries: group-set id -> the groups compiled into that binary
GSETS = {1: ["SO2"], 2: ["SE2"], 3: ["R1", "R2", "R3", "R5", "R9"], 4: ["SO3"], 5: ["SE3"], 6: ["SE23"], 7: ["SGal3"]}

def cmul(a, b): return [a[0] * b[0] - a[1] * b[1], a[0] * b[1] + a[1] * b[0]]
def qmul(a, b):
    ax, ay, az, aw = a; bx, by, bz, bw = b
    return [aw * bx + ax * bw + ay * bz - az * by, aw * by + ay * bw + az * bx - ax * bz,
            aw * bz + az * bw + ax * by - ay * bx, aw * bw - ax * bx - ay * by - az * bz]

def gen_elem(g, gd, valid=True, nopi=False, kmax=40):
    out = []
    for kind, n in gd.eparts:
        if kind == "lin": out += g.vecmag(n, kmax)
        elif kind == "rot2": out += g.unit2(nopi=nopi) if valid else g.nonunit2()
        elif kind == "rot4": out += g.unit4(nopi=nopi) if valid else g.nonunit4()
    return out

def gen_near(g, gd, X):
    """element whose rotation part is X's composed with a stratified delta (controls the relative rotation)"""
    out = []; i = 0
    for kind, n in gd.eparts:
        part = X[i:i + n]; i += n
        if kind == "lin": out += [a + g.mag(10) * g.r.choice([0, 1]) for a in part] if g.r.random() < 0.5 else g.vecmag(n)
        elif kind == "rot2": out += cmul(part, g.unit2())
        elif kind == "rot4": out += qmul(part, g.unit4())
    return out

def gen_tan(g, gd, thr=SQRT_EPS_D):
    out = []
    for kind, n in gd.tparts:
        if kind == "lin": out += g.vecmag(n)
        elif kind == "ang1": out += [g.angle(thr=thr)]
        elif kind == "ang3":
            th = g.angle(thr=thr)
            out += g.vec3_norm(th) if g.r.random() < 0.8 else g.vec3_any(th)
    return out

# op -> (argument kinds, number of optional-output mask bits)
OPSIG = {
    "Inverse": ("G", 1), "Log": ("G", 1), "Compose": ("GG", 2), "Act": ("GV", 2), "Adj": ("G", 0),
    "Rplus": ("GT", 2), "Lplus": ("GT", 2), "Plus": ("GT", 2),
    "Rminus": ("GH", 2), "Lminus": ("GH", 2), "Minus": ("GH", 2), "Between": ("GH", 2),
    "Transform": ("G", 0), "Rotation": ("G", 0), "Translation": ("G", 0),
    "IsApprox": ("GHE", 0), "Identity": ("", 0), "Normalize": ("N", 0), "AssertOk": ("N", 0),
    "Exp": ("T", 1), "Hat": ("T", 0), "Rjac": ("T", 0), "Ljac": ("T", 0), "Rjacinv": ("T", 0), "Ljacinv": ("T", 0),
    "SmallAdj": ("T", 0), "Generator": ("I", 0), "Vee": ("M", 0), "Bracket": ("TT", 0), "Inner": ("TT", 0),
    "InnerWeights": ("", 0), "WeightedNorm": ("T", 0), "SqWeightedNorm": ("T", 0),
    "TPlus": ("TT", 2), "TMinus": ("TT", 2), "TIsApprox": ("TUE", 0),
    "AliasGT": ("GT", 2), "AliasGG": ("GH", 2), "AliasG": ("G", 1), "AliasT": ("T", 1), "AliasGV": ("GV", 2), "AliasId": ("GT", 0),
}
# alias ops: the spellings (iarg values) and those that take no Jacobian arguments (mask forced to 0)
ALIAS = {"AliasGT": (list(range(12)), {2, 3, 7}), "AliasGG": (list(range(9)), {1, 5, 6}), "AliasG": (list(range(4)), set()),
         "AliasT": (list(range(3)), set()), "AliasGV": ([0], set()), "AliasId": (list(range(4)), set())}
NO_ROTATION = lambda gn: gn.startswith("R") or gn.startswith("B")
def op_applicable(op, gn):
    if op == "Rotation": return not NO_ROTATION(gn)
    if op == "Translation": return gn in ("SE2", "SE3", "SE23", "SGal3")
    if gn.startswith("B") and op in ("Normalize", "Rotation", "Ctor", "History", "Decasteljau", "Average", "Interp"): return False
    if op in ("Normalize",): return not NO_ROTATION(gn)
    if op == "AssertOk": return False      # only meaningful in the assertion-enabled build (see ASSERT_OPS)
    return True

CUSTOM_GEN = {}     # op -> generator(g, group name) for operations whose arguments are not described by a signature string
def gen_case(g, gn, op, mask=None, flt=False, force_valid=False):
    if op in CUSTOM_GEN: return CUSTOM_GEN[op](g, gn)
    gd = group(gn)
    sig, nm = OPSIG[op]
    thr = SQRT_EPS_D  # the double thresholds are the default; float runs use the same strata
    args = []; iarg = 0
    X = None
    for k in sig:
        if k == "G":
            X = gen_elem(g, gd, valid=(force_valid or g.r.random() < 0.85)); args.append(X)
        elif k == "N":
            args.append(gen_elem(g, gd, valid=(g.r.random() < 0.3)))
        elif k == "H":   # second element: mostly near the first (controlled relative rotation)
            args.append(gen_near(g, gd, X) if g.r.random() < 0.7 else gen_elem(g, gd, valid=(force_valid or g.r.random() < 0.85)))
        elif k == "T":
            args.append(gen_tan(g, gd, thr))
        elif k == "U":   # second tangent close to the first at controlled distance
            t = args[-1]; e = Fr(g.r.randint(1, 99), 10**g.r.randint(0, 14))
            args.append([a + e * g.r.choice([0, 1, -1, Fr(1, 2)]) for a in t])
        elif k == "V":
            args.append(g.vecmag(gd.dim if not gn.startswith("B") else gd.dim))
        elif k == "E":
            args.append([g.r.choice([EPS_D, EPS_D, Fr(1, 10**g.r.randint(1, 12)), Fr(g.r.randint(1, 99), 10**g.r.randint(0, 14))])])
        elif k == "I":
            iarg = g.r.randint(-2, gd.dof + 2)
        elif k == "M":
            args.append([g.small(5) for _ in range(gd.alg * gd.alg)])
    if mask is None:
        mask = "".join(g.r.choice("01") for _ in range(nm)) if nm else "-"
    if op in ALIAS:
        forms, nojac = ALIAS[op]
        iarg = g.r.choice(forms)
        if iarg in nojac: mask = "0" * nm
    return dict(group=gn, op=op, mask=mask, iarg=iarg, flt=int(flt), args=args)

def case_line(cid, c):
    toks = ["C", str(cid), c["group"], c["op"], c["mask"], str(c["iarg"]), str(c["flt"]), str(len(c["args"]))]
    for a in c["args"]:
        toks.append(str(len(a))); toks += [fs(x) for x in a]
    return " ".join(toks)

# ------------------------------------------------------------------ running
SCALARS = {"q": 0, "d": 1, "f": 2, "h": 3, "D": 4, "E": 5}     # D: dual numbers over exact rationals, E: dual numbers over double
def harness_name(s, ndebug, flt, scalar="q"):
    return "h%s%s%s%s" % (scalar, s, "" if ndebug else "a", "f" if flt == 1 else "")
def harness_specs(gsets, ndebug=True, flt=False, scalar="q"):
    specs = []
    for s in gsets:
        defs = ["-DVQ_GROUPSET=%s" % s, "-DVQ_SCALAR=%d" % SCALARS[scalar]] + (["-DNDEBUG"] if ndebug else []) + (["-DVQ_FLOAT_THRESHOLDS"] if flt == 1 else [])
        specs.append(dict(name=harness_name(s, ndebug, flt, scalar), source="main.cpp", defines=defs,
                          flags=("-std=c++11", "-O1") if scalar in "qhD" else ("-std=c++11", "-O2"),
                          libs=("-lgmpxx", "-lgmp", "-lmpfr")))
    return specs

def gset_of(gn):
    if gn.startswith("B"): return BUNDLES.get(gn)
    return group(gn).gset

def run_cases(cases, ndebug=True, timeout=1200, scalar="q", model=True):
    """cases: list of dicts (see gen_case). Returns (results, build_errors) where results is a list of
    dict(case, impl, model) with impl/model the result strings ('ok ...' / 'exc ...').
    scalar: q = exact rationals (the only one the model is compared with), d/f/h = double/float/100-digit."""
    drv = vlib.build_driver() if model else None
    by = {}
    for i, c in enumerate(cases):
        by.setdefault((gset_of(c["group"]), c["flt"]), []).append((i, c))
    specs = []
    for (s, flt) in by:
        specs += harness_specs([s], ndebug, flt, scalar)
    bins = vlib.build_many(specs)
    build_errors = {n: log for n, (p, log) in bins.items() if p is None}
    results = [None] * len(cases)
    def work(task):
        key, chunk = task
        s, flt = key
        name = harness_name(s, ndebug, flt, scalar)
        path = bins[name][0]
        if path is None:
            return [(i, "build_failed", "not_run") for i, _ in chunk]
        inp = "\n".join(case_line(i, c) for i, c in chunk) + "\n"
        p1 = subprocess.run([path], input=inp, stdout=subprocess.PIPE, stderr=subprocess.PIPE, text=True, timeout=timeout)
        hout = p1.stdout
        R = {}; M = {}
        for l in hout.splitlines():
            if l.startswith("R "):
                t = l.split(" ", 2); R[int(t[1])] = t[2]
        crash = "" if p1.returncode == 0 else " harness_rc=%d %s" % (p1.returncode, p1.stderr[-200:].replace("\n", " "))
        crash2 = ""
        if model:
            p2 = subprocess.run([drv], input=hout, stdout=subprocess.PIPE, stderr=subprocess.PIPE, text=True, timeout=timeout)
            for l in p2.stdout.splitlines():
                if l.startswith("M "):
                    t = l.split(" ", 2); M[int(t[1])] = t[2]
            crash2 = "" if p2.returncode == 0 else " driver_rc=%d %s" % (p2.returncode, p2.stderr[-200:].replace("\n", " "))
        return [(i, R.get(i, "missing" + crash), M.get(i, "missing" + crash2) if model else "not_run") for i, _ in chunk]
    CH = 250
    tasks = [(key, items[k:k + CH]) for key, items in by.items() for k in range(0, len(items), CH)]
    with ThreadPoolExecutor(max_workers=vlib.JOBS) as ex:
        for lst in ex.map(work, tasks):
            for i, r, m in lst:
                results[i] = dict(case=cases[i], impl=r, model=m)
    return results, build_errors

def dualize(g, c, zero=False):
    """the same case over the dual-number scalar: every argument vector becomes (primal parts ++ dual parts)"""
    d = dict(c); d["flt"] = 2
    d["args"] = [list(a) + [Fr(0) if zero else g.small(4) for _ in a] for a in c["args"]]
    return d

def nontrivial(res):
    """a result is non-trivial when it is ok and not made only of 0/1 entries"""
    if not res.startswith("ok"): return False
    return any(t not in ("0", "1", "-1") and "/" in t or (t.lstrip("-").isdigit() and abs(int(t)) > 1) for t in res.split()[2:])

def summarize(results):
    # cases in which the oracle would have had to give two values for one argument are not comparable
    dis = [r for r in results if r["impl"] != r["model"] and r["impl"] != "oracle_conflict"]
    seen = set(); nt = 0
    exc = {}
    for r in results:
        c = r["case"]
        key = (c["group"], c["op"], c["mask"], c["iarg"], tuple(tuple(a) for a in c["args"]))
        if r["impl"].startswith("exc"):
            k = r["impl"].split()[1]; exc[k] = exc.get(k, 0) + 1
        if key in seen: continue
        seen.add(key)
        if r["impl"] == r["model"] and nontrivial(r["impl"]): nt += 1
    per = {}
    for r in results:
        k = r["case"]["group"] + "." + r["case"]["op"]; per[k] = per.get(k, 0) + 1
    return dict(evaluations=len(results), distinct_nontrivial=nt, disagreements=len(dis), exceptions=exc, per_op=per), dis

def case_json(c):
    d = dict(c); d["args"] = [[fs(x) for x in a] for a in c["args"]]; return d
def case_from_json(d):
    c = dict(d); c["args"] = [[Fr(x) for x in a] for a in d["args"]]; return c
