(* Extraction of the executable model (instance QS) to OCaml.
   Directives used: ExtrOcamlBasic, ExtrOcamlZBigInt (both from Coq's standard
   library) and ONE extra constant, Z.gcd ↦ zarith's gcd (listed in the trusted
   base; cross-checked against plain extraction in the thorough tier). *)
From Coq Require Import ZArith QArith List.
From Coq Require Import ExtrOcamlBasic ExtrOcamlZBigInt.
From Manif Require Import Scalar Mat Consts Group QInst Dual Run.
Extract Constant Z.gcd => "Big_int_Z.gcd_big_int".
Definition run_q (orc : positive -> Q -> Q -> Q) (flt : bool) (g : gid) (op : opcode)
    (mask : list bool) (iarg : Z) (args : list (list Q)) : res (list (list Q)) :=
  @run_op (QS orc) (if flt then @eps_float (QS orc) else @eps_double (QS orc)) g op mask iarg args.
(* the same entry point with the model instantiated over dual numbers on the rationals (property C12) *)
Definition run_dq (orc : positive -> Q -> Q -> Q) (g : gid) (op : opcode)
    (mask : list bool) (iarg : Z) (args : list (list (Q * Q))) : res (list (list (Q * Q))) :=
  @run_op (DS (QS orc)) (@eps_double (DS (QS orc))) g op mask iarg args.
Extraction "model.ml" run_q run_dq.
