(* BundleCore.v — the matrix side of C01 for Bundles over the reals: for any list of element groups, each with its
   GroupCore, transform() of the Bundle (the block-diagonal matrix of the elements' homogeneous matrices, as
   Bundle_base.h writes it) is multiplicative, maps Identity() to the identity matrix and the inverse to the two-sided
   matrix inverse.  Uses BlockMul.v (product of placed block-diagonal matrices) and BundleLaws.v (views of concatenations). *)
From Coq Require Import Reals List Lia Lra.
From Manif Require Import Scalar Mat Group RInst Tac Generic LieSpec Bundle BundleProofs BundleLaws BundleInst BlockMul
  SO2 SE2 SO3 SE3 SE23 SGal3 Rn SE2Proofs SO3Proofs SE23Proofs RnProofs
  Adj_SO2 Adj_SE2 Adj_SO3 Adj_SE3 Adj_SE23 Adj_SGal3 Adj_Rn.
Import ListNotations.
Local Open Scope R_scope.

Record PackedM : Type := mkPackedM {
  m_pack : Packed;
  m_tra : forall X, gc_valid (p_core m_pack) X -> BundleProofs.rect RS (g_transform (p_G m_pack) X) (g_tra (p_G m_pack)) (g_tra (p_G m_pack));
  m_adj : AdjLaws (p_G m_pack) (gc_valid (p_core m_pack));
  m_adj_rect : forall X, gc_valid (p_core m_pack) X -> BundleProofs.rect RS (g_adj (p_G m_pack) X) (g_dof (p_G m_pack)) (g_dof (p_G m_pack))
}.

Section Packs.
Variable LM : list PackedM.
Variable dM : PackedM.
Let LP := map m_pack LM.
Let dP := m_pack dM.
Let L := map p_G LP.
Let d := p_G dP.
Let V (i : nat) (X : list R) : Prop := gc_valid (p_core (nth i LP dP)) X.
Local Notation n := (length L).

Lemma nthLP i : nth i LP dP = m_pack (nth i LM dM).
Proof. unfold LP, dP. apply map_nth. Qed.
Lemma nthL' i : nth i L d = p_G (nth i LP dP).
Proof. unfold L, d. apply map_nth. Qed.
Lemma V_size i X : (i < n)%nat -> V i X -> length X = g_rep (nth i L d).
Proof. intros _ H. rewrite nthL'. apply (p_size _ _ H). Qed.
Lemma V_compose i X Y : (i < n)%nat -> V i X -> V i Y -> V i (g_compose (nth i L d) X Y).
Proof. intros _ HX HY. rewrite nthL'. apply gc_compose_valid; assumption. Qed.
Lemma V_identity i : (i < n)%nat -> V i (g_identity (nth i L d)).
Proof. intros _. rewrite nthL'. apply gc_identity_valid. Qed.

(* a matrix-valued function of the element (transform, adj) that is a homomorphism on every element group is one on
   the Bundle, where it is the placed (block-diagonal) matrix of the elements' matrices *)
Section Hom.
Variable f : GroupOps RS -> nat.
Variable M : GroupOps RS -> list R -> list (list R).
Hypothesis M_rect : forall i X, (i < n)%nat -> V i X -> BundleProofs.rect RS (M (nth i L d) X) (f (nth i L d)) (f (nth i L d)).
Hypothesis M_hom : forall i X Y, (i < n)%nat -> V i X -> V i Y ->
  M (nth i L d) (g_compose (nth i L d) X Y) = @mmul RS (M (nth i L d) X) (M (nth i L d) Y).
Hypothesis M_id : forall i, (i < n)%nat -> M (nth i L d) (g_identity (nth i L d)) = @mid RS (f (nth i L d)).
Definition BM (X : list R) : list (list R) := place L f f (imap L (fun i G => M G (el L X i G))).

Definition mparts (ps : list (list R)) : list (list (list R)) := imap L (fun i G => M G (nth i ps [])).
Lemma BM_parts ps : valid_parts RS L V ps -> BM (concat ps) = place L f f (mparts ps).
Proof.
  intros Hp. unfold BM, mparts. f_equal.
  apply (imap_ext RS L d). intros i Hi. unfold el.
  rewrite (view_concat RS L d g_rep ps i (valid_sized RS L d V V_size ps Hp) Hi). reflexivity.
Qed.
Lemma mparts_ok ps : valid_parts RS L V ps -> block_ok RS L f f (mparts ps).
Proof.
  intros [Hl Hv]. split; [apply imap_length|]. intros k Hk. unfold mparts.
  rewrite (nth_imap RS L d _ [] k Hk). rewrite !(nth_map_lt _ L d) by exact Hk. apply M_rect; [exact Hk|]. apply Hv. exact Hk.
Qed.
Theorem BM_compose X Y : bvalid RS L V X -> bvalid RS L V Y -> BM (g_compose (Bundle L) X Y) = @mmul RS (BM X) (BM Y).
Proof.
  intros [ps [Hp ->]] [qs [Hq ->]].
  rewrite (bundle_compose_parts RS L d V V_size V_compose ps qs Hp Hq).
  rewrite (BM_parts _ (pcompose_valid RS L d V V_compose ps qs Hp Hq)), (BM_parts ps Hp), (BM_parts qs Hq).
  rewrite (place_mmul L f _ _ (mparts_ok ps Hp) (mparts_ok qs Hq)). f_equal.
  apply (nth_ext _ _ [] []).
  - unfold mparts, bmul. rewrite map_length, combine_length, !imap_length. lia.
  - intros k Hk. unfold mparts in Hk. rewrite imap_length in Hk.
    rewrite (bmul_nth L (mparts ps) (mparts qs) k (imap_length RS L _) (imap_length RS L _) Hk). unfold mparts, pcompose.
    rewrite !(nth_imap RS L d _ [] k Hk). apply M_hom; [exact Hk|apply (proj2 Hp)|apply (proj2 Hq)]; exact Hk.
Qed.
Theorem BM_identity : BM (g_identity (Bundle L)) = @mid RS (total L f).
Proof.
  rewrite (bundle_identity_parts RS L d V V_size V_identity).
  rewrite (BM_parts _ (pidentity_valid RS L d V V_identity)).
  apply place_mid; [apply imap_length|]. intros k Hk. unfold mparts, pidentity.
  rewrite !(nth_imap RS L d _ [] k Hk). rewrite (nth_map_lt _ L d) by exact Hk. apply M_id. exact Hk.
Qed.
End Hom.

Lemma transform_is_BM X : g_transform (Bundle L) X = BM g_tra (fun G => g_transform G) X.
Proof. reflexivity. Qed.
Lemma adj_is_BM X : g_adj (Bundle L) X = BM g_dof (fun G => g_adj G) X.
Proof. reflexivity. Qed.

Lemma T_rect i X : (i < n)%nat -> V i X -> BundleProofs.rect RS (g_transform (nth i L d) X) (g_tra (nth i L d)) (g_tra (nth i L d)).
Proof. intros _. unfold V. rewrite nthL', nthLP. apply m_tra. Qed.
Lemma T_hom i X Y : (i < n)%nat -> V i X -> V i Y ->
  g_transform (nth i L d) (g_compose (nth i L d) X Y) = @mmul RS (g_transform (nth i L d) X) (g_transform (nth i L d) Y).
Proof. intros _ HX HY. rewrite nthL'. apply (gc_compose_M _ (p_core (nth i LP dP))); assumption. Qed.
Lemma T_id i : (i < n)%nat -> g_transform (nth i L d) (g_identity (nth i L d)) = @mid RS (g_tra (nth i L d)).
Proof. intros _. rewrite nthL'. apply (gc_identity_M _ (p_core (nth i LP dP))). Qed.
Lemma A_rect i X : (i < n)%nat -> V i X -> BundleProofs.rect RS (g_adj (nth i L d) X) (g_dof (nth i L d)) (g_dof (nth i L d)).
Proof. intros _. unfold V. rewrite nthL', nthLP. apply m_adj_rect. Qed.
Lemma A_hom i X Y : (i < n)%nat -> V i X -> V i Y ->
  g_adj (nth i L d) (g_compose (nth i L d) X Y) = @mmul RS (g_adj (nth i L d) X) (g_adj (nth i L d) Y).
Proof. intros _. unfold V. rewrite nthL', nthLP. intros HX HY. apply (ad_hom _ _ (m_adj (nth i LM dM))); assumption. Qed.
Lemma A_id i : (i < n)%nat -> g_adj (nth i L d) (g_identity (nth i L d)) = @mid RS (g_dof (nth i L d)).
Proof. intros _. rewrite nthL', nthLP. apply (ad_identity _ _ (m_adj (nth i LM dM))). Qed.

Theorem bundle_compose_M X Y : bvalid RS L V X -> bvalid RS L V Y ->
  g_transform (Bundle L) (g_compose (Bundle L) X Y) = @mmul RS (g_transform (Bundle L) X) (g_transform (Bundle L) Y).
Proof. intros HX HY. rewrite !transform_is_BM. exact (BM_compose g_tra _ T_rect T_hom X Y HX HY). Qed.
Theorem bundle_identity_M : g_transform (Bundle L) (g_identity (Bundle L)) = @mid RS (g_tra (Bundle L)).
Proof. rewrite transform_is_BM. exact (BM_identity g_tra _ T_id). Qed.
Theorem bundle_adj_hom X Y : bvalid RS L V X -> bvalid RS L V Y ->
  g_adj (Bundle L) (g_compose (Bundle L) X Y) = @mmul RS (g_adj (Bundle L) X) (g_adj (Bundle L) Y).
Proof. intros HX HY. rewrite !adj_is_BM. exact (BM_compose g_dof _ A_rect A_hom X Y HX HY). Qed.
Theorem bundle_adj_identity : g_adj (Bundle L) (g_identity (Bundle L)) = @mid RS (g_dof (Bundle L)).
Proof. rewrite adj_is_BM. exact (BM_identity g_dof _ A_id). Qed.

(* the statement of C01 for the Bundle, matrix side included (act: see C11 — element-wise on the sub-vectors) *)
Record BundleMatrixLaws (B : GroupOps RS) (valid : list R -> Prop) : Prop := mkBM {
  bm_coeff : BundleGroupLaws B valid;
  bm_compose_M : forall X Y, valid X -> valid Y -> g_transform B (g_compose B X Y) = @mmul RS (g_transform B X) (g_transform B Y);
  bm_identity_M : g_transform B (g_identity B) = @mid RS (g_tra B);
  bm_inverse_Ml : forall X, valid X -> @mmul RS (g_transform B (g_inverse B X)) (g_transform B X) = @mid RS (g_tra B);
  bm_inverse_Mr : forall X, valid X -> @mmul RS (g_transform B X) (g_transform B (g_inverse B X)) = @mid RS (g_tra B)
}.
Theorem bundle_matrix_laws : BundleMatrixLaws (Bundle L) (bvalid RS L V).
Proof.
  pose proof (bundle_laws_of_cores LP dP) as BL. fold L in BL. fold V in BL.
  constructor.
  - exact BL.
  - exact bundle_compose_M.
  - exact bundle_identity_M.
  - intros X HX. rewrite <- bundle_compose_M by (try apply (bl_inverse_valid _ _ BL); assumption).
    rewrite (bl_inv_l _ _ BL) by assumption. exact bundle_identity_M.
  - intros X HX. rewrite <- bundle_compose_M by (try apply (bl_inverse_valid _ _ BL); assumption).
    rewrite (bl_inv_r _ _ BL) by assumption. exact bundle_identity_M.
Qed.
(* C06 for the Bundle: Adj is a homomorphism into the invertible matrices *)
Record BundleAdjLaws (B : GroupOps RS) (valid : list R -> Prop) : Prop := mkBA {
  ba_hom : forall X Y, valid X -> valid Y -> g_adj B (g_compose B X Y) = @mmul RS (g_adj B X) (g_adj B Y);
  ba_identity : g_adj B (g_identity B) = @mid RS (g_dof B);
  ba_inverse_l : forall X, valid X -> @mmul RS (g_adj B (g_inverse B X)) (g_adj B X) = @mid RS (g_dof B);
  ba_inverse_r : forall X, valid X -> @mmul RS (g_adj B X) (g_adj B (g_inverse B X)) = @mid RS (g_dof B)
}.
Theorem bundle_adj_laws : BundleAdjLaws (Bundle L) (bvalid RS L V).
Proof.
  pose proof (bundle_laws_of_cores LP dP) as BL. fold L in BL. fold V in BL.
  constructor.
  - exact bundle_adj_hom.
  - exact bundle_adj_identity.
  - intros X HX. rewrite <- bundle_adj_hom by (try apply (bl_inverse_valid _ _ BL); assumption).
    rewrite (bl_inv_l _ _ BL) by assumption. exact bundle_adj_identity.
  - intros X HX. rewrite <- bundle_adj_hom by (try apply (bl_inverse_valid _ _ BL); assumption).
    rewrite (bl_inv_r _ _ BL) by assumption. exact bundle_adj_identity.
Qed.
End Packs.

(* packs of the group families *)
Ltac open_valid X HV := intros X HV; cbn in HV; hnf in HV;
  repeat (match type of HV with ex _ => let x := fresh in destruct HV as [x HV] end); destruct HV as [-> _].
Ltac rect_concrete := split; [reflexivity|repeat (apply Forall_cons; [reflexivity|]); apply Forall_nil].
Ltac tra_rect := let X := fresh "X" in let HV := fresh "HV" in open_valid X HV;
  cbn [g_transform g_adj g_tra g_dof m_pack p_G SO2_pack SE2_pack SO3_pack SE3_pack SE23_pack SGal3_pack SO2 SE2 SO3 SE3 SE23 SGal3];
  rect_concrete.
Definition SO2_packM eps (H : 0 < eps) : PackedM. Proof. refine (mkPackedM (SO2_pack eps H) _ (SO2_adj eps) _); tra_rect. Defined.
Definition SE2_packM eps (H : 0 < eps) : PackedM. Proof. refine (mkPackedM (SE2_pack eps H) _ (SE2_adj eps H) _); tra_rect. Defined.
Definition SO3_packM eps (H : 0 < eps) : PackedM. Proof. refine (mkPackedM (SO3_pack eps H) _ (SO3_adj eps H) _); tra_rect. Defined.
Definition SE3_packM eps (H : 0 < eps) : PackedM. Proof. refine (mkPackedM (SE3_pack eps H) _ (SE3_adj eps H) _); tra_rect. Defined.
Definition SE23_packM eps (H : 0 < eps) : PackedM. Proof. refine (mkPackedM (SE23_pack eps H) _ (SE23_adj eps H) _); tra_rect. Defined.
Definition SGal3_packM eps (H : 0 < eps) : PackedM. Proof. refine (mkPackedM (SGal3_pack eps H) _ (SGal3_adj eps H) _); tra_rect. Defined.
Ltac rn_tra_rect := let X := fresh "X" in let HV := fresh "HV" in intros X HV; cbn in HV; hnf in HV; destruct_len X HV;
  cbn [g_transform g_adj g_tra g_dof m_pack p_G R1_pack R2_pack R3_pack R5_pack Rn]; unfold rn_transform, rn_id; mat_unfold;
  rect_concrete.
Definition R1_packM : PackedM. Proof. refine (mkPackedM R1_pack _ R1_adj _); rn_tra_rect. Defined.
Definition R2_packM : PackedM. Proof. refine (mkPackedM R2_pack _ R2_adj _); rn_tra_rect. Defined.
Definition R3_packM : PackedM. Proof. refine (mkPackedM R3_pack _ R3_adj _); rn_tra_rect. Defined.
Definition R5_packM : PackedM. Proof. refine (mkPackedM R5_pack _ R5_adj _); rn_tra_rect. Defined.
