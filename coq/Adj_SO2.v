(* Adj_SO2.v — AdjLaws (property C06, algebraic part) for the SO2 model. *)
From Coq Require Import Reals ZArith List Lra.
From Manif Require Import Scalar Mat Consts Group RInst Tac Atan2 SO2 SE2 Generic LieSpec SE2Proofs RnProofs AlgTac AdjTac.
Import ListNotations.
Local Open Scope R_scope.
Section P.
Variable eps : R.
Hypothesis eps_pos : 0 < eps.

Lemma SO2_adj : AdjLaws (SO2 RS eps) so2_valid.
Proof.
  constructor; unfold g_matrep; cbn [g_alg g_dof g_transform g_hat g_inverse g_adj g_compose g_smallAdj g_ljac g_rjac SO2].
  - intros X s (r & i & -> & H) Hs. destruct_len s Hs.
    assert (Hi : so2_valid (so2_inverse RS [r; i])).
    { unfold so2_inverse, so2_real, so2_imag; mat_unfold. eexists _, _; split; [reflexivity|]. rewrite <- H; ring. }
    unfold so2_inverse, so2_real, so2_imag in *; mat_unfold_in Hi; mat_unfold.
    rewrite !so2_transform_valid by (try assumption; rewrite <- H; ring).
    pose proof (n2_i _ _ H) as Hw. rcbv. list_eq; ringm1 Hw.
  - intros X Y _ _. rcbv. list_eq; ring.
  - reflexivity.
  - intros X _. rcbv. list_eq; ring.
  - intros t s Ht Hs. destruct_len t Ht. destruct_len s Hs. rcbv. list_eq; ring.
  - intros t Ht. reflexivity.
Qed.
End P.
