(* BundleRoundTrip.v — C04 on a Bundle: (X + t) - X = t (right and left) for EVERY valid element X of Bundle<SO3, R3, SE3> and
   every tangent whose rotations are below pi on the closed-form branches: RoundTrip (any GroupCore) at BundleGroup.Bundle_core,
   with C03 for the Bundle (BundleLogExp) and the validity of exp(t) (BundleCoreValid). *)
From Coq Require Import Reals List Lia.
From Manif Require Import Scalar Mat Group RInst Generic LieSpec Bundle BundleProofs BundleLaws BundleInst BundleCore BundleGroup
  SO3 SE3 Rn SO3Proofs LogExp_SO3 LogExp_SE3 RoundTrip RoundTrip_Fam BundleLogExp BundleCoreValid.
Import ListNotations.
Local Open Scope R_scope.
Section S.
Variable eps : R. Hypothesis H : 0 < eps.
Definition LG3 := [SO3_packG eps H; R3_packG; SE3_packG eps H].
Definition C3 : GroupCore (Bundle (L3 eps)) := Bundle_core LG3 R3_packG.
Definition tan3 x y z p q r a b c u v w : list R := [x; y; z] ++ [p; q; r] ++ [a; b; c; u; v; w].

Lemma tan3_parts x y z p q r a b c u v w : rot_ok eps x y z -> rot_ok eps u v w ->
  tangent_parts RS (L3 eps) (D3 eps) [[x; y; z]; [p; q; r]; [a; b; c; u; v; w]].
Proof.
  intros H1 H2. split; [reflexivity|]. intros i Hi. destruct i as [|[|[|i]]]; [| | |cbn in Hi; lia]; cbn.
  - exists x, y, z. split; [reflexivity|exact H1].
  - exists p, q, r. reflexivity.
  - exists a, b, c, u, v, w. split; [reflexivity|exact H2].
Qed.

Lemma exp3_valid x y z p q r a b c u v w : rot_ok eps x y z -> rot_ok eps u v w ->
  gc_valid C3 (g_exp (Bundle (L3 eps)) (tan3 x y z p q r a b c u v w)).
Proof.
  intros H1 H2. apply (proj2 (Bundle_core_valid LG3 R3_packG _)).
  exists [so3_exp RS eps [x; y; z]; [p; q; r]; se3_exp RS eps [a; b; c; u; v; w]]. split.
  - split; [reflexivity|]. intros i Hi. destruct i as [|[|[|i]]]; [| | |cbn in Hi; lia].
    + apply (so3_exp_valid_generic eps H x y z). apply H1.
    + reflexivity.
    + apply (se3_exp_valid_generic eps H a b c u v w). apply H2.
  - change (tan3 x y z p q r a b c u v w) with (concat [[x; y; z]; [p; q; r]; [a; b; c; u; v; w]]).
    rewrite (bundle_exp_parts RS (L3 eps) (Rn RS 3) (V3 eps) (V3_size eps) (D3 eps) (D3_size eps)).
    + reflexivity.
    + intros i t Hi Ht. exists t. split; [exact Ht|reflexivity].
    + apply tan3_parts; assumption.
Qed.

Theorem bundle3_rplus_rminus X x y z p q r a b c u v w : gc_valid C3 X -> rot_ok eps x y z -> rot_ok eps u v w ->
  fst (fst (rminus (Bundle (L3 eps)) (fst (fst (rplus (Bundle (L3 eps)) X (tan3 x y z p q r a b c u v w) false false))) X false false))
  = tan3 x y z p q r a b c u v w.
Proof.
  intros HX H1 H2. apply (rplus_rminus (Bundle (L3 eps)) C3 X _ HX (exp3_valid x y z p q r a b c u v w H1 H2)).
  exact (bundle3_log_exp eps H _ (tan3_parts x y z p q r a b c u v w H1 H2)).
Qed.
Theorem bundle3_lplus_lminus X x y z p q r a b c u v w : gc_valid C3 X -> rot_ok eps x y z -> rot_ok eps u v w ->
  fst (fst (lminus (Bundle (L3 eps)) (fst (fst (lplus (Bundle (L3 eps)) X (tan3 x y z p q r a b c u v w) false false))) X false false))
  = tan3 x y z p q r a b c u v w.
Proof.
  intros HX H1 H2. apply (lplus_lminus (Bundle (L3 eps)) C3 X _ HX (exp3_valid x y z p q r a b c u v w H1 H2)).
  exact (bundle3_log_exp eps H _ (tan3_parts x y z p q r a b c u v w H1 H2)).
Qed.
(* non-vacuity: the identity of the Bundle is valid *)
Lemma C3_identity_valid : gc_valid C3 (g_identity (Bundle (L3 eps))).
Proof. exact (gc_identity_valid _ C3). Qed.
End S.
