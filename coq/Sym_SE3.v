(* Sym_SE3.v — property C18 for SE3: isApprox is symmetric whenever the relative element Z = Y^-1 X is on the closed-form branch
   of log and not a half turn: log(Z^-1) = -log(Z) there.  Rotation part: log(conj q) = -log(q) (Approx_Inst); translation part:
   V^-1(-w) R(q)^T = V^-1(w) for w = log q, a polynomial identity in hat(w) reduced by sin^2 + cos^2 = 1. *)
From Coq Require Import Reals ZArith List Lra Psatz.
From Manif Require Import Scalar Mat Consts Group RInst Tac Atan2 SO3 SE3 Generic LieSpec SO3Proofs Log_SO3 JacInv_SO3 AdjExp_SO3 Log_SE3 Log_SE23
  Approx Approx_Inst QuatOfMatrix LogExp_SE3 LogExp_SGal3.
Import ListNotations.
Local Open Scope R_scope.

Ltac meq := match goal with |- @eq _ ?u ?v => change (@eq (list (list R)) u v) end; list_eq.

Lemma poly3_negv x y z a b : poly3 (- x) (- y) (- z) a b = poly3 x y z (- a) b.
Proof. unfold poly3. mat_unfold. meq; ring. Qed.
Lemma rotation_conj x y z w : so3_rotation RS [- x; - y; - z; w] = @mT RS (so3_rotation RS [x; y; z; w]).
Proof. unfold so3_rotation, quat_matrix, qx, qy, qz, qw. mat_unfold. meq; ring. Qed.
Lemma mvmul_neg3 (M : list (list R)) (v : list R) :
  (exists a1 a2 a3 a4 a5 a6 a7 a8 a9, M = [[a1; a2; a3]; [a4; a5; a6]; [a7; a8; a9]]) -> (exists v1 v2 v3, v = [v1; v2; v3]) ->
  @mvmul RS M (@vneg RS v) = @vneg RS (@mvmul RS M v).
Proof. intros (a1 & a2 & a3 & a4 & a5 & a6 & a7 & a8 & a9 & ->) (v1 & v2 & v3 & ->). mat_unfold. match goal with |- @eq _ ?u ?v => change (@eq (list R) u v) end. list_eq; ring. Qed.

(* the scalar identities: (1/2, b') * (-g1, g2) = (-1/2, b') as polynomials in W *)
Lemma sym_coeff_identities th S C : th <> 0 -> S <> 0 -> S * S + C * C = 1 ->
  let th2 := th * th in let g1 := S / th in let g2 := (1 - C) / th2 in let b' := 1 / th2 - (1 + C) / (2 * th * S) in
  1 / 2 + - g1 - th2 * (1 / 2 * g2 + b' * - g1) = - (1 / 2) /\ b' + g2 + 1 / 2 * - g1 - th2 * (b' * g2) = b'.
Proof.
  intros Hth HS H. cbv zeta. assert (HS2 : S * S = 1 - C * C) by lra. split.
  - field_simplify_eq; [|split; assumption]. replace (S ^ 2) with (1 - C * C) by (rewrite <- HS2; ring). ring.
  - field_simplify_eq; [|split; assumption]. replace (S ^ 2) with (1 - C * C) by (rewrite <- HS2; ring). ring.
Qed.

Section P.
Variable eps : R.
Hypothesis eps_pos : 0 < eps.

Lemma log_sin_ne x y z w : n4 x y z w = 1 -> eps < x * x + y * y + z * z -> w <> 0 ->
  forall a b c, so3_log RS eps [x; y; z; w] = [a; b; c] -> sin (sqrt (a * a + b * b + c * c)) <> 0.
Proof.
  intros Hn Hs2 Hw a b c Hl.
  destruct (so3_log_sqnorm eps eps_pos x y z w Hn Hs2) as (a' & b' & c' & Hl' & Hsq). rewrite Hl in Hl'. injection Hl' as -> -> ->.
  rewrite Hsq. destruct (so3_phi_bounds x y z w Hn ltac:(lra) Hw) as [Hb1 Hb2]. pose proof PI_RGT_0.
  assert (Eabs : 2 * so3_phi x y z w * (2 * so3_phi x y z w) = (2 * Rabs (so3_phi x y z w))²).
  { unfold Rsqr, Rabs. destruct (Rcase_abs (so3_phi x y z w)); ring. }
  rewrite Eabs. rewrite sqrt_Rsqr by lra. apply Rgt_not_eq. apply sin_gt_0; lra.
Qed.

(* the block fact shared by SE3, SE_2(3): V^-1(-w) (-(R(conj q) t)) = -(V^-1(w) t) for w = log q *)
Lemma ljacinv_conj_block x y z w a b c tx ty tz : n4 x y z w = 1 -> eps < x * x + y * y + z * z -> w <> 0 ->
  so3_log RS eps [x; y; z; w] = [a; b; c] ->
  @mvmul RS (so3_ljacinv RS eps [- a; - b; - c]) (@vneg RS (@mvmul RS (so3_rotation RS [- x; - y; - z; w]) [tx; ty; tz])) =
  @vneg RS (@mvmul RS (so3_ljacinv RS eps [a; b; c]) [tx; ty; tz]).
Proof.
  intros Hn Hs2 Hw Hl0. destruct (so3_log_round eps eps_pos x y z w Hn Hs2 Hw) as (a' & b' & c' & Hl & Hbig & HJ & He). cbn [K RS] in *.
  rewrite Hl0 in Hl. injection Hl as <- <- <-.
  pose proof (log_sin_ne x y z w Hn Hs2 Hw a b c Hl0) as HS.
  rewrite rotation_conj.
  assert (ER : so3_rotation RS [x; y; z; w] = poly3 a b c (sin (sqrt (a * a + b * b + c * c)) / sqrt (a * a + b * b + c * c)) ((1 - cos (sqrt (a * a + b * b + c * c))) / (a * a + b * b + c * c))).
  { rewrite <- (so3_exp_rodrigues eps eps_pos a b c Hbig). rewrite He. destruct (Rlt_dec w 0); [|reflexivity]. unfold so3_rotation. symmetry. apply quat_matrix_neg. }
  rewrite ER, mT_poly3.
  match goal with |- context [@mvmul RS ?R0 [tx; ty; tz]] => set (R' := R0) end.
  assert (HR : exists a1 a2 a3 a4 a5 a6 a7 a8 a9, R' = [[a1; a2; a3]; [a4; a5; a6]; [a7; a8; a9]]) by (unfold R', poly3; mat_unfold; do 9 eexists; reflexivity).
  destruct (mvmul3_shape R' [tx; ty; tz] HR) as (r0 & r1 & r2 & Er). cbn [K RS] in *. unfold Mat.vec in *. cbn [K RS] in *. rewrite Er.
  assert (Hnegbig : eps < - a * - a + - b * - b + - c * - c) by (replace (- a * - a + - b * - b + - c * - c) with (a * a + b * b + c * c) by ring; exact Hbig).
  rewrite (so3_ljacinv_poly eps (- a) (- b) (- c) Hnegbig), (so3_ljacinv_poly eps a b c Hbig). cbv zeta.
  replace (- a * - a + - b * - b + - c * - c) with (a * a + b * b + c * c) by ring. rewrite poly3_negv.
  set (th2 := a * a + b * b + c * c) in *. set (th := sqrt th2) in *.
  assert (Hth2 : 0 < th2) by lra. assert (Hth : 0 < th) by (apply sqrt_lt_R0; exact Hth2). assert (Hsq : th * th = th2) by (apply sqrt_sqrt; lra).
  assert (Hsc : sin th * sin th + cos th * cos th = 1) by (replace (sin th * sin th + cos th * cos th) with ((sin th)² + (cos th)²) by (unfold Rsqr; ring); apply sin2_cos2).
  destruct (sym_coeff_identities th (sin th) (cos th) ltac:(lra) HS Hsc) as [E1 E2]. cbv zeta in E1, E2. rewrite Hsq in E1, E2.
  set (bp := 1 / th2 - (1 + cos th) / (2 * th * sin th)) in *.
  set (M' := poly3 a b c (- - (1 / 2)) bp).
  assert (HM : exists a1 a2 a3 a4 a5 a6 a7 a8 a9, M' = [[a1; a2; a3]; [a4; a5; a6]; [a7; a8; a9]]) by (unfold M', poly3; mat_unfold; do 9 eexists; reflexivity).
  assert (EP : @mmul RS M' R' = poly3 a b c (- (1 / 2)) bp).
  { unfold M', R'. rewrite poly3_mul. fold th2. f_equal.
    - replace (- - (1 / 2)) with (1 / 2) by ring. exact E1.
    - replace (- - (1 / 2)) with (1 / 2) by ring. exact E2. }
  rewrite mvmul_neg3 by (first [exact HM | do 3 eexists; reflexivity]). rewrite <- Er.
  rewrite mvmul_mmul3 by (first [exact HM | exact HR | do 3 eexists; reflexivity]). rewrite EP. reflexivity.
Qed.

Theorem se3_log_inverse_generic tx ty tz x y z w : n4 x y z w = 1 -> eps < x * x + y * y + z * z -> w <> 0 ->
  se3_log RS eps (se3_inverse RS [tx; ty; tz; x; y; z; w]) = @vneg RS (se3_log RS eps [tx; ty; tz; x; y; z; w]).
Proof.
  intros Hn Hs2 Hw. destruct (so3_log_round eps eps_pos x y z w Hn Hs2 Hw) as (a & b & c & Hl & Hbig & _ & _). cbn [K RS] in *.
  pose proof (ljacinv_conj_block x y z w a b c tx ty tz Hn Hs2 Hw Hl) as EB.
  unfold se3_inverse, se3_q, se3_t. cbn [vslice skipn firstn]. rewrite so3_inverse_eq. unfold so3_act.
  destruct (mvmul3_shape (so3_rotation RS [- x; - y; - z; w]) [tx; ty; tz]) as (r0 & r1 & r2 & Er).
  { unfold so3_rotation, quat_matrix. mat_unfold. do 9 eexists. reflexivity. }
  cbn [K RS] in *. unfold Mat.vec in *. cbn [K RS] in *. rewrite Er in EB |- *. cbn [vneg map] in EB |- *. cbn [K RS kopp] in EB |- *.
  unfold se3_log, se3_q, se3_t. cbn [app vslice skipn firstn]. cbn [K RS].
  rewrite (so3_log_conj eps x y z w), Hl. change (@vneg RS [a; b; c]) with [- a; - b; - c]. rewrite EB.
  destruct (mvmul3_shape (so3_ljacinv RS eps [a; b; c]) [tx; ty; tz]) as (p0 & p1 & p2 & Ep).
  { rewrite (so3_ljacinv_poly eps a b c Hbig). cbv zeta. unfold poly3. mat_unfold. do 9 eexists. reflexivity. }
  cbn [K RS] in *. rewrite Ep. reflexivity.
Qed.

Theorem se3_isApprox_sym X Y e : se3_valid X -> se3_valid Y -> 0 < e ->
  (* the relative element is on the closed-form branch of log and not a half turn *)
  (forall tx ty tz x y z w, g_compose (SE3 RS eps) (g_inverse (SE3 RS eps) Y) X = [tx; ty; tz; x; y; z; w] -> eps < x * x + y * y + z * z /\ w <> 0) ->
  g_isApprox (SE3 RS eps) X Y e = g_isApprox (SE3 RS eps) Y X e.
Proof.
  intros HX HY He Hgen. pose (C := SE3_core eps eps_pos).
  assert (HZ : se3_valid (g_compose (SE3 RS eps) (g_inverse (SE3 RS eps) Y) X)).
  { apply (gc_compose_valid _ C); [apply (gc_inverse_valid _ C)|]; assumption. }
  destruct HZ as (tx & ty & tz & x & y & z & w & E & Hn). destruct (Hgen tx ty tz x y z w E) as [Hs2 Hw].
  apply (g_isApprox_sym _ C); try assumption.
  - unfold rminus_val. rewrite E. cbn [g_log SE3 g_dof]. unfold se3_log, se3_q, se3_t. cbn [vslice skipn firstn].
    destruct (so3_log_round eps eps_pos x y z w Hn Hs2 Hw) as (a & b & c & Hl & Hbig & _ & _). cbn [K RS] in *. rewrite Hl.
    destruct (mvmul3_shape (so3_ljacinv RS eps [a; b; c]) [tx; ty; tz]) as (p0 & p1 & p2 & Ep).
    { rewrite (so3_ljacinv_poly eps a b c Hbig). cbv zeta. unfold poly3. mat_unfold. do 9 eexists. reflexivity. }
    cbn [K RS] in *. rewrite Ep. reflexivity.
  - unfold rminus_val. rewrite E. cbn [g_log g_inverse SE3]. apply se3_log_inverse_generic; assumption.
Qed.
End P.
