// pred12.h — property C12, evaluated on manif instantiated over the dual-number scalar S = vq::Dual<B>:
//  (a) the derivative of f(X (+) d) (-) f(X) with respect to d at d = 0, read from the dual parts, against the analytic
//      Jacobian the same call reports (times the direction);  (b) primal parts against the same call over the base scalar;
//  (c) the ceres functors (local parameterisation, manifold Plus / Minus, objective, constraint) through raw pointers.
#pragma once
#include "run.h"
#include <manif/ceres/local_parametrization.h>
#include <manif/ceres/manifold.h>
#include <manif/ceres/objective.h>
#include <manif/ceres/constraint.h>

template<class G> struct Pred12 {
  using S = typename G::Scalar;                      // vq::Dual<B>
  using B = decltype(S().a);
  using T = typename G::Tangent; using J = typename G::Jacobian;
  using DG = typename G::DataType; using DT = typename T::DataType; using Vec = typename G::Vector;
  using GB = typename G::template LieGroupTemplate<B>; using TB = typename GB::Tangent;
  using Dyn = Eigen::Matrix<S, Eigen::Dynamic, Eigen::Dynamic>;
  static Dyn prim(const Dyn& m){ Dyn r=m; for(int i=0;i<r.rows();i++) for(int j=0;j<r.cols();j++) r(i,j)=S(m(i,j).a, B(0)); return r; }
  static Dyn dualp(const Dyn& m){ Dyn r=m; for(int i=0;i<r.rows();i++) for(int j=0;j<r.cols();j++) r(i,j)=S(m(i,j).b, B(0)); return r; }
  template<class M> static Dyn D_(const M& m){ return Dyn(m); }
  static GB baseG(const G& X){ typename GB::DataType c; for(int i=0;i<c.size();i++) c(i)=X.coeffs()(i).a; return GB(c); }
  static TB baseT(const T& t){ typename TB::DataType c; for(int i=0;i<c.size();i++) c(i)=t.coeffs()(i).a; return TB(c); }
  template<class M, class MB> static void pair_primal(Out<S>& o, const M& m, const MB& mb){ o.mat(prim(D_(m))); Dyn r(mb.rows(), mb.cols()); for(int i=0;i<r.rows();i++) for(int j=0;j<r.cols();j++) r(i,j)=S(mb(i,j),B(0)); o.mat(r); }

  static bool run(const Case& c, Out<S>& o){
    if(c.op!="P12") return false;
    // args (each primal ++ dual): X, Y (constants: dual parts ignored), t, p;  direction e = dual parts of args[2] (DoF) and of args[3] (Dim)
    G X, Y; T t, e; Vec p, ep;
    { DG x = vec_from<S,DG>(c.args[0]), y = vec_from<S,DG>(c.args[1]); for(int i=0;i<x.size();i++){ x(i)=S(x(i).a,B(0)); y(i)=S(y(i).a,B(0)); } X = G(x); Y = G(y); }
    { DT tt = vec_from<S,DT>(c.args[2]); DT t0 = tt, e0 = tt; for(int i=0;i<tt.size();i++){ t0(i)=S(tt(i).a,B(0)); e0(i)=S(tt(i).b,B(0)); } t = T(t0); e = T(e0); }
    { Vec pp = vec_from<S,Vec>(c.args[3]); p = pp; ep = pp; for(int i=0;i<pp.size();i++){ p(i)=S(pp(i).a,B(0)); ep(i)=S(pp(i).b,B(0)); } }
    DT de = e.coeffs(); for(int i=0;i<de.size();i++) de(i) = S(B(0), e.coeffs()(i).a);        // 0 + eps*e
    const T d(de); const G Xd = X.rplus(d); const G Yd = Y.rplus(d);
    DT te = t.coeffs(); for(int i=0;i<te.size();i++) te(i) = S(t.coeffs()(i).a, e.coeffs()(i).a); const T td(te);
    Vec pe = p; for(int i=0;i<pe.size();i++) pe(i) = S(p(i).a, ep(i).a);
    J ja, jb; Eigen::Matrix<S,G::Dim,G::DoF> jm; Eigen::Matrix<S,G::Dim,G::Dim> jv;
    auto dirG = [&](const G& fd, const G& f0){ return dualp(D_(fd.rminus(f0).coeffs())); };      // d/de [ f(X (+) e d) (-) f(X) ]
    auto dirT = [&](const T& fd, const T& f0){ return dualp(D_(DT(fd.coeffs()-f0.coeffs()))); };
    { G f0 = X.inverse(ja); o.mat(dirG(Xd.inverse(), f0)); o.mat(Dyn(ja*e.coeffs())); }
    { T f0 = X.log(ja); o.mat(dirT(Xd.log(), f0)); o.mat(Dyn(ja*e.coeffs())); }
    { G f0 = t.exp(ja); o.mat(dirG(td.exp(), f0)); o.mat(Dyn(ja*e.coeffs())); }
    { G f0 = X.compose(Y,ja,jb); o.mat(dirG(Xd.compose(Y), f0)); o.mat(Dyn(ja*e.coeffs())); o.mat(dirG(X.compose(Yd), f0)); o.mat(Dyn(jb*e.coeffs())); }
    { G f0 = X.between(Y,ja,jb); o.mat(dirG(Xd.between(Y), f0)); o.mat(Dyn(ja*e.coeffs())); o.mat(dirG(X.between(Yd), f0)); o.mat(Dyn(jb*e.coeffs())); }
    { G f0 = X.rplus(t,ja,jb); o.mat(dirG(Xd.rplus(t), f0)); o.mat(Dyn(ja*e.coeffs())); o.mat(dirG(X.rplus(td), f0)); o.mat(Dyn(jb*e.coeffs())); }
    { G f0 = X.lplus(t,ja,jb); o.mat(dirG(Xd.lplus(t), f0)); o.mat(Dyn(ja*e.coeffs())); o.mat(dirG(X.lplus(td), f0)); o.mat(Dyn(jb*e.coeffs())); }
    { T f0 = Y.rminus(X,ja,jb); o.mat(dirT(Yd.rminus(X), f0)); o.mat(Dyn(ja*e.coeffs())); o.mat(dirT(Y.rminus(Xd), f0)); o.mat(Dyn(jb*e.coeffs())); }
    { T f0 = Y.lminus(X,ja,jb); o.mat(dirT(Yd.lminus(X), f0)); o.mat(Dyn(ja*e.coeffs())); o.mat(dirT(Y.lminus(Xd), f0)); o.mat(Dyn(jb*e.coeffs())); }
    { Vec f0 = X.act(p,jm,jv); o.mat(dualp(D_(Vec(Xd.act(p)-f0)))); o.mat(Dyn(jm*e.coeffs())); o.mat(dualp(D_(Vec(X.act(pe)-f0)))); o.mat(Dyn(jv*ep)); }
    // primal values equal the same calls over the base scalar
    { GB xb = baseG(X), yb = baseG(Y); TB tb = baseT(t);
      pair_primal(o, X.compose(Y).coeffs(), xb.compose(yb).coeffs()); pair_primal(o, X.log().coeffs(), xb.log().coeffs());
      pair_primal(o, t.exp().coeffs(), tb.exp().coeffs()); pair_primal(o, Y.rminus(X).coeffs(), yb.rminus(xb).coeffs());
      pair_primal(o, X.rplus(t).coeffs(), xb.rplus(tb).coeffs()); pair_primal(o, t.rjac(), tb.rjac()); pair_primal(o, X.inverse().adj(), xb.inverse().adj()); }
    // functors through raw pointers (LieGroup = the base-scalar group, T = the dual scalar)
    { DG xs = Xd.coeffs(), out; DT dl = t.coeffs();
      manif::CeresLocalParameterizationFunctor<GB> lp; lp(xs.data(), dl.data(), out.data()); o.mat(out); o.mat(Xd.rplus(t).coeffs());
      manif::CeresManifoldFunctor<GB> mf; mf.Plus(xs.data(), dl.data(), out.data()); o.mat(out); o.mat(Xd.rplus(t).coeffs());
      DT mo; DG ys = Y.coeffs(); mf.Minus(ys.data(), xs.data(), mo.data()); o.mat(mo); o.mat(Y.rminus(Xd).coeffs());
      manif::CeresConstraintFunctor<GB> cf(baseT(t)); DT res; cf(xs.data(), ys.data(), res.data()); o.mat(res); o.mat(DT(t.coeffs() - Y.rminus(Xd).coeffs()));
      manif::CeresObjectiveFunctor<GB> of(baseG(Y)); S r1; of(xs.data(), &r1); using std::sqrt; o.scalar(r1); o.scalar(S(sqrt(Y.rminus(Xd).coeffs().squaredNorm()))); }
    return true;
  }
};
