(* Exp_SE23.v — C02 for SE_2(3): above the small-angle threshold the 5x5 homogeneous matrix of the model's exp
   (rotation through angle-axis; translation and velocity V(theta) rho, V(theta) nu with V = so3 left Jacobian, as the
   code does) is the matrix exponential of hat.  Same method as Exp_SE3.v with one more column. *)
From Coq Require Import Reals ZArith List Lra Lia.
From Coquelicot Require Import Coquelicot.
From Manif Require Import Scalar Mat Consts Group RInst Tac SO2 SO3 SE3 SE23 Generic LieSpec Ode ExpSpec AlgTac Exp_SO3 JacInv_SO3 AdjExp_SO3 Exp_SE3.
Import ListNotations.
Local Open Scope R_scope.

Ltac ij5 i j := destruct i as [|[|[|[|[|i]]]]]; destruct j as [|[|[|[|[|j]]]]].

Section SE23.
Variables a b c x y z d e f phi : R.
Hypothesis Hphi : phi <> 0.
Hypothesis Hphi2 : phi * phi = x * x + y * y + z * z.
Local Notation af := (aff phi).

Definition Hse23 : list (list R) :=
  [[0; - z; y; a; d]; [z; 0; - x; b; e]; [- y; x; 0; c; f]; [0; 0; 0; 0; 0]; [0; 0; 0; 0; 0]].
Definition Gse23 (s : R) : list (list R) :=
  let '(p1, q1, r1) := w1 a b c x y z in let '(p2, q2, r2) := w2 a b c x y z in
  let '(u1, v1, t1) := w1 d e f x y z in let '(u2, v2, t2) := w2 d e f x y z in
  [[af 1 0 0 (- (y * y + z * z)) 0 s; af 0 0 (- z) (x * y) 0 s; af 0 0 y (x * z) 0 s; af 0 a 0 p1 p2 s; af 0 d 0 u1 u2 s];
   [af 0 0 z (x * y) 0 s; af 1 0 0 (- (x * x + z * z)) 0 s; af 0 0 (- x) (y * z) 0 s; af 0 b 0 q1 q2 s; af 0 e 0 v1 v2 s];
   [af 0 0 (- y) (x * z) 0 s; af 0 0 x (y * z) 0 s; af 1 0 0 (- (x * x + y * y)) 0 s; af 0 c 0 r1 r2 s; af 0 f 0 t1 t2 s];
   [af 0 0 0 0 0 s; af 0 0 0 0 0 s; af 0 0 0 0 0 s; af 1 0 0 0 0 s; af 0 0 0 0 0 s];
   [af 0 0 0 0 0 s; af 0 0 0 0 0 s; af 0 0 0 0 0 s; af 0 0 0 0 0 s; af 1 0 0 0 0 s]].

Lemma Gse23_ode s i j : is_derive (fun s => fmat 4 (Gse23 s) i j) s (mmul 4 (fmat 4 (Gse23 s)) (fmat 4 Hse23) i j).
Proof.
  unfold mmul. rewrite !sum_Sn, sum_O. unfold Hierarchy.plus; simpl.
  ij5 i j; unfold fmat, Gse23, Hse23, w2, w1; cbn [Nat.leb andb mnth nth];
  try (apply is_derive_ext with (f := fun _ => 0); [reflexivity|];
       match goal with |- is_derive _ _ ?d => replace d with 0 by ring end; apply @is_derive_const).
  all: apply (der_aff5 x y z phi Hphi Hphi2); unfold aff; ring.
Qed.

Lemma se23_matexp : MatExp 4 Hse23 (Gse23 1).
Proof.
  intros i j Hi Hj.
  apply (ode_matexp 4 (fmat 4 Hse23) (fun s => fmat 4 (Gse23 s)))
    with (a := Rabs x + Rabs y + Rabs z + Rabs a + Rabs b + Rabs c + Rabs d + Rabs e + Rabs f); try assumption.
  - intros i' j' Hi'. unfold fmat, Gse23, w2, w1, mid, aff, Df, Sf, Cf. rewrite !Rmult_0_l, cos_0, sin_0.
    ij5 i' j'; cbn [Nat.leb andb mnth nth Nat.eqb]; try reflexivity; try lia; field; exact Hphi.
  - apply Gse23_ode.
  - intros i' j'. unfold fmat, Hse23.
    assert (Hx := Rabs_pos x). assert (Hy := Rabs_pos y). assert (Hz := Rabs_pos z).
    assert (Ha := Rabs_pos a). assert (Hb := Rabs_pos b). assert (Hc := Rabs_pos c).
    assert (Hd := Rabs_pos d). assert (He := Rabs_pos e). assert (Hf := Rabs_pos f).
    ij5 i' j'; cbn [Nat.leb andb mnth nth]; rewrite ?Rabs_Ropp, ?Rabs_R0; lra.
Qed.
End SE23.

Theorem SE23_exp_matexp eps a b c x y z d e f : 0 < eps -> eps < x * x + y * y + z * z ->
  MatExp 4 (g_hat (SE23 RS eps) [a; b; c; x; y; z; d; e; f]) (g_transform (SE23 RS eps) (g_exp (SE23 RS eps) [a; b; c; x; y; z; d; e; f])).
Proof.
  intros He Hgt.
  set (n := x * x + y * y + z * z) in *.
  assert (Hn : 0 < n) by lra.
  set (phi := sqrt n).
  assert (Hphi : phi <> 0) by (unfold phi; intros H0; apply sqrt_eq_0 in H0; lra).
  assert (Hphi2 : phi * phi = x * x + y * y + z * z) by (unfold phi; rewrite sqrt_sqrt by lra; reflexivity).
  assert (Hh : g_hat (SE23 RS eps) [a; b; c; x; y; z; d; e; f] = Hse23 a b c x y z d e f) by (rcbv; list_eq; ring).
  assert (Hx : g_transform (SE23 RS eps) (g_exp (SE23 RS eps) [a; b; c; x; y; z; d; e; f]) = Gse23 a b c x y z d e f phi 1).
  { cbn [g_transform g_exp SE23]. unfold se23_exp, se23t_ang, se23t_lin, se23t_lin2. cbn [vslice skipn firstn]. cbn [K RS].
    pose proof (so3_exp_rodrigues eps He x y z Hgt) as ER. pose proof (so3_ljac_poly eps x y z Hgt) as EL. cbv zeta in ER, EL.
    fold n in ER, EL. fold phi in ER, EL.
    assert (Hq : exists q0 q1 q2 q3, so3_exp RS eps [x; y; z] = [q0; q1; q2; q3]).
    { unfold so3_exp. destruct (kgtb _ _); [|do 4 eexists; reflexivity].
      unfold quat_of_angle_axis, eigen_normalized. destruct (kgtb _ _); do 4 eexists; reflexivity. }
    destruct Hq as (q0 & q1 & q2 & q3 & Eq). rewrite Eq in ER |- *. rewrite EL.
    unfold se23_transform, se23_rotation, se23_q, se23_t, se23_v.
    repeat match goal with |- context [@mvmul RS ?M ?r] =>
      let Hm := fresh "Hm" in
      assert (Hm : @mvmul RS M r = [@dot RS (nth 0 M []) r; @dot RS (nth 1 M []) r; @dot RS (nth 2 M []) r])
        by (unfold poly3; mat_unfold; reflexivity); rewrite Hm; clear Hm end.
    cbn [app vslice skipn firstn]. rewrite ER.
    unfold Gse23, w2, w1, aff, Df, Sf, Cf, poly3. rewrite !Rmult_1_l. mat_unfold. unfold n. rewrite <- Hphi2.
    match goal with |- @eq _ ?u ?v => change (@eq (list (list R)) u v) end.
    assert (Hpp : phi * phi <> 0) by nra.
    list_eq; field_simplify_eq; try (repeat split; assumption); try exact Hphi; try ring. }
  rewrite Hh, Hx. apply se23_matexp; assumption.
Qed.
