(* ParamBase.v — parametricity (Paramcoq) set-up: relations for the integer types and realizers for the integer functions the
   model uses (the relation on Z / positive / nat is equality, so every integer function is trivially parametric). *)
From Param Require Import Param.
From Coq Require Import ZArith List Bool.

Ltac destruct_reflexivity :=
  intros ; repeat match goal with
    | [ x : _ |- _ = _ ] => destruct x; reflexivity; fail
  end.
Global Parametricity Tactic := ((destruct_reflexivity; fail) || auto).

Parametricity Recursive Z.
Parametricity Recursive nat.
Parametricity Recursive bool.

Lemma positive_R_refl p : positive_R p p. Proof. induction p; constructor; assumption. Defined.
Lemma positive_R_eq p q : positive_R p q -> p = q. Proof. induction 1; congruence. Defined.
Lemma Z_R_refl z : Z_R z z. Proof. destruct z; constructor; apply positive_R_refl. Defined.
Lemma Z_R_eq a b : Z_R a b -> a = b. Proof. destruct 1; try reflexivity; f_equal; apply positive_R_eq; assumption. Defined.
Lemma nat_R_refl n : nat_R n n. Proof. induction n; constructor; assumption. Defined.
Lemma nat_R_eq a b : nat_R a b -> a = b. Proof. induction 1; congruence. Defined.
Lemma bool_R_refl b : bool_R b b. Proof. destruct b; constructor. Defined.
Lemma bool_R_eq a b : bool_R a b -> a = b. Proof. destruct 1; reflexivity. Defined.

Definition liftZZZ (f : Z -> Z -> Z) x1 x2 (Hx : Z_R x1 x2) y1 y2 (Hy : Z_R y1 y2) : Z_R (f x1 y1) (f x2 y2).
Proof. rewrite (Z_R_eq _ _ Hx), (Z_R_eq _ _ Hy). apply Z_R_refl. Defined.
Definition liftZZ (f : Z -> Z) x1 x2 (Hx : Z_R x1 x2) : Z_R (f x1) (f x2).
Proof. rewrite (Z_R_eq _ _ Hx). apply Z_R_refl. Defined.
Definition liftZZb (f : Z -> Z -> bool) x1 x2 (Hx : Z_R x1 x2) y1 y2 (Hy : Z_R y1 y2) : bool_R (f x1 y1) (f x2 y2).
Proof. rewrite (Z_R_eq _ _ Hx), (Z_R_eq _ _ Hy). apply bool_R_refl. Defined.
Definition liftZb (f : Z -> bool) x1 x2 (Hx : Z_R x1 x2) : bool_R (f x1) (f x2).
Proof. rewrite (Z_R_eq _ _ Hx). apply bool_R_refl. Defined.
Definition liftZn (f : Z -> nat) x1 x2 (Hx : Z_R x1 x2) : nat_R (f x1) (f x2).
Proof. rewrite (Z_R_eq _ _ Hx). apply nat_R_refl. Defined.
Definition liftnZ (f : nat -> Z) x1 x2 (Hx : nat_R x1 x2) : Z_R (f x1) (f x2).
Proof. rewrite (nat_R_eq _ _ Hx). apply Z_R_refl. Defined.

Realizer Z.add as Z_add_R := (liftZZZ Z.add).
Realizer Z.sub as Z_sub_R := (liftZZZ Z.sub).
Realizer Z.mul as Z_mul_R := (liftZZZ Z.mul).
Realizer Z.div as Z_div_R := (liftZZZ Z.div).
Realizer Z.modulo as Z_modulo_R := (liftZZZ Z.modulo).
Realizer Z.opp as Z_opp_R := (liftZZ Z.opp).
Realizer Z.ltb as Z_ltb_R := (liftZZb Z.ltb).
Realizer Z.leb as Z_leb_R := (liftZZb Z.leb).
Realizer Z.eqb as Z_eqb_R := (liftZZb Z.eqb).
Realizer Z.odd as Z_odd_R := (liftZb Z.odd).
Realizer Z.to_nat as Z_to_nat_R := (liftZn Z.to_nat).
Realizer Z.of_nat as Z_of_nat_R := (liftnZ Z.of_nat).
