(* Approx.v — proofs for property C18: TangentBase::isApprox and LieGroupBase::isApprox
   (Generic.v: t_isApprox, g_isApprox, mirrors of tangent_base.h / lie_group_base.h and of Eigen's
   isZero / isApprox) form a well-behaved tolerance relation over the reals. *)
From Coq Require Import Reals ZArith List Lra Bool.
From Manif Require Import Scalar Mat Consts Group RInst Tac Generic LieSpec.
Import ListNotations.
Local Open Scope R_scope.

(* ---- vectors over R ---- *)
Lemma sqnorm_nonneg (v : list R) : 0 <= @sqnorm RS v.
Proof.
  unfold sqnorm. induction v as [|a v IH]; cbn [dot K RS k0 kadd kmul]; [lra|]. nra.
Qed.
Lemma sqnorm_vzero n : @sqnorm RS (@vzero RS n) = 0.
Proof.
  unfold sqnorm, vzero. induction n as [|n IH]; cbn [repeat dot K RS k0 kadd kmul]; [reflexivity|].
  cbn [K RS k0] in IH. rewrite IH. ring.
Qed.
Lemma vsub_self_sq (a : list R) : @sqnorm RS (@vsub RS a a) = 0.
Proof.
  unfold sqnorm, vsub. induction a as [|x a IH]; cbn [vmap2 dot K RS k0 kadd kmul ksub]; [reflexivity|].
  cbn [K RS ksub] in IH. rewrite IH. ring.
Qed.
Lemma vsub_sq_sym (a b : list R) : @sqnorm RS (@vsub RS a b) = @sqnorm RS (@vsub RS b a).
Proof.
  unfold sqnorm, vsub. revert b; induction a as [|x a IH]; intros [|y b]; cbn [vmap2 dot K RS k0 kadd kmul ksub]; try reflexivity.
  specialize (IH b). cbn [K RS ksub] in IH. rewrite IH. ring.
Qed.

Definition Rleb (a b : R) : bool := negb (Rltb b a).
Lemma Rleb_true a b : Rleb a b = true <-> a <= b.
Proof. unfold Rleb. destruct (Rltb b a) eqn:E; cbn; [apply Rltb_true in E|apply Rltb_false in E]; split; intros; try easy; lra. Qed.

Lemma kabs_Rabs (c : R) : @kabs RS c = Rabs c.
Proof.
  unfold kabs. cbn [K RS kltb k0 kopp]. unfold Rltb. destruct (Rlt_dec c 0).
  - rewrite Rabs_left; lra.
  - rewrite Rabs_right; lra.
Qed.

Lemma isZero_spec (v : list R) (e : R) : @eigen_isZero RS v e = true <-> Forall (fun c => Rabs c <= e) v.
Proof.
  unfold eigen_isZero. rewrite forallb_forall, Forall_forall. split; intros H c Hc; specialize (H c Hc).
  - unfold kleb in H. cbn [K RS kltb] in H. rewrite kabs_Rabs in H. apply Rleb_true. exact H.
  - unfold kleb. cbn [K RS kltb]. rewrite kabs_Rabs. apply Rleb_true. exact H.
Qed.

Lemma isZero_self (a : list R) e : 0 <= e -> @eigen_isZero RS (@vsub RS a a) e = true.
Proof.
  intros He. apply isZero_spec. unfold vsub. induction a as [|x a IH]; cbn [vmap2]; constructor; [|exact IH].
  cbn [K RS ksub]. replace (x - x) with 0 by ring. rewrite Rabs_R0. exact He.
Qed.
Lemma isZero_sym (a b : list R) e : @eigen_isZero RS (@vsub RS a b) e = @eigen_isZero RS (@vsub RS b a) e.
Proof.
  unfold eigen_isZero, vsub. revert b; induction a as [|x a IH]; intros [|y b]; cbn [vmap2 forallb]; try reflexivity.
  rewrite (IH b). f_equal. unfold kleb. cbn [K RS kltb ksub]. rewrite !kabs_Rabs.
  replace (y - x) with (- (x - y)) by ring. rewrite Rabs_Ropp. reflexivity.
Qed.
Lemma vsub_vzero (t : list R) : @vsub RS t (@vzero RS (length t)) = t.
Proof.
  unfold vsub, vzero. induction t as [|x t IH]; cbn [length repeat vmap2]; [reflexivity|].
  rewrite IH. cbn [K RS ksub k0]. f_equal. ring.
Qed.

Lemma kmin_comm (a b : R) : @kmin RS a b = @kmin RS b a.
Proof. unfold kmin. cbn [K RS kltb]. unfold Rltb. destruct (Rlt_dec b a), (Rlt_dec a b); lra. Qed.
Lemma kmin_self (a : R) : @kmin RS a a = a.
Proof. unfold kmin. destruct (kltb RS a a); reflexivity. Qed.
Lemma kmin_zero_r (a : R) : 0 <= a -> @kmin RS a 0 = 0.
Proof. intros H. unfold kmin. cbn [K RS kltb]. unfold Rltb. destruct (Rlt_dec 0 a); lra. Qed.

(* ---- TangentBase::isApprox ---- *)
Theorem t_isApprox_refl (a : list R) e : 0 < e -> @t_isApprox RS a a e = true.
Proof.
  intros He. unfold t_isApprox. rewrite kmin_self.
  destruct (kltb RS _ e).
  - apply isZero_self; lra.
  - unfold eigen_isApprox. rewrite vsub_self_sq, kmin_self. unfold kleb. cbn [K RS kltb kmul].
    apply Rleb_true. pose proof (sqnorm_nonneg a). cbn [K RS] in *. nra.
Qed.

Theorem t_isApprox_sym (a b : list R) e : @t_isApprox RS a b e = @t_isApprox RS b a e.
Proof.
  unfold t_isApprox. rewrite (kmin_comm (ksqrt RS (@sqnorm RS a))).
  destruct (kltb RS _ e).
  - apply isZero_sym.
  - unfold eigen_isApprox. rewrite (vsub_sq_sym a b), (kmin_comm (@sqnorm RS a)). reflexivity.
Qed.

(* the two regimes, spelled out: an absolute component-wise test when either argument is (nearly) zero,
   a relative test in norm otherwise *)
Theorem t_isApprox_absolute (a b : list R) e :
  Rmin (sqrt (@sqnorm RS a)) (sqrt (@sqnorm RS b)) < e ->
  (@t_isApprox RS a b e = true <-> Forall (fun c => Rabs c <= e) (@vsub RS a b)).
Proof.
  intros H. unfold t_isApprox.
  replace (kltb RS (kmin (ksqrt RS (@sqnorm RS a)) (ksqrt RS (@sqnorm RS b))) e) with true.
  - apply isZero_spec.
  - symmetry. cbn [K RS kltb ksqrt]. apply Rltb_true. unfold kmin. cbn [K RS kltb]. unfold Rltb, Rmin in *.
    destruct (Rlt_dec (sqrt (@sqnorm RS b)) (sqrt (@sqnorm RS a))), (Rle_dec (sqrt (@sqnorm RS a)) (sqrt (@sqnorm RS b))); cbn [K RS] in *; lra.
Qed.
Theorem t_isApprox_relative (a b : list R) e :
  e <= Rmin (sqrt (@sqnorm RS a)) (sqrt (@sqnorm RS b)) ->
  (@t_isApprox RS a b e = true <->
   @sqnorm RS (@vsub RS a b) <= e * e * Rmin (@sqnorm RS a) (@sqnorm RS b)).
Proof.
  intros H. unfold t_isApprox.
  replace (kltb RS (kmin (ksqrt RS (@sqnorm RS a)) (ksqrt RS (@sqnorm RS b))) e) with false.
  - unfold eigen_isApprox, kleb. cbn [K RS kltb kmul]. rewrite (proj1 (Rleb_true _ _) = _) || idtac.
    fold (Rleb (@sqnorm RS (@vsub RS a b)) (e * e * @kmin RS (@sqnorm RS a) (@sqnorm RS b))).
    rewrite Rleb_true.
    replace (@kmin RS (@sqnorm RS a) (@sqnorm RS b)) with (Rmin (@sqnorm RS a) (@sqnorm RS b)); [reflexivity|].
    unfold kmin, Rmin. cbn [K RS kltb]. unfold Rltb.
    destruct (Rlt_dec (@sqnorm RS b) (@sqnorm RS a)), (Rle_dec (@sqnorm RS a) (@sqnorm RS b)); cbn [K RS] in *; lra.
  - symmetry. cbn [K RS kltb ksqrt]. apply Rltb_false. unfold kmin. cbn [K RS kltb]. unfold Rltb, Rmin in *.
    destruct (Rlt_dec (sqrt (@sqnorm RS b)) (sqrt (@sqnorm RS a))), (Rle_dec (sqrt (@sqnorm RS a)) (sqrt (@sqnorm RS b))); cbn [K RS] in *; lra.
Qed.

(* ---- LieGroupBase::isApprox ---- *)
Section Group.
Variable G : GroupOps RS.

Definition rminus_val (X Y : list R) : list R := g_log G (g_compose G (g_inverse G Y) X).

(* for every positive tolerance, X.isApprox(Y, e) is exactly "every component of X (-) Y is at most e in magnitude" *)
Theorem g_isApprox_threshold X Y e : 0 < e -> length (rminus_val X Y) = g_dof G ->
  (g_isApprox G X Y e = true <-> Forall (fun c => Rabs c <= e) (rminus_val X Y)).
Proof.
  intros He Hl. unfold g_isApprox, rminus. fold (rminus_val X Y). unfold t_isApprox, t_zero.
  rewrite sqnorm_vzero. cbn [K RS ksqrt]. rewrite sqrt_0, kmin_zero_r by apply sqrt_pos.
  replace (kltb RS 0 e) with true by (symmetry; apply Rltb_true; exact He).
  rewrite <- Hl, vsub_vzero. apply isZero_spec.
Qed.

Variable C : GroupCore G.
Hypothesis log_identity : g_log G (g_identity G) = @vzero RS (g_dof G).

Lemma vzero_length n : length (@vzero RS n) = n.
Proof. unfold vzero. apply repeat_length. Qed.

Theorem g_isApprox_refl X e : gc_valid C X -> 0 < e -> g_isApprox G X X e = true.
Proof.
  intros HX He. assert (Hr : rminus_val X X = @vzero RS (g_dof G)).
  { unfold rminus_val. rewrite (gc_inv_l G C) by exact HX. exact log_identity. }
  apply g_isApprox_threshold; [exact He | rewrite Hr; apply vzero_length |].
  rewrite Hr. unfold vzero. apply Forall_forall. intros c Hc. apply repeat_spec in Hc. subst c.
  cbn [K RS k0]. rewrite Rabs_R0. lra.
Qed.

(* group facts derived from C01 (on coefficient vectors) *)
Lemma inv_inv X : gc_valid C X -> g_inverse G (g_inverse G X) = X.
Proof.
  intros HX. pose proof (gc_inverse_valid G C X HX) as Hi. pose proof (gc_inverse_valid G C _ Hi) as Hii.
  rewrite <- (gc_neutral_r G C (g_inverse G (g_inverse G X))) by exact Hii.
  rewrite <- (gc_inv_l G C X) by exact HX.
  rewrite <- (gc_assoc G C) by assumption.
  rewrite (gc_inv_l G C) by exact Hi. apply (gc_neutral_l G C); exact HX.
Qed.
Lemma inv_compose X Y : gc_valid C X -> gc_valid C Y ->
  g_inverse G (g_compose G X Y) = g_compose G (g_inverse G Y) (g_inverse G X).
Proof.
  intros HX HY.
  pose proof (gc_inverse_valid G C X HX) as HiX. pose proof (gc_inverse_valid G C Y HY) as HiY.
  pose proof (gc_compose_valid G C X Y HX HY) as HXY. pose proof (gc_inverse_valid G C _ HXY) as HiXY.
  pose proof (gc_compose_valid G C _ _ HiY HiX) as HYX.
  rewrite <- (gc_neutral_r G C (g_inverse G (g_compose G X Y))) by exact HiXY.
  assert (E : g_compose G (g_compose G X Y) (g_compose G (g_inverse G Y) (g_inverse G X)) = g_identity G).
  { rewrite (gc_assoc G C) by assumption.
    rewrite <- (gc_assoc G C Y) by assumption. rewrite (gc_inv_r G C) by exact HY.
    rewrite (gc_neutral_l G C) by exact HiX. apply (gc_inv_r G C); exact HX. }
  rewrite <- E. rewrite <- (gc_assoc G C) by assumption.
  rewrite (gc_inv_l G C) by exact HXY. apply (gc_neutral_l G C); exact HYX.
Qed.

(* symmetry: needs log(Z^-1) = -log(Z) for the relative element Z = Y^-1 X (true off the cut locus; per-group lemmas below) *)
Theorem g_isApprox_sym X Y e : gc_valid C X -> gc_valid C Y -> 0 < e ->
  length (rminus_val X Y) = g_dof G ->
  g_log G (g_inverse G (g_compose G (g_inverse G Y) X)) = @vneg RS (rminus_val X Y) ->
  g_isApprox G X Y e = g_isApprox G Y X e.
Proof.
  intros HX HY He Hl Hneg.
  assert (E : rminus_val Y X = @vneg RS (rminus_val X Y)).
  { unfold rminus_val at 1. rewrite <- Hneg. f_equal.
    rewrite inv_compose by (try apply (gc_inverse_valid G C); assumption). rewrite inv_inv by exact HY. reflexivity. }
  assert (Hl' : length (rminus_val Y X) = g_dof G) by (rewrite E; unfold vneg; rewrite map_length; exact Hl).
  apply eq_true_iff_eq. rewrite !g_isApprox_threshold by assumption. rewrite E.
  unfold vneg. rewrite Forall_map. split; apply Forall_impl; intros c Hc; cbn [K RS kopp] in *; rewrite Rabs_Ropp in *; exact Hc.
Qed.
End Group.
