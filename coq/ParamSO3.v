(* ParamSO3.v — ParamRun.run_op_chain closed for SO3's exp on both branches (|t|^2 <> eps): the dual parts of the quaternion
   computed over dual numbers are the derivatives of the real-number exp along the seeded direction. *)
From Param Require Import Param.
From Coq Require Import Reals ZArith List Lra Lia.
From Coquelicot Require Import Coquelicot.
From Manif Require Import ParamBase Scalar RInst Dual DualProofs ParamDual Mat Consts Group SO3 Run ParamRun Tac.
Import ListNotations.
Local Open Scope R_scope.

Theorem chain_SO3_exp eps x y z dx dy dz j : 0 < eps -> x * x + y * y + z * z <> eps -> (j < 4)%nat ->
  is_derive (fun h => entry 0 (@run_op RS eps GSO3 OExp [] 0%Z (at_h h [[x; y; z]] [[dx; dy; dz]])) 0 j) 0
    (snd (entry (0, 0) (@run_op (DS RS) (eps, 0) GSO3 OExp [] 0%Z (seed [[x; y; z]] [[dx; dy; dz]])) 0 j)).
Proof.
  intros He Hne Hj.
  set (nf := fun h : R => (x + h * dx) * (x + h * dx) + ((y + h * dy) * (y + h * dy) + ((z + h * dz) * (z + h * dz) + 0))).
  assert (Hc : continuous nf 0).
  { apply (ex_derive_continuous nf). unfold nf. auto_derive. exact I. }
  assert (N0 : nf 0 = x * x + y * y + z * z) by (unfold nf; ring).
  assert (SQ : forall F : Sc, @sqnorm F = fun v => @dot F v v) by reflexivity.
  assert (EKh : forall h, fn (@sqnorm (FSh h) [line1 x dx; line1 y dy; line1 z dz]) = nf) by (intros h; reflexivity).
  assert (EK0 : fn (@sqnorm FS [line1 x dx; line1 y dy; line1 z dz]) = nf) by reflexivity.
  set (rD := @run_op (DS RS) (eps, 0) GSO3 OExp [] 0%Z (seed [[x; y; z]] [[dx; dy; dz]])).
  assert (ED : exists o, rD = Ok [o] /\ length o = 4%nat).
  { unfold rD. cbn [run_op group_of arg bit nth seed combine map fst snd g_exp SO3 out1]. unfold so3_exp. destruct (kgtb _ _).
    - unfold quat_of_angle_axis, eigen_normalized. destruct (kgtb _ _); eexists; split; reflexivity.
    - eexists; split; reflexivity. }
  destruct ED as (o & ED & Lo). rewrite ED. cbn [entry nth]. change o with (nth 0 [o] []) at 1.
  destruct (Rlt_dec eps (x * x + y * y + z * z)) as [Hgt|Hle].
  - (* closed-form branch *)
    assert (Hloc : locally 0 (fun h => eps < nf h)).
    { apply (Hc (fun v => eps < v)). apply (open_gt eps). rewrite N0. exact Hgt. }
    apply (run_op_chain eps GSO3 OExp [] 0%Z [[x; y; z]] [[dx; dy; dz]] [o] 0 j); [|exact ED|cbn; lia|cbn [nth]; rewrite Lo; exact Hj|].
    + apply (filter_imp (fun h => eps < nf h)); [intros h Hh|exact Hloc].
      cbn [run_op group_of arg bit nth lineF combine map fst snd g_exp SO3 out1]. unfold so3_exp, eigen_normalized, kgtb.
      cbn [kltb FSh FS fn fconst]. rewrite EKh, EK0, N0. change (fn (k0 (FSh h)) h) with 0. change (fn (k0 FS) 0) with 0.
      rewrite (Rltb_lt_true _ _ Hh), (Rltb_lt_true _ _ Hgt), (Rltb_lt_true 0 (nf h)) by lra. rewrite (Rltb_lt_true 0 (x * x + y * y + z * z)) by lra. reflexivity.
    + cbn [run_op group_of arg bit nth lineF combine map fst snd g_exp SO3 out1 entry]. unfold so3_exp, eigen_normalized, kgtb.
      cbn [kltb FS fn fconst]. rewrite EK0, N0. change (fn (k0 FS) 0) with 0. rewrite (Rltb_lt_true _ _ Hgt), (Rltb_lt_true 0 (x * x + y * y + z * z)) by lra.
      assert (Hs : sqrt (nf 0) <> 0) by (rewrite N0; intros E0; apply sqrt_eq_0 in E0; lra).
      assert (Hp : 0 < nf 0) by (rewrite N0; lra).
      destruct j as [|[|[|[|j]]]]; [| | | |exfalso; lia]; cbn; fold nf; tauto.
  - (* small-angle branch *)
    assert (Hlt : x * x + y * y + z * z < eps) by lra.
    assert (Hloc : locally 0 (fun h => nf h < eps)).
    { apply (Hc (fun v => v < eps)). apply (open_lt eps). rewrite N0. exact Hlt. }
    apply (run_op_chain eps GSO3 OExp [] 0%Z [[x; y; z]] [[dx; dy; dz]] [o] 0 j); [|exact ED|cbn; lia|cbn [nth]; rewrite Lo; exact Hj|].
    + apply (filter_imp (fun h => nf h < eps)); [intros h Hh|exact Hloc].
      cbn [run_op group_of arg bit nth lineF combine map fst snd g_exp SO3 out1]. unfold so3_exp, kgtb.
      cbn [kltb FSh FS fn fconst]. rewrite EKh, EK0, N0.
      rewrite (Rltb_lt_false eps (nf h)) by lra. rewrite (Rltb_lt_false eps (x * x + y * y + z * z)) by lra. reflexivity.
    + cbn [run_op group_of arg bit nth lineF combine map fst snd g_exp SO3 out1 entry]. unfold so3_exp, kgtb.
      cbn [kltb FS fn fconst]. rewrite EK0, N0. rewrite (Rltb_lt_false eps (x * x + y * y + z * z)) by lra.
      assert (H2 : 2 <> 0) by lra.
      destruct j as [|[|[|[|j]]]]; [| | | |exfalso; lia]; cbn; tauto.
Qed.
Print Assumptions chain_SO3_exp.

(* SE3 exp (translation V(theta) rho and quaternion), both branches *)
From Manif Require Import SE3.
Theorem chain_SE3_exp eps a b c x y z da db dc dx dy dz j : 0 < eps -> x * x + y * y + z * z <> eps -> (j < 7)%nat ->
  is_derive (fun h => entry 0 (@run_op RS eps GSE3 OExp [] 0%Z (at_h h [[a; b; c; x; y; z]] [[da; db; dc; dx; dy; dz]])) 0 j) 0
    (snd (entry (0, 0) (@run_op (DS RS) (eps, 0) GSE3 OExp [] 0%Z (seed [[a; b; c; x; y; z]] [[da; db; dc; dx; dy; dz]])) 0 j)).
Proof.
  intros He Hne Hj.
  set (nf := fun h : R => (x + h * dx) * (x + h * dx) + ((y + h * dy) * (y + h * dy) + ((z + h * dz) * (z + h * dz) + 0))).
  assert (Hc : continuous nf 0).
  { apply (ex_derive_continuous nf). unfold nf. auto_derive. exact I. }
  assert (N0 : nf 0 = x * x + y * y + z * z) by (unfold nf; ring).
  assert (EKh : forall h, fn (@sqnorm (FSh h) [line1 x dx; line1 y dy; line1 z dz]) = nf) by (intros h; reflexivity).
  assert (EK0 : fn (@sqnorm FS [line1 x dx; line1 y dy; line1 z dz]) = nf) by reflexivity.
  set (rD := @run_op (DS RS) (eps, 0) GSE3 OExp [] 0%Z (seed [[a; b; c; x; y; z]] [[da; db; dc; dx; dy; dz]])).
  assert (ED : exists o, rD = Ok [o] /\ length o = 7%nat).
  { unfold rD. cbn [run_op group_of arg bit nth seed combine map fst snd g_exp SE3 out1]. unfold se3_exp, se3t_ang, se3t_lin, so3_ljac, so3_exp. cbn [skipn firstn].
    destruct (kleb _ _); destruct (kgtb _ _); unfold quat_of_angle_axis, eigen_normalized; try destruct (kgtb _ _); eexists; split; reflexivity. }
  destruct ED as (o & ED & Lo). rewrite ED. cbn [entry nth]. change o with (nth 0 [o] []) at 1.
  destruct (Rlt_dec eps (x * x + y * y + z * z)) as [Hgt|Hle].
  - assert (Hloc : locally 0 (fun h => eps < nf h)).
    { apply (Hc (fun v => eps < v)). apply (open_gt eps). rewrite N0. exact Hgt. }
    apply (run_op_chain eps GSE3 OExp [] 0%Z [[a; b; c; x; y; z]] [[da; db; dc; dx; dy; dz]] [o] 0 j); [|exact ED|cbn; lia|cbn [nth]; rewrite Lo; exact Hj|].
    + apply (filter_imp (fun h => eps < nf h)); [intros h Hh|exact Hloc].
      cbn [run_op group_of arg bit nth lineF combine map fst snd g_exp SE3 out1]. unfold se3_exp, se3t_ang, se3t_lin, so3_ljac, so3_exp, eigen_normalized, kgtb, kleb. cbn [skipn firstn].
      cbn [kltb FSh FS fn fconst]. rewrite EKh, EK0, N0. change (fn (k0 (FSh h)) h) with 0. change (fn (k0 FS) 0) with 0.
      rewrite (Rltb_lt_true _ _ Hh), (Rltb_lt_true _ _ Hgt), (Rltb_lt_true 0 (nf h)) by lra. rewrite (Rltb_lt_true 0 (x * x + y * y + z * z)) by lra. reflexivity.
    + cbn [run_op group_of arg bit nth lineF combine map fst snd g_exp SE3 out1 entry]. unfold se3_exp, se3t_ang, se3t_lin, so3_ljac, so3_exp, eigen_normalized, kgtb, kleb. cbn [skipn firstn].
      cbn [kltb FS fn fconst]. rewrite EK0, N0. change (fn (k0 FS) 0) with 0. rewrite (Rltb_lt_true _ _ Hgt), (Rltb_lt_true 0 (x * x + y * y + z * z)) by lra.
      assert (Hs : sqrt (nf 0) <> 0) by (rewrite N0; intros E0; apply sqrt_eq_0 in E0; lra).
      assert (Hp : 0 < nf 0) by (rewrite N0; lra). assert (Hn : nf 0 <> 0) by lra. assert (Hns : nf 0 * sqrt (nf 0) <> 0) by (apply Rmult_integral_contrapositive; split; assumption).
      do 7 (destruct j as [|j]; [cbn; fold nf; tauto|]). exfalso; lia.
  - assert (Hlt : x * x + y * y + z * z < eps) by lra.
    assert (Hloc : locally 0 (fun h => nf h < eps)).
    { apply (Hc (fun v => v < eps)). apply (open_lt eps). rewrite N0. exact Hlt. }
    apply (run_op_chain eps GSE3 OExp [] 0%Z [[a; b; c; x; y; z]] [[da; db; dc; dx; dy; dz]] [o] 0 j); [|exact ED|cbn; lia|cbn [nth]; rewrite Lo; exact Hj|].
    + apply (filter_imp (fun h => nf h < eps)); [intros h Hh|exact Hloc].
      cbn [run_op group_of arg bit nth lineF combine map fst snd g_exp SE3 out1]. unfold se3_exp, se3t_ang, se3t_lin, so3_ljac, so3_exp, kgtb, kleb. cbn [skipn firstn].
      cbn [kltb FSh FS fn fconst]. rewrite EKh, EK0, N0.
      rewrite (Rltb_lt_false eps (nf h)) by lra. rewrite (Rltb_lt_false eps (x * x + y * y + z * z)) by lra. reflexivity.
    + cbn [run_op group_of arg bit nth lineF combine map fst snd g_exp SE3 out1 entry]. unfold se3_exp, se3t_ang, se3t_lin, so3_ljac, so3_exp, kgtb, kleb. cbn [skipn firstn].
      cbn [kltb FS fn fconst]. rewrite EK0, N0. rewrite (Rltb_lt_false eps (x * x + y * y + z * z)) by lra.
      assert (H2 : 2 <> 0) by lra.
      do 7 (destruct j as [|j]; [cbn; tauto|]). exfalso; lia.
Qed.

(* C12's clause "the dual parts reproduce the analytic Jacobian", as a theorem, for the translation of SE3's exp: chain_SE3_exp
   (dual part = derivative of the real-number exp) and C05's se3_rjac_translation_derivative (that derivative =
   R(exp t) * (rjac(t) d)_rho, rjac the model's own, fillQ blocks included) have the same left-hand side *)
From Manif Require Import Jr_SO3 Jr_SE3.
Theorem se3_exp_dual_is_analytic eps a b c x y z da db dc dx dy dz i : 0 < eps -> eps < x * x + y * y + z * z -> (i < 3)%nat ->
  snd (entry (0, 0) (@run_op (DS RS) (eps, 0) GSE3 OExp [] 0%Z (seed [[a; b; c; x; y; z]] [[da; db; dc; dx; dy; dz]])) 0 i) =
  nth i (@mvmul RS (so3_rotation RS (so3_exp RS eps [x; y; z])) (rjac_lin eps a b c x y z da db dc dx dy dz)) 0.
Proof.
  intros He Hgt Hi.
  pose proof (chain_SE3_exp eps a b c x y z da db dc dx dy dz i He ltac:(lra) ltac:(lia)) as D1.
  pose proof (se3_rjac_translation_derivative eps He a b c x y z da db dc dx dy dz i Hgt Hi) as D2.
  apply (is_derive_unique _ _ _) in D1. apply (is_derive_unique _ _ _) in D2. rewrite <- D1, <- D2. reflexivity.
Qed.

(* SO3 log on its closed-form branch (vector part above the threshold), upper hemisphere w > 0: two comparisons, sqrt, atan2 *)
Theorem chain_SO3_log eps x y z w dx dy dz dw j : 0 < eps -> eps < x * x + y * y + z * z -> 0 < w -> (j < 3)%nat ->
  is_derive (fun h => entry 0 (@run_op RS eps GSO3 OLog [] 0%Z (at_h h [[x; y; z; w]] [[dx; dy; dz; dw]])) 0 j) 0
    (snd (entry (0, 0) (@run_op (DS RS) (eps, 0) GSO3 OLog [] 0%Z (seed [[x; y; z; w]] [[dx; dy; dz; dw]])) 0 j)).
Proof.
  intros He Hgt Hw Hj.
  set (nf := fun h : R => (x + h * dx) * (x + h * dx) + ((y + h * dy) * (y + h * dy) + ((z + h * dz) * (z + h * dz) + 0))).
  assert (Hc : continuous nf 0) by (apply (ex_derive_continuous nf); unfold nf; auto_derive; exact I).
  assert (Hcw : continuous (fun h : R => w + h * dw) 0) by (apply (ex_derive_continuous (fun h : R => w + h * dw)); auto_derive; exact I).
  assert (N0 : nf 0 = x * x + y * y + z * z) by (unfold nf; ring).
  assert (EKh : forall h, fn (@sqnorm (FSh h) [line1 x dx; line1 y dy; line1 z dz]) = nf) by (intros h; reflexivity).
  assert (EK0 : fn (@sqnorm FS [line1 x dx; line1 y dy; line1 z dz]) = nf) by reflexivity.
  set (rD := @run_op (DS RS) (eps, 0) GSO3 OLog [] 0%Z (seed [[x; y; z; w]] [[dx; dy; dz; dw]])).
  assert (ED : exists o, rD = Ok [o] /\ length o = 3%nat).
  { unfold rD. cbn [run_op group_of arg bit nth seed combine map fst snd g_log SO3 out1]. unfold so3_log, vscale_r. cbn [firstn map]. eexists; split; reflexivity. }
  destruct ED as (o & ED & Lo). rewrite ED. cbn [entry nth]. change o with (nth 0 [o] []) at 1.
  assert (Hloc : locally 0 (fun h => eps < nf h /\ 0 < w + h * dw)).
  { apply filter_and; [apply (Hc (fun v => eps < v)); apply (open_gt eps); rewrite N0; exact Hgt|].
    apply (Hcw (fun v => 0 < v)). apply (open_gt 0). rewrite Rmult_0_l, Rplus_0_r. exact Hw. }
  apply (run_op_chain eps GSO3 OLog [] 0%Z [[x; y; z; w]] [[dx; dy; dz; dw]] [o] 0 j); [|exact ED|cbn; lia|cbn [nth]; rewrite Lo; exact Hj|].
  - apply (filter_imp (fun h => eps < nf h /\ 0 < w + h * dw)); [intros h [Hh Hwh]|exact Hloc].
    cbn [run_op group_of arg bit nth lineF combine map fst snd g_log SO3 out1]. unfold so3_log, kgtb, qw. cbn [firstn vnth nth].
    cbn [kltb FSh FS fn fconst line1]. cbn [K FSh FS] in *. rewrite EKh, EK0, N0.
    rewrite (Rltb_lt_true _ _ Hh), (Rltb_lt_true _ _ Hgt).
    change (fn (@kz (FSh h) 0) h) with 0. change (fn (@kz FS 0) 0) with 0.
    rewrite (Rltb_lt_false (w + h * dw) 0) by lra. rewrite (Rltb_lt_false (w + 0 * dw) 0) by lra. reflexivity.
  - cbn [run_op group_of arg bit nth lineF combine map fst snd g_log SO3 out1 entry]. unfold so3_log, kgtb, qw. cbn [firstn vnth nth].
    cbn [kltb FS fn fconst line1]. cbn [K FSh FS] in *. rewrite EK0, N0. rewrite (Rltb_lt_true _ _ Hgt).
    change (fn (@kz FS 0) 0) with 0. rewrite (Rltb_lt_false (w + 0 * dw) 0) by lra.
    assert (Hs : sqrt (nf 0) <> 0) by (rewrite N0; intros E0; apply sqrt_eq_0 in E0; lra).
    assert (Hp : 0 < nf 0) by (rewrite N0; lra). assert (Hw0 : 0 < w + 0 * dw) by lra.
    destruct j as [|[|[|j]]]; [| | |exfalso; lia]; cbn; fold nf; tauto.
Qed.
Print Assumptions chain_SO3_log.
