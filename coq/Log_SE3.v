(* Log_SE3.v — property C03 for SE3, generic branch, off the half turn: exp(log X) is X up to the sign of the quaternion
   (the same transformation).  Ingredients: Log_SO3 (exp(log q) = +-q) and JacInv_SO3 (V^-1 = ljacinv is the inverse of
   V = ljac, the matrix the translation is recovered with). *)
From Coq Require Import Reals ZArith List Lra.
From Manif Require Import Scalar Mat Consts Group RInst Tac Atan2 SO3 SE3 Generic LieSpec SO3Proofs Log_SO3 JacInv_SO3 HistProofs HistInst.
Import ListNotations.
Local Open Scope R_scope.

Lemma mvmul_mmul3 (A B : list (list R)) (v : list R) :
  (exists a1 a2 a3 a4 a5 a6 a7 a8 a9, A = [[a1; a2; a3]; [a4; a5; a6]; [a7; a8; a9]]) ->
  (exists b1 b2 b3 b4 b5 b6 b7 b8 b9, B = [[b1; b2; b3]; [b4; b5; b6]; [b7; b8; b9]]) ->
  (exists v1 v2 v3, v = [v1; v2; v3]) ->
  @mvmul RS A (@mvmul RS B v) = @mvmul RS (@mmul RS A B) v.
Proof.
  intros (a1 & a2 & a3 & a4 & a5 & a6 & a7 & a8 & a9 & ->) (b1 & b2 & b3 & b4 & b5 & b6 & b7 & b8 & b9 & ->) (v1 & v2 & v3 & ->).
  mat_unfold. match goal with |- @eq _ ?u ?v => change (@eq (list R) u v) end. list_eq; ring.
Qed.

Section P.
Variable eps : R.
Hypothesis eps_pos : 0 < eps.

(* the squared norm of log q in the generic branch is (2 phi)^2, and 0 < 2|phi| < pi off the half turn *)
Lemma so3_log_sqnorm x y z w : n4 x y z w = 1 -> eps < x * x + y * y + z * z ->
  exists a b c, so3_log RS eps [x; y; z; w] = [a; b; c] /\ a * a + b * b + c * c = (2 * so3_phi x y z w) * (2 * so3_phi x y z w).
Proof.
  intros Hn Hs2. rewrite so3_log_generic by assumption. cbv zeta. eexists _, _, _. split; [reflexivity|].
  set (s2 := x * x + y * y + z * z) in *. assert (Hs : 0 < sqrt s2) by (apply sqrt_lt_R0; lra). assert (Hss : sqrt s2 * sqrt s2 = s2) by (apply sqrt_sqrt; lra).
  set (s := sqrt s2) in *. set (phi := so3_phi x y z w).
  replace (x * (2 * phi / s) * (x * (2 * phi / s)) + y * (2 * phi / s) * (y * (2 * phi / s)) + z * (2 * phi / s) * (z * (2 * phi / s)))
    with ((2 * phi) * (2 * phi) * (s2 / (s * s))) by (unfold s2; field; lra). rewrite Hss. field. lra.
Qed.

Lemma so3_phi_bounds x y z w : n4 x y z w = 1 -> 0 < x * x + y * y + z * z -> w <> 0 ->
  0 < Rabs (so3_phi x y z w) < PI / 2.
Proof.
  intros Hn Hs2 Hw. destruct (phi_facts x y z w Hn Hs2) as [Fneg Fpos]. pose proof PI_RGT_0.
  assert (Hs : 0 < sqrt (x * x + y * y + z * z)) by (apply sqrt_lt_R0; exact Hs2).
  destruct (Rlt_dec w 0) as [Hneg|Hpos].
  - destruct (Fneg Hneg) as (_ & _ & Hphi). rewrite Rabs_left by exact Hphi. split; [lra|].
    unfold so3_phi. destruct (Rlt_dec w 0); [|lra]. unfold atan2. destruct (Rlt_dec 0 (- w)); [|lra].
    pose proof (atan_bound (- sqrt (x * x + y * y + z * z) / - w)). lra.
  - destruct (Fpos ltac:(lra)) as (_ & _ & Hphi). rewrite Rabs_right by lra. split; [lra|].
    unfold so3_phi. destruct (Rlt_dec w 0); [lra|]. unfold atan2. destruct (Rlt_dec 0 w); [|lra].
    pose proof (atan_bound (sqrt (x * x + y * y + z * z) / w)). lra.
Qed.

Theorem se3_exp_log_generic tx ty tz x y z w : n4 x y z w = 1 -> eps < x * x + y * y + z * z -> w <> 0 ->
  se3_exp RS eps (se3_log RS eps [tx; ty; tz; x; y; z; w]) =
  [tx; ty; tz] ++ (if Rlt_dec w 0 then [- x; - y; - z; - w] else [x; y; z; w]).
Proof.
  intros Hn Hs2 Hw. unfold se3_log, se3_exp, se3_q, se3_t, se3t_ang, se3t_lin. cbn [vslice skipn firstn]. cbn [K RS].
  destruct (so3_log_sqnorm x y z w Hn Hs2) as (a & b & c & Hl & Hsq). rewrite Hl. cbn [K RS].
  assert (Hbig : eps < a * a + b * b + c * c).
  { rewrite Hsq. destruct (phi_facts x y z w Hn ltac:(lra)) as [Fneg Fpos].
    assert (Hsin : sin (so3_phi x y z w) * sin (so3_phi x y z w) = x * x + y * y + z * z).
    { assert (Hss : sqrt (x * x + y * y + z * z) * sqrt (x * x + y * y + z * z) = x * x + y * y + z * z) by (apply sqrt_sqrt; lra).
      destruct (Rlt_dec w 0) as [Hq|Hq]; [destruct (Fneg Hq) as (_ & -> & _)|destruct (Fpos ltac:(lra)) as (_ & -> & _)]; lra. }
    pose proof (sin_sq_le_sq (so3_phi x y z w)). nra. }
  assert (Hsinne : sin (sqrt (a * a + b * b + c * c)) <> 0).
  { rewrite Hsq. destruct (so3_phi_bounds x y z w Hn ltac:(lra) Hw) as [Hb1 Hb2]. pose proof PI_RGT_0.
    assert (Eabs : 2 * so3_phi x y z w * (2 * so3_phi x y z w) = (2 * Rabs (so3_phi x y z w))²).
    { unfold Rsqr, Rabs. destruct (Rcase_abs (so3_phi x y z w)); ring. }
    rewrite Eabs.
    rewrite sqrt_Rsqr by lra. apply Rgt_not_eq. apply sin_gt_0; lra. }
  destruct (so3_ljac_ljacinv eps eps_pos a b c Hbig Hsinne) as [HJ _].
  destruct (so3_ljac_shape eps a b c) as (l1 & l2 & l3 & l4 & l5 & l6 & l7 & l8 & l9 & El).
  destruct (so3_ljacinv_shape eps a b c) as (i1 & i2 & i3 & i4 & i5 & i6 & i7 & i8 & i9 & Ei).
  rewrite El, Ei in HJ. mat_unfold_in HJ.
  injection HJ as H11 H12 H13 H21 H22 H23 H31 H32 H33.
  repeat match goal with |- context [so3_ljacinv RS eps ?l] => replace (so3_ljacinv RS eps l) with [[i1; i2; i3]; [i4; i5; i6]; [i7; i8; i9]] by (symmetry; exact Ei) end.
  repeat match goal with |- context [so3_ljac RS eps ?l] => replace (so3_ljac RS eps l) with [[l1; l2; l3]; [l4; l5; l6]; [l7; l8; l9]] by (symmetry; exact El) end.
  match goal with |- context [so3_exp RS eps ?l] => replace (so3_exp RS eps l) with (so3_exp RS eps (so3_log RS eps [x; y; z; w])) by (f_equal; exact Hl) end.
  rewrite so3_exp_log_generic by assumption. mat_unfold.
  match goal with |- @eq _ ?u ?v => change (@eq (list R) u v) end.
  destruct (Rlt_dec w 0); list_eq; try reflexivity.
  all: try (replace (l1 * (i1 * tx + (i2 * ty + (i3 * tz + 0))) + (l2 * (i4 * tx + (i5 * ty + (i6 * tz + 0))) + (l3 * (i7 * tx + (i8 * ty + (i9 * tz + 0))) + 0)))
       with ((l1 * i1 + (l2 * i4 + (l3 * i7 + 0))) * tx + (l1 * i2 + (l2 * i5 + (l3 * i8 + 0))) * ty + (l1 * i3 + (l2 * i6 + (l3 * i9 + 0))) * tz) by ring; rewrite H11, H12, H13; ring).
  all: try (replace (l4 * (i1 * tx + (i2 * ty + (i3 * tz + 0))) + (l5 * (i4 * tx + (i5 * ty + (i6 * tz + 0))) + (l6 * (i7 * tx + (i8 * ty + (i9 * tz + 0))) + 0)))
       with ((l4 * i1 + (l5 * i4 + (l6 * i7 + 0))) * tx + (l4 * i2 + (l5 * i5 + (l6 * i8 + 0))) * ty + (l4 * i3 + (l5 * i6 + (l6 * i9 + 0))) * tz) by ring; rewrite H21, H22, H23; ring).
  all: try (replace (l7 * (i1 * tx + (i2 * ty + (i3 * tz + 0))) + (l8 * (i4 * tx + (i5 * ty + (i6 * tz + 0))) + (l9 * (i7 * tx + (i8 * ty + (i9 * tz + 0))) + 0)))
       with ((l7 * i1 + (l8 * i4 + (l9 * i7 + 0))) * tx + (l7 * i2 + (l8 * i5 + (l9 * i8 + 0))) * ty + (l7 * i3 + (l8 * i6 + (l9 * i9 + 0))) * tz) by ring; rewrite H31, H32, H33; ring).
Qed.
End P.
