(* JacInv_SE3.v — property C06 for SE3 (generic branch, sin theta <> 0): rjacinv and ljacinv are the two-sided matrix
   inverses of rjac and ljac.  The 6x6 Jacobians are block upper triangular [[D, Q]; [0, D]] and the code's inverses are
   [[Di, -Di Q Di]; [0, Di]]; with D Di = Di D = I (JacInv_SO3) the block products are the identity, for ANY 3x3 block Q. *)
From Coq Require Import Reals ZArith List Lra.
From Manif Require Import Scalar Mat Consts Group RInst Tac SO3 SE3 JacInv_SO3.
Import ListNotations.
Local Open Scope R_scope.

Local Notation M3 := (list (list R)).
Definition is33 (A : M3) : Prop := exists a1 a2 a3 a4 a5 a6 a7 a8 a9, A = [[a1; a2; a3]; [a4; a5; a6]; [a7; a8; a9]].
Definition blk (A B C : M3) : M3 := @vcat RS (@hcat RS A B) (@hcat RS (@mzero RS 3 3) C).

Ltac open33 H := destruct H as (?a1 & ?a2 & ?a3 & ?a4 & ?a5 & ?a6 & ?a7 & ?a8 & ?a9 & ->).
Ltac meq := match goal with |- @eq _ ?u ?v => change (@eq (list (list R)) u v) end; list_eq.

Lemma blk_mul A B C A' B' C' : is33 A -> is33 B -> is33 C -> is33 A' -> is33 B' -> is33 C' ->
  @mmul RS (blk A B C) (blk A' B' C') = blk (@mmul RS A A') (@madd RS (@mmul RS A B') (@mmul RS B C')) (@mmul RS C C').
Proof. intros HA HB HC HA' HB' HC'. open33 HA. open33 HB. open33 HC. open33 HA'. open33 HB'. open33 HC'. unfold blk. mat_unfold. meq; ring. Qed.
Lemma blk_id : blk (@mid RS 3) (@mzero RS 3 3) (@mid RS 3) = @mid RS 6.
Proof. unfold blk. mat_unfold. reflexivity. Qed.
Lemma is33_mmul A B : is33 A -> is33 B -> is33 (@mmul RS A B).
Proof. intros HA HB. open33 HA. open33 HB. mat_unfold. do 9 eexists. reflexivity. Qed.
Lemma is33_mneg A : is33 A -> is33 (@mneg RS A).
Proof. intros HA. open33 HA. mat_unfold. do 9 eexists. reflexivity. Qed.
(* A (-(Di Q) Di) + Q Di = 0 when A Di = I; and (-(Di Q) Di) A + ... for the other side *)
Lemma cancel_r A Di Q : is33 A -> is33 Di -> is33 Q -> @mmul RS A Di = @mid RS 3 ->
  @madd RS (@mmul RS A (@mmul RS (@mmul RS (@mneg RS Di) Q) Di)) (@mmul RS Q Di) = @mzero RS 3 3.
Proof.
  intros HA HD HQ E.
  assert (E' : @mmul RS A (@mmul RS (@mmul RS (@mneg RS Di) Q) Di) = @mneg RS (@mmul RS (@mmul RS (@mmul RS A Di) Q) Di)).
  { open33 HA. open33 HD. open33 HQ. mat_unfold. meq; ring. }
  rewrite E', E. open33 HD. open33 HQ. mat_unfold. meq; ring.
Qed.
Lemma cancel_l A Di Q : is33 A -> is33 Di -> is33 Q -> @mmul RS Di A = @mid RS 3 ->
  @madd RS (@mmul RS Di Q) (@mmul RS (@mmul RS (@mmul RS (@mneg RS Di) Q) Di) A) = @mzero RS 3 3.
Proof.
  intros HA HD HQ E.
  assert (E' : @mmul RS (@mmul RS (@mmul RS (@mneg RS Di) Q) Di) A = @mneg RS (@mmul RS (@mmul RS Di Q) (@mmul RS Di A))).
  { open33 HA. open33 HD. open33 HQ. mat_unfold. meq; ring. }
  rewrite E', E. open33 HD. open33 HQ. mat_unfold. meq; ring.
Qed.

(* the general block statement *)
Theorem blk_inverse D Di Q : is33 D -> is33 Di -> is33 Q -> @mmul RS D Di = @mid RS 3 -> @mmul RS Di D = @mid RS 3 ->
  @mmul RS (blk D Q D) (blk Di (@mmul RS (@mmul RS (@mneg RS Di) Q) Di) Di) = @mid RS 6 /\
  @mmul RS (blk Di (@mmul RS (@mmul RS (@mneg RS Di) Q) Di) Di) (blk D Q D) = @mid RS 6.
Proof.
  intros HD HDi HQ E1 E2.
  assert (HX : is33 (@mmul RS (@mmul RS (@mneg RS Di) Q) Di)) by (apply is33_mmul; [apply is33_mmul; [apply is33_mneg|]|]; assumption).
  split.
  - rewrite blk_mul by assumption. rewrite E1, (cancel_r D Di Q HD HDi HQ E1). apply blk_id.
  - rewrite blk_mul by assumption. rewrite E2.
    replace (@madd RS (@mmul RS Di Q) (@mmul RS (@mmul RS (@mmul RS (@mneg RS Di) Q) Di) D)) with (@mzero RS 3 3) by (symmetry; apply cancel_l; assumption).
    apply blk_id.
Qed.

Section P.
Variable eps : R.
Hypothesis eps_pos : 0 < eps.

Lemma ljac_is33 x y z : eps < x * x + y * y + z * z -> is33 (so3_ljac RS eps [x; y; z]).
Proof. intros H. rewrite (so3_ljac_poly eps x y z H). cbv zeta. unfold poly3, is33. mat_unfold. do 9 eexists. reflexivity. Qed.
Lemma ljacinv_is33 x y z : eps < x * x + y * y + z * z -> is33 (so3_ljacinv RS eps [x; y; z]).
Proof. intros H. rewrite (so3_ljacinv_poly eps x y z H). cbv zeta. unfold poly3, is33. mat_unfold. do 9 eexists. reflexivity. Qed.
Lemma rjac_is33 x y z : eps < x * x + y * y + z * z -> is33 (so3_rjac RS eps [x; y; z]).
Proof. intros H. unfold so3_rjac. rewrite (so3_ljac_poly eps x y z H). cbv zeta. rewrite mT_poly3. unfold poly3, is33. mat_unfold. do 9 eexists. reflexivity. Qed.
Lemma rjacinv_is33 x y z : eps < x * x + y * y + z * z -> is33 (so3_rjacinv RS eps [x; y; z]).
Proof. intros H. unfold so3_rjacinv. rewrite (so3_ljacinv_poly eps x y z H). cbv zeta. rewrite mT_poly3. unfold poly3, is33. mat_unfold. do 9 eexists. reflexivity. Qed.
Lemma fillQ_is33 t : is33 (fillQ RS eps t).
Proof.
  unfold fillQ. destruct (kleb _ _); set (V := @skew3 RS _); set (W := @skew3 RS _);
  (assert (HV : is33 V) by (unfold V, skew3; destruct (firstn 3 t) as [|? [|? [|? [|? ?]]]]; mat_unfold; do 9 eexists; reflexivity));
  (assert (HW : is33 W) by (unfold W, skew3; destruct (skipn 3 t) as [|? [|? [|? [|? ?]]]]; mat_unfold; do 9 eexists; reflexivity));
  open33 HV; open33 HW; mat_unfold; do 9 eexists; reflexivity.
Qed.

Theorem se3_ljac_ljacinv a b c x y z : eps < x * x + y * y + z * z -> sin (sqrt (x * x + y * y + z * z)) <> 0 ->
  @mmul RS (se3_ljac RS eps [a; b; c; x; y; z]) (se3_ljacinv RS eps [a; b; c; x; y; z]) = @mid RS 6 /\
  @mmul RS (se3_ljacinv RS eps [a; b; c; x; y; z]) (se3_ljac RS eps [a; b; c; x; y; z]) = @mid RS 6.
Proof.
  intros H HS. destruct (so3_ljac_ljacinv eps eps_pos x y z H HS) as [E1 E2].
  unfold se3_ljac, se3_ljacinv, se3t_ang. cbn [skipn]. cbn [K RS].
  apply (blk_inverse (so3_ljac RS eps [x; y; z]) (so3_ljacinv RS eps [x; y; z]) (fillQ RS eps [a; b; c; x; y; z]));
    [apply ljac_is33; exact H|apply ljacinv_is33; exact H|apply fillQ_is33|exact E1|exact E2].
Qed.
Theorem se3_rjac_rjacinv a b c x y z : eps < x * x + y * y + z * z -> sin (sqrt (x * x + y * y + z * z)) <> 0 ->
  @mmul RS (se3_rjac RS eps [a; b; c; x; y; z]) (se3_rjacinv RS eps [a; b; c; x; y; z]) = @mid RS 6 /\
  @mmul RS (se3_rjacinv RS eps [a; b; c; x; y; z]) (se3_rjac RS eps [a; b; c; x; y; z]) = @mid RS 6.
Proof.
  intros H HS. destruct (so3_rjac_rjacinv eps eps_pos x y z H HS) as [E1 E2].
  unfold se3_rjac, se3_rjacinv, se3t_ang. cbn [skipn]. cbn [K RS].
  apply (blk_inverse (so3_rjac RS eps [x; y; z]) (so3_rjacinv RS eps [x; y; z]) (fillQ RS eps (@vneg RS [a; b; c; x; y; z])));
    [apply rjac_is33; exact H|apply rjacinv_is33; exact H|apply fillQ_is33|exact E1|exact E2].
Qed.
End P.
