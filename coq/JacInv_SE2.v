(* JacInv_SE2.v — property C06 for SE2 (closed-form branch, eps < theta^2, cos theta <> 1 — the code divides by
   cos theta - 1): rjacinv is the two-sided matrix inverse of rjac and ljacinv of ljac.  Exact over the reals; the
   entries are rational in (x, y, theta, sin, cos) and the products reduce to I by sin^2 + cos^2 = 1. *)
From Coq Require Import Reals ZArith List Lra.
From Manif Require Import Scalar Mat Consts Group RInst Tac SE2.
Import ListNotations.
Local Open Scope R_scope.

Ltac meq := match goal with |- @eq _ ?u ?v => change (@eq (list (list R)) u v) end; list_eq.

Section P.
Variable eps : R.
Hypothesis eps_pos : 0 < eps.

Lemma se2_rjac_rjacinv x y th : eps < th * th -> cos th <> 1 ->
  @mmul RS (se2_rjac RS eps [x; y; th]) (se2_rjacinv RS eps [x; y; th]) = @mid RS 3 /\
  @mmul RS (se2_rjacinv RS eps [x; y; th]) (se2_rjac RS eps [x; y; th]) = @mid RS 3.
Proof.
  intros Hth Hc. assert (Hth0 : th <> 0) by (intros E; rewrite E in Hth; lra).
  assert (Hs : sin th * sin th = 1 - cos th * cos th) by (pose proof (sin2_cos2 th) as H; unfold Rsqr in H; lra).
  unfold se2_rjac, se2_rjacinv, se2_AB, c_half. mat_unfold.
  assert (Hb : Rltb (th * th) eps = false) by (apply Rltb_false; lra). rewrite Hb.
  assert (Hb' : Rltb eps (th * th) = true) by (apply Rltb_true; exact Hth). rewrite Hb'.
  set (s := sin th) in *. set (c := cos th) in *. clearbody s c.
  assert (Hc1 : c - 1 <> 0) by lra. assert (Hc2 : 2 * c - 2 <> 0) by lra.
  split; meq.
  all: try (field_simplify_eq; [|repeat split; assumption]).
  all: try (replace (s ^ 2) with (1 - c * c) by (rewrite <- Hs; ring)); ring.
Qed.
Lemma se2_ljac_ljacinv x y th : eps < th * th -> cos th <> 1 ->
  @mmul RS (se2_ljac RS eps [x; y; th]) (se2_ljacinv RS eps [x; y; th]) = @mid RS 3 /\
  @mmul RS (se2_ljacinv RS eps [x; y; th]) (se2_ljac RS eps [x; y; th]) = @mid RS 3.
Proof.
  intros Hth Hc. assert (Hth0 : th <> 0) by (intros E; rewrite E in Hth; lra).
  assert (Hs : sin th * sin th = 1 - cos th * cos th) by (pose proof (sin2_cos2 th) as H; unfold Rsqr in H; lra).
  unfold se2_ljac, se2_ljacinv, se2_AB, c_half. mat_unfold.
  assert (Hb : Rltb (th * th) eps = false) by (apply Rltb_false; lra). rewrite Hb.
  assert (Hb' : Rltb eps (th * th) = true) by (apply Rltb_true; exact Hth). rewrite Hb'.
  set (s := sin th) in *. set (c := cos th) in *. clearbody s c.
  assert (Hc1 : c - 1 <> 0) by lra. assert (Hc2 : 2 * c - 2 <> 0) by lra.
  split; meq.
  all: try (field_simplify_eq; [|repeat split; assumption]).
  all: try (replace (s ^ 2) with (1 - c * c) by (rewrite <- Hs; ring)); ring.
Qed.

(* Adj(exp t) = ljac(t) * rjacinv(t) *)
Lemma se2_adj_exp x y th : eps < th * th -> cos th <> 1 ->
  se2_adj RS (se2_exp RS eps [x; y; th]) = @mmul RS (se2_ljac RS eps [x; y; th]) (se2_rjacinv RS eps [x; y; th]).
Proof.
  intros Hth Hc. assert (Hth0 : th <> 0) by (intros E; rewrite E in Hth; lra).
  assert (Hs : sin th * sin th = 1 - cos th * cos th) by (pose proof (sin2_cos2 th) as H; unfold Rsqr in H; lra).
  unfold se2_adj, se2_exp, se2_ljac, se2_rjacinv, se2_AB, se2_x, se2_y, se2_real, se2_imag, se2_rotation, c_half. mat_unfold.
  assert (Hb : Rltb (th * th) eps = false) by (apply Rltb_false; lra). rewrite Hb.
  assert (Hb' : Rltb eps (th * th) = true) by (apply Rltb_true; exact Hth). rewrite Hb'.
  set (s := sin th) in *. set (c := cos th) in *. clearbody s c.
  assert (Hc1 : c - 1 <> 0) by lra. assert (Hc2 : 2 * c - 2 <> 0) by lra.
  meq.
  all: try (field_simplify_eq; [|repeat split; assumption]).
  all: try (replace (s ^ 2) with (1 - c * c) by (rewrite <- Hs; ring)); ring.
Qed.
End P.
