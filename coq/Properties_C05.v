(* Properties_C05.v — property C05 (every analytic Jacobian is the true derivative): the part that is
   closed so far.  Two layers, both exact over the reals:
   (1) JacLaws (LieSpec.v), per group: the matrices the per-group code returns ARE the chain-rule
       expressions of Lie theory in terms of Adj / Jr / Jr^-1:
         J_inverse = -Adj(X);  J_compose = (Adj(Y^-1), I) with Adj(Y^-1) Adj(Y) = I;
         J_exp = Jr(t);  J_log = Jr^-1(log X);  J_act wrt the point = the rotation block.
   (2) for the operations LieGroupBase derives once for all groups (any GroupOps record): the returned
       Jacobians are the stated products, the same in every requested subset (lminus and between have
       distinct code paths per subset).
   Together with C06 (Adj / Jr identities) this reduces every Jacobian to the statement "rjac is the
   right Jacobian of exp"; that analytic statement is proved for SE2 in the generic branch (section (3) below:
   C05_SE2_rjac_is_derivative, by differentiation of the closed form), and for the other groups it is tested on every run against
   forward differences (step 1e-30) of manif's own templates in 100-digit arithmetic (DESIGN.md, C05). *)
From Coq Require Import Reals List Lra.
From Manif Require Import Scalar Mat Group RInst Generic LieSpec SO2 SE2 SO3 SE3 SE23 SGal3 Rn
  SE2Proofs SO3Proofs SE23Proofs RnProofs Jac_All.
Import ListNotations.
Local Open Scope R_scope.

Theorem C05_jac_SO2 eps : 0 < eps -> JacLaws (SO2 RS eps) so2_valid.     Proof. intros _. exact (SO2_jac eps). Qed.
Theorem C05_jac_SE2 eps : 0 < eps -> JacLaws (SE2 RS eps) se2_valid.     Proof. exact (SE2_jac eps). Qed.
Theorem C05_jac_SO3 eps : 0 < eps -> JacLaws (SO3 RS eps) so3_valid.     Proof. exact (SO3_jac eps). Qed.
Theorem C05_jac_SE3 eps : 0 < eps -> JacLaws (SE3 RS eps) se3_valid.     Proof. exact (SE3_jac eps). Qed.
Theorem C05_jac_SE23 eps : 0 < eps -> JacLaws (SE23 RS eps) se23_valid.  Proof. exact (SE23_jac eps). Qed.
Theorem C05_jac_SGal3 eps : 0 < eps -> JacLaws (SGal3 RS eps) sg_valid.  Proof. exact (SGal3_jac eps). Qed.
Print Assumptions C05_jac_SGal3.
Theorem C05_jac_R1 : JacLaws (Rn RS 1) (rn_valid 1). Proof. exact R1_jac. Qed.
Theorem C05_jac_R2 : JacLaws (Rn RS 2) (rn_valid 2). Proof. exact R2_jac. Qed.
Theorem C05_jac_R3 : JacLaws (Rn RS 3) (rn_valid 3). Proof. exact R3_jac. Qed.
Theorem C05_jac_R4 : JacLaws (Rn RS 4) (rn_valid 4). Proof. exact R4_jac. Qed.
Theorem C05_jac_R5 : JacLaws (Rn RS 5) (rn_valid 5). Proof. exact R5_jac. Qed.
Theorem C05_jac_R6 : JacLaws (Rn RS 6) (rn_valid 6). Proof. exact R6_jac. Qed.
Theorem C05_jac_R7 : JacLaws (Rn RS 7) (rn_valid 7). Proof. exact R7_jac. Qed.
Theorem C05_jac_R8 : JacLaws (Rn RS 8) (rn_valid 8). Proof. exact R8_jac. Qed.
Theorem C05_jac_R9 : JacLaws (Rn RS 9) (rn_valid 9). Proof. exact R9_jac. Qed.

(* the derived operations, for ANY group record (this is LieGroupBase / TangentBase) *)
Section AnyGroup.
Variable F : Sc.
Variable G : GroupOps F.
Local Notation "'J1' r" := (snd (fst r)) (at level 10).
Local Notation "'J2' r" := (snd r) (at level 10).

Theorem C05_rplus X t : J1 (rplus G X t true true) = Some (g_compose_Ja G X (g_exp G t)) /\
                        J2 (rplus G X t true true) = Some (g_rjac G t).
Proof. split; reflexivity. Qed.
Theorem C05_lplus X t : J1 (lplus G X t true true) = Some (mid (g_dof G)) /\
                        J2 (lplus G X t true true) = Some (mmul (g_adj G (g_inverse G X)) (g_rjac G t)).
Proof. split; reflexivity. Qed.
Theorem C05_rminus X Y : let tau := g_log G (g_compose G (g_inverse G Y) X) in
  J1 (rminus G X Y true true) = Some (g_rjacinv G tau) /\ J2 (rminus G X Y true true) = Some (mneg (g_rjacinv G (vneg tau))).
Proof. split; reflexivity. Qed.
Theorem C05_lminus X Y : let tau := g_log G (g_compose G X (g_inverse G Y)) in
  J1 (lminus G X Y true true) = Some (mmul (g_rjacinv G tau) (g_adj G Y)) /\
  J2 (lminus G X Y true true) = Some (mneg (mmul (g_rjacinv G tau) (g_adj G Y))).
Proof. split; reflexivity. Qed.
Theorem C05_between X Y : let mc := g_compose G (g_inverse G X) Y in
  J1 (between G X Y true true) = Some (mneg (g_adj G (g_inverse G mc))) /\ J2 (between G X Y true true) = Some (mid (g_dof G)).
Proof. split; reflexivity. Qed.
(* each Jacobian is the same whichever other one is requested with it (every code path) *)
Theorem C05_subset_independent (op : list (K F) -> list (K F) -> bool -> bool -> list (K F) * option (list (list (K F))) * option (list (list (K F)))) :
  In op [rplus G; lplus G; rminus G; lminus G; between G; t_plus G; t_minus G] ->
  forall X Y b, J1 (op X Y true b) = J1 (op X Y true true) /\ J2 (op X Y b true) = J2 (op X Y true true) /\
                J1 (op X Y false b) = None /\ J2 (op X Y b false) = None.
Proof.
  intros Hin X Y b. cbn [In] in Hin.
  repeat (destruct Hin as [<-|Hin]; [destruct b; repeat split; reflexivity|]). destruct Hin.
Qed.
(* tangent plus / minus: +-I *)
Theorem C05_tplus a b : J1 (t_plus G a b true true) = Some (mid (g_dof G)) /\ J2 (t_plus G a b true true) = Some (mid (g_dof G)).
Proof. split; reflexivity. Qed.
Theorem C05_tminus a b : J1 (t_minus G a b true true) = Some (mid (g_dof G)) /\
                         J2 (t_minus G a b true true) = Some (mscale_r (mid (g_dof G)) (kz (-1))).
Proof. split; reflexivity. Qed.
End AnyGroup.
Print Assumptions C05_subset_independent.

(* (3) SE2: rjac IS the right Jacobian of exp (generic branch).  The model's exp and rjac are the closed forms below
   whenever eps <= theta^2, and along every direction d the curve h -> exp(t + h d) has at h = 0 the left-trivialised
   velocity u = rjac(t) d: position' = R(theta) (u1, u2), (cos, sin)' = (-sin, cos) u3. *)
From Coquelicot Require Import Coquelicot.
From Manif Require Import Jr_SE2.
Theorem C05_SE2_exp_generic_form eps x y th : eps <= th * th -> se2_exp RS eps [x; y; th] = [ex x y th; ey x y th; cos th; sin th].
Proof. exact (se2_exp_generic eps x y th). Qed.
Theorem C05_SE2_rjac_generic_form eps x y th : eps <= th * th ->
  se2_rjac RS eps [x; y; th] =
  [[sin th / th; (1 - cos th) / th; (- y + th * x + y * cos th - x * sin th) / (th * th)];
   [- ((1 - cos th) / th); sin th / th; (x + th * y - x * cos th - y * sin th) / (th * th)];
   [0; 0; 1]].
Proof. exact (se2_rjac_generic eps x y th). Qed.
Theorem C05_SE2_rjac_is_derivative x y th dx dy dth : th <> 0 ->
  let u1 := sin th / th * dx + (1 - cos th) / th * dy + (- y + th * x + y * cos th - x * sin th) / (th * th) * dth in
  let u2 := - ((1 - cos th) / th) * dx + sin th / th * dy + (x + th * y - x * cos th - y * sin th) / (th * th) * dth in
  let u3 := dth in
  is_derive (fun h => ex (x + h * dx) (y + h * dy) (th + h * dth)) 0 (cos th * u1 - sin th * u2) /\
  is_derive (fun h => ey (x + h * dx) (y + h * dy) (th + h * dth)) 0 (sin th * u1 + cos th * u2) /\
  is_derive (fun h => cos (th + h * dth)) 0 (- sin th * u3) /\
  is_derive (fun h => sin (th + h * dth)) 0 (cos th * u3).
Proof. exact (se2_rjac_is_derivative x y th dx dy dth). Qed.
Print Assumptions C05_SE2_rjac_is_derivative.

(* SO3: rjac(t) is the right Jacobian of exp at t, generic branch, in the sense of the property: along any direction d the
   rotation matrix of exp(t + h d) has derivative R(exp t) * hat(rjac(t) d) at h = 0, i.e. exp(t + h d) =
   exp(t) (+) h rjac(t) d + o(h).  The statement is about the model's own exp / rjac (the generic branch holds on a
   neighbourhood of h = 0 since eps < |t|^2 is an open condition). *)
From Manif Require Import Jr_SO3.
Theorem C05_SO3_rjac_is_derivative eps x y z dx dy dz i j : 0 < eps -> eps < x * x + y * y + z * z -> (i < 3)%nat -> (j < 3)%nat ->
  is_derive (fun h => @mnth RS (so3_rotation RS (so3_exp RS eps [x + h * dx; y + h * dy; z + h * dz])) i j) 0
    (@mnth RS (@Mat.mmul RS (so3_rotation RS (so3_exp RS eps [x; y; z])) (@skew3 RS (@mvmul RS (so3_rjac RS eps [x; y; z]) [dx; dy; dz]))) i j).
Proof. intros H. exact (so3_rjac_is_derivative eps H x y z dx dy dz i j). Qed.
Print Assumptions C05_SO3_rjac_is_derivative.

(* SE3: rjac(t) is the right Jacobian of exp at t, generic branch.  Translation part: along any direction d the translation of
   exp(t + h d) (= V(theta) rho, as the code computes it) has derivative R(exp t) u_rho at h = 0, with u = rjac(t) d and
   u_rho its first three components (Jr d_rho + Q(-t) d_theta, Q = fillQ).  Rotation part: the last three components of u are
   the SO3 right Jacobian applied to d_theta (C05_SE3_rjac_angular_block), for which C05_SO3_rjac_is_derivative is the statement.
   Together: d/dh T(exp(t + h d)) = T(exp t) hat(rjac(t) d) for the homogeneous matrix T. *)
From Manif Require Import Jr_SE3.
Theorem C05_SE3_rjac_translation_derivative eps a b c x y z da db dc dx dy dz i : 0 < eps -> eps < x * x + y * y + z * z -> (i < 3)%nat ->
  is_derive (fun h => nth i (se3_exp RS eps [a + h * da; b + h * db; c + h * dc; x + h * dx; y + h * dy; z + h * dz]) 0) 0
    (nth i (@mvmul RS (so3_rotation RS (so3_exp RS eps [x; y; z]))
                   (firstn 3 (@mvmul RS (se3_rjac RS eps [a; b; c; x; y; z]) [da; db; dc; dx; dy; dz]))) 0).
Proof. intros H. exact (se3_rjac_translation_derivative eps H a b c x y z da db dc dx dy dz i). Qed.
Theorem C05_SE3_rjac_angular_block eps a b c x y z da db dc dx dy dz : 0 < eps -> eps < x * x + y * y + z * z ->
  skipn 3 (@mvmul RS (se3_rjac RS eps [a; b; c; x; y; z]) [da; db; dc; dx; dy; dz]) = @mvmul RS (so3_rjac RS eps [x; y; z]) [dx; dy; dz].
Proof. intros H. exact (rjac_ang eps H a b c x y z da db dc dx dy dz). Qed.
Print Assumptions C05_SE3_rjac_translation_derivative.

(* SE_2(3): the same for the translation (components 0..2 of exp) and the velocity (components 7..9): their derivatives
   along t + h d at h = 0 are R(exp t) applied to the first resp. last block of rjac(t) d *)
From Manif Require Import SE23 Jr_SE23.
Theorem C05_SE23_rjac_is_derivative eps a b c x y z d e f da db dc dx dy dz dd de df i : 0 < eps -> eps < x * x + y * y + z * z -> (i < 3)%nat ->
  let R := so3_rotation RS (so3_exp RS eps [x; y; z]) in
  let u := @mvmul RS (se23_rjac RS eps [a; b; c; x; y; z; d; e; f]) [da; db; dc; dx; dy; dz; dd; de; df] in
  is_derive (fun h => nth i (se23_exp RS eps [a + h * da; b + h * db; c + h * dc; x + h * dx; y + h * dy; z + h * dz; d + h * dd; e + h * de; f + h * df]) 0) 0
            (nth i (@mvmul RS R (firstn 3 u)) 0) /\
  is_derive (fun h => nth (7 + i) (se23_exp RS eps [a + h * da; b + h * db; c + h * dc; x + h * dx; y + h * dy; z + h * dz; d + h * dd; e + h * de; f + h * df]) 0) 0
            (nth i (@mvmul RS R (skipn 6 u)) 0).
Proof. intros H. exact (se23_rjac_is_derivative eps H a b c x y z d e f da db dc dx dy dz dd de df i). Qed.
Print Assumptions C05_SE23_rjac_is_derivative.
