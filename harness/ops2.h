// ops2.h — further operations by name: histories (C08), algorithms (C15, C16, C17), cast.
#pragma once
#include "run.h"
#include <manif/algorithms/interpolation.h>
#include <manif/algorithms/average.h>
#include <manif/algorithms/decasteljau.h>
#include <gmpxx.h>
#include "ctor.h"
#include "views.h"

template<class G> struct GroupRunner2 {
  using S = typename G::Scalar;
  using T = typename G::Tangent;
  using DG = typename G::DataType;
  using DT = typename T::DataType;
  static G mkG(const std::vector<std::string>& a){ return G(vec_from<S,DG>(a)); }
  static T mkT(const std::vector<std::string>& a){ return T(vec_from<S,DT>(a)); }

  // one step of a history (same decoding as coq/Hist.v: hstep)
  static void hstep(G& X, G& Y, int digit, size_t s, const std::vector<T>& ts, const std::vector<S>& us){
    const T t = ts.empty() ? T::Zero() : ts[s % ts.size()];
    switch(digit){
      case 1: X = X * Y; break;
      case 2: X = X.inverse(); break;
      case 3: X = X.between(Y); break;
      case 4: X += t; break;
      case 5: X = X.lplus(t); break;
      case 6: X *= X; break;
      case 7: X = t.exp(); break;
      case 8: { G Z = X; X = Y; Y = Z; } break;
      case 9: { S u = us.empty() ? S(0) : us[s % us.size()];
                try { X = manif::interpolate(X, Y, u, manif::INTERP_METHOD::SLERP); } catch(const manif::runtime_error&) {} } break;
      case 10: X = Y * X; break;
      case 11: X = X.template cast<S>(); break;
      default: break;
    }
  }

  static bool run(const Case& c, Out<S>& o){
    const std::string& op = c.op;
    if(op=="History"){
      G X=mkG(c.args[0]), Y=mkG(c.args[1]);
      std::vector<S> us; for(auto& x: c.args[2]) us.push_back(ScalarIO<S>::parse(x));
      std::vector<T> ts; for(size_t i=3;i<c.args.size();i++) ts.push_back(mkT(c.args[i]));
      mpz_class code(c.iarg); size_t s=0;
      while(code != 0 && s < 400){ int d = (int)mpz_class(code % 16).get_si(); code /= 16; hstep(X,Y,d,s,ts,us); s++; }
      o.mat(X.coeffs()); o.mat(Y.coeffs());
    }
    else if(op=="Interp"){
      G A=mkG(c.args[0]), B=mkG(c.args[1]); S t=ScalarIO<S>::parse(c.args[2][0]); T ta=mkT(c.args[3]), tb=mkT(c.args[4]);
      int k=std::stoi(c.iarg); G r;
      if(k>=10) r = manif::interpolate_smooth(A,B,t,(unsigned)(k-10),ta,tb);
      else r = manif::interpolate(A,B,t,static_cast<manif::INTERP_METHOD>(k),ta,tb);
      o.mat(r.coeffs());
    }
    else if(op=="Phi"){ S t=ScalarIO<S>::parse(c.args[0][0]); o.scalar(manif::smoothing_phi(t,(std::size_t)std::stol(c.iarg))); }
    else if(op=="Average"){
      S e=ScalarIO<S>::parse(c.args[0][0]); int k=std::stoi(c.iarg); int it=k%100; k/=100;
      std::vector<G, Eigen::aligned_allocator<G>> pts; for(size_t i=1;i<c.args.size();i++) pts.push_back(mkG(c.args[i]));
      G r;
      switch(k){
        case 0: r = manif::average_biinvariant(pts,e,it); break;
        case 1: r = manif::average(pts,e,it); break;
        case 2: r = manif::average_frechet_left(pts,e,it); break;
        default: r = manif::average_frechet_right(pts,e,it); break; }
      o.mat(r.coeffs());
    }
    else if(op=="Decasteljau"){
      long code=std::stol(c.iarg); bool closed = code%2; code/=2; unsigned k = code%1000, d = code/1000;
      std::vector<G> traj; for(size_t i=1;i<c.args.size();i++) traj.push_back(mkG(c.args[i]));
      std::vector<G> curve = manif::decasteljau(traj, d, k, closed);
      for(auto& p: curve) o.mat(p.coeffs());
    }
    else if(op=="Ctor"){ return run_ctor<G>(c,o); }
    else if(op=="View"){ return run_view<G>(c,o); }
    else if(op=="Cast"){ G X=mkG(c.args[0]); G r = X.template cast<S>(); o.mat(r.coeffs()); }
    else return false;
    return true;
  }
};
