(* Bundle.v — model of impl/bundle/*: a Bundle over an arbitrary list of groups, written as the code writes it:
   compile-time offset tables (traits.h: compute_indices, as the template recursion computes them) and
   pack-expansion loops that apply the element operation to the i-th view and store the result in the block at the
   i-th offsets of the appropriate table (DimIdx / DoFIdx / RepSizeIdx / TraIdx / AlgIdx). *)
From Coq Require Import ZArith List Bool.
Import ListNotations.
From Manif Require Import Scalar Mat Consts Group.

(* traits.h: compute_indices_gen<N, i, j, Args...> *)
Fixpoint ci_gen (N : nat) (i : nat) (l : list nat) : list nat :=
  match N with
  | O => []
  | S N' =>
    match N' with
    | O => 0%nat :: tl l
    | S _ => match l with j :: args => ci_gen N' (i + j) (args ++ [i + j]) | [] => [] end
    end
  end.
Definition compute_indices (sizes : list nat) : list nat := ci_gen (length sizes) 0 sizes.
Definition accumulate (sizes : list nat) : nat := fold_right Nat.add 0%nat sizes.

Section Bundle.
Variable F : Sc.
Variable L : list (GroupOps F).
Local Notation vec := (list (K F)).
Local Notation mat := (list (list (K F))).

Definition total (f : GroupOps F -> nat) : nat := accumulate (map f L).
Definition idx (f : GroupOps F -> nat) (i : nat) : nat := nth i (compute_indices (map f L)) 0%nat.
Definition indexed : list (nat * GroupOps F) := combine (seq 0 (length L)) L.
Definition imap {A} (f : nat -> GroupOps F -> A) : list A := map (fun p => f (fst p) (snd p)) indexed.

(* element<i>() on the group side (view at RepSizeIdx) and on the tangent side (view at the tangent's RepSizeIdx = DoF offsets) *)
Definition el (X : vec) (i : nat) (G : GroupOps F) : vec := vslice X (idx g_rep i) (g_rep G).
Definition tel (t : vec) (i : nat) (G : GroupOps F) : vec := vslice t (idx g_dof i) (g_dof G).

(* Bundle(elements...) / BundleTangent(elements...): segment<size_i>(offset_i) = part_i *)
Definition assemble (f : GroupOps F -> nat) (parts : list vec) : vec :=
  fold_left (fun acc p => vset acc (idx f (fst p)) (snd p)) (combine (seq 0 (length parts)) parts) (vzero (total f)).
(* J = Zero; J.block<..>(rowoff_i, coloff_i) = block_i *)
Definition place (fr fc : GroupOps F -> nat) (blocks : list mat) : mat :=
  fold_left (fun M p => mset_block M (idx fr (fst p)) (idx fc (fst p)) (snd p)) (combine (seq 0 (length blocks)) blocks)
            (mzero (total fr) (total fc)).

Definition b_inverse (X : vec) : vec := assemble g_rep (imap (fun i G => g_inverse G (el X i G))).
Definition b_inverse_J (X : vec) : mat := place g_dof g_dof (imap (fun i G => g_inverse_J G (el X i G))).
Definition b_log (X : vec) : vec := assemble g_dof (imap (fun i G => g_log G (el X i G))).
Definition b_log_J (X : vec) : mat := place g_dof g_dof (imap (fun i G => g_log_J G (el X i G))).
Definition b_compose (X Y : vec) : vec := assemble g_rep (imap (fun i G => g_compose G (el X i G) (el Y i G))).
Definition b_compose_Ja (X Y : vec) : mat := place g_dof g_dof (imap (fun i G => g_compose_Ja G (el X i G) (el Y i G))).
Definition b_compose_Jb (X Y : vec) : mat := place g_dof g_dof (imap (fun i G => g_compose_Jb G (el X i G) (el Y i G))).
Definition vel (v : vec) (i : nat) (G : GroupOps F) : vec := vslice v (idx g_dim i) (g_dim G).
Definition b_act (X v : vec) : vec := assemble g_dim (imap (fun i G => g_act G (el X i G) (vel v i G))).
Definition b_act_Jm (X v : vec) : mat := place g_dim g_dof (imap (fun i G => g_act_Jm G (el X i G) (vel v i G))).
Definition b_act_Jv (X v : vec) : mat := place g_dim g_dim (imap (fun i G => g_act_Jv G (el X i G) (vel v i G))).
Definition b_adj (X : vec) : mat := place g_dof g_dof (imap (fun i G => g_adj G (el X i G))).
Definition b_transform (X : vec) : mat := place g_tra g_tra (imap (fun i G => g_transform G (el X i G))).

Definition b_exp (t : vec) : vec := assemble g_rep (imap (fun i G => g_exp G (tel t i G))).
Definition b_exp_J (t : vec) : mat := place g_dof g_dof (imap (fun i G => g_exp_J G (tel t i G))).
Definition b_hat (t : vec) : mat := place g_alg g_alg (imap (fun i G => g_hat G (tel t i G))).
Definition b_rjac (t : vec) : mat := place g_dof g_dof (imap (fun i G => g_rjac G (tel t i G))).
Definition b_ljac (t : vec) : mat := place g_dof g_dof (imap (fun i G => g_ljac G (tel t i G))).
Definition b_rjacinv (t : vec) : mat := place g_dof g_dof (imap (fun i G => g_rjacinv G (tel t i G))).
Definition b_ljacinv (t : vec) : mat := place g_dof g_dof (imap (fun i G => g_ljacinv G (tel t i G))).
Definition b_smallAdj (t : vec) : mat := place g_dof g_dof (imap (fun i G => g_smallAdj G (tel t i G))).

(* GeneratorEvaluator<BundleTangentBase>: MANIF_CHECK(i < DoF) on the unsigned index, then per block *)
Definition b_generator (i : Z) : res mat :=
  let u := to_unsigned32 i in
  if Z.ltb u (Z.of_nat (total g_dof)) then
    Ok (place g_alg g_alg (imap (fun k G =>
          let off := Z.of_nat (idx g_dof k) in
          if Z.leb off u && Z.ltb u (off + Z.of_nat (g_dof G))
          then match g_generator G (u - off) with Ok m => m | _ => mzero (g_alg G) (g_alg G) end
          else mzero (g_alg G) (g_alg G))))
  else InvalidArgument.
Definition b_vee (M : mat) : vec :=
  assemble g_dof (imap (fun i G => g_vee G (mblock M (idx g_alg i) (idx g_alg i) (g_alg G) (g_alg G)))).
Definition b_trandom (u : vec) : vec := assemble g_dof (imap (fun i G => g_trandom G (tel u i G))).
(* Bundle::Random(): LieGroup(Element<i>::Random()...) — every element draws DoF_i numbers *)
Definition b_grandom (u : vec) : vec := assemble g_rep (imap (fun i G => g_grandom G (tel u i G))).

Definition Bundle : GroupOps F := {|
  g_dim := total g_dim; g_dof := total g_dof; g_rep := total g_rep; g_tra := total g_tra; g_alg := total g_alg;
  g_actdim := total g_dim;
  g_inverse := b_inverse; g_inverse_J := b_inverse_J; g_log := b_log; g_log_J := b_log_J;
  g_compose := b_compose; g_compose_Ja := b_compose_Ja; g_compose_Jb := b_compose_Jb;
  g_act := b_act; g_act_Jm := b_act_Jm; g_act_Jv := b_act_Jv;
  g_adj := b_adj; g_transform := b_transform;
  g_rotation := fun _ => []; g_translation := fun _ => []; g_normalize := fun c => c; g_assert_ok := fun _ => true;
  g_exp := b_exp; g_exp_J := b_exp_J; g_hat := b_hat;
  g_rjac := b_rjac; g_ljac := b_ljac; g_rjacinv := b_rjacinv; g_ljacinv := b_ljacinv;
  g_smallAdj := b_smallAdj; g_generator := b_generator; g_vee := b_vee;
  g_bracket := fun a b => mvmul (b_smallAdj a) b;
  g_innerweights := inner_weights_generic (total g_dof) (total g_alg) b_generator;
  g_trandom := b_trandom;
  g_grandom := b_grandom
|}.
End Bundle.
Arguments Bundle {F}. Arguments el {F}. Arguments tel {F}. Arguments assemble {F}. Arguments place {F}.
Arguments idx {F}. Arguments total {F}. Arguments imap {F} _ {A}. Arguments indexed {F}.
