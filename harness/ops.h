// ops.h — the canonical operations of a group G (any manif LieGroup type), by name.
#pragma once
#include "run.h"

template<class G> struct GroupRunner {
  using S = typename G::Scalar;
  using T = typename G::Tangent;
  using J = typename G::Jacobian;
  using DG = typename G::DataType;
  using DT = typename T::DataType;
  using Vec = typename G::Vector;
  using Jam = Eigen::Matrix<S, G::Dim, G::DoF>;
  using Jav = Eigen::Matrix<S, G::Dim, G::Dim>;
  using Alg = typename T::LieAlg;

  static G mkG(const std::vector<std::string>& a){ return G(vec_from<S,DG>(a)); }
  static T mkT(const std::vector<std::string>& a){ return T(vec_from<S,DT>(a)); }

  template<class X_> static auto try_rotation(const X_& X, Out<S>& o, int) -> decltype(X.rotation(), bool()) { o.mat(X.rotation()); return true; }
  template<class X_> static bool try_rotation(const X_&, Out<S>&, long) { return false; }
  template<class X_> static auto try_translation(const X_& X, Out<S>& o, int) -> decltype(X.translation(), bool()) { o.mat(X.translation()); return true; }
  template<class X_> static bool try_translation(const X_&, Out<S>&, long) { return false; }
  template<class X_> static auto try_normalize(X_& X, Out<S>& o, int) -> decltype(X.normalize(), bool()) { X.normalize(); o.mat(X.coeffs()); return true; }
  template<class X_> static bool try_normalize(X_&, Out<S>&, long) { return false; }

  // returns false when the op is not handled here
  static bool run(const Case& c, Out<S>& o){
    const std::string& op = c.op;
    const bool a = c.m(0), b = c.m(1);
    J ja, jb;
#define TWO(call_none, call_a, call_b, call_ab) \
      (a ? (b ? call_ab : call_a) : (b ? call_b : call_none))
    if(op=="Inverse"){ G X=mkG(c.args[0]); G r = a ? X.inverse(ja) : X.inverse(); o.mat(r.coeffs()); if(a) o.mat(ja); }
    else if(op=="Log"){ G X=mkG(c.args[0]); T r = a ? X.log(ja) : X.log(); o.mat(r.coeffs()); if(a) o.mat(ja); }
    else if(op=="Compose"){ G X=mkG(c.args[0]), Y=mkG(c.args[1]);
      G r = TWO(X.compose(Y), X.compose(Y,ja), X.compose(Y,G::_,jb), X.compose(Y,ja,jb));
      o.mat(r.coeffs()); if(a) o.mat(ja); if(b) o.mat(jb); }
    else if(op=="Act"){ G X=mkG(c.args[0]); Vec v=vec_from<S,Vec>(c.args[1]); Jam jm; Jav jv;
      Vec r = TWO(X.act(v), X.act(v,jm), X.act(v,tl::nullopt,jv), X.act(v,jm,jv));
      o.mat(r); if(a) o.mat(jm); if(b) o.mat(jv); }
    else if(op=="Adj"){ G X=mkG(c.args[0]); o.mat(X.adj()); }
    else if(op=="Rplus"){ G X=mkG(c.args[0]); T t=mkT(c.args[1]);
      G r = TWO(X.rplus(t), X.rplus(t,ja), X.rplus(t,G::_,jb), X.rplus(t,ja,jb));
      o.mat(r.coeffs()); if(a) o.mat(ja); if(b) o.mat(jb); }
    else if(op=="Lplus"){ G X=mkG(c.args[0]); T t=mkT(c.args[1]);
      G r = TWO(X.lplus(t), X.lplus(t,ja), X.lplus(t,G::_,jb), X.lplus(t,ja,jb));
      o.mat(r.coeffs()); if(a) o.mat(ja); if(b) o.mat(jb); }
    else if(op=="Plus"){ G X=mkG(c.args[0]); T t=mkT(c.args[1]);
      G r = TWO(X.plus(t), X.plus(t,ja), X.plus(t,G::_,jb), X.plus(t,ja,jb));
      o.mat(r.coeffs()); if(a) o.mat(ja); if(b) o.mat(jb); }
    else if(op=="Rminus"){ G X=mkG(c.args[0]), Y=mkG(c.args[1]);
      T r = TWO(X.rminus(Y), X.rminus(Y,ja), X.rminus(Y,G::_,jb), X.rminus(Y,ja,jb));
      o.mat(r.coeffs()); if(a) o.mat(ja); if(b) o.mat(jb); }
    else if(op=="Lminus"){ G X=mkG(c.args[0]), Y=mkG(c.args[1]);
      T r = TWO(X.lminus(Y), X.lminus(Y,ja), X.lminus(Y,G::_,jb), X.lminus(Y,ja,jb));
      o.mat(r.coeffs()); if(a) o.mat(ja); if(b) o.mat(jb); }
    else if(op=="Minus"){ G X=mkG(c.args[0]), Y=mkG(c.args[1]);
      T r = TWO(X.minus(Y), X.minus(Y,ja), X.minus(Y,G::_,jb), X.minus(Y,ja,jb));
      o.mat(r.coeffs()); if(a) o.mat(ja); if(b) o.mat(jb); }
    else if(op=="Between"){ G X=mkG(c.args[0]), Y=mkG(c.args[1]);
      G r = TWO(X.between(Y), X.between(Y,ja), X.between(Y,G::_,jb), X.between(Y,ja,jb));
      o.mat(r.coeffs()); if(a) o.mat(ja); if(b) o.mat(jb); }
    else if(op=="Transform"){ G X=mkG(c.args[0]); o.mat(X.transform()); }
    else if(op=="Rotation"){ G X=mkG(c.args[0]); return try_rotation(X,o,0); }
    else if(op=="Translation"){ G X=mkG(c.args[0]); return try_translation(X,o,0); }
    else if(op=="IsApprox"){ G X=mkG(c.args[0]), Y=mkG(c.args[1]); S e=ScalarIO<S>::parse(c.args[2][0]); o.boolean(X.isApprox(Y,e)); }
    else if(op=="Identity"){ G I0; I0.setIdentity();            // evaluates Tangent::Zero().exp() now
      G I1 = G::Identity();                                       // the cached static
      if(!(I0.coeffs()==I1.coeffs())) throw std::runtime_error("Identity() != setIdentity()");
      o.mat(I1.coeffs()); }
    else if(op=="Normalize"){ G X=mkG(c.args[0]); return try_normalize(X,o,0); }
    else if(op=="AssertOk"){ G X; X = vec_from<S,DG>(c.args[0]); o.mat(X.coeffs()); }   // operator=(MatrixBase): runs the AssignmentEvaluator
    else if(op=="Exp"){ T t=mkT(c.args[0]); G r = a ? t.exp(ja) : t.exp(); o.mat(r.coeffs()); if(a) o.mat(ja); }
    else if(op=="Hat"){ T t=mkT(c.args[0]); o.mat(t.hat()); }
    else if(op=="Rjac"){ T t=mkT(c.args[0]); o.mat(t.rjac()); }
    else if(op=="Ljac"){ T t=mkT(c.args[0]); o.mat(t.ljac()); }
    else if(op=="Rjacinv"){ T t=mkT(c.args[0]); o.mat(t.rjacinv()); }
    else if(op=="Ljacinv"){ T t=mkT(c.args[0]); o.mat(t.ljacinv()); }
    else if(op=="SmallAdj"){ T t=mkT(c.args[0]); o.mat(t.smallAdj()); }
    else if(op=="Generator"){ o.mat(T::Generator(std::stoi(c.iarg))); }
    else if(op=="Vee"){ Alg m; const auto& v=c.args[0];
      for(int i=0;i<m.rows();i++) for(int j=0;j<m.cols();j++) m(i,j)=ScalarIO<S>::parse(v[i*m.cols()+j]);
      o.mat(T::Vee(m).coeffs()); }
    else if(op=="Bracket"){ T x=mkT(c.args[0]), y=mkT(c.args[1]); o.mat(T::Bracket(x,y).coeffs()); }
    else if(op=="Inner"){ T x=mkT(c.args[0]), y=mkT(c.args[1]); o.scalar(x.inner(y)); }
    else if(op=="InnerWeights"){ o.mat(T::InnerWeights()); }
    else if(op=="WeightedNorm"){ T x=mkT(c.args[0]); o.scalar(x.weightedNorm()); }
    else if(op=="SqWeightedNorm"){ T x=mkT(c.args[0]); o.scalar(x.squaredWeightedNorm()); }
    else if(op=="TPlus"){ T x=mkT(c.args[0]), y=mkT(c.args[1]);
      T r = TWO(x.plus(y), x.plus(y,ja), x.plus(y,tl::nullopt,jb), x.plus(y,ja,jb));
      o.mat(r.coeffs()); if(a) o.mat(ja); if(b) o.mat(jb); }
    else if(op=="TMinus"){ T x=mkT(c.args[0]), y=mkT(c.args[1]);
      T r = TWO(x.minus(y), x.minus(y,ja), x.minus(y,tl::nullopt,jb), x.minus(y,ja,jb));
      o.mat(r.coeffs()); if(a) o.mat(ja); if(b) o.mat(jb); }
    else if(op=="TIsApprox"){ T x=mkT(c.args[0]), y=mkT(c.args[1]); S e=ScalarIO<S>::parse(c.args[2][0]); o.boolean(x.isApprox(y,e)); }
    // ---- alias forms (property C04): iarg selects the spelling; the result must equal the canonical member's ----
    else if(op=="AliasGT"){ G X=mkG(c.args[0]); T t=mkT(c.args[1]); int k=std::stoi(c.iarg); G r;
      switch(k){
        case 0: r = TWO(X.rplus(t), X.rplus(t,ja), X.rplus(t,G::_,jb), X.rplus(t,ja,jb)); break;
        case 1: r = TWO(X.plus(t), X.plus(t,ja), X.plus(t,G::_,jb), X.plus(t,ja,jb)); break;
        case 2: r = X + t; break;
        case 3: { G Z = X; Z += t; r = Z; } break;
        case 4: r = TWO(t.rplus(X), t.rplus(X,tl::nullopt,ja), t.rplus(X,jb), t.rplus(X,jb,ja)); break;     // (J wrt t, J wrt X)
        case 5: r = TWO(t.lplus(X), t.lplus(X,tl::nullopt,ja), t.lplus(X,jb), t.lplus(X,jb,ja)); break;
        case 6: r = TWO(t.plus(X), t.plus(X,tl::nullopt,ja), t.plus(X,jb), t.plus(X,jb,ja)); break;
        case 7: r = t + X; break;
        case 8: r = TWO(manif::rplus(X,t), manif::rplus(X,t,ja), manif::rplus(X,t,G::_,jb), manif::rplus(X,t,ja,jb)); break;
        case 9: r = TWO(manif::lplus(X,t), manif::lplus(X,t,ja), manif::lplus(X,t,G::_,jb), manif::lplus(X,t,ja,jb)); break;
        case 10: r = TWO(manif::plus(X,t), manif::plus(X,t,ja), manif::plus(X,t,G::_,jb), manif::plus(X,t,ja,jb)); break;
        case 11: r = TWO(X.lplus(t), X.lplus(t,ja), X.lplus(t,G::_,jb), X.lplus(t,ja,jb)); break;
        default: return false; }
      o.mat(r.coeffs()); if(a) o.mat(ja); if(b) o.mat(jb); }
    else if(op=="AliasGG"){ G X=mkG(c.args[0]), Y=mkG(c.args[1]); int k=std::stoi(c.iarg);
      if(k<=4){ T r;
        switch(k){
          case 0: r = TWO(X.minus(Y), X.minus(Y,ja), X.minus(Y,G::_,jb), X.minus(Y,ja,jb)); break;
          case 1: r = X - Y; break;
          case 2: r = TWO(manif::rminus(X,Y), manif::rminus(X,Y,ja), manif::rminus(X,Y,G::_,jb), manif::rminus(X,Y,ja,jb)); break;
          case 3: r = TWO(manif::lminus(X,Y), manif::lminus(X,Y,ja), manif::lminus(X,Y,G::_,jb), manif::lminus(X,Y,ja,jb)); break;
          case 4: r = TWO(manif::minus(X,Y), manif::minus(X,Y,ja), manif::minus(X,Y,G::_,jb), manif::minus(X,Y,ja,jb)); break; }
        o.mat(r.coeffs()); }
      else { G r;
        switch(k){
          case 5: r = X * Y; break;
          case 6: { G Z = X; Z *= Y; r = Z; } break;
          case 7: r = TWO(manif::compose(X,Y), manif::compose(X,Y,ja), manif::compose(X,Y,G::_,jb), manif::compose(X,Y,ja,jb)); break;
          case 8: r = TWO(manif::between(X,Y), manif::between(X,Y,ja), manif::between(X,Y,G::_,jb), manif::between(X,Y,ja,jb)); break;
          default: return false; }
        o.mat(r.coeffs()); }
      if(a) o.mat(ja); if(b) o.mat(jb); }
    else if(op=="AliasG"){ G X=mkG(c.args[0]); int k=std::stoi(c.iarg);
      switch(k){
        case 0: { G r = a ? manif::inverse(X,ja) : manif::inverse(X); o.mat(r.coeffs()); } break;
        case 1: { T r = a ? manif::log(X,ja) : manif::log(X); o.mat(r.coeffs()); } break;
        case 2: { T r = a ? manif::lift(X,ja) : manif::lift(X); o.mat(r.coeffs()); } break;
        case 3: { T r = a ? X.lift(ja) : X.lift(); o.mat(r.coeffs()); } break;
        default: return false; }
      if(a) o.mat(ja); }
    else if(op=="AliasT"){ T t=mkT(c.args[0]); int k=std::stoi(c.iarg); G r;
      switch(k){
        case 0: r = a ? manif::exp(t,ja) : manif::exp(t); break;
        case 1: r = a ? manif::retract(t,ja) : manif::retract(t); break;
        case 2: r = a ? t.retract(ja) : t.retract(); break;
        default: return false; }
      o.mat(r.coeffs()); if(a) o.mat(ja); }
    else if(op=="AliasGV"){ G X=mkG(c.args[0]); Vec v=vec_from<S,Vec>(c.args[1]); Jam jm; Jav jv;
      Vec r = TWO(manif::act(X,v), manif::act(X,v,jm), manif::act(X,v,tl::nullopt,jv), manif::act(X,v,jm,jv));
      o.mat(r); if(a) o.mat(jm); if(b) o.mat(jv); }
    else if(op=="AliasId"){ int k=std::stoi(c.iarg); G r=mkG(c.args[0]);
      { G tmp; tmp.setIdentity(); }          // evaluates Tangent::Zero().exp() now (the statics below were cached earlier)
      switch(k){
        case 0: manif::identity(r); break;
        case 1: r = manif::Identity<G>(); break;
        case 2: r.setIdentity(); break;
        case 3: r = G::Identity(); break;
        default: return false; }
      o.mat(r.coeffs());
      T z = mkT(c.args[1]); T z2 = z; manif::zero(z); z2.setZero();
      o.mat(z.coeffs()); o.mat(z2.coeffs()); o.mat(manif::Zero<T>().coeffs()); o.mat(T::Zero().coeffs()); }
    else return false;
#undef TWO
    return true;
  }
};
