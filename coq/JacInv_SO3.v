(* JacInv_SO3.v — property C06 for SO3 (generic branch): ljacinv is the two-sided matrix inverse of ljac, hence rjacinv
   of rjac (transposes), wherever the code's own formula is defined (sin theta <> 0: the code divides by it).
   Method: both matrices are polynomials I + a W + b W^2 in the skew matrix W of t, W^3 = -theta^2 W is a polynomial
   identity, so the product minus I is E1*W + E2*W^2 with two scalar expressions that vanish by sin^2 + cos^2 = 1. *)
From Coq Require Import Reals ZArith List Lra.
From Coq Require Import Nsatz.
From Manif Require Import Scalar Mat Consts Group RInst Tac SO3.
Import ListNotations.
Local Open Scope R_scope.

Ltac meq := match goal with |- @eq _ ?u ?v => change (@eq (list (list R)) u v) end; list_eq.

Definition poly3 (x y z a b : R) : list (list R) :=
  @madd RS (@madd RS (@mid RS 3) (@mscale RS a (@skew3 RS [x; y; z]))) (@mmul RS (@mscale RS b (@skew3 RS [x; y; z])) (@skew3 RS [x; y; z])).

(* (I + a W + b W^2)(I + a' W + b' W^2) - I = E1 W + E2 W^2 with th2 = x^2+y^2+z^2 *)
Lemma poly3_mul x y z a b a' b' :
  let th2 := x * x + y * y + z * z in
  @mmul RS (poly3 x y z a b) (poly3 x y z a' b') =
  poly3 x y z (a + a' - th2 * (a * b' + b * a')) (b + b' + a * a' - th2 * (b * b')).
Proof. cbv zeta. unfold poly3. mat_unfold. meq; ring. Qed.
Lemma poly3_id x y z : poly3 x y z 0 0 = @mid RS 3.
Proof. unfold poly3. mat_unfold. meq; ring. Qed.

Section P.
Variable eps : R.
Hypothesis eps_pos : 0 < eps.

Lemma so3_ljac_poly x y z : eps < x * x + y * y + z * z ->
  let th2 := x * x + y * y + z * z in let th := sqrt th2 in
  so3_ljac RS eps [x; y; z] = poly3 x y z ((1 - cos th) / th2) ((th - sin th) / (th2 * th)).
Proof.
  intros H. cbv zeta. unfold so3_ljac, so3_hat, poly3. mat_unfold.
  replace (x * x + (y * y + (z * z + 0))) with (x * x + y * y + z * z) by ring.
  rewrite (Rltb_lt_true eps _) by exact H. cbn [negb]. mat_unfold. reflexivity.
Qed.
Lemma so3_ljacinv_poly x y z : eps < x * x + y * y + z * z ->
  let th2 := x * x + y * y + z * z in let th := sqrt th2 in
  so3_ljacinv RS eps [x; y; z] = poly3 x y z (- (1 / 2)) (1 / th2 - (1 + cos th) / (2 * th * sin th)).
Proof.
  intros H. cbv zeta. unfold so3_ljacinv, so3_hat, poly3, c_half. mat_unfold.
  replace (x * x + (y * y + (z * z + 0))) with (x * x + y * y + z * z) by ring.
  rewrite (Rltb_lt_true eps _) by exact H. cbn [negb]. mat_unfold. meq; ring.
Qed.

(* the two scalar identities *)
Lemma coeff_identities th S C : th <> 0 -> S <> 0 -> S * S + C * C = 1 ->
  let th2 := th * th in let a := (1 - C) / th2 in let b := (th - S) / (th2 * th) in let a' := - (1 / 2) in let b' := 1 / th2 - (1 + C) / (2 * th * S) in
  a + a' - th2 * (a * b' + b * a') = 0 /\ b + b' + a * a' - th2 * (b * b') = 0.
Proof.
  intros Hth HS H. cbv zeta. split.
  - transitivity ((1 - C * C - S * S) * (1 / (2 * S * th))); [field; split; assumption|]. replace (1 - C * C - S * S) with 0 by lra. ring.
  - field. split; assumption.
Qed.

(* ljac * ljacinv = I = ljacinv * ljac, generic branch, sin theta <> 0 *)
Theorem so3_ljac_ljacinv x y z : eps < x * x + y * y + z * z -> sin (sqrt (x * x + y * y + z * z)) <> 0 ->
  @mmul RS (so3_ljac RS eps [x; y; z]) (so3_ljacinv RS eps [x; y; z]) = @mid RS 3 /\
  @mmul RS (so3_ljacinv RS eps [x; y; z]) (so3_ljac RS eps [x; y; z]) = @mid RS 3.
Proof.
  intros H HS. rewrite so3_ljac_poly, so3_ljacinv_poly by exact H. cbv zeta.
  set (th2 := x * x + y * y + z * z) in *. set (th := sqrt th2) in *.
  assert (Hth2 : 0 < th2) by lra. assert (Hth : 0 < th) by (apply sqrt_lt_R0; exact Hth2). assert (Hsq : th * th = th2) by (apply sqrt_sqrt; lra).
  assert (Hsc : sin th * sin th + cos th * cos th = 1) by (replace (sin th * sin th + cos th * cos th) with ((sin th)² + (cos th)²) by (unfold Rsqr; ring); apply sin2_cos2).
  destruct (coeff_identities th (sin th) (cos th) ltac:(lra) HS Hsc) as [E1 E2]. cbv zeta in E1, E2. rewrite Hsq in E1, E2.
  rewrite !poly3_mul. fold th2. split.
  - rewrite E1, E2. apply poly3_id.
  - replace (- (1 / 2) + (1 - cos th) / th2 - th2 * (- (1 / 2) * ((th - sin th) / (th2 * th)) + (1 / th2 - (1 + cos th) / (2 * th * sin th)) * ((1 - cos th) / th2))) with 0 by (rewrite <- E1; ring).
    replace (1 / th2 - (1 + cos th) / (2 * th * sin th) + (th - sin th) / (th2 * th) + - (1 / 2) * ((1 - cos th) / th2) - th2 * ((1 / th2 - (1 + cos th) / (2 * th * sin th)) * ((th - sin th) / (th2 * th)))) with 0 by (rewrite <- E2; ring).
    apply poly3_id.
Qed.

Lemma poly3_zero x y z a b : a = 0 -> b = 0 -> poly3 x y z a b = @mid RS 3.
Proof. intros -> ->. apply poly3_id. Qed.

(* the right Jacobians are the transposes *)
Lemma mT_poly3 x y z a b : @mT RS (poly3 x y z a b) = poly3 x y z (- a) b.
Proof. unfold poly3. mat_unfold. meq; ring. Qed.
Theorem so3_rjac_rjacinv x y z : eps < x * x + y * y + z * z -> sin (sqrt (x * x + y * y + z * z)) <> 0 ->
  @mmul RS (so3_rjac RS eps [x; y; z]) (so3_rjacinv RS eps [x; y; z]) = @mid RS 3 /\
  @mmul RS (so3_rjacinv RS eps [x; y; z]) (so3_rjac RS eps [x; y; z]) = @mid RS 3.
Proof.
  intros H HS. unfold so3_rjac, so3_rjacinv. rewrite so3_ljac_poly, so3_ljacinv_poly by exact H. cbv zeta. rewrite !mT_poly3.
  set (th2 := x * x + y * y + z * z) in *. set (th := sqrt th2) in *.
  assert (Hth2 : 0 < th2) by lra. assert (Hth : 0 < th) by (apply sqrt_lt_R0; exact Hth2). assert (Hsq : th * th = th2) by (apply sqrt_sqrt; lra).
  assert (Hsc : sin th * sin th + cos th * cos th = 1) by (replace (sin th * sin th + cos th * cos th) with ((sin th)² + (cos th)²) by (unfold Rsqr; ring); apply sin2_cos2).
  destruct (coeff_identities th (sin th) (cos th) ltac:(lra) HS Hsc) as [E1 E2]. cbv zeta in E1, E2. rewrite Hsq in E1, E2.
  rewrite !poly3_mul. fold th2. split; apply poly3_zero; first [lra | nra | (rewrite <- E1; ring) | (rewrite <- E2; ring)].
Qed.
End P.
