(* Properties_C01.v — property C01: compose / inverse / identity / act realise the matrix
   group.  Only statements, each closed by `exact`, each followed by Print Assumptions.
   GroupLaws (LieSpec.v) is the conjunction: closure of validity; M(X∘Y) = M X × M Y;
   M(X⁻¹) is the two-sided matrix inverse; M(Identity) = I; hom(act X p) = M X × hom p;
   associativity, neutrality and two-sided inverse on coefficient vectors.
   Stated for every threshold 0 < eps (the library's eps is one instance). *)
From Coq Require Import Reals List Lra.
From Manif Require Import Scalar Mat Group RInst Generic LieSpec SO2 SE2 SO3 SE3 SE23 SGal3 Rn SE2Proofs SO3Proofs SE23Proofs RnProofs.
Import ListNotations.
Local Open Scope R_scope.

Theorem C01_SO2 eps : 0 < eps -> GroupLaws (SO2 RS eps) so2_valid hom2 (fun _ => hom2).
Proof. intros H. exact (laws_of_core _ (SO2_core eps H)). Qed.
Print Assumptions C01_SO2.

Theorem C01_SE2 eps : 0 < eps -> GroupLaws (SE2 RS eps) se2_valid hom2 (fun _ => hom2).
Proof. intros H. exact (laws_of_core _ (SE2_core eps H)). Qed.
Print Assumptions C01_SE2.

Theorem C01_SO3 eps : 0 < eps -> GroupLaws (SO3 RS eps) so3_valid hom3 (fun _ => hom3).
Proof. intros H. exact (laws_of_core _ (SO3_core eps H)). Qed.
Print Assumptions C01_SO3.

Theorem C01_SE3 eps : 0 < eps -> GroupLaws (SE3 RS eps) se3_valid hom3 (fun _ => hom3).
Proof. intros H. exact (laws_of_core _ (SE3_core eps H)). Qed.
Print Assumptions C01_SE3.

Theorem C01_SE23 eps : 0 < eps -> GroupLaws (SE23 RS eps) se23_valid hom10 (fun _ => hom10).
Proof. intros H. exact (laws_of_core _ (SE23_core eps H)). Qed.
Print Assumptions C01_SE23.

(* SGal(3): a point p is the event (p; 0; 1); its image is (act X p; t(X); 1) *)
Theorem C01_SGal3 eps : 0 < eps -> GroupLaws (SGal3 RS eps) sg_valid hom01 hom_t1.
Proof. intros H. exact (laws_of_core _ (SGal3_core eps H)). Qed.
Print Assumptions C01_SGal3.

Theorem C01_R1 : GroupLaws (Rn RS 1) (rn_valid 1) homn (fun _ => homn). Proof. exact (laws_of_core _ R1_core). Qed.
Theorem C01_R2 : GroupLaws (Rn RS 2) (rn_valid 2) homn (fun _ => homn). Proof. exact (laws_of_core _ R2_core). Qed.
Theorem C01_R3 : GroupLaws (Rn RS 3) (rn_valid 3) homn (fun _ => homn). Proof. exact (laws_of_core _ R3_core). Qed.
Theorem C01_R4 : GroupLaws (Rn RS 4) (rn_valid 4) homn (fun _ => homn). Proof. exact (laws_of_core _ R4_core). Qed.
Theorem C01_R5 : GroupLaws (Rn RS 5) (rn_valid 5) homn (fun _ => homn). Proof. exact (laws_of_core _ R5_core). Qed.
Theorem C01_R6 : GroupLaws (Rn RS 6) (rn_valid 6) homn (fun _ => homn). Proof. exact (laws_of_core _ R6_core). Qed.
Theorem C01_R7 : GroupLaws (Rn RS 7) (rn_valid 7) homn (fun _ => homn). Proof. exact (laws_of_core _ R7_core). Qed.
Theorem C01_R8 : GroupLaws (Rn RS 8) (rn_valid 8) homn (fun _ => homn). Proof. exact (laws_of_core _ R8_core). Qed.
Theorem C01_R9 : GroupLaws (Rn RS 9) (rn_valid 9) homn (fun _ => homn). Proof. exact (laws_of_core _ R9_core). Qed.
Print Assumptions C01_R9.

(* non-vacuity: concrete non-trivial valid elements exist in every group *)
Example C01_nonvacuous :
  so2_valid [3/5; 4/5] /\ se2_valid [7; -2; 3/5; 4/5] /\
  so3_valid [2/7; 3/7; 6/7; 0] /\ se3_valid [1; 2; 3; -1/2; 1/2; -1/2; -1/2] /\ rn_valid 3 [1; 2; 3] /\
  se23_valid [1; 2; 3; -1/2; 1/2; -1/2; -1/2; 4; 5; 6] /\ sg_valid [1; 2; 3; 2/7; 3/7; 6/7; 0; 4; 5; 6; 9].
Proof.
  repeat split.
  - exists (3/5), (4/5); split; [reflexivity|lra].
  - exists 7, (-2), (3/5), (4/5); split; [reflexivity|lra].
  - exists (2/7), (3/7), (6/7), 0; split; [reflexivity|unfold n4; lra].
  - exists 1, 2, 3, (-1/2), (1/2), (-1/2), (-1/2); split; [reflexivity|unfold n4; lra].
  - exists 1, 2, 3, (-1/2), (1/2), (-1/2), (-1/2), 4, 5, 6; split; [reflexivity|unfold n4; lra].
  - exists 1, 2, 3, (2/7), (3/7), (6/7), 0, 4, 5, 6, 9; split; [reflexivity|unfold n4; lra].
Qed.
