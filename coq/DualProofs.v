(* DualProofs.v — property C12 over the reals: the dual-number scalar DS is transparent on primal parts (every
   operation and every comparison of DS S acts on first components exactly as S does), and each lifted operation
   carries the derivative: if x tracks a differentiable function f (value f 0, dual part f' 0) then op x tracks op o f.
   By induction, the forward-mode soundness theorem for every expression built from the scalar operations
   (the operations every manif function is written with), under the side conditions that make it differentiable. *)
From Coq Require Import Reals ZArith List Lra Bool.
From Coquelicot Require Import Coquelicot.
From Manif Require Import Scalar RInst Dual Atan2.
Local Open Scope R_scope.

(* ---- primal transparency: for ANY base scalar ---- *)
Section Primal.
Variable S : Sc.
Lemma primal_add x y : fst (kadd (DS S) x y) = kadd S (fst x) (fst y). Proof. reflexivity. Qed.
Lemma primal_sub x y : fst (ksub (DS S) x y) = ksub S (fst x) (fst y). Proof. reflexivity. Qed.
Lemma primal_mul x y : fst (kmul (DS S) x y) = kmul S (fst x) (fst y). Proof. reflexivity. Qed.
Lemma primal_div x y : fst (kdiv (DS S) x y) = kdiv S (fst x) (fst y). Proof. reflexivity. Qed.
Lemma primal_opp x : fst (kopp (DS S) x) = kopp S (fst x). Proof. reflexivity. Qed.
Lemma primal_ltb x y : kltb (DS S) x y = kltb S (fst x) (fst y). Proof. reflexivity. Qed.
Lemma primal_lit n d : fst (klit (DS S) n d) = klit S n d. Proof. reflexivity. Qed.
Lemma primal_sin x : fst (ksin (DS S) x) = ksin S (fst x). Proof. reflexivity. Qed.
Lemma primal_cos x : fst (kcos (DS S) x) = kcos S (fst x). Proof. reflexivity. Qed.
Lemma primal_sqrt x : fst (ksqrt (DS S) x) = ksqrt S (fst x). Proof. reflexivity. Qed.
Lemma primal_acos x : fst (kacos (DS S) x) = kacos S (fst x). Proof. reflexivity. Qed.
Lemma primal_atan2 y x : fst (katan2 (DS S) y x) = katan2 S (fst y) (fst x). Proof. reflexivity. Qed.
Lemma primal_consts : fst (k0 (DS S)) = k0 S /\ fst (k1 (DS S)) = k1 S. Proof. split; reflexivity. Qed.
(* derived comparisons and selections *)
Lemma primal_abs x : fst (@kabs (DS S) x) = @kabs S (fst x).
Proof. unfold kabs. rewrite primal_ltb. cbn [k0 DS fst]. destruct (kltb S (fst x) (k0 S)); reflexivity. Qed.
Lemma primal_min x y : fst (@kmin (DS S) x y) = @kmin S (fst x) (fst y).
Proof. unfold kmin. rewrite primal_ltb. destruct (kltb S (fst y) (fst x)); reflexivity. Qed.
Lemma literal_dual_zero n d : snd (klit (DS S) n d) = k0 S. Proof. reflexivity. Qed.
End Primal.

(* ---- the dual part is the derivative (base scalar = the reals) ---- *)
Definition tracks (f : R -> R) (x : R * R) : Prop := f 0 = fst x /\ is_derive f 0 (snd x).

Lemma tracks_const c : tracks (fun _ => c) (c, 0).
Proof. split; [reflexivity|]. apply (is_derive_const c 0). Qed.
Lemma tracks_id a b : tracks (fun s => a + s * b) (a, b).
Proof. split; [cbn; ring|]. cbn [snd]. auto_derive; [exact I|ring]. Qed.
Lemma tracks_add f g x y : tracks f x -> tracks g y -> tracks (fun s => f s + g s) (kadd (DS RS) x y).
Proof. intros [Hf Df] [Hg Dg]. split; [cbn; rewrite Hf, Hg; reflexivity|]. cbn [snd kadd DS d_add K RS]. apply (is_derive_plus f g 0 _ _ Df Dg). Qed.
Lemma tracks_sub f g x y : tracks f x -> tracks g y -> tracks (fun s => f s - g s) (ksub (DS RS) x y).
Proof. intros [Hf Df] [Hg Dg]. split; [cbn; rewrite Hf, Hg; reflexivity|]. cbn [snd ksub DS d_sub K RS]. apply (is_derive_minus f g 0 _ _ Df Dg). Qed.
Lemma tracks_opp f x : tracks f x -> tracks (fun s => - f s) (kopp (DS RS) x).
Proof. intros [Hf Df]. split; [cbn; rewrite Hf; reflexivity|]. cbn [snd kopp DS d_opp K RS]. apply (is_derive_opp f 0 _ Df). Qed.
Lemma tracks_mul f g x y : tracks f x -> tracks g y -> tracks (fun s => f s * g s) (kmul (DS RS) x y).
Proof.
  intros [Hf Df] [Hg Dg]. split; [cbn; rewrite Hf, Hg; reflexivity|]. cbn [snd kmul DS d_mul K RS kadd fst].
  rewrite <- Hf, <- Hg. replace (f 0 * snd y + snd x * g 0) with (snd x * g 0 + f 0 * snd y) by ring.
  apply (is_derive_mult f g 0 _ _ Df Dg). intros; apply Rmult_comm.
Qed.
Lemma tracks_div f g x y : tracks f x -> tracks g y -> fst y <> 0 -> tracks (fun s => f s / g s) (kdiv (DS RS) x y).
Proof.
  intros [Hf Df] [Hg Dg] Hy. split; [cbn; rewrite Hf, Hg; reflexivity|]. cbn [snd kdiv DS d_div K RS ksub kmul fst].
  rewrite <- Hf, <- Hg in *.
  replace ((snd x - f 0 / g 0 * snd y) / g 0) with ((snd x * g 0 - f 0 * snd y) / (g 0 ^ 2)) by (field; exact Hy).
  apply (is_derive_div f g 0 _ _ Df Dg Hy).
Qed.
Lemma tracks_sin f x : tracks f x -> tracks (fun s => sin (f s)) (ksin (DS RS) x).
Proof.
  intros [Hf Df]. split; [cbn; rewrite Hf; reflexivity|]. cbn [snd ksin DS d_sin K RS kmul fst kcos]. rewrite <- Hf.
  apply (is_derive_comp sin f 0 (cos (f 0)) (snd x)); [|exact Df]. apply is_derive_Reals. apply derivable_pt_lim_sin.
Qed.
Lemma tracks_cos f x : tracks f x -> tracks (fun s => cos (f s)) (kcos (DS RS) x).
Proof.
  intros [Hf Df]. split; [cbn; rewrite Hf; reflexivity|]. cbn [snd kcos DS d_cos K RS kmul kopp fst ksin]. rewrite <- Hf.
  replace (- (snd x * sin (f 0))) with (snd x * - sin (f 0)) by ring.
  apply (is_derive_comp cos f 0 (- sin (f 0)) (snd x)); [|exact Df]. apply is_derive_Reals. apply derivable_pt_lim_cos.
Qed.
Lemma tracks_sqrt f x : tracks f x -> 0 < fst x -> tracks (fun s => sqrt (f s)) (ksqrt (DS RS) x).
Proof.
  intros [Hf Df] Hpos. split; [cbn; rewrite Hf; reflexivity|]. cbn [snd ksqrt DS d_sqrt K RS kdiv kmul fst]. rewrite <- Hf in *.
  replace (snd x / (@kz RS 2 * sqrt (f 0))) with (snd x * / (2 * sqrt (f 0))) by (unfold kz; cbn; field; apply Rgt_not_eq, sqrt_lt_R0; exact Hpos).
  apply (is_derive_comp sqrt f 0 (/ (2 * sqrt (f 0))) (snd x)); [|exact Df]. apply is_derive_Reals. apply derivable_pt_lim_sqrt. exact Hpos.
Qed.

(* ---- the forward-mode theorem for expressions over the scalar operations ---- *)
Inductive expr : Type :=
| EVar (i : nat) | EConst (c : R)
| EAdd (a b : expr) | ESub (a b : expr) | EMul (a b : expr) | EDiv (a b : expr) | EOpp (a : expr)
| ESin (a : expr) | ECos (a : expr) | ESqrt (a : expr).

Fixpoint eval (F : Sc) (inj : R -> K F) (env : list (K F)) (e : expr) : K F :=
  match e with
  | EVar i => nth i env (k0 F)
  | EConst c => inj c
  | EAdd a b => kadd F (eval F inj env a) (eval F inj env b)
  | ESub a b => ksub F (eval F inj env a) (eval F inj env b)
  | EMul a b => kmul F (eval F inj env a) (eval F inj env b)
  | EDiv a b => kdiv F (eval F inj env a) (eval F inj env b)
  | EOpp a => kopp F (eval F inj env a)
  | ESin a => ksin F (eval F inj env a)
  | ECos a => kcos F (eval F inj env a)
  | ESqrt a => ksqrt F (eval F inj env a)
  end.
(* the side conditions under which the expression is differentiable at the point: divisors non-zero, square roots of positives *)
Fixpoint defined (env : list R) (e : expr) : Prop :=
  match e with
  | EVar _ | EConst _ => True
  | EAdd a b | ESub a b | EMul a b => defined env a /\ defined env b
  | EDiv a b => defined env a /\ defined env b /\ eval RS (fun c => c) env b <> 0
  | EOpp a | ESin a | ECos a => defined env a
  | ESqrt a => defined env a /\ 0 < eval RS (fun c => c) env a
  end.

Definition line (x dx : list R) (s : R) : list R := map (fun p => fst p + s * snd p) (combine x dx).
Definition dual_env (x dx : list R) : list (R * R) := combine x dx.

Lemma line_0 x dx : length x = length dx -> line x dx 0 = x.
Proof. unfold line. revert dx. induction x as [|a x IH]; intros [|b dx] H; cbn in *; try discriminate; [reflexivity|]. rewrite IH by congruence. f_equal. ring. Qed.
Lemma nth_line x dx i s : length x = length dx -> nth i (line x dx s) 0 = nth i x 0 + s * nth i dx 0.
Proof.
  unfold line. revert dx i. induction x as [|a x IH]; intros [|b dx] i H; cbn in *; try discriminate.
  - destruct i; ring.
  - destruct i; [reflexivity|]. apply IH. congruence.
Qed.
Lemma nth_dual_env x dx i : length x = length dx -> nth i (dual_env x dx) (k0 (DS RS)) = (nth i x 0, nth i dx 0).
Proof.
  unfold dual_env. revert dx i. induction x as [|a x IH]; intros [|b dx] i H; cbn in *; try discriminate.
  - destruct i; reflexivity.
  - destruct i; [reflexivity|]. apply IH. congruence.
Qed.

(* forward mode is sound: evaluating over dual numbers at (x, dx) gives the value at x and the directional derivative along dx *)
Theorem forward_mode_sound (e : expr) (x dx : list R) : length x = length dx -> defined x e ->
  tracks (fun s => eval RS (fun c => c) (line x dx s) e) (eval (DS RS) (fun c => (c, 0)) (dual_env x dx) e).
Proof.
  intros Hl. induction e as [i|c|a IHa b IHb|a IHa b IHb|a IHa b IHb|a IHa b IHb|a IHa|a IHa|a IHa|a IHa]; cbn [eval defined]; intros Hd.
  - rewrite nth_dual_env by exact Hl. cbn [k0 RS]. eapply (proj1 (iff_refl _)). split.
    + rewrite nth_line by exact Hl. cbn. ring.
    + cbn [snd]. apply (is_derive_ext (fun s => nth i x 0 + s * nth i dx 0)); [intros s; rewrite nth_line by exact Hl; reflexivity|].
      auto_derive; [exact I|ring].
  - apply tracks_const.
  - destruct Hd. apply tracks_add; auto.
  - destruct Hd. apply tracks_sub; auto.
  - destruct Hd. apply tracks_mul; auto.
  - destruct Hd as (Ha & Hb & Hnz). apply tracks_div; auto. destruct (IHb Hb) as [E _]. rewrite <- E. rewrite line_0 by exact Hl. exact Hnz.
  - apply tracks_opp; auto.
  - apply tracks_sin; auto.
  - apply tracks_cos; auto.
  - destruct Hd as (Ha & Hpos). apply tracks_sqrt; auto. destruct (IHa Ha) as [E _]. rewrite <- E. rewrite line_0 by exact Hl. exact Hpos.
Qed.
