// preds2.h — further executable property predicates evaluated on the implementation (C08, C13, C15, C16, C18).
#pragma once
#include "run.h"
#include "ops2.h"

template<class G> struct Pred2 {
  using S = typename G::Scalar;
  using T = typename G::Tangent;
  using J = typename G::Jacobian;
  using DG = typename G::DataType;
  using DT = typename T::DataType;
  using Vec = typename G::Vector;
  using Dyn = Eigen::Matrix<S, Eigen::Dynamic, Eigen::Dynamic>;
  static G mkG(const std::vector<std::string>& a){ return G(vec_from<S,DG>(a)); }
  static T mkT(const std::vector<std::string>& a){ return T(vec_from<S,DT>(a)); }
  static S absS(const S& x){ return x < S(0) ? S(-x) : x; }
  static void set_random(G& X, std::true_type){ X = G::Random(); }
  static void set_random(G&, std::false_type){}      // Eigen's random generator is only instantiated for the floating-point scalars

  static bool run(const Case& c, Out<S>& o){
    const std::string& op = c.op;
    if(op=="P18" || op=="P18D"){   // C18: X, Xn (same transformation, other quaternion sign), d (small tangent), t, u, e
      G X=mkG(c.args[0]), Xn=mkG(c.args[1]); T d=mkT(c.args[2]), t=mkT(c.args[3]), u=mkT(c.args[4]); S e=ScalarIO<S>::parse(c.args[5][0]);
      o.boolean(X.isApprox(X,e)); o.boolean(true);
      o.boolean(X==X); o.boolean(true);
      o.boolean(X.isApprox(Xn,e)); o.boolean(true);
      o.boolean(Xn.isApprox(X,e)); o.boolean(true);
      G Y = X + d;
      o.boolean(X.isApprox(Y,e)); o.boolean(Y.isApprox(X,e));                       // symmetric
      { // holds when Y (-) X is well below e in every component, fails when well above (d is the tangent Y was built from)
        S m = S(0); for(int i=0;i<T::DoF;i++){ S a = absS(d.coeffs()(i)); if(m < a) m = a; }
        bool r = Y.isApprox(X,e);
        bool expect = r; if(m*S(2) <= e) expect = true; if(e*S(2) <= m) expect = false;
        o.boolean(r); o.boolean(expect); }
      o.boolean(t.isApprox(t,e)); o.boolean(true);
      o.boolean(t.isApprox(u,e)); o.boolean(u.isApprox(t,e));
      { // the documented two regimes, recomputed from the coefficients
        S nt = t.coeffs().squaredNorm(), nu = u.coeffs().squaredNorm(); S mn = nu < nt ? nu : nt;
        DT df = t.coeffs() - u.coeffs(); bool expect;
        if(mn < e*e){ expect = true; for(int i=0;i<T::DoF;i++) if(!(absS(df(i)) <= e)) expect = false; }
        else expect = df.squaredNorm() <= e*e*mn;
        o.boolean(t.isApprox(u,e)); o.boolean(expect); }
      { bool expect = true; for(int i=0;i<T::DoF;i++) if(!(absS(t.coeffs()(i)) <= e)) expect = false;   // absolute test against zero
        o.boolean(t.isApprox(T::Zero(),e)); o.boolean(expect);
        o.boolean(T::Zero().isApprox(t,e)); o.boolean(expect); }
      o.boolean(Y==Y); o.boolean(true);
      return true;
    }
    if(op=="P18F"){   // C18 float clause: X == X and X.isApprox(X) for elements with large coordinates
      G X=mkG(c.args[0]);
      o.boolean(X==X); o.boolean(true);
      o.boolean(X.isApprox(X)); o.boolean(true);
      G Z = X*X.inverse()*X;
      o.boolean(Z==Z); o.boolean(true);
      return true;
    }
    if(op=="W08"){   // C08: a long random walk over the element-producing operations, monitoring the invariant after every step
      // args: X, Y, us, [off len] of the rotation coefficients (len 0: none), t_0 ...; iarg = number of steps; mask "-"
      G X=mkG(c.args[0]), Y=mkG(c.args[1]);
      std::vector<S> us; for(auto& x: c.args[2]) us.push_back(ScalarIO<S>::parse(x));
      const int off=std::stoi(c.args[3][0]), len=std::stoi(c.args[3][1]);
      std::vector<T> ts; for(size_t i=4;i<c.args.size();i++) ts.push_back(mkT(c.args[i]));
      long steps=std::stol(c.iarg);
      unsigned long long st=1469598103934665603ULL; for(char ch: c.id) { st^=(unsigned char)ch; st*=1099511628211ULL; }
      auto rnd=[&](){ st = st*6364136223846793005ULL + 1442695040888963407ULL; return (unsigned)(st>>33); };
      S maxdev=S(0); long exceptions=0, nonfinite=0; const int mode = rnd()%6;
      auto dev=[&](const G& Z){ if(len==0) return S(0); S n2=S(0); for(int i=0;i<len;i++) n2 += Z.coeffs()(off+i)*Z.coeffs()(off+i); S d=n2-S(1); return d<S(0)?S(-d):d; };
      auto finite=[&](const G& Z){ using std::isfinite; for(int i=0;i<G::RepSize;i++) if(!isfinite(Z.coeffs()(i))) return false; return true; };
      auto big=[&](const G& Z){ for(int i=0;i<G::RepSize;i++){ S a=Z.coeffs()(i); if(a<S(0)) a=-a; if(S(1000000)<a) return true; } return false; };
      for(long s=0;s<steps;s++){
        int digit;
        switch(mode){
          case 0: digit = 1 + rnd()%12; break;                       // uniform mix
          case 1: digit = (rnd()%8==0) ? 1 + rnd()%12 : 6; break;    // mostly X *= X
          case 2: digit = (rnd()%8==0) ? 1 + rnd()%12 : 4; break;    // mostly X += t
          case 3: digit = (s%2) ? 2 : 1; break;                      // alternate X*Y, inverse
          case 4: digit = (rnd()%4==0) ? 1 + rnd()%12 : 1; break;    // mostly X = X*Y
          default: digit = (rnd()%3==0) ? 9 : ((rnd()%2) ? 10 : 3); break;   // slerp / Y*X / between
        }
        try {
          if(digit==12){ set_random(X, std::is_floating_point<S>()); }
          else GroupRunner2<G>::hstep(X,Y,digit,(size_t)s,ts,us);
          if(big(X)) X = (ts.empty()? T::Zero() : ts[s%ts.size()]).exp();
          if(big(Y)) Y = G::Identity();
        } catch(const manif::invalid_argument&){ exceptions++; X = G::Identity(); }
        if(!finite(X) || !finite(Y)){ nonfinite++; X = G::Identity(); Y = G::Identity(); continue; }
        S d1=dev(X), d2=dev(Y); if(maxdev<d1) maxdev=d1; if(maxdev<d2) maxdev=d2;
      }
      o.scalar(maxdev); o.scalar(S(0));
      o.scalar(S((int)exceptions)); o.scalar(S(0));
      o.scalar(S((int)nonfinite)); o.scalar(S(0));
      return true;
    }
    return false;
  }
};
