(* Sym_SE2.v — C18: SE2's isApprox is symmetric on the generic branch of log.  log(Z^-1) = -log(Z) exactly whenever the
   relative rotation angle theta satisfies eps <= theta^2 (the closed-form A, B) and is not the half turn.  On the Taylor
   branch the truncated series make the identity hold only to O(theta^4), so no exact statement exists there. *)
From Coq Require Import Reals List Lra Psatz.
From Manif Require Import Scalar Mat Consts Group RInst Tac Generic LieSpec Atan2 SO2 SE2 SE2Proofs Approx Approx_Inst.
Import ListNotations.
Local Open Scope R_scope.

Section P.
Variable eps : R.
Hypothesis eps_pos : 0 < eps.

Lemma se2_log_inverse_generic x y r i : r * r + i * i = 1 -> ~ (i = 0 /\ r < 0) ->
  eps <= atan2 i r * atan2 i r ->
  se2_log RS eps (se2_inverse RS [x; y; r; i]) = @vneg RS (se2_log RS eps [x; y; r; i]).
Proof.
  intros Hu Hpi Hth. unfold se2_log, se2_inverse, se2_angle, se2_real, se2_imag, se2_x, se2_y, se2_AB. mat_unfold.
  rewrite (atan2_opp_y i r Hpi). set (th := atan2 i r) in *.
  replace (- th * - th) with (th * th) by ring.
  assert (Hb : Rltb (th * th) eps = false) by (apply Rltb_false; exact Hth). rewrite Hb.
  assert (Hth0 : th <> 0) by (intros E; rewrite E in Hth; lra).
  assert (Hr1 : 1 - r <> 0).
  { intros E. assert (r = 1) by lra. assert (i = 0) by nra. unfold th, atan2 in Hth0. subst r i.
    destruct (Rlt_dec 0 1); [|lra]. apply Hth0. replace (0 / 1) with 0 by field. apply atan_0. }
  assert (Hden : i / th * (i / th) + (1 - r) / th * ((1 - r) / th) <> 0).
  { replace (i / th * (i / th) + (1 - r) / th * ((1 - r) / th)) with (2 * (1 - r) / (th * th)) by (field_simplify_eq; [nra|exact Hth0]).
    apply Rmult_integral_contrapositive_currified; [lra|]. apply Rinv_neq_0_compat. nra. }
  assert (Hden' : - i / - th * (- i / - th) + (1 - r) / - th * ((1 - r) / - th) <> 0).
  { replace (- i / - th) with (i / th) by (field; exact Hth0). replace ((1 - r) / - th) with (- ((1 - r) / th)) by (field; exact Hth0).
    replace (i / th * (i / th) + - ((1 - r) / th) * - ((1 - r) / th)) with (i / th * (i / th) + (1 - r) / th * ((1 - r) / th)) by ring. exact Hden. }
  match goal with |- @eq _ ?u ?v => change (@eq (list R) u v) end.
  assert (Hi2 : i * i = 1 - r * r) by lra.
  assert (Hs : i * i + (1 - r) * (1 - r) <> 0) by (intros E; apply Hr1; nra).
  list_eq.
  - field_simplify_eq; [|split; assumption].
    replace (i ^ 4) with ((1 - r * r) * (1 - r * r)) by (rewrite <- Hi2; ring).
    replace (i ^ 3) with (i * (1 - r * r)) by (rewrite <- Hi2; ring).
    replace (i ^ 2) with (1 - r * r) by (rewrite <- Hi2; ring). ring.
  - field_simplify_eq; [|split; assumption].
    replace (i ^ 4) with ((1 - r * r) * (1 - r * r)) by (rewrite <- Hi2; ring).
    replace (i ^ 3) with (i * (1 - r * r)) by (rewrite <- Hi2; ring).
    replace (i ^ 2) with (1 - r * r) by (rewrite <- Hi2; ring). ring.
  - ring.
Qed.

Theorem se2_isApprox_sym X Y e : se2_valid X -> se2_valid Y -> 0 < e ->
  (* the relative rotation is on the closed-form branch of log and not exactly a half turn *)
  (forall x y r i, g_compose (SE2 RS eps) (g_inverse (SE2 RS eps) Y) X = [x; y; r; i] ->
     ~ (i = 0 /\ r < 0) /\ eps <= atan2 i r * atan2 i r) ->
  g_isApprox (SE2 RS eps) X Y e = g_isApprox (SE2 RS eps) Y X e.
Proof.
  intros HX HY He Hgen. pose (C := SE2_core eps eps_pos).
  assert (HZ : se2_valid (g_compose (SE2 RS eps) (g_inverse (SE2 RS eps) Y) X)).
  { apply (gc_compose_valid _ C); [apply (gc_inverse_valid _ C)|]; assumption. }
  apply (g_isApprox_sym _ C); try assumption.
  - unfold rminus_val. destruct HZ as (x & y & r & i & E & _). rewrite E. cbn [g_log SE2]. unfold se2_log.
    destruct (se2_AB _ _ _ _ _) as [A B]. reflexivity.
  - unfold rminus_val. destruct HZ as (x & y & r & i & E & Hu). destruct (Hgen x y r i E) as [Hpi Hth]. rewrite E.
    cbn [g_log g_inverse SE2]. apply se2_log_inverse_generic; assumption.
Qed.
End P.
