(* SE3.v — model of impl/se3/SE3_base.h, SE3Tangent_base.h.
   Coefficients: [x; y; z; qx; qy; qz; qw].  Tangent: [vx; vy; vz; wx; wy; wz]. *)
From Coq Require Import ZArith List Bool.
Import ListNotations.
From Manif Require Import Scalar Mat Consts Group SO2 SO3.

Section SE3.
Variable F : Sc.
Variable eps : K F.
Local Notation "a + b" := (kadd F a b) : k_scope.
Local Notation "a - b" := (ksub F a b) : k_scope.
Local Notation "a * b" := (kmul F a b) : k_scope.
Local Notation "a / b" := (kdiv F a b) : k_scope.
Local Notation "- a" := (kopp F a) : k_scope.
Local Open Scope k_scope.
Local Notation vec := (list (K F)).
Local Notation mat := (list (list (K F))).

Definition se3_t (c : vec) : vec := firstn 3 c.            (* translation() *)
Definition se3_q (c : vec) : vec := vslice c 3 4.          (* asSO3() : view at offset 3 *)
Definition se3_rotation (c : vec) : mat := so3_rotation F (se3_q c).
Definition se3_transform (c : vec) : mat :=
  mset_block (mset_block (mid 4) 0 0 (se3_rotation c)) 0 3 (colvec (se3_t c)).

Definition se3_adj (c : vec) : mat :=
  let R := se3_rotation c in
  vcat (hcat R (mmul (skew3 (se3_t c)) R)) (hcat (mzero 3 3) R).

Definition se3_inverse (c : vec) : vec :=
  let qi := so3_inverse F (se3_q c) in
  vneg (so3_act F qi (se3_t c)) ++ qi.
Definition se3_inverse_J (c : vec) : mat := mneg (se3_adj c).

Definition se3_compose (a b : vec) : vec :=
  vadd (mvmul (se3_rotation a) (se3_t b)) (se3_t a) ++ so3_compose F eps (se3_q a) (se3_q b).
Definition se3_compose_Ja (a b : vec) : mat := se3_adj (se3_inverse b).
Definition se3_compose_Jb (a b : vec) : mat := mid 6.

Definition se3_act (c v : vec) : vec := vadd (se3_t c) (mvmul (se3_rotation c) v).
Definition se3_act_Jm (c v : vec) : mat :=
  let R := se3_rotation c in hcat R (mmul (mneg R) (skew3 v)).
Definition se3_act_Jv (c v : vec) : mat := se3_rotation c.

Definition se3_normalize (c : vec) : vec := firstn 3 c ++ eigen_normalize F (skipn 3 c).
Definition se3_assert_ok (c : vec) : bool :=
  kltb F (kabs (eigen_norm F (skipn 3 c) - kz 1)) eps.

(* ---- tangent ---- *)
Definition se3t_lin (t : vec) : vec := firstn 3 t.
Definition se3t_ang (t : vec) : vec := skipn 3 t.           (* asSO3(): view at offset 3 *)

Definition se3_hat (t : vec) : mat :=
  let c := fun i => vnth t i in
  [[kz 0; - c 5; c 4; c 0]; [c 5; kz 0; - c 3; c 1]; [- c 4; c 3; kz 0; c 2]; [kz 0; kz 0; kz 0; kz 0]].

(* SE3TangentBase::fillQ(Q, c): c is a 6-vector [rho; theta] *)
Definition fillQ (c : vec) : mat :=
  let th := skipn 3 c in
  let theta_sq := sqnorm th in
  let A := c_half in
  let '(B, C, D) :=
    if kleb theta_sq eps then
      (c_1_6d + c_1_120d * theta_sq, - c_1_24d + c_1_720d * theta_sq, - c_1_60d)
    else
      let theta := ksqrt F theta_sq in
      let sin_theta := ksin F theta in
      let cos_theta := kcos F theta in
      let B := (theta - sin_theta) / (theta_sq * theta) in
      let C := (kz 1 - theta_sq / kz 2 - cos_theta) / (theta_sq * theta_sq) in
      let D := C - kz 3 * (theta - sin_theta - theta_sq * theta / kz 6) / (theta_sq * theta_sq * theta) in
      (B, C, D) in
  let V := skew3 (firstn 3 c) in
  let W := skew3 th in
  let VW := mmul V W in
  let WV := mT VW in
  let WVW := mmul WV W in
  let VWW := mmul VW W in
  msub (msub (madd (mscale A V) (mscale B (madd (madd WV VW) WVW)))
             (mscale C (msub (msub VWW (mT VWW)) (mscale (kz 3) WVW))))
       (mmul (mscale D WVW) W).

Definition se3_ljac (t : vec) : mat :=
  let D := so3_ljac F eps (se3t_ang t) in
  vcat (hcat D (fillQ t)) (hcat (mzero 3 3) D).
Definition se3_rjac (t : vec) : mat :=
  let D := so3_rjac F eps (se3t_ang t) in
  vcat (hcat D (fillQ (vneg t))) (hcat (mzero 3 3) D).
Definition se3_ljacinv (t : vec) : mat :=
  let Q := fillQ t in
  let D := so3_ljacinv F eps (se3t_ang t) in
  vcat (hcat D (mmul (mmul (mneg D) Q) D)) (hcat (mzero 3 3) D).
Definition se3_rjacinv (t : vec) : mat :=
  let Q := fillQ (vneg t) in
  let D := so3_rjacinv F eps (se3t_ang t) in
  vcat (hcat D (mmul (mmul (mneg D) Q) D)) (hcat (mzero 3 3) D).

Definition se3_exp (t : vec) : vec :=
  mvmul (so3_ljac F eps (se3t_ang t)) (se3t_lin t) ++ so3_exp F eps (se3t_ang t).

Definition se3_log (c : vec) : vec :=
  let w := so3_log F eps (se3_q c) in
  mvmul (so3_ljacinv F eps w) (se3_t c) ++ w.
Definition se3_log_J (c : vec) : mat := se3_rjacinv (se3_log c).

Definition se3_smallAdj (t : vec) : mat :=
  let W := skew3 (se3t_ang t) in
  vcat (hcat W (skew3 (se3t_lin t))) (hcat (mzero 3 3) W).

Definition e_ij (n i j : nat) (v : K F) : mat := mset_block (mzero n n) i j [[v]].
Definition se3_generator (i : Z) : res mat :=
  match to_unsigned32 i with
  | 0%Z => Ok (e_ij 4 0 3 (kz 1))
  | 1%Z => Ok (e_ij 4 1 3 (kz 1))
  | 2%Z => Ok (e_ij 4 2 3 (kz 1))
  | 3%Z => Ok (mset_block (mzero 4 4) 0 0 [[kz 0; kz 0; kz 0]; [kz 0; kz 0; kz (-1)]; [kz 0; kz 1; kz 0]])
  | 4%Z => Ok (mset_block (mzero 4 4) 0 0 [[kz 0; kz 0; kz 1]; [kz 0; kz 0; kz 0]; [kz (-1); kz 0; kz 0]])
  | 5%Z => Ok (mset_block (mzero 4 4) 0 0 [[kz 0; kz (-1); kz 0]; [kz 1; kz 0; kz 0]; [kz 0; kz 0; kz 0]])
  | _ => InvalidArgument
  end.
Definition se3_vee (m : mat) : vec :=
  [mnth m 0 3; mnth m 1 3; mnth m 2 3; mnth m 2 1; mnth m 0 2; mnth m 1 0].

Definition SE3 : GroupOps F := {|
  g_dim := 3; g_dof := 6; g_rep := 7; g_tra := 4; g_alg := 4; g_actdim := 3;
  g_inverse := se3_inverse; g_inverse_J := se3_inverse_J;
  g_log := se3_log; g_log_J := se3_log_J;
  g_compose := se3_compose; g_compose_Ja := se3_compose_Ja; g_compose_Jb := se3_compose_Jb;
  g_act := se3_act; g_act_Jm := se3_act_Jm; g_act_Jv := se3_act_Jv;
  g_adj := se3_adj; g_transform := se3_transform; g_rotation := se3_rotation;
  g_translation := se3_t; g_normalize := se3_normalize; g_assert_ok := se3_assert_ok;
  g_exp := se3_exp; g_exp_J := se3_rjac; g_hat := se3_hat;
  g_rjac := se3_rjac; g_ljac := se3_ljac; g_rjacinv := se3_rjacinv; g_ljacinv := se3_ljacinv;
  g_smallAdj := se3_smallAdj; g_generator := se3_generator; g_vee := se3_vee;
  g_bracket := fun a b => mvmul (se3_smallAdj a) b;
  g_innerweights := inner_weights_generic 6 4 se3_generator;
  g_trandom := fun u => u;
  g_grandom := fun u => firstn 3 u ++ rand_quat F (vnth u 3) (vnth u 4) (vnth u 5)
|}.
End SE3.
