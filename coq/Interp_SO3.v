(* Interp_SO3.v — property C15 for SO3: interpolate(A, B, 0) = A exactly, and interpolate(A, B, 1) is B as a transformation
   (B itself, or -B: the other coefficient vector of the same rotation) whenever the relative rotation A^-1 B is on the
   closed-form branch of log and not a half turn — for SLERP, and hence wherever the end point is A (+) 1 * (B (-) A). *)
From Coq Require Import Reals ZArith List Lra Psatz.
From Manif Require Import Scalar Mat Consts Group RInst Tac Atan2 SO3 Generic LieSpec SO3Proofs Algorithms Log_SO3 JacInv_SO3 Log_SE3 Log_SE23 InterpProofs.
Import ListNotations.
Local Open Scope R_scope.

Section P.
Variable eps : R.
Hypothesis eps_pos : 0 < eps.
Local Notation G := (SO3 RS eps).
Local Notation C := (SO3_core eps eps_pos).

Lemma so3_compose_neg_r A x y z w : so3_valid A -> n4 x y z w = 1 ->
  so3_compose RS eps A [- x; - y; - z; - w] = @vneg RS (so3_compose RS eps A [x; y; z; w]).
Proof.
  intros (ax & ay & az & aw & -> & Ha) Hz.
  rewrite (so3_compose_valid_eq eps eps_pos) by (try assumption; unfold n4 in *; lra).
  rewrite (so3_compose_valid_eq eps eps_pos) by assumption.
  unfold quat_mul, qx, qy, qz, qw. mat_unfold. match goal with |- @eq _ ?u ?v => change (@eq (list R) u v) end. list_eq; ring.
Qed.

Theorem so3_slerp_zero A B : so3_valid A -> so3_valid B -> @interpolate_slerp RS G A B 0 = Ok A.
Proof.
  intros HA HB. unfold interpolate_slerp. rewrite in01_true by lra. f_equal.
  unfold rplus_v, rminus_v, tscale. cbn [g_compose g_exp g_log g_inverse SO3].
  assert (HZ : so3_valid (so3_compose RS eps (so3_inverse RS A) B)).
  { apply (gc_compose_valid _ C); [apply (gc_inverse_valid _ C)|]; assumption. }
  destruct HZ as (x & y & z & w & -> & Hn).
  assert (Hl : exists a b c, so3_log RS eps [x; y; z; w] = [a; b; c]).
  { unfold so3_log. cbn [firstn]. unfold vscale_r. cbn [map]. do 3 eexists. reflexivity. }
  destruct Hl as (a & b & c & ->). cbn [vscale_r map]. cbn [K RS kmul].
  assert (He : so3_exp RS eps [a * 0; b * 0; c * 0] = g_identity G).
  { rewrite (so3_identity_eq eps eps_pos). unfold so3_exp. mat_unfold.
    replace (a * 0 * (a * 0) + (b * 0 * (b * 0) + (c * 0 * (c * 0) + 0))) with 0 by ring.
    rewrite (Rltb_lt_false eps 0) by lra. match goal with |- @eq _ ?u ?v => change (@eq (list R) u v) end. list_eq; field. }
  rewrite He. exact (gc_neutral_r _ C A HA).
Qed.

Theorem so3_slerp_one A B : so3_valid A -> so3_valid B ->
  (forall x y z w, so3_compose RS eps (so3_inverse RS A) B = [x; y; z; w] -> eps < x * x + y * y + z * z /\ w <> 0) ->
  @interpolate_slerp RS G A B 1 = Ok B \/ @interpolate_slerp RS G A B 1 = Ok (@vneg RS B).
Proof.
  intros HA HB Hgen. unfold interpolate_slerp. rewrite in01_true by lra.
  unfold rplus_v, rminus_v, tscale. cbn [g_compose g_exp g_log g_inverse SO3].
  assert (HZ : so3_valid (so3_compose RS eps (so3_inverse RS A) B)).
  { apply (gc_compose_valid _ C); [apply (gc_inverse_valid _ C)|]; assumption. }
  assert (HAZ : so3_compose RS eps A (so3_compose RS eps (so3_inverse RS A) B) = B).
  { pose proof (gc_assoc _ C A (so3_inverse RS A) B HA (gc_inverse_valid _ C A HA) HB) as H1.
    pose proof (gc_inv_r _ C A HA) as H2. pose proof (gc_neutral_l _ C B HB) as H3.
    cbn [g_compose g_inverse SO3] in H1, H2, H3. rewrite <- H1, H2. exact H3. }
  destruct HZ as (x & y & z & w & EZ & Hn). destruct (Hgen x y z w EZ) as [Hs2 Hw]. rewrite EZ in *.
  destruct (so3_log_round eps eps_pos x y z w Hn Hs2 Hw) as (a & b & c & Hl & _ & _ & He). rewrite Hl.
  assert (E1 : @vscale_r RS [a; b; c] 1 = [a; b; c]) by (unfold vscale_r; cbn [map]; cbn [K RS kmul]; match goal with |- @eq _ ?u ?v => change (@eq (list R) u v) end; list_eq; ring).
  rewrite E1, He. destruct (Rlt_dec w 0).
  - right. f_equal. rewrite (so3_compose_neg_r A x y z w HA Hn). rewrite HAZ. reflexivity.
  - left. f_equal. exact HAZ.
Qed.
End P.
