(* Tac.v — proof tactics shared by all proof files (no definitions of the model). *)
From Coq Require Import Reals ZArith List Lra.
From Manif Require Import Scalar Mat Consts Group RInst.
Import ListNotations.
Local Open Scope R_scope.

(* unfold the matrix/vector layer and the RS instance down to expressions over R *)
Ltac mat_unfold :=
  cbv [vnth mnth vmap2 vadd vsub vneg vscale vscale_r vdivs dot sqnorm vzero mzero unitv mid mconst
       mmap2 madd msub mneg mscale mscale_r col mtrans ncols mT mvmul mmul vslice mblock vset mset_rows
       mset_block hcat vcat bdiag colvec flatten skew3 cross3 outer trace
       nth map seq repeat firstn skipn app length fold_right Nat.eqb Nat.add concat
       kz ksq kabs kgtb kleb kgeb keqb kmin kmax];
  cbn [K RS k0 k1 kadd ksub kmul kdiv kopp kltb klit ksin kcos ksqrt kacos katan2].
Ltac mat_unfold_in H :=
  cbv [vnth mnth vmap2 vadd vsub vneg vscale vscale_r vdivs dot sqnorm vzero mzero unitv mid mconst
       mmap2 madd msub mneg mscale mscale_r col mtrans ncols mT mvmul mmul vslice mblock vset mset_rows
       mset_block hcat vcat bdiag colvec flatten skew3 cross3 outer trace
       nth map seq repeat firstn skipn app length fold_right Nat.eqb Nat.add concat
       kz ksq kabs kgtb kleb kgeb keqb kmin kmax] in H;
  cbn [K RS k0 k1 kadd ksub kmul kdiv kopp kltb klit ksin kcos ksqrt kacos katan2] in H.

(* split an equation between concrete lists (of lists) into scalar goals *)
Ltac list_eq :=
  repeat match goal with
  | |- @eq (list _) (_ :: _) (_ :: _) => apply f_equal2
  | |- @eq (list _) [] [] => reflexivity
  end.

Lemma Rltb_lt_false a b : b <= a -> Rltb a b = false.
Proof. apply Rltb_false. Qed.
Lemma Rltb_lt_true a b : a < b -> Rltb a b = true.
Proof. apply Rltb_true. Qed.
