(* Taylor_SE3.v — property C02 on the small-angle branch of SE3 (and of the V blocks of SE_2(3)): for |theta|^2 <= eps <= 1 the
   model's exp uses V = I + W/2 for the translation; the exact V is I + g2 W + g3 W^2 with g2 = (1 - cos th)/th^2 in
   [1/2 - th^2/24, 1/2] and g3 = (th - sin th)/th^3 in [0, 1/6].  Each component of V rho is therefore within
   th^2 (|a| + |b| + |c|) of the exact one: uniformly at most eps relative to the size of the translation. *)
From Coq Require Import Reals ZArith List Lra Psatz.
From Coquelicot Require Import Coquelicot.
From Manif Require Import Scalar Mat Consts Group RInst Tac SO3 SE3 JacInv_SO3 Taylor_SE2 Jr_SO3 Jr_SE3.
Import ListNotations.
Local Open Scope R_scope.

Lemma Rabs_le_inv' a b : Rabs a <= b -> - b <= a <= b.
Proof. unfold Rabs. destruct (Rcase_abs a); lra. Qed.

Lemma g2_bounds t : 0 < t -> 1 / 2 - t * t / 24 <= g2 t <= 1 / 2.
Proof.
  intros Ht. unfold g2. pose proof (L2 t ltac:(lra)) as H2. pose proof (L4 t ltac:(lra)) as H4.
  assert (Htt : 0 < t * t) by nra. split.
  - apply (Rmult_le_reg_r (t * t)); [exact Htt|]. replace ((1 - cos t) / (t * t) * (t * t)) with (1 - cos t) by (field; lra). nra.
  - apply (Rmult_le_reg_r (t * t)); [exact Htt|]. replace ((1 - cos t) / (t * t) * (t * t)) with (1 - cos t) by (field; lra). nra.
Qed.
Lemma g3_bounds t : 0 < t -> 0 <= g3 t <= 1 / 6.
Proof.
  intros Ht. unfold g3. pose proof (L1 t ltac:(lra)) as H1. pose proof (L3 t ltac:(lra)) as H3.
  assert (Httt : 0 < t * t * t) by (assert (0 < t * t) by nra; nra). split.
  - apply (Rmult_le_reg_r (t * t * t)); [exact Httt|]. replace ((t - sin t) / (t * t * t) * (t * t * t)) with (t - sin t) by (field; lra). lra.
  - apply (Rmult_le_reg_r (t * t * t)); [exact Httt|]. replace ((t - sin t) / (t * t * t) * (t * t * t)) with (t - sin t) by (field; lra). nra.
Qed.

(* components of W rho and W^2 rho are bounded through the largest rotation component *)
Lemma comp_le_norm x y z : Rabs x <= th_of x y z /\ Rabs y <= th_of x y z /\ Rabs z <= th_of x y z.
Proof.
  unfold th_of. assert (H : forall u v w, Rabs u <= sqrt (u * u + v * v + w * w)).
  { intros u v w. rewrite <- (sqrt_Rsqr_abs u). apply sqrt_le_1_alt. unfold Rsqr. nra. }
  repeat split; [apply H| |].
  - replace (x * x + y * y + z * z) with (y * y + x * x + z * z) by ring. apply H.
  - replace (x * x + y * y + z * z) with (z * z + x * x + y * y) by ring. apply H.
Qed.

Section P.
Variable eps : R.
Hypothesis eps_pos : 0 < eps.

(* the small-angle value of V rho *)
Definition vsmall (i : nat) (a b c x y z : R) : R :=
  match i with O => a + (y * c - z * b) / 2 | S O => b + (z * a - x * c) / 2 | _ => c + (x * b - y * a) / 2 end.

Lemma se3_exp_small_translation a b c x y z i : x * x + y * y + z * z <= eps -> (i < 3)%nat ->
  nth i (se3_exp RS eps [a; b; c; x; y; z]) 0 = vsmall i a b c x y z.
Proof.
  intros H Hi. unfold se3_exp, se3t_ang, se3t_lin, so3_ljac, so3_hat. cbn [skipn firstn]. cbn [K RS].
  assert (Hsn : @sqnorm RS [x; y; z] = x * x + y * y + z * z) by (mat_unfold; ring). rewrite Hsn.
  unfold kleb. cbn [kltb RS]. rewrite (Rltb_lt_false eps _ H). cbn [negb]. unfold c_half, vsmall. mat_unfold.
  destruct i as [|[|[|i]]]; [| | |exfalso; lia]; cbn [nth]; field.
Qed.

Theorem se3_taylor_bound a b c x y z i :
  let n := x * x + y * y + z * z in
  0 < n -> n <= 1 -> (i < 3)%nat ->
  Rabs (vsmall i a b c x y z - vrho i a b c x y z) <= n * (Rabs a + Rabs b + Rabs c).
Proof.
  cbv zeta. intros Hn H1 Hi. set (n := x * x + y * y + z * z) in *.
  assert (Ht : 0 < th_of x y z) by (unfold th_of; apply sqrt_lt_R0; exact Hn).
  assert (Hsq : th_of x y z * th_of x y z = n) by (unfold th_of; apply sqrt_sqrt; unfold n in *; lra).
  destruct (g2_bounds _ Ht) as [G2l G2u]. destruct (g3_bounds _ Ht) as [G3l G3u].
  destruct (comp_le_norm x y z) as (Hx & Hy & Hz).
  set (t := th_of x y z) in *. assert (Ht1 : t <= 1) by nra.
  set (e2 := g2 t - 1 / 2) in *. assert (He2 : Rabs e2 <= n / 24) by (apply Rabs_le; unfold e2; rewrite <- Hsq; nra).
  pose proof (Rabs_pos a) as Pa. pose proof (Rabs_pos b) as Pb. pose proof (Rabs_pos c) as Pc.
  pose proof (Rabs_pos x) as Px. pose proof (Rabs_pos y) as Py. pose proof (Rabs_pos z) as Pz.
  (* |u v| <= t |v| for a rotation component u *)
  assert (Hm : forall u v, Rabs u <= t -> Rabs (u * v) <= t * Rabs v) by (intros u v Hu; rewrite Rabs_mult; pose proof (Rabs_pos v); nra).
  assert (Hmm : forall u u' v, Rabs u <= t -> Rabs u' <= t -> Rabs (u * (u' * v)) <= n * Rabs v).
  { intros u u' v Hu Hu'. rewrite !Rabs_mult. pose proof (Rabs_pos v). pose proof (Rabs_pos u). pose proof (Rabs_pos u'). rewrite <- Hsq.
    assert (Rabs u * Rabs u' <= t * t) by (apply Rmult_le_compat; assumption).
    replace (Rabs u * (Rabs u' * Rabs v)) with ((Rabs u * Rabs u') * Rabs v) by ring. apply Rmult_le_compat_r; assumption. }
  (* atom bounds: |e2 (u v)| <= n |v| / 24 and |g3 (u (u' v))| <= n |v| / 6 *)
  assert (B2 : forall u v, Rabs u <= t -> Rabs (e2 * (u * v)) <= n * Rabs v / 24).
  { intros u v Hu. rewrite Rabs_mult. pose proof (Hm u v Hu) as H. pose proof (Rabs_pos e2). pose proof (Rabs_pos (u * v)). pose proof (Rabs_pos v).
    apply Rle_trans with (n / 24 * (t * Rabs v)); [apply Rmult_le_compat; assumption|]. assert (t * Rabs v <= Rabs v) by nra. nra. }
  assert (B3 : forall u u' v, Rabs u <= t -> Rabs u' <= t -> Rabs (g3 t * (u * (u' * v))) <= n * Rabs v / 6).
  { intros u u' v Hu Hu'. rewrite Rabs_mult. pose proof (Hmm u u' v Hu Hu') as H. rewrite (Rabs_right (g3 t)) by lra.
    pose proof (Rabs_pos (u * (u' * v))). pose proof (Rabs_pos v).
    apply Rle_trans with (1 / 6 * (n * Rabs v)); [apply Rmult_le_compat; try assumption; lra|]. lra. }
  set (na := n * Rabs a) in *. set (nb := n * Rabs b) in *. set (nc := n * Rabs c) in *.
  replace (n * (Rabs a + Rabs b + Rabs c)) with (na + nb + nc) by (unfold na, nb, nc; ring).
  assert (Pna : 0 <= na) by (unfold na; nra). assert (Pnb : 0 <= nb) by (unfold nb; nra). assert (Pnc : 0 <= nc) by (unfold nc; nra).
  unfold vsmall, vrho. fold t.
  destruct i as [|[|[|i]]]; [| | |exfalso; lia].
  - replace (a + (y * c - z * b) / 2 - (a + g2 t * (y * c - z * b) + g3 t * (y * (x * b - y * a) - z * (z * a - x * c))))
      with (- (e2 * (y * c) - e2 * (z * b)) - (g3 t * (y * (x * b)) - g3 t * (y * (y * a)) - g3 t * (z * (z * a)) + g3 t * (z * (x * c)))) by (unfold e2; field).
    pose proof (B2 y c Hy) as A1. pose proof (B2 z b Hz) as A2. pose proof (B3 y x b Hy Hx) as A3. pose proof (B3 y y a Hy Hy) as A4. pose proof (B3 z z a Hz Hz) as A5. pose proof (B3 z x c Hz Hx) as A6.
    fold na nb nc in A1, A2, A3, A4, A5, A6.
    apply Rabs_le. apply Rabs_le_inv' in A1, A2, A3, A4, A5, A6. lra.
  - replace (b + (z * a - x * c) / 2 - (b + g2 t * (z * a - x * c) + g3 t * (z * (y * c - z * b) - x * (x * b - y * a))))
      with (- (e2 * (z * a) - e2 * (x * c)) - (g3 t * (z * (y * c)) - g3 t * (z * (z * b)) - g3 t * (x * (x * b)) + g3 t * (x * (y * a)))) by (unfold e2; field).
    pose proof (B2 z a Hz) as A1. pose proof (B2 x c Hx) as A2. pose proof (B3 z y c Hz Hy) as A3. pose proof (B3 z z b Hz Hz) as A4. pose proof (B3 x x b Hx Hx) as A5. pose proof (B3 x y a Hx Hy) as A6.
    fold na nb nc in A1, A2, A3, A4, A5, A6.
    apply Rabs_le. apply Rabs_le_inv' in A1, A2, A3, A4, A5, A6. lra.
  - replace (c + (x * b - y * a) / 2 - (c + g2 t * (x * b - y * a) + g3 t * (x * (z * a - x * c) - y * (y * c - z * b))))
      with (- (e2 * (x * b) - e2 * (y * a)) - (g3 t * (x * (z * a)) - g3 t * (x * (x * c)) - g3 t * (y * (y * c)) + g3 t * (y * (z * b)))) by (unfold e2; field).
    pose proof (B2 x b Hx) as A1. pose proof (B2 y a Hy) as A2. pose proof (B3 x z a Hx Hz) as A3. pose proof (B3 x x c Hx Hx) as A4. pose proof (B3 y y c Hy Hy) as A5. pose proof (B3 y z b Hy Hz) as A6.
    fold na nb nc in A1, A2, A3, A4, A5, A6.
    apply Rabs_le. apply Rabs_le_inv' in A1, A2, A3, A4, A5, A6. lra.
Qed.
End P.
