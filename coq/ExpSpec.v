(* ExpSpec.v — what "exp is the matrix exponential of hat" means (property C02):
   MatExp p A E: for all entries i,j <= p the exponential series sum_k (A^k)_ij / k! converges to E_ij.
   Matrices are the model's lists, read through fmat; the series machinery is Ode.v. *)
From Coq Require Import Reals List Lia.
From Coquelicot Require Import Coquelicot.
From Manif Require Import Scalar Mat RInst Ode.
Import ListNotations.
Local Open Scope R_scope.

Definition fmat (p : nat) (M : list (list R)) : nat -> nat -> R :=
  fun i j => if (Nat.leb i p && Nat.leb j p)%bool then @mnth RS M i j else 0.

Definition MatExp (p : nat) (A E : list (list R)) : Prop :=
  forall i j, (i <= p)%nat -> (j <= p)%nat ->
    is_series (fun k => mpow p (fmat p A) k i j / INR (fact k)) (fmat p E i j).
