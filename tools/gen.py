"""gen.py — structured case generators for the exact correspondence check.
Every random choice comes from one random.Random(seed); a case is identified by
(seed, index) and is reproducible.  Inputs are exact rationals (fractions.Fraction)."""
from fractions import Fraction as Fr
import random, math

EPS_D = Fr(25, 2**50)          # Constants<double>::eps = 100 * 2^-52
EPS_F = Fr(25, 2**21)          # Constants<float>::eps  = 100 * 2^-23
SQRT_EPS_D = Fr(5, 2**25)      # exact square root of EPS_D
PI_D = Fr(884279719003555, 281474976710656)   # MANIF_PI as a double

def fs(x):
    x = Fr(x)
    return str(x.numerator) if x.denominator == 1 else "%d/%d" % (x.numerator, x.denominator)

class G:
    def __init__(self, seed):
        self.r = random.Random(seed)
        self.strata = {}
    def note(self, key):
        self.strata[key] = self.strata.get(key, 0) + 1
    def small(self, bits=8):
        """small rational p/q, |p|,q < 2^bits"""
        q = self.r.randint(1, 2**bits - 1); p = self.r.randint(-(2**bits) + 1, 2**bits - 1)
        return Fr(p, q)
    def mag(self, kmax=40):
        """rational of widely varying magnitude (independent of everything else)"""
        c = self.r.random()
        if c < 0.12: return Fr(0)
        k = self.r.randint(-kmax, kmax) if c < 0.6 else self.r.randint(-3, 3)
        return self.small(6) * Fr(2)**k
    def vecmag(self, n, kmax=40):
        c = self.r.random()
        if c < 0.08: return [Fr(0)] * n
        if c < 0.5:
            k = self.r.randint(-kmax, kmax)
            return [self.small(6) * Fr(2)**k for _ in range(n)]
        return [self.mag(kmax) for _ in range(n)]

    # ---- angles (tangent rotation magnitudes) ----
    ANGLE_STRATA = ["zero", "tiny", "below_thr", "at_thr", "above_thr", "small", "smallish", "generic", "near_pi", "pi_d", "beyond_pi", "multi_turn"]
    def angle(self, stratum=None, thr=SQRT_EPS_D):
        s = stratum or self.r.choice(self.ANGLE_STRATA)
        self.note("angle:" + s)
        sign = self.r.choice([1, -1])
        if s == "zero": return Fr(0)
        if s == "tiny": return sign * Fr(self.r.randint(1, 9), 2**self.r.choice([60, 200, 600, 1100]))
        if s == "below_thr": return sign * thr * (1 - Fr(1, 2**self.r.choice([20, 40, 3])))
        if s == "at_thr": return sign * thr
        if s == "above_thr": return sign * thr * (1 + Fr(1, 2**self.r.choice([20, 40, 3])))
        if s == "small": return sign * Fr(self.r.randint(1, 999), 10**self.r.randint(4, 12))
        if s == "smallish": return sign * Fr(self.r.randint(1, 500), 1000)      # 1e-3 .. 0.5: where a mis-set small-angle threshold or a wrong series coefficient shows
        if s == "generic": return sign * Fr(self.r.randint(1, 300), 100)
        if s == "near_pi": return sign * (PI_D - Fr(self.r.randint(-3, 3), 2**self.r.choice([20, 30, 45])))
        if s == "pi_d": return sign * PI_D
        if s == "beyond_pi": return sign * Fr(self.r.randint(315, 628), 100)
        if s == "multi_turn": return sign * Fr(self.r.randint(629, 2500), 100)
        raise ValueError(s)

    # ---- unit complex numbers ----
    U2_STRATA = ["id", "half_turn", "quarter", "tiny", "smallish", "near_pi", "generic", "neg_generic"]
    def unit2(self, stratum=None, nopi=False):
        s = stratum or self.r.choice([x for x in self.U2_STRATA if not (nopi and x == "half_turn")])
        self.note("unit2:" + s)
        if s == "id": return [Fr(1), Fr(0)]
        if s == "half_turn": return [Fr(-1), Fr(0)]
        if s == "quarter": return self.r.choice([[Fr(0), Fr(1)], [Fr(0), Fr(-1)]])
        if s == "tiny": t = Fr(self.r.randint(-9, 9) or 1, 2**self.r.choice([20, 27, 40, 300]))
        elif s == "smallish": t = Fr(self.r.randint(-9, 9) or 1, 2**self.r.randint(5, 17))      # rotation angle 2 atan t: log-uniform over about 1e-4 .. 0.5 (between "tiny" and "generic")
        elif s == "near_pi": t = Fr(2**self.r.choice([20, 27, 40]), self.r.randint(-9, 9) or 1)
        elif s == "generic": t = Fr(self.r.randint(-40, 40), self.r.randint(41, 99))
        else: t = Fr(self.r.randint(41, 99) * self.r.choice([1, -1]), self.r.randint(1, 40))
        d = 1 + t * t
        return [(1 - t * t) / d, 2 * t / d]
    NU2_STRATA = ["eps_exact", "eps_half", "eps_just_below", "eps_just_above", "3eps", "1e-3", "scaled"]
    def nonunit2(self, stratum=None):
        """complex numbers whose squared norm is 1+delta for controlled delta (renormalisation / acceptance thresholds)"""
        s = stratum or self.r.choice(self.NU2_STRATA)
        self.note("nonunit2:" + s)
        if s == "eps_exact": return [Fr(1), SQRT_EPS_D]                 # n^2 = 1 + eps exactly
        if s == "eps_half": return [Fr(1), SQRT_EPS_D * Fr(7, 10)]
        if s == "eps_just_below": return [Fr(1), SQRT_EPS_D * (1 - Fr(1, 2**20))]
        if s == "eps_just_above": return [Fr(1), SQRT_EPS_D * (1 + Fr(1, 2**20))]
        if s == "3eps": return [Fr(1), SQRT_EPS_D * Fr(17, 10)]
        if s == "1e-3": return [Fr(1), Fr(1, 32)]
        c = self.unit2("generic"); k = 1 + Fr(self.r.randint(-50, 50), 2**self.r.choice([10, 30, 48, 52]))
        return [c[0] * k, c[1] * k]

    # ---- unit quaternions [x,y,z,w] ----
    U4_STRATA = ["id", "neg_id", "w0", "tiny", "tiny_neg", "smallish", "smallish_neg", "near_pi", "generic_pos", "generic_neg", "axis"]
    def unit4(self, stratum=None, nopi=False):
        s = stratum or self.r.choice([x for x in self.U4_STRATA if not (nopi and x == "w0")])
        self.note("unit4:" + s)
        if s == "id": return [Fr(0), Fr(0), Fr(0), Fr(1)]
        if s == "neg_id": return [Fr(0), Fr(0), Fr(0), Fr(-1)]
        if s == "w0":
            u = self.r.choice([[1, 0, 0], [0, 1, 0], [0, 0, 1], [Fr(3, 5), Fr(4, 5), 0], [Fr(2, 3), Fr(2, 3), Fr(1, 3)], [Fr(-2, 7), Fr(3, 7), Fr(6, 7)]])
            u = [Fr(a) for a in u]
        elif s in ("tiny", "tiny_neg"):
            k = self.r.choice([20, 26, 27, 40, 300])
            u = [Fr(self.r.randint(-9, 9), 2**k) for _ in range(3)]
            if all(a == 0 for a in u): u[0] = Fr(1, 2**k)
        elif s in ("smallish", "smallish_neg"):      # rotation angle about 2|u|: log-uniform over about 1e-4 .. 0.5, either hemisphere
            k = self.r.randint(5, 17)
            u = [Fr(self.r.randint(-9, 9), 2**k) for _ in range(3)]
            if all(a == 0 for a in u): u[0] = Fr(1, 2**k)
        elif s == "near_pi":
            k = self.r.choice([10, 20, 27])
            u = self.r.choice([[1, 0, 0], [0, 1, 0], [Fr(3, 5), Fr(4, 5), 0]]); u = [Fr(a) * (1 + Fr(self.r.choice([1, -1]), 2**k)) for a in u]
        elif s == "generic_pos": u = [Fr(self.r.randint(-20, 20), self.r.randint(41, 60)) for _ in range(3)]
        elif s == "generic_neg": u = [Fr(self.r.randint(-60, 60), self.r.randint(10, 40)) for _ in range(3)] ; u[0] += 2
        else:
            i = self.r.randrange(3); u = [Fr(0)] * 3; u[i] = Fr(self.r.randint(-30, 30) or 1, self.r.randint(1, 30))
        n2 = sum(a * a for a in u); d = 1 + n2
        q = [2 * a / d for a in u] + [(1 - n2) / d]
        if s in ("tiny_neg", "smallish_neg"): q = [-a for a in q]
        if nopi and q[3] == 0: return self.unit4("generic_pos")     # exactly a half turn: excluded on request
        return q
    NU4_STRATA = ["eps_exact", "eps_just_below", "eps_just_above", "taylor_at", "taylor_below", "taylor_above", "taylor_neg_w", "scaled"]
    def nonunit4(self, stratum=None):
        s = stratum or self.r.choice(self.NU4_STRATA)
        self.note("nonunit4:" + s)
        e = SQRT_EPS_D
        ax = self.r.choice([[1, 0, 0], [0, 1, 0], [0, 0, 1], [Fr(3, 5), Fr(4, 5), 0], [Fr(2, 3), Fr(-2, 3), Fr(1, 3)]])
        ax = [Fr(a) for a in ax]
        def v(scale, w): return [a * scale for a in ax] + [Fr(w)]
        if s == "eps_exact": return v(e, 1)                    # |v|^2 = eps, n^2 = 1+eps
        if s == "eps_just_below": return v(e * (1 - Fr(1, 2**20)), 1)
        if s == "eps_just_above": return v(e * (1 + Fr(1, 2**20)), 1)
        if s == "taylor_at": return v(e, self.r.choice([1, -1]))
        if s == "taylor_below": return v(e * Fr(self.r.randint(1, 9), 10), self.r.choice([1, -1]))
        if s == "taylor_above": return v(e * Fr(self.r.randint(11, 30), 10), self.r.choice([1, -1]))
        if s == "taylor_neg_w": return v(e * Fr(self.r.randint(1, 30), 10), -1)
        q = self.unit4("generic_pos"); k = 1 + Fr(self.r.randint(-50, 50), 2**self.r.choice([10, 30, 48, 52]))
        return [a * k for a in q]

    def vec3_norm(self, theta):
        """rational 3-vector with exactly the rational norm |theta| (Pythagorean directions)"""
        d = self.r.choice([[1, 0, 0], [0, 1, 0], [0, 0, 1], [Fr(3, 5), Fr(4, 5), 0], [Fr(2, 3), Fr(2, 3), Fr(1, 3)],
                           [Fr(-2, 7), Fr(3, 7), Fr(6, 7)], [Fr(1, 9), Fr(-4, 9), Fr(8, 9)], [0, Fr(-5, 13), Fr(12, 13)]])
        return [Fr(a) * theta for a in d]
    def vec3_any(self, theta):
        """rational 3-vector of norm about |theta| whose squared norm is generally not a rational square"""
        d = [Fr(self.r.randint(-9, 9), 10) for _ in range(3)]
        if all(a == 0 for a in d): d[2] = Fr(1)
        n = math.sqrt(float(sum(a * a for a in d)))
        k = Fr(theta) / Fr(n).limit_denominator(1000)
        return [a * k for a in d]
