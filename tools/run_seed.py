#!/usr/bin/env python3
"""tools/run_seed.py <seed-id> <property> [<property> ...] — development helper: apply seeded/<id>/patch.diff to /repo's working tree,
run the quick checks of the given properties, undo the patch, and record what fired in seeded/<id>/meta.json (field `detected_by`)."""
import os, sys, json, subprocess, re, time
V = os.path.dirname(os.path.dirname(os.path.abspath(__file__)))
sid = sys.argv[1]; props = sys.argv[2:]
S = os.path.join(V, "seeded", sid)
st = subprocess.run(["git", "-C", "/repo", "status", "--porcelain", "--untracked-files=no"], stdout=subprocess.PIPE, text=True).stdout.strip()
if st: print("/repo has uncommitted changes:", st); sys.exit(2)
r = subprocess.run(["git", "-C", "/repo", "apply", os.path.join(S, "patch.diff")])
if r.returncode != 0: print("patch does not apply"); sys.exit(2)
out = {}
try:
    for p in props:
        t = time.time()
        pr = subprocess.run([sys.executable, os.path.join(V, "tools", "check"), p, "--tier", "quick"], cwd=V, stdout=subprocess.PIPE, stderr=subprocess.STDOUT, text=True, timeout=3600)
        lines = [l for l in pr.stdout.splitlines() if l.startswith("VIOLATION") or l.startswith("  ")]
        viol = [l for l in pr.stdout.splitlines() if l.startswith("VIOLATION")]
        first = ""
        for i, l in enumerate(pr.stdout.splitlines()):
            if l.startswith("VIOLATION"):
                nxt = pr.stdout.splitlines()[i + 1] if i + 1 < len(pr.stdout.splitlines()) else ""
                first = (l + " | " + nxt.strip())[:400]; break
        out[p] = dict(exit=pr.returncode, violations=len(viol), with_failing_input=sum(1 for l in viol if "no-failing-input-found" not in l), first=first, seconds=round(time.time() - t))
        print(p, out[p])
finally:
    subprocess.run(["git", "-C", "/repo", "checkout", "--", "."])
mp = os.path.join(S, "meta.json")
meta = json.load(open(mp)) if os.path.exists(mp) else {}
meta.setdefault("id", sid)
meta["checked_at_repo_commit"] = subprocess.run(["git", "-C", "/repo", "rev-parse", "--short", "HEAD"], stdout=subprocess.PIPE, text=True).stdout.strip()
meta.setdefault("detected_by", {}).update(out)
json.dump(meta, open(mp, "w"), indent=1)
