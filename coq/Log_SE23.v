(* Log_SE23.v — property C03 for SE_2(3), generic branch, off the half turn: exp(log X) is X up to the sign of the
   quaternion (the same transformation): translation and velocity are recovered exactly through V V^-1 = I. *)
From Coq Require Import Reals ZArith List Lra Psatz.
From Manif Require Import Scalar Mat Consts Group RInst Tac Atan2 SO3 SE3 SE23 Generic LieSpec SO3Proofs Log_SO3 JacInv_SO3 Log_SE3 LogExp_SE3.
Import ListNotations.
Local Open Scope R_scope.

Section P.
Variable eps : R.
Hypothesis eps_pos : 0 < eps.

(* the facts about w = log q that the SE3-family round trips need *)
Lemma so3_log_round x y z w : n4 x y z w = 1 -> eps < x * x + y * y + z * z -> w <> 0 ->
  exists a b c, so3_log RS eps [x; y; z; w] = [a; b; c] /\ eps < a * a + b * b + c * c /\
    @mmul RS (so3_ljac RS eps [a; b; c]) (so3_ljacinv RS eps [a; b; c]) = @mid RS 3 /\
    so3_exp RS eps [a; b; c] = if Rlt_dec w 0 then [- x; - y; - z; - w] else [x; y; z; w].
Proof.
  intros Hn Hs2 Hw.
  destruct (so3_log_sqnorm eps eps_pos x y z w Hn Hs2) as (a & b & c & Hl & Hsq). exists a, b, c. split; [exact Hl|].
  assert (Hbig : eps < a * a + b * b + c * c).
  { rewrite Hsq. destruct (phi_facts x y z w Hn ltac:(lra)) as [Fneg Fpos].
    assert (Hsin : sin (so3_phi x y z w) * sin (so3_phi x y z w) = x * x + y * y + z * z).
    { assert (Hss : sqrt (x * x + y * y + z * z) * sqrt (x * x + y * y + z * z) = x * x + y * y + z * z) by (apply sqrt_sqrt; lra).
      destruct (Rlt_dec w 0) as [Hq|Hq]; [destruct (Fneg Hq) as (_ & -> & _)|destruct (Fpos ltac:(lra)) as (_ & -> & _)]; lra. }
    pose proof (sin_sq_le_sq (so3_phi x y z w)). nra. }
  split; [exact Hbig|].
  assert (Hsinne : sin (sqrt (a * a + b * b + c * c)) <> 0).
  { rewrite Hsq. destruct (so3_phi_bounds x y z w Hn ltac:(lra) Hw) as [Hb1 Hb2]. pose proof PI_RGT_0.
    assert (Eabs : 2 * so3_phi x y z w * (2 * so3_phi x y z w) = (2 * Rabs (so3_phi x y z w))²).
    { unfold Rsqr, Rabs. destruct (Rcase_abs (so3_phi x y z w)); ring. }
    rewrite Eabs. rewrite sqrt_Rsqr by lra. apply Rgt_not_eq. apply sin_gt_0; lra. }
  split; [exact (proj1 (so3_ljac_ljacinv eps eps_pos a b c Hbig Hsinne))|].
  rewrite <- Hl. apply (so3_exp_log_generic eps eps_pos); assumption.
Qed.

Theorem se23_exp_log_generic tx ty tz x y z w vx vy vz : n4 x y z w = 1 -> eps < x * x + y * y + z * z -> w <> 0 ->
  se23_exp RS eps (se23_log RS eps [tx; ty; tz; x; y; z; w; vx; vy; vz]) =
  [tx; ty; tz] ++ (if Rlt_dec w 0 then [- x; - y; - z; - w] else [x; y; z; w]) ++ [vx; vy; vz].
Proof.
  intros Hn Hs2 Hw. destruct (so3_log_round x y z w Hn Hs2 Hw) as (a & b & c & Hl & Hbig & HJ & He).
  cbn [K RS] in *. unfold se23_log, se23_q, se23_t, se23_v. cbv zeta. cbn [vslice skipn firstn]. cbn [K RS]. rewrite Hl.
  assert (Hm : forall r0 r1 r2 : R, exists p0 p1 p2 : R, @mvmul RS (so3_ljacinv RS eps [a; b; c]) [r0; r1; r2] = [p0; p1; p2]).
  { intros. cbn [K RS] in *. rewrite (so3_ljacinv_poly eps a b c Hbig). cbv zeta. unfold poly3. mat_unfold. do 3 eexists. reflexivity. }
  destruct (Hm tx ty tz) as (p0 & p1 & p2 & Ep). destruct (Hm vx vy vz) as (v0 & v1 & v2 & Ev). rewrite Ep, Ev.
  unfold se23_exp, se23t_ang, se23t_lin, se23t_lin2. cbv zeta. cbn [app vslice skipn firstn]. cbn [K RS] in *. rewrite He. rewrite <- Ep, <- Ev.
  assert (HA : exists a1 a2 a3 a4 a5 a6 a7 a8 a9, so3_ljacinv RS eps [a; b; c] = [[a1; a2; a3]; [a4; a5; a6]; [a7; a8; a9]])
    by (rewrite (so3_ljacinv_poly eps a b c Hbig); cbv zeta; unfold poly3; mat_unfold; do 9 eexists; reflexivity).
  assert (HB : exists a1 a2 a3 a4 a5 a6 a7 a8 a9, so3_ljac RS eps [a; b; c] = [[a1; a2; a3]; [a4; a5; a6]; [a7; a8; a9]])
    by (rewrite (so3_ljac_poly eps a b c Hbig); cbv zeta; unfold poly3; mat_unfold; do 9 eexists; reflexivity).
  rewrite !mvmul_mmul3 by (first [exact HA | exact HB | do 3 eexists; reflexivity]).
  rewrite HJ. rewrite !mid3_mvmul. reflexivity.
Qed.
End P.
