(* Algorithms.v — model of include/manif/algorithms/{interpolation,average,decasteljau}.h, written once
   over a GroupOps record (the C++ is written once over LieGroupBase<_Derived>).  Exceptions are values
   (Scalar.v: res).  Loops with an iteration cap are structural recursion on that cap. *)
From Coq Require Import ZArith List Bool.
Import ListNotations.
From Manif Require Import Scalar Mat Consts Group Generic.

Section Alg.
Variable F : Sc.
Variable G : GroupOps F.
Variable eps : K F.                    (* Constants<Scalar>::eps *)
Local Notation vec := (list (K F)).
Local Notation mat := (list (list (K F))).
Local Notation "a + b" := (kadd F a b) : k_scope.
Local Notation "a - b" := (ksub F a b) : k_scope.
Local Notation "a * b" := (kmul F a b) : k_scope.
Local Notation "a / b" := (kdiv F a b) : k_scope.
Local Notation "- a" := (kopp F a) : k_scope.
Local Open Scope k_scope.

(* the derived operations without Jacobians (lie_group_base.h) *)
Definition rplus_v (X t : vec) : vec := g_compose G X (g_exp G t).
Definition lplus_v (X t : vec) : vec := g_compose G (g_exp G t) X.
Definition rminus_v (X Y : vec) : vec := g_log G (g_compose G (g_inverse G Y) X).     (* X.rminus(Y) *)
Definition lminus_v (X Y : vec) : vec := g_log G (g_compose G X (g_inverse G Y)).     (* X.lminus(Y) *)
Definition tscale (t : vec) (s : K F) : vec := vscale_r t s.                           (* Tangent * Scalar *)

(* ------------------------------------------------------------------ interpolation.h *)
Definition in01 (t : K F) : bool := kgeb t (kz 0) && kleb t (kz 1).     (* MANIF_CHECK(t >= 0 && t <= 1) *)

Definition smoothing_phi (t : K F) (degree : Z) : res (K F) :=
  let t2 := t * t in let t3 := t2 * t in let t4 := t3 * t in let t5 := t4 * t in
  let t6 := t5 * t in let t7 := t6 * t in let t8 := t7 * t in let t9 := t8 * t in
  match degree with
  | 1%Z => Ok (kz 3 * t2 - kz 2 * t3)
  | 2%Z => Ok (kz 10 * t3 - kz 15 * t4 + kz 6 * t5)
  | 3%Z => Ok (kz 35 * t4 - kz 84 * t5 + kz 70 * t6 - kz 20 * t7)
  | 4%Z => Ok (kz 126 * t5 - kz 420 * t6 + kz 540 * t7 - kz 315 * t8 + kz 70 * t9)
  | _ => LogicError
  end.

Definition interpolate_slerp (A B : vec) (t : K F) : res vec :=
  if in01 t then Ok (rplus_v A (tscale (rminus_v B A) t)) else RuntimeError.

Definition hermite (t : K F) : K F * K F * K F * K F :=
  let t2 := t * t in let t3 := t2 * t in
  (kz 2 * t3 - kz 3 * t2 + kz 1,          (* h00 *)
   - kz 2 * t3 + kz 3 * t2,               (* h01 *)
   t3 - kz 2 * t2 + t,                    (* h10 *)
   t3 - t2).                              (* h11 *)

Definition interpolate_cubic (A B : vec) (t : K F) (ta tb : vec) : res vec :=
  if in01 t then
    let '(h00, h01, h10, h11) := hermite t in
    let tab := rminus_v B A in
    let l := rplus_v (rplus_v A (tscale tab h01)) (tscale ta h10) in
    let r := rplus_v (rplus_v B (tscale tab (- h00))) (tscale tb h11) in
    let Bv := rminus_v l r in
    Ok (rplus_v r Bv)
  else RuntimeError.

(* m is the C++ `unsigned int m`; MANIF_CHECK(m >= 1) comes first, then the range of t, then smoothing_phi *)
Definition interpolate_smooth (A B : vec) (t : K F) (m : Z) (ta tb : vec) : res vec :=
  if Z.ltb m 1 then RuntimeError else
  if negb (in01 t) then RuntimeError else
  rbind (smoothing_phi t m) (fun phi =>
    let r := rplus_v B (tscale tb (t - kz 1)) in
    let l := rplus_v A (tscale ta t) in
    let Bv := lminus_v r l in
    Ok (lplus_v l (tscale Bv phi))).

(* interpolate(ma, mb, t, method, ta, tb): method 0 SLERP, 1 CUBIC, 2 CNSMOOTH (m = 3) *)
Definition interpolate (A B : vec) (t : K F) (method : Z) (ta tb : vec) : res vec :=
  match method with
  | 0%Z => interpolate_slerp A B t
  | 1%Z => interpolate_cubic A B t ta tb
  | 2%Z => interpolate_smooth A B t 3 ta tb
  | _ => RuntimeError
  end.

(* ------------------------------------------------------------------ average.h *)
Definition nscalar (n : nat) : K F := kz (Z.of_nat n).                 (* Scalar(points.size()) *)

Fixpoint biinv_loop (fuel : nat) (pts : list vec) (avg : vec) (w e : K F) : vec :=
  match fuel with
  | O => avg
  | S fuel' =>
    let ts := fold_left (fun acc p => vadd acc (rminus_v p avg)) pts (vzero (g_dof G)) in
    let ts := vscale_r ts w in
    if kltb F (sqnorm ts) e then avg else biinv_loop fuel' pts (rplus_v avg ts) w e
  end.
Definition average_biinvariant (pts : list vec) (e : K F) (max_it : nat) : res vec :=
  match pts with
  | [] => RuntimeError
  | [p] => Ok p
  | p :: _ => Ok (biinv_loop max_it pts p (kz 1 / nscalar (length pts)) e)
  end.

(* average(): weights Jr^T Jr; the stopping test uses Constants<Scalar>::eps, not the argument *)
Fixpoint avg_loop (fuel : nat) (pts : list vec) (avg : vec) (w : K F) : vec :=
  match fuel with
  | O => avg
  | S fuel' =>
    let ts := fold_left (fun acc p =>
                let tmp := g_log G (g_compose G (g_inverse G avg) p) in        (* avg.between(p).log() *)
                let Jr := g_rjac G tmp in
                vadd acc (mvmul (mmul (mT Jr) Jr) tmp)) pts (vzero (g_dof G)) in
    let ts := vscale_r ts w in
    let Jt := g_rjac G ts in
    let n := dot ts (mvmul (mmul (mT Jt) Jt) ts) in
    if kltb F n eps then avg else avg_loop fuel' pts (rplus_v avg ts) w
  end.
Definition average_weighted (pts : list vec) (max_it : nat) : res vec :=
  match pts with
  | [] => RuntimeError
  | [p] => Ok p
  | p :: _ => Ok (avg_loop max_it pts p (kz 1 / nscalar (length pts)))
  end.

Fixpoint frechet_left_loop (fuel : nat) (pts : list vec) (avg : vec) (w e : K F) : vec :=
  match fuel with
  | O => avg
  | S fuel' =>
    let avg0 := avg in
    let l0 := g_log G avg0 in
    let Jl := g_ljac G l0 in
    let ts := fold_left (fun acc p => vadd acc (vscale_r (mvmul Jl (rminus_v p avg0)) w)) pts (vzero (g_dof G)) in
    let avg' := rplus_v avg0 (mvmul (g_ljacinv G l0) ts) in
    let tmp := mvmul Jl (rminus_v avg' avg0) in
    if kltb F (sqnorm tmp) e then avg' else frechet_left_loop fuel' pts avg' w e
  end.
Definition average_frechet_left (pts : list vec) (e : K F) (max_it : nat) : res vec :=
  match pts with
  | [] => RuntimeError
  | [p] => Ok p
  | p :: _ => Ok (frechet_left_loop max_it pts p (kz 1 / nscalar (length pts)) e)
  end.

Fixpoint frechet_right_loop (fuel : nat) (pts : list vec) (avg : vec) (w e : K F) : vec :=
  match fuel with
  | O => avg
  | S fuel' =>
    let avg0 := avg in
    let l0 := g_log G avg0 in
    let Jr := g_rjac G l0 in
    let ts := fold_left (fun acc p => vadd acc (vscale_r (mvmul Jr (lminus_v p avg0)) w)) pts (vzero (g_dof G)) in
    let avg' := lplus_v avg0 (mvmul (g_rjacinv G l0) ts) in
    let tmp := mvmul Jr (lminus_v avg' avg0) in
    if kltb F (sqnorm tmp) e then avg' else frechet_right_loop fuel' pts avg' w e
  end.
Definition average_frechet_right (pts : list vec) (e : K F) (max_it : nat) : res vec :=
  match pts with
  | [] => RuntimeError
  | [p] => Ok p
  | p :: _ => Ok (frechet_right_loop max_it pts p (kz 1 / nscalar (length pts)) e)
  end.

End Alg.

Arguments rplus_v {F}. Arguments lplus_v {F}. Arguments rminus_v {F}. Arguments lminus_v {F}. Arguments tscale {F}.
Arguments in01 {F}. Arguments smoothing_phi {F}. Arguments hermite {F}.
Arguments interpolate_slerp {F}. Arguments interpolate_cubic {F}. Arguments interpolate_smooth {F}. Arguments interpolate {F}.
Arguments average_biinvariant {F}. Arguments average_weighted {F}. Arguments average_frechet_left {F}. Arguments average_frechet_right {F}.
Arguments biinv_loop {F}. Arguments avg_loop {F}. Arguments frechet_left_loop {F}. Arguments frechet_right_loop {F}. Arguments nscalar {F}.

(* ------------------------------------------------------------------ decasteljau.h: the index logic.
   C++ types are explicit: trajectory.size() is size_t (64 bit), degree / k_interp / loop counters are
   unsigned int (32 bit, wrapping).  floor(double(a)/double(b)) is exact integer division for the sizes
   considered (below 2^53; stated in the theorems).  Every trajectory[i] is a checked access here:
   the model returns OutOfBounds i where the C++ would read outside the vector. *)
Definition u32 (z : Z) : Z := Z.modulo z 4294967296.
Definition u64 (z : Z) : Z := Z.modulo z 18446744073709551616.

(* the number of windows the code computes (after fix: floor((N-d)/(d-1)) + 1) *)
Definition dc_nsegments (N d : Z) : Z := u32 (Z.div (u64 (N - d)) (u32 (d - 1)) + 1).

(* control-point indices of window t *)
Definition dc_window (d t : Z) : list Z := map (fun n => u32 (u32 (t * u32 (d - 1)) + Z.of_nat n)) (seq 0 (Z.to_nat d)).

Definition zseq (a : Z) (n : nat) : list Z := map (fun i => (a + Z.of_nat i)%Z) (seq 0 n).

(* the closed-curve window; None when the unsigned subtraction degree-left_over-1 wraps (the C++ then
   tries to append ~2^32 pointers: std::bad_alloc) *)
Definition dc_closed_window (N d nseg : Z) : option (list Z) :=
  let last_pts_idx := u32 (nseg * u32 (d - 1)) in
  let left_over := u32 (N - 1 - last_pts_idx) in
  let cnt := u32 (d - left_over - 1) in
  if Z.ltb 2147483648 cnt then None
  else Some (zseq last_pts_idx (Z.to_nat (N - last_pts_idx)) ++ zseq 0 (Z.to_nat cnt)).

Inductive dc_result :=
| DcOk (windows : list (list Z)) (seg_k : Z)     (* the windows (indices into the trajectory) and points per window *)
| DcRuntimeError
| DcBadAlloc.

Definition dc_plan (N d k : Z) (closed : bool) : dc_result :=
  if negb (Z.ltb 2 N) then DcRuntimeError else
  if negb (Z.leb d N) then DcRuntimeError else
  if negb (Z.ltb 0 k) then DcRuntimeError else
  let nseg := dc_nsegments N d in
  let ws := map (fun t => dc_window d (Z.of_nat t)) (seq 0 (Z.to_nat nseg)) in
  let seg_k := if Z.eqb d 2 then k else u32 (k * d) in
  if closed && Z.leb (u32 (nseg * u32 (d - 1))) (u64 (N - 1)) then
    match dc_closed_window N d nseg with
    | Some w => DcOk (ws ++ [w]) seg_k
    | None => DcBadAlloc
    end
  else DcOk ws seg_k.

Section DC.
Variable F : Sc.
Variable G : GroupOps F.
Local Notation vec := (list (K F)).

(* one de Casteljau reduction: Qs[q].rplus(Qs[q+1].rminus(Qs[q]) * t) for q < size-1 *)
Fixpoint dc_reduce (Qs : list vec) (t : K F) : list vec :=
  match Qs with
  | a :: ((b :: _) as rest) => rplus_v G a (tscale (rminus_v G b a) t) :: dc_reduce rest t
  | _ => []
  end.
Fixpoint dc_iter (n : nat) (Qs : list vec) (t : K F) : list vec :=
  match n with O => Qs | S n' => dc_iter n' (dc_reduce Qs t) t end.

Definition dc_lookup (traj : list vec) (i : Z) : res vec :=
  if Z.ltb i 0 then OutOfBounds i else
  match nth_error traj (Z.to_nat i) with Some x => Ok x | None => OutOfBounds i end.
Fixpoint res_all {A} (l : list (res A)) : res (list A) :=
  match l with
  | [] => Ok []
  | r :: rest => rbind r (fun a => rbind (res_all rest) (fun l' => Ok (a :: l')))
  end.

(* t_01 = double(t)/segment_k as a scalar: the C++ computes it in double and multiplies the tangent by it;
   over the exact scalar the double quotient is converted exactly, so the model takes it as an input list *)
Definition dc_curve (traj : list vec) (d : Z) (ws : list (list Z)) (ts : list (K F)) : res (list vec) :=
  rbind (res_all (map (fun w => res_all (map (dc_lookup traj) w)) ws)) (fun wins =>
    Ok (concat (map (fun Qs => map (fun t => match dc_iter (Z.to_nat (u32 (d - 1))) Qs t with q :: _ => q | [] => [] end) ts) wins))).
End DC.
Arguments dc_reduce {F}. Arguments dc_iter {F}. Arguments dc_lookup {F}. Arguments dc_curve {F}. Arguments res_all {A}.
