(* BundleExpLog.v — C03 for Bundles: if exp(log X) = X holds for every element group (ExpLogCore: SO2, SE2, Rn), it holds
   for the Bundle of them, for any layout.  (BundleLaws.v does the lifting.) *)
From Coq Require Import Reals List Lia Lra.
From Manif Require Import Scalar Mat Group RInst Generic LieSpec Bundle BundleProofs BundleLaws BundleInst
  SO2 SE2 Rn SE2Proofs RnProofs InterpProofs InterpInst.
Import ListNotations.
Local Open Scope R_scope.

Record PackedEL : Type := mkPackedEL {
  q_G : GroupOps RS;
  q_el : ExpLogCore q_G;
  q_size : forall X, gc_valid (el_core q_G q_el) X -> length X = g_rep q_G;
  q_tsize : forall t, el_twf q_G q_el t -> length t = g_dof q_G
}.

Section Packs.
Variable LP : list PackedEL.
Variable dP : PackedEL.
Let L := map q_G LP.
Let V (i : nat) (X : list R) : Prop := gc_valid (el_core _ (q_el (nth i LP dP))) X.
Let d := q_G dP.
Lemma nthLq i : nth i L d = q_G (nth i LP dP).
Proof. unfold L, d. apply map_nth. Qed.

Theorem bundle_exp_log_of_cores X : bvalid RS L V X -> g_exp (Bundle L) (g_log (Bundle L) X) = X.
Proof.
  intros [ps [Hp ->]].
  apply (bundle_exp_log RS L d V) with (W := fun _ _ => True); auto.
  - intros i X _ H. rewrite nthLq. apply (q_size _ _ H).
  - intros i X _ H. rewrite nthLq. apply q_tsize. apply (el_log_twf _ (q_el (nth i LP dP))). exact H.
  - intros i X _ H _. rewrite nthLq. apply (el_exp_log _ (q_el (nth i LP dP))). exact H.
Qed.
End Packs.

Ltac tsize := let t := fresh "t" in let HV := fresh "HV" in intros t HV; cbn in HV; hnf in HV;
  repeat (match type of HV with ex _ => let x := fresh in destruct HV as [x HV] end); subst; reflexivity.
Definition SO2_packEL eps (H : 0 < eps) (H1 : eps <= 1) : PackedEL.
Proof. refine (mkPackedEL (SO2 RS eps) (SO2_explog eps H) _ _); [exact (p_size (SO2_pack eps H))|tsize]. Defined.
Definition SE2_packEL eps (H : 0 < eps) (H1 : eps <= 1) : PackedEL.
Proof. refine (mkPackedEL (SE2 RS eps) (SE2_explog eps H H1) _ _); [exact (p_size (SE2_pack eps H))|tsize]. Defined.
Definition R3_packEL : PackedEL.
Proof. refine (mkPackedEL (Rn RS 3) R3_explog _ _); [intros X H; exact H|intros t H; exact H]. Defined.
