(* Properties_C06.v — property C06 (rjac/ljac, their inverses, Adj and adj): the identities
   that are closed so far, all exact over the reals.  AdjLaws (LieSpec.v), for one group G:
     hat(Adj(X)*s) = X * hat(s) * X^-1  (X in the representation the algebra lives in);
     Adj(X*Y) = Adj(X)*Adj(Y);  Adj(Identity) = I;  Adj(X^-1)*Adj(X) = I;
     hat(smallAdj(t)*s) = [hat t, hat s];   ljac(t) = rjac(-t).
   The inverse-Jacobian identities are in the JacInv theorems below (group by group; the
   groups not listed there are validated by the predicate sweep only — see DESIGN.md). *)
From Coq Require Import Reals List Lra.
From Manif Require Import Scalar Mat Group RInst Generic LieSpec SO2 SE2 SO3 SE3 SE23 SGal3 Rn
  SE2Proofs SO3Proofs SE23Proofs RnProofs Adj_SO2 Adj_SE2 Adj_SO3 Adj_SE3 Adj_SE23 Adj_SGal3 Adj_Rn JacInv_SO3 JacInv_SE2 AdjExp_SO3 JacInv_SE3 JacInv_SE23
  Bundle BundleLaws BundleInst BundleCore.
Import ListNotations.
Local Open Scope R_scope.

Theorem C06_adj_SO2 eps : 0 < eps -> AdjLaws (SO2 RS eps) so2_valid.     Proof. intros _. exact (SO2_adj eps). Qed.
Theorem C06_adj_SE2 eps : 0 < eps -> AdjLaws (SE2 RS eps) se2_valid.     Proof. exact (SE2_adj eps). Qed.
Theorem C06_adj_SO3 eps : 0 < eps -> AdjLaws (SO3 RS eps) so3_valid.     Proof. exact (SO3_adj eps). Qed.
Theorem C06_adj_SE3 eps : 0 < eps -> AdjLaws (SE3 RS eps) se3_valid.     Proof. exact (SE3_adj eps). Qed.
Theorem C06_adj_SE23 eps : 0 < eps -> AdjLaws (SE23 RS eps) se23_valid.  Proof. exact (SE23_adj eps). Qed.
Theorem C06_adj_SGal3 eps : 0 < eps -> AdjLaws (SGal3 RS eps) sg_valid.  Proof. exact (SGal3_adj eps). Qed.
Print Assumptions C06_adj_SGal3.
Theorem C06_adj_R1 : AdjLaws (Rn RS 1) (rn_valid 1). Proof. exact R1_adj. Qed.
Theorem C06_adj_R2 : AdjLaws (Rn RS 2) (rn_valid 2). Proof. exact R2_adj. Qed.
Theorem C06_adj_R3 : AdjLaws (Rn RS 3) (rn_valid 3). Proof. exact R3_adj. Qed.
Theorem C06_adj_R4 : AdjLaws (Rn RS 4) (rn_valid 4). Proof. exact R4_adj. Qed.
Theorem C06_adj_R5 : AdjLaws (Rn RS 5) (rn_valid 5). Proof. exact R5_adj. Qed.
Theorem C06_adj_R6 : AdjLaws (Rn RS 6) (rn_valid 6). Proof. exact R6_adj. Qed.
Theorem C06_adj_R7 : AdjLaws (Rn RS 7) (rn_valid 7). Proof. exact R7_adj. Qed.
Theorem C06_adj_R8 : AdjLaws (Rn RS 8) (rn_valid 8). Proof. exact R8_adj. Qed.
Theorem C06_adj_R9 : AdjLaws (Rn RS 9) (rn_valid 9). Proof. exact R9_adj. Qed.
Print Assumptions C06_adj_R9.

(* JacInv: SO3, generic branch, wherever the code's own formula is defined (it divides by sin theta): ljacinv is the two-sided
   inverse of ljac and rjacinv of rjac.  (SO2 and Rn: all four are the identity matrix by definition.) *)
Theorem C06_JacInv_SO3_left eps x y z : 0 < eps -> eps < x * x + y * y + z * z -> sin (sqrt (x * x + y * y + z * z)) <> 0 ->
  @mmul RS (so3_ljac RS eps [x; y; z]) (so3_ljacinv RS eps [x; y; z]) = @mid RS 3 /\
  @mmul RS (so3_ljacinv RS eps [x; y; z]) (so3_ljac RS eps [x; y; z]) = @mid RS 3.
Proof. intros H. exact (so3_ljac_ljacinv eps H x y z). Qed.
Theorem C06_JacInv_SO3_right eps x y z : 0 < eps -> eps < x * x + y * y + z * z -> sin (sqrt (x * x + y * y + z * z)) <> 0 ->
  @mmul RS (so3_rjac RS eps [x; y; z]) (so3_rjacinv RS eps [x; y; z]) = @mid RS 3 /\
  @mmul RS (so3_rjacinv RS eps [x; y; z]) (so3_rjac RS eps [x; y; z]) = @mid RS 3.
Proof. intros H. exact (so3_rjac_rjacinv eps H x y z). Qed.
Print Assumptions C06_JacInv_SO3_right.

(* SE2, closed-form branch (eps < theta^2; the code divides by cos theta - 1): the inverse Jacobians are the two-sided
   matrix inverses, and Adj(exp t) = ljac(t) rjacinv(t) *)
Theorem C06_JacInv_SE2_right eps x y th : 0 < eps -> eps < th * th -> cos th <> 1 ->
  @mmul RS (se2_rjac RS eps [x; y; th]) (se2_rjacinv RS eps [x; y; th]) = @mid RS 3 /\
  @mmul RS (se2_rjacinv RS eps [x; y; th]) (se2_rjac RS eps [x; y; th]) = @mid RS 3.
Proof. intros H. exact (se2_rjac_rjacinv eps H x y th). Qed.
Theorem C06_JacInv_SE2_left eps x y th : 0 < eps -> eps < th * th -> cos th <> 1 ->
  @mmul RS (se2_ljac RS eps [x; y; th]) (se2_ljacinv RS eps [x; y; th]) = @mid RS 3 /\
  @mmul RS (se2_ljacinv RS eps [x; y; th]) (se2_ljac RS eps [x; y; th]) = @mid RS 3.
Proof. intros H. exact (se2_ljac_ljacinv eps H x y th). Qed.
Theorem C06_Adj_exp_SE2 eps x y th : 0 < eps -> eps < th * th -> cos th <> 1 ->
  se2_adj RS (se2_exp RS eps [x; y; th]) = @mmul RS (se2_ljac RS eps [x; y; th]) (se2_rjacinv RS eps [x; y; th]).
Proof. intros H. exact (se2_adj_exp eps H x y th). Qed.
Print Assumptions C06_Adj_exp_SE2.

(* SO3, generic branch: Adj(exp t) (the rotation matrix of the quaternion exp builds) = ljac(t) rjacinv(t) *)
Theorem C06_Adj_exp_SO3 eps x y z : 0 < eps -> eps < x * x + y * y + z * z -> sin (sqrt (x * x + y * y + z * z)) <> 0 ->
  so3_adj RS (so3_exp RS eps [x; y; z]) = @mmul RS (so3_ljac RS eps [x; y; z]) (so3_rjacinv RS eps [x; y; z]).
Proof. intros H. exact (so3_adj_exp eps H x y z). Qed.
Print Assumptions C06_Adj_exp_SO3.

(* SE3 and SE_2(3), generic branch, sin theta <> 0: the 6x6 / 9x9 inverse Jacobians the code assembles from Di and
   -Di Q Di blocks are the two-sided matrix inverses (block algebra over D Di = Di D = I, any Q = fillQ) *)
Theorem C06_JacInv_SE3_left eps a b c x y z : 0 < eps -> eps < x * x + y * y + z * z -> sin (sqrt (x * x + y * y + z * z)) <> 0 ->
  @mmul RS (se3_ljac RS eps [a; b; c; x; y; z]) (se3_ljacinv RS eps [a; b; c; x; y; z]) = @mid RS 6 /\
  @mmul RS (se3_ljacinv RS eps [a; b; c; x; y; z]) (se3_ljac RS eps [a; b; c; x; y; z]) = @mid RS 6.
Proof. intros H. exact (se3_ljac_ljacinv eps H a b c x y z). Qed.
Theorem C06_JacInv_SE3_right eps a b c x y z : 0 < eps -> eps < x * x + y * y + z * z -> sin (sqrt (x * x + y * y + z * z)) <> 0 ->
  @mmul RS (se3_rjac RS eps [a; b; c; x; y; z]) (se3_rjacinv RS eps [a; b; c; x; y; z]) = @mid RS 6 /\
  @mmul RS (se3_rjacinv RS eps [a; b; c; x; y; z]) (se3_rjac RS eps [a; b; c; x; y; z]) = @mid RS 6.
Proof. intros H. exact (se3_rjac_rjacinv eps H a b c x y z). Qed.
Theorem C06_JacInv_SE23_left eps a b c x y z d e f : 0 < eps -> eps < x * x + y * y + z * z -> sin (sqrt (x * x + y * y + z * z)) <> 0 ->
  @mmul RS (se23_ljac RS eps [a; b; c; x; y; z; d; e; f]) (se23_ljacinv RS eps [a; b; c; x; y; z; d; e; f]) = @mid RS 9 /\
  @mmul RS (se23_ljacinv RS eps [a; b; c; x; y; z; d; e; f]) (se23_ljac RS eps [a; b; c; x; y; z; d; e; f]) = @mid RS 9.
Proof. intros H. exact (se23_ljac_ljacinv eps H a b c x y z d e f). Qed.
Theorem C06_JacInv_SE23_right eps a b c x y z d e f : 0 < eps -> eps < x * x + y * y + z * z -> sin (sqrt (x * x + y * y + z * z)) <> 0 ->
  @mmul RS (se23_rjac RS eps [a; b; c; x; y; z; d; e; f]) (se23_rjacinv RS eps [a; b; c; x; y; z; d; e; f]) = @mid RS 9 /\
  @mmul RS (se23_rjacinv RS eps [a; b; c; x; y; z; d; e; f]) (se23_rjac RS eps [a; b; c; x; y; z; d; e; f]) = @mid RS 9.
Proof. intros H. exact (se23_rjac_rjacinv eps H a b c x y z d e f). Qed.
Print Assumptions C06_JacInv_SE23_right.

(* (the imports below shadow mmul / mid with the function-matrix versions of Ode.v: nothing after this point uses the list versions unqualified) *)
From Coquelicot Require Import Coquelicot.
From Manif Require Import Ode ExpSpec Exp_SO3 Series_SO3.
(* SO3, generic branch: the series characterisations of the property.  For SO3 ad_t = hat(t) = smallAdj(t).
   t.ljac() = sum_k ad_t^k/(k+1)!, t.rjac() = sum_k (-ad_t)^k/(k+1)! (entrywise limits; derived from the SE3 matrix exponential:
   the last column of exp [[W, rho]; [0, 0]] is sum_k W^k rho/(k+1)! = V rho), and Adj(exp t) = exp(ad_t) (C02's series) *)
Theorem C06_ljac_series_SO3 eps x y z i j : 0 < eps -> eps < x * x + y * y + z * z -> (i <= 2)%nat -> (j <= 2)%nat ->
  is_series (fun k => mpow 2 (fmat 2 (g_smallAdj (SO3 RS eps) [x; y; z])) k i j / INR (fact (S k)))
                              (@mnth RS (g_ljac (SO3 RS eps) [x; y; z]) i j).
Proof. intros H. exact (so3_ljac_series eps H x y z i j). Qed.
Theorem C06_rjac_series_SO3 eps x y z i j : 0 < eps -> eps < x * x + y * y + z * z -> (i <= 2)%nat -> (j <= 2)%nat ->
  is_series (fun k => mpow 2 (fmat 2 (g_smallAdj (SO3 RS eps) [- x; - y; - z])) k i j / INR (fact (S k)))
                              (@mnth RS (g_rjac (SO3 RS eps) [x; y; z]) i j).
Proof. intros H. exact (so3_rjac_series eps H x y z i j). Qed.
Theorem C06_Adj_exp_is_exp_ad_SO3 eps x y z : 0 < eps -> eps < x * x + y * y + z * z ->
  MatExp 2 (g_smallAdj (SO3 RS eps) [x; y; z]) (g_matrep (SO3 RS eps) (g_exp (SO3 RS eps) [x; y; z])).
Proof. exact (SO3_exp_matexp eps x y z). Qed.
Print Assumptions C06_ljac_series_SO3.

(* Bundles: for ANY list of element groups (packs: BundleCore.v) the Bundle's adj() — the block-diagonal matrix of the
   elements' adjoints, as Bundle_base.h writes it — is a homomorphism: Adj(X*Y) = Adj(X) Adj(Y), Adj(Identity) = I, and
   Adj(X^-1) is the two-sided inverse of Adj(X). *)
Theorem C06_adj_Bundle (LM : list PackedM) (dM : PackedM) :
  BundleAdjLaws (Bundle (map p_G (map m_pack LM)))
    (bvalid RS (map p_G (map m_pack LM)) (fun i X => gc_valid (p_core (nth i (map m_pack LM) (m_pack dM))) X)).
Proof. exact (bundle_adj_laws LM dM). Qed.
Print Assumptions C06_adj_Bundle.
