(* LogExp_SO3.v — property C03 for SO3: log(exp t) = t for every tangent with rotation angle below pi, on the generic
   branches of exp (eps < |t|^2) and log (eps < sin^2(|t|/2)). *)
From Coq Require Import Reals ZArith List Lra Psatz.
From Manif Require Import Scalar Mat Consts Group RInst Tac Atan2 SO3 Generic LieSpec SO3Proofs Log_SO3.
Import ListNotations.
Local Open Scope R_scope.

Section P.
Variable eps : R.
Hypothesis eps_pos : 0 < eps.

Lemma so3_exp_generic_form x y z : eps < x * x + y * y + z * z ->
  let th := sqrt (x * x + y * y + z * z) in
  so3_exp RS eps [x; y; z] = [sin (th / 2) * (x / th); sin (th / 2) * (y / th); sin (th / 2) * (z / th); cos (th / 2)].
Proof.
  intros Hgt. cbv zeta. set (n := x * x + y * y + z * z) in *. set (th := sqrt n) in *.
  assert (Hn : 0 < n) by lra.
  unfold so3_exp. assert (Hsn : @sqnorm RS [x; y; z] = n) by (unfold n; mat_unfold; ring). rewrite Hsn.
  unfold kgtb. cbn [kltb RS]. rewrite (Rltb_lt_true eps n Hgt).
  unfold quat_of_angle_axis, eigen_normalized. rewrite Hsn. unfold kgtb. cbn [kltb RS k0]. rewrite (Rltb_lt_true 0 n Hn).
  cbn [ksqrt RS]. fold th. unfold c_half. mat_unfold. replace (1 / 2 * th) with (th / 2) by field. reflexivity.
Qed.
Lemma so3_exp_valid_generic x y z : eps < x * x + y * y + z * z -> so3_valid (so3_exp RS eps [x; y; z]).
Proof.
  intros Hgt. rewrite (so3_exp_generic_form x y z Hgt). cbv zeta. set (n := x * x + y * y + z * z) in *. set (th := sqrt n) in *.
  assert (Hn : 0 < n) by lra. assert (Hth : 0 < th) by (apply sqrt_lt_R0; exact Hn).
  assert (Hsq : th * th = n) by (apply sqrt_sqrt; lra).
  eexists _, _, _, _. split; [reflexivity|]. unfold n4.
  transitivity (sin (th / 2) * sin (th / 2) * (n / (th * th)) + cos (th / 2) * cos (th / 2)); [unfold n; field; lra|].
  rewrite Hsq. replace (n / n) with 1 by (field; lra). pose proof (sin2_cos2 (th / 2)) as H. unfold Rsqr in H. lra.
Qed.

Theorem so3_log_exp_generic x y z :
  let n := x * x + y * y + z * z in let th := sqrt n in
  eps < n -> th < PI -> eps < sin (th / 2) * sin (th / 2) ->
  so3_log RS eps (so3_exp RS eps [x; y; z]) = [x; y; z].
Proof.
  cbv zeta. intros Hgt Hpi Hsin. set (n := x * x + y * y + z * z) in *. set (th := sqrt n) in *.
  assert (Hn : 0 < n) by lra. assert (Hth : 0 < th) by (apply sqrt_lt_R0; exact Hn).
  assert (Hsq : th * th = n) by (apply sqrt_sqrt; lra).
  assert (He : so3_exp RS eps [x; y; z] = [sin (th / 2) * (x / th); sin (th / 2) * (y / th); sin (th / 2) * (z / th); cos (th / 2)]).
  { unfold so3_exp. assert (Hsn : @sqnorm RS [x; y; z] = n) by (unfold n; mat_unfold; ring). rewrite Hsn.
    unfold kgtb. cbn [kltb RS]. rewrite (Rltb_lt_true eps n Hgt).
    unfold quat_of_angle_axis, eigen_normalized. rewrite Hsn. unfold kgtb. cbn [kltb RS k0]. rewrite (Rltb_lt_true 0 n Hn).
    cbn [ksqrt RS]. fold th. unfold c_half. mat_unfold. replace (1 / 2 * th) with (th / 2) by field. reflexivity. }
  rewrite He. set (h := th / 2) in *.
  assert (Hh : 0 < h < PI / 2) by (unfold h; lra).
  assert (Hsh : 0 < sin h) by (apply sin_gt_0; lra).
  assert (Hch : 0 < cos h) by (apply cos_gt_0; lra).
  assert (Hv : sin h * (x / th) * (sin h * (x / th)) + sin h * (y / th) * (sin h * (y / th)) + sin h * (z / th) * (sin h * (z / th)) = sin h * sin h).
  { transitivity (sin h * sin h * (n / (th * th))); [unfold n; field; lra|]. rewrite Hsq. field. lra. }
  rewrite (so3_log_generic eps) by (rewrite Hv; exact Hsin). cbv zeta. rewrite Hv.
  replace (sin h * sin h) with ((sin h)²) by (unfold Rsqr; ring). rewrite sqrt_Rsqr by lra.
  unfold so3_phi. rewrite Hv. replace (sin h * sin h) with ((sin h)²) by (unfold Rsqr; ring). rewrite sqrt_Rsqr by lra.
  destruct (Rlt_dec (cos h) 0); [lra|].
  rewrite (atan2_sin_cos h) by (pose proof PI_RGT_0; lra).
  match goal with |- @eq _ ?u ?v => change (@eq (list R) u v) end.
  unfold h. list_eq; field; split; try lra; fold h; lra.
Qed.
End P.
