(* JacInv_SE23.v — property C06 for SE_2(3) (generic branch, sin theta <> 0): rjacinv and ljacinv are the two-sided matrix
   inverses of rjac and ljac.  The 9x9 Jacobians are [[D, Qv, 0]; [0, D, 0]; [0, Qa, D]] (se23_jblocks) and the code's
   inverses have -Di Qv Di, -Di Qa Di in the off-diagonal blocks; with D Di = Di D = I the products are the identity. *)
From Coq Require Import Reals ZArith List Lra.
From Manif Require Import Scalar Mat Consts Group RInst Tac SO3 SE3 SE23 JacInv_SO3 JacInv_SE3.
Import ListNotations.
Local Open Scope R_scope.

Local Notation M3 := (list (list R)).
Ltac open33 H := destruct H as (?a1 & ?a2 & ?a3 & ?a4 & ?a5 & ?a6 & ?a7 & ?a8 & ?a9 & ->).
Ltac meq := match goal with |- @eq _ ?u ?v => change (@eq (list (list R)) u v) end; list_eq.

Lemma jb_mul D Qv Qa D' Qv' Qa' : is33 D -> is33 Qv -> is33 Qa -> is33 D' -> is33 Qv' -> is33 Qa' ->
  @mmul RS (se23_jblocks RS D Qv Qa) (se23_jblocks RS D' Qv' Qa') =
  se23_jblocks RS (@mmul RS D D') (@madd RS (@mmul RS D Qv') (@mmul RS Qv D')) (@madd RS (@mmul RS Qa D') (@mmul RS D Qa')).
Proof. intros H1 H2 H3 H4 H5 H6. open33 H1. open33 H2. open33 H3. open33 H4. open33 H5. open33 H6. unfold se23_jblocks. mat_unfold. meq; ring. Qed.
Lemma jb_id : se23_jblocks RS (@mid RS 3) (@mzero RS 3 3) (@mzero RS 3 3) = @mid RS 9.
Proof. unfold se23_jblocks. mat_unfold. reflexivity. Qed.
Lemma madd_comm33 A B : is33 A -> is33 B -> @madd RS A B = @madd RS B A.
Proof. intros HA HB. open33 HA. open33 HB. mat_unfold. meq; ring. Qed.

Theorem jb_inverse D Di Qv Qa : is33 D -> is33 Di -> is33 Qv -> is33 Qa -> @mmul RS D Di = @mid RS 3 -> @mmul RS Di D = @mid RS 3 ->
  let X := @mmul RS (@mmul RS (@mneg RS Di) Qv) Di in let Y := @mmul RS (@mmul RS (@mneg RS Di) Qa) Di in
  @mmul RS (se23_jblocks RS D Qv Qa) (se23_jblocks RS Di X Y) = @mid RS 9 /\
  @mmul RS (se23_jblocks RS Di X Y) (se23_jblocks RS D Qv Qa) = @mid RS 9.
Proof.
  intros HD HDi HQv HQa E1 E2. cbv zeta.
  assert (HX : is33 (@mmul RS (@mmul RS (@mneg RS Di) Qv) Di)) by (apply is33_mmul; [apply is33_mmul; [apply is33_mneg|]|]; assumption).
  assert (HY : is33 (@mmul RS (@mmul RS (@mneg RS Di) Qa) Di)) by (apply is33_mmul; [apply is33_mmul; [apply is33_mneg|]|]; assumption).
  split.
  - rewrite jb_mul by assumption. rewrite E1, (cancel_r D Di Qv HD HDi HQv E1).
    rewrite (madd_comm33 (@mmul RS Qa Di)) by (apply is33_mmul; assumption). rewrite (cancel_r D Di Qa HD HDi HQa E1). apply jb_id.
  - rewrite jb_mul by assumption. rewrite E2, (cancel_l D Di Qv HD HDi HQv E2).
    rewrite (madd_comm33 (@mmul RS (@mmul RS (@mmul RS (@mneg RS Di) Qa) Di) D)) by (apply is33_mmul; assumption).
    rewrite (cancel_l D Di Qa HD HDi HQa E2). apply jb_id.
Qed.

Section P.
Variable eps : R.
Hypothesis eps_pos : 0 < eps.

Theorem se23_ljac_ljacinv a b c x y z d e f : eps < x * x + y * y + z * z -> sin (sqrt (x * x + y * y + z * z)) <> 0 ->
  @mmul RS (se23_ljac RS eps [a; b; c; x; y; z; d; e; f]) (se23_ljacinv RS eps [a; b; c; x; y; z; d; e; f]) = @mid RS 9 /\
  @mmul RS (se23_ljacinv RS eps [a; b; c; x; y; z; d; e; f]) (se23_ljac RS eps [a; b; c; x; y; z; d; e; f]) = @mid RS 9.
Proof.
  intros H HS. destruct (so3_ljac_ljacinv eps eps_pos x y z H HS) as [E1 E2].
  unfold se23_ljac, se23_ljacinv, se23t_ang, se23t_lin2. cbv zeta. cbn [vslice skipn firstn]. cbn [K RS].
  apply (jb_inverse (so3_ljac RS eps [x; y; z]) (so3_ljacinv RS eps [x; y; z]));
    [apply (ljac_is33 eps); exact H|apply (ljacinv_is33 eps); exact H|apply fillQ_is33|apply fillQ_is33|exact E1|exact E2].
Qed.
Theorem se23_rjac_rjacinv a b c x y z d e f : eps < x * x + y * y + z * z -> sin (sqrt (x * x + y * y + z * z)) <> 0 ->
  @mmul RS (se23_rjac RS eps [a; b; c; x; y; z; d; e; f]) (se23_rjacinv RS eps [a; b; c; x; y; z; d; e; f]) = @mid RS 9 /\
  @mmul RS (se23_rjacinv RS eps [a; b; c; x; y; z; d; e; f]) (se23_rjac RS eps [a; b; c; x; y; z; d; e; f]) = @mid RS 9.
Proof.
  intros H HS. destruct (so3_rjac_rjacinv eps eps_pos x y z H HS) as [E1 E2].
  unfold se23_rjac, se23_rjacinv, se23t_ang, se23t_lin2. cbv zeta. cbn [vslice skipn firstn]. cbn [K RS].
  apply (jb_inverse (so3_rjac RS eps [x; y; z]) (so3_rjacinv RS eps [x; y; z]));
    [apply (rjac_is33 eps); exact H|apply (rjacinv_is33 eps); exact H|apply fillQ_is33|apply fillQ_is33|exact E1|exact E2].
Qed.
End P.
