(* ApiMatrix.v — property C19: the documented generic API as a finite matrix entry x group x scalar x storage.
   No theorem can be stated about C++ overload resolution and template instantiation with what is installed (there is no
   formal C++ semantics), so "compiles and links" is decided by exhaustive enumeration: every cell is compiled, linked and
   run against the current tree on every run.  Coq's part is the bookkeeping that makes the enumeration exhaustive by
   construction: the cells are enumerated HERE from the entry / group tables (with the applicability rule: mutating
   entries need a mutable operand, container algorithms an owning one, rotation / translation / normalize the groups
   that have them), and the regenerated obligation `matrix_ok` (build/ApiMatrixGen.v) is that every enumerated cell
   has a recorded result and that result is OK. *)
From Coq Require Import List Bool Arith String.
Import ListNotations.

Inductive need := NeedMutX | NeedMutW | NeedBin | NeedOwn | NeedRot | NeedTra | NeedNorm.
Record entry := mkEntry { e_id : nat; e_name : string; e_needs : list need }.
Record grp := mkGrp { g_id : nat; g_name : string; g_rot : bool; g_tra : bool; g_norm : bool }.
(* storage kind: 0 owning, 1 Eigen::Map, 2 Eigen::Map<const> (all operands alike), 3..5 mixed: the operands (X, Y, w, t) of an
   entry are stored as  3: owning, Map<const>, Map, owning   4: Map, owning, Map<const>, Map   5: Map<const>, Map, owning, Map<const>
   so that the two stored operands of a binary entry differ in storage;  scalar: 0 double, 1 float.
   NeedMutX / NeedMutW: the entry mutates its group / tangent operand (not a const view); NeedBin: the entry has two stored
   operands (the mixed kinds apply to these only). *)
Definition const_view_X (storage : nat) : bool := Nat.eqb storage 2 || Nat.eqb storage 5.
Definition const_view_W (storage : nat) : bool := Nat.eqb storage 2 || Nat.eqb storage 4.
Definition need_ok (g : grp) (storage : nat) (n : need) : bool :=
  match n with
  | NeedMutX => negb (const_view_X storage)
  | NeedMutW => negb (const_view_W storage)
  | NeedBin => true
  | NeedOwn => Nat.eqb storage 0
  | NeedRot => g_rot g | NeedTra => g_tra g | NeedNorm => g_norm g
  end.
Definition is_bin (e : entry) : bool := existsb (fun n => match n with NeedBin => true | _ => false end) (e_needs e).
Definition applicable (e : entry) (g : grp) (storage : nat) : bool :=
  forallb (need_ok g storage) (e_needs e) && (Nat.ltb storage 3 || is_bin e).

Definition cell := (nat * nat * nat * nat)%type.      (* entry id, group id, scalar, storage *)
Definition all_cells (es : list entry) (gs : list grp) : list cell :=
  flat_map (fun e => flat_map (fun g => flat_map (fun sc => flat_map (fun st =>
     if applicable e g st then [(e_id e, g_id g, sc, st)] else []) [0; 1; 2; 3; 4; 5]) [0; 1]) gs) es.

Definition cell_eqb (a b : cell) : bool :=
  let '(a1, a2, a3, a4) := a in let '(b1, b2, b3, b4) := b in Nat.eqb a1 b1 && Nat.eqb a2 b2 && Nat.eqb a3 b3 && Nat.eqb a4 b4.
(* results of this run: (cell, ok?) *)
Definition cell_ok (results : list (cell * bool)) (c : cell) : bool :=
  match find (fun r => cell_eqb (fst r) c) results with Some r => snd r | None => false end.
Definition matrix_ok (es : list entry) (gs : list grp) (results : list (cell * bool)) : bool :=
  forallb (cell_ok results) (all_cells es gs).

(* the same with a list of excused cells (the listed known findings of the property: reported on every run, never silently dropped) *)
Definition matrix_ok_except (es : list entry) (gs : list grp) (excused : list cell) (results : list (cell * bool)) : bool :=
  forallb (fun c => existsb (cell_eqb c) excused || cell_ok results c) (all_cells es gs).

(* soundness of the bookkeeping: if matrix_ok holds then every applicable (entry, group, scalar, storage) has an OK result *)
Lemma all_cells_complete es gs e g sc st : In e es -> In g gs -> (sc < 2)%nat -> (st < 6)%nat -> applicable e g st = true ->
  In (e_id e, g_id g, sc, st) (all_cells es gs).
Proof.
  intros He Hg Hsc Hst Ha. unfold all_cells. apply in_flat_map. exists e. split; [exact He|].
  apply in_flat_map. exists g. split; [exact Hg|]. apply in_flat_map. exists sc. split; [destruct sc as [|[|?]]; cbn; auto; inversion Hsc; inversion H0; inversion H2|].
  apply in_flat_map. exists st. split; [destruct st as [|[|[|[|[|[|?]]]]]]; cbn; auto 10; exfalso; repeat (apply le_S_n in Hst); inversion Hst|].
  rewrite Ha. left. reflexivity.
Qed.
Theorem matrix_ok_sound es gs results e g sc st : matrix_ok es gs results = true ->
  In e es -> In g gs -> (sc < 2)%nat -> (st < 6)%nat -> applicable e g st = true -> cell_ok results (e_id e, g_id g, sc, st) = true.
Proof.
  intros H He Hg Hsc Hst Ha. unfold matrix_ok in H. rewrite forallb_forall in H. apply H. apply all_cells_complete; assumption.
Qed.

Theorem matrix_ok_except_sound es gs excused results e g sc st : matrix_ok_except es gs excused results = true ->
  In e es -> In g gs -> (sc < 2)%nat -> (st < 6)%nat -> applicable e g st = true ->
  existsb (cell_eqb (e_id e, g_id g, sc, st)) excused = true \/ cell_ok results (e_id e, g_id g, sc, st) = true.
Proof.
  intros H He Hg Hsc Hst Ha. unfold matrix_ok_except in H. rewrite forallb_forall in H.
  specialize (H _ (all_cells_complete es gs e g sc st He Hg Hsc Hst Ha)). apply orb_true_iff in H. exact H.
Qed.
