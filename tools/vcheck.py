"""vcheck.py — the decision procedure shared by all property checks (DESIGN.md section 3.6).

  1. proof obligations: full .vo build of Properties_<id>.v (+ forbidden-construct scan,
     Print Assumptions of every theorem)
  2. correspondence: the extracted Coq model against manif instantiated over the exact
     rational scalar, on the operations the property's theorems mention (exact equality)
  3. executable predicates on the implementation (exact over ExQ; tolerance in double)
  4. on a broken obligation / disagreement: search for a failing input with the predicates
  5. known findings, evidence, VIOLATION lines
"""
import os, sys, json, time, re, random, subprocess, hashlib
from fractions import Fraction as Fr
import vlib, corr
from gen import G, fs, EPS_D

class Violation:
    def __init__(self, pid, kind, sig, what, replay_obj, found_input=True):
        self.pid, self.kind, self.sig, self.what, self.replay_obj, self.found_input = pid, kind, sig, what, replay_obj, found_input

# ------------------------------------------------------------------ proofs
def check_proofs(pid, vfiles, log):
    """returns dict(obligations, discharged, theorems, assumptions, ok, detail)"""
    bad = vlib.forbidden_scan()
    res = dict(obligations=0, discharged=0, theorems=[], assumptions=[], ok=True, detail="", forbidden=bad)
    if bad:
        res["ok"] = False; res["detail"] = "forbidden constructs: " + "; ".join(bad[:5])
    thms = []
    for vf in vfiles:
        thms += [(vf, t) for t in vlib.theorems_in(vf)]
    res["obligations"] = len(thms); res["theorems"] = [t for _, t in thms]
    targets = [vf[:-2] + ".vo" for vf in vfiles]
    t = time.time()
    ok, out = vlib.coq_make(targets, timeout=3000)
    log("coq make %s: %s in %.1fs" % (" ".join(targets), "ok" if ok else "FAILED", time.time() - t))
    if not ok:
        res["ok"] = False
        m = re.search(r'File "\./([^"]+)", line (\d+)[^\n]*\n((?:.*\n){0,6})', out)
        res["detail"] = ("coq build failed: " + (m.group(0).strip()[:600] if m else out[-600:]))
        # which theorems still check? the ones in files that compiled
        built = [vf for vf in vfiles if os.path.exists(os.path.join(vlib.COQ, vf[:-2] + ".vo")) and
                 os.path.getmtime(os.path.join(vlib.COQ, vf[:-2] + ".vo")) >= os.path.getmtime(os.path.join(vlib.COQ, vf))]
        res["discharged"] = sum(1 for vf, _ in thms if vf in built)
        res["failed_file"] = m.group(1) if m else None
        return res
    # Print Assumptions for every theorem (fresh coqc over the compiled .vo files)
    pa = os.path.join(vlib.BUILD, "pa_%s.v" % pid)
    os.makedirs(vlib.BUILD, exist_ok=True)
    with open(pa, "w") as f:
        for vf in vfiles: f.write("From Manif Require Import %s.\n" % vf[:-2])
        for _, tname in thms: f.write("Print Assumptions %s.\n" % tname)
    rc, out = vlib.sh(["coqc", "-Q", vlib.COQ, "Manif", pa], timeout=900, cwd=vlib.BUILD)
    if rc != 0:
        res["ok"] = False; res["detail"] = "Print Assumptions failed: " + out[-400:]; return res
    res["assumptions"] = vlib.assumptions_of(out)
    res["discharged"] = len(thms)
    return res

# ------------------------------------------------------------------ predicates
def parse_outs(res):
    """'ok n (len v...)*' -> list of lists of Fraction (or float for nan/inf); None if not ok"""
    if not res.startswith("ok"): return None
    try:
        return _parse_outs(res)
    except (IndexError, ValueError):
        return None          # truncated / malformed output (the harness crashed while printing): reported as a failure by the callers

def _parse_outs(res):
    t = res.split(); n = int(t[1]); i = 2; outs = []
    for _ in range(n):
        ln = int(t[i]); i += 1; v = []
        for x in t[i:i + ln]:
            if x in ("nan", "inf", "-inf"): v.append(float(x))
            elif "e" in x or "E" in x or "." in x:
                from decimal import Decimal
                v.append(Fr(Decimal(x)))
            else: v.append(Fr(x))
        i += ln; outs.append(v)
    return outs

def pair_failures(outs, exact, tol=None, scale_fn=None):
    """compare outs[2k] with outs[2k+1]; returns list of (k, maxerr) that fail"""
    bad = []
    for k in range(len(outs) // 2):
        a, b = outs[2 * k], outs[2 * k + 1]
        if len(a) != len(b): bad.append((k, "shape %d vs %d" % (len(a), len(b)))); continue
        if exact:
            if a != b:
                d = max((abs(x - y) for x, y in zip(a, b)), default=0)
                bad.append((k, "exact mismatch, max |diff| = %.3e" % float(d)))
        else:
            if any(isinstance(x, float) for x in a + b): bad.append((k, "non-finite value")); continue
            sc = 1 + max([abs(x) for x in a + b], default=0)
            if scale_fn: sc = scale_fn(k, a, b, sc)
            d = max((abs(x - y) for x, y in zip(a, b)), default=0)
            if d > tol * sc: bad.append((k, "|diff| = %.3e > %.1e * %.3e" % (float(d), tol, float(sc))))
    return bad

def run_impl(cases, scalar="q", ndebug=True, timeout=1200):
    """run cases on the implementation only. scalar: q (ExQ), d (double), f (float), h (hp)"""
    return corr.run_cases(cases, ndebug=ndebug, timeout=timeout, scalar=scalar, model=False)

# ------------------------------------------------------------------ known findings
def match_known(v, known):
    for k in known:
        if k.get("status") != "known" or k.get("property") != v.pid: continue
        m = k.get("match", {})
        if all((v.sig.get(a) in b) if isinstance(b, list) else (v.sig.get(a) == b) for a, b in m.items() if a != "cond"):
            cond = m.get("cond")
            if cond:
                try:
                    if not eval(cond, {"Fr": Fr, "abs": abs, "max": max, "min": min, "sum": sum, "len": len, "EPS": EPS_D},
                                {"args": v.sig.get("_args", []), "sig": v.sig}): continue
                except Exception:
                    continue
            return k
    return None

# ------------------------------------------------------------------ evidence / reporting
def finish(pid, tier, seed, level, t0, proofs, coverage, violations, assumptions_text, known, extra=None):
    """prints KNOWN-FINDING / VIOLATION lines, writes evidence, returns exit code"""
    shown = set(); nviol = 0; rc = 0
    for v in violations:
        k = match_known(v, known)
        if k:
            key = k.get("what", "")
            if key not in shown:
                print("KNOWN-FINDING: property=%s %s" % (pid, key)); shown.add(key)
            continue
        nviol += 1
        if nviol <= 5:
            name = "%s_%s_%d.json" % (v.kind, hashlib.sha256(json.dumps(v.replay_obj, default=str, sort_keys=True).encode()).hexdigest()[:10], nviol)
            path = vlib.write_replay(pid, name, v.replay_obj)
            print("VIOLATION property=%s replay=%s%s" % (pid, path, "" if v.found_input else " no-failing-input-found"))
            print("  " + v.what[:300])
        rc = 1
    # every listed finding of this property is named on every run; those this run's inputs did not reach are marked
    for k in known:
        if k.get("status") == "known" and k.get("property") == pid and k.get("what", "") not in shown:
            print("KNOWN-FINDING: property=%s %s [listed; not re-observed by this run's inputs]" % (pid, k.get("what", ""))); shown.add(k.get("what", ""))
    cov = dict(coverage)
    cov.update(dict(obligations=proofs["obligations"], discharged=proofs["discharged"],
                    checker_cmd="cd coq && make Properties_%s.vo (coqc 8.16.1, full .vo build) ; coqc Print Assumptions ; tools/check %s" % (pid, pid),
                    trusted_base=["Coq 8.16.1 kernel (coqc, vm_compute; no native_compute)"] +
                                 ["axiom (stdlib): " + a for a in proofs["assumptions"]] +
                                 ["extraction: ExtrOcamlBasic + ExtrOcamlZBigInt + Extract Constant Z.gcd => Big_int_Z.gcd_big_int",
                                  "correspondence harness: exact rational scalar vq::ExQ (GMP) over manif's own templates, oracle table for sin/cos/sqrt/atan2/acos",
                                  "hand-written model (coq/*.v) tied to the code only by the exact correspondence run"],
                    theorems=proofs["theorems"]))
    if extra: cov.update(extra)
    ev = dict(property_id=pid, tier=tier, seed=seed, level=level, coverage=cov,
              assumptions=assumptions_text, wall_s=round(time.time() - t0, 2), violations=nviol)
    vlib.write_evidence(pid, ev)
    return rc
