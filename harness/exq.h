// exq.h — exact rational scalar for instantiating manif's own templates.
// Arithmetic is exact (GMP mpq). The transcendental primitives are an oracle:
// each returns a rational chosen deterministically from its argument and logs
// (function, argument(s), result); the Coq model looks the same values up.
// Only the library's documented extension points are specialised:
// Eigen::NumTraits, manif::Constants, manif::internal::is_ad.
#pragma once
#include <gmpxx.h>
#include <Eigen/Core>
#include <cmath>
#include <iostream>
#include <vector>
#include <string>
#include <stdexcept>
#include <map>

namespace vq {

struct div_by_zero : std::domain_error { div_by_zero() : std::domain_error("div0") {} };

struct ExQ {
  mpq_class v;
  ExQ() : v(0) {}
  ExQ(int i) : v(i) {}
  ExQ(long i) : v(i) {}
  ExQ(unsigned i) : v(i) {}
  ExQ(unsigned long i) : v(i) {}
  ExQ(float d) : v((double)d) {}
  ExQ(double d) : v(d) {}                      // exact: every double is a dyadic rational
  explicit ExQ(const mpq_class& r) : v(r) {}
  double to_double() const { return v.get_d(); }
  explicit operator double() const { return to_double(); }
  explicit operator float() const { return (float)to_double(); }
  explicit operator int() const { return (int)to_double(); }
  explicit operator long() const { return (long)to_double(); }
};
inline ExQ operator+(const ExQ&a,const ExQ&b){return ExQ(mpq_class(a.v+b.v));}
inline ExQ operator-(const ExQ&a,const ExQ&b){return ExQ(mpq_class(a.v-b.v));}
inline ExQ operator*(const ExQ&a,const ExQ&b){return ExQ(mpq_class(a.v*b.v));}
inline ExQ operator/(const ExQ&a,const ExQ&b){ if(b.v==0) throw div_by_zero(); return ExQ(mpq_class(a.v/b.v));}
inline ExQ operator-(const ExQ&a){return ExQ(mpq_class(-a.v));}
inline ExQ operator+(const ExQ&a){return a;}
inline ExQ& operator+=(ExQ&a,const ExQ&b){a.v+=b.v;return a;}
inline ExQ& operator-=(ExQ&a,const ExQ&b){a.v-=b.v;return a;}
inline ExQ& operator*=(ExQ&a,const ExQ&b){a.v*=b.v;return a;}
inline ExQ& operator/=(ExQ&a,const ExQ&b){ if(b.v==0) throw div_by_zero(); a.v/=b.v;return a;}
inline bool operator<(const ExQ&a,const ExQ&b){return a.v<b.v;}
inline bool operator>(const ExQ&a,const ExQ&b){return a.v>b.v;}
inline bool operator<=(const ExQ&a,const ExQ&b){return a.v<=b.v;}
inline bool operator>=(const ExQ&a,const ExQ&b){return a.v>=b.v;}
inline bool operator==(const ExQ&a,const ExQ&b){return a.v==b.v;}
inline bool operator!=(const ExQ&a,const ExQ&b){return a.v!=b.v;}
inline std::ostream& operator<<(std::ostream&o,const ExQ&a){return o<<a.v.get_str();}

// ---- oracle -------------------------------------------------------------
enum { O_SIN=1, O_COS=2, O_SQRT=3, O_ACOS=4, O_ATAN2=5 };
struct Call { int f; mpq_class a, b, r; };
inline std::vector<Call>& oracle_log(){ static std::vector<Call> l; return l; }
inline ExQ logged(int f,const ExQ&a,const ExQ&b,const mpq_class& r){
  oracle_log().push_back(Call{f,a.v,b.v,r}); return ExQ(r);
}
// round a double to `bits` significant bits (keeps rationals small), exactly representable
inline mpq_class rnd(double x,int bits=48){
  if(x==0 || !std::isfinite(x)) return mpq_class(0);
  int e; double m=std::frexp(x,&e);            // x = m 2^e, 0.5<=|m|<1
  double s=std::ldexp(1.0,bits);
  double mr=std::nearbyint(m*s)/s;
  return mpq_class(std::ldexp(mr,e));
}
// rational point of the unit circle near (cos th, sin th): tan-half-angle parametrisation
inline void circle(const ExQ&a, mpq_class& c, mpq_class& s){
  double th=a.to_double();
  double half=std::remainder(th, 2*M_PI)/2;     // (-pi/2, pi/2]
  mpq_class t;
  if(a.v==0) t=0; else t=rnd(std::tan(half),44);
  mpq_class t2=t*t, d=1+t2;
  c=(1-t2)/d; s=2*t/d;
}
// angles returned by atan2 are remembered (per case) together with the exact unit point they came
// from, so that cos/sin(atan2(y,x)) = (x,y)/r exactly whenever r is rational: round trips through
// angles are then exact over the rationals, and exact predicates need no tolerance.
struct cmp_mpq { bool operator()(const mpq_class&a,const mpq_class&b) const { return cmp(a,b)<0; } };
inline std::map<mpq_class,std::pair<mpq_class,mpq_class>,cmp_mpq>& angle_registry(){
  static std::map<mpq_class,std::pair<mpq_class,mpq_class>,cmp_mpq> m; return m; }
inline void circle_reg(const ExQ&a, mpq_class& c, mpq_class& s){
  auto& R=angle_registry(); auto it=R.find(a.v);
  if(it!=R.end()){ c=it->second.first; s=it->second.second; return; }
  circle(a,c,s);
}
inline ExQ sin(const ExQ&a){ mpq_class c,s; circle_reg(a,c,s); return logged(O_SIN,a,ExQ(0),s); }
inline ExQ cos(const ExQ&a){ mpq_class c,s; circle_reg(a,c,s); return logged(O_COS,a,ExQ(0),c); }
inline bool exact_sqrt(const mpq_class& a, mpq_class& r){
  if(a<0) return false;
  if(mpz_perfect_square_p(a.get_num_mpz_t()) && mpz_perfect_square_p(a.get_den_mpz_t())){
    mpz_class n,d; mpz_sqrt(n.get_mpz_t(),a.get_num_mpz_t()); mpz_sqrt(d.get_mpz_t(),a.get_den_mpz_t());
    r=mpq_class(n,d); r.canonicalize(); return true; }
  return false;
}
inline ExQ sqrt(const ExQ&a){
  if(a.v<0) return logged(O_SQRT,a,ExQ(0),mpq_class(0));
  if(mpz_perfect_square_p(a.v.get_num_mpz_t()) && mpz_perfect_square_p(a.v.get_den_mpz_t())){
    mpz_class n,d; mpz_sqrt(n.get_mpz_t(),a.v.get_num_mpz_t()); mpz_sqrt(d.get_mpz_t(),a.v.get_den_mpz_t());
    mpq_class r(n,d); r.canonicalize(); return logged(O_SQRT,a,ExQ(0),r);
  }
  // scale into double range first so tiny / huge rationals keep precision
  return logged(O_SQRT,a,ExQ(0),rnd(std::sqrt(a.to_double()),50));
}
inline ExQ acos(const ExQ&a){ double x=a.to_double(); if(x>1)x=1; if(x<-1)x=-1; return logged(O_ACOS,a,ExQ(0),rnd(std::acos(x),50)); }
inline ExQ atan2(const ExQ&y,const ExQ&x){
  mpq_class al=rnd(std::atan2(y.to_double(),x.to_double()),50);
  mpq_class r2=x.v*x.v+y.v*y.v, r;
  if(r2!=0 && al!=0 && exact_sqrt(r2,r)){
    auto& R=angle_registry();
    mpq_class c=x.v/r, s=y.v/r;
    // make the rational standing for the angle unique to the unit point (two distinct points closer
    // than 2^-50 must not share an angle): perturb it by a hash of the point at relative level 2^-56
    std::string key=c.get_str()+"|"+s.get_str(); unsigned long h=1469598103934665603UL;
    for(char ch: key){ h^=(unsigned char)ch; h*=1099511628211UL; }
    mpq_class pert(mpz_class(h & 0xffffffUL), mpz_class(1)); pert/=mpq_class(mpz_class(1)<<80);
    al = al*(1+pert);
    if(!R.count(al)){ R[al]=std::make_pair(c,s); R[-al]=std::make_pair(c,mpq_class(-s)); }
  }
  return logged(O_ATAN2,y,x,al);
}
inline ExQ abs(const ExQ&a){return a.v<0? -a : a;}
inline ExQ fabs(const ExQ&a){return abs(a);}
inline ExQ abs2(const ExQ&a){return a*a;}
inline bool isfinite(const ExQ&){return true;}
inline bool isnan(const ExQ&){return false;}
inline bool isinf(const ExQ&){return false;}
inline ExQ floor(const ExQ&a){ mpz_class q; mpz_fdiv_q(q.get_mpz_t(),a.v.get_num_mpz_t(),a.v.get_den_mpz_t()); return ExQ(mpq_class(q)); }
inline ExQ ceil(const ExQ&a){ mpz_class q; mpz_cdiv_q(q.get_mpz_t(),a.v.get_num_mpz_t(),a.v.get_den_mpz_t()); return ExQ(mpq_class(q)); }
inline ExQ min(const ExQ&a,const ExQ&b){ return (b<a)?b:a; }
inline ExQ max(const ExQ&a,const ExQ&b){ return (a<b)?b:a; }
} // namespace vq

namespace Eigen {
template<> struct NumTraits<vq::ExQ> : GenericNumTraits<vq::ExQ> {
  typedef vq::ExQ Real; typedef vq::ExQ NonInteger; typedef vq::ExQ Nested; typedef vq::ExQ Literal;
  enum { IsComplex=0, IsInteger=0, IsSigned=1, RequireInitialization=1, ReadCost=10, AddCost=50, MulCost=100 };
  static inline Real epsilon(){ return vq::ExQ(2.220446049250313e-16); }
  static inline Real dummy_precision(){ return vq::ExQ(1e-12); }
  static inline Real highest(){ return vq::ExQ(1e300); }
  static inline Real lowest(){ return vq::ExQ(-1e300); }
  static inline int digits10(){ return 15; }
};
}

// ---- the library's own extension points --------------------------------
#include "manif/constants.h"
#include "manif/impl/traits.h"
namespace manif { namespace internal { template<> struct is_ad<vq::ExQ> : std::integral_constant<bool,true> {}; } }
namespace manif {
#ifndef VQ_FLOAT_THRESHOLDS
#define VQ_BASE_SCALAR double
#else
#define VQ_BASE_SCALAR float
#endif
// defined *from* the library's generic Constants template (as ceres/constants.h does for Jet)
template<> struct Constants<vq::ExQ> {
  static const vq::ExQ eps;
  static const vq::ExQ eps_sqrt;
  static const vq::ExQ to_rad;
  static const vq::ExQ to_deg;
};
const vq::ExQ Constants<vq::ExQ>::eps      = vq::ExQ(Constants<VQ_BASE_SCALAR>::eps);
const vq::ExQ Constants<vq::ExQ>::eps_sqrt = vq::ExQ(Constants<VQ_BASE_SCALAR>::eps_sqrt);
const vq::ExQ Constants<vq::ExQ>::to_rad   = vq::ExQ(Constants<VQ_BASE_SCALAR>::to_rad);
const vq::ExQ Constants<vq::ExQ>::to_deg   = vq::ExQ(Constants<VQ_BASE_SCALAR>::to_deg);
}
