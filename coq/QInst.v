(* QInst.v — the executable instance: exact rationals kept in lowest terms; the
   transcendental primitives are an oracle (a finite table recorded while the
   C++ ran over the exact scalar).  Division by zero is routed to the oracle
   too, so the driver can report it instead of Coq's x/0 = 0. *)
From Coq Require Import ZArith QArith List Bool.
From Manif Require Import Scalar.

Definition qnorm (q : Q) : Q :=
  let n := Qnum q in let d := Zpos (Qden q) in
  let g := Z.gcd n d in
  if Z.eqb g 1 then q else Qmake (Z.div n g) (Z.to_pos (Z.div d g)).

Definition Qltb (x y : Q) : bool :=
  Z.ltb (Qnum x * Zpos (Qden y)) (Qnum y * Zpos (Qden x)).

Definition q_is0 (x : Q) : bool := Z.eqb (Qnum x) 0.

(* oracle function codes *)
Definition O_SIN : positive := 1.  Definition O_COS : positive := 2.
Definition O_SQRT : positive := 3. Definition O_ACOS : positive := 4.
Definition O_ATAN2 : positive := 5. Definition O_DIV0 : positive := 6.

Definition QS (orc : positive -> Q -> Q -> Q) : Sc := {|
  K := Q; k0 := 0%Q; k1 := 1%Q;
  kadd := fun a b => qnorm (Qplus a b);
  ksub := fun a b => qnorm (Qminus a b);
  kmul := fun a b => qnorm (Qmult a b);
  kdiv := fun a b => if q_is0 b then orc O_DIV0 a b else qnorm (Qmult a (Qinv b));
  kopp := Qopp;
  kltb := Qltb;
  klit := fun n d => qnorm (Qmake n d);
  ksin := fun a => orc O_SIN a 0%Q;
  kcos := fun a => orc O_COS a 0%Q;
  ksqrt := fun a => orc O_SQRT a 0%Q;
  kacos := fun a => orc O_ACOS a 0%Q;
  katan2 := fun y x => orc O_ATAN2 y x
|}.
