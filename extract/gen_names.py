#!/usr/bin/env python3
# generates names.ml (string -> constructor tables) from the extracted model.mli
import re,sys
src=open(sys.argv[1]).read()
def ctors(ty):
    m=re.search(r'type %s =\n((?:\| .*\n)+)'%ty,src)
    return [l[2:].split(' ')[0].strip() for l in m.group(1).splitlines()]
ops=ctors('opcode')
out=["let op_of_string = function"]
for c in ops: out.append('  | "%s" -> Model.%s'%(c[1:],c))
out.append('  | s -> failwith ("unknown op "^s)')
open(sys.argv[2],'w').write("\n".join(out)+"\n")
