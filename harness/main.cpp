// main.cpp — exact-scalar harness binary. One binary per group set (VQ_GROUPSET).
#include "exq.h"
#include <manif/manif.h>
#include "ops.h"
#include <set>
#include <tuple>
using S = vq::ExQ;
template<> struct ScalarIO<S> {
  static S parse(const std::string& s){ mpq_class q(s); q.canonicalize(); return S(q); }
  static std::string print(const S& x){ return x.v.get_str(); }
};

#if VQ_GROUPSET == 1
#define VQ_GROUPS X("SO2", manif::SO2<S>)
#elif VQ_GROUPSET == 2
#define VQ_GROUPS X("SE2", manif::SE2<S>)
#elif VQ_GROUPSET == 3
#define VQ_GROUPS X("R1", manif::R1<S>) X("R3", manif::R3<S>) X("R5", manif::R5<S>)
#elif VQ_GROUPSET == 4
#define VQ_GROUPS X("SO3", manif::SO3<S>)
#elif VQ_GROUPSET == 5
#define VQ_GROUPS X("SE3", manif::SE3<S>)
#elif VQ_GROUPSET == 6
#define VQ_GROUPS X("SE23", manif::SE_2_3<S>)
#elif VQ_GROUPSET == 7
#define VQ_GROUPS X("SGal3", manif::SGal3<S>)
#endif

static bool dispatch(const Case& c, Out<S>& o){
#define X(name, type) if(c.group==name) return GroupRunner<type>::run(c,o);
  VQ_GROUPS
#undef X
  return false;
}

int main(int argc, char** argv){
  std::ifstream fin; std::istream* in=&std::cin;
  if(argc>1){ fin.open(argv[1]); in=&fin; }
  std::string line; Case c;
  while(std::getline(*in,line)){
    if(!parse_case(line,c)) continue;
    vq::oracle_log().clear();
    std::string res;
    try {
      Out<S> o;
      if(!dispatch(c,o)) res="unsupported"; else res=o.str();
    }
    catch(const manif::invalid_argument&){ res="exc invalid_argument"; }
    catch(const manif::runtime_error&){ res="exc runtime_error"; }
    catch(const vq::div_by_zero&){ res="exc div0"; }
    catch(const std::bad_alloc&){ res="exc bad_alloc"; }
    catch(const std::logic_error&){ res="exc logic_error"; }
    catch(const std::exception& e){ res=std::string("exc other ")+e.what(); }
    std::cout << c.raw << "\n";
    std::set<std::tuple<int,std::string,std::string>> seen;
    for(auto& k: vq::oracle_log()){
      auto key=std::make_tuple(k.f,k.a.get_str(),k.b.get_str());
      if(!seen.insert(key).second) continue;
      std::cout << "O " << k.f << " " << k.a.get_str() << " " << k.b.get_str() << " " << k.r.get_str() << "\n";
    }
    std::cout << "R " << c.id << " " << res << "\n";
  }
  return 0;
}
