(* Taylor_SGal3.v — property C02 on the small-angle branch of SGal(3) (theta^2 < eps <= 1): the model's exp (as the code) uses
   V = I + W/2 and E = 1/2 I + Scalar(1./6.) W;  the closed forms are V = I + g2 W + g3 W^2 and E = 1/2 I + g3 W + g4 W^2 with
   g4 = (th^2 + 2 cos th - 2)/(2 th^4) in [0, 1/24], g3 in [1/6 - th^2/120, 1/6].  The position V rho + E (tau nu) is within
   th^2 |rho|_1 + (th^2 + 1e-17) |tau nu|_1 of the closed form (the generic branch of the same function, which Exp_SGal3 proves
   to be the matrix exponential), the velocity within th^2 |nu|_1. *)
From Coq Require Import Reals ZArith List Lra Psatz Lia.
From Coquelicot Require Import Coquelicot.
From Manif Require Import Scalar Mat Consts Group RInst Tac SO3 SE3 SE23 SGal3 JacInv_SO3 Taylor_SE2 Jr_SO3 Jr_SE3 Taylor_SE3.
Import ListNotations.
Local Open Scope R_scope.

Definition g4 (t : R) : R := (t * t + 2 * cos t - 2) / (2 * (t * t) * (t * t)).
Lemma g4_bounds t : 0 < t -> 0 <= g4 t <= 1 / 24.
Proof.
  intros Ht. unfold g4. pose proof (L2 t ltac:(lra)) as H2. pose proof (L4 t ltac:(lra)) as H4.
  assert (Htt : 0 < t * t) by nra. assert (H4t : 0 < 2 * (t * t) * (t * t)) by nra. split.
  - apply (Rmult_le_reg_r (2 * (t * t) * (t * t))); [exact H4t|].
    replace ((t * t + 2 * cos t - 2) / (2 * (t * t) * (t * t)) * (2 * (t * t) * (t * t))) with (t * t + 2 * cos t - 2) by (field; lra). lra.
  - apply (Rmult_le_reg_r (2 * (t * t) * (t * t))); [exact H4t|].
    replace ((t * t + 2 * cos t - 2) / (2 * (t * t) * (t * t)) * (2 * (t * t) * (t * t))) with (t * t + 2 * cos t - 2) by (field; lra). nra.
Qed.
Lemma g3_lower t : 0 < t -> 1 / 6 - t * t / 120 <= g3 t.
Proof.
  intros Ht. unfold g3. pose proof (L5 t ltac:(lra)) as H5.
  assert (Httt : 0 < t * t * t) by (assert (0 < t * t) by nra; nra).
  apply (Rmult_le_reg_r (t * t * t)); [exact Httt|]. replace ((t - sin t) / (t * t * t) * (t * t * t)) with (t - sin t) by (field; lra). nra.
Qed.

(* E m in the two branches: m = (m0, m1, m2), W = hat(x, y, z) *)
Definition esmall (i : nat) (m0 m1 m2 x y z : R) : R :=
  match i with O => m0 / 2 + c6 * (y * m2 - z * m1) | S O => m1 / 2 + c6 * (z * m0 - x * m2) | _ => m2 / 2 + c6 * (x * m1 - y * m0) end.
Definition eex (i : nat) (m0 m1 m2 x y z : R) : R :=
  let t := th_of x y z in
  let '(p1, q1, r1) := (y * m2 - z * m1, z * m0 - x * m2, x * m1 - y * m0) in
  let '(p2, q2, r2) := (y * r1 - z * q1, z * p1 - x * r1, x * q1 - y * p1) in
  match i with
  | O => m0 / 2 + g3 t * p1 + g4 t * p2
  | S O => m1 / 2 + g3 t * q1 + g4 t * q2
  | _ => m2 / 2 + g3 t * r1 + g4 t * r2
  end.

Theorem sg_E_taylor_bound m0 m1 m2 x y z i :
  let n := x * x + y * y + z * z in
  0 < n -> n <= 1 -> (i < 3)%nat ->
  Rabs (esmall i m0 m1 m2 x y z - eex i m0 m1 m2 x y z) <= (n + 1 / 10 ^ 17) * (Rabs m0 + Rabs m1 + Rabs m2).
Proof.
  cbv zeta. intros Hn H1 Hi. set (n := x * x + y * y + z * z) in *.
  assert (Ht : 0 < th_of x y z) by (unfold th_of; apply sqrt_lt_R0; exact Hn).
  assert (Hsq : th_of x y z * th_of x y z = n) by (unfold th_of; apply sqrt_sqrt; unfold n in *; lra).
  destruct (g3_bounds _ Ht) as [_ G3u]. pose proof (g3_lower _ Ht) as G3l. destruct (g4_bounds _ Ht) as [G4l G4u].
  destruct (comp_le_norm x y z) as (Hx & Hy & Hz).
  set (t := th_of x y z) in *. assert (Ht1 : t <= 1) by nra.
  set (e3 := c6 - g3 t) in *.
  assert (He3 : Rabs e3 <= n / 120 + 1 / 10 ^ 17).
  { apply Rabs_le. unfold e3. pose proof c6_gap as Hg. rewrite <- Hsq. split; [|nra].
    assert (1 / 108086391056891904 <= 1 / 10 ^ 17) by (apply Rmult_le_compat_l; [lra|]; apply Rinv_le_contravar; [|]; lra). lra. }
  pose proof (Rabs_pos m0) as P0. pose proof (Rabs_pos m1) as P1. pose proof (Rabs_pos m2) as P2.
  assert (Hm : forall u v, Rabs u <= t -> Rabs (u * v) <= t * Rabs v) by (intros u v Hu; rewrite Rabs_mult; pose proof (Rabs_pos v); nra).
  assert (Hmm : forall u u' v, Rabs u <= t -> Rabs u' <= t -> Rabs (u * (u' * v)) <= n * Rabs v).
  { intros u u' v Hu Hu'. rewrite !Rabs_mult. pose proof (Rabs_pos v). pose proof (Rabs_pos u). pose proof (Rabs_pos u'). rewrite <- Hsq.
    assert (Rabs u * Rabs u' <= t * t) by (apply Rmult_le_compat; assumption).
    replace (Rabs u * (Rabs u' * Rabs v)) with ((Rabs u * Rabs u') * Rabs v) by ring. apply Rmult_le_compat_r; assumption. }
  set (dl := n / 120 + 1 / 10 ^ 17) in *. assert (Pdl : 0 <= dl) by (unfold dl; assert (0 < 1 / 10 ^ 17) by (apply Rdiv_lt_0_compat; lra); nra).
  assert (B3 : forall u v, Rabs u <= t -> Rabs (e3 * (u * v)) <= dl * Rabs v).
  { intros u v Hu. rewrite Rabs_mult. pose proof (Hm u v Hu) as H. pose proof (Rabs_pos e3). pose proof (Rabs_pos (u * v)). pose proof (Rabs_pos v).
    apply Rle_trans with (dl * (t * Rabs v)); [apply Rmult_le_compat; assumption|]. assert (t * Rabs v <= Rabs v) by nra. nra. }
  assert (B4 : forall u u' v, Rabs u <= t -> Rabs u' <= t -> Rabs (g4 t * (u * (u' * v))) <= n * Rabs v / 24).
  { intros u u' v Hu Hu'. rewrite Rabs_mult. pose proof (Hmm u u' v Hu Hu') as H. rewrite (Rabs_right (g4 t)) by lra.
    pose proof (Rabs_pos (u * (u' * v))). pose proof (Rabs_pos v).
    apply Rle_trans with (1 / 24 * (n * Rabs v)); [apply Rmult_le_compat; try assumption; lra|]. lra. }
  set (n0 := n * Rabs m0) in *. set (n1 := n * Rabs m1) in *. set (n2 := n * Rabs m2) in *.
  set (d0 := dl * Rabs m0) in *. set (d1 := dl * Rabs m1) in *. set (d2 := dl * Rabs m2) in *.
  assert (Pn0 : 0 <= n0) by (unfold n0; nra). assert (Pn1 : 0 <= n1) by (unfold n1; nra). assert (Pn2 : 0 <= n2) by (unfold n2; nra).
  assert (Ed : forall v, dl * Rabs v = n * Rabs v / 120 + 1 / 10 ^ 17 * Rabs v) by (intros v; unfold dl; field).
  replace ((n + 1 / 10 ^ 17) * (Rabs m0 + Rabs m1 + Rabs m2)) with (n0 + n1 + n2 + 1 / 10 ^ 17 * Rabs m0 + 1 / 10 ^ 17 * Rabs m1 + 1 / 10 ^ 17 * Rabs m2) by (unfold n0, n1, n2; ring).
  assert (Q0 : 0 <= 1 / 10 ^ 17 * Rabs m0) by (assert (0 < 1 / 10 ^ 17) by (apply Rdiv_lt_0_compat; lra); nra).
  assert (Q1 : 0 <= 1 / 10 ^ 17 * Rabs m1) by (assert (0 < 1 / 10 ^ 17) by (apply Rdiv_lt_0_compat; lra); nra).
  assert (Q2 : 0 <= 1 / 10 ^ 17 * Rabs m2) by (assert (0 < 1 / 10 ^ 17) by (apply Rdiv_lt_0_compat; lra); nra).
  unfold esmall, eex. fold t.
  destruct i as [|[|[|i]]]; [| | |exfalso; lia].
  - replace (m0 / 2 + c6 * (y * m2 - z * m1) - (m0 / 2 + g3 t * (y * m2 - z * m1) + g4 t * (y * (x * m1 - y * m0) - z * (z * m0 - x * m2))))
      with ((e3 * (y * m2) - e3 * (z * m1)) - (g4 t * (y * (x * m1)) - g4 t * (y * (y * m0)) - g4 t * (z * (z * m0)) + g4 t * (z * (x * m2)))) by (unfold e3; ring).
    pose proof (B3 y m2 Hy) as A1. pose proof (B3 z m1 Hz) as A2. pose proof (B4 y x m1 Hy Hx) as A3. pose proof (B4 y y m0 Hy Hy) as A4. pose proof (B4 z z m0 Hz Hz) as A5. pose proof (B4 z x m2 Hz Hx) as A6.
    rewrite Ed in A1, A2. fold n0 n1 n2 in A1, A2, A3, A4, A5, A6.
    apply Rabs_le. apply Rabs_le_inv' in A1, A2, A3, A4, A5, A6. lra.
  - replace (m1 / 2 + c6 * (z * m0 - x * m2) - (m1 / 2 + g3 t * (z * m0 - x * m2) + g4 t * (z * (y * m2 - z * m1) - x * (x * m1 - y * m0))))
      with ((e3 * (z * m0) - e3 * (x * m2)) - (g4 t * (z * (y * m2)) - g4 t * (z * (z * m1)) - g4 t * (x * (x * m1)) + g4 t * (x * (y * m0)))) by (unfold e3; ring).
    pose proof (B3 z m0 Hz) as A1. pose proof (B3 x m2 Hx) as A2. pose proof (B4 z y m2 Hz Hy) as A3. pose proof (B4 z z m1 Hz Hz) as A4. pose proof (B4 x x m1 Hx Hx) as A5. pose proof (B4 x y m0 Hx Hy) as A6.
    rewrite Ed in A1, A2. fold n0 n1 n2 in A1, A2, A3, A4, A5, A6.
    apply Rabs_le. apply Rabs_le_inv' in A1, A2, A3, A4, A5, A6. lra.
  - replace (m2 / 2 + c6 * (x * m1 - y * m0) - (m2 / 2 + g3 t * (x * m1 - y * m0) + g4 t * (x * (z * m0 - x * m2) - y * (y * m2 - z * m1))))
      with ((e3 * (x * m1) - e3 * (y * m0)) - (g4 t * (x * (z * m0)) - g4 t * (x * (x * m2)) - g4 t * (y * (y * m2)) + g4 t * (y * (z * m1)))) by (unfold e3; ring).
    pose proof (B3 x m1 Hx) as A1. pose proof (B3 y m0 Hy) as A2. pose proof (B4 x z m0 Hx Hz) as A3. pose proof (B4 x x m2 Hx Hx) as A4. pose proof (B4 y y m2 Hy Hy) as A5. pose proof (B4 y z m1 Hy Hz) as A6.
    rewrite Ed in A1, A2. fold n0 n1 n2 in A1, A2, A3, A4, A5, A6.
    apply Rabs_le. apply Rabs_le_inv' in A1, A2, A3, A4, A5, A6. lra.
Qed.

Section P.
Variable eps : R.
Hypothesis eps_pos : 0 < eps.

(* the coefficients of exp on the small-angle branch *)
Lemma sg_exp_small a b c d e f x y z tau : x * x + y * y + z * z < eps ->
  exists q0 q1 q2 q3, sg_exp RS eps [a; b; c; d; e; f; x; y; z; tau] =
    [vsmall 0 a b c x y z + esmall 0 (tau * d) (tau * e) (tau * f) x y z; vsmall 1 a b c x y z + esmall 1 (tau * d) (tau * e) (tau * f) x y z;
     vsmall 2 a b c x y z + esmall 2 (tau * d) (tau * e) (tau * f) x y z; q0; q1; q2; q3;
     vsmall 0 d e f x y z; vsmall 1 d e f x y z; vsmall 2 d e f x y z; tau].
Proof.
  intros H. unfold sg_exp, sgt_ang, sgt_lin, sgt_lin2, sgt_t, fillE, so3_ljac, so3_hat. cbv zeta. cbn [vslice skipn firstn vnth nth]. cbn [K RS].
  assert (Hsn : @sqnorm RS [x; y; z] = x * x + y * y + z * z) by (mat_unfold; ring). rewrite Hsn.
  unfold kleb. cbn [kltb RS]. rewrite (Rltb_lt_false eps (x * x + y * y + z * z)) by lra. rewrite (Rltb_lt_true _ eps H). cbn [negb].
  assert (Hq : exists q0 q1 q2 q3, so3_exp RS eps [x; y; z] = [q0; q1; q2; q3]).
  { unfold so3_exp. destruct (kgtb _ _); [|do 4 eexists; reflexivity].
    unfold quat_of_angle_axis, eigen_normalized. destruct (kgtb _ _); do 4 eexists; reflexivity. }
  destruct Hq as (q0 & q1 & q2 & q3 & ->). exists q0, q1, q2, q3. unfold c_half, c_1_6d, vsmall, esmall, c6, SGal3.I33. cbn [klit RS]. mat_unfold.
  match goal with |- @eq _ ?u ?v => change (@eq (list R) u v) end. list_eq; try reflexivity; field.
Qed.

(* the same coefficients on the generic branch are the closed forms vrho + eex (position), vrho (velocity) *)
Lemma sg_exp_generic a b c d e f x y z tau : eps < x * x + y * y + z * z ->
  exists q0 q1 q2 q3, sg_exp RS eps [a; b; c; d; e; f; x; y; z; tau] =
    [vrho 0 a b c x y z + eex 0 (tau * d) (tau * e) (tau * f) x y z; vrho 1 a b c x y z + eex 1 (tau * d) (tau * e) (tau * f) x y z;
     vrho 2 a b c x y z + eex 2 (tau * d) (tau * e) (tau * f) x y z; q0; q1; q2; q3;
     vrho 0 d e f x y z; vrho 1 d e f x y z; vrho 2 d e f x y z; tau].
Proof.
  intros H. assert (Hn : 0 < x * x + y * y + z * z) by lra.
  unfold sg_exp, sgt_ang, sgt_lin, sgt_lin2, sgt_t. cbv zeta. cbn [vslice skipn firstn vnth nth]. cbn [K RS].
  rewrite (so3_ljac_poly eps x y z H). cbv zeta.
  unfold fillE. assert (Hsn : @sqnorm RS [x; y; z] = x * x + y * y + z * z) by (mat_unfold; ring). rewrite Hsn.
  cbn [kltb RS]. rewrite (Rltb_lt_false (x * x + y * y + z * z) eps) by lra. cbn [ksqrt ksin kcos RS].
  assert (Hq : exists q0 q1 q2 q3, so3_exp RS eps [x; y; z] = [q0; q1; q2; q3]).
  { unfold so3_exp. destruct (kgtb _ _); [|do 4 eexists; reflexivity].
    unfold quat_of_angle_axis, eigen_normalized. destruct (kgtb _ _); do 4 eexists; reflexivity. }
  destruct Hq as (q0 & q1 & q2 & q3 & ->). exists q0, q1, q2, q3.
  assert (Hs : sqrt (x * x + y * y + z * z) <> 0) by (intros H0; apply sqrt_eq_0 in H0; lra).
  assert (Hss : sqrt (x * x + y * y + z * z) * sqrt (x * x + y * y + z * z) = x * x + y * y + z * z) by (apply sqrt_sqrt; lra).
  unfold vrho, eex, g2, g3, g4, th_of, poly3, c_half, kz, SGal3.I33. cbn [klit RS]. mat_unfold.
  set (s := sqrt (x * x + y * y + z * z)) in *.
  match goal with |- @eq _ ?u ?v => change (@eq (list R) u v) end. list_eq; try reflexivity; rewrite <- Hss; field; exact Hs.
Qed.

Theorem sg_taylor_bound a b c d e f x y z tau i :
  let n := x * x + y * y + z * z in
  0 < n -> n < eps -> eps <= 1 -> (i < 3)%nat ->
  Rabs (nth i (sg_exp RS eps [a; b; c; d; e; f; x; y; z; tau]) 0 - (vrho i a b c x y z + eex i (tau * d) (tau * e) (tau * f) x y z))
    <= n * (Rabs a + Rabs b + Rabs c) + (n + 1 / 10 ^ 17) * (Rabs (tau * d) + Rabs (tau * e) + Rabs (tau * f)) /\
  Rabs (nth (7 + i) (sg_exp RS eps [a; b; c; d; e; f; x; y; z; tau]) 0 - vrho i d e f x y z) <= n * (Rabs d + Rabs e + Rabs f).
Proof.
  cbv zeta. intros Hn Hlt He Hi. destruct (sg_exp_small a b c d e f x y z tau Hlt) as (q0 & q1 & q2 & q3 & ->).
  assert (T : forall u v u' v' p q, Rabs (u - u') <= p -> Rabs (v - v') <= q -> Rabs (u + v - (u' + v')) <= p + q).
  { intros u v u' v' p q Hu Hv. replace (u + v - (u' + v')) with ((u - u') + (v - v')) by ring. eapply Rle_trans; [apply Rabs_triang|]. lra. }
  destruct i as [|[|[|i]]]; [| | |exfalso; lia]; cbn [nth Nat.add]; split.
  - apply T; [apply (se3_taylor_bound a b c x y z 0 Hn ltac:(lra) ltac:(lia))|apply (sg_E_taylor_bound _ _ _ x y z 0 Hn ltac:(lra) ltac:(lia))].
  - apply (se3_taylor_bound d e f x y z 0 Hn ltac:(lra) ltac:(lia)).
  - apply T; [apply (se3_taylor_bound a b c x y z 1 Hn ltac:(lra) ltac:(lia))|apply (sg_E_taylor_bound _ _ _ x y z 1 Hn ltac:(lra) ltac:(lia))].
  - apply (se3_taylor_bound d e f x y z 1 Hn ltac:(lra) ltac:(lia)).
  - apply T; [apply (se3_taylor_bound a b c x y z 2 Hn ltac:(lra) ltac:(lia))|apply (sg_E_taylor_bound _ _ _ x y z 2 Hn ltac:(lra) ltac:(lia))].
  - apply (se3_taylor_bound d e f x y z 2 Hn ltac:(lra) ltac:(lia)).
Qed.
End P.
