(* SGal3.v — model of impl/sgal3/SGal3_base.h, SGal3Tangent_base.h.
   Coefficients: [x; y; z; qx; qy; qz; qw; vx; vy; vz; t].
   Tangent: [rho(3) = lin; nu(3) = lin2; theta(3) = ang; t]. *)
From Coq Require Import ZArith List Bool.
Import ListNotations.
From Manif Require Import Scalar Mat Consts Group SO2 SO3 SE3 SE23.

Section SGal3.
Variable F : Sc.
Variable eps : K F.
Local Notation "a + b" := (kadd F a b) : k_scope.
Local Notation "a - b" := (ksub F a b) : k_scope.
Local Notation "a * b" := (kmul F a b) : k_scope.
Local Notation "a / b" := (kdiv F a b) : k_scope.
Local Notation "- a" := (kopp F a) : k_scope.
Local Open Scope k_scope.
Local Notation vec := (list (K F)).
Local Notation mat := (list (list (K F))).

Definition sg_p (c : vec) : vec := firstn 3 c.             (* translation() *)
Definition sg_q (c : vec) : vec := vslice c 3 4.           (* asSO3() *)
Definition sg_v (c : vec) : vec := vslice c 7 3.           (* linearVelocity() *)
Definition sg_t (c : vec) : K F := vnth c 10.              (* t() *)
Definition sg_rotation (c : vec) : mat := so3_rotation F (sg_q c).
Definition sg_transform (c : vec) : mat :=
  mset_block (mset_block (mset_block (mset_block (mid 5) 0 0 (sg_rotation c)) 0 3 (colvec (sg_v c)))
                         0 4 (colvec (sg_p c))) 3 4 [[sg_t c]].

Definition I33 (d : K F) : mat := [[d; kz 0; kz 0]; [kz 0; d; kz 0]; [kz 0; kz 0; d]].

(* 10x10 assembled from 3x3 blocks (rows of blocks), 3x1 columns and the last row *)
Definition sg_assemble (b00 b01 b02 : mat) (c0 : vec) (b11 b12 : mat) (b22 : mat) : mat :=
  let Z := mzero 3 3 in let z := colvec (vzero 3) in
  vcat (vcat (vcat (hcat (hcat (hcat b00 b01) b02) (colvec c0))
                   (hcat (hcat (hcat Z b11) b12) z))
             (hcat (hcat (hcat Z Z) b22) z))
       [vzero 9 ++ [kz 1]].

Definition sg_adj (c : vec) : mat :=
  let R := sg_rotation c in
  sg_assemble R (mscale (- sg_t c) R) (mmul (skew3 (vsub (sg_p c) (vscale (sg_t c) (sg_v c)))) R) (sg_v c)
              R (mmul (skew3 (sg_v c)) R) R.

Definition sg_inverse (c : vec) : vec :=
  let qi := so3_inverse F (sg_q c) in
  vadd (vneg (so3_act F qi (sg_p c))) (vscale (sg_t c) (so3_act F qi (sg_v c))) ++ qi
  ++ vneg (so3_act F qi (sg_v c)) ++ [- sg_t c].
Definition sg_inverse_J (c : vec) : mat := mneg (sg_adj c).

Definition sg_compose (a b : vec) : vec :=
  vadd (vadd (mvmul (sg_rotation a) (sg_p b)) (vscale (sg_t b) (sg_v a))) (sg_p a)
  ++ so3_compose F eps (sg_q a) (sg_q b)
  ++ vadd (mvmul (sg_rotation a) (sg_v b)) (sg_v a)
  ++ [sg_t a + sg_t b].
Definition sg_compose_Ja (a b : vec) : mat := sg_adj (sg_inverse b).
Definition sg_compose_Jb (a b : vec) : mat := mid 10.

Definition sg_act (c p : vec) : vec := vadd (sg_p c) (mvmul (sg_rotation c) p).
Definition sg_act_Jm (c p : vec) : mat :=
  let R := sg_rotation c in
  hcat (hcat (hcat R (mzero 3 3)) (mmul (mneg R) (skew3 p))) (colvec (sg_v c)).
Definition sg_act_Jv (c p : vec) : mat := sg_rotation c.

Definition sg_normalize (c : vec) : vec := firstn 3 c ++ eigen_normalize F (vslice c 3 4) ++ skipn 7 c.
Definition sg_assert_ok (c : vec) : bool :=
  kltb F (kabs (eigen_norm F (vslice c 3 4) - kz 1)) eps.

(* ---- tangent ---- *)
Definition sgt_lin (t : vec) : vec := firstn 3 t.           (* rho *)
Definition sgt_lin2 (t : vec) : vec := vslice t 3 3.        (* nu *)
Definition sgt_ang (t : vec) : vec := vslice t 6 3.         (* theta: asSO3() at offset 6 *)
Definition sgt_t (t : vec) : K F := vnth t 9.

Definition sg_hat (t : vec) : mat :=
  mset_block (mset_block (mset_block (mset_block (mzero 5 5) 0 0 (skew3 (sgt_ang t)))
                                     0 3 (colvec (sgt_lin2 t))) 0 4 (colvec (sgt_lin t))) 3 4 [[sgt_t t]].

(* SGal3TangentBase::fillE *)
Definition fillE (w : vec) : mat :=
  let theta_sq := sqnorm w in
  if kltb F theta_sq eps then madd (I33 c_half) (mscale c_1_6d (skew3 w))
  else
    let theta := ksqrt F theta_sq in
    let A := (theta - ksin F theta) / theta_sq / theta in
    let B := (theta_sq + kz 2 * kcos F theta - kz 2) / (kz 2 * theta_sq * theta_sq) in
    let W := skew3 w in
    madd (I33 c_half) (madd (mscale A W) (mmul (mscale B W) W)).

Definition sg_exp (t : vec) : vec :=
  let w := sgt_ang t in
  let Jl := so3_ljac F eps w in
  let E := fillE w in
  vadd (mvmul Jl (sgt_lin t)) (mvmul E (vscale (sgt_t t) (sgt_lin2 t)))
  ++ so3_exp F eps w ++ mvmul Jl (sgt_lin2 t) ++ [sgt_t t].

Definition sg_ljac (t : vec) : mat :=
  let w := sgt_ang t in let nu := sgt_lin2 t in let rho := sgt_lin t in let tt := sgt_t t in
  let W := skew3 w in let WW := mmul W W in let V := skew3 nu in
  let theta_sq := sqnorm w in
  let theta := ksqrt F theta_sq in
  let theta_cu := theta * theta_sq in
  let sin_t := ksin F theta in let cos_t := kcos F theta in
  let D := so3_ljac F eps w in
  let E := if kgtb theta_sq eps then
             let A := (theta - sin_t) / theta_sq / theta in
             let B := (theta_sq + kz 2 * cos_t - kz 2) / (kz 2 * theta_sq * theta_sq) in
             madd (I33 c_half) (madd (mscale A W) (mscale B WW))
           else I33 c_half in
  let Enu := mvmul E nu in
  let '(cA, cB) := if kgtb theta_cu eps then
      ((sin_t - theta * cos_t) / theta_cu,
       (theta_sq + kz 2 * (kz 1 - theta * sin_t - cos_t)) / (kz 2 * theta_sq * theta_sq))
    else (c_1_3d - c_1_30d * theta_sq, c_1_8d) in
  let mLt := mscale (- tt) (madd (I33 c_half) (madd (mscale cA W) (mscale cB WW))) in
  let M := fillQ F eps (nu ++ w) in
  let N1 := fillQ F eps (rho ++ w) in
  let '(cA2, cB2, cC, cD, cE, cF) := if kgtb theta_cu eps then
      ((kz 2 - theta * sin_t - kz 2 * cos_t) / theta_cu / theta,
       (theta_cu + kz 6 * theta + kz 6 * theta * cos_t - kz 12 * sin_t) / (kz 6 * theta_cu * theta_sq),
       (kz 12 * sin_t - theta_cu - kz 3 * theta_sq * sin_t - kz 12 * theta * cos_t) / (kz 6 * theta_cu * theta_sq),
       (kz 4 + theta_sq * (kz 1 + cos_t) - kz 4 * (theta * sin_t + cos_t)) / (kz 2 * theta_cu * theta_cu),
       (theta_sq + kz 2 * (cos_t - kz 1)) / (kz 2 * theta_cu * theta),
       (theta_cu + kz 6 * (sin_t - theta)) / (kz 6 * theta_cu * theta_sq))
    else (c_1_12d, c_1_24d, c_1_10d, c_1_240d, c_1_24d, c_1_120d) in
  let tV := mscale tt V in let tW := mscale tt W in
  let N2 := madd (madd (madd (madd (mscale (tt / kz 6) V)
                                   (mmul (madd (mscale cA2 W) (mscale cB2 WW)) tV))
                             (mscale cC (mmul (mmul W V) tW)))
                       (mscale cD (mmul (mmul WW V) tW)))
                 (mmul tV (madd (mscale cE W) (mscale cF WW))) in
  sg_assemble D mLt (msub N1 N2) Enu D M D.

Definition sg_rjac (t : vec) : mat := sg_ljac (vneg t).
Definition sg_ljacinv (t : vec) : mat := minv (sg_ljac t).      (* TangentBase fallback: ljac().inverse() *)
Definition sg_rjacinv (t : vec) : mat := minv (sg_rjac t).      (* TangentBase fallback: rjac().inverse() *)

Definition sg_log (c : vec) : vec :=
  let w := so3_log F eps (sg_q c) in
  let E := fillE w in
  let Ji := so3_ljacinv F eps w in
  let nu := mvmul Ji (sg_v c) in
  mvmul Ji (vsub (sg_p c) (mvmul E (vscale (sg_t c) nu))) ++ nu ++ w ++ [sg_t c].
Definition sg_log_J (c : vec) : mat := sg_rjacinv (sg_log c).

Definition sg_smallAdj (t : vec) : mat :=
  let W := skew3 (sgt_ang t) in
  let Z := mzero 3 3 in let z := colvec (vzero 3) in
  vcat (vcat (vcat (hcat (hcat (hcat W (mscale (- sgt_t t) (mid 3))) (skew3 (sgt_lin t))) (colvec (sgt_lin2 t)))
                   (hcat (hcat (hcat Z W) (skew3 (sgt_lin2 t))) z))
             (hcat (hcat (hcat Z Z) W) z))
       [vzero 10].

Definition sg_generator (i : Z) : res mat :=
  match to_unsigned32 i with
  | 0%Z => Ok (e_ij F 5 0 4 (kz 1)) | 1%Z => Ok (e_ij F 5 1 4 (kz 1)) | 2%Z => Ok (e_ij F 5 2 4 (kz 1))
  | 3%Z => Ok (e_ij F 5 0 3 (kz 1)) | 4%Z => Ok (e_ij F 5 1 3 (kz 1)) | 5%Z => Ok (e_ij F 5 2 3 (kz 1))
  | 6%Z => Ok (rotgen F 5 0) | 7%Z => Ok (rotgen F 5 1) | 8%Z => Ok (rotgen F 5 2)
  | 9%Z => Ok (e_ij F 5 3 4 (kz 1))
  | _ => InvalidArgument
  end.
Definition sg_vee (m : mat) : vec :=
  [mnth m 0 4; mnth m 1 4; mnth m 2 4; mnth m 0 3; mnth m 1 3; mnth m 2 3;
   mnth m 2 1; mnth m 0 2; mnth m 1 0; mnth m 3 4].

Definition SGal3 : GroupOps F := {|
  g_dim := 3; g_dof := 10; g_rep := 11; g_tra := 5; g_alg := 5; g_actdim := 3;
  g_inverse := sg_inverse; g_inverse_J := sg_inverse_J;
  g_log := sg_log; g_log_J := sg_log_J;
  g_compose := sg_compose; g_compose_Ja := sg_compose_Ja; g_compose_Jb := sg_compose_Jb;
  g_act := sg_act; g_act_Jm := sg_act_Jm; g_act_Jv := sg_act_Jv;
  g_adj := sg_adj; g_transform := sg_transform; g_rotation := sg_rotation;
  g_translation := sg_p; g_normalize := sg_normalize; g_assert_ok := sg_assert_ok;
  g_exp := sg_exp; g_exp_J := sg_rjac; g_hat := sg_hat;
  g_rjac := sg_rjac; g_ljac := sg_ljac; g_rjacinv := sg_rjacinv; g_ljacinv := sg_ljacinv;
  g_smallAdj := sg_smallAdj; g_generator := sg_generator; g_vee := sg_vee;
  g_bracket := fun a b => mvmul (sg_smallAdj a) b;
  g_innerweights := inner_weights_generic 10 5 sg_generator;
  g_trandom := fun u => u;
  g_grandom := fun u => firstn 3 u ++ rand_quat F (vnth u 3) (vnth u 4) (vnth u 5) ++ vslice u 6 3 ++ [vnth u 9]
|}.
End SGal3.
