// run.h — executes one case (group, op, mask, args) on manif instantiated over
// the scalar S, printing results in the line protocol shared with the OCaml driver.
#pragma once
#include <sstream>
#include <fstream>
#include <iostream>
#include <string>
#include <vector>
#include <functional>

template<class S> struct ScalarIO;   // parse / print a scalar exactly
// dual-number scalars: argument vectors are (primal parts ++ dual parts); every output vector is printed as two
template<class S> struct DualIO { static constexpr bool value=false;
  static S make(const std::string& p, const std::string&){ return ScalarIO<S>::parse(p); }
  static std::string primal(const S& x){ return ScalarIO<S>::print(x); } static std::string dualpart(const S&){ return "0"; } };

struct Case {
  std::string id, group, op, mask, iarg, flt;
  std::vector<std::vector<std::string>> args;
  std::string raw;
  bool m(size_t i) const { return mask != "-" && i < mask.size() && mask[i]=='1'; }
};

inline bool parse_case(const std::string& line, Case& c){
  std::istringstream is(line); std::string tag; is >> tag; if(tag!="C") return false;
  size_t n; is >> c.id >> c.group >> c.op >> c.mask >> c.iarg >> c.flt >> n;
  c.args.clear();
  for(size_t i=0;i<n;i++){ size_t len; is >> len; std::vector<std::string> v(len); for(auto& x:v) is >> x; c.args.push_back(v); }
  c.raw=line; return true;
}

template<class S> struct Out {
  std::vector<std::vector<S>> outs;
  template<class M> void mat(const M& m){            // row-major flatten
    std::vector<S> v; for(int i=0;i<m.rows();i++) for(int j=0;j<m.cols();j++) v.push_back(m(i,j)); outs.push_back(v);
  }
  void scalar(const S& s){ outs.push_back(std::vector<S>{s}); }
  void boolean(bool b){ outs.push_back(std::vector<S>{S(b?1:0)}); }
  std::string str() const {
    std::ostringstream os;
    if(DualIO<S>::value){ os << "ok " << 2*outs.size();
      for(auto& v:outs){ os << " " << v.size(); for(auto& x:v) os << " " << DualIO<S>::primal(x); os << " " << v.size(); for(auto& x:v) os << " " << DualIO<S>::dualpart(x); }
      return os.str(); }
    os << "ok " << outs.size();
    for(auto& v:outs){ os << " " << v.size(); for(auto& x:v) os << " " << ScalarIO<S>::print(x); }
    return os.str();
  }
};

template<class S, class V> V vec_from(const std::vector<std::string>& a){
  const size_t n = DualIO<S>::value ? a.size()/2 : a.size();
  V v; if(V::RowsAtCompileTime==Eigen::Dynamic) v.resize(n);
  for(int i=0;i<v.size();i++) v(i) = (size_t)i<n ? (DualIO<S>::value ? DualIO<S>::make(a[i], a[n+i]) : ScalarIO<S>::parse(a[i])) : S(0);
  return v;
}
