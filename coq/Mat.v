(* Mat.v — vectors and matrices as lists over an arbitrary scalar record.
   Row-major: a matrix is the list of its rows. All functions are total. *)
From Coq Require Import ZArith List Bool.
Import ListNotations.
From Manif Require Import Scalar.

Section Mat.
Variable F : Sc.
Notation T := (K F).
Local Notation "a + b" := (kadd F a b) : k_scope.
Local Notation "a - b" := (ksub F a b) : k_scope.
Local Notation "a * b" := (kmul F a b) : k_scope.
Local Notation "a / b" := (kdiv F a b) : k_scope.
Local Notation "- a" := (kopp F a) : k_scope.
Local Open Scope k_scope.

Definition vec := list T.
Definition mat := list (list T).

Definition vnth (v : vec) (i : nat) : T := nth i v (k0 F).
Definition mnth (M : mat) (i j : nat) : T := nth j (nth i M []) (k0 F).

Fixpoint vmap2 (f : T -> T -> T) (u v : vec) : vec :=
  match u, v with
  | a :: u', b :: v' => f a b :: vmap2 f u' v'
  | _, _ => []
  end.
Definition vadd := vmap2 (kadd F).
Definition vsub := vmap2 (ksub F).
Definition vneg (v : vec) : vec := map (kopp F) v.
Definition vscale (c : T) (v : vec) : vec := map (fun x => c * x) v.
Definition vscale_r (v : vec) (c : T) : vec := map (fun x => x * c) v.   (* v * c *)
Definition vdivs (v : vec) (c : T) : vec := map (fun x => x / c) v.
Fixpoint dot (u v : vec) : T :=
  match u, v with
  | a :: u', b :: v' => a * b + dot u' v'
  | _, _ => k0 F
  end.
Definition sqnorm (v : vec) : T := dot v v.
Definition vzero (n : nat) : vec := repeat (k0 F) n.

Definition mzero (r c : nat) : mat := repeat (vzero c) r.
Definition unitv (n i : nat) : vec := map (fun j => if Nat.eqb i j then k1 F else k0 F) (seq 0 n).
Definition mid (n : nat) : mat := map (unitv n) (seq 0 n).
Definition mconst (r c : nat) (x : T) : mat := repeat (repeat x c) r.

Fixpoint mmap2 (f : T -> T -> T) (A B : mat) : mat :=
  match A, B with
  | a :: A', b :: B' => vmap2 f a b :: mmap2 f A' B'
  | _, _ => []
  end.
Definition madd := mmap2 (kadd F).
Definition msub := mmap2 (ksub F).
Definition mneg (A : mat) : mat := map vneg A.
Definition mscale (c : T) (A : mat) : mat := map (vscale c) A.
Definition mscale_r (A : mat) (c : T) : mat := map (fun r => vscale_r r c) A.

Definition col (A : mat) (j : nat) : vec := map (fun r => vnth r j) A.
Definition mtrans (c : nat) (A : mat) : mat := map (col A) (seq 0 c).
Definition ncols (A : mat) : nat := match A with r :: _ => length r | [] => 0 end.
Definition mT (A : mat) : mat := mtrans (ncols A) A.

Definition mvmul (A : mat) (v : vec) : vec := map (fun r => dot r v) A.
Definition mmul (A B : mat) : mat :=
  let Bt := mT B in map (fun r => map (fun c => dot r c) Bt) A.

(* blocks *)
Definition vslice {A : Type} (v : list A) (off len : nat) : list A := firstn len (skipn off v).
Definition mblock (A : mat) (r c h w : nat) : mat :=
  map (fun row => vslice row c w) (vslice A r h).
(* overwrite v[off .. off+len(w)) with w *)
Definition vset {A : Type} (v : list A) (off : nat) (w : list A) : list A :=
  firstn off v ++ w ++ skipn (off + length w) v.
(* overwrite the block of A at (r,c) with B *)
Fixpoint mset_rows (rows : mat) (c : nat) (B : mat) : mat :=
  match rows, B with
  | row :: rows', b :: B' => vset row c b :: mset_rows rows' c B'
  | _, _ => rows
  end.
Definition mset_block (A : mat) (r c : nat) (B : mat) : mat :=
  firstn r A ++ mset_rows (skipn r A) c B.

(* horizontal / vertical concatenation; block-diagonal *)
Fixpoint hcat (A B : mat) : mat :=
  match A, B with
  | a :: A', b :: B' => (a ++ b) :: hcat A' B'
  | _, _ => []
  end.
Definition vcat (A B : mat) : mat := A ++ B.
Definition bdiag (A B : mat) : mat :=
  let ra := length A in let ca := ncols A in
  let rb := length B in let cb := ncols B in
  vcat (hcat A (mzero ra cb)) (hcat (mzero rb ca) B).

Definition colvec (v : vec) : mat := map (fun x => [x]) v.
Definition flatten (A : mat) : vec := concat A.

(* 3-vectors *)
Definition skew3 (v : vec) : mat :=
  match v with
  | [x; y; z] => [[k0 F; - z; y]; [z; k0 F; - x]; [- y; x; k0 F]]
  | _ => mzero 3 3
  end.
Definition cross3 (u v : vec) : vec :=
  match u, v with
  | [a; b; c], [x; y; z] => [b * z - c * y; c * x - a * z; a * y - b * x]
  | _, _ => vzero 3
  end.
Definition outer (u v : vec) : mat := map (fun a => map (fun b => a * b) v) u.

Definition trace (A : mat) : T :=
  fold_right (fun i acc => mnth A i i + acc) (k0 F) (seq 0 (length A)).

(* exact matrix inverse by Gauss-Jordan elimination (first non-zero pivot).
   Over an exact field the result does not depend on the pivoting strategy,
   so this models Eigen's inverse() (cofactors / PartialPivLU) exactly.
   Returns the input-sized zero matrix when singular (never reached on the
   inputs the theorems talk about; the correspondence would show it). *)
Definition row_axpy (c : T) (x y : vec) : vec := vmap2 (fun a b => b - c * a) x y. (* y - c x *)

Fixpoint find_pivot (rows : mat) (j : nat) : option (vec * mat) :=
  match rows with
  | [] => None
  | r :: rest =>
    if keqb (vnth r j) (k0 F) then
      match find_pivot rest j with
      | Some (p, others) => Some (p, r :: others)
      | None => None
      end
    else Some (r, rest)
  end.

(* state: done rows (already reduced, pivot columns < j), todo rows *)
Fixpoint gj (n : nat) (j : nat) (done todo : mat) : option mat :=
  match n with
  | O => Some done
  | S n' =>
    match find_pivot todo j with
    | None => None
    | Some (p, others) =>
      let p' := vdivs p (vnth p j) in
      let elim := fun r => row_axpy (vnth r j) p' r in
      gj n' (S j) (map elim done ++ [p']) (map elim others)
    end
  end.

Definition minv (A : mat) : mat :=
  let n := length A in
  match gj n 0 [] (hcat A (mid n)) with
  | Some R => map (fun r => skipn n r) R
  | None => mzero n n
  end.

End Mat.

Arguments vnth {F}. Arguments mnth {F}. Arguments vadd {F}. Arguments vsub {F}. Arguments vneg {F}.
Arguments vscale {F}. Arguments vscale_r {F}. Arguments vdivs {F}. Arguments dot {F}. Arguments sqnorm {F}.
Arguments vmap2 {F}. Arguments mmap2 {F}.
Arguments vzero {F}. Arguments mzero {F}. Arguments unitv {F}. Arguments mid {F}. Arguments mconst {F}.
Arguments madd {F}. Arguments msub {F}. Arguments mneg {F}. Arguments mscale {F}. Arguments mscale_r {F}.
Arguments col {F}. Arguments mtrans {F}. Arguments ncols {F}. Arguments mT {F}.
Arguments mvmul {F}. Arguments mmul {F}. Arguments mblock {F}. Arguments mset_rows {F}. Arguments mset_block {F}.
Arguments hcat {F}. Arguments vcat {F}. Arguments bdiag {F}. Arguments colvec {F}. Arguments flatten {F}.
Arguments skew3 {F}. Arguments cross3 {F}. Arguments outer {F}. Arguments trace {F}.
Arguments minv {F}. Arguments gj {F}. Arguments find_pivot {F}. Arguments row_axpy {F}.
