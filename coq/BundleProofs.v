(* BundleProofs.v — property C11: the offset tables are prefix sums, assembling parts at those offsets is
   concatenation, and a matrix built by writing blocks at those offsets into a zero matrix is block diagonal
   (exact zeros off the blocks, the element's block on the diagonal) — for ANY list of groups and ANY scalar. *)
From Coq Require Import ZArith List Lia Bool.
Import ListNotations.
From Manif Require Import Scalar Mat Consts Group Bundle.

(* ---- compute_indices (the template recursion of traits.h) = prefix sums ---- *)
Fixpoint prefix (i : nat) (l : list nat) : list nat :=
  match l with [] => [] | a :: l' => i :: prefix (i + a) l' end.

Lemma ci_gen_spec rest : rest <> [] -> forall acc i,
  ci_gen (length rest) i (rest ++ acc) = 0%nat :: acc ++ tl (prefix i rest).
Proof.
  induction rest as [|r rest IH]; [contradiction|]. intros _ acc i.
  destruct rest as [|r' rest'].
  - cbn. rewrite app_nil_r. reflexivity.
  - assert (E : ci_gen (length (r :: r' :: rest')) i ((r :: r' :: rest') ++ acc) =
               ci_gen (length (r' :: rest')) (i + r) ((r' :: rest') ++ (acc ++ [i + r]))).
    { cbn [length ci_gen app]. rewrite <- app_assoc. reflexivity. }
    rewrite E, IH by discriminate. cbn [prefix tl]. rewrite <- app_assoc. reflexivity.
Qed.

Theorem compute_indices_prefix sizes : compute_indices sizes = prefix 0 sizes.
Proof.
  unfold compute_indices. destruct sizes as [|s sizes]; [reflexivity|].
  rewrite <- (app_nil_r (s :: sizes)) at 2. rewrite ci_gen_spec by discriminate. reflexivity.
Qed.

Lemma prefix_length i l : length (prefix i l) = length l.
Proof. revert i. induction l as [|a l IH]; intros i; cbn; [reflexivity|]. rewrite IH. reflexivity. Qed.
Lemma prefix_nth i l k : (k < length l)%nat -> nth k (prefix i l) 0%nat = (i + accumulate (firstn k l))%nat.
Proof.
  revert i k. induction l as [|a l IH]; intros i k Hk; [inversion Hk|]. destruct k as [|k]; cbn [prefix nth firstn accumulate fold_right].
  - lia.
  - cbn [length] in Hk. rewrite IH by lia. unfold accumulate. lia.
Qed.
(* the i-th offset is the sum of the sizes before it; the total is the sum of all *)
Theorem offsets_are_prefix_sums sizes k : (k < length sizes)%nat ->
  nth k (compute_indices sizes) 0%nat = accumulate (firstn k sizes).
Proof. intros H. rewrite compute_indices_prefix, prefix_nth by exact H. reflexivity. Qed.

(* ---- vectors: writing parts at the prefix offsets of their lengths is concatenation ---- *)
Section Vec.
Variable A : Type.
Variable d : A.

Lemma fold_combine_index {B C} (F : C -> nat -> B -> C) (offs : list nat) (parts : list B) (init : C) :
  length offs = length parts ->
  fold_left (fun acc p => F acc (nth (fst p) offs 0%nat) (snd p)) (combine (seq 0 (length parts)) parts) init =
  fold_left (fun acc p => F acc (fst p) (snd p)) (combine offs parts) init.
Proof.
  intros Hl.
  assert (G : forall k offs' parts' init', length offs' = length parts' -> (forall j, (j < length offs')%nat -> nth (k + j) offs 0%nat = nth j offs' 0%nat) ->
     fold_left (fun acc p => F acc (nth (fst p) offs 0%nat) (snd p)) (combine (seq k (length parts')) parts') init' =
     fold_left (fun acc p => F acc (fst p) (snd p)) (combine offs' parts') init').
  { intros k offs' parts'. revert k offs'. induction parts' as [|p parts' IH]; intros k offs' init' Hl' Hn; [destruct offs'; reflexivity|].
    destruct offs' as [|o offs']; [discriminate|]. cbn [length seq combine fold_left fst snd].
    assert (E0 : nth k offs 0%nat = o) by (rewrite <- (Nat.add_0_r k); rewrite (Hn 0%nat) by (cbn; lia); reflexivity). rewrite E0.
    apply IH; [cbn in Hl'; lia|]. intros j Hj. replace (S k + j)%nat with (k + S j)%nat by lia. rewrite (Hn (S j)) by (cbn; lia). reflexivity. }
  apply (G 0%nat offs parts init Hl). intros j _. reflexivity.
Qed.

Lemma vset_at_end (pre w zs : list A) : vset (pre ++ repeat d (length w) ++ zs) (length pre) w = pre ++ w ++ zs.
Proof.
  unfold vset. rewrite firstn_app, firstn_all, Nat.sub_diag. cbn [firstn]. rewrite app_nil_r. f_equal. f_equal.
  rewrite skipn_app, skipn_all2 by lia. cbn [app].
  replace (length pre + length w - length pre)%nat with (length w) by lia.
  rewrite skipn_app, skipn_all2 by (rewrite repeat_length; lia). rewrite repeat_length, Nat.sub_diag. reflexivity.
Qed.

Lemma assemble_concat (parts : list (list A)) : forall pre,
  fold_left (fun acc p => vset acc (fst p) (snd p)) (combine (prefix (length pre) (map (@length A) parts)) parts)
            (pre ++ repeat d (accumulate (map (@length A) parts))) = pre ++ concat parts.
Proof.
  induction parts as [|p parts IH]; intros pre; cbn [map prefix combine fold_left concat accumulate fold_right].
  - reflexivity.
  - fold (accumulate (map (@length A) parts)). rewrite repeat_app. cbn [fst snd]. rewrite vset_at_end.
    rewrite app_assoc. rewrite <- (app_length pre p). rewrite IH. rewrite <- app_assoc. reflexivity.
Qed.
End Vec.

Section AnyScalar.
Variable F : Sc.
Variable L : list (GroupOps F).
Local Notation vec := (list (K F)).

(* Bundle(elements...) with parts of the right sizes is the concatenation of the parts *)
Theorem assemble_is_concat (f : GroupOps F -> nat) (parts : list vec) :
  map (@length (K F)) parts = map f L -> assemble L f parts = concat parts.
Proof.
  intros Hs. unfold assemble, idx, total. rewrite compute_indices_prefix.
  rewrite (fold_combine_index (fun acc o (p : vec) => vset acc o p)) by (rewrite prefix_length, <- Hs, map_length; reflexivity).
  unfold vzero. rewrite <- Hs. exact (assemble_concat (K F) (k0 F) parts []).
Qed.
End AnyScalar.

(* ---- matrices: blocks written into a zero matrix ---- *)
Section MatBlocks.
Variable A : Type.
Variable d : A.

Lemma nth_firstn_lt (l : list A) n j : (j < n)%nat -> nth j (firstn n l) d = nth j l d.
Proof. revert n j. induction l as [|a l IH]; intros [|n] [|j] H; cbn; try reflexivity; try lia. apply IH. lia. Qed.
Lemma nth_skipn_add (l : list A) n j : nth j (skipn n l) d = nth (n + j) l d.
Proof. revert n. induction l as [|a l IH]; intros [|n]; cbn; try reflexivity. - destruct j; reflexivity. - apply IH. Qed.

Lemma nth_vset (v w : list A) off j : (off + length w <= length v)%nat ->
  nth j (vset v off w) d = if (off <=? j)%nat && (j <? off + length w)%nat then nth (j - off) w d else nth j v d.
Proof.
  intros H. unfold vset. assert (Hf : length (firstn off v) = off) by (apply firstn_length_le; lia).
  destruct (off <=? j)%nat eqn:E1; cbn [andb].
  - apply Nat.leb_le in E1. rewrite app_nth2 by lia. rewrite Hf.
    destruct (j <? off + length w)%nat eqn:E2.
    + apply Nat.ltb_lt in E2. rewrite app_nth1 by lia. reflexivity.
    + apply Nat.ltb_ge in E2. rewrite app_nth2 by lia. rewrite nth_skipn_add. f_equal. lia.
  - apply Nat.leb_gt in E1. rewrite app_nth1 by lia. apply nth_firstn_lt. exact E1.
Qed.
Lemma vset_length (v w : list A) off : (off + length w <= length v)%nat -> length (vset v off w) = length v.
Proof. intros H. unfold vset. rewrite !app_length, firstn_length_le, skipn_length by lia. lia. Qed.
End MatBlocks.

Section Place.
Variable F : Sc.
Local Notation T := (K F).
Local Notation mat := (list (list T)).

Definition rect (M : mat) (rows cols : nat) : Prop := length M = rows /\ Forall (fun r => length r = cols) M.

Lemma rect_nth M rows cols i : rect M rows cols -> (i < rows)%nat -> length (nth i M []) = cols.
Proof. intros [Hl Hf] Hi. rewrite Forall_forall in Hf. apply Hf. apply nth_In. lia. Qed.

Lemma nth_mset_rows (rows : mat) c (B : mat) i : (length B <= length rows)%nat ->
  nth i (mset_rows rows c B) [] = if (i <? length B)%nat then vset (nth i rows []) c (nth i B []) else nth i rows [].
Proof.
  revert B i. induction rows as [|r rows IH]; intros [|b B] i H; cbn [mset_rows length] in *; try lia.
  - destruct i; reflexivity.
  - destruct i; reflexivity.
  - destruct i as [|i]; cbn [nth]; [reflexivity|]. rewrite IH by lia. reflexivity.
Qed.
Lemma mset_rows_length (rows : mat) c (B : mat) : length (mset_rows rows c B) = length rows.
Proof. revert B. induction rows as [|r rows IH]; intros [|b B]; cbn; try reflexivity. rewrite IH. reflexivity. Qed.

Lemma nth_mset_block (M : mat) r c (B : mat) i : (r + length B <= length M)%nat ->
  nth i (mset_block M r c B) [] =
  if (r <=? i)%nat && (i <? r + length B)%nat then vset (nth i M []) c (nth (i - r) B []) else nth i M [].
Proof.
  intros H. unfold mset_block. assert (Hf : length (firstn r M) = r) by (apply firstn_length_le; lia).
  destruct (r <=? i)%nat eqn:E1; cbn [andb].
  - apply Nat.leb_le in E1. rewrite app_nth2 by lia. rewrite Hf, nth_mset_rows by (rewrite skipn_length; lia).
    rewrite !(nth_skipn_add _ []). replace (r + (i - r))%nat with i by lia.
    destruct (i - r <? length B)%nat eqn:E2, (i <? r + length B)%nat eqn:E3; try reflexivity;
      [apply Nat.ltb_lt in E2; apply Nat.ltb_ge in E3 | apply Nat.ltb_ge in E2; apply Nat.ltb_lt in E3]; lia.
  - apply Nat.leb_gt in E1. rewrite app_nth1 by lia. apply nth_firstn_lt. exact E1.
Qed.

Definition inb (r c h w i j : nat) : bool := (r <=? i)%nat && (i <? r + h)%nat && (c <=? j)%nat && (j <? c + w)%nat.

(* one block written into a rectangular matrix: the block inside, the old entries outside; shape kept *)
Lemma mnth_mset_block (M B : mat) R C r c h w i j : rect M R C -> rect B h w -> (r + h <= R)%nat -> (c + w <= C)%nat ->
  mnth (mset_block M r c B) i j = if inb r c h w i j then mnth B (i - r) (j - c) else mnth M i j.
Proof.
  intros HM HB Hr Hc. unfold mnth, inb. destruct HM as [HMl HMf]. destruct HB as [HBl HBf].
  rewrite nth_mset_block by lia. rewrite HBl.
  destruct ((r <=? i)%nat && (i <? r + h)%nat) eqn:E; cbn [andb]; [|reflexivity].
  apply andb_true_iff in E. destruct E as [E1 E2]. apply Nat.leb_le in E1. apply Nat.ltb_lt in E2.
  assert (Hw : length (nth (i - r) B []) = w) by (apply (rect_nth B h w); [split; assumption|lia]).
  assert (Hc2 : length (nth i M []) = C) by (apply (rect_nth M R C); [split; assumption|lia]).
  rewrite nth_vset by lia. rewrite Hw. reflexivity.
Qed.
Lemma rect_mset_block (M B : mat) R C r c h w : rect M R C -> rect B h w -> (r + h <= R)%nat -> (c + w <= C)%nat ->
  rect (mset_block M r c B) R C.
Proof.
  intros HM HB Hr Hc. pose proof HM as [HMl HMf]. pose proof HB as [HBl HBf]. split.
  - unfold mset_block. rewrite app_length, mset_rows_length, firstn_length_le, skipn_length by lia. lia.
  - apply Forall_forall. intros row Hin. destruct (In_nth _ _ [] Hin) as (i & Hi & <-).
    assert (Hlen : length (mset_block M r c B) = R) by (unfold mset_block; rewrite app_length, mset_rows_length, firstn_length_le, skipn_length by lia; lia).
    rewrite nth_mset_block by lia. rewrite HBl.
    destruct ((r <=? i)%nat && (i <? r + h)%nat) eqn:E.
    + apply andb_true_iff in E. destruct E as [E1 E2]. apply Nat.leb_le in E1. apply Nat.ltb_lt in E2.
      rewrite vset_length; [apply (rect_nth M R C _ HM); lia|].
      rewrite (rect_nth B h w _ HB) by lia. rewrite (rect_nth M R C _ HM) by lia. exact Hc.
    + apply (rect_nth M R C _ HM). lia.
Qed.

(* a list of blocks (row offset, column offset, block) written in order *)
Definition fits (R C : nat) (p : nat * nat * mat) (h w : nat) : Prop :=
  rect (snd p) h w /\ (fst (fst p) + h <= R)%nat /\ (snd (fst p) + w <= C)%nat.
Definition place_list (bl : list (nat * nat * mat)) (init : mat) : mat :=
  fold_left (fun M p => mset_block M (fst (fst p)) (snd (fst p)) (snd p)) bl init.

Lemma place_list_rect bl : forall init R C, rect init R C -> Forall (fun p => exists h w, fits R C p h w) bl -> rect (place_list bl init) R C.
Proof.
  induction bl as [|p bl IH]; intros init R C Hi Hb; [exact Hi|]. inversion Hb as [|? ? (h & w & Hf & Hr & Hc) Hb']; subst.
  cbn [place_list fold_left]. apply IH; [|exact Hb']. apply (rect_mset_block _ _ R C _ _ h w); assumption.
Qed.

(* exact zeros (the initial entries) wherever no block lies *)
Theorem place_list_off bl : forall init R C i j, rect init R C ->
  Forall (fun p => exists h w, fits R C p h w /\ inb (fst (fst p)) (snd (fst p)) h w i j = false) bl ->
  mnth (place_list bl init) i j = mnth init i j.
Proof.
  induction bl as [|p bl IH]; intros init R C i j Hi Hb; [reflexivity|].
  inversion Hb as [|? ? (h & w & (Hf & Hr & Hc) & Hout) Hb']; subst. cbn [place_list fold_left].
  rewrite (IH _ R C) by (try assumption; apply (rect_mset_block _ _ R C _ _ h w); assumption).
  rewrite (mnth_mset_block _ _ R C _ _ h w) by assumption.
  match goal with |- (if ?b then _ else _) = _ => replace b with false by (symmetry; exact Hout) end. reflexivity.
Qed.

(* the entries of a block that no later block overlaps *)
Theorem place_list_in pre p post init R C h w i j : rect init R C ->
  Forall (fun q => exists h' w', fits R C q h' w') pre -> fits R C p h w ->
  Forall (fun q => exists h' w', fits R C q h' w' /\ inb (fst (fst q)) (snd (fst q)) h' w' i j = false) post ->
  inb (fst (fst p)) (snd (fst p)) h w i j = true ->
  mnth (place_list (pre ++ p :: post) init) i j = mnth (snd p) (i - fst (fst p)) (j - snd (fst p)).
Proof.
  intros Hi Hpre (Hf & Hr & Hc) Hpost Hin. unfold place_list. rewrite fold_left_app. cbn [fold_left].
  fold (place_list pre init). pose proof (place_list_rect pre init R C Hi Hpre) as Hrect.
  fold (place_list post (mset_block (place_list pre init) (fst (fst p)) (snd (fst p)) (snd p))).
  rewrite (place_list_off post _ R C) by (try assumption; apply (rect_mset_block _ _ R C _ _ h w); assumption).
  rewrite (mnth_mset_block _ _ R C _ _ h w) by assumption.
  match goal with |- (if ?b then _ else _) = _ => replace b with true by (symmetry; exact Hin) end. reflexivity.
Qed.
End Place.

(* ---- the Bundle's matrices are block diagonal ---- *)
Lemma accumulate_cons a l : accumulate (a :: l) = (a + accumulate l)%nat.
Proof. reflexivity. Qed.
Lemma accumulate_firstn_S (l : list nat) k : (k < length l)%nat -> accumulate (firstn (S k) l) = (accumulate (firstn k l) + nth k l 0)%nat.
Proof.
  revert k. induction l as [|a l IH]; intros k H; [inversion H|]. destruct k as [|k].
  - cbn. lia.
  - cbn [length] in H. change (firstn (S (S k)) (a :: l)) with (a :: firstn (S k) l). change (firstn (S k) (a :: l)) with (a :: firstn k l).
    rewrite !accumulate_cons. cbn [nth]. rewrite IH by lia. lia.
Qed.
Lemma accumulate_firstn_mono (l : list nat) a b : (a <= b)%nat -> (accumulate (firstn a l) <= accumulate (firstn b l))%nat.
Proof.
  revert a b. induction l as [|x l IH]; intros a b H; [destruct a, b; cbn; lia|].
  destruct a as [|a], b as [|b]; try lia.
  - cbn. lia.
  - change (firstn (S a) (x :: l)) with (x :: firstn a l). change (firstn (S b) (x :: l)) with (x :: firstn b l).
    rewrite !accumulate_cons. specialize (IH a b ltac:(lia)). lia.
Qed.
Lemma accumulate_firstn_all (l : list nat) : accumulate (firstn (length l) l) = accumulate l.
Proof. rewrite firstn_all. reflexivity. Qed.

Section BundleMat.
Variable F : Sc.
Variable L : list (GroupOps F).
Local Notation mat := (list (list (K F))).

Definition off (f : GroupOps F -> nat) (k : nat) : nat := accumulate (firstn k (map f L)).
Lemma idx_off f k : (k < length L)%nat -> idx L f k = off f k.
Proof. intros H. unfold idx, off. apply offsets_are_prefix_sums. rewrite map_length. exact H. Qed.
Lemma off_fits f k : (k < length L)%nat -> (off f k + nth k (map f L) 0 <= total L f)%nat.
Proof.
  intros H. unfold off, total. rewrite <- accumulate_firstn_S by (rewrite map_length; exact H).
  rewrite <- (accumulate_firstn_all (map f L)). apply accumulate_firstn_mono. rewrite map_length. lia.
Qed.
Lemma off_disjoint f k k' : (k < k')%nat -> (k' <= length L)%nat -> (off f k + nth k (map f L) 0 <= off f k')%nat.
Proof.
  intros H H'. unfold off. rewrite <- accumulate_firstn_S by (rewrite map_length; lia). apply accumulate_firstn_mono. lia.
Qed.

Lemma mzero_rect r c : rect F (@mzero F r c) r c.
Proof. unfold mzero, vzero. split; [apply repeat_length|]. apply Forall_forall. intros x Hx. apply repeat_spec in Hx. subst. apply repeat_length. Qed.
Lemma mnth_mzero r c i j : mnth (@mzero F r c) i j = k0 F.
Proof.
  unfold mnth, mzero, vzero. destruct (Nat.lt_ge_cases i r) as [Hi|Hi].
  - rewrite (nth_indep _ [] (repeat (k0 F) c)) by (rewrite repeat_length; exact Hi). rewrite nth_repeat.
    apply nth_repeat.
  - rewrite (nth_overflow _ []) by (rewrite repeat_length; exact Hi). destruct j; reflexivity.
Qed.

(* the blocks as (row offset, column offset, block) triples *)
Definition triples (fr fc : GroupOps F -> nat) (blocks : list mat) : list (nat * nat * mat) :=
  map (fun p => (idx L fr (fst p), idx L fc (fst p), snd p)) (combine (seq 0 (length blocks)) blocks).
Lemma place_as_list fr fc blocks : place L fr fc blocks = place_list F (triples fr fc blocks) (@mzero F (total L fr) (total L fc)).
Proof.
  unfold place, place_list, triples. generalize (combine (seq 0 (length blocks)) blocks) (@mzero F (total L fr) (total L fc)).
  intros l. induction l as [|p l IH]; intros init; [reflexivity|]. cbn [map fold_left fst snd]. apply IH.
Qed.

Definition block_ok (fr fc : GroupOps F -> nat) (blocks : list mat) : Prop :=
  length blocks = length L /\ forall k, (k < length L)%nat -> rect F (nth k blocks []) (nth k (map fr L) 0%nat) (nth k (map fc L) 0%nat).

Lemma nth_map_lt {A B} (f : A -> B) (l : list A) (d : A) (d' : B) k : (k < length l)%nat -> nth k (map f l) d' = f (nth k l d).
Proof. intros H. rewrite (nth_indep _ d' (f d)) by (rewrite map_length; exact H). apply map_nth. Qed.
Lemma triples_nth fr fc blocks k : (k < length blocks)%nat ->
  nth k (triples fr fc blocks) (0%nat, 0%nat, []) = (idx L fr k, idx L fc k, nth k blocks []).
Proof.
  intros H. unfold triples. rewrite (nth_map_lt _ _ (0%nat, [])) by (rewrite combine_length, seq_length; lia).
  rewrite combine_nth by (rewrite seq_length; reflexivity). rewrite seq_nth by exact H. reflexivity.
Qed.
Lemma triples_length fr fc blocks : length (triples fr fc blocks) = length blocks.
Proof. unfold triples. rewrite map_length, combine_length, seq_length. lia. Qed.

Lemma skipn_cons_nth {A} (l : list A) (d : A) k : (k < length l)%nat -> skipn k l = nth k l d :: skipn (S k) l.
Proof. revert k. induction l as [|a l IH]; intros k H; [inversion H|]. destruct k; [reflexivity|]. cbn [skipn nth]. apply IH. cbn in H. lia. Qed.

Lemma Forall_nth_iff {A} (P : A -> Prop) (l : list A) (d : A) : (forall k, (k < length l)%nat -> P (nth k l d)) -> Forall P l.
Proof. intros H. apply Forall_forall. intros x Hx. destruct (In_nth _ _ d Hx) as (k & Hk & <-). apply H. exact Hk. Qed.

(* (i, j) lies in the k-th diagonal block *)
Definition in_block (fr fc : GroupOps F -> nat) (k i j : nat) : Prop :=
  (off fr k <= i < off fr k + nth k (map fr L) 0)%nat /\ (off fc k <= j < off fc k + nth k (map fc L) 0)%nat.

Lemma inb_spec r c h w i j : inb r c h w i j = true <-> ((r <= i < r + h)%nat /\ (c <= j < c + w)%nat).
Proof.
  unfold inb. rewrite !andb_true_iff, !Nat.leb_le, !Nat.ltb_lt. lia.
Qed.

(* exact zeros outside the diagonal blocks *)
Theorem place_zero_off_blocks fr fc blocks i j : block_ok fr fc blocks ->
  (forall k, (k < length L)%nat -> ~ in_block fr fc k i j) ->
  mnth (place L fr fc blocks) i j = k0 F.
Proof.
  intros [Hlen Hrect] Hout. rewrite place_as_list.
  rewrite (place_list_off F _ _ (total L fr) (total L fc)); [apply mnth_mzero|apply mzero_rect|].
  apply (Forall_nth_iff _ _ (0%nat, 0%nat, [])). intros k Hk. rewrite triples_length, Hlen in Hk.
  rewrite triples_nth by lia. cbn [fst snd]. rewrite !idx_off by exact Hk.
  exists (nth k (map fr L) 0%nat), (nth k (map fc L) 0%nat). split.
  - split; [apply Hrect; exact Hk|]. cbn [fst snd]. split; apply off_fits; exact Hk.
  - destruct (inb _ _ _ _ i j) eqn:E; [|reflexivity]. exfalso. apply (Hout k Hk). apply inb_spec in E. exact E.
Qed.

(* the k-th element's block on the diagonal *)
Theorem place_diag_block fr fc blocks k i j : block_ok fr fc blocks -> (k < length L)%nat -> in_block fr fc k i j ->
  mnth (place L fr fc blocks) i j = mnth (nth k blocks []) (i - off fr k) (j - off fc k).
Proof.
  intros [Hlen Hrect] Hk Hin. rewrite place_as_list.
  set (T := triples fr fc blocks). assert (HT : length T = length L) by (unfold T; rewrite triples_length; exact Hlen).
  assert (Hfit : forall m, (m < length L)%nat -> fits F (total L fr) (total L fc) (nth m T (0%nat, 0%nat, [])) (nth m (map fr L) 0%nat) (nth m (map fc L) 0%nat)).
  { intros m Hm. unfold T. rewrite triples_nth by lia. split; [cbn [snd]; apply Hrect; exact Hm|]. cbn [fst snd]. rewrite !idx_off by exact Hm. split; apply off_fits; exact Hm. }
  rewrite <- (firstn_skipn k T). assert (Hsk : skipn k T = nth k T (0%nat, 0%nat, []) :: skipn (S k) T) by (apply skipn_cons_nth; lia).
  rewrite Hsk.
  rewrite (place_list_in F (firstn k T) (nth k T (0%nat, 0%nat, [])) (skipn (S k) T) _ (total L fr) (total L fc) (nth k (map fr L) 0%nat) (nth k (map fc L) 0%nat) i j).
  - unfold T. rewrite triples_nth by lia. cbn [fst snd]. rewrite !idx_off by exact Hk. reflexivity.
  - apply mzero_rect.
  - apply (Forall_nth_iff _ _ (0%nat, 0%nat, [])). intros m Hm. rewrite firstn_length_le in Hm by lia.
    rewrite nth_firstn_lt by exact Hm. eexists _, _. apply Hfit. lia.
  - apply Hfit. exact Hk.
  - apply (Forall_nth_iff _ _ (0%nat, 0%nat, [])). intros m Hm. rewrite skipn_length in Hm.
    rewrite nth_skipn_add. assert (Hm' : (S k + m < length L)%nat) by lia.
    exists (nth (S k + m) (map fr L) 0%nat), (nth (S k + m) (map fc L) 0%nat). split; [apply Hfit; exact Hm'|].
    unfold T. rewrite triples_nth by lia. cbn [fst snd]. rewrite !idx_off by exact Hm'.
    destruct (inb _ _ _ _ i j) eqn:E; [|reflexivity]. exfalso. apply inb_spec in E. destruct Hin as [Hi Hj].
    pose proof (off_disjoint fr k (S k + m) ltac:(lia) ltac:(lia)). lia.
  - unfold T. rewrite triples_nth by lia. cbn [fst snd]. rewrite !idx_off by exact Hk. apply inb_spec. exact Hin.
Qed.
End BundleMat.
