(* Atan2.v — facts about the two-argument arctangent used by the R instance. *)
From Coq Require Import Reals Lra Lia.
From Manif Require Import RInst.
Local Open Scope R_scope.

Lemma sqrt_1_plus_sq_div x y : x <> 0 -> sqrt (1 + (y / x)²) = sqrt (x * x + y * y) / Rabs x.
Proof.
  intros Hx.
  assert (Hax : 0 < Rabs x) by (apply Rabs_pos_lt; exact Hx).
  replace (1 + (y / x)²) with ((x * x + y * y) / (Rabs x * Rabs x)).
  2:{ unfold Rsqr. replace (Rabs x * Rabs x) with (x * x).
      2:{ rewrite <- Rabs_mult. rewrite Rabs_pos_eq; [ring|]. nra. }
      field. exact Hx. }
  rewrite sqrt_div_alt by nra.
  rewrite sqrt_square by lra. reflexivity.
Qed.

Lemma atan2_cos_sin y x : 0 < x * x + y * y ->
  cos (atan2 y x) = x / sqrt (x * x + y * y) /\ sin (atan2 y x) = y / sqrt (x * x + y * y).
Proof.
  intros Hr.
  assert (Hs : 0 < sqrt (x * x + y * y)) by (apply sqrt_lt_R0; exact Hr).
  unfold atan2.
  destruct (Rlt_dec 0 x) as [Hx|Hx].
  - rewrite cos_atan, sin_atan, sqrt_1_plus_sq_div by lra.
    rewrite Rabs_pos_eq by lra. split; field; lra.
  - destruct (Rlt_dec x 0) as [Hx'|Hx'].
    + assert (Hc : cos (atan (y / x)) = - x / sqrt (x * x + y * y)).
      { rewrite cos_atan, sqrt_1_plus_sq_div by lra. rewrite Rabs_left by lra. field; lra. }
      assert (Hsn : sin (atan (y / x)) = - y / sqrt (x * x + y * y)).
      { rewrite sin_atan, sqrt_1_plus_sq_div by lra. rewrite Rabs_left by lra. field; lra. }
      destruct (Rle_dec 0 y).
      * rewrite cos_plus, sin_plus, cos_PI, sin_PI, Hc, Hsn. split; field; lra.
      * rewrite cos_minus, sin_minus, cos_PI, sin_PI, Hc, Hsn. split; field; lra.
    + assert (x = 0) by lra. subst x.
      assert (Hy : y * y = 0 * 0 + y * y) by ring.
      destruct (Rlt_dec 0 y) as [Hy0|Hy0].
      * rewrite cos_PI2, sin_PI2. rewrite <- Hy, sqrt_square by lra. split; field; lra.
      * destruct (Rlt_dec y 0) as [Hy1|Hy1].
        -- rewrite cos_neg, sin_neg, cos_PI2, sin_PI2.
           replace (0 * 0 + y * y) with ((- y) * (- y)) by ring. rewrite sqrt_square by lra. split; field; lra.
        -- exfalso. assert (y = 0) by lra. subst y. lra.
Qed.

Lemma atan2_unit y x : x * x + y * y = 1 -> cos (atan2 y x) = x /\ sin (atan2 y x) = y.
Proof.
  intros H. destruct (atan2_cos_sin y x) as [Hc Hs]; [lra|].
  rewrite H, sqrt_1 in Hc, Hs. split; [rewrite Hc|rewrite Hs]; field.
Qed.

Lemma atan2_range y x : - PI < atan2 y x <= PI.
Proof.
  pose proof PI_RGT_0 as Hpi.
  unfold atan2.
  destruct (Rlt_dec 0 x) as [Hx|Hx].
  - pose proof (atan_bound (y / x)). lra.
  - destruct (Rlt_dec x 0) as [Hx'|Hx'].
    + destruct (Rle_dec 0 y) as [Hy|Hy].
      * assert (y / x <= 0). { unfold Rdiv. assert (/ x < 0) by (apply Rinv_lt_0_compat; lra). nra. }
        pose proof (atan_bound (y / x)).
        assert (atan (y / x) <= 0).
        { destruct (Req_dec (y / x) 0) as [->|]; [rewrite atan_0; lra|].
          left. rewrite <- atan_0. apply atan_increasing. lra. }
        lra.
      * assert (0 < y / x). { unfold Rdiv. assert (/ x < 0) by (apply Rinv_lt_0_compat; lra). nra. }
        pose proof (atan_bound (y / x)).
        assert (0 < atan (y / x)). { rewrite <- atan_0. apply atan_increasing. lra. }
        lra.
    + destruct (Rlt_dec 0 y); [lra|]. destruct (Rlt_dec y 0); lra.
Qed.

(* atan2 inverts (cos, sin) on the principal range *)
Lemma atan2_sin_cos t : - PI < t <= PI -> atan2 (sin t) (cos t) = t.
Proof.
  intros Ht. pose proof PI_RGT_0 as Hpi.
  unfold atan2.
  destruct (Rlt_dec 0 (cos t)) as [Hc|Hc].
  - (* |t| < PI/2 *)
    assert (- (PI / 2) < t < PI / 2).
    { destruct (Rle_dec t (- (PI / 2))) as [H1|H1].
      - exfalso. assert (cos t <= 0).
        { rewrite <- cos_neg. apply cos_le_0; lra. } lra.
      - destruct (Rle_dec (PI / 2) t) as [H2|H2]; [|lra].
        exfalso. assert (cos t <= 0) by (apply cos_le_0; lra). lra. }
    change (sin t / cos t) with (tan t). apply atan_tan. lra.
  - destruct (Rlt_dec (cos t) 0) as [Hc'|Hc'].
    + destruct (Rle_dec 0 (sin t)) as [Hs|Hs].
      * (* t in (PI/2, PI] *)
        assert (PI / 2 < t).
        { destruct (Rle_dec t (PI / 2)) as [H1|H1]; [|lra]. exfalso.
          destruct (Rle_dec (- (PI / 2)) t).
          - assert (0 <= cos t) by (apply cos_ge_0; lra). lra.
          - assert (sin t < 0). { rewrite <- (Ropp_involutive t), sin_neg.
              assert (0 < sin (- t)) by (apply sin_gt_0; lra). lra. } lra. }
        replace (sin t / cos t) with (tan (t - PI)).
        2:{ unfold tan. rewrite sin_minus, cos_minus, cos_PI, sin_PI. field. lra. }
        destruct (Req_dec t PI) as [->|Hne].
        -- replace (PI - PI) with 0 by ring. rewrite tan_0, atan_0. ring.
        -- rewrite atan_tan by lra. ring.
      * (* t in (-PI, -PI/2) *)
        assert (t < - (PI / 2)).
        { destruct (Rle_dec (- (PI / 2)) t) as [H1|H1]; [|lra]. exfalso.
          destruct (Rle_dec t (PI / 2)).
          - assert (0 <= cos t) by (apply cos_ge_0; lra). lra.
          - assert (0 <= sin t) by (apply sin_ge_0; lra). lra. }
        replace (sin t / cos t) with (tan (t + PI)).
        2:{ unfold tan. rewrite sin_plus, cos_plus, cos_PI, sin_PI. field. lra. }
        rewrite atan_tan by lra. ring.
    + assert (Hc0 : cos t = 0) by lra.
      destruct (Rlt_dec 0 (sin t)) as [Hs|Hs].
      * (* t = PI/2 *)
        destruct (Rtotal_order t (PI / 2)) as [H|[H|H]]; [|lra|].
        -- exfalso. destruct (Rlt_dec (- (PI / 2)) t).
           ++ assert (0 < cos t) by (apply cos_gt_0; lra). lra.
           ++ destruct (Req_dec t (- (PI / 2))) as [->|].
              ** rewrite sin_neg, sin_PI2 in Hs. lra.
              ** assert (cos t < 0). { rewrite <- cos_neg. apply cos_lt_0; lra. } lra.
        -- exfalso. destruct (Req_dec t PI) as [->|].
           ++ rewrite sin_PI in Hs. lra.
           ++ assert (cos t < 0) by (apply cos_lt_0; lra). lra.
      * destruct (Rlt_dec (sin t) 0) as [Hs'|Hs'].
        -- (* t = -PI/2 *)
           destruct (Rtotal_order t (- (PI / 2))) as [H|[H|H]]; [|lra|].
           ++ exfalso. assert (cos t < 0). { rewrite <- cos_neg. apply cos_lt_0; lra. } lra.
           ++ exfalso. destruct (Rlt_dec t (PI / 2)).
              ** assert (0 < cos t) by (apply cos_gt_0; lra). lra.
              ** destruct (Req_dec t (PI / 2)) as [->|].
                 --- rewrite sin_PI2 in Hs'. lra.
                 --- destruct (Req_dec t PI) as [->|].
                     +++ rewrite cos_PI in Hc0. lra.
                     +++ assert (cos t < 0) by (apply cos_lt_0; lra). lra.
        -- exfalso. assert (Hs0 : sin t = 0) by lra.
           pose proof (sin2_cos2 t) as H2. unfold Rsqr in H2. rewrite Hc0, Hs0 in H2. lra.
Qed.
