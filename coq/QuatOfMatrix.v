(* QuatOfMatrix.v — property C13: the constructor from a rotation matrix (Eigen's Quaternion(Matrix3), all four branches
   of quaternionbase_assign_impl as modelled in Ctor.v) applied to the rotation matrix of a unit quaternion q returns q or
   -q — the same rotation — with the sign that makes the pivot component (w if the trace is positive, else the largest of
   x, y, z by the diagonal test) non-negative.  So rotation() of the constructed element is the supplied matrix. *)
From Coq Require Import Reals ZArith List Lra Psatz Bool.
From Manif Require Import Scalar Mat Consts Group RInst Tac AlgTac SO3 SO3Proofs Ctor.
Import ListNotations.
Local Open Scope R_scope.

Lemma sqrt_sq_abs a : sqrt (a * a) = Rabs a.
Proof. replace (a * a) with (a²) by (unfold Rsqr; ring). apply sqrt_Rsqr_abs. Qed.

(* trace > 0: pivot on w *)
Theorem quat_of_matrix_trace_pos x y z w : n4 x y z w = 1 -> 1 < 4 * (w * w) ->
  @quat_of_matrix RS (@quat_matrix RS [x; y; z; w]) = if Rlt_dec w 0 then [- x; - y; - z; - w] else [x; y; z; w].
Proof.
  intros Hu Ht. unfold n4 in Hu. unfold quat_of_matrix, quat_matrix, qx, qy, qz, qw, c_half. mat_unfold.
  assert (Htr : 1 - (2 * y * y + 2 * z * z) + (1 - (2 * x * x + 2 * z * z)) + (1 - (2 * x * x + 2 * y * y)) = 4 * (w * w) - 1) by nra.
  rewrite Htr. rewrite (Rltb_lt_true 0 (4 * (w * w) - 1)) by lra.
  replace (4 * (w * w) - 1 + 1) with ((2 * w) * (2 * w)) by ring. rewrite sqrt_sq_abs.
  assert (Hw : w <> 0) by (intros ->; lra).
  match goal with |- @eq _ ?u ?v => change (@eq (list R) u v) end.
  destruct (Rlt_dec w 0) as [Hn|Hn].
  - rewrite (Rabs_left (2 * w)) by lra. list_eq; field; lra.
  - rewrite (Rabs_right (2 * w)) by lra. list_eq; field; lra.
Qed.

Ltac qm_solve Hu p :=
  unfold n4 in Hu; rcbv;
  repeat (match goal with |- context [Rlt_dec ?a ?b] =>
            lazymatch a with context [Rlt_dec _ _] => fail | _ => idtac end;
            lazymatch b with context [Rlt_dec _ _] => fail | _ => idtac end;
            destruct (Rlt_dec a b); try (exfalso; nra) end; rcbv);
  match goal with |- context [sqrt ?e] => replace e with ((2 * p) * (2 * p)) by nra end;
  rewrite sqrt_sq_abs; unfold Rabs; destruct (Rcase_abs (2 * p)); try (exfalso; lra);
  (assert (p <> 0) by (intros ->; nra));
  match goal with |- @eq _ ?u ?v => change (@eq (list R) u v) end; list_eq; field; lra.

(* trace <= 0, pivot on x: x^2 is the largest of x^2, y^2, z^2 (ties to the lower index, as the strict tests decide) *)
Theorem quat_of_matrix_pivot_x x y z w : n4 x y z w = 1 -> 4 * (w * w) <= 1 -> y * y <= x * x -> z * z <= x * x ->
  @quat_of_matrix RS (@quat_matrix RS [x; y; z; w]) = if Rlt_dec x 0 then [- x; - y; - z; - w] else [x; y; z; w].
Proof. intros Hu Ht Hy Hz. qm_solve Hu x. Qed.
Theorem quat_of_matrix_pivot_y x y z w : n4 x y z w = 1 -> 4 * (w * w) <= 1 -> x * x < y * y -> z * z <= y * y ->
  @quat_of_matrix RS (@quat_matrix RS [x; y; z; w]) = if Rlt_dec y 0 then [- x; - y; - z; - w] else [x; y; z; w].
Proof. intros Hu Ht Hx Hz. qm_solve Hu y. Qed.
Theorem quat_of_matrix_pivot_z x y z w : n4 x y z w = 1 -> 4 * (w * w) <= 1 -> x * x < z * z -> y * y < z * z ->
  @quat_of_matrix RS (@quat_matrix RS [x; y; z; w]) = if Rlt_dec z 0 then [- x; - y; - z; - w] else [x; y; z; w].
Proof. intros Hu Ht Hx Hy. qm_solve Hu z. Qed.

(* in every case the constructed quaternion has the supplied rotation matrix *)
Lemma quat_matrix_neg x y z w : @quat_matrix RS [- x; - y; - z; - w] = @quat_matrix RS [x; y; z; w].
Proof. unfold quat_matrix, qx, qy, qz, qw. mat_unfold. match goal with |- @eq _ ?u ?v => change (@eq (list (list R)) u v) end. list_eq; ring. Qed.
Theorem quat_of_matrix_rotation x y z w : n4 x y z w = 1 ->
  @quat_matrix RS (@quat_of_matrix RS (@quat_matrix RS [x; y; z; w])) = @quat_matrix RS [x; y; z; w].
Proof.
  intros Hu.
  destruct (Rlt_dec 1 (4 * (w * w))) as [Ht|Ht].
  - rewrite (quat_of_matrix_trace_pos x y z w Hu Ht). destruct (Rlt_dec w 0); [apply quat_matrix_neg|reflexivity].
  - assert (Ht' : 4 * (w * w) <= 1) by lra.
    destruct (Rle_dec (y * y) (x * x)) as [Hyx|Hyx].
    + destruct (Rle_dec (z * z) (x * x)) as [Hzx|Hzx].
      * rewrite (quat_of_matrix_pivot_x x y z w Hu Ht' Hyx Hzx). destruct (Rlt_dec x 0); [apply quat_matrix_neg|reflexivity].
      * rewrite (quat_of_matrix_pivot_z x y z w Hu Ht' ltac:(lra) ltac:(lra)). destruct (Rlt_dec z 0); [apply quat_matrix_neg|reflexivity].
    + destruct (Rle_dec (z * z) (y * y)) as [Hzy|Hzy].
      * rewrite (quat_of_matrix_pivot_y x y z w Hu Ht' ltac:(lra) Hzy). destruct (Rlt_dec y 0); [apply quat_matrix_neg|reflexivity].
      * rewrite (quat_of_matrix_pivot_z x y z w Hu Ht' ltac:(lra) ltac:(lra)). destruct (Rlt_dec z 0); [apply quat_matrix_neg|reflexivity].
Qed.

(* the constructor SO3(rotation matrix) (Ctor.so3_ctor id 3; the matrix is passed row-major) *)
Theorem so3_from_matrix x y z w : n4 x y z w = 1 ->
  exists q, @so3_ctor RS 3 [concat (@quat_matrix RS [x; y; z; w])] = Some q /\
            so3_rotation RS q = @quat_matrix RS [x; y; z; w] /\ (q = [x; y; z; w] \/ q = [- x; - y; - z; - w]).
Proof.
  intros Hu. exists (@quat_of_matrix RS (@quat_matrix RS [x; y; z; w])). split; [|split].
  - unfold so3_ctor, so3_quat_ctor, a, mat_of. f_equal.
  - unfold so3_rotation. apply quat_of_matrix_rotation; exact Hu.
  - destruct (Rlt_dec 1 (4 * (w * w))) as [Ht|Ht].
    + rewrite (quat_of_matrix_trace_pos x y z w Hu Ht). destruct (Rlt_dec w 0); auto.
    + assert (Ht' : 4 * (w * w) <= 1) by lra.
      destruct (Rle_dec (y * y) (x * x)) as [Hyx|Hyx].
      * destruct (Rle_dec (z * z) (x * x)) as [Hzx|Hzx].
        -- rewrite (quat_of_matrix_pivot_x x y z w Hu Ht' Hyx Hzx). destruct (Rlt_dec x 0); auto.
        -- rewrite (quat_of_matrix_pivot_z x y z w Hu Ht' ltac:(lra) ltac:(lra)). destruct (Rlt_dec z 0); auto.
      * destruct (Rle_dec (z * z) (y * y)) as [Hzy|Hzy].
        -- rewrite (quat_of_matrix_pivot_y x y z w Hu Ht' ltac:(lra) Hzy). destruct (Rlt_dec y 0); auto.
        -- rewrite (quat_of_matrix_pivot_z x y z w Hu Ht' ltac:(lra) ltac:(lra)). destruct (Rlt_dec z 0); auto.
Qed.
