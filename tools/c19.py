"""c19.py — runs the API matrix (tools/api_matrix.py) against /repo's current tree: one translation unit per (group, scalar,
storage) compiled, linked and run in parallel; a unit that does not build is re-compiled entry by entry to find the failing
cells; the results are written into build/ApiMatrixGen.v and the Coq obligation run_ok is checked."""
import os, subprocess, hashlib, tempfile, shutil
from concurrent.futures import ThreadPoolExecutor
import vlib, api_matrix as am

INC = ["-I%s/include" % vlib.REPO, "-I%s/external/tl" % vlib.REPO, "-I/usr/include/eigen3"]
def build(src_text, wd, name, link=True, timeout=900):
    src = os.path.join(wd, name + ".cpp"); open(src, "w").write(src_text)
    exe = os.path.join(wd, name)
    cmd = ["g++", "-std=c++11", "-O0", "-w"] + INC + ([src, "-o", exe] if link else ["-fsyntax-only", src])
    p = subprocess.run(cmd, stdout=subprocess.PIPE, stderr=subprocess.STDOUT, text=True, timeout=timeout)
    return p.returncode, p.stdout, exe

def first_error(log):
    for l in log.splitlines():
        if "error" in l: return l.strip()[:300]
    return log[-300:]

def run_matrix(groups=None, scalars=None, storages=None, log=print, separate=()):
    """separate: set of (entry name, storage) cells that are compiled on their own (listed known findings), so that a unit whose
    only failing entries are listed still takes the fast combined path"""
    groups = groups or list(am.GROUPS); scalars = scalars or am.SCALARS; storages = storages or am.STORAGES
    os.makedirs(vlib.BUILD, exist_ok=True)
    wd = tempfile.mkdtemp(prefix="api_", dir=vlib.BUILD)
    results = {}      # (entry idx, group, scalar, storage) -> (ok, why)
    units = [(g, sc, st) for g in groups for sc in scalars for st in storages]
    def do_unit(u):
        g, sc, st = u; name = "u_%s_%s_%s" % (g, sc, st)
        skip = [i for i, en in enumerate(am.ENTRIES) if (en[0], st) in separate and am.applicable(en, g, st)]
        src, idxs = am.unit(g, sc, st, skip=skip)
        rc, out, exe = build(src, wd, name)
        res = {}
        if rc == 0:
            p = subprocess.run([exe], stdout=subprocess.PIPE, stderr=subprocess.STDOUT, text=True, timeout=300)
            seen = {}
            for l in p.stdout.splitlines():
                t = l.split()
                if len(t) == 3 and t[0] == "CELL": seen[int(t[1])] = t[2]
            for i in idxs:
                s_ = seen.get(i)
                res[(i, g, sc, st)] = (s_ == "ok", "forwards" if s_ == "ok" else ("result differs from the canonical member" if s_ else "the program stopped before this entry (exit %d)" % p.returncode))
            try: os.remove(exe)
            except OSError: pass
            return res, skip
        # the unit does not build: find the failing cells entry by entry (syntax check only)
        return None, idxs + skip
    with ThreadPoolExecutor(max_workers=vlib.JOBS) as ex:
        outs = list(ex.map(do_unit, units))
    singles = []
    for u, (res, idxs) in zip(units, outs):
        if res is not None: results.update(res)
        singles += [(u, i) for i in idxs]        # a unit that built: only its separately compiled (listed) entries; otherwise all of them
    def do_single(ui):
        (g, sc, st), i = ui
        src, _ = am.unit(g, sc, st, only=i)
        rc, out, _ = build(src, wd, "s_%s_%s_%s_%d" % (g, sc, st, i), link=False)
        return (i, g, sc, st), (rc == 0, "compiles" if rc == 0 else first_error(out))
    if singles:
        nfail = sum(1 for res, _ in outs if res is None)
        log("%d combined units do not build; compiling %d entries one by one (incl. the separately compiled listed cells)" % (nfail, len(singles)))
        with ThreadPoolExecutor(max_workers=vlib.JOBS) as ex:
            for k, v in ex.map(do_single, singles): results[k] = v
    shutil.rmtree(wd, ignore_errors=True)
    return results

def coq_obligation(results, log=print, excused=()):
    """write build/ApiMatrixGen.v (tables + this run's results) and check run_ok with coqc"""
    gnames = list(am.GROUPS); wd = tempfile.mkdtemp(prefix="apigen_", dir=vlib.BUILD)
    def s(x): return '"' + x.replace('"', "'").replace("\\", "/") + '"'
    need = {"mutX": "NeedMutX", "mutW": "NeedMutW", "bin": "NeedBin", "own": "NeedOwn", "rot": "NeedRot", "tra": "NeedTra", "norm": "NeedNorm"}
    L = ["(* regenerated on every run by tools/c19.py: do not edit *)", "From Coq Require Import List Bool Arith String.", "From Manif Require Import ApiMatrix.", "Import ListNotations.", "Open Scope string_scope.",
         "Definition entries : list entry := ["]
    L.append(";\n".join("  mkEntry %d %s [%s]" % (i, s(en[0]), "; ".join(need[n] for n in am.needs_of(en) if n != "same")) for i, en in enumerate(am.ENTRIES)) + "].")
    L.append("Definition groups : list grp := [")
    L.append(";\n".join("  mkGrp %d %s %s %s %s" % (k, s(g), *[str(am.GROUPS[g][1][p]).lower() for p in ("rot", "tra", "norm")]) for k, g in enumerate(gnames)) + "].")
    L.append("Definition results : list (cell * bool) := [")
    rows = []
    for (i, g, sc, st), (ok, why) in sorted(results.items(), key=lambda kv: (kv[0][0], gnames.index(kv[0][1]), kv[0][2], kv[0][3])):
        rows.append("  ((%d, %d, %d, %d), %s)" % (i, gnames.index(g), am.SCALARS.index(sc), am.STORAGES.index(st), "true" if ok else "false"))
    L.append(";\n".join(rows) + "].")
    names = [en[0] for en in am.ENTRIES]
    exc = [(names.index(n), gnames.index(g), am.SCALARS.index(sc), am.STORAGES.index(st)) for (n, g, sc, st) in excused]
    L.append("Definition excused : list cell := [" + "; ".join("(%d, %d, %d, %d)" % c for c in exc) + "].")
    L.append("Example run_ok : matrix_ok_except entries groups excused results = true.\nProof. vm_compute. reflexivity. Qed.")
    L.append("Example run_cells : List.length (all_cells entries groups) = %d%%nat.\nProof. vm_compute. reflexivity. Qed." % len(am.cells()))
    gen = os.path.join(wd, "ApiMatrixGen.v"); open(gen, "w").write("\n".join(L) + "\n")
    rc, out = vlib.sh(["coqc", "-Q", vlib.COQ, "Manif", gen], timeout=900, cwd=wd)
    shutil.rmtree(wd, ignore_errors=True)
    return rc == 0, out
