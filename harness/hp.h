// hp.h — 100-digit binary floating point scalar running manif's templates with the DOUBLE
// thresholds. Used only as a reference to *search* for rounding / cancellation failures.
#pragma once
#include <boost/multiprecision/cpp_bin_float.hpp>
#include <Eigen/Core>
#include <iostream>
namespace vq {
typedef boost::multiprecision::number<boost::multiprecision::cpp_bin_float<100>, boost::multiprecision::et_off> hp_t;
struct hp {
  hp_t v;
  hp() : v(0) {}
  hp(int i) : v(i) {} hp(long i) : v(i) {} hp(unsigned i) : v(i) {} hp(unsigned long i) : v(i) {}
  hp(float d) : v((double)d) {} hp(double d) : v(d) {}
  explicit hp(const hp_t& r) : v(r) {}
  explicit operator double() const { return v.convert_to<double>(); }
  explicit operator float() const { return (float)v.convert_to<double>(); }
  explicit operator int() const { return (int)v.convert_to<double>(); }
};
inline hp operator+(const hp&a,const hp&b){return hp(hp_t(a.v+b.v));}
inline hp operator-(const hp&a,const hp&b){return hp(hp_t(a.v-b.v));}
inline hp operator*(const hp&a,const hp&b){return hp(hp_t(a.v*b.v));}
inline hp operator/(const hp&a,const hp&b){return hp(hp_t(a.v/b.v));}
inline hp operator-(const hp&a){return hp(hp_t(-a.v));}
inline hp operator+(const hp&a){return a;}
inline hp& operator+=(hp&a,const hp&b){a.v+=b.v;return a;}
inline hp& operator-=(hp&a,const hp&b){a.v-=b.v;return a;}
inline hp& operator*=(hp&a,const hp&b){a.v*=b.v;return a;}
inline hp& operator/=(hp&a,const hp&b){a.v/=b.v;return a;}
inline bool operator<(const hp&a,const hp&b){return a.v<b.v;}
inline bool operator>(const hp&a,const hp&b){return a.v>b.v;}
inline bool operator<=(const hp&a,const hp&b){return a.v<=b.v;}
inline bool operator>=(const hp&a,const hp&b){return a.v>=b.v;}
inline bool operator==(const hp&a,const hp&b){return a.v==b.v;}
inline bool operator!=(const hp&a,const hp&b){return a.v!=b.v;}
inline std::ostream& operator<<(std::ostream&o,const hp&a){return o<<a.v;}
#define VQ_HP1(f) inline hp f(const hp&a){ using namespace boost::multiprecision; return hp(hp_t(f(a.v))); }
VQ_HP1(sin) VQ_HP1(cos) VQ_HP1(sqrt) VQ_HP1(acos) VQ_HP1(asin) VQ_HP1(tan) VQ_HP1(floor) VQ_HP1(ceil) VQ_HP1(exp) VQ_HP1(log)
inline hp atan2(const hp&y,const hp&x){ return hp(hp_t(boost::multiprecision::atan2(y.v,x.v))); }
inline hp abs(const hp&a){return a.v<0? -a : a;}
inline hp fabs(const hp&a){return abs(a);}
inline hp abs2(const hp&a){return a*a;}
inline bool isfinite(const hp&a){return boost::multiprecision::isfinite(a.v);}
inline bool isnan(const hp&a){return boost::multiprecision::isnan(a.v);}
inline bool isinf(const hp&a){return boost::multiprecision::isinf(a.v);}
inline hp min(const hp&a,const hp&b){ return (b<a)?b:a; }
inline hp max(const hp&a,const hp&b){ return (a<b)?b:a; }
}
namespace Eigen {
template<> struct NumTraits<vq::hp> : GenericNumTraits<vq::hp> {
  typedef vq::hp Real; typedef vq::hp NonInteger; typedef vq::hp Nested; typedef vq::hp Literal;
  enum { IsComplex=0, IsInteger=0, IsSigned=1, RequireInitialization=1, ReadCost=10, AddCost=50, MulCost=100 };
  static inline Real epsilon(){ return vq::hp(1e-100); }
  static inline Real dummy_precision(){ return vq::hp(1e-90); }
  static inline Real highest(){ return vq::hp(1e300); }
  static inline Real lowest(){ return vq::hp(-1e300); }
  static inline int digits10(){ return 100; }
};
}
#include "manif/constants.h"
#include "manif/impl/traits.h"
namespace manif { namespace internal { template<> struct is_ad<vq::hp> : std::integral_constant<bool,true> {}; } }
namespace manif {
template<> struct Constants<vq::hp> {
  static const vq::hp eps; static const vq::hp eps_sqrt; static const vq::hp to_rad; static const vq::hp to_deg;
};
const vq::hp Constants<vq::hp>::eps      = vq::hp(Constants<double>::eps);
const vq::hp Constants<vq::hp>::eps_sqrt = vq::hp(Constants<double>::eps_sqrt);
const vq::hp Constants<vq::hp>::to_rad   = vq::hp(Constants<double>::to_rad);
const vq::hp Constants<vq::hp>::to_deg   = vq::hp(Constants<double>::to_deg);
}
