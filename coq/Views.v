(* Views.v — model of Eigen::Map views of elements / tangents over a user buffer (impl/*/*_map.h, macro.h assignment
   families): a memory is a list of scalars, a view is an offset (its length is the group's RepSize, resp. DoF); reading
   a view takes the slice, writing through it overwrites exactly the slice.  The operation ids are the ones the harness
   executes through Eigen::Map<G> / Eigen::Map<const G> (harness/views.h). *)
From Coq Require Import ZArith List Bool.
Import ListNotations.
From Manif Require Import Scalar Mat Consts Group Generic Algorithms.

Section Views.
Variable F : Sc.
Variable G : GroupOps F.
Local Notation vec := (list (K F)).

Definition vread (mem : vec) (off : nat) : vec := vslice mem off (g_rep G).
Definition tread (mem : vec) (off : nat) : vec := vslice mem off (g_dof G).
Definition vwrite (mem : vec) (off : nat) (w : vec) : vec := vset mem off w.

(* results, memory afterwards *)
Definition view_op (id : Z) (mem : vec) (off off2 : nat) (Y t : vec) (k : nat) (v : K F) : res (list vec * vec) :=
  let X := vread mem off in let X2 := vread mem off2 in
  match id with
  | 0%Z => Ok ([g_inverse G X], mem)
  | 1%Z => Ok ([g_log G X], mem)
  | 2%Z => Ok ([g_compose G X Y], mem)
  | 3%Z => Ok ([g_compose G Y X], mem)
  | 4%Z => Ok ([rplus_v G X t], mem)
  | 5%Z => Ok ([g_compose G (g_inverse G X) Y], mem)
  | 6%Z => Ok ([concat (g_adj G X)], mem)
  | 8%Z => Ok ([rminus_v G X Y], mem)
  | 9%Z => Ok ([concat (g_transform G X)], mem)
  | 20%Z => Ok ([X], mem)                                        (* owning Z = view *)
  | 10%Z => Ok ([], vwrite mem off Y)                            (* view = owning *)
  | 11%Z => Ok ([], vwrite mem off (g_identity G))               (* setIdentity *)
  | 12%Z => Ok ([], vwrite mem off (rplus_v G X t))              (* view += t *)
  | 13%Z => Ok ([], vwrite mem off (g_compose G X Y))            (* view *= Y *)
  | 14%Z => Ok ([], vwrite mem off (g_normalize G X))            (* normalize() *)
  | 15%Z => Ok ([], vwrite mem (off + k) [v])                    (* coeffs()(k) = v *)
  | 16%Z => Ok ([], vwrite mem off (g_inverse G X))              (* view = view.inverse() *)
  | 17%Z | 18%Z | 19%Z => Ok ([], vwrite mem off X2)             (* view = other view (copy / move / from a const view) *)
  | 21%Z => Ok ([], vwrite mem off (g_compose G X X2))           (* view = view.compose(other view) *)
  | 22%Z => Ok ([], vwrite mem off Y)                            (* view = std::move(owning) *)
  | 30%Z => Ok ([g_exp G (tread mem off)], mem)
  | 31%Z => Ok ([], vwrite mem off (vadd (tread mem off) t))
  | 32%Z => Ok ([], vwrite mem off (vzero (g_dof G)))
  | 33%Z => Ok ([], vwrite mem off t)
  | 34%Z => Ok ([], vwrite mem off (tread mem off2))
  | 35%Z => Ok ([concat (g_hat G (tread mem off))], mem)
  | 36%Z => Ok ([], vwrite mem off (vscale_r (tread mem off) v))
  | _ => LogicError
  end.
End Views.
Arguments view_op {F}. Arguments vread {F}. Arguments tread {F}. Arguments vwrite {F}.
