(* AdjExp_SO3.v — property C06 for SO3 (generic branch): Adj(exp t) = ljac(t) * rjacinv(t).  Adj(exp t) is the rotation
   matrix of the quaternion exp builds (through angle-axis, as the code does) = Rodrigues' I + (sin th/th) W +
   ((1-cos th)/th^2) W^2; ljac and rjacinv are polynomials in W (JacInv_SO3.v); the product's coefficients reduce by
   sin^2 + cos^2 = 1. *)
From Coq Require Import Reals ZArith List Lra.
From Manif Require Import Scalar Mat Consts Group RInst Tac SO3 JacInv_SO3.
Import ListNotations.
Local Open Scope R_scope.

Section P.
Variable eps : R.
Hypothesis eps_pos : 0 < eps.

Lemma so3_exp_rodrigues x y z : eps < x * x + y * y + z * z ->
  let th2 := x * x + y * y + z * z in let th := sqrt th2 in
  so3_rotation RS (so3_exp RS eps [x; y; z]) = poly3 x y z (sin th / th) ((1 - cos th) / th2).
Proof.
  intros Hgt. cbv zeta. set (n := x * x + y * y + z * z) in *.
  assert (Hn : 0 < n) by lra. set (phi := sqrt n).
  assert (Hphi : phi <> 0) by (unfold phi; intros H0; apply sqrt_eq_0 in H0; lra).
  assert (Hphi2 : phi * phi = n) by (unfold phi; rewrite sqrt_sqrt by lra; reflexivity).
  assert (Hsq : @sqnorm RS [x; y; z] = n) by (unfold n; mat_unfold; ring).
  unfold so3_exp, so3_rotation. rewrite Hsq. unfold kgtb. cbn [kltb RS]. rewrite (Rltb_lt_true eps n Hgt).
  unfold quat_of_angle_axis, eigen_normalized. rewrite Hsq. unfold kgtb. cbn [kltb RS k0].
  rewrite (Rltb_lt_true 0 n Hn). cbn [ksqrt RS]. fold phi.
  set (h := @kmul RS c_half phi).
  assert (Hs : sin phi = 2 * sin h * cos h).
  { replace phi with (2 * h) at 1 by (unfold h, c_half; cbn; field). apply sin_2a. }
  assert (Hc : cos phi = 1 - 2 * sin h * sin h).
  { replace phi with (2 * h) at 1 by (unfold h, c_half; cbn; field). apply cos_2a_sin. }
  rewrite Hs, Hc. cbn [ksin kcos RS]. set (sh := sin h). set (ch := cos h). clearbody sh ch.
  assert (Hpp : phi * phi <> 0) by nra.
  unfold poly3, quat_matrix, qx, qy, qz, qw. mat_unfold. rewrite <- Hphi2. meq; field_simplify_eq; try (split; assumption); try exact Hphi; try ring.
Qed.

Lemma adj_coeff_identities th S C : th <> 0 -> S <> 0 -> S * S + C * C = 1 ->
  let th2 := th * th in let a := (1 - C) / th2 in let b := (th - S) / (th2 * th) in let a' := 1 / 2 in let b' := 1 / th2 - (1 + C) / (2 * th * S) in
  a + a' - th2 * (a * b' + b * a') = S / th /\ b + b' + a * a' - th2 * (b * b') = (1 - C) / th2.
Proof.
  intros Hth HS H. cbv zeta. assert (HS2 : S * S = 1 - C * C) by lra. split.
  - field_simplify_eq; [|split; assumption]. replace (S ^ 2) with (1 - C * C) by (rewrite <- HS2; ring). ring.
  - field_simplify_eq; [|split; assumption]. replace (S ^ 2) with (1 - C * C) by (rewrite <- HS2; ring). ring.
Qed.

Theorem so3_adj_exp x y z : eps < x * x + y * y + z * z -> sin (sqrt (x * x + y * y + z * z)) <> 0 ->
  so3_adj RS (so3_exp RS eps [x; y; z]) = @mmul RS (so3_ljac RS eps [x; y; z]) (so3_rjacinv RS eps [x; y; z]).
Proof.
  intros H HS. unfold so3_adj, so3_rjacinv. rewrite (so3_exp_rodrigues x y z H), (so3_ljac_poly eps x y z H), (so3_ljacinv_poly eps x y z H).
  cbv zeta. rewrite mT_poly3, poly3_mul.
  set (th2 := x * x + y * y + z * z) in *. set (th := sqrt th2) in *.
  assert (Hth2 : 0 < th2) by lra. assert (Hth : 0 < th) by (apply sqrt_lt_R0; exact Hth2). assert (Hsq : th * th = th2) by (apply sqrt_sqrt; lra).
  assert (Hsc : sin th * sin th + cos th * cos th = 1) by (replace (sin th * sin th + cos th * cos th) with ((sin th)² + (cos th)²) by (unfold Rsqr; ring); apply sin2_cos2).
  destruct (adj_coeff_identities th (sin th) (cos th) ltac:(lra) HS Hsc) as [E1 E2]. cbv zeta in E1, E2. rewrite Hsq in E1, E2.
  f_equal.
  - etransitivity; [symmetry; exact E1|]. ring.
  - etransitivity; [symmetry; exact E2|]. ring.
Qed.
End P.
