(* Tac.v — proof tactics shared by all proof files (no definitions of the model). *)
From Coq Require Import Reals ZArith List Lra Nsatz.
From Manif Require Import Scalar Mat Consts Group RInst.
Import ListNotations.
Local Open Scope R_scope.

(* unfold the matrix/vector layer and the RS instance down to expressions over R *)
Ltac mat_unfold :=
  cbv [vnth mnth vmap2 vadd vsub vneg vscale vscale_r vdivs dot sqnorm vzero mzero unitv mid mconst
       mmap2 madd msub mneg mscale mscale_r col mtrans ncols mT mvmul mmul vslice mblock vset mset_rows
       mset_block hcat vcat bdiag colvec flatten skew3 cross3 outer trace
       List.nth map seq repeat firstn skipn app length fold_right Nat.eqb Nat.add concat
       kz ksq kabs kgtb kleb kgeb keqb kmin kmax];
  cbn [K RS k0 k1 kadd ksub kmul kdiv kopp kltb klit ksin kcos ksqrt kacos katan2].
Ltac mat_unfold_in H :=
  cbv [vnth mnth vmap2 vadd vsub vneg vscale vscale_r vdivs dot sqnorm vzero mzero unitv mid mconst
       mmap2 madd msub mneg mscale mscale_r col mtrans ncols mT mvmul mmul vslice mblock vset mset_rows
       mset_block hcat vcat bdiag colvec flatten skew3 cross3 outer trace
       List.nth map seq repeat firstn skipn app length fold_right Nat.eqb Nat.add concat
       kz ksq kabs kgtb kleb kgeb keqb kmin kmax] in H;
  cbn [K RS k0 k1 kadd ksub kmul kdiv kopp kltb klit ksin kcos ksqrt kacos katan2] in H.

(* split an equation between concrete lists (of lists) into scalar goals *)
Ltac list_eq :=
  repeat match goal with
  | |- @eq (list ?A) (_ :: _) (_ :: _) => apply (f_equal2 (@cons A))
  | |- @eq (list _) [] [] => reflexivity
  end;
  try match goal with |- @eq _ ?a ?b => change (@eq R a b) end.

(* close a polynomial goal, possibly modulo one "norm = 1" hypothesis *)
Ltac ring1 H := first [ ring | rewrite <- H; ring | lra | nsatz | nra ].

Lemma Rltb_lt_false a b : b <= a -> Rltb a b = false.
Proof. apply Rltb_false. Qed.
Lemma Rltb_lt_true a b : a < b -> Rltb a b = true.
Proof. apply Rltb_true. Qed.

(* the renormalisation test |n2 - 1| > eps is false when n2 = 1 *)
Lemma renorm_test_unit eps : 0 < eps -> Rltb eps (if Rltb (1 - 1) 0 then - (1 - 1) else 1 - 1) = false.
Proof.
  intros He. replace (1 - 1) with 0 by ring.
  rewrite (Rltb_lt_false 0 0) by lra. apply Rltb_lt_false; lra.
Qed.
