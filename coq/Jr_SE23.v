(* Jr_SE23.v — property C05 for SE_2(3): rjac(t) is the right Jacobian of exp at t (generic branch).  The translation and the
   velocity of exp(t) are V(theta) rho and V(theta) nu; along h -> t + h d their derivatives at h = 0 are R(exp t) u_rho and
   R(exp t) u_nu, where u = rjac(t) d, u_rho = Jr d_rho + Q(-rho,-theta) d_theta its first block and
   u_nu = Q(-nu,-theta) d_theta + Jr d_nu its last block; the middle block of u is the SO3 right Jacobian applied to d_theta
   (Jr_SO3).  Same closed forms and derivative lemmas as Jr_SE3. *)
From Coq Require Import Reals ZArith List Lra Psatz Lia.
From Coquelicot Require Import Coquelicot.
From Manif Require Import Scalar Mat Consts Group RInst Tac SO3 SE3 SE23 JacInv_SO3 AdjExp_SO3 Jr_SO3 Jr_SE3.
Import ListNotations.
Local Open Scope R_scope.

Section P.
Variable eps : R.
Hypothesis eps_pos : 0 < eps.

Definition exp23 (a b c x y z d e f : R) (k : nat) : R := nth k (se23_exp RS eps [a; b; c; x; y; z; d; e; f]) 0.
Definition rjac23 (a b c x y z d e f da db dc dx dy dz dd de df : R) : list R :=
  @mvmul RS (se23_rjac RS eps [a; b; c; x; y; z; d; e; f]) [da; db; dc; dx; dy; dz; dd; de; df].

Lemma exp23_shape a b c x y z d e f : eps < x * x + y * y + z * z ->
  exists q0 q1 q2 q3, se23_exp RS eps [a; b; c; x; y; z; d; e; f] =
    [vrho 0 a b c x y z; vrho 1 a b c x y z; vrho 2 a b c x y z; q0; q1; q2; q3; vrho 0 d e f x y z; vrho 1 d e f x y z; vrho 2 d e f x y z].
Proof.
  intros H. unfold se23_exp, se23t_ang, se23t_lin, se23t_lin2. cbv zeta. cbn [vslice skipn firstn]. cbn [K RS].
  assert (Hq : exists q0 q1 q2 q3, so3_exp RS eps [x; y; z] = [q0; q1; q2; q3]).
  { unfold so3_exp. destruct (kgtb _ _); [|do 4 eexists; reflexivity].
    unfold quat_of_angle_axis, eigen_normalized. destruct (kgtb _ _); do 4 eexists; reflexivity. }
  destruct Hq as (q0 & q1 & q2 & q3 & ->). exists q0, q1, q2, q3.
  rewrite (so3_ljac_poly eps x y z H). cbv zeta. unfold vrho, g2, g3, th_of, poly3.
  set (n := x * x + y * y + z * z) in *. assert (Hn : 0 < n) by lra.
  assert (Hth : sqrt n <> 0) by (apply Rgt_not_eq; apply sqrt_lt_R0; exact Hn).
  assert (Hsq : sqrt n * sqrt n = n) by (apply sqrt_sqrt; lra).
  set (t := sqrt n) in *. clearbody t. clearbody n. mat_unfold. rewrite <- Hsq.
  match goal with |- @eq _ ?u ?v => change (@eq (list R) u v) end. list_eq; try reflexivity; field; exact Hth.
Qed.

Lemma rjac23_blocks a b c x y z d e f da db dc dx dy dz dd de df : eps < x * x + y * y + z * z ->
  rjac23 a b c x y z d e f da db dc dx dy dz dd de df =
  urho a b c x y z da db dc dx dy dz ++ @mvmul RS (so3_rjac RS eps [x; y; z]) [dx; dy; dz] ++ urho d e f x y z dd de df dx dy dz.
Proof.
  intros H. unfold rjac23, se23_rjac, se23t_ang, se23t_lin2. cbn [vslice skipn firstn]. cbn [K RS].
  assert (Hneg : eps < - x * - x + - y * - y + - z * - z) by (replace (- x * - x + - y * - y + - z * - z) with (x * x + y * y + z * z) by ring; exact H).
  change (@vneg RS [a; b; c; x; y; z]) with [- a; - b; - c; - x; - y; - z].
  change (@vneg RS [d; e; f] ++ @vneg RS [x; y; z]) with [- d; - e; - f; - x; - y; - z].
  rewrite (fillQ_generic eps eps_pos (- a) (- b) (- c) (- x) (- y) (- z) Hneg), (fillQ_generic eps eps_pos (- d) (- e) (- f) (- x) (- y) (- z) Hneg).
  replace (- x * - x + - y * - y + - z * - z) with (x * x + y * y + z * z) by ring.
  unfold so3_rjac. rewrite (so3_ljac_poly eps x y z H). cbv zeta. rewrite mT_poly3.
  unfold urho, g2, g3, th_of.
  set (n := x * x + y * y + z * z) in *. assert (Hn : 0 < n) by lra.
  assert (Hth : sqrt n <> 0) by (apply Rgt_not_eq; apply sqrt_lt_R0; exact Hn).
  assert (Hsq : sqrt n * sqrt n = n) by (apply sqrt_sqrt; lra).
  set (t := sqrt n) in *.
  assert (E1 : - ((1 - cos t) / n) = - ((1 - cos t) / (t * t))) by (rewrite Hsq; reflexivity).
  assert (E2 : (t - sin t) / (n * t) = (t - sin t) / (t * t * t)) by (rewrite <- Hsq; field; exact Hth).
  rewrite E1, E2.
  set (J := poly3 x y z (- ((1 - cos t) / (t * t))) ((t - sin t) / (t * t * t))).
  set (Q1 := Qcf t (- a) (- b) (- c) (- x) (- y) (- z)). set (Q2 := Qcf t (- d) (- e) (- f) (- x) (- y) (- z)).
  assert (HJ : exists j1 j2 j3 j4 j5 j6 j7 j8 j9, J = [[j1; j2; j3]; [j4; j5; j6]; [j7; j8; j9]]) by (unfold J, poly3; mat_unfold; do 9 eexists; reflexivity).
  assert (HQ1 : exists j1 j2 j3 j4 j5 j6 j7 j8 j9, Q1 = [[j1; j2; j3]; [j4; j5; j6]; [j7; j8; j9]]) by (unfold Q1, Qcf; mat_unfold; do 9 eexists; reflexivity).
  assert (HQ2 : exists j1 j2 j3 j4 j5 j6 j7 j8 j9, Q2 = [[j1; j2; j3]; [j4; j5; j6]; [j7; j8; j9]]) by (unfold Q2, Qcf; mat_unfold; do 9 eexists; reflexivity).
  destruct HJ as (j1 & j2 & j3 & j4 & j5 & j6 & j7 & j8 & j9 & ->). destruct HQ1 as (q1 & q2 & q3 & q4 & q5 & q6 & q7 & q8 & q9 & ->).
  destruct HQ2 as (p1 & p2 & p3 & p4 & p5 & p6 & p7 & p8 & p9 & ->).
  unfold se23_jblocks. mat_unfold. match goal with |- @eq _ ?u ?v => change (@eq (list R) u v) end. list_eq; ring.
Qed.

Theorem se23_rjac_is_derivative a b c x y z d e f da db dc dx dy dz dd de df i : eps < x * x + y * y + z * z -> (i < 3)%nat ->
  let R := so3_rotation RS (so3_exp RS eps [x; y; z]) in
  let u := rjac23 a b c x y z d e f da db dc dx dy dz dd de df in
  is_derive (fun h => exp23 (a + h * da) (b + h * db) (c + h * dc) (x + h * dx) (y + h * dy) (z + h * dz) (d + h * dd) (e + h * de) (f + h * df) i) 0
            (nth i (@mvmul RS R (firstn 3 u)) 0) /\
  is_derive (fun h => exp23 (a + h * da) (b + h * db) (c + h * dc) (x + h * dx) (y + h * dy) (z + h * dz) (d + h * dd) (e + h * de) (f + h * df) (7 + i)) 0
            (nth i (@mvmul RS R (skipn 6 u)) 0).
Proof.
  intros H Hi. cbv zeta.
  assert (Hloc : locally 0 (fun h => eps < (x + h * dx) * (x + h * dx) + (y + h * dy) * (y + h * dy) + (z + h * dz) * (z + h * dz))).
  { assert (Hc : continuous (fun h => (x + h * dx) * (x + h * dx) + (y + h * dy) * (y + h * dy) + (z + h * dz) * (z + h * dz)) 0).
    { apply (ex_derive_continuous (fun h : R => (x + h * dx) * (x + h * dx) + (y + h * dy) * (y + h * dy) + (z + h * dz) * (z + h * dz))). auto_derive. exact I. }
    apply Hc. apply (open_gt eps). rewrite !Rmult_0_l, !Rplus_0_r. exact H. }
  assert (Hn : 0 < x * x + y * y + z * z) by lra.
  rewrite (rjac23_blocks a b c x y z d e f da db dc dx dy dz dd de df H).
  assert (Hu : forall p q r dp dq dr, exists u0 u1 u2, urho p q r x y z dp dq dr dx dy dz = [u0; u1; u2]).
  { intros. unfold urho, Qcf, poly3. mat_unfold. do 3 eexists. reflexivity. }
  assert (Hm : exists m0 m1 m2 : R, @mvmul RS (so3_rjac RS eps [x; y; z]) [dx; dy; dz] = [m0; m1; m2]).
  { unfold so3_rjac. rewrite (so3_ljac_poly eps x y z H). cbv zeta. rewrite mT_poly3. unfold poly3. mat_unfold. do 3 eexists. reflexivity. }
  destruct (Hu a b c da db dc) as (u0 & u1 & u2 & Eu). destruct (Hu d e f dd de df) as (w0 & w1 & w2 & Ew). destruct Hm as (m0 & m1 & m2 & Em).
  cbn [K RS] in *. rewrite Em, Eu, Ew. cbn [app firstn skipn]. rewrite <- Eu, <- Ew.
  rewrite (so3_exp_rodrigues eps eps_pos x y z H). cbv zeta.
  assert (ER : forall p q r dp dq dr k, nth k (@mvmul RS (poly3 x y z (sin (sqrt (x * x + y * y + z * z)) / sqrt (x * x + y * y + z * z)) ((1 - cos (sqrt (x * x + y * y + z * z))) / (x * x + y * y + z * z))) (urho p q r x y z dp dq dr dx dy dz)) 0
                                        = rurho k p q r x y z dp dq dr dx dy dz).
  { intros. unfold rurho, g1, g2, th_of. rewrite sqrt_sqrt by lra. reflexivity. }
  rewrite !ER.
  split.
  - apply (is_derive_ext_loc (fun h => vrho i (a + h * da) (b + h * db) (c + h * dc) (x + h * dx) (y + h * dy) (z + h * dz))).
    { apply (filter_imp (fun h => eps < (x + h * dx) * (x + h * dx) + (y + h * dy) * (y + h * dy) + (z + h * dz) * (z + h * dz))); [|exact Hloc].
      intros h Hh. unfold exp23. destruct (exp23_shape (a + h * da) (b + h * db) (c + h * dc) (x + h * dx) (y + h * dy) (z + h * dz) (d + h * dd) (e + h * de) (f + h * df) Hh) as (q0 & q1 & q2 & q3 & ->).
      destruct i as [|[|[|i]]]; [| | |exfalso; lia]; reflexivity. }
    destruct i as [|[|[|i]]]; [| | |exfalso; lia]; [apply dv0|apply dv1|apply dv2]; exact Hn.
  - apply (is_derive_ext_loc (fun h => vrho i (d + h * dd) (e + h * de) (f + h * df) (x + h * dx) (y + h * dy) (z + h * dz))).
    { apply (filter_imp (fun h => eps < (x + h * dx) * (x + h * dx) + (y + h * dy) * (y + h * dy) + (z + h * dz) * (z + h * dz))); [|exact Hloc].
      intros h Hh. unfold exp23. destruct (exp23_shape (a + h * da) (b + h * db) (c + h * dc) (x + h * dx) (y + h * dy) (z + h * dz) (d + h * dd) (e + h * de) (f + h * df) Hh) as (q0 & q1 & q2 & q3 & ->).
      destruct i as [|[|[|i]]]; [| | |exfalso; lia]; reflexivity. }
    destruct i as [|[|[|i]]]; [| | |exfalso; lia]; [apply dv0|apply dv1|apply dv2]; exact Hn.
Qed.
End P.
