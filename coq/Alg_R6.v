(* Alg_R6.v — AlgLaws (AlgSpec.v, property C07) for the R6 model at the real instance; one lemma per field. *)
From Coq Require Import Reals ZArith List Lra Lia.
From Manif Require Import Scalar Mat Consts Group RInst Tac SO2 SE2 SO3 SE3 SE23 SGal3 Rn Generic LieSpec AlgSpec RnProofs AlgTac.
Import ListNotations.
Local Open Scope R_scope.
Ltac Zify.zify_post_hook ::= Z.div_mod_to_equations.
Lemma R6_gen_ok : forall i, (i < g_dof (Rn RS 6))%nat -> g_generator (Rn RS 6) (Z.of_nat i) = Ok (g_hat (Rn RS 6) (@unitv RS (g_dof (Rn RS 6)) i)).
Proof. gen_ok. Qed.
Lemma R6_gen_oob : forall i, int_range i -> (i < 0 \/ Z.of_nat (g_dof (Rn RS 6)) <= i)%Z -> g_generator (Rn RS 6) i = InvalidArgument.
Proof. gen_oob. Qed.
Lemma R6_hat_gen : forall t, length t = g_dof (Rn RS 6) -> g_hat (Rn RS 6) t = lincomb (g_dof (Rn RS 6)) (g_alg (Rn RS 6)) t (fun i => g_hat (Rn RS 6) (@unitv RS (g_dof (Rn RS 6)) i)).
Proof. intros t Ht; destruct_len t Ht; rcbv; list_eq; ring. Qed.
Lemma R6_hat_linear : forall a b c, length a = g_dof (Rn RS 6) -> length b = g_dof (Rn RS 6) -> g_hat (Rn RS 6) (@vadd RS a (@vscale RS c b)) = @madd RS (g_hat (Rn RS 6) a) (@mscale RS c (g_hat (Rn RS 6) b)).
Proof. intros a b c Ha Hb; destruct_len a Ha; destruct_len b Hb; rcbv; list_eq; ring. Qed.
Lemma R6_vee_hat : forall t, length t = g_dof (Rn RS 6) -> g_vee (Rn RS 6) (g_hat (Rn RS 6) t) = t.
Proof. intros t Ht; destruct_len t Ht; rcbv; list_eq; ring. Qed.
Lemma R6_bracket : forall a b, length a = g_dof (Rn RS 6) -> length b = g_dof (Rn RS 6) -> g_hat (Rn RS 6) (g_bracket (Rn RS 6) a b) = commutator (g_hat (Rn RS 6) a) (g_hat (Rn RS 6) b).
Proof. intros a b Ha Hb; destruct_len a Ha; destruct_len b Hb; rcbv; list_eq; ring. Qed.
Lemma R6_bracket_len : forall a b, length a = g_dof (Rn RS 6) -> length b = g_dof (Rn RS 6) -> length (g_bracket (Rn RS 6) a b) = g_dof (Rn RS 6).
Proof. intros a b Ha Hb; destruct_len a Ha; destruct_len b Hb; reflexivity. Qed.
Lemma R6_antisym : forall a b, length a = g_dof (Rn RS 6) -> length b = g_dof (Rn RS 6) -> g_bracket (Rn RS 6) a b = @vneg RS (g_bracket (Rn RS 6) b a).
Proof. intros a b Ha Hb; destruct_len a Ha; destruct_len b Hb; rcbv; list_eq; ring. Qed.
Lemma R6_linear_l : forall a b c d, length a = g_dof (Rn RS 6) -> length b = g_dof (Rn RS 6) -> length d = g_dof (Rn RS 6) -> g_bracket (Rn RS 6) (@vadd RS a (@vscale RS c b)) d = @vadd RS (g_bracket (Rn RS 6) a d) (@vscale RS c (g_bracket (Rn RS 6) b d)).
Proof. intros a b c d Ha Hb Hd; destruct_len a Ha; destruct_len b Hb; destruct_len d Hd; rcbv; list_eq; ring. Qed.
Lemma R6_jacobi : forall a b c, length a = g_dof (Rn RS 6) -> length b = g_dof (Rn RS 6) -> length c = g_dof (Rn RS 6) -> @vadd RS (@vadd RS (g_bracket (Rn RS 6) a (g_bracket (Rn RS 6) b c)) (g_bracket (Rn RS 6) b (g_bracket (Rn RS 6) c a))) (g_bracket (Rn RS 6) c (g_bracket (Rn RS 6) a b)) = @vzero RS (g_dof (Rn RS 6)).
Proof. intros a b c Ha Hb Hc; destruct_len a Ha; destruct_len b Hb; destruct_len c Hc; rcbv; list_eq; ring. Qed.
Lemma R6_inner_frob : forall a b, length a = g_dof (Rn RS 6) -> length b = g_dof (Rn RS 6) -> t_inner (Rn RS 6) a b = @trace RS (@mmul RS (g_hat (Rn RS 6) a) (@mT RS (g_hat (Rn RS 6) b))).
Proof. intros a b Ha Hb; destruct_len a Ha; destruct_len b Hb; rcbv; match goal with |- @eq _ ?x ?y => change (@eq R x y) end; ring. Qed.
Lemma R6_w_sym : @mT RS (g_innerweights (Rn RS 6)) = g_innerweights (Rn RS 6).
Proof. rcbv; list_eq; ring. Qed.
Lemma R6_w_pos : forall t, length t = g_dof (Rn RS 6) -> 0 <= t_inner (Rn RS 6) t t.
Proof. intros t Ht; destruct_len t Ht; rcbv; nra. Qed.
Lemma R6_w_def : forall t, length t = g_dof (Rn RS 6) -> t_inner (Rn RS 6) t t = 0 -> t = @vzero RS (g_dof (Rn RS 6)).
Proof. intros t Ht; destruct_len t Ht; rcbv; intros H0; list_eq; apply sq0; nra. Qed.
Lemma R6_wnorm : forall t, length t = g_dof (Rn RS 6) -> t_wnorm (Rn RS 6) t * t_wnorm (Rn RS 6) t = t_sqwnorm (Rn RS 6) t.
Proof. intros t Ht; unfold t_wnorm; cbn [ksqrt RS]; apply sqrt_sqrt; unfold t_sqwnorm; destruct_len t Ht; rcbv; nra. Qed.
Lemma R6_alg : AlgLaws (Rn RS 6).
Proof.
  constructor; [apply R6_gen_ok | apply R6_gen_oob | apply R6_hat_gen | apply R6_hat_linear | apply R6_vee_hat | apply R6_bracket | apply R6_bracket_len | apply R6_antisym | apply R6_linear_l | apply R6_jacobi | apply R6_inner_frob | apply R6_w_sym | apply R6_w_pos | apply R6_w_def | apply R6_wnorm].
Qed.
