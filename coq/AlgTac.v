(* AlgTac.v — tactics used to prove AlgLaws (AlgSpec.v) per group. *)
From Coq Require Import Reals ZArith List Lra Lia.
From Manif Require Import Scalar Mat Consts Group RInst Tac SO2 SE2 SO3 SE3 SE23 SGal3 Rn Generic AlgSpec RnProofs.
Import ListNotations.
Local Open Scope R_scope.

Ltac Zify.zify_post_hook ::= Z.div_mod_to_equations.

(* compute everything except the real-number primitives *)
Ltac rcbv := cbn [K RS] in *; cbv - [Rplus Rminus Rmult Rdiv Ropp Rinv IZR sqrt sin cos atan acos PI Rlt_dec Rle_dec Rabs Rle Rlt Rge Rgt].
Ltac rcbv_in H := cbv - [Rplus Rminus Rmult Rdiv Ropp Rinv IZR sqrt sin cos atan acos PI Rlt_dec Rle_dec Rabs Rle Rlt Rge Rgt] in H.

Lemma sq0 x : x * x = 0 -> x = 0.
Proof. intros H. destruct (Rmult_integral _ _ H); assumption. Qed.

Lemma unsigned_oob dof i : int_range i -> (0 <= dof < 1000)%Z -> (i < 0 \/ dof <= i)%Z ->
  (dof <= to_unsigned32 i)%Z.
Proof. unfold int_range, to_unsigned32. intros. lia. Qed.

(* Generator(i) for an out-of-range int: the index wraps to an unsigned >= DoF and hits `default` *)
Ltac gen_oob :=
  let i := fresh "i" in let Hr := fresh "Hr" in let Hi := fresh "Hi" in let Hu := fresh "Hu" in
  intros i Hr Hi;
  match type of Hi with (_ \/ (?d <= _)%Z) =>
    let H0 := fresh in assert (H0 : (0 <= d < 1000)%Z) by (simpl; lia);
    pose proof (unsigned_oob d i Hr H0 Hi) as Hu; simpl in Hu; clear H0 end;
  cbn [g_generator SO2 SE2 SO3 SE3 SE23 SGal3 Rn];
  unfold so2_generator, se2_generator, so3_generator, se3_generator, se23_generator, sg_generator, rn_generator;
  generalize dependent (to_unsigned32 i); clear;
  let u := fresh "u" in intros u Hu;
  first [ match goal with |- context [Z.ltb ?a ?b] => destruct (Z.ltb_spec a b); [lia | reflexivity] end
        | match goal with |- context [Z.eqb ?a ?b] => destruct (Z.eqb_spec a b); [lia | reflexivity] end
        | destruct u as [|p|p]; try lia; try reflexivity;
          do 8 (try (destruct p as [p|p|]; try lia; try reflexivity)) ].

Ltac gen_ok_loop i Hi :=
  first [ exfalso; lia
        | destruct i as [|i]; [rcbv; apply f_equal; list_eq; ring | gen_ok_loop i Hi] ].
Ltac gen_ok :=
  let i := fresh "i" in let Hi := fresh "Hi" in
  intros i Hi; cbn [g_dof SO2 SE2 SO3 SE3 SE23 SGal3 Rn] in Hi; gen_ok_loop i Hi.

Ltac sq_facts t :=
  match t with
  | ?x :: ?r => pose proof (Rle_0_sqr x); sq_facts r
  | _ => idtac
  end.

