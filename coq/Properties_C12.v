(* Properties_C12.v — property C12: generic in the scalar — dual numbers differentiate every operation correctly.
   The scalar-generic model instantiated at DS S (Dual.v) IS the model of manif over a dual-number scalar.
   Closed: (i) primal transparency of the scalar layer, for any base scalar: every operation and every comparison of
   DS S acts on primal parts exactly as S does, literals have zero dual part (so every branch taken, and every primal
   value computed, by any model function over DS S is the one taken / computed over S); (ii) over the reals each lifted
   operation carries the derivative, and by induction forward mode is sound for every expression over the scalar
   operations under the side conditions that make it differentiable (C12_forward_mode_sound).
   Partial: the model functions are Gallina functions over the scalar record, not values of the expression type, so
   (ii) applies to them only operation by operation (no reflection of Gallina into `expr` is built), and atan2 / acos
   are not in the expression language; "dual derivative = analytic Jacobian" for every operation is evaluated on the
   implementation on every run (exactly over dual rationals against the model's DS instance, and in double). *)
From Coq Require Import Reals ZArith List Lra.
From Coquelicot Require Import Coquelicot.
From Manif Require Import Scalar RInst Dual DualProofs.
Import ListNotations.
Local Open Scope R_scope.

Theorem C12_primal_arith (S : Sc) x y :
  fst (kadd (DS S) x y) = kadd S (fst x) (fst y) /\ fst (ksub (DS S) x y) = ksub S (fst x) (fst y) /\
  fst (kmul (DS S) x y) = kmul S (fst x) (fst y) /\ fst (kdiv (DS S) x y) = kdiv S (fst x) (fst y) /\
  fst (kopp (DS S) x) = kopp S (fst x).
Proof. repeat split. Qed.
Theorem C12_primal_compare (S : Sc) x y : kltb (DS S) x y = kltb S (fst x) (fst y).
Proof. exact (primal_ltb S x y). Qed.
Theorem C12_primal_functions (S : Sc) x y :
  fst (ksin (DS S) x) = ksin S (fst x) /\ fst (kcos (DS S) x) = kcos S (fst x) /\ fst (ksqrt (DS S) x) = ksqrt S (fst x) /\
  fst (kacos (DS S) x) = kacos S (fst x) /\ fst (katan2 (DS S) y x) = katan2 S (fst y) (fst x).
Proof. repeat split. Qed.
Theorem C12_primal_literals (S : Sc) n d : klit (DS S) n d = (klit S n d, k0 S).
Proof. reflexivity. Qed.
Theorem C12_primal_abs_min (S : Sc) x y : fst (@kabs (DS S) x) = @kabs S (fst x) /\ fst (@kmin (DS S) x y) = @kmin S (fst x) (fst y).
Proof. split; [exact (primal_abs S x)|exact (primal_min S x y)]. Qed.

Theorem C12_tracks_mul f g x y : tracks f x -> tracks g y -> tracks (fun s => f s * g s) (kmul (DS RS) x y).
Proof. exact (tracks_mul f g x y). Qed.
Theorem C12_tracks_div f g x y : tracks f x -> tracks g y -> fst y <> 0 -> tracks (fun s => f s / g s) (kdiv (DS RS) x y).
Proof. exact (tracks_div f g x y). Qed.
Theorem C12_tracks_sin f x : tracks f x -> tracks (fun s => sin (f s)) (ksin (DS RS) x).
Proof. exact (tracks_sin f x). Qed.
Theorem C12_tracks_cos f x : tracks f x -> tracks (fun s => cos (f s)) (kcos (DS RS) x).
Proof. exact (tracks_cos f x). Qed.
Theorem C12_tracks_sqrt f x : tracks f x -> 0 < fst x -> tracks (fun s => sqrt (f s)) (ksqrt (DS RS) x).
Proof. exact (tracks_sqrt f x). Qed.

(* forward mode: value and directional derivative of any expression over + - * / sin cos sqrt *)
Theorem C12_forward_mode_sound (e : expr) (x dx : list R) : length x = length dx -> defined x e ->
  eval RS (fun c => c) (line x dx 0) e = fst (eval (DS RS) (fun c => (c, 0)) (dual_env x dx) e) /\
  is_derive (fun s => eval RS (fun c => c) (line x dx s) e) 0 (snd (eval (DS RS) (fun c => (c, 0)) (dual_env x dx) e)).
Proof. exact (forward_mode_sound e x dx). Qed.
Print Assumptions C12_forward_mode_sound.

(* non-vacuity: d/ds [ sqrt((2+s)*(2+s) + 5) / (cos(2+s) + 3) ] at 0 is computed by evaluation over dual numbers *)
Example C12_example : defined [2] (EDiv (ESqrt (EAdd (EMul (EVar 0) (EVar 0)) (EConst 5))) (EAdd (ECos (EVar 0)) (EConst 3))).
Proof. cbn. repeat split; try lra. pose proof (COS_bound 2). lra. Qed.
