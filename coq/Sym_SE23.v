(* Sym_SE23.v — property C18 for SE_2(3): isApprox is symmetric whenever the relative element is on the closed-form branch of
   log and not a half turn: log(Z^-1) = -log(Z), the translation and the velocity block each by Sym_SE3.ljacinv_conj_block. *)
From Coq Require Import Reals ZArith List Lra Psatz.
From Manif Require Import Scalar Mat Consts Group RInst Tac Atan2 SO3 SE3 SE23 Generic LieSpec SO3Proofs SE23Proofs Log_SO3 JacInv_SO3 AdjExp_SO3 Log_SE3 Log_SE23
  Approx Approx_Inst QuatOfMatrix LogExp_SE3 LogExp_SGal3 Sym_SE3.
Import ListNotations.
Local Open Scope R_scope.

Section P.
Variable eps : R.
Hypothesis eps_pos : 0 < eps.

Theorem se23_log_inverse_generic tx ty tz x y z w vx vy vz : n4 x y z w = 1 -> eps < x * x + y * y + z * z -> w <> 0 ->
  se23_log RS eps (se23_inverse RS [tx; ty; tz; x; y; z; w; vx; vy; vz]) = @vneg RS (se23_log RS eps [tx; ty; tz; x; y; z; w; vx; vy; vz]).
Proof.
  intros Hn Hs2 Hw. destruct (so3_log_round eps eps_pos x y z w Hn Hs2 Hw) as (a & b & c & Hl & Hbig & _ & _). cbn [K RS] in *.
  pose proof (ljacinv_conj_block eps eps_pos x y z w a b c tx ty tz Hn Hs2 Hw Hl) as EB1.
  pose proof (ljacinv_conj_block eps eps_pos x y z w a b c vx vy vz Hn Hs2 Hw Hl) as EB2.
  unfold se23_inverse, se23_q, se23_t, se23_v. cbv zeta. cbn [vslice skipn firstn]. rewrite so3_inverse_eq. unfold so3_act.
  assert (HRq : exists a1 a2 a3 a4 a5 a6 a7 a8 a9, so3_rotation RS [- x; - y; - z; w] = [[a1; a2; a3]; [a4; a5; a6]; [a7; a8; a9]])
    by (unfold so3_rotation, quat_matrix; mat_unfold; do 9 eexists; reflexivity).
  destruct (mvmul3_shape _ [tx; ty; tz] HRq) as (r0 & r1 & r2 & Er). destruct (mvmul3_shape _ [vx; vy; vz] HRq) as (s0 & s1 & s2 & Es).
  cbn [K RS] in *. unfold Mat.vec in *. cbn [K RS] in *. rewrite Er in EB1 |- *. rewrite Es in EB2 |- *.
  cbn [vneg map] in EB1, EB2 |- *. cbn [K RS kopp] in EB1, EB2 |- *.
  unfold se23_log, se23_q, se23_t, se23_v. cbv zeta. cbn [app vslice skipn firstn]. cbn [K RS].
  rewrite (so3_log_conj eps x y z w), Hl. change (@vneg RS [a; b; c]) with [- a; - b; - c]. rewrite EB1, EB2.
  assert (HA : exists a1 a2 a3 a4 a5 a6 a7 a8 a9, so3_ljacinv RS eps [a; b; c] = [[a1; a2; a3]; [a4; a5; a6]; [a7; a8; a9]])
    by (rewrite (so3_ljacinv_poly eps a b c Hbig); cbv zeta; unfold poly3; mat_unfold; do 9 eexists; reflexivity).
  destruct (mvmul3_shape _ [tx; ty; tz] HA) as (p0 & p1 & p2 & Ep). destruct (mvmul3_shape _ [vx; vy; vz] HA) as (u0 & u1 & u2 & Eu).
  cbn [K RS] in *. rewrite Ep, Eu. reflexivity.
Qed.

Theorem se23_isApprox_sym X Y e : se23_valid X -> se23_valid Y -> 0 < e ->
  (forall tx ty tz x y z w vx vy vz, g_compose (SE23 RS eps) (g_inverse (SE23 RS eps) Y) X = [tx; ty; tz; x; y; z; w; vx; vy; vz] -> eps < x * x + y * y + z * z /\ w <> 0) ->
  g_isApprox (SE23 RS eps) X Y e = g_isApprox (SE23 RS eps) Y X e.
Proof.
  intros HX HY He Hgen. pose (C := SE23_core eps eps_pos).
  assert (HZ : se23_valid (g_compose (SE23 RS eps) (g_inverse (SE23 RS eps) Y) X)).
  { apply (gc_compose_valid _ C); [apply (gc_inverse_valid _ C)|]; assumption. }
  destruct HZ as (tx & ty & tz & x & y & z & w & vx & vy & vz & E & Hn). destruct (Hgen tx ty tz x y z w vx vy vz E) as [Hs2 Hw].
  apply (g_isApprox_sym _ C); try assumption.
  - unfold rminus_val. rewrite E. cbn [g_log SE23 g_dof]. unfold se23_log, se23_q, se23_t, se23_v. cbv zeta. cbn [vslice skipn firstn].
    destruct (so3_log_round eps eps_pos x y z w Hn Hs2 Hw) as (a & b & c & Hl & Hbig & _ & _). cbn [K RS] in *. rewrite Hl.
    assert (HA : exists a1 a2 a3 a4 a5 a6 a7 a8 a9, so3_ljacinv RS eps [a; b; c] = [[a1; a2; a3]; [a4; a5; a6]; [a7; a8; a9]])
      by (rewrite (so3_ljacinv_poly eps a b c Hbig); cbv zeta; unfold poly3; mat_unfold; do 9 eexists; reflexivity).
    destruct (mvmul3_shape _ [tx; ty; tz] HA) as (p0 & p1 & p2 & Ep). destruct (mvmul3_shape _ [vx; vy; vz] HA) as (u0 & u1 & u2 & Eu).
    cbn [K RS] in *. rewrite Ep, Eu. reflexivity.
  - unfold rminus_val. rewrite E. cbn [g_log g_inverse SE23]. apply se23_log_inverse_generic; assumption.
Qed.
End P.
