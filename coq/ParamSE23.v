(* ParamSE23.v — the chain of ParamRun.run_op_chain closed for the exp of SE_2(3) and SGal(3) on the closed-form branch, and with
   C05 for SE_2(3): the dual parts of the translation and velocity of exp(t + eps d) are R(exp t) * (rjac(t) d) blocks. *)
From Param Require Import Param.
From Coq Require Import Reals ZArith List Lra Lia.
From Coquelicot Require Import Coquelicot.
From Manif Require Import ParamBase Scalar RInst Dual DualProofs ParamDual Mat Consts Group SO3 SE3 SE23 SGal3 Run ParamRun Tac Jr_SO3 Jr_SE3 Jr_SE23.
Import ListNotations.
Local Open Scope R_scope.

Theorem chain_SE23_exp eps a b c x y z d e f da db dc dx dy dz dd de df j : 0 < eps -> eps < x * x + y * y + z * z -> (j < 10)%nat ->
  let t := [[a; b; c; x; y; z; d; e; f]] in let dt := [[da; db; dc; dx; dy; dz; dd; de; df]] in
  is_derive (fun h => entry 0 (@run_op RS eps GSE23 OExp [] 0%Z (at_h h t dt)) 0 j) 0
    (snd (entry (0, 0) (@run_op (DS RS) (eps, 0) GSE23 OExp [] 0%Z (seed t dt)) 0 j)).
Proof.
  intros He Hgt Hj t dt.
  set (nf := fun h : R => (x + h * dx) * (x + h * dx) + ((y + h * dy) * (y + h * dy) + ((z + h * dz) * (z + h * dz) + 0))).
  assert (Hc : continuous nf 0) by (apply (ex_derive_continuous nf); unfold nf; auto_derive; exact I).
  assert (N0 : nf 0 = x * x + y * y + z * z) by (unfold nf; ring).
  assert (EKh : forall h, fn (@sqnorm (FSh h) [line1 x dx; line1 y dy; line1 z dz]) = nf) by (intros h; reflexivity).
  assert (EK0 : fn (@sqnorm FS [line1 x dx; line1 y dy; line1 z dz]) = nf) by reflexivity.
  set (rD := @run_op (DS RS) (eps, 0) GSE23 OExp [] 0%Z (seed t dt)).
  assert (ED : exists o, rD = Ok [o] /\ length o = 10%nat).
  { unfold rD, t, dt. cbn [run_op group_of arg bit nth seed combine map fst snd g_exp SE23 out1]. unfold se23_exp, se23t_ang, se23t_lin, se23t_lin2, so3_ljac, so3_exp. cbv zeta. cbn [vslice skipn firstn].
    destruct (kleb _ _); destruct (kgtb _ _); unfold quat_of_angle_axis, eigen_normalized; try destruct (kgtb _ _); eexists; split; reflexivity. }
  destruct ED as (o & ED & Lo). rewrite ED. cbn [entry nth]. change o with (nth 0 [o] []) at 1.
  assert (Hloc : locally 0 (fun h => eps < nf h)).
  { apply (Hc (fun v => eps < v)). apply (open_gt eps). rewrite N0. exact Hgt. }
  apply (run_op_chain eps GSE23 OExp [] 0%Z t dt [o] 0 j); [|exact ED|cbn; lia|cbn [nth]; rewrite Lo; exact Hj|].
  - apply (filter_imp (fun h => eps < nf h)); [intros h Hh|exact Hloc]. unfold t, dt.
    cbn [run_op group_of arg bit nth lineF combine map fst snd g_exp SE23 out1]. unfold se23_exp, se23t_ang, se23t_lin, se23t_lin2, so3_ljac, so3_exp, eigen_normalized, kgtb, kleb. cbv zeta. cbn [vslice skipn firstn].
    cbn [kltb FSh FS fn fconst]. cbn [K FSh FS] in *. rewrite EKh, EK0, N0. change (fn (k0 (FSh h)) h) with 0. change (fn (k0 FS) 0) with 0.
    rewrite (Rltb_lt_true _ _ Hh), (Rltb_lt_true _ _ Hgt), (Rltb_lt_true 0 (nf h)) by lra. rewrite (Rltb_lt_true 0 (x * x + y * y + z * z)) by lra. reflexivity.
  - unfold t, dt. cbn [run_op group_of arg bit nth lineF combine map fst snd g_exp SE23 out1 entry]. unfold se23_exp, se23t_ang, se23t_lin, se23t_lin2, so3_ljac, so3_exp, eigen_normalized, kgtb, kleb. cbv zeta. cbn [vslice skipn firstn].
    cbn [kltb FS fn fconst]. cbn [K FSh FS] in *. rewrite EK0, N0. change (fn (k0 FS) 0) with 0. rewrite (Rltb_lt_true _ _ Hgt), (Rltb_lt_true 0 (x * x + y * y + z * z)) by lra.
    assert (Hs : sqrt (nf 0) <> 0) by (rewrite N0; intros E0; apply sqrt_eq_0 in E0; lra).
    assert (Hp : 0 < nf 0) by (rewrite N0; lra). assert (Hn : nf 0 <> 0) by lra. assert (Hns : nf 0 * sqrt (nf 0) <> 0) by (apply Rmult_integral_contrapositive; split; assumption).
    do 10 (destruct j as [|j]; [cbn; fold nf; tauto|]). exfalso; lia.
Qed.

(* with C05 (Jr_SE23.se23_rjac_is_derivative): translation and velocity dual parts = R(exp t) applied to the blocks of rjac(t) d *)
Theorem se23_exp_dual_is_analytic eps a b c x y z d e f da db dc dx dy dz dd de df i : 0 < eps -> eps < x * x + y * y + z * z -> (i < 3)%nat ->
  let t := [[a; b; c; x; y; z; d; e; f]] in let dt := [[da; db; dc; dx; dy; dz; dd; de; df]] in
  let R := so3_rotation RS (so3_exp RS eps [x; y; z]) in
  let u := rjac23 eps a b c x y z d e f da db dc dx dy dz dd de df in
  snd (entry (0, 0) (@run_op (DS RS) (eps, 0) GSE23 OExp [] 0%Z (seed t dt)) 0 i) = nth i (@mvmul RS R (firstn 3 u)) 0 /\
  snd (entry (0, 0) (@run_op (DS RS) (eps, 0) GSE23 OExp [] 0%Z (seed t dt)) 0 (7 + i)) = nth i (@mvmul RS R (skipn 6 u)) 0.
Proof.
  intros He Hgt Hi. cbv zeta.
  destruct (se23_rjac_is_derivative eps He a b c x y z d e f da db dc dx dy dz dd de df i Hgt Hi) as [D2 D3]. cbv zeta in D2, D3.
  pose proof (chain_SE23_exp eps a b c x y z d e f da db dc dx dy dz dd de df i He Hgt ltac:(lia)) as D1. cbv zeta in D1.
  pose proof (chain_SE23_exp eps a b c x y z d e f da db dc dx dy dz dd de df (7 + i) He Hgt ltac:(lia)) as D4. cbv zeta in D4.
  apply (is_derive_unique _ _ _) in D1. apply (is_derive_unique _ _ _) in D2. apply (is_derive_unique _ _ _) in D3. apply (is_derive_unique _ _ _) in D4.
  split; [etransitivity; [symmetry; exact D1|exact D2]|etransitivity; [symmetry; exact D4|exact D3]].
Qed.
Print Assumptions se23_exp_dual_is_analytic.

(* SGal(3) exp, closed-form branch (the position involves V rho + E tau nu, fillE's branch is decided by the same comparison) *)
Theorem chain_SGal3_exp eps a b c d e f x y z tau da db dc dd de df dx dy dz dtau j : 0 < eps -> eps < x * x + y * y + z * z -> (j < 11)%nat ->
  let t := [[a; b; c; d; e; f; x; y; z; tau]] in let dt := [[da; db; dc; dd; de; df; dx; dy; dz; dtau]] in
  is_derive (fun h => entry 0 (@run_op RS eps GSGal3 OExp [] 0%Z (at_h h t dt)) 0 j) 0
    (snd (entry (0, 0) (@run_op (DS RS) (eps, 0) GSGal3 OExp [] 0%Z (seed t dt)) 0 j)).
Proof.
  intros He Hgt Hj t dt.
  set (nf := fun h : R => (x + h * dx) * (x + h * dx) + ((y + h * dy) * (y + h * dy) + ((z + h * dz) * (z + h * dz) + 0))).
  assert (Hc : continuous nf 0) by (apply (ex_derive_continuous nf); unfold nf; auto_derive; exact I).
  assert (N0 : nf 0 = x * x + y * y + z * z) by (unfold nf; ring).
  assert (EKh : forall h, fn (@sqnorm (FSh h) [line1 x dx; line1 y dy; line1 z dz]) = nf) by (intros h; reflexivity).
  assert (EK0 : fn (@sqnorm FS [line1 x dx; line1 y dy; line1 z dz]) = nf) by reflexivity.
  set (rD := @run_op (DS RS) (eps, 0) GSGal3 OExp [] 0%Z (seed t dt)).
  assert (ED : exists o, rD = Ok [o] /\ length o = 11%nat).
  { unfold rD, t, dt. cbn [run_op group_of arg bit nth seed combine map fst snd g_exp SGal3 out1]. unfold sg_exp, sgt_ang, sgt_lin, sgt_lin2, sgt_t, fillE, so3_ljac, so3_exp. cbv zeta. cbn [vslice skipn firstn vnth nth].
    destruct (kleb _ _); destruct (kgtb _ _); destruct (kltb _ _ _); unfold quat_of_angle_axis, eigen_normalized; try destruct (kgtb _ _); eexists; split; reflexivity. }
  destruct ED as (o & ED & Lo). rewrite ED. cbn [entry nth]. change o with (nth 0 [o] []) at 1.
  assert (Hloc : locally 0 (fun h => eps < nf h)).
  { apply (Hc (fun v => eps < v)). apply (open_gt eps). rewrite N0. exact Hgt. }
  apply (run_op_chain eps GSGal3 OExp [] 0%Z t dt [o] 0 j); [|exact ED|cbn; lia|cbn [nth]; rewrite Lo; exact Hj|].
  - apply (filter_imp (fun h => eps < nf h)); [intros h Hh|exact Hloc]. unfold t, dt.
    cbn [run_op group_of arg bit nth lineF combine map fst snd g_exp SGal3 out1]. unfold sg_exp, sgt_ang, sgt_lin, sgt_lin2, sgt_t, fillE, so3_ljac, so3_exp, eigen_normalized, kgtb, kleb. cbv zeta. cbn [vslice skipn firstn vnth nth].
    cbn [kltb FSh FS fn fconst]. cbn [K FSh FS] in *. rewrite EKh, EK0, N0. change (fn (k0 (FSh h)) h) with 0. change (fn (k0 FS) 0) with 0.
    rewrite (Rltb_lt_true _ _ Hh), (Rltb_lt_true _ _ Hgt), (Rltb_lt_true 0 (nf h)) by lra. rewrite (Rltb_lt_true 0 (x * x + y * y + z * z)) by lra.
    rewrite (Rltb_lt_false (nf h) eps) by lra. rewrite (Rltb_lt_false (x * x + y * y + z * z) eps) by lra. reflexivity.
  - unfold t, dt. cbn [run_op group_of arg bit nth lineF combine map fst snd g_exp SGal3 out1 entry]. unfold sg_exp, sgt_ang, sgt_lin, sgt_lin2, sgt_t, fillE, so3_ljac, so3_exp, eigen_normalized, kgtb, kleb. cbv zeta. cbn [vslice skipn firstn vnth nth].
    cbn [kltb FS fn fconst]. cbn [K FSh FS] in *. rewrite EK0, N0. change (fn (k0 FS) 0) with 0. rewrite (Rltb_lt_true _ _ Hgt), (Rltb_lt_true 0 (x * x + y * y + z * z)) by lra.
    rewrite (Rltb_lt_false (x * x + y * y + z * z) eps) by lra.
    assert (Hs : sqrt (nf 0) <> 0) by (rewrite N0; intros E0; apply sqrt_eq_0 in E0; lra).
    assert (Hp : 0 < nf 0) by (rewrite N0; lra). assert (Hn : nf 0 <> 0) by lra. assert (Hns : nf 0 * sqrt (nf 0) <> 0) by (apply Rmult_integral_contrapositive; split; assumption).
    assert (Hnn : 2 * nf 0 * nf 0 <> 0) by nra.
    do 11 (destruct j as [|j]; [cbn; fold nf; tauto|]). exfalso; lia.
Qed.
