(* driver.ml — runs the extracted model on the cases the C++ harness ran.
   Input (stdin): the harness output stream:
     C <id> <group> <op> <mask|-> <iarg> <flt:0|1> <nargs> (<len> v...)*
     O <code> <a> <b> <r>          oracle entries recorded while running that case
     R <id> ...                    the implementation's result (ignored here)
   Output: one line  M <id> ok <nout> (<len> v...)*   or   M <id> exc <kind> *)
open Model
module B = Big_int_Z
exception Oracle_miss of string
exception Div0

let q_of_string s : q =
  let n, d = match String.index_opt s '/' with
    | Some i -> B.big_int_of_string (String.sub s 0 i),
                B.big_int_of_string (String.sub s (i+1) (String.length s - i - 1))
    | None -> B.big_int_of_string s, B.unit_big_int in
  let n, d = if B.sign_big_int d < 0 then B.minus_big_int n, B.minus_big_int d else n, d in
  let g = B.gcd_big_int n d in
  if B.sign_big_int n = 0 then { qnum = B.zero_big_int; qden = B.unit_big_int }
  else { qnum = B.div_big_int n g; qden = B.div_big_int d g }

let string_of_q (x : q) =
  if B.eq_big_int x.qden B.unit_big_int then B.string_of_big_int x.qnum
  else B.string_of_big_int x.qnum ^ "/" ^ B.string_of_big_int x.qden

let tbl : (string, q) Hashtbl.t = Hashtbl.create 64
let key code a b = Printf.sprintf "%d %s %s" code (string_of_q a) (string_of_q b)
let orc code a b =
  let c = B.int_of_big_int code in
  if c = 6 then raise Div0 else
  let k = key c a b in
  try Hashtbl.find tbl k with Not_found -> raise (Oracle_miss k)

let rec nat_of_int n = if n <= 0 then O else S (nat_of_int (n-1))

(* group syntax: SO2 | SE2 | SO3 | SE3 | SE23 | SGal3 | R<n> | B[g,g,...] *)
let rec parse_group s = Groups.parse nat_of_int s

let split_ws s = List.filter (fun x -> x <> "") (String.split_on_char ' ' s)

let run_case toks =
  match toks with
  | id :: grp :: op :: mask :: iarg :: flt :: nargs :: rest ->
    let mask = if mask = "-" then [] else List.init (String.length mask) (fun i -> mask.[i] = '1') in
    let rec take n l acc = if n = 0 then List.rev acc, l else
        match l with x :: r -> take (n-1) r (x :: acc) | [] -> failwith "short case" in
    let rec args n l acc = if n = 0 then List.rev acc else
        match l with
        | len :: r -> let v, r' = take (int_of_string len) r [] in
          args (n-1) r' (List.map q_of_string v :: acc)
        | [] -> failwith "short case" in
    let a = args (int_of_string nargs) rest [] in
    let show outs =
          "ok " ^ string_of_int (List.length outs) ^
          String.concat "" (List.map (fun v -> " " ^ string_of_int (List.length v) ^
            String.concat "" (List.map (fun x -> " " ^ string_of_q x) v)) outs) in
    (* dual mode (flt = 2): every argument vector is (primal parts ++ dual parts); every output vector is printed as two *)
    let halves v = let n = List.length v / 2 in
      let rec go i l p = if i = 0 then List.rev p, l else match l with x :: r -> go (i-1) r (x :: p) | [] -> List.rev p, [] in
      let p, d = go n v [] in List.combine p d in
    let res =
      try
        match (if flt = "2" then
                 (match run_dq orc (parse_group grp) (Names.op_of_string op) mask (B.big_int_of_string iarg) (List.map halves a) with
                  | Ok outs -> Ok (List.concat (List.map (fun v -> [List.map fst v; List.map snd v]) outs))
                  | InvalidArgument -> InvalidArgument | RuntimeError -> RuntimeError | LogicError -> LogicError | OutOfBounds i -> OutOfBounds i)
               else run_q orc (flt = "1") (parse_group grp) (Names.op_of_string op) mask (B.big_int_of_string iarg) a) with
        | Ok outs -> show outs
        | InvalidArgument -> "exc invalid_argument"
        | RuntimeError -> "exc runtime_error"
        | LogicError -> "exc logic_error"
        | OutOfBounds i -> "exc out_of_bounds " ^ B.string_of_big_int i
      with
      | Div0 -> "exc div0"
      | Oracle_miss k -> "exc oracle_miss " ^ k
      | Stack_overflow -> "exc stack_overflow"
    in
    Printf.printf "M %s %s\n" id res
  | _ -> failwith "bad case line"

let () =
  let pending = ref None in
  let flush_case () = match !pending with
    | Some toks -> run_case toks; pending := None; Hashtbl.reset tbl
    | None -> () in
  (try
    while true do
      let line = input_line stdin in
      match split_ws line with
      | "C" :: toks -> flush_case (); pending := Some toks
      | ["O"; code; a; b; r] ->
        Hashtbl.replace tbl (key (int_of_string code) (q_of_string a) (q_of_string b)) (q_of_string r)
      | "R" :: _ -> flush_case ()
      | _ -> ()
    done
  with End_of_file -> ());
  flush_case ()
