(* BlockVec.v — a placed block-diagonal matrix applied to a concatenation of vectors is the concatenation of the blocks
   applied to the parts; a vector is the concatenation of its slices at the offset table. *)
From Coq Require Import Reals ZArith List Lia Lra.
From Manif Require Import Scalar Mat Group RInst Bundle BundleProofs BundleLaws BlockMul.
Import ListNotations.
Local Open Scope R_scope.

Local Notation vec := (list R).
Local Notation mat := (list (list R)).
Local Notation rect := (BundleProofs.rect RS).

Section BV.
Variable L : list (GroupOps RS).
Variable d : GroupOps RS.
Variable f : GroupOps RS -> nat.
Local Notation N := (total L f).
Local Notation sz k := (nth k (map f L) 0%nat).
Local Notation o k := (off RS L f k).

Lemma sz_nth k : (k < length L)%nat -> sz k = f (nth k L d).
Proof. intros H. apply nth_map_lt. exact H. Qed.

(* entries of a concatenation of rightly sized parts *)
Lemma nth_concat_block (ps : list vec) k i x : sized RS L f ps -> (k < length L)%nat -> (o k <= i < o k + sz k)%nat ->
  nth i (concat ps) x = nth (i - o k) (nth k ps []) x.
Proof.
  intros Hs Hk Hi. pose proof (sized_length RS L f ps Hs) as Hl. norm.
  rewrite (concat_firstn_skipn R ps k) by lia.
  assert (Ho : length (concat (firstn k ps)) = o k).
  { rewrite length_concat_acc. unfold off. rewrite <- firstn_map. unfold sized in Hs. cbn [K RS] in Hs. rewrite Hs. reflexivity. }
  assert (Hn : length (nth k ps []) = sz k).
  { etransitivity; [exact (sized_nth RS L d f ps k Hs Hk)|]. symmetry. apply sz_nth. exact Hk. }
  rewrite app_nth2 by lia. rewrite Ho. rewrite app_nth1 by lia. reflexivity.
Qed.
Lemma concat_sized_length (ps : list vec) : sized RS L f ps -> length (concat ps) = N.
Proof. intros Hs. rewrite length_concat_acc. unfold sized in Hs. cbn [K RS] in Hs. rewrite Hs. reflexivity. Qed.

(* the slices of a vector at the offset table *)
Definition slices (p : vec) : list vec := imap L (fun i G => vslice p (idx L f i) (f G)).
Lemma slices_sized p : length p = N -> sized RS L f (slices p).
Proof.
  intros Hp. apply (sized_imap RS L d). intros i Hi. rewrite (idx_off RS L f i Hi).
  pose proof (off_fits RS L f i Hi) as Hf. rewrite (sz_nth i Hi) in Hf.
  unfold vslice. rewrite firstn_length, skipn_length. lia.
Qed.
Theorem concat_slices p : length p = N -> concat (slices p) = p.
Proof.
  intros Hp. pose proof (slices_sized p Hp) as Hs.
  apply (nth_ext _ _ 0 0); [rewrite (concat_sized_length _ Hs); symmetry; exact Hp|].
  intros i Hi. rewrite (concat_sized_length _ Hs) in Hi.
  destruct (block_of L f i Hi) as (k & Hk & Hik).
  rewrite (nth_concat_block _ k i 0 Hs Hk Hik). unfold slices. rewrite (nth_imap RS L d _ [] k Hk).
  rewrite (idx_off RS L f k Hk). rewrite <- (sz_nth k Hk). unfold vslice.
  rewrite nth_firstn_lt by lia. rewrite nth_skipn_add. f_equal. lia.
Qed.

(* block-diagonal matrix times concatenated vector *)
Theorem place_mvmul (bl : list mat) (vs : list vec) : block_ok RS L f f bl -> sized RS L f vs ->
  @mvmul RS (place L f f bl) (concat vs) = concat (imap L (fun i _ => @mvmul RS (nth i bl []) (nth i vs []))).
Proof.
  intros Hok Hs. pose proof (place_rect L f bl Hok) as HR.
  assert (Hrs : sized RS L f (imap L (fun i _ => @mvmul RS (nth i bl []) (nth i vs [])))).
  { apply (sized_imap RS L d). intros i Hi. unfold mvmul. rewrite map_length.
    pose proof (proj1 (proj2 Hok i Hi)) as Hb. rewrite (sz_nth i Hi) in Hb. exact Hb. }
  pose proof (proj1 HR) as HRl. norm.
  apply (nth_ext _ _ 0 0).
  - unfold mvmul. norm. rewrite map_length, HRl. symmetry. apply (concat_sized_length _ Hrs).
  - intros i Hi. unfold mvmul in Hi. norm. rewrite map_length, HRl in Hi.
    destruct (block_of L f i Hi) as (k & Hk & Hik).
    rewrite (nth_concat_block _ k i 0 Hrs Hk Hik). rewrite (nth_imap RS L d _ [] k Hk).
    unfold mvmul. norm. rewrite (nth_map_lt _ _ [] _ i) by (rewrite HRl; exact Hi).
    pose proof (place_row L f bl k i Hok Hk Hik) as Er. norm. rewrite Er. rewrite dot_padded.
    pose proof (proj2 Hok k Hk) as Hbk. destruct Hbk as [Hbl Hbr]. norm.
    assert (Hrow : length (nth (i - o k) (nth k bl []) []) = sz k).
    { apply (rect_nth RS _ (sz k) (sz k)); [split; assumption|lia]. }
    norm. rewrite Hrow. rewrite (sz_nth k Hk). rewrite <- (idx_off RS L f k Hk).
    pose proof (view_concat RS L d f vs k Hs Hk) as Ev. norm. rewrite Ev.
    rewrite (nth_map_lt _ _ [] _ (i - idx L f k)%nat) by (rewrite Hbl, (idx_off RS L f k Hk); lia). reflexivity.
Qed.
End BV.
