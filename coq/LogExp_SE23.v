(* LogExp_SE23.v — property C03 for SE_2(3): log(exp t) = t for every tangent with rotation angle below pi, generic
   branches.  Same argument as LogExp_SE3.v, for the translation and the velocity block. *)
From Coq Require Import Reals ZArith List Lra Psatz.
From Manif Require Import Scalar Mat Consts Group RInst Tac Atan2 SO3 SE3 SE23 Generic LieSpec SO3Proofs Log_SO3 JacInv_SO3 Log_SE3 LogExp_SO3 LogExp_SE3.
Import ListNotations.
Local Open Scope R_scope.

Section P.
Variable eps : R.
Hypothesis eps_pos : 0 < eps.

Theorem se23_log_exp_generic a b c x y z d e f :
  let n := x * x + y * y + z * z in let th := sqrt n in
  eps < n -> th < PI -> eps < sin (th / 2) * sin (th / 2) ->
  se23_log RS eps (se23_exp RS eps [a; b; c; x; y; z; d; e; f]) = [a; b; c; x; y; z; d; e; f].
Proof.
  cbv zeta. intros Hgt Hpi Hsin.
  pose proof (so3_log_exp_generic eps eps_pos x y z Hgt Hpi Hsin) as HL.
  set (n := x * x + y * y + z * z) in *. set (th := sqrt n) in *.
  assert (Hn : 0 < n) by lra. assert (Hth : 0 < th) by (apply sqrt_lt_R0; exact Hn).
  assert (HS : sin th <> 0) by (apply Rgt_not_eq; apply sin_gt_0; lra).
  destruct (so3_ljac_ljacinv eps eps_pos x y z Hgt HS) as [_ Hinv].
  unfold se23_exp, se23_log, se23t_ang, se23t_lin, se23t_lin2. cbv zeta. cbn [vslice skipn firstn]. cbn [K RS].
  assert (Hq : exists q0 q1 q2 q3, so3_exp RS eps [x; y; z] = [q0; q1; q2; q3]).
  { unfold so3_exp. destruct (kgtb _ _); [|do 4 eexists; reflexivity].
    unfold quat_of_angle_axis, eigen_normalized. destruct (kgtb _ _); do 4 eexists; reflexivity. }
  destruct Hq as (q0 & q1 & q2 & q3 & Eq). rewrite Eq in HL |- *.
  assert (Hm : forall r0 r1 r2 : R, exists p0 p1 p2 : R, @mvmul RS (so3_ljac RS eps [x; y; z]) [r0; r1; r2] = [p0; p1; p2]).
  { intros. rewrite (so3_ljac_poly eps x y z Hgt). cbv zeta. unfold poly3. mat_unfold. do 3 eexists. reflexivity. }
  destruct (Hm a b c) as (p0 & p1 & p2 & Ep). destruct (Hm d e f) as (v0 & v1 & v2 & Ev). rewrite Ep, Ev.
  unfold se23_q, se23_t, se23_v. cbn [app vslice skipn firstn]. rewrite HL. cbn [K RS] in *. rewrite <- Ep, <- Ev.
  assert (HA : exists a1 a2 a3 a4 a5 a6 a7 a8 a9, so3_ljacinv RS eps [x; y; z] = [[a1; a2; a3]; [a4; a5; a6]; [a7; a8; a9]])
    by (rewrite (so3_ljacinv_poly eps x y z Hgt); cbv zeta; unfold poly3; mat_unfold; do 9 eexists; reflexivity).
  assert (HB : exists a1 a2 a3 a4 a5 a6 a7 a8 a9, so3_ljac RS eps [x; y; z] = [[a1; a2; a3]; [a4; a5; a6]; [a7; a8; a9]])
    by (rewrite (so3_ljac_poly eps x y z Hgt); cbv zeta; unfold poly3; mat_unfold; do 9 eexists; reflexivity).
  rewrite !mvmul_mmul3 by (first [exact HA | exact HB | do 3 eexists; reflexivity]).
  rewrite Hinv. rewrite !mid3_mvmul. reflexivity.
Qed.
End P.
