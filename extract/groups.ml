(* textual group names -> Model.gid *)
let rec parse nat_of_int (s : string) : Model.gid =
  match s with
  | "SO2" -> Model.GSO2
  | "SE2" -> Model.GSE2
  | "SO3" -> Model.GSO3
  | "SE3" -> Model.GSE3
  | "SE23" -> Model.GSE23
  | "SGal3" -> Model.GSGal3
  | _ when String.length s > 1 && s.[0] = 'R' ->
    Model.GRn (nat_of_int (int_of_string (String.sub s 1 (String.length s - 1))))
  | _ -> failwith ("unknown group " ^ s)
