(* BlockMul.v — the product of two block-diagonal matrices laid out by `place` (Bundle.v) is the block-diagonal matrix of
   the products of the blocks.  Over the reals; any list of groups, any (square) size selector.  With BundleLaws.v this
   lifts "transform(X*Y) = transform(X) transform(Y)" (C01) and "Adj(X*Y) = Adj(X) Adj(Y)" (C06) to Bundles. *)
From Coq Require Import Reals ZArith List Lia Lra.
From Manif Require Import Scalar Mat Group RInst Bundle BundleProofs.
Import ListNotations.
Local Open Scope R_scope.

Local Notation vec := (list R).
Local Notation mat := (list (list R)).
Local Notation rdot := (@dot RS).
Local Notation rmmul := (@mmul RS).
Local Notation rmnth := (@mnth RS).
Local Notation rcol := (@col RS).
Local Notation rect := (BundleProofs.rect RS).

Ltac rring := cbn [K RS k0 k1 kadd kmul]; repeat match goal with |- context [@dot RS ?a ?b] => generalize (@dot RS a b) end; cbn [K RS]; intros; match goal with |- @eq _ ?u ?v => change (@eq R u v) end; ring.
(* ---- dot products ---- *)
Lemma dot_nil_r (u : vec) : rdot u [] = 0.
Proof. destruct u; reflexivity. Qed.
Lemma dot_zeros_l n (v : vec) : rdot (repeat 0 n) v = 0.
Proof. revert v. induction n as [|n IH]; intros [|b v]; cbn [repeat dot]; try reflexivity. rewrite IH. rring. Qed.
Lemma dot_zeros_r n (u : vec) : rdot u (repeat 0 n) = 0.
Proof. revert u. induction n as [|n IH]; intros [|a u]; cbn [repeat dot]; try reflexivity. rewrite IH. rring. Qed.
Lemma dot_app (u1 u2 v : vec) : rdot (u1 ++ u2) v = rdot u1 (firstn (length u1) v) + rdot u2 (skipn (length u1) v).
Proof.
  revert v. induction u1 as [|a u1 IH]; intros v.
  - cbn [app length firstn skipn]. cbn [dot]. rring.
  - destruct v as [|b v].
    + cbn [app length firstn skipn dot]. rewrite dot_nil_r. rring.
    + cbn [app length firstn skipn dot]. rewrite IH. rring.
Qed.
(* a vector that is zero outside [a, a + |x|) *)
Lemma dot_padded a b (x v : vec) : rdot (repeat 0 a ++ x ++ repeat 0 b) v = rdot x (vslice v a (length x)).
Proof.
  rewrite dot_app, dot_zeros_l, repeat_length, dot_app, dot_zeros_l. unfold vslice. rring.
Qed.

Lemma lt_len {A} (l : list A) N i : length l = N -> (i < N)%nat -> (i < length l)%nat.
Proof. intros <- H; exact H. Qed.
Ltac norm := unfold Mat.vec, Mat.mat, BundleProofs.rect in *; cbn [K RS k0] in *.
Lemma padded_length a b (x : vec) : length (repeat 0 a ++ x ++ repeat 0 b) = (a + length x + b)%nat.
Proof. rewrite !app_length, !repeat_length. lia. Qed.
(* ---- entries of a product ---- *)
Lemma rect_ncols (B : mat) N : rect B N N -> (0 < N)%nat -> @ncols RS B = N.
Proof.
  intros [Hl Hr] HN. destruct B as [|r B]; [cbn in Hl; lia|]. cbn [ncols]. inversion Hr; assumption.
Qed.
Lemma mmul_rect (A B : mat) N : rect A N N -> rect B N N -> rect (rmmul A B) N N.
Proof.
  intros HA HB. destruct (Nat.eq_dec N 0) as [->|HN].
  - destruct HA as [Hl _]. destruct A; [|discriminate Hl]. split; [reflexivity|constructor].
  - unfold mmul, mT, mtrans. rewrite (rect_ncols B N HB) by lia. split.
    + rewrite map_length. exact (proj1 HA).
    + apply Forall_forall. intros r Hr. apply in_map_iff in Hr. destruct Hr as (x & <- & _).
      rewrite !map_length, seq_length. reflexivity.
Qed.
Lemma mnth_mmul (A B : mat) N i j : rect A N N -> rect B N N -> (i < N)%nat -> (j < N)%nat ->
  rmnth (rmmul A B) i j = rdot (nth i A []) (rcol B j).
Proof.
  intros HA HB Hi Hj. unfold mnth, mmul, mT, mtrans. rewrite (rect_ncols B N HB) by lia.
  rewrite (nth_map_lt _ A [] _ i) by (apply (lt_len _ N); [exact (proj1 HA)|exact Hi]).
  rewrite (nth_map_lt _ _ ([] : Mat.vec RS) _ j) by (rewrite map_length, seq_length; exact Hj).
  rewrite (nth_map_lt _ _ 0%nat _ j) by (rewrite seq_length; exact Hj). rewrite seq_nth by exact Hj. reflexivity.
Qed.

(* ---- which block an index falls in ---- *)
Lemma find_block (sizes : list nat) i : (i < accumulate sizes)%nat ->
  exists k, (k < length sizes)%nat /\ (accumulate (firstn k sizes) <= i < accumulate (firstn k sizes) + nth k sizes 0)%nat.
Proof.
  revert i. induction sizes as [|s sizes IH]; intros i H; [cbn in H; lia|].
  rewrite accumulate_cons in H. destruct (Nat.lt_ge_cases i s) as [Hi|Hi].
  - exists 0%nat. cbn. lia.
  - destruct (IH (i - s)%nat ltac:(lia)) as (k & Hk & Hr). exists (S k). split; [cbn; lia|].
    change (firstn (S k) (s :: sizes)) with (s :: firstn k sizes). rewrite accumulate_cons. cbn [nth]. lia.
Qed.

Section BlockDiag.
Variable L : list (GroupOps RS).
Variable f : GroupOps RS -> nat.
Local Notation N := (total L f).
Local Notation sz k := (nth k (map f L) 0%nat).
Local Notation o k := (off RS L f k).
Local Notation P bl := (place L f f bl).
Local Notation ok bl := (block_ok RS L f f bl).

Lemma block_of i : (i < N)%nat -> exists k, (k < length L)%nat /\ (o k <= i < o k + sz k)%nat.
Proof. intros H. destruct (find_block (map f L) i H) as (k & Hk & Hr). rewrite map_length in Hk. exists k. split; assumption. Qed.
Lemma blocks_disjoint k k' i : (k < length L)%nat -> (k' < length L)%nat -> (o k <= i < o k + sz k)%nat -> (o k' <= i < o k' + sz k')%nat -> k = k'.
Proof.
  intros Hk Hk' H H'. destruct (Nat.lt_trichotomy k k') as [Hlt|[->|Hlt]]; [|reflexivity|].
  - pose proof (off_disjoint RS L f k k' Hlt ltac:(lia)). lia.
  - pose proof (off_disjoint RS L f k' k Hlt ltac:(lia)). lia.
Qed.

Lemma place_rect bl : ok bl -> rect (P bl) N N.
Proof.
  intros [Hlen Hrect]. rewrite place_as_list. apply place_list_rect; [apply mzero_rect|].
  apply (Forall_nth_iff _ _ (0%nat, 0%nat, [])). intros k Hk. rewrite triples_length, Hlen in Hk.
  rewrite triples_nth by lia. exists (sz k), (sz k). split; [cbn [snd]; apply Hrect; exact Hk|].
  cbn [fst snd]. rewrite !idx_off by exact Hk. split; apply off_fits; exact Hk.
Qed.

(* entries of a placed matrix, by the blocks the row and the column fall in *)
Lemma place_entry bl k k' i j : ok bl -> (k < length L)%nat -> (k' < length L)%nat ->
  (o k <= i < o k + sz k)%nat -> (o k' <= j < o k' + sz k')%nat ->
  rmnth (P bl) i j = if Nat.eq_dec k k' then rmnth (nth k bl []) (i - o k) (j - o k) else 0.
Proof.
  intros Hok Hk Hk' Hi Hj. destruct (Nat.eq_dec k k') as [<-|Hne].
  - apply (place_diag_block RS L f f bl k i j Hok Hk). split; assumption.
  - apply (place_zero_off_blocks RS L f f bl i j Hok). intros m Hm [Hmi Hmj].
    apply Hne. rewrite (blocks_disjoint k m i Hk Hm Hi Hmi). exact (blocks_disjoint m k' j Hm Hk' Hmj Hj).
Qed.

(* the i-th row of a placed matrix *)
Lemma place_row bl k i : ok bl -> (k < length L)%nat -> (o k <= i < o k + sz k)%nat ->
  nth i (P bl) [] = repeat 0 (o k) ++ nth (i - o k) (nth k bl []) [] ++ repeat 0 (N - o k - sz k).
Proof.
  intros Hok Hk Hi. pose proof (place_rect bl Hok) as HR. pose proof (off_fits RS L f k Hk) as Hfit.
  assert (HiN : (i < N)%nat) by lia.
  pose proof (proj2 Hok k Hk) as Hbk. assert (Hrow : length (nth (i - o k) (nth k bl []) []) = sz k) by (apply (rect_nth RS _ _ _ _ Hbk); lia).
  pose proof (rect_nth RS _ _ _ _ HR HiN) as HlenR. norm.
  apply (nth_ext _ _ 0 0).
  - rewrite HlenR, padded_length, Hrow. lia.
  - intros j Hj. rewrite HlenR in Hj.
    destruct (block_of j Hj) as (k' & Hk' & Hj').
    pose proof (place_entry bl k k' i j Hok Hk Hk' Hi Hj') as HE. unfold mnth in HE. norm. rewrite HE.
    destruct (Nat.eq_dec k k') as [<-|Hne].
    + rewrite app_nth2 by (rewrite repeat_length; lia). rewrite repeat_length. rewrite app_nth1 by (rewrite Hrow; lia). reflexivity.
    + destruct (Nat.lt_ge_cases j (o k)) as [Hlt|Hge].
      * rewrite app_nth1 by (rewrite repeat_length; exact Hlt). symmetry. apply nth_repeat.
      * assert (o k + sz k <= j)%nat.
        { destruct (Nat.lt_ge_cases j (o k + sz k)) as [Hin|]; [|assumption]. exfalso. apply Hne. apply (blocks_disjoint k k' j Hk Hk'); lia. }
        rewrite app_nth2 by (rewrite repeat_length; lia). rewrite repeat_length. rewrite app_nth2 by (rewrite Hrow; lia).
        symmetry. apply nth_repeat.
Qed.

(* the part of the j-th column of a placed matrix that meets the rows of block k *)
Lemma place_col_part bl k k' j : ok bl -> (k < length L)%nat -> (k' < length L)%nat -> (o k' <= j < o k' + sz k')%nat ->
  vslice (rcol (P bl) j) (o k) (sz k) = if Nat.eq_dec k k' then rcol (nth k bl []) (j - o k) else repeat 0 (sz k).
Proof.
  intros Hok Hk Hk' Hj. pose proof (place_rect bl Hok) as HR. pose proof (off_fits RS L f k Hk) as Hfit.
  pose proof (proj2 Hok k Hk) as Hbk. destruct HR as [HRl HRr]. destruct Hbk as [Hbl Hbr]. norm.
  assert (Hlen : length (vslice (rcol (P bl) j) (o k) (sz k)) = sz k).
  { unfold vslice, col. norm. rewrite firstn_length, skipn_length, map_length, HRl. lia. }
  norm. apply (nth_ext _ _ 0 0).
  - rewrite Hlen. destruct (Nat.eq_dec k k'); [unfold col; norm; rewrite map_length; symmetry; exact Hbl|rewrite repeat_length; reflexivity].
  - intros m Hm. rewrite Hlen in Hm. unfold vslice. rewrite nth_firstn_lt by exact Hm. rewrite nth_skipn_add.
    unfold col at 1. norm. rewrite (nth_map_lt _ _ [] _ (o k + m)%nat) by (rewrite HRl; lia).
    pose proof (place_entry bl k k' (o k + m) j Hok Hk Hk' ltac:(lia) Hj) as HE. unfold mnth in HE. norm. unfold vnth. norm. rewrite HE.
    destruct (Nat.eq_dec k k') as [<-|Hne].
    + unfold col. norm. rewrite (nth_map_lt _ _ [] _ m) by (rewrite Hbl; exact Hm). replace (o k + m - o k)%nat with m by lia. reflexivity.
    + symmetry. apply nth_repeat.
Qed.

(* the block-wise products *)
Definition bmul (A B : list mat) : list mat := map (fun p => rmmul (fst p) (snd p)) (combine A B).
Lemma bmul_nth A B k : length A = length L -> length B = length L -> (k < length L)%nat -> nth k (bmul A B) [] = rmmul (nth k A []) (nth k B []).
Proof.
  intros HA HB Hk. unfold bmul. rewrite (nth_map_lt _ (combine A B) ([], []) _ k) by (rewrite combine_length; lia).
  rewrite combine_nth by lia. reflexivity.
Qed.
Lemma bmul_ok A B : ok A -> ok B -> ok (bmul A B).
Proof.
  intros [HA HrA] [HB HrB]. norm. split; [unfold bmul; norm; rewrite map_length, combine_length; lia|].
  intros k Hk. pose proof (bmul_nth A B k HA HB Hk) as E. norm. rewrite E. apply mmul_rect; [apply HrA|apply HrB]; exact Hk.
Qed.

Theorem place_mmul A B : ok A -> ok B -> rmmul (P A) (P B) = P (bmul A B).
Proof.
  intros HA HB. pose proof (place_rect A HA) as RA. pose proof (place_rect B HB) as RB.
  pose proof (bmul_ok A B HA HB) as HAB. pose proof (place_rect _ HAB) as RAB. pose proof (mmul_rect _ _ _ RA RB) as RM.
  pose proof (proj1 RM) as RMl. pose proof (proj1 RAB) as RABl. norm.
  apply (nth_ext _ _ [] []); [rewrite RMl, RABl; reflexivity|].
  intros i Hi. rewrite RMl in Hi.
  pose proof (rect_nth RS _ _ _ _ RM Hi) as RMi. pose proof (rect_nth RS _ _ _ _ RAB Hi) as RABi. norm.
  apply (nth_ext _ _ 0 0); [rewrite RMi, RABi; reflexivity|].
  intros j Hj. rewrite RMi in Hj.
  destruct (block_of i Hi) as (k & Hk & Hik). destruct (block_of j Hj) as (k' & Hk' & Hjk).
  pose proof (mnth_mmul _ _ N i j RA RB Hi Hj) as E1.
  pose proof (place_row A k i HA Hk Hik) as E2.
  pose proof (proj2 HA k Hk) as HAk. pose proof (proj2 HB k Hk) as HBk.
  assert (Hrow : length (nth (i - o k) (nth k A []) []) = sz k) by (apply (rect_nth RS _ _ _ _ HAk); lia).
  pose proof (place_col_part B k k' j HB Hk Hk' Hjk) as E3.
  pose proof (place_entry (bmul A B) k k' i j HAB Hk Hk' Hik Hjk) as E4.
  pose proof (bmul_nth A B k (proj1 HA) (proj1 HB) Hk) as E5.
  unfold mnth in E1, E4. norm. rewrite E1, E4, E2, dot_padded. norm. rewrite Hrow, E3.
  destruct (Nat.eq_dec k k') as [<-|Hne].
  - rewrite E5. symmetry. apply (mnth_mmul _ _ (sz k)); auto; lia.
  - apply dot_zeros_r.
Qed.
End BlockDiag.

(* ---- the placed identity blocks are the identity ---- *)
Lemma mnth_mid n i j : (i < n)%nat -> (j < n)%nat -> rmnth (@mid RS n) i j = if Nat.eq_dec i j then 1 else 0.
Proof.
  intros Hi Hj. unfold mnth, mid, unitv.
  rewrite (nth_map_lt _ (seq 0 n) 0%nat _ i) by (rewrite seq_length; exact Hi). rewrite seq_nth by exact Hi.
  rewrite (nth_map_lt _ (seq 0 n) 0%nat _ j) by (rewrite seq_length; exact Hj). rewrite seq_nth by exact Hj.
  cbn [Nat.add]. destruct (Nat.eq_dec i j) as [->|Hne]; [rewrite Nat.eqb_refl; reflexivity|].
  apply Nat.eqb_neq in Hne. rewrite Hne. reflexivity.
Qed.
Lemma mid_rect n : rect (@mid RS n) n n.
Proof.
  unfold mid, unitv. split; [rewrite map_length, seq_length; reflexivity|].
  apply Forall_forall. intros r Hr. apply in_map_iff in Hr. destruct Hr as (x & <- & _). rewrite map_length, seq_length. reflexivity.
Qed.

Section PlaceMid.
Variable L : list (GroupOps RS).
Variable f : GroupOps RS -> nat.
Local Notation N := (total L f).
Local Notation sz k := (nth k (map f L) 0%nat).
Local Notation o k := (off RS L f k).

Theorem place_mid (bl : list mat) : length bl = length L -> (forall k, (k < length L)%nat -> nth k bl [] = @mid RS (sz k)) ->
  place L f f bl = @mid RS N.
Proof.
  intros Hl Hb.
  assert (Hok : block_ok RS L f f bl) by (split; [exact Hl|intros k Hk; pose proof (Hb k Hk) as E; norm; rewrite E; apply mid_rect]).
  pose proof (place_rect L f bl Hok) as RP. pose proof (mid_rect N) as RI.
  pose proof (proj1 RP) as RPl. pose proof (proj1 RI) as RIl. norm.
  apply (nth_ext _ _ [] []); [rewrite RPl, RIl; reflexivity|].
  intros i Hi. rewrite RPl in Hi.
  pose proof (rect_nth RS _ _ _ _ RP Hi) as RPi. pose proof (rect_nth RS _ _ _ _ RI Hi) as RIi. norm.
  apply (nth_ext _ _ 0 0); [rewrite RPi, RIi; reflexivity|].
  intros j Hj. rewrite RPi in Hj.
  destruct (block_of L f i Hi) as (k & Hk & Hik). destruct (block_of L f j Hj) as (k' & Hk' & Hjk).
  pose proof (place_entry L f bl k k' i j Hok Hk Hk' Hik Hjk) as E1.
  pose proof (mnth_mid N i j Hi Hj) as E2. pose proof (Hb k Hk) as E3. unfold mnth in E1, E2. norm. rewrite E1, E2, E3.
  destruct (Nat.eq_dec k k') as [<-|Hne].
  - pose proof (mnth_mid (sz k) (i - o k) (j - o k) ltac:(lia) ltac:(lia)) as E4. unfold mnth in E4. norm. rewrite E4.
    destruct (Nat.eq_dec (i - o k) (j - o k)), (Nat.eq_dec i j); try reflexivity; exfalso; lia.
  - destruct (Nat.eq_dec i j) as [->|]; [|reflexivity]. exfalso. apply Hne. apply (blocks_disjoint L f k k' j Hk Hk'); assumption.
Qed.
End PlaceMid.
