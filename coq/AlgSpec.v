(* AlgSpec.v — specification layer for the Lie-algebra structure (property C07):
   what it means for the model's hat / vee / generators / bracket / inner
   product to be a Lie algebra of matrices with the Frobenius inner product.
   Everything is a statement about the model's functions at the real instance
   and the generic matrix operations of Mat.v. *)
From Coq Require Import Reals ZArith List.
From Manif Require Import Scalar Mat Group RInst Generic LieSpec.
Import ListNotations.
Local Open Scope R_scope.

(* sum_i t_i * B_i over the first dof indices, as n x n matrices *)
Definition lincomb (dof n : nat) (t : list R) (B : nat -> list (list R)) : list (list R) :=
  fold_right (fun i acc => @madd RS (@mscale RS (@vnth RS t i) (B i)) acc) (@mzero RS n n) (seq 0 dof).

Definition int_range (i : Z) : Prop := (-2147483648 <= i < 2147483648)%Z.   (* the C++ `int` *)

Record AlgLaws (G : GroupOps RS) : Prop := mkAlg {
  (* Generator(i), 0 <= i < DoF, is the i-th basis matrix hat(e_i); any other int raises *)
  al_gen_ok : forall i, (i < g_dof G)%nat ->
     g_generator G (Z.of_nat i) = Ok (g_hat G (@unitv RS (g_dof G) i));
  al_gen_oob : forall i, int_range i -> (i < 0 \/ Z.of_nat (g_dof G) <= i)%Z ->
     g_generator G i = InvalidArgument;
  (* hat is the linear combination of the generators, and Vee inverts it *)
  al_hat_gen : forall t, length t = g_dof G ->
     g_hat G t = lincomb (g_dof G) (g_alg G) t (fun i => g_hat G (@unitv RS (g_dof G) i));
  al_hat_linear : forall a b c, length a = g_dof G -> length b = g_dof G ->
     g_hat G (@vadd RS a (@vscale RS c b)) = @madd RS (g_hat G a) (@mscale RS c (g_hat G b));
  al_vee_hat : forall t, length t = g_dof G -> g_vee G (g_hat G t) = t;
  (* the bracket is the matrix commutator; bilinear, antisymmetric, Jacobi *)
  al_bracket : forall a b, length a = g_dof G -> length b = g_dof G ->
     g_hat G (g_bracket G a b) = commutator (g_hat G a) (g_hat G b);
  al_bracket_len : forall a b, length a = g_dof G -> length b = g_dof G ->
     length (g_bracket G a b) = g_dof G;
  al_bracket_antisym : forall a b, length a = g_dof G -> length b = g_dof G ->
     g_bracket G a b = @vneg RS (g_bracket G b a);
  al_bracket_linear_l : forall a b c d, length a = g_dof G -> length b = g_dof G -> length d = g_dof G ->
     g_bracket G (@vadd RS a (@vscale RS c b)) d = @vadd RS (g_bracket G a d) (@vscale RS c (g_bracket G b d));
  al_jacobi : forall a b c, length a = g_dof G -> length b = g_dof G -> length c = g_dof G ->
     @vadd RS (@vadd RS (g_bracket G a (g_bracket G b c)) (g_bracket G b (g_bracket G c a)))
              (g_bracket G c (g_bracket G a b)) = @vzero RS (g_dof G);
  (* inner is the Frobenius inner product of the hats; weights symmetric positive definite *)
  al_inner_frob : forall a b, length a = g_dof G -> length b = g_dof G ->
     t_inner G a b = @trace RS (@mmul RS (g_hat G a) (@mT RS (g_hat G b)));
  al_w_sym : @mT RS (g_innerweights G) = g_innerweights G;
  al_w_pos : forall t, length t = g_dof G -> 0 <= t_inner G t t;
  al_w_def : forall t, length t = g_dof G -> t_inner G t t = 0 -> t = @vzero RS (g_dof G);
  al_wnorm : forall t, length t = g_dof G -> t_wnorm G t * t_wnorm G t = t_sqwnorm G t
}.
