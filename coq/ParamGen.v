(* ParamGen.v — the chain of ParamRun.v for ANY function written over the scalar record (not only the opcodes of run_op): given
   its abstraction theorem (one Paramcoq command), local agreement of its runs with comparisons decided at h and at 0, and the
   side conditions of an output entry, the dual part of that entry over dual numbers is the derivative of the real-number
   function along the seeded direction. *)
From Param Require Import Param.
From Coq Require Import Reals ZArith List Lra Lia.
From Coquelicot Require Import Coquelicot.
From Manif Require Import ParamBase Scalar RInst Dual DualProofs ParamDual Mat Consts Group Run ParamRun.
Import ListNotations.
Local Open Scope R_scope.

Definition seedv (x dx : list R) : list (R * R) := combine x dx.
Definition linev (x dx : list R) : list fk := map (fun q => line1 (fst q) (snd q)) (combine x dx).
Definition atv (h : R) (x dx : list R) : list R := map (fun q => fst q + h * snd q) (combine x dx).
Lemma seedv_linev x dx : Forall2 trk (seedv x dx) (linev x dx).
Proof. unfold seedv, linev. induction (combine x dx) as [|q m IH]; cbn [map]; constructor; [destruct q; apply trk_line|exact IH]. Qed.
Lemma linev_atv h x dx : Forall2 (evh h) (linev x dx) (atv h x dx).
Proof. unfold linev, atv. induction (combine x dx) as [|q m IH]; cbn [map]; constructor; [reflexivity|exact IH]. Qed.

Section Gen.
(* a function of the threshold and one coefficient vector, for every scalar record, with its abstraction theorem *)
Variable f : forall F : Sc, K F -> list (K F) -> list (K F).
Hypothesis f_R : forall (F1 F2 : Sc) (FR : Sc_R F1 F2) (e1 : K F1) (e2 : K F2), K_R F1 F2 FR e1 e2 ->
  forall (a1 : list (K F1)) (a2 : list (K F2)), list_R (K F1) (K F2) (K_R F1 F2 FR) a1 a2 ->
  list_R (K F1) (K F2) (K_R F1 F2 FR) (f F1 e1 a1) (f F2 e2 a2).

Lemma Forall2_nth_rel {A B} (Rl : A -> B -> Prop) l1 l2 j d1 d2 : Forall2 Rl l1 l2 -> (j < length l1)%nat -> Rl (nth j l1 d1) (nth j l2 d2).
Proof. intros H. revert j. induction H as [|a b l1 l2 Hab H IH]; intros j Hj; [cbn in Hj; lia|]. destruct j as [|j]; [exact Hab|]. cbn [nth]. apply IH. cbn in Hj. lia. Qed.

Theorem chain_generic (eps : R) (x dx : list R) j :
  locally 0 (fun h => f (FSh h) (fconst eps) (linev x dx) = f FS (fconst eps) (linev x dx)) ->
  (j < length (f (DS RS) (eps, 0%R) (seedv x dx)))%nat ->
  fok (nth j (f FS (fconst eps) (linev x dx)) (fconst 0)) ->
  is_derive (fun h => nth j (f RS eps (atv h x dx)) 0) 0 (snd (nth j (f (DS RS) (eps, 0%R) (seedv x dx)) (0%R, 0%R))).
Proof.
  intros Hloc Hj Hok.
  assert (HT : Forall2 trk (f (DS RS) (eps, 0%R) (seedv x dx)) (f FS (fconst eps) (linev x dx))).
  { apply (list_R_Forall2 trk). apply (f_R (DS RS) FS DF_R (eps, 0%R) (fconst eps) (trk_const eps)). apply (Forall2_list_R trk). apply seedv_linev. }
  destruct (Forall2_nth_rel trk _ _ j (0%R, 0%R) (fconst 0) HT Hj) as [_ Hd].
  apply (is_derive_ext_loc (fun h => fn (nth j (f FS (fconst eps) (linev x dx)) (fconst 0)) h)); [|exact (Hd Hok)].
  apply (filter_imp (fun h => f (FSh h) (fconst eps) (linev x dx) = f FS (fconst eps) (linev x dx))); [|exact Hloc].
  intros h Hh.
  assert (HE : Forall2 (evh h) (f (FSh h) (fconst eps) (linev x dx)) (f RS eps (atv h x dx))).
  { apply (list_R_Forall2 (evh h)). apply (f_R (FSh h) RS (Fh_R h) (fconst eps) eps (eq_refl : evh h (fconst eps) eps)). apply (Forall2_list_R (evh h)). apply linev_atv. }
  rewrite Hh in HE.
  assert (Hj' : (j < length (f FS (fconst eps) (linev x dx)))%nat) by (exact (eq_ind _ (fun n => (j < n)%nat) Hj _ (Forall2_length2 _ _ _ HT))).
  exact (Forall2_nth_rel (evh h) _ _ j (fconst 0) 0 HE Hj').
Qed.
End Gen.
Print Assumptions chain_generic.
