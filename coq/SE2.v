(* SE2.v — model of impl/se2/SE2_base.h, SE2Tangent_base.h.
   Coefficients: [x; y; real; imag].  Tangent: [x; y; angle]. *)
From Coq Require Import ZArith List Bool.
Import ListNotations.
From Manif Require Import Scalar Mat Consts Group SO2.

Section SE2.
Variable F : Sc.
Variable eps : K F.
Local Notation "a + b" := (kadd F a b) : k_scope.
Local Notation "a - b" := (ksub F a b) : k_scope.
Local Notation "a * b" := (kmul F a b) : k_scope.
Local Notation "a / b" := (kdiv F a b) : k_scope.
Local Notation "- a" := (kopp F a) : k_scope.
Local Open Scope k_scope.
Local Notation "0" := (k0 F) : k_scope.
Local Notation "1" := (k1 F) : k_scope.

Definition se2_x (c : list (K F)) := vnth c 0.
Definition se2_y (c : list (K F)) := vnth c 1.
Definition se2_real (c : list (K F)) := vnth c 2.
Definition se2_imag (c : list (K F)) := vnth c 3.
Definition se2_angle (c : list (K F)) : K F := katan2 F (se2_imag c) (se2_real c).

Definition se2_rotation (c : list (K F)) : list (list (K F)) :=
  [[se2_real c; - se2_imag c]; [se2_imag c; se2_real c]].
Definition se2_translation (c : list (K F)) : list (K F) := [se2_x c; se2_y c].
Definition se2_transform (c : list (K F)) : list (list (K F)) :=
  [[se2_real c; - se2_imag c; se2_x c]; [se2_imag c; se2_real c; se2_y c]; [0; 0; 1]].

Definition se2_adj (c : list (K F)) : list (list (K F)) :=
  [[se2_real c; - se2_imag c; se2_y c]; [se2_imag c; se2_real c; - se2_x c]; [0; 0; 1]].

(* SE2(x, y, theta) constructor: SE2(x, y, cos(theta), sin(theta)) *)
Definition se2_from_angle (x y theta : K F) : list (K F) := [x; y; kcos F theta; ksin F theta].

(* SE2Base::inverse (after fix: the conjugate complex number, not cos/sin of -angle()) *)
Definition se2_inverse (c : list (K F)) : list (K F) :=
  [- se2_x c * se2_real c - se2_y c * se2_imag c;
   se2_x c * se2_imag c - se2_y c * se2_real c;
   se2_real c; - se2_imag c].
Definition se2_inverse_J (c : list (K F)) : list (list (K F)) := mneg (se2_adj c).

(* A = sin t / t, B = (1 - cos t)/t with the Taylor branch on theta_sq < eps *)
Definition se2_AB (theta cos_theta sin_theta : K F) : K F * K F :=
  let theta_sq := theta * theta in
  if kltb F theta_sq eps
  then (kz 1 - c_1_6d * theta_sq, c_half * theta - c_1_24d * theta * theta_sq)
  else (sin_theta / theta, (kz 1 - cos_theta) / theta).

Definition se2_rjacinv (t : list (K F)) : list (list (K F)) :=
  let x := vnth t 0 in let y := vnth t 1 in let theta := vnth t 2 in
  let cos_theta := kcos F theta in let sin_theta := ksin F theta in
  let theta_sq := theta * theta in
  let A := theta * sin_theta in let B := theta * cos_theta in
  let j01 := - theta * c_half in
  let j10 := - j01 in
  if kgtb theta_sq eps then
    let j00 := - A / (kz 2 * cos_theta - kz 2) in
    let den := kz 2 * theta * (cos_theta - kz 1) in
    [[j00; j01; (A * x + B * y - theta * y + kz 2 * x * cos_theta - kz 2 * x) / den];
     [j10; j00; (- B * x + A * y + theta * x + kz 2 * y * cos_theta - kz 2 * y) / den];
     [kz 0; kz 0; kz 1]]
  else
    let j00 := kz 1 - theta_sq / kz 12 in
    [[j00; j01; y / kz 2 + theta * x / kz 12];
     [j10; j00; - x / kz 2 + theta * y / kz 12];
     [kz 0; kz 0; kz 1]].

Definition se2_ljacinv (t : list (K F)) : list (list (K F)) :=
  let x := vnth t 0 in let y := vnth t 1 in let theta := vnth t 2 in
  let cos_theta := kcos F theta in let sin_theta := ksin F theta in
  let theta_sq := theta * theta in
  let A := theta * sin_theta in let B := theta * cos_theta in
  let j01 := theta * c_half in
  let j10 := - j01 in
  if kgtb theta_sq eps then
    let j00 := - A / (kz 2 * cos_theta - kz 2) in
    let den := kz 2 * theta * (cos_theta - kz 1) in
    [[j00; j01; (A * x - B * y + theta * y + kz 2 * x * cos_theta - kz 2 * x) / den];
     [j10; j00; (B * x + A * y - theta * x + kz 2 * y * cos_theta - kz 2 * y) / den];
     [kz 0; kz 0; kz 1]]
  else
    let j00 := kz 1 - theta_sq / kz 12 in
    [[j00; j01; - y / kz 2 + theta * x / kz 12];
     [j10; j00; x / kz 2 + theta * y / kz 12];
     [kz 0; kz 0; kz 1]].

Definition se2_log (c : list (K F)) : list (K F) :=
  let theta := se2_angle c in
  let '(A, B) := se2_AB theta (se2_real c) (se2_imag c) in
  let den := kz 1 / (A * A + B * B) in
  let A := A * den in let B := B * den in
  [A * se2_x c + B * se2_y c; - B * se2_x c + A * se2_y c; theta].
Definition se2_log_J (c : list (K F)) : list (list (K F)) := se2_rjacinv (se2_log c).

Definition se2_compose (a b : list (K F)) : list (K F) :=
  let lr := se2_real a in let li := se2_imag a in
  let rr := se2_real b in let ri := se2_imag b in
  let re := lr * rr - li * ri in
  let im := lr * ri + li * rr in
  let '(re, im) := renorm2 F eps re im in
  [lr * se2_x b - li * se2_y b + se2_x a; li * se2_x b + lr * se2_y b + se2_y a; re; im].
Definition se2_compose_Ja (a b : list (K F)) : list (list (K F)) := se2_adj (se2_inverse b).
Definition se2_compose_Jb (a b : list (K F)) : list (list (K F)) := mid 3.

Definition se2_act (c v : list (K F)) : list (K F) := vadd (se2_translation c) (mvmul (se2_rotation c) v).
Definition se2_act_Jm (c v : list (K F)) : list (list (K F)) :=
  hcat (se2_rotation c) (colvec (mvmul (se2_rotation c) (mvmul (skew1 F (kz 1)) v))).
Definition se2_act_Jv (c v : list (K F)) : list (list (K F)) := se2_rotation c.

Definition se2_normalize (c : list (K F)) : list (K F) :=
  firstn 2 c ++ eigen_normalize F (skipn 2 c).
Definition se2_assert_ok (c : list (K F)) : bool :=
  kltb F (kabs (eigen_norm F (skipn 2 c) - kz 1)) eps.

(* tangent *)
Definition se2_hat (t : list (K F)) : list (list (K F)) :=
  let x := vnth t 0 in let y := vnth t 1 in let theta := vnth t 2 in
  [[kz 0; - theta; x]; [theta; kz 0; y]; [kz 0; kz 0; kz 0]].

Definition se2_exp (t : list (K F)) : list (K F) :=
  let x := vnth t 0 in let y := vnth t 1 in let theta := vnth t 2 in
  let cos_theta := kcos F theta in let sin_theta := ksin F theta in
  let '(A, B) := se2_AB theta cos_theta sin_theta in
  [A * x - B * y; B * x + A * y; cos_theta; sin_theta].

Definition se2_rjac (t : list (K F)) : list (list (K F)) :=
  let x := vnth t 0 in let y := vnth t 1 in let theta := vnth t 2 in
  let cos_theta := kcos F theta in let sin_theta := ksin F theta in
  let theta_sq := theta * theta in
  let '(A, B) := se2_AB theta cos_theta sin_theta in
  let '(j02, j12) :=
    if kltb F theta_sq eps
    then (- y / kz 2 + theta * x / kz 6, x / kz 2 + theta * y / kz 6)
    else ((- y + theta * x + y * cos_theta - x * sin_theta) / theta_sq,
          (x + theta * y - x * cos_theta - y * sin_theta) / theta_sq) in
  [[A; B; j02]; [- B; A; j12]; [0; 0; 1]].

Definition se2_ljac (t : list (K F)) : list (list (K F)) :=
  let x := vnth t 0 in let y := vnth t 1 in let theta := vnth t 2 in
  let cos_theta := kcos F theta in let sin_theta := ksin F theta in
  let theta_sq := theta * theta in
  let '(A, B) := se2_AB theta cos_theta sin_theta in
  let '(j02, j12) :=
    if kltb F theta_sq eps
    then (y / kz 2 + theta * x / kz 6, - x / kz 2 + theta * y / kz 6)
    else ((y + theta * x - y * cos_theta - x * sin_theta) / theta_sq,
          (- x + theta * y + x * cos_theta - y * sin_theta) / theta_sq) in
  [[A; - B; j02]; [B; A; j12]; [0; 0; 1]].

Definition se2_smallAdj (t : list (K F)) : list (list (K F)) :=
  let x := vnth t 0 in let y := vnth t 1 in let theta := vnth t 2 in
  [[0; - theta; y]; [theta; 0; - x]; [0; 0; 0]].

Definition se2_generator (i : Z) : res (list (list (K F))) :=
  match to_unsigned32 i with
  | 0%Z => Ok [[kz 0; kz 0; kz 1]; [kz 0; kz 0; kz 0]; [kz 0; kz 0; kz 0]]
  | 1%Z => Ok [[kz 0; kz 0; kz 0]; [kz 0; kz 0; kz 1]; [kz 0; kz 0; kz 0]]
  | 2%Z => Ok [[kz 0; kz (-1); kz 0]; [kz 1; kz 0; kz 0]; [kz 0; kz 0; kz 0]]
  | _ => InvalidArgument
  end.
Definition se2_vee (m : list (list (K F))) : list (K F) := [mnth m 0 2; mnth m 1 2; mnth m 1 0].
Definition se2_innerweights : list (list (K F)) :=
  [[kz 1; kz 0; kz 0]; [kz 0; kz 1; kz 0]; [kz 0; kz 0; kz 2]].
Definition se2_trandom (u : list (K F)) : list (K F) :=
  [vnth u 0; vnth u 1; vnth u 2 * c_pi].

Definition SE2 : GroupOps F := {|
  g_dim := 2; g_dof := 3; g_rep := 4; g_tra := 3; g_alg := 3; g_actdim := 2;
  g_inverse := se2_inverse; g_inverse_J := se2_inverse_J;
  g_log := se2_log; g_log_J := se2_log_J;
  g_compose := se2_compose; g_compose_Ja := se2_compose_Ja; g_compose_Jb := se2_compose_Jb;
  g_act := se2_act; g_act_Jm := se2_act_Jm; g_act_Jv := se2_act_Jv;
  g_adj := se2_adj; g_transform := se2_transform; g_rotation := se2_rotation;
  g_translation := se2_translation; g_normalize := se2_normalize; g_assert_ok := se2_assert_ok;
  g_exp := se2_exp; g_exp_J := se2_rjac; g_hat := se2_hat;
  g_rjac := se2_rjac; g_ljac := se2_ljac; g_rjacinv := se2_rjacinv; g_ljacinv := se2_ljacinv;
  g_smallAdj := se2_smallAdj; g_generator := se2_generator; g_vee := se2_vee;
  g_bracket := fun a b => mvmul (se2_smallAdj a) b;
  g_innerweights := se2_innerweights;
  g_trandom := se2_trandom;
  g_grandom := fun u => se2_exp (se2_trandom u)
|}.
End SE2.
