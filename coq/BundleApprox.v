(* BundleApprox.v — C18 on a Bundle: X.isApprox(X, e) holds for EVERY valid element of Bundle<SO3, R3, SE3>, at any coordinates:
   Approx.g_isApprox_refl (any GroupCore with log(identity) = 0) at BundleGroup.Bundle_core; log(identity) = 0 for the Bundle is
   BundleLaws.bundle_log_exp on the zero tangents of the elements. *)
From Coq Require Import Reals List Lia Lra.
From Manif Require Import Scalar Mat Group RInst Generic LieSpec Bundle BundleProofs BundleLaws BundleInst BundleCore BundleGroup
  SO3 SE3 Rn SO3Proofs Approx Approx_Inst BundleLogExp BundleCoreValid BundleRoundTrip.
Import ListNotations.
Local Open Scope R_scope.
Section S.
Variable eps : R. Hypothesis H : 0 < eps.

Definition Dz (i : nat) (t : list R) : Prop := t = @vzero RS (g_dof (nth i (L3 eps) (Rn RS 3))).
Definition Vz (i : nat) (X : list R) : Prop := X = g_identity (nth i (L3 eps) (Rn RS 3)).

Lemma bundle3_log_identity : g_log (Bundle (L3 eps)) (g_identity (Bundle (L3 eps))) = @vzero RS (g_dof (Bundle (L3 eps))).
Proof.
  change (g_identity (Bundle (L3 eps))) with (g_exp (Bundle (L3 eps)) (concat [@vzero RS 3; @vzero RS 3; @vzero RS 6])).
  change (@vzero RS (g_dof (Bundle (L3 eps)))) with (concat [@vzero RS 3; @vzero RS 3; @vzero RS 6]).
  apply (bundle_log_exp RS (L3 eps) (Rn RS 3) Vz) with (D := Dz).
  - intros i X Hi ->. destruct i as [|[|[|i]]]; [| | |cbn in Hi; lia]; cbn [nth L3].
    + rewrite (so3_identity_eq eps H). reflexivity.
    + reflexivity.
    + rewrite (se3_identity_eq eps H). reflexivity.
  - intros i t Hi ->. destruct i as [|[|[|i]]]; [| | |cbn in Hi; lia]; reflexivity.
  - intros i t Hi ->. reflexivity.
  - intros i X Hi ->. destruct i as [|[|[|i]]]; [| | |cbn in Hi; lia]; cbn [nth L3].
    + rewrite (so3_log_identity eps H). reflexivity.
    + reflexivity.
    + rewrite (se3_log_identity eps H). reflexivity.
  - intros i t Hi ->. destruct i as [|[|[|i]]]; [| | |cbn in Hi; lia]; cbn [nth L3].
    + exact (so3_log_identity eps H).
    + reflexivity.
    + exact (se3_log_identity eps H).
  - split; [reflexivity|]. intros i Hi. destruct i as [|[|[|i]]]; [| | |cbn in Hi; lia]; reflexivity.
Qed.

Theorem bundle3_isApprox_refl X e : gc_valid (C3 eps H) X -> 0 < e -> g_isApprox (Bundle (L3 eps)) X X e = true.
Proof. apply (g_isApprox_refl _ (C3 eps H) bundle3_log_identity). Qed.
End S.
