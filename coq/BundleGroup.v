(* BundleGroup.v — the Bundle of groups that satisfy the C01 laws satisfies the C01 laws: a GroupCore (LieSpec.v) for
   Bundle L, for ANY list L of element groups given with their GroupCores (packs).  Everything proved for a GroupCore
   (GroupLaws = the statement of C01, the round trips of C04, the isApprox facts of C18, ...) therefore applies to Bundles,
   and Bundles nest.  The homogeneous point of a Bundle is the concatenation of the elements' homogeneous sub-points. *)
From Coq Require Import Reals List Lia Lra.
From Manif Require Import Scalar Mat Group RInst Tac Generic LieSpec Bundle BundleProofs BundleLaws BundleInst BlockMul BundleCore BlockVec
  SO2 SE2 SO3 SE3 SE23 SGal3 Rn SE2Proofs SO3Proofs SE23Proofs RnProofs.
Import ListNotations.
Local Open Scope R_scope.

Record PackedG : Type := mkPackedG {
  g_m : PackedM;
  g_actdim_eq : g_actdim (p_G (m_pack g_m)) = g_dim (p_G (m_pack g_m));
  g_act_len : forall X v, gc_valid (p_core (m_pack g_m)) X -> length v = g_dim (p_G (m_pack g_m)) ->
     length (g_act (p_G (m_pack g_m)) X v) = g_dim (p_G (m_pack g_m));
  g_hom_len : forall p, length p = g_dim (p_G (m_pack g_m)) -> length (gc_hom (p_core (m_pack g_m)) p) = g_tra (p_G (m_pack g_m));
  g_homo_len : forall X q, length q = g_dim (p_G (m_pack g_m)) -> length (gc_homo (p_core (m_pack g_m)) X q) = g_tra (p_G (m_pack g_m))
}.

Section Packs.
Variable LG : list PackedG.
Variable dG : PackedG.
Let LM := map g_m LG.
Let dM := g_m dG.
Let LP := map m_pack LM.
Let dP := m_pack dM.
Let L := map p_G LP.
Let d := p_G dP.
Let V (i : nat) (X : list R) : Prop := gc_valid (p_core (nth i LP dP)) X.
Local Notation n := (@length (GroupOps RS) L).
Local Notation Ci i := (p_core (nth i LP dP)).

Lemma nthLM i : nth i LM dM = g_m (nth i LG dG).
Proof. unfold LM, dM. apply map_nth. Qed.
Lemma nthLP2 i : nth i LP dP = m_pack (nth i LM dM).
Proof. unfold LP, dP. apply map_nth. Qed.
Lemma nthL2 i : nth i L d = p_G (nth i LP dP).
Proof. unfold L, d. apply map_nth. Qed.

Definition bhom (p : list R) : list R :=
  concat (imap L (fun i _ => gc_hom (Ci i) (vslice p (idx L g_dim i) (g_dim (nth i L d))))).
Definition bhomo (X q : list R) : list R :=
  concat (imap L (fun i _ => gc_homo (Ci i) (el L X i (nth i L d)) (vslice q (idx L g_dim i) (g_dim (nth i L d))))).

Local Notation VS := (BundleCore.V_size LM dM).
Local Notation VC := (BundleCore.V_compose LM dM).

Lemma slice_len (p : list R) i : length p = total L g_dim -> (i < n)%nat -> length (vslice p (idx L g_dim i) (g_dim (nth i L d))) = g_dim (nth i L d).
Proof.
  intros Hp Hi. pose proof (slices_sized L d g_dim p Hp) as Hs.
  pose proof (sized_nth RS L d g_dim _ i Hs Hi) as H. unfold slices in H. rewrite (nth_imap RS L d _ [] i Hi) in H. exact H.
Qed.

Theorem bundle_act_M X p : bvalid RS L V X -> length p = g_actdim (Bundle L) ->
  bhomo X (g_act (Bundle L) X p) = @mvmul RS (g_transform (Bundle L) X) (bhom p).
Proof.
  intros [ps [Hp ->]] Hlen. cbn [g_actdim Bundle] in Hlen.
  pose proof (valid_sized RS L d V VS ps Hp) as Hsz.
  (* act is element-wise on the parts and the slices of p *)
  set (acts := imap L (fun i G => g_act G (nth i ps []) (vslice p (idx L g_dim i) (g_dim G)))).
  assert (Hact : g_act (Bundle L) (concat ps) p = concat acts).
  { cbn [g_act Bundle]. unfold b_act, vel, el, acts.
    rewrite (imap_ext RS L d (fun i G => g_act G (vslice (concat ps) (idx L g_rep i) (g_rep G)) (vslice p (idx L g_dim i) (g_dim G)))
                            (fun i G => g_act G (nth i ps []) (vslice p (idx L g_dim i) (g_dim G))))
      by (intros i Hi; rewrite (view_concat RS L d g_rep ps i Hsz Hi); reflexivity).
    apply assemble_is_concat. apply (sized_imap RS L d). intros i Hi.
    rewrite nthL2, nthLP2, nthLM. apply g_act_len.
    - pose proof (proj2 Hp i Hi) as Hv. unfold V in Hv. rewrite nthLP2, nthLM in Hv. exact Hv.
    - pose proof (slice_len p i Hlen Hi) as Hsl. rewrite nthL2, nthLP2, nthLM in Hsl. exact Hsl. }
  assert (Hacts : sized RS L g_dim acts).
  { apply (sized_imap RS L d). intros i Hi. rewrite nthL2, nthLP2, nthLM. apply g_act_len.
    - pose proof (proj2 Hp i Hi) as Hv. unfold V in Hv. rewrite nthLP2, nthLM in Hv. exact Hv.
    - pose proof (slice_len p i Hlen Hi) as Hsl. rewrite nthL2, nthLP2, nthLM in Hsl. exact Hsl. }
  rewrite Hact. unfold bhomo, bhom.
  rewrite (BundleCore.transform_is_BM LM), (BundleCore.BM_parts LM dM g_tra _ ps Hp).
  pose (homs := imap L (fun i _ => gc_hom (Ci i) (vslice p (idx L g_dim i) (g_dim (nth i L d))))).
  assert (Hhoms : sized RS L g_tra homs).
  { apply (sized_imap RS L d). intros i Hi. rewrite nthL2, nthLP2, nthLM. apply g_hom_len.
    pose proof (slice_len p i Hlen Hi) as Hsl. rewrite nthL2, nthLP2, nthLM in Hsl. exact Hsl. }
  pose proof (place_mvmul L d g_tra _ homs (BundleCore.mparts_ok LM dM g_tra _ (BundleCore.T_rect LM dM) ps Hp) Hhoms) as HPM.
  etransitivity; [|symmetry; exact HPM].
  apply (f_equal (@concat R)). apply (imap_ext RS L d). intros i Hi.
  pose proof (view_concat RS L d g_rep ps i Hsz Hi) as E1. pose proof (view_concat RS L d g_dim acts i Hacts Hi) as E2.
  unfold el. cbn [K RS] in *. rewrite E1, E2.
  unfold acts, homs, BundleCore.mparts. rewrite !(nth_imap RS L d _ [] i Hi).
  rewrite nthL2. apply (gc_act_M _ (Ci i)).
  - exact (proj2 Hp i Hi).
  - pose proof (slice_len p i Hlen Hi) as Hsl. rewrite nthL2 in Hsl. etransitivity; [exact Hsl|]. symmetry.
    rewrite nthLP2, nthLM. apply g_actdim_eq.
Qed.

Definition Bundle_core : GroupCore (Bundle L).
Proof.
  pose proof (bundle_matrix_laws LM dM) as BM. fold LP in BM. fold L in BM. fold dP in BM. fold V in BM.
  destruct BM as [[cv iv idv asc nl nr il ir] cM iM _ _].
  exact (mkCore (Bundle L) (bvalid RS L V) bhom bhomo cv iv idv cM iM bundle_act_M asc nl nr il ir).
Defined.
End Packs.

(* packs of the group families *)
Ltac vec_of_len v H := repeat (destruct v as [|? v]; cbn [length] in H; try discriminate H); clear H.
Ltac act_len := let X := fresh "X" in let v := fresh "v" in let HV := fresh "HV" in let Hl := fresh "Hl" in
  intros X v HV Hl; cbn in HV; hnf in HV;
  repeat (match type of HV with ex _ => let x := fresh in destruct HV as [x HV] end); destruct HV as [-> _];
  cbn in Hl; vec_of_len v Hl; reflexivity.
Ltac hom_len := intros; cbn; unfold hom2, hom3, hom10, hom01, hom_t1, homn; rewrite app_length; cbn in *; lia.
Definition SO2_packG eps (H : 0 < eps) : PackedG. Proof. refine (mkPackedG (SO2_packM eps H) eq_refl _ _ _); [act_len|hom_len|hom_len]. Defined.
Definition SE2_packG eps (H : 0 < eps) : PackedG. Proof. refine (mkPackedG (SE2_packM eps H) eq_refl _ _ _); [act_len|hom_len|hom_len]. Defined.
Definition SO3_packG eps (H : 0 < eps) : PackedG. Proof. refine (mkPackedG (SO3_packM eps H) eq_refl _ _ _); [act_len|hom_len|hom_len]. Defined.
Definition SE3_packG eps (H : 0 < eps) : PackedG. Proof. refine (mkPackedG (SE3_packM eps H) eq_refl _ _ _); [act_len|hom_len|hom_len]. Defined.
Definition SE23_packG eps (H : 0 < eps) : PackedG. Proof. refine (mkPackedG (SE23_packM eps H) eq_refl _ _ _); [act_len|hom_len|hom_len]. Defined.
Definition SGal3_packG eps (H : 0 < eps) : PackedG. Proof. refine (mkPackedG (SGal3_packM eps H) eq_refl _ _ _); [act_len|hom_len|hom_len]. Defined.
Ltac rn_act_len := let X := fresh "X" in let v := fresh "v" in let HV := fresh "HV" in let Hl := fresh "Hl" in
  intros X v HV Hl; cbn in HV; hnf in HV; cbn in Hl; vec_of_len X HV; vec_of_len v Hl; reflexivity.
Definition R1_packG : PackedG. Proof. refine (mkPackedG R1_packM eq_refl _ _ _); [rn_act_len|hom_len|hom_len]. Defined.
Definition R2_packG : PackedG. Proof. refine (mkPackedG R2_packM eq_refl _ _ _); [rn_act_len|hom_len|hom_len]. Defined.
Definition R3_packG : PackedG. Proof. refine (mkPackedG R3_packM eq_refl _ _ _); [rn_act_len|hom_len|hom_len]. Defined.
Definition R5_packG : PackedG. Proof. refine (mkPackedG R5_packM eq_refl _ _ _); [rn_act_len|hom_len|hom_len]. Defined.
