#!/usr/bin/env python3
"""statics_scan.py — enumerate, from clang's AST of a translation unit that includes all of manif, every variable with static
storage duration (function-local statics, static data members, namespace-scope variables), every `mutable` field and every
const_cast in /repo/include/manif.  Output: a list of dicts (and, with --coq, the regenerated Coq table for property C14)."""
import json, os, subprocess, sys, tempfile

REPO = os.environ.get("VERIF_REPO", "/repo")
TU = '#include <manif/manif.h>\n#include <manif/Bundle.h>\n#include <manif/algorithms/interpolation.h>\n#include <manif/algorithms/average.h>\n#include <manif/algorithms/decasteljau.h>\n#include <manif/functions.h>\n'

def dump_ast(workdir):
    src = os.path.join(workdir, "statics_tu.cpp")
    open(src, "w").write(TU)
    out = os.path.join(workdir, "statics_ast.json")
    with open(out, "w") as f:
        p = subprocess.run(["clang++", "-std=c++11", "-fsyntax-only", "-I%s/include" % REPO, "-I%s/external/tl" % REPO, "-I/usr/include/eigen3",
                            "-Xclang", "-ast-dump=json", "-Xclang", "-ast-dump-filter=manif", src], stdout=f, stderr=subprocess.PIPE, text=True, timeout=600)
    if p.returncode != 0 and os.path.getsize(out) == 0:
        raise RuntimeError("clang failed: " + p.stderr[-2000:])
    return out

def objects(path):
    txt = open(path).read(); dec = json.JSONDecoder(); i = 0; n = len(txt)
    while i < n:
        while i < n and txt[i] in " \r\n\t": i += 1
        if i >= n: break
        obj, j = dec.raw_decode(txt, i); i = j
        yield obj

class Walker:
    def __init__(self):
        self.file = None; self.line = None; self.rows = []; self.seen = set()
    def loc(self, d):
        # clang prints "file"/"line" only when they change with respect to the previously printed location
        for key in ("spellingLoc", "expansionLoc"):
            if key in d: self.loc(d[key])
        if "file" in d: self.file = d["file"]
        if "line" in d: self.line = d["line"]
    def walk(self, node, in_function=False, in_record=False):
        if not isinstance(node, dict): return
        here = None
        if "loc" in node and isinstance(node["loc"], dict):
            self.loc(node["loc"]); here = (self.file, self.line)
        if "range" in node and isinstance(node["range"], dict):
            for k in ("begin", "end"):
                if k in node["range"]: self.loc(node["range"][k])
        kind = node.get("kind")
        if here and here[0] and "/include/manif/" in here[0]:
            key = None
            if kind == "VarDecl":
                sc = node.get("storageClass")
                local_static = in_function and sc == "static"
                member_static = in_record and sc == "static"
                namespace_scope = (not in_function) and (not in_record)
                if local_static or member_static or namespace_scope:
                    ty = node.get("type", {}).get("qualType", "")
                    is_const = ty.startswith("const ") or " const" in ty.split("<")[0] or ty.endswith(" const") or bool(node.get("constexpr"))
                    key = ("var", node.get("name"), here[0], here[1])
                    row = dict(kind="local_static" if local_static else ("static_member" if member_static else "namespace_scope"),
                               name=node.get("name", "?"), file=os.path.relpath(here[0], REPO), line=here[1], type=ty[:120],
                               const=bool(is_const), constexpr=bool(node.get("constexpr")))
            elif kind == "FieldDecl" and node.get("mutable"):
                key = ("mutable", node.get("name"), here[0], here[1])
                row = dict(kind="mutable_field", name=node.get("name", "?"), file=os.path.relpath(here[0], REPO), line=here[1], type=node.get("type", {}).get("qualType", "")[:120], const=False, constexpr=False)
            elif kind == "CXXConstCastExpr":
                key = ("const_cast", "", here[0], here[1])
                row = dict(kind="const_cast", name="const_cast", file=os.path.relpath(here[0], REPO), line=here[1], type=node.get("type", {}).get("qualType", "")[:120], const=False, constexpr=False)
            if key and key not in self.seen:
                self.seen.add(key); self.rows.append(row)
        fn = in_function or kind in ("FunctionDecl", "CXXMethodDecl", "CXXConstructorDecl", "CXXDestructorDecl", "CXXConversionDecl", "LambdaExpr")
        rec = (in_record or kind in ("CXXRecordDecl", "ClassTemplateSpecializationDecl", "ClassTemplatePartialSpecializationDecl")) and not (kind in ("FunctionDecl", "CXXMethodDecl", "CXXConstructorDecl"))
        if kind in ("CXXMethodDecl", "FunctionDecl", "CXXConstructorDecl", "CXXDestructorDecl"): rec = False
        for ch in node.get("inner", []) or []:
            self.walk(ch, fn, rec)

def scan(workdir):
    path = dump_ast(workdir)
    w = Walker()
    for obj in objects(path): w.walk(obj)
    try: os.remove(path)
    except OSError: pass
    return sorted(w.rows, key=lambda r: (r["file"], r["line"], r["name"]))

def coq_table(rows):
    def s(x): return '"' + str(x).replace('"', "'") + '"'
    lines = ["(* regenerated on every run by tools/statics_scan.py from clang's AST of /repo/include/manif: do not edit *)",
             "From Coq Require Import String List Bool.", "From Manif Require Import Statics.", "Import ListNotations.", "Open Scope string_scope.",
             "Definition statics : list static_decl := ["]
    ent = []
    for r in rows:
        k = {"local_static": "LocalStatic", "static_member": "StaticMember", "namespace_scope": "NamespaceScope", "mutable_field": "MutableField", "const_cast": "ConstCast"}[r["kind"]]
        ent.append("  mkStatic %s %s %s %d %s" % (k, s(r["name"]), s(r["file"]), r["line"] or 0, "true" if (r["const"] or r["constexpr"]) else "false"))
    lines.append(";\n".join(ent)); lines.append("].")
    lines.append("Example gen_ok : all_const_after_init statics = true.\nProof. vm_compute. reflexivity. Qed.")
    lines.append("Example gen_count : List.length statics = %d%%nat.\nProof. vm_compute. reflexivity. Qed." % len(rows))
    return "\n".join(lines) + "\n"

if __name__ == "__main__":
    d = tempfile.mkdtemp(prefix="statics_", dir=os.path.join(os.path.dirname(os.path.dirname(os.path.abspath(__file__))), "build"))
    rows = scan(d)
    for r in rows: print(r)
    print(len(rows), "declarations;", sum(1 for r in rows if not (r["const"] or r["constexpr"])), "not const")
