(* DcCurve.v — property C17, the curve: at parameter t = 1 each de Casteljau reduction drops the first control
   point, so the last curve point of a window is the window's last control point (consecutive pieces join);
   with degree 2 the curve is the SLERP geodesic between consecutive points.  For any group satisfying
   ExpLogCore (InterpProofs.v). *)
From Coq Require Import Reals ZArith List Lra Bool.
From Manif Require Import Scalar Mat Consts Group RInst Tac Generic LieSpec Algorithms InterpProofs.
Import ListNotations.
Local Open Scope R_scope.

Section Curve.
Variable G : GroupOps RS.
Variable E : ExpLogCore G.
Local Notation valid := (gc_valid (el_core G E)).

Lemma dc_reduce_cons a b rest t : dc_reduce G (a :: b :: rest) t = rplus_v G a (@tscale RS (rminus_v G b a) t) :: dc_reduce G (b :: rest) t.
Proof. reflexivity. Qed.

Lemma dc_reduce_one Qs : Forall valid Qs -> dc_reduce G Qs 1 = tl Qs.
Proof.
  induction Qs as [|a Qs IH]; intros H; [reflexivity|]. destruct Qs as [|b Qs]; [reflexivity|].
  inversion H as [|? ? Ha H']; subst. inversion H' as [|? ? Hb H'']; subst.
  rewrite dc_reduce_cons. cbn [tl]. f_equal; [|exact (IH H')].
  rewrite (tscale_one G E) by (apply (rminus_twf G E); assumption). apply (rplus_rminus G E); assumption.
Qed.

Lemma Forall_tl {A} (P : A -> Prop) l : Forall P l -> Forall P (tl l).
Proof. intros H. destruct l; [constructor|]. inversion H; assumption. Qed.

Lemma dc_iter_one n Qs : Forall valid Qs -> dc_iter G n Qs 1 = skipn n Qs.
Proof.
  revert Qs. induction n as [|n IH]; intros Qs H; [reflexivity|]. cbn [dc_iter]. rewrite dc_reduce_one by exact H.
  rewrite IH by (apply Forall_tl; exact H). destruct Qs; [destruct n; reflexivity|reflexivity].
Qed.

Lemma hd_skipn_last {A} (d : A) (a : A) (Qs : list A) : hd d (skipn (length Qs) (a :: Qs)) = last (a :: Qs) d.
Proof. revert a. induction Qs as [|b Qs IH]; intros a; [reflexivity|]. cbn [length skipn]. rewrite IH. reflexivity. Qed.

(* the curve point at the end of a window of d control points is its last control point *)
Theorem window_end Qs : Forall valid Qs -> Qs <> [] ->
  hd [] (dc_iter G (length Qs - 1) Qs 1) = last Qs [].
Proof.
  intros H Hne. rewrite dc_iter_one by exact H. destruct Qs as [|a Qs]; [contradiction|].
  cbn [length]. rewrite Nat.sub_succ, Nat.sub_0_r. apply hd_skipn_last.
Qed.

(* degree 2: one reduction of two points is the SLERP geodesic between them *)
Theorem degree2_is_slerp a b t : 0 <= t <= 1 ->
  Ok (hd [] (dc_iter G 1 [a; b] t)) = interpolate_slerp G a b t.
Proof. intros Ht. unfold interpolate_slerp. rewrite in01_true by exact Ht. reflexivity. Qed.
End Curve.
