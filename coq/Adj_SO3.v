(* Adj_SO3.v — AdjLaws (property C06, algebraic part) for the SO3 model. *)
From Coq Require Import Reals ZArith List Lra.
From Manif Require Import Scalar Mat Consts Group RInst Tac SO2 SO3 SE3 Generic LieSpec SO3Proofs RnProofs AlgTac AdjTac.
Import ListNotations.
Local Open Scope R_scope.

Lemma sqnorm_neg3 x y z : @sqnorm RS (@vneg RS [x; y; z]) = @sqnorm RS [x; y; z].
Proof. rcbv. ring. Qed.

Section P.
Variable eps : R.
Hypothesis eps_pos : 0 < eps.

(* ljac(-w) = ljac(w)^T : used by every group built on SO3 *)
Lemma so3_ljac_neg x y z : so3_ljac RS eps (@vneg RS [x; y; z]) = @mT RS (so3_ljac RS eps [x; y; z]).
Proof.
  unfold so3_ljac. rewrite sqnorm_neg3.
  destruct (@kleb RS (@sqnorm RS [x; y; z]) eps).
  - rcbv. list_eq; ring.
  - set (a := kdiv RS _ _). set (b := kdiv RS _ _). clearbody a b. rcbv. list_eq; ring.
Qed.
Lemma mT_mT_3 (a b c d e f g h i : R) :
  @mT RS (@mT RS [[a; b; c]; [d; e; f]; [g; h; i]]) = [[a; b; c]; [d; e; f]; [g; h; i]].
Proof. reflexivity. Qed.

Lemma so3_ljac_shape x y z : exists a b c d e f g h i, so3_ljac RS eps [x; y; z] = [[a; b; c]; [d; e; f]; [g; h; i]].
Proof.
  unfold so3_ljac. destruct (@kleb RS _ eps).
  - rcbv. repeat eexists.
  - set (a := kdiv RS _ _). set (b := kdiv RS _ _). clearbody a b. rcbv. repeat eexists.
Qed.

Lemma so3_rjac_neg x y z : so3_rjac RS eps (@vneg RS [x; y; z]) = so3_ljac RS eps [x; y; z].
Proof.
  unfold so3_rjac. rewrite so3_ljac_neg.
  destruct (so3_ljac_shape x y z) as (a & b & c & d & e & f & g & h & i & ->). apply mT_mT_3.
Qed.

Lemma so3_rjac_neg' x y z : so3_rjac RS eps [- x; - y; - z] = so3_ljac RS eps [x; y; z].
Proof. exact (so3_rjac_neg x y z). Qed.

Lemma SO3_adj : AdjLaws (SO3 RS eps) so3_valid.
Proof.
  assert (Hhom : forall X Y, so3_valid X -> so3_valid Y ->
     so3_adj RS (so3_compose RS eps X Y) = @mmul RS (so3_adj RS X) (so3_adj RS Y)).
  { intros X Y (ax & ay & az & aw & -> & Ha) (bx & by_ & bz & bw & -> & Hb).
    rewrite so3_compose_valid_eq by assumption. unfold so3_adj, so3_rotation.
    pose proof (quat_mul_unit _ _ _ _ _ _ _ _ Ha Hb) as Hc.
    rewrite (quat_matrix_unit _ _ _ _ Ha), (quat_matrix_unit _ _ _ _ Hb).
    rewrite quat_mul_eq. rewrite (quat_matrix_unit _ _ _ _ Hc). rewrite <- quat_mul_eq. apply rot_hom_mul. }
  assert (Hid : so3_adj RS (g_identity (SO3 RS eps)) = @mid RS 3).
  { rewrite (so3_identity_eq eps eps_pos). rcbv. list_eq; ring. }
  constructor; unfold g_matrep; cbn [g_alg g_dof g_transform g_hat g_inverse g_adj g_compose g_smallAdj g_ljac g_rjac SO3].
  - intros X s (x & y & z & w & -> & H) Hs. destruct_len s Hs.
    unfold so3_inverse, quat_conj, qx, qy, qz, qw; mat_unfold.
    rewrite !so3_transform_unit by (unfold n4 in *; try assumption; rewrite <- H; ring).
    unfold so3_adj, so3_rotation. rewrite quat_matrix_unit by assumption.
    pose proof (n4_w _ _ _ _ H) as Hw. rcbv. list_eq; ringm1 Hw.
  - exact Hhom.
  - exact Hid.
  - exact (adj_inverse_of_hom _ (SO3_core eps eps_pos) Hhom Hid).
  - intros t s Ht Hs. destruct_len t Ht. destruct_len s Hs. rcbv. list_eq; ring.
  - intros t Ht. destruct_len t Ht. symmetry. apply so3_rjac_neg.
Qed.
End P.
