(* RoundTrip_Fam.v — property C04 for SE3, SE_2(3), SGal(3): (X + t) - X = t and X (+) t (-) X = t on the left, for every valid X
   and every tangent with rotation angle below pi on the generic branches.  RoundTrip.v needs the C01 core, validity of exp(t)
   (the quaternion part of exp is unit: LogExp_SO3) and C03 at exp(t) (LogExp_SE3 / LogExp_SE23 / LogExp_SGal3). *)
From Coq Require Import Reals ZArith List Lra Psatz.
From Manif Require Import Scalar Mat Consts Group RInst Tac Atan2 SO3 SE3 SE23 SGal3 Generic LieSpec SO3Proofs SE23Proofs Log_SO3 JacInv_SO3
  Log_SE3 Log_SE23 LogExp_SO3 LogExp_SE3 LogExp_SE23 LogExp_SGal3 RoundTrip.
Import ListNotations.
Local Open Scope R_scope.

Section P.
Variable eps : R.
Hypothesis eps_pos : 0 < eps.

Lemma ljac_mvmul_shape x y z (r0 r1 r2 : R) : eps < x * x + y * y + z * z ->
  exists p0 p1 p2 : R, @mvmul RS (so3_ljac RS eps [x; y; z]) [r0; r1; r2] = [p0; p1; p2].
Proof. intros Hgt. rewrite (so3_ljac_poly eps x y z Hgt). cbv zeta. unfold poly3. mat_unfold. do 3 eexists. reflexivity. Qed.

Lemma se3_exp_valid_generic a b c x y z : eps < x * x + y * y + z * z -> se3_valid (se3_exp RS eps [a; b; c; x; y; z]).
Proof.
  intros Hgt. destruct (so3_exp_valid_generic eps eps_pos x y z Hgt) as (q0 & q1 & q2 & q3 & Eq & Hn).
  unfold se3_exp, se3t_ang, se3t_lin. cbn [skipn firstn]. cbn [K RS] in *. rewrite Eq.
  destruct (ljac_mvmul_shape x y z a b c Hgt) as (p0 & p1 & p2 & Ep). cbn [K RS] in *. rewrite Ep.
  exists p0, p1, p2, q0, q1, q2, q3. split; [reflexivity|exact Hn].
Qed.
Lemma se23_exp_valid_generic a b c x y z d e f : eps < x * x + y * y + z * z -> se23_valid (se23_exp RS eps [a; b; c; x; y; z; d; e; f]).
Proof.
  intros Hgt. destruct (so3_exp_valid_generic eps eps_pos x y z Hgt) as (q0 & q1 & q2 & q3 & Eq & Hn).
  unfold se23_exp, se23t_ang, se23t_lin, se23t_lin2. cbv zeta. cbn [vslice skipn firstn]. cbn [K RS] in *. rewrite Eq.
  destruct (ljac_mvmul_shape x y z a b c Hgt) as (p0 & p1 & p2 & Ep). destruct (ljac_mvmul_shape x y z d e f Hgt) as (v0 & v1 & v2 & Ev).
  cbn [K RS] in *. rewrite Ep, Ev.
  exists p0, p1, p2, q0, q1, q2, q3, v0, v1, v2. split; [reflexivity|exact Hn].
Qed.
Lemma sg_exp_valid_generic a b c d e f x y z tau : eps < x * x + y * y + z * z -> sg_valid (sg_exp RS eps [a; b; c; d; e; f; x; y; z; tau]).
Proof.
  intros Hgt. destruct (so3_exp_valid_generic eps eps_pos x y z Hgt) as (q0 & q1 & q2 & q3 & Eq & Hn).
  unfold sg_exp, sgt_ang, sgt_lin, sgt_lin2, sgt_t. cbv zeta. cbn [vslice skipn firstn vnth nth]. cbn [K RS] in *. rewrite Eq.
  destruct (ljac_mvmul_shape x y z a b c Hgt) as (p0 & p1 & p2 & Ep). destruct (ljac_mvmul_shape x y z d e f Hgt) as (v0 & v1 & v2 & Ev).
  destruct (mvmul3_shape _ (@vscale RS tau [d; e; f]) (fillE_shape eps x y z)) as (e0 & e1 & e2 & Ee).
  cbn [K RS] in *. rewrite Ep, Ev, Ee. cbn [vadd vmap2].
  eexists _, _, _, q0, q1, q2, q3, v0, v1, v2, tau. split; [reflexivity|exact Hn].
Qed.

Local Notation rp G X t := (fst (fst (rplus G X t false false))).
Local Notation lp G X t := (fst (fst (lplus G X t false false))).
Local Notation rm G X Y := (fst (fst (rminus G X Y false false))).
Local Notation lm G X Y := (fst (fst (lminus G X Y false false))).

Section Ang.
Variables x y z : R.
Hypothesis Hgt : eps < x * x + y * y + z * z.
Hypothesis Hpi : sqrt (x * x + y * y + z * z) < PI.
Hypothesis Hsin : eps < sin (sqrt (x * x + y * y + z * z) / 2) * sin (sqrt (x * x + y * y + z * z) / 2).

Theorem se3_plus_minus X a b c : se3_valid X ->
  rm (SE3 RS eps) (rp (SE3 RS eps) X [a; b; c; x; y; z]) X = [a; b; c; x; y; z] /\
  lm (SE3 RS eps) (lp (SE3 RS eps) X [a; b; c; x; y; z]) X = [a; b; c; x; y; z].
Proof.
  intros HX. split; [apply (RoundTrip.rplus_rminus _ (SE3_core eps eps_pos))|apply (RoundTrip.lplus_lminus _ (SE3_core eps eps_pos))];
  first [exact HX | apply (se3_exp_valid_generic a b c x y z Hgt) | apply (se3_log_exp_generic eps eps_pos a b c x y z Hgt Hpi Hsin)].
Qed.
Theorem se23_plus_minus X a b c d e f : se23_valid X ->
  rm (SE23 RS eps) (rp (SE23 RS eps) X [a; b; c; x; y; z; d; e; f]) X = [a; b; c; x; y; z; d; e; f] /\
  lm (SE23 RS eps) (lp (SE23 RS eps) X [a; b; c; x; y; z; d; e; f]) X = [a; b; c; x; y; z; d; e; f].
Proof.
  intros HX. split; [apply (RoundTrip.rplus_rminus _ (SE23_core eps eps_pos))|apply (RoundTrip.lplus_lminus _ (SE23_core eps eps_pos))];
  first [exact HX | apply (se23_exp_valid_generic a b c x y z d e f Hgt) | apply (se23_log_exp_generic eps eps_pos a b c x y z d e f Hgt Hpi Hsin)].
Qed.
Theorem sg_plus_minus X a b c d e f tau : sg_valid X ->
  rm (SGal3 RS eps) (rp (SGal3 RS eps) X [a; b; c; d; e; f; x; y; z; tau]) X = [a; b; c; d; e; f; x; y; z; tau] /\
  lm (SGal3 RS eps) (lp (SGal3 RS eps) X [a; b; c; d; e; f; x; y; z; tau]) X = [a; b; c; d; e; f; x; y; z; tau].
Proof.
  intros HX. split; [apply (RoundTrip.rplus_rminus _ (SGal3_core eps eps_pos))|apply (RoundTrip.lplus_lminus _ (SGal3_core eps eps_pos))];
  first [exact HX | apply (sg_exp_valid_generic a b c d e f x y z tau Hgt) | apply (sg_log_exp_generic eps eps_pos a b c d e f x y z tau Hgt Hpi Hsin)].
Qed.
End Ang.

(* the other direction: X + (Y - X) = Y and (Y (-) X) (+) X = Y, when the relative element Z (X^-1 Y, resp. Y X^-1) is on the
   generic branch of log with positive scalar part (then exp(log Z) = Z exactly; with w < 0 the result is Y with the quaternion
   negated: the same transformation) *)
Theorem se3_minus_plus X Y tx ty tz x y z w : se3_valid X -> se3_valid Y ->
  g_compose (SE3 RS eps) (g_inverse (SE3 RS eps) X) Y = [tx; ty; tz; x; y; z; w] -> 0 < w -> eps < x * x + y * y + z * z ->
  rp (SE3 RS eps) X (rm (SE3 RS eps) Y X) = Y.
Proof.
  intros HX HY HZ Hw Hs. apply (RoundTrip.rminus_rplus _ (SE3_core eps eps_pos)); [exact HX|exact HY|].
  assert (HV : se3_valid (g_compose (SE3 RS eps) (g_inverse (SE3 RS eps) X) Y)).
  { apply (gc_compose_valid _ (SE3_core eps eps_pos)); [apply (gc_inverse_valid _ (SE3_core eps eps_pos)); exact HX|exact HY]. }
  rewrite HZ in *. destruct HV as (a1 & a2 & a3 & a4 & a5 & a6 & a7 & E & Hn). injection E as -> -> -> -> -> -> ->.
  cbn [g_exp g_log SE3]. rewrite (se3_exp_log_generic eps eps_pos _ _ _ _ _ _ _ Hn Hs) by lra.
  destruct (Rlt_dec a7 0); [lra|reflexivity].
Qed.
Theorem se3_lminus_lplus X Y tx ty tz x y z w : se3_valid X -> se3_valid Y ->
  g_compose (SE3 RS eps) Y (g_inverse (SE3 RS eps) X) = [tx; ty; tz; x; y; z; w] -> 0 < w -> eps < x * x + y * y + z * z ->
  lp (SE3 RS eps) X (lm (SE3 RS eps) Y X) = Y.
Proof.
  intros HX HY HZ Hw Hs. apply (RoundTrip.lminus_lplus _ (SE3_core eps eps_pos)); [exact HX|exact HY|].
  assert (HV : se3_valid (g_compose (SE3 RS eps) Y (g_inverse (SE3 RS eps) X))).
  { apply (gc_compose_valid _ (SE3_core eps eps_pos)); [exact HY|apply (gc_inverse_valid _ (SE3_core eps eps_pos)); exact HX]. }
  rewrite HZ in *. destruct HV as (a1 & a2 & a3 & a4 & a5 & a6 & a7 & E & Hn). injection E as -> -> -> -> -> -> ->.
  cbn [g_exp g_log SE3]. rewrite (se3_exp_log_generic eps eps_pos _ _ _ _ _ _ _ Hn Hs) by lra.
  destruct (Rlt_dec a7 0); [lra|reflexivity].
Qed.
Theorem se23_minus_plus X Y tx ty tz x y z w vx vy vz : se23_valid X -> se23_valid Y ->
  g_compose (SE23 RS eps) (g_inverse (SE23 RS eps) X) Y = [tx; ty; tz; x; y; z; w; vx; vy; vz] -> 0 < w -> eps < x * x + y * y + z * z ->
  rp (SE23 RS eps) X (rm (SE23 RS eps) Y X) = Y.
Proof.
  intros HX HY HZ Hw Hs. apply (RoundTrip.rminus_rplus _ (SE23_core eps eps_pos)); [exact HX|exact HY|].
  assert (HV : se23_valid (g_compose (SE23 RS eps) (g_inverse (SE23 RS eps) X) Y)).
  { apply (gc_compose_valid _ (SE23_core eps eps_pos)); [apply (gc_inverse_valid _ (SE23_core eps eps_pos)); exact HX|exact HY]. }
  rewrite HZ in *. destruct HV as (a1 & a2 & a3 & a4 & a5 & a6 & a7 & a8 & a9 & a10 & E & Hn). injection E as -> -> -> -> -> -> -> -> -> ->.
  cbn [g_exp g_log SE23]. rewrite (se23_exp_log_generic eps eps_pos _ _ _ _ _ _ _ _ _ _ Hn Hs) by lra.
  destruct (Rlt_dec a7 0); [lra|reflexivity].
Qed.
Theorem sg_minus_plus X Y px py pz x y z w vx vy vz t : sg_valid X -> sg_valid Y ->
  g_compose (SGal3 RS eps) (g_inverse (SGal3 RS eps) X) Y = [px; py; pz; x; y; z; w; vx; vy; vz; t] -> 0 < w -> eps < x * x + y * y + z * z ->
  rp (SGal3 RS eps) X (rm (SGal3 RS eps) Y X) = Y.
Proof.
  intros HX HY HZ Hw Hs. apply (RoundTrip.rminus_rplus _ (SGal3_core eps eps_pos)); [exact HX|exact HY|].
  assert (HV : sg_valid (g_compose (SGal3 RS eps) (g_inverse (SGal3 RS eps) X) Y)).
  { apply (gc_compose_valid _ (SGal3_core eps eps_pos)); [apply (gc_inverse_valid _ (SGal3_core eps eps_pos)); exact HX|exact HY]. }
  rewrite HZ in *. destruct HV as (a1 & a2 & a3 & a4 & a5 & a6 & a7 & a8 & a9 & a10 & a11 & E & Hn). injection E as -> -> -> -> -> -> -> -> -> -> ->.
  cbn [g_exp g_log SGal3]. rewrite (sg_exp_log_generic eps eps_pos _ _ _ _ _ _ _ _ _ _ _ Hn Hs) by lra.
  destruct (Rlt_dec a7 0); [lra|reflexivity].
Qed.
End P.
