(* Properties_C02.v — property C02: exp is the matrix exponential of hat.
   MatExp p A E (ExpSpec.v): every entry of the exponential series sum_k A^k/k! converges to the entry of E.
   Closed so far (exact, over the reals, for EVERY rotation magnitude above the code's own switch-over —
   near pi, beyond pi, several turns — and every translation):
     SO2 (all angles; the code has no branch), SE2, SO3, SE3, SE_2(3) and SGal(3) (generic branch: eps <= theta^2, resp.
     eps < theta^2; the homogeneous 4x4 / 5x5 matrix of exp — rotation through angle-axis, translation and velocity through
     V(theta) = the SO3 left Jacobian, as the code computes them — solves G' = G hat(t), G(0) = I along the ray),
     Rn (exp is the identity map; hat is nilpotent).
   Not closed: the Taylor branches (a bound, not an identity) and bundles (block-diagonal by C11) — for those
   the same statement is tested on every run against an independent series in 100-digit arithmetic. *)
From Coq Require Import Reals List Lra.
From Coquelicot Require Import Coquelicot.
From Manif Require Import Scalar Mat Group RInst Generic LieSpec SO2 SE2 SO3 SE3 SE23 SGal3 Rn Ode ExpSpec Exp_SE2 Exp_SO3 Exp_SE3 Exp_SE23 Exp_SGal3 Jr_SE2 Taylor_SE2 Taylor_SO3 Jr_SO3 Jr_SE3 Taylor_SE3 Taylor_SE23.
Import ListNotations.
Local Open Scope R_scope.

Theorem C02_exp_SO2 eps th :
  MatExp 1 (g_hat (SO2 RS eps) [th]) (g_matrep (SO2 RS eps) (g_exp (SO2 RS eps) [th])).
Proof. exact (SO2_exp_matexp eps th). Qed.
Print Assumptions C02_exp_SO2.

Theorem C02_exp_SE2_generic eps x y th : 0 < eps -> eps <= th * th ->
  MatExp 2 (g_hat (SE2 RS eps) [x; y; th]) (g_transform (SE2 RS eps) (g_exp (SE2 RS eps) [x; y; th])).
Proof. exact (SE2_exp_matexp eps x y th). Qed.
Print Assumptions C02_exp_SE2_generic.

Theorem C02_exp_SO3_generic eps x y z : 0 < eps -> eps < x * x + y * y + z * z ->
  MatExp 2 (g_hat (SO3 RS eps) [x; y; z]) (g_matrep (SO3 RS eps) (g_exp (SO3 RS eps) [x; y; z])).
Proof. exact (SO3_exp_matexp eps x y z). Qed.
Print Assumptions C02_exp_SO3_generic.

Theorem C02_exp_SE3_generic eps a b c x y z : 0 < eps -> eps < x * x + y * y + z * z ->
  MatExp 3 (g_hat (SE3 RS eps) [a; b; c; x; y; z]) (g_transform (SE3 RS eps) (g_exp (SE3 RS eps) [a; b; c; x; y; z])).
Proof. exact (SE3_exp_matexp eps a b c x y z). Qed.
Print Assumptions C02_exp_SE3_generic.

Theorem C02_exp_SE23_generic eps a b c x y z d e f : 0 < eps -> eps < x * x + y * y + z * z ->
  MatExp 4 (g_hat (SE23 RS eps) [a; b; c; x; y; z; d; e; f]) (g_transform (SE23 RS eps) (g_exp (SE23 RS eps) [a; b; c; x; y; z; d; e; f])).
Proof. exact (SE23_exp_matexp eps a b c x y z d e f). Qed.
Print Assumptions C02_exp_SE23_generic.

(* SGal(3): tangent (rho, nu, theta, tau); position = V rho + E (tau nu) with E = fillE (the repaired first-order term of fix c8d4030) *)
Theorem C02_exp_SGal3_generic eps a b c d e f x y z tau : 0 < eps -> eps < x * x + y * y + z * z ->
  MatExp 4 (g_hat (SGal3 RS eps) [a; b; c; d; e; f; x; y; z; tau])
           (g_transform (SGal3 RS eps) (g_exp (SGal3 RS eps) [a; b; c; d; e; f; x; y; z; tau])).
Proof. exact (SGal3_exp_matexp eps a b c d e f x y z tau). Qed.
Print Assumptions C02_exp_SGal3_generic.

(* SE2 below the switch-over (the Taylor branch, theta^2 < eps): the translation part of the model's exp is within
   tay_bound(theta) (|x| + |y|) of the closed form ex, ey (which IS the matrix exponential: C02_exp_SE2_generic's G(1), for every
   theta <> 0), where tay_bound(theta) = theta^4/120 + |theta|^5/720 + the two rounding gaps of the code's literals Scalar(1./6.),
   Scalar(1./24.) times theta^2, |theta|^3: uniformly at most eps^2/100 + 2 eps/10^17 relative to the size of the translation;
   at theta = 0 exp is the translation exactly *)
Theorem C02_SE2_taylor_bound eps x y th : 0 < eps -> th * th < eps -> th <> 0 ->
  exists tx ty, se2_exp RS eps [x; y; th] = [tx; ty; cos th; sin th] /\
    Rabs (tx - ex x y th) <= tay_bound th * (Rabs x + Rabs y) /\ Rabs (ty - ey x y th) <= tay_bound th * (Rabs x + Rabs y).
Proof. intros _. exact (se2_exp_taylor_bound eps x y th). Qed.
Theorem C02_SE2_taylor_uniform eps x y th : 0 < eps -> eps <= 1 -> th * th < eps -> th <> 0 ->
  exists tx ty, se2_exp RS eps [x; y; th] = [tx; ty; cos th; sin th] /\
    Rabs (tx - ex x y th) <= (eps * eps / 100 + eps / 50000000000000000) * (Rabs x + Rabs y) /\
    Rabs (ty - ey x y th) <= (eps * eps / 100 + eps / 50000000000000000) * (Rabs x + Rabs y).
Proof. intros H. exact (se2_exp_taylor_uniform eps H x y th). Qed.
Theorem C02_SE2_exp_zero eps x y : 0 < eps -> se2_exp RS eps [x; y; 0] = [x; y; 1; 0].
Proof. exact (fun H => se2_exp_zero eps H x y). Qed.
Print Assumptions C02_SE2_taylor_uniform.

(* SO3 below the switch-over (|t|^2 <= eps): exp is the quaternion (t/2, 1); against the exact exponential
   (sin(th/2) t/th, cos(th/2)) the error is at most |t_i| th^2/48 in the vector part and th^2/8 in w *)
Theorem C02_SO3_taylor_bound eps x y z : 0 < eps -> 0 < x * x + y * y + z * z -> x * x + y * y + z * z <= eps ->
  so3_exp RS eps [x; y; z] = [x / 2; y / 2; z / 2; 1] /\
  Rabs (x / 2 - sin (sqrt (x * x + y * y + z * z) / 2) * (x / sqrt (x * x + y * y + z * z))) <= Rabs x * (x * x + y * y + z * z) / 48 /\
  Rabs (y / 2 - sin (sqrt (x * x + y * y + z * z) / 2) * (y / sqrt (x * x + y * y + z * z))) <= Rabs y * (x * x + y * y + z * z) / 48 /\
  Rabs (z / 2 - sin (sqrt (x * x + y * y + z * z) / 2) * (z / sqrt (x * x + y * y + z * z))) <= Rabs z * (x * x + y * y + z * z) / 48 /\
  Rabs (1 - cos (sqrt (x * x + y * y + z * z) / 2)) <= (x * x + y * y + z * z) / 8.
Proof. intros _. exact (so3_exp_taylor_bound eps x y z). Qed.
Print Assumptions C02_SO3_taylor_bound.

(* SE3 below the switch-over (|theta|^2 <= eps <= 1): the translation of exp is (I + W/2) rho; against the closed form
   V(theta) rho = vrho (the translation column of the matrix exponential, C02_exp_SE3_generic's G(1)) each component is within
   |theta|^2 (|a| + |b| + |c|): uniformly at most eps relative to the size of the translation.  (The same V block serves the
   translation and the velocity of SE_2(3).) *)
Theorem C02_SE3_taylor_bound eps a b c x y z i : 0 < eps -> eps <= 1 -> 0 < x * x + y * y + z * z -> x * x + y * y + z * z <= eps -> (i < 3)%nat ->
  Rabs (nth i (se3_exp RS eps [a; b; c; x; y; z]) 0 - vrho i a b c x y z) <= (x * x + y * y + z * z) * (Rabs a + Rabs b + Rabs c).
Proof.
  intros H0 H1 Hn Hle Hi. rewrite (se3_exp_small_translation eps a b c x y z i Hle Hi).
  apply (se3_taylor_bound a b c x y z i Hn ltac:(lra) Hi).
Qed.
Theorem C02_SE23_taylor_bound eps a b c x y z d e f i : 0 < eps -> 0 < x * x + y * y + z * z -> x * x + y * y + z * z <= eps -> eps <= 1 -> (i < 3)%nat ->
  Rabs (nth i (se23_exp RS eps [a; b; c; x; y; z; d; e; f]) 0 - vrho i a b c x y z) <= (x * x + y * y + z * z) * (Rabs a + Rabs b + Rabs c) /\
  Rabs (nth (7 + i) (se23_exp RS eps [a; b; c; x; y; z; d; e; f]) 0 - vrho i d e f x y z) <= (x * x + y * y + z * z) * (Rabs d + Rabs e + Rabs f).
Proof. intros _. exact (se23_taylor_bound eps a b c x y z d e f i). Qed.
Print Assumptions C02_SE3_taylor_bound.

(* SGal(3) below the switch-over (|theta|^2 < eps <= 1): position (I + W/2) rho + (1/2 I + Scalar(1./6.) W)(tau nu), velocity
   (I + W/2) nu; the closed forms vrho + eex, vrho are the coefficients of the SAME function on its generic branch
   (C02_SGal3_generic_coefficients), which C02_exp_SGal3_generic proves to be the matrix exponential of hat. *)
From Manif Require Import SGal3 Taylor_SGal3.
Theorem C02_SGal3_generic_coefficients eps a b c d e f x y z tau : 0 < eps -> eps < x * x + y * y + z * z ->
  exists q0 q1 q2 q3, sg_exp RS eps [a; b; c; d; e; f; x; y; z; tau] =
    [vrho 0 a b c x y z + eex 0 (tau * d) (tau * e) (tau * f) x y z; vrho 1 a b c x y z + eex 1 (tau * d) (tau * e) (tau * f) x y z;
     vrho 2 a b c x y z + eex 2 (tau * d) (tau * e) (tau * f) x y z; q0; q1; q2; q3;
     vrho 0 d e f x y z; vrho 1 d e f x y z; vrho 2 d e f x y z; tau].
Proof. intros H. exact (sg_exp_generic eps H a b c d e f x y z tau). Qed.
Theorem C02_SGal3_taylor_bound eps a b c d e f x y z tau i : 0 < x * x + y * y + z * z -> x * x + y * y + z * z < eps -> eps <= 1 -> (i < 3)%nat ->
  Rabs (nth i (sg_exp RS eps [a; b; c; d; e; f; x; y; z; tau]) 0 - (vrho i a b c x y z + eex i (tau * d) (tau * e) (tau * f) x y z))
    <= (x * x + y * y + z * z) * (Rabs a + Rabs b + Rabs c) + (x * x + y * y + z * z + 1 / 10 ^ 17) * (Rabs (tau * d) + Rabs (tau * e) + Rabs (tau * f)) /\
  Rabs (nth (7 + i) (sg_exp RS eps [a; b; c; d; e; f; x; y; z; tau]) 0 - vrho i d e f x y z) <= (x * x + y * y + z * z) * (Rabs d + Rabs e + Rabs f).
Proof. exact (sg_taylor_bound eps a b c d e f x y z tau i). Qed.
Print Assumptions C02_SGal3_taylor_bound.

(* non-vacuity: the hypotheses are met far from the small-angle region, beyond pi and for large translations *)
Example C02_nonvacuous : (25 / 1125899906842624 <= 7 * 7) /\ (25 / 1125899906842624 < 3 * 3 + 4 * 4 + 12 * 12).
Proof. split; lra. Qed.
