#!/usr/bin/env python3
"""tools/mkmanifest.py — regenerate MANIFEST.json from tools/manifest_claims.py (the per-property claims)
and the property list; validates against the schema."""
import os, sys, json
sys.path.insert(0, os.path.dirname(os.path.abspath(__file__)))
import manifest_claims as mc
V = os.path.dirname(os.path.dirname(os.path.abspath(__file__)))
ids = [json.loads(l)["id"] for l in open(os.path.join(V, "properties.jsonl"))]
checks = []
for pid in ids:
    c = mc.CLAIMS.get(pid)
    if not c: continue
    checks.append(dict(property_id=pid, quick_cmd="python3 tools/check %s --tier quick" % pid,
                       thorough_cmd="python3 tools/check %s --tier thorough" % pid,
                       evidence_file="evidence/%s.json" % pid, replay_cmd_template="python3 tools/check %s --replay {path}" % pid,
                       engine=c.get("engine", "coq-model+exact-correspondence"),
                       level_claimed=dict(category=c["category"], text=c["text"], design_ref=c["design_ref"]),
                       level_note=c["note"], technique=c["technique"]))
na = [dict(property_id=pid, reason=mc.NOT_APPLICABLE.get(pid, "check not built yet (work in progress; see DESIGN.md section 4 for the plan)"))
      for pid in ids if pid not in mc.CLAIMS]
m = dict(version=1, setup_cmd="python3 tools/setup", hooks=mc.HOOKS, checks=checks, not_applicable=na, notes=mc.NOTES)
try:
    import jsonschema
    jsonschema.validate(m, json.load(open("/root/.vp/MANIFEST.schema.json")))
except ImportError:
    pass
json.dump(m, open(os.path.join(V, "MANIFEST.json"), "w"), indent=1)
print("MANIFEST.json: %d checks, %d not_applicable" % (len(checks), len(na)))
