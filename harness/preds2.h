// preds2.h — further executable property predicates evaluated on the implementation (C08, C13, C15, C16, C18).
#pragma once
#include "run.h"
#include "ops2.h"


// independent expectations for the constructors (C13)
template<class S> static Eigen::Matrix<S,Eigen::Dynamic,Eigen::Dynamic> rot3_expected(const Case& c, int id, size_t k){
  using M = Eigen::Matrix<S,Eigen::Dynamic,Eigen::Dynamic>; using std::cos; using std::sin;
  M R = M::Identity(3,3);
  if(id==0){ S x=s0<S>(c.args[k],0), y=s0<S>(c.args[k],1), z=s0<S>(c.args[k],2), w=s0<S>(c.args[k],3);
    R << w*w+x*x-y*y-z*z, S(2)*(x*y-w*z), S(2)*(x*z+w*y),  S(2)*(x*y+w*z), w*w-x*x+y*y-z*z, S(2)*(y*z-w*x),  S(2)*(x*z-w*y), S(2)*(y*z+w*x), w*w-x*x-y*y+z*z; }
  else if(id==1){ S th=s0<S>(c.args[k]); Eigen::Matrix<S,3,1> u=v3<S>(c.args[k+1]); S cth=cos(th), sth=sin(th); M K(3,3); K << S(0),-u(2),u(1), u(2),S(0),-u(0), -u(1),u(0),S(0);
    R = M(M::Identity(3,3)*cth) + M(K*sth) + M((u*u.transpose())*(S(1)-cth)); }     // Rodrigues
  else if(id==2){ S r=s0<S>(c.args[k],0), p=s0<S>(c.args[k],1), y=s0<S>(c.args[k],2); M Rx=M::Identity(3,3), Ry=M::Identity(3,3), Rz=M::Identity(3,3);
    Rx(1,1)=cos(r); Rx(1,2)=-sin(r); Rx(2,1)=sin(r); Rx(2,2)=cos(r);  Ry(0,0)=cos(p); Ry(0,2)=sin(p); Ry(2,0)=-sin(p); Ry(2,2)=cos(p);
    Rz(0,0)=cos(y); Rz(0,1)=-sin(y); Rz(1,0)=sin(y); Rz(1,1)=cos(y); R = Rz*Ry*Rx; }
  else if(id==3){ R = m33<S>(c.args[k]); }
  return R; }
template<class G> struct Expect {     // default: Rn
  using S = typename G::Scalar; using M = Eigen::Matrix<S,Eigen::Dynamic,Eigen::Dynamic>;
  static M rotation_of(const G&){ return M::Identity(G::Dim,G::Dim); }
  static M rotation(const Case&, int){ return M::Identity(G::Dim,G::Dim); }
  static M translation_of(const G& r){ return M(r.coeffs()); }
  static M translation(const Case& c, int){ return M(vec_from<S,typename G::DataType>(c.args[0])); }
  static G feedback(const G& r){ return G(r.coeffs()); }
  template<class X_> static void normalize(X_&){}
};
template<class S_> struct Expect<manif::SO2<S_>> { using G = manif::SO2<S_>; using S = S_; using M = Eigen::Matrix<S,Eigen::Dynamic,Eigen::Dynamic>;
  static M rotation_of(const G& r){ return M(r.rotation()); }
  static M rotation(const Case& c, int id){ using std::cos; using std::sin; M R(2,2); S re, im;
    if(id==0){ re=s0<S>(c.args[0],0); im=s0<S>(c.args[0],1); } else { S th=s0<S>(c.args[0]); re=cos(th); im=sin(th); }
    R << re,-im, im,re; return R; }
  static M translation_of(const G&){ return M::Zero(2,1); }
  static M translation(const Case&, int){ return M::Zero(2,1); }
  static G feedback(const G& r){ return G(r.angle()); }
  template<class X_> static void normalize(X_& X){ X.normalize(); } };
template<class S_> struct Expect<manif::SE2<S_>> { using G = manif::SE2<S_>; using S = S_; using M = Eigen::Matrix<S,Eigen::Dynamic,Eigen::Dynamic>;
  static M rotation_of(const G& r){ return M(r.rotation()); }
  static M rotation(const Case& c, int id){ using std::cos; using std::sin; M R(2,2); S re, im;
    if(id==0){ S th=s0<S>(c.args[0],2); re=cos(th); im=sin(th); } else if(id==1){ re=s0<S>(c.args[0],2); im=s0<S>(c.args[0],3); } else { re=s0<S>(c.args[1],0); im=s0<S>(c.args[1],2); }
    R << re,-im, im,re; return R; }
  static M translation_of(const G& r){ return M(r.translation()); }
  static M translation(const Case& c, int){ M t(2,1); t << s0<S>(c.args[0],0), s0<S>(c.args[0],1); return t; }
  static G feedback(const G& r){ return G(r.x(), r.y(), r.angle()); }
  template<class X_> static void normalize(X_& X){ X.normalize(); } };
template<class S_> struct Expect<manif::SO3<S_>> { using G = manif::SO3<S_>; using S = S_; using M = Eigen::Matrix<S,Eigen::Dynamic,Eigen::Dynamic>;
  static M rotation_of(const G& r){ return M(r.rotation()); }
  static M rotation(const Case& c, int id){ return rot3_expected<S>(c,id,0); }
  static M translation_of(const G&){ return M::Zero(3,1); }
  static M translation(const Case&, int){ return M::Zero(3,1); }
  static G feedback(const G& r){ return G(r.quat()); }
  template<class X_> static void normalize(X_& X){ X.normalize(); } };
template<class S_> struct Expect<manif::SE3<S_>> { using G = manif::SE3<S_>; using S = S_; using M = Eigen::Matrix<S,Eigen::Dynamic,Eigen::Dynamic>;
  static M rotation_of(const G& r){ return M(r.rotation()); }
  static M rotation(const Case& c, int id){ return rot3_expected<S>(c,id,1); }
  static M translation_of(const G& r){ return M(r.translation()); }
  static M translation(const Case& c, int){ return M(v3<S>(c.args[0])); }
  static G feedback(const G& r){ return G(r.translation(), r.quat()); }
  template<class X_> static void normalize(X_& X){ X.normalize(); } };
template<class S_> struct Expect<manif::SE_2_3<S_>> { using G = manif::SE_2_3<S_>; using S = S_; using M = Eigen::Matrix<S,Eigen::Dynamic,Eigen::Dynamic>;
  static M rotation_of(const G& r){ return M(r.rotation()); }
  static M rotation(const Case& c, int id){ return rot3_expected<S>(c,id,1); }
  static M translation_of(const G& r){ M t(6,1); t << r.translation(), r.linearVelocity(); return t; }
  static M translation(const Case& c, int){ M t(6,1); t << v3<S>(c.args[0]), v3<S>(c.args.back()); return t; }
  static G feedback(const G& r){ return G(r.translation(), r.quat(), r.linearVelocity()); }
  template<class X_> static void normalize(X_& X){ X.normalize(); } };
template<class S_> struct Expect<manif::SGal3<S_>> { using G = manif::SGal3<S_>; using S = S_; using M = Eigen::Matrix<S,Eigen::Dynamic,Eigen::Dynamic>;
  static M rotation_of(const G& r){ return M(r.rotation()); }
  static M rotation(const Case& c, int id){ return rot3_expected<S>(c,id,1); }
  static M translation_of(const G& r){ M t(7,1); t << r.translation(), r.linearVelocity(), r.t(); return t; }
  static M translation(const Case& c, int){ M t(7,1); t << v3<S>(c.args[0]), v3<S>(c.args[c.args.size()-2]), s0<S>(c.args.back()); return t; }
  static G feedback(const G& r){ return G(r.translation(), r.quat(), r.linearVelocity(), r.t()); }
  template<class X_> static void normalize(X_& X){ X.normalize(); } };

template<class G> struct Pred2 {
  using S = typename G::Scalar;
  using T = typename G::Tangent;
  using J = typename G::Jacobian;
  using DG = typename G::DataType;
  using DT = typename T::DataType;
  using Vec = typename G::Vector;
  using Dyn = Eigen::Matrix<S, Eigen::Dynamic, Eigen::Dynamic>;
  static G mkG(const std::vector<std::string>& a){ return G(vec_from<S,DG>(a)); }
  static T mkT(const std::vector<std::string>& a){ return T(vec_from<S,DT>(a)); }
  static S absS(const S& x){ return x < S(0) ? S(-x) : x; }
  static void set_random(G& X, std::true_type){ X = G::Random(); }
  static void set_random(G&, std::false_type){}
  template<class M_> static void set_random(M_& X, std::true_type){ X.setRandom(); }
  template<class M_> static void set_random(M_&, std::false_type){}      // Eigen's random generator is only instantiated for the floating-point scalars

  static bool run(const Case& c, Out<S>& o){
    const std::string& op = c.op;
    if(op=="P18" || op=="P18D"){   // C18: X, Xn (same transformation, other quaternion sign), d (small tangent), t, u, e
      G X=mkG(c.args[0]), Xn=mkG(c.args[1]); T d=mkT(c.args[2]), t=mkT(c.args[3]), u=mkT(c.args[4]); S e=ScalarIO<S>::parse(c.args[5][0]);
      o.boolean(X.isApprox(X,e)); o.boolean(true);
      o.boolean(X==X); o.boolean(true);
      o.boolean(X.isApprox(Xn,e)); o.boolean(true);
      o.boolean(Xn.isApprox(X,e)); o.boolean(true);
      G Y = X + d;
      o.boolean(X.isApprox(Y,e)); o.boolean(Y.isApprox(X,e));                       // symmetric
      { // holds when Y (-) X is well below e in every component, fails when well above (d is the tangent Y was built from)
        S m = S(0); for(int i=0;i<T::DoF;i++){ S a = absS(d.coeffs()(i)); if(m < a) m = a; }
        bool r = Y.isApprox(X,e);
        bool expect = r; if(m*S(2) <= e) expect = true; if(e*S(2) <= m) expect = false;
        o.boolean(r); o.boolean(expect); }
      o.boolean(t.isApprox(t,e)); o.boolean(true);
      o.boolean(t.isApprox(u,e)); o.boolean(u.isApprox(t,e));
      { // the documented two regimes, recomputed from the coefficients
        S nt = t.coeffs().squaredNorm(), nu = u.coeffs().squaredNorm(); S mn = nu < nt ? nu : nt;
        DT df = t.coeffs() - u.coeffs(); bool expect;
        if(mn < e*e){ expect = true; for(int i=0;i<T::DoF;i++) if(!(absS(df(i)) <= e)) expect = false; }
        else expect = df.squaredNorm() <= e*e*mn;
        o.boolean(t.isApprox(u,e)); o.boolean(expect); }
      { bool expect = true; for(int i=0;i<T::DoF;i++) if(!(absS(t.coeffs()(i)) <= e)) expect = false;   // absolute test against zero
        o.boolean(t.isApprox(T::Zero(),e)); o.boolean(expect);
        o.boolean(T::Zero().isApprox(t,e)); o.boolean(expect); }
      o.boolean(Y==Y); o.boolean(true);
      return true;
    }
    if(op=="P18F"){   // C18 float clause: X == X and X.isApprox(X) for elements with large coordinates
      G X=mkG(c.args[0]);
      o.boolean(X==X); o.boolean(true);
      o.boolean(X.isApprox(X)); o.boolean(true);
      G Z = X*X.inverse()*X;
      o.boolean(Z==Z); o.boolean(true);
      return true;
    }
    if(op=="W08"){   // C08: a long random walk over the element-producing operations, monitoring the invariant after every step
      // args: X, Y, us, [off len] of the rotation coefficients (len 0: none), t_0 ...; iarg = number of steps; mask "-"
      G X=mkG(c.args[0]), Y=mkG(c.args[1]);
      std::vector<S> us; for(auto& x: c.args[2]) us.push_back(ScalarIO<S>::parse(x));
      const int off=std::stoi(c.args[3][0]), len=std::stoi(c.args[3][1]);
      std::vector<T> ts; for(size_t i=4;i<c.args.size();i++) ts.push_back(mkT(c.args[i]));
      long steps=std::stol(c.iarg);
      unsigned long long st=1469598103934665603ULL; for(char ch: c.id) { st^=(unsigned char)ch; st*=1099511628211ULL; }
      auto rnd=[&](){ st = st*6364136223846793005ULL + 1442695040888963407ULL; return (unsigned)(st>>33); };
      S maxdev=S(0); long exceptions=0, nonfinite=0; const int mode = rnd()%6;
      auto dev=[&](const G& Z){ if(len==0) return S(0); S n2=S(0); for(int i=0;i<len;i++) n2 += Z.coeffs()(off+i)*Z.coeffs()(off+i); S d=n2-S(1); return d<S(0)?S(-d):d; };
      auto finite=[&](const G& Z){ using std::isfinite; for(int i=0;i<G::RepSize;i++) if(!isfinite(Z.coeffs()(i))) return false; return true; };
      auto big=[&](const G& Z){ for(int i=0;i<G::RepSize;i++){ S a=Z.coeffs()(i); if(a<S(0)) a=-a; if(S(1000000)<a) return true; } return false; };
      for(long s=0;s<steps;s++){
        int digit;
        switch(mode){
          case 0: digit = 1 + rnd()%12; break;                       // uniform mix
          case 1: digit = (rnd()%8==0) ? 1 + rnd()%12 : 6; break;    // mostly X *= X
          case 2: digit = (rnd()%8==0) ? 1 + rnd()%12 : 4; break;    // mostly X += t
          case 3: digit = (s%2) ? 2 : 1; break;                      // alternate X*Y, inverse
          case 4: digit = (rnd()%4==0) ? 1 + rnd()%12 : 1; break;    // mostly X = X*Y
          default: digit = (rnd()%3==0) ? 9 : ((rnd()%2) ? 10 : 3); break;   // slerp / Y*X / between
        }
        try {
          if(digit==12){ set_random(X, std::is_floating_point<S>()); }
          else GroupRunner2<G>::hstep(X,Y,digit,(size_t)s,ts,us);
          if(big(X)) X = (ts.empty()? T::Zero() : ts[s%ts.size()]).exp();
          if(big(Y)) Y = G::Identity();
        } catch(const manif::invalid_argument&){ exceptions++; X = G::Identity(); }
        if(!finite(X) || !finite(Y)){ nonfinite++; X = G::Identity(); Y = G::Identity(); continue; }
        S d1=dev(X), d2=dev(Y); if(maxdev<d1) maxdev=d1; if(maxdev<d2) maxdev=d2;
      }
      o.scalar(maxdev); o.scalar(S(0));
      o.scalar(S((int)exceptions)); o.scalar(S(0));
      o.scalar(S((int)nonfinite)); o.scalar(S(0));
      return true;
    }
    if(op=="P15"){   // C15: A, B, g, ta, tb, [t]
      G A=mkG(c.args[0]), B=mkG(c.args[1]), g=mkG(c.args[2]); T ta=mkT(c.args[3]), tb=mkT(c.args[4]); S t=ScalarIO<S>::parse(c.args[5][0]);
      using manif::INTERP_METHOD;
      const INTERP_METHOD M[3] = {INTERP_METHOD::SLERP, INTERP_METHOD::CUBIC, INTERP_METHOD::CNSMOOTH};
      for(int k=0;k<3;k++){
        o.mat(manif::interpolate(A,B,S(0),M[k],ta,tb).transform()); o.mat(A.transform());
        o.mat(manif::interpolate(A,B,S(1),M[k],ta,tb).transform()); o.mat(B.transform()); }
      for(unsigned m: {1u,2u,4u}){
        o.mat(manif::interpolate_smooth(A,B,S(0),m,ta,tb).transform()); o.mat(A.transform());
        o.mat(manif::interpolate_smooth(A,B,S(1),m,ta,tb).transform()); o.mat(B.transform()); }
      G mt = manif::interpolate(A,B,t,INTERP_METHOD::SLERP);
      T rel = A.inverse().compose(B).log();
      { T st = rel*t; o.mat(mt.coeffs()); o.mat(A.compose(st.exp()).coeffs()); }                         // the geodesic, as coded
      { T st = rel*t; o.mat(A.inverse().compose(mt).log().coeffs()); o.mat(st.coeffs()); }                // log(A^-1 m(t)) = t log(A^-1 B)
      o.mat(manif::interpolate(g.compose(A),g.compose(B),t,INTERP_METHOD::SLERP).transform()); o.mat(g.compose(mt).transform());   // left-equivariance
      { int thrown=0, tried=0; S out[2] = { S(0)-S(1)/S(1073741824), S(1)+S(1)/S(1073741824) };
        for(int k=0;k<3;k++) for(int j=0;j<2;j++){ tried++; try{ (void)manif::interpolate(A,B,out[j],M[k],ta,tb); } catch(const manif::runtime_error&){ thrown++; } }
        o.scalar(S(thrown)); o.scalar(S(tried)); }
      { int bad=0; for(std::size_t m=1;m<=4;m++){ if(!(manif::smoothing_phi(S(0),m)==S(0))) bad++; if(!(manif::smoothing_phi(S(1),m)==S(1))) bad++;
          S prev = S(0); for(int i=1;i<=64;i++){ S v = manif::smoothing_phi(S(i)/S(64),m); if(v<prev) bad++; prev=v; } }
        o.scalar(S(bad)); o.scalar(S(0)); }
      { int thrown=0, tried=0; for(std::size_t m: {std::size_t(0),std::size_t(5),std::size_t(6),std::size_t(100)}){ tried++; try{ (void)manif::smoothing_phi(t,m); } catch(const std::logic_error&){ thrown++; } }
        o.scalar(S(thrown)); o.scalar(S(tried)); }
      return true;
    }
    if(op=="P17" || op=="P17D"){   // C17: args[0] ignored, args[1..] the trajectory; iarg = (degree*1000 + k)*2 + closed
      long code=std::stol(c.iarg); bool closed = code%2; code/=2; unsigned k = code%1000, d = code/1000;
      std::vector<G> traj; for(size_t i=1;i<c.args.size();i++) traj.push_back(mkG(c.args[i]));
      const long N = (long)traj.size();
      if(N<3 || (long)d>N || k==0){          // must raise
        int thrown=0; try{ (void)manif::decasteljau(traj,d,k,closed); } catch(const manif::runtime_error&){ thrown=1; }
        o.scalar(S(thrown)); o.scalar(S(1)); return true; }
      std::vector<G> curve = manif::decasteljau(traj, d, k, closed);
      // the windows the property describes, computed independently
      std::vector<std::vector<long>> W; long nseg = (N-(long)d)/((long)d-1) + 1;
      for(long s=0;s<nseg;s++){ std::vector<long> w; for(long j=0;j<(long)d;j++) w.push_back(s*((long)d-1)+j); W.push_back(w); }
      if(closed){ std::vector<long> w; long last=nseg*((long)d-1); for(long p=last;p<N;p++) w.push_back(p); for(long p=0;(long)w.size()<(long)d;p++) w.push_back(p); W.push_back(w); }
      const long segk = (d==2) ? k : k*d;
      o.scalar(S((int)curve.size())); o.scalar(S((int)(W.size()*segk)));
      bool shape = (long)curve.size()==(long)W.size()*segk;
      // last curve point of every window = its last control point; pieces join
      int bad_end=0, bad_geo=0; S worst=S(0);
      if(shape){
        for(size_t s=0;s<W.size();s++){
          const G& e = curve[(s+1)*segk-1]; const G& cp = traj[W[s].back()];
          Dyn D = e.transform()-cp.transform(); S m = S(0); for(int i=0;i<D.rows();i++) for(int j=0;j<D.cols();j++){ S a=absS(D(i,j)); if(m<a) m=a; }
          S sc = S(1); { Dyn Tm = cp.transform(); for(int i=0;i<Tm.rows();i++) for(int j=0;j<Tm.cols();j++){ S a=absS(Tm(i,j)); if(sc<a) sc=a; } }
          if(!(m <= S(1e-6)*sc*sc)) bad_end++; if(worst<m) worst=m; }
        if(d==2) for(size_t s=0;s<W.size();s++) for(long t=1;t<=segk;t++){
          S u = S(double(t)/double(segk)); G ref = manif::interpolate(traj[W[s][0]], traj[W[s][1]], u, manif::INTERP_METHOD::SLERP);
          Dyn D = curve[s*segk+t-1].transform()-ref.transform(); S m=S(0); for(int i=0;i<D.rows();i++) for(int j=0;j<D.cols();j++){ S a=absS(D(i,j)); if(m<a) m=a; }
          S sc = S(1); { Dyn Tm = ref.transform(); for(int i=0;i<Tm.rows();i++) for(int j=0;j<Tm.cols();j++){ S a=absS(Tm(i,j)); if(sc<a) sc=a; } }
          if(!(m <= S(1e-6)*sc*sc)) bad_geo++; }
      }
      o.scalar(S(bad_end)); o.scalar(S(0));
      o.scalar(S(bad_geo)); o.scalar(S(0));
      return true;
    }
    if(op=="P16"){   // C16: args: [off len], g, C, d_1 .. d_n (points X_i = C + d_i); iarg = kind (0 biinvariant, 1 average, 2 frechet_left, 3 frechet_right)
      const int off=std::stoi(c.args[0][0]), len=std::stoi(c.args[0][1]); const int kind=std::stoi(c.iarg);
      G g=mkG(c.args[1]), C=mkG(c.args[2]);
      typedef std::vector<G, Eigen::aligned_allocator<G>> Vec_;
      Vec_ pts; for(size_t i=3;i<c.args.size();i++) pts.push_back(C + mkT(c.args[i]));
      auto avg=[&](const Vec_& p){ switch(kind){ case 0: return manif::average_biinvariant(p); case 1: return manif::average(p);
                                                  case 2: return manif::average_frechet_left(p); default: return manif::average_frechet_right(p); } };
      if(pts.empty()){ int thrown=0; try{ (void)avg(pts); } catch(const manif::runtime_error&){ thrown=1; } o.scalar(S(thrown)); o.scalar(S(1)); return true; }
      G m = avg(pts);
      { S n2=S(0); for(int i=0;i<len;i++) n2 += m.coeffs()(off+i)*m.coeffs()(off+i); S d = len? n2-S(1) : S(0); o.scalar(d); o.scalar(S(0)); }   // valid
      { T r = T::Zero(); for(auto& X: pts) r += X.rminus(m); r *= S(1)/S((int)pts.size()); o.mat(r.coeffs()); o.mat(T::Zero().coeffs()); } // stationary: mean_i log(m^-1 X_i) = 0
      { Vec_ q(pts.rbegin(), pts.rend()); if(q.size()>2) std::swap(q[0], q[q.size()/2]); o.mat(avg(q).transform()); o.mat(m.transform()); }   // order
      { Vec_ q; for(auto& X: pts) q.push_back(g*X); o.mat(avg(q).transform()); o.mat((g*m).transform()); }                                // left translation
      { Vec_ q; for(auto& X: pts) q.push_back(X*g); o.mat(avg(q).transform()); o.mat((m*g).transform()); }                                // right translation
      { Vec_ q(pts.size(), pts[0]); o.mat(avg(q).transform()); o.mat(pts[0].transform()); }                                                 // identical points
      return true;
    }
    if(op=="P13"){   // C13: same case format as the Ctor op (iarg = constructor id, args = the supplied quantities, all valid)
      int id=std::stoi(c.iarg); G r; if(!CtorRunner<G>::make(c,id,r)) return false;
      Dyn T_ = r.transform(); const int D = G::Dim;
      Dyn R = Expect<G>::rotation_of(r);                                    // rotation() (identity for Rn)
      o.mat(Dyn(R*R.transpose())); o.mat(Dyn(Dyn::Identity(D,D)));       // orthonormal
      { S det = S(1); if(D==2) det = R(0,0)*R(1,1)-R(0,1)*R(1,0);
        if(D==3) det = R(0,0)*(R(1,1)*R(2,2)-R(1,2)*R(2,1)) - R(0,1)*(R(1,0)*R(2,2)-R(1,2)*R(2,0)) + R(0,2)*(R(1,0)*R(2,1)-R(1,1)*R(2,0));
        o.scalar(det); o.scalar(S(1)); }
      o.mat(R); o.mat(Expect<G>::rotation(c,id));                            // rotation() is the supplied rotation
      o.mat(Expect<G>::translation_of(r)); o.mat(Expect<G>::translation(c,id));   // translation() is the supplied translation
      o.mat(Dyn(T_.topLeftCorner(D,D))); o.mat(R);                           // transform() carries rotation() ...
      { G back(r.coeffs()); o.mat(back.coeffs()); o.mat(r.coeffs()); }       // raw coefficients fed back
      o.mat(Expect<G>::feedback(r).transform()); o.mat(T_);                  // quat() / angle() + translation fed back reproduce the element
      { auto f = r.template cast<float>(); auto d = f.template cast<S>(); o.mat(d.transform()); o.mat(T_); }   // cast to float and back
      return true;
    }
    if(op=="P13V"){  // C13 validation: args: unit coefficients, [k], [off len]; the rotation coefficients are scaled by k
      DG data = vec_from<S,DG>(c.args[0]); S k = ScalarIO<S>::parse(c.args[1][0]); const int off=std::stoi(c.args[2][0]), len=std::stoi(c.args[2][1]);
      S e = ScalarIO<S>::parse(c.args[3][0]);     // the acceptance threshold of this scalar, supplied by the driver
      for(int i=0;i<len;i++) data(off+i) = data(off+i)*k;
      int thrown=0; try{ G X(data); (void)X; } catch(const manif::invalid_argument&){ thrown=1; }
      S dk = k-S(1); if(dk<S(0)) dk=-dk;
#ifdef NDEBUG
      int expect = 0;
#else
      int expect = (len>0 && !(dk < e)) ? 1 : 0;
#endif
      o.scalar(S(thrown)); o.scalar(S(expect));
      // the other validating entry points: construction from a mutable / const view of the data (the converting constructors)
      { DG buf = data; int th=0; try{ Eigen::Map<G> m(buf.data()); G X(m); (void)X; } catch(const manif::invalid_argument&){ th=1; } o.scalar(S(th)); o.scalar(S(expect)); }
      { DG buf = data; int th=0; try{ Eigen::Map<const G> m(buf.data()); G X(m); (void)X; } catch(const manif::invalid_argument&){ th=1; } o.scalar(S(th)); o.scalar(S(expect)); }
      // normalize() makes any non-degenerate data acceptable
      { G X; X.coeffs() = data; int t2=0; try{ Expect<G>::normalize(X); G Y(X.coeffs()); (void)Y; } catch(const manif::invalid_argument&){ t2=1; } o.scalar(S(t2)); o.scalar(S(0)); }
      return true;
    }
    if(op=="P10"){   // C10: X, Y, t — the same operations through an owning object, an Eigen::Map and an Eigen::Map<const>, over a guarded buffer
      G X=mkG(c.args[0]), Y=mkG(c.args[1]); T t=mkT(c.args[2]);
      const int R = G::RepSize, D = G::DoF, g1 = 3, g2 = 2;
      using Buf = Eigen::Matrix<S, Eigen::Dynamic, 1>;
      auto fresh = [&](){ Buf b(g1+R+g2+R+g1); for(int i=0;i<b.size();i++) b(i)=S(900+i); b.segment(g1,R)=X.coeffs(); b.segment(g1+R+g2,R)=Y.coeffs(); return b; };
      auto expect = [&](const DG& x){ Buf b = fresh(); b.segment(g1,R)=x; return b; };
      { Buf b = fresh(); Eigen::Map<G> M(b.data()+g1); Eigen::Map<const G> Mc(b.data()+g1);
        o.mat(M.inverse().coeffs()); o.mat(X.inverse().coeffs()); o.mat(Mc.inverse().coeffs()); o.mat(X.inverse().coeffs());
        o.mat(M.log().coeffs()); o.mat(X.log().coeffs()); o.mat(Mc.log().coeffs()); o.mat(X.log().coeffs());
        o.mat(M.compose(Y).coeffs()); o.mat(X.compose(Y).coeffs()); o.mat(Mc.compose(Y).coeffs()); o.mat(X.compose(Y).coeffs());
        o.mat(Y.compose(Mc).coeffs()); o.mat(Y.compose(X).coeffs());
        o.mat(Mc.rplus(t).coeffs()); o.mat(X.rplus(t).coeffs()); o.mat(Mc.rminus(Y).coeffs()); o.mat(X.rminus(Y).coeffs());
        o.mat(Mc.adj()); o.mat(X.adj()); o.mat(Mc.transform()); o.mat(X.transform()); o.mat((Mc*Y).coeffs()); o.mat((X*Y).coeffs());
        { J ja, jb, ka, kb; G r1 = Mc.compose(Y,ja,jb), r2 = X.compose(Y,ka,kb); o.mat(ja); o.mat(ka); o.mat(jb); o.mat(kb); }
        o.mat(b); o.mat(fresh()); }                                                       // reads left the whole buffer (guards included) untouched
      { Buf b = fresh(); Eigen::Map<G> M(b.data()+g1); M = Y; o.mat(b); o.mat(expect(Y.coeffs())); }
      { Buf b = fresh(); Eigen::Map<G> M(b.data()+g1); M.setIdentity(); o.mat(b); o.mat(expect(G::Identity().coeffs())); }
      { Buf b = fresh(); Eigen::Map<G> M(b.data()+g1); M += t; o.mat(b); o.mat(expect(X.rplus(t).coeffs())); }
      { Buf b = fresh(); Eigen::Map<G> M(b.data()+g1); M *= Y; o.mat(b); o.mat(expect(X.compose(Y).coeffs())); }
      { Buf b = fresh(); Eigen::Map<G> M(b.data()+g1); M = M.inverse(); o.mat(b); o.mat(expect(X.inverse().coeffs())); }
      { Buf b = fresh(); Eigen::Map<G> M(b.data()+g1); Eigen::Map<G> M2(b.data()+g1+R+g2); M = M2; o.mat(b); o.mat(expect(Y.coeffs())); }
      { Buf b = fresh(); Eigen::Map<G> M(b.data()+g1); Eigen::Map<G> M2(b.data()+g1+R+g2); M = std::move(M2); o.mat(b); o.mat(expect(Y.coeffs())); }
      { Buf b = fresh(); Eigen::Map<G> M(b.data()+g1); Eigen::Map<const G> M2(b.data()+g1+R+g2); M = M2; o.mat(b); o.mat(expect(Y.coeffs())); }
      { Buf b = fresh(); Eigen::Map<G> M(b.data()+g1); G Z(Y); M = std::move(Z); o.mat(b); o.mat(expect(Y.coeffs())); }
      { Buf b = fresh(); Eigen::Map<G> M(b.data()+g1); M.coeffs()(R-1) = S(5); DG e = X.coeffs(); e(R-1)=S(5); o.mat(b); o.mat(expect(e)); }
      { Buf b = fresh(); Eigen::Map<const G> Mc(b.data()+g1); G Z = Mc; G Z2(Mc); o.mat(Z.coeffs()); o.mat(X.coeffs()); o.mat(Z2.coeffs()); o.mat(X.coeffs()); }
      { Buf b = fresh(); Eigen::Map<G> M(b.data()+g1); Expect<G>::normalize(M); G Z = X; Expect<G>::normalize(Z); o.mat(b); o.mat(expect(Z.coeffs())); }
      { Buf b = fresh(); Eigen::Map<G> M(b.data()+g1); set_random(M, std::is_floating_point<S>());                      // setRandom: frame only
        Buf e = fresh(); e.segment(g1,R) = b.segment(g1,R); o.mat(b); o.mat(e); }
      // tangent views
      { Eigen::Matrix<S,Eigen::Dynamic,1> tb(g1+D+g2); for(int i=0;i<tb.size();i++) tb(i)=S(700+i); tb.segment(g1,D)=t.coeffs(); auto tb0 = tb;
        Eigen::Map<const T> Mt(tb.data()+g1); o.mat(Mt.exp().coeffs()); o.mat(t.exp().coeffs()); o.mat(Mt.hat()); o.mat(t.hat()); o.mat(Mt.rjac()); o.mat(t.rjac());
        o.mat(X.rplus(Mt).coeffs()); o.mat(X.rplus(t).coeffs()); o.mat(tb); o.mat(tb0);
        Eigen::Map<T> Mw(tb.data()+g1); Mw += t; auto e = tb0; e.segment(g1,D) = (t.coeffs()+t.coeffs()).eval(); o.mat(tb); o.mat(e);
        Mw.setZero(); e.segment(g1,D).setZero(); o.mat(tb); o.mat(e); Mw = t; e.segment(g1,D) = t.coeffs(); o.mat(tb); o.mat(e); }
      return true;
    }
    return false;
  }
};
