(* Taylor_SE23.v — property C02 on the small-angle branch of SE_2(3): translation and velocity of exp are (I + W/2) rho and
   (I + W/2) nu; each component is within |theta|^2 times the 1-norm of rho (resp. nu) of the closed form V(theta) rho. *)
From Coq Require Import Reals ZArith List Lra Psatz Lia.
From Coquelicot Require Import Coquelicot.
From Manif Require Import Scalar Mat Consts Group RInst Tac SO3 SE3 SE23 JacInv_SO3 Taylor_SE2 Jr_SO3 Jr_SE3 Taylor_SE3.
Import ListNotations.
Local Open Scope R_scope.

Section P.
Variable eps : R.
Hypothesis eps_pos : 0 < eps.

Lemma se23_exp_small a b c x y z d e f : x * x + y * y + z * z <= eps ->
  exists q0 q1 q2 q3, se23_exp RS eps [a; b; c; x; y; z; d; e; f] =
    [vsmall 0 a b c x y z; vsmall 1 a b c x y z; vsmall 2 a b c x y z; q0; q1; q2; q3; vsmall 0 d e f x y z; vsmall 1 d e f x y z; vsmall 2 d e f x y z].
Proof.
  intros H. unfold se23_exp, se23t_ang, se23t_lin, se23t_lin2, so3_ljac, so3_hat. cbv zeta. cbn [vslice skipn firstn]. cbn [K RS].
  assert (Hsn : @sqnorm RS [x; y; z] = x * x + y * y + z * z) by (mat_unfold; ring). rewrite Hsn.
  unfold kleb. cbn [kltb RS]. rewrite (Rltb_lt_false eps _ H). cbn [negb].
  assert (Hq : exists q0 q1 q2 q3, so3_exp RS eps [x; y; z] = [q0; q1; q2; q3]).
  { unfold so3_exp. destruct (kgtb _ _); [|do 4 eexists; reflexivity].
    unfold quat_of_angle_axis, eigen_normalized. destruct (kgtb _ _); do 4 eexists; reflexivity. }
  destruct Hq as (q0 & q1 & q2 & q3 & ->). exists q0, q1, q2, q3. unfold c_half, vsmall. mat_unfold.
  match goal with |- @eq _ ?u ?v => change (@eq (list R) u v) end. list_eq; try reflexivity; field.
Qed.

Theorem se23_taylor_bound a b c x y z d e f i :
  let n := x * x + y * y + z * z in
  0 < n -> n <= eps -> eps <= 1 -> (i < 3)%nat ->
  Rabs (nth i (se23_exp RS eps [a; b; c; x; y; z; d; e; f]) 0 - vrho i a b c x y z) <= n * (Rabs a + Rabs b + Rabs c) /\
  Rabs (nth (7 + i) (se23_exp RS eps [a; b; c; x; y; z; d; e; f]) 0 - vrho i d e f x y z) <= n * (Rabs d + Rabs e + Rabs f).
Proof.
  cbv zeta. intros Hn Hle He Hi. destruct (se23_exp_small a b c x y z d e f Hle) as (q0 & q1 & q2 & q3 & ->).
  destruct i as [|[|[|i]]]; [| | |exfalso; lia]; cbn [nth Nat.add]; split.
  - apply (se3_taylor_bound a b c x y z 0 Hn ltac:(lra) ltac:(lia)).
  - apply (se3_taylor_bound d e f x y z 0 Hn ltac:(lra) ltac:(lia)).
  - apply (se3_taylor_bound a b c x y z 1 Hn ltac:(lra) ltac:(lia)).
  - apply (se3_taylor_bound d e f x y z 1 Hn ltac:(lra) ltac:(lia)).
  - apply (se3_taylor_bound a b c x y z 2 Hn ltac:(lra) ltac:(lia)).
  - apply (se3_taylor_bound d e f x y z 2 Hn ltac:(lra) ltac:(lia)).
Qed.
End P.
