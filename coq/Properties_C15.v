(* Properties_C15.v — property C15: interpolation hits its end points and SLERP follows the geodesic.
   Over the reals.  smoothing_phi: closed (all clauses).  Rejection of t outside [0,1]: closed for every group
   record and method.  End points / geodesic / left-equivariance: proved once for any group record satisfying
   ExpLogCore (C01 laws + exp(log X) = X on valid elements, exp of any tangent valid) and instantiated for SO2,
   SE2, R3 — the groups for which C03 is proved; for the other groups the same statements are evaluated on the
   implementation on every run (exactly and in double).  interpolate_cubic is modelled after fix (Hermite basis
   functions h00/h01 were swapped). *)
From Coq Require Import Reals ZArith List Lra.
From Manif Require Import Scalar Mat Group RInst Generic LieSpec Algorithms SO2 SE2 Rn SE2Proofs RnProofs InterpProofs InterpInst.
Import ListNotations.
Local Open Scope R_scope.

Theorem C15_phi_supported m t : supported m -> @smoothing_phi RS t m = Ok (phi_poly m t).
Proof. exact (phi_is_poly m t). Qed.
Theorem C15_phi_ends m : supported m -> @smoothing_phi RS 0 m = Ok 0 /\ @smoothing_phi RS 1 m = Ok 1.
Proof. intros H. rewrite !phi_is_poly by exact H. destruct (phi_ends m H) as [-> ->]. split; reflexivity. Qed.
Theorem C15_phi_monotone m a b : supported m -> 0 <= a -> a <= b -> b <= 1 -> phi_poly m a <= phi_poly m b.
Proof. exact (phi_monotone m a b). Qed.
Theorem C15_phi_unsupported m t : ~ supported m -> @smoothing_phi RS t m = LogicError.
Proof. exact (phi_unsupported m t). Qed.
Print Assumptions C15_phi_monotone.

Theorem C15_rejects (G : GroupOps RS) A B t meth ta tb : t < 0 \/ 1 < t -> interpolate G A B t meth ta tb = RuntimeError.
Proof. exact (interpolate_rejects G A B t meth ta tb). Qed.

(* any group with exp / log mutually inverse on valid elements *)
Theorem C15_slerp_ends G (E : ExpLogCore G) A B : gc_valid (el_core G E) A -> gc_valid (el_core G E) B ->
  interpolate_slerp G A B 0 = Ok A /\ interpolate_slerp G A B 1 = Ok B.
Proof. exact (slerp_ends G E A B). Qed.
Theorem C15_cubic_ends G (E : ExpLogCore G) A B ta tb : gc_valid (el_core G E) A -> gc_valid (el_core G E) B ->
  el_twf G E ta -> el_twf G E tb -> interpolate_cubic G A B 0 ta tb = Ok A /\ interpolate_cubic G A B 1 ta tb = Ok B.
Proof. exact (cubic_ends G E A B ta tb). Qed.
Theorem C15_smooth_ends G (E : ExpLogCore G) A B m ta tb : supported m -> gc_valid (el_core G E) A -> gc_valid (el_core G E) B ->
  el_twf G E ta -> el_twf G E tb -> interpolate_smooth G A B 0 m ta tb = Ok A /\ interpolate_smooth G A B 1 m ta tb = Ok B.
Proof. exact (smooth_ends G E A B m ta tb). Qed.
Theorem C15_slerp_geodesic (G : GroupOps RS) A B t : 0 <= t <= 1 ->
  interpolate_slerp G A B t = Ok (g_compose G A (g_exp G (@vscale_r RS (g_log G (g_compose G (g_inverse G A) B)) t))).
Proof. exact (slerp_geodesic G A B t). Qed.
Theorem C15_slerp_left_equivariant G (E : ExpLogCore G) g A B t :
  gc_valid (el_core G E) g -> gc_valid (el_core G E) A -> gc_valid (el_core G E) B -> 0 <= t <= 1 ->
  interpolate_slerp G (g_compose G g A) (g_compose G g B) t = rmap (g_compose G g) (interpolate_slerp G A B t).
Proof. exact (slerp_left_equivariant G E g A B t). Qed.
Print Assumptions C15_slerp_left_equivariant.

(* instances *)
Theorem C15_SO2 eps : 0 < eps -> eps <= 1 -> ExpLogCore (SO2 RS eps).
Proof. intros H _. exact (SO2_explog eps H). Qed.
Theorem C15_SE2 eps : 0 < eps -> eps <= 1 -> ExpLogCore (SE2 RS eps).
Proof. exact (SE2_explog eps). Qed.
Theorem C15_R3 : ExpLogCore (Rn RS 3).
Proof. exact R3_explog. Qed.
(* e.g. SE2, all three methods, arbitrary end-point velocities *)
Theorem C15_SE2_all_methods eps (H1 : 0 < eps) (H2 : eps <= 1) A B meth ta tb :
  se2_valid A -> se2_valid B -> (exists a b c, ta = [a; b; c]) -> (exists a b c, tb = [a; b; c]) ->
  (meth = 0 \/ meth = 1 \/ meth = 2)%Z ->
  interpolate (SE2 RS eps) A B 0 meth ta tb = Ok A /\ interpolate (SE2 RS eps) A B 1 meth ta tb = Ok B.
Proof.
  intros HA HB Hta Htb [->|[->| ->]]; unfold interpolate.
  - exact (slerp_ends _ (SE2_explog eps H1 H2) A B HA HB).
  - exact (cubic_ends _ (SE2_explog eps H1 H2) A B ta tb HA HB Hta Htb).
  - apply (smooth_ends _ (SE2_explog eps H1 H2) A B 3 ta tb); try assumption. unfold supported; auto.
Qed.
Print Assumptions C15_SE2_all_methods.

Example C15_nonvacuous : supported 3 /\ se2_valid [7; -2; 3/5; 4/5] /\ (exists a b c, [1; 2; 1/2] = [a; b; c]).
Proof. repeat split; [unfold supported; auto | exists 7, (-2), (3/5), (4/5); split; [reflexivity|lra] | eexists _, _, _; reflexivity]. Qed.

(* SO3 (no ExpLogCore: exp(log q) is q only up to sign): SLERP starts at A exactly and ends at B as a transformation
   (B or -B, the two coefficient vectors of one rotation), whenever the relative rotation A^-1 B is on the closed-form
   branch of log and not a half turn *)
From Manif Require Import SO3 SO3Proofs Interp_SO3.
Theorem C15_SO3_slerp_zero eps A B : 0 < eps -> so3_valid A -> so3_valid B -> @interpolate_slerp RS (SO3 RS eps) A B 0 = Ok A.
Proof. intros H. exact (so3_slerp_zero eps H A B). Qed.
Theorem C15_SO3_slerp_one eps A B : 0 < eps -> so3_valid A -> so3_valid B ->
  (forall x y z w, so3_compose RS eps (so3_inverse RS A) B = [x; y; z; w] -> eps < x * x + y * y + z * z /\ w <> 0) ->
  @interpolate_slerp RS (SO3 RS eps) A B 1 = Ok B \/ @interpolate_slerp RS (SO3 RS eps) A B 1 = Ok (@vneg RS B).
Proof. intros H. exact (so3_slerp_one eps H A B). Qed.
Print Assumptions C15_SO3_slerp_one.

(* SE3: the same — SLERP is A at t = 0 and B with its quaternion up to sign at t = 1 *)
From Manif Require Import SE3 Interp_SE3.
Theorem C15_SE3_slerp_zero eps A B : 0 < eps -> se3_valid A -> se3_valid B -> @interpolate_slerp RS (SE3 RS eps) A B 0 = Ok A.
Proof. intros H. exact (se3_slerp_zero eps H A B). Qed.
Theorem C15_SE3_slerp_one eps A B : 0 < eps -> se3_valid A -> se3_valid B ->
  (forall tx ty tz x y z w, se3_compose RS eps (se3_inverse RS A) B = [tx; ty; tz; x; y; z; w] -> eps < x * x + y * y + z * z /\ w <> 0) ->
  @interpolate_slerp RS (SE3 RS eps) A B 1 = Ok B \/ @interpolate_slerp RS (SE3 RS eps) A B 1 = Ok (firstn 3 B ++ @vneg RS (skipn 3 B)).
Proof. intros H. exact (se3_slerp_one eps H A B). Qed.

(* SE_2(3) and SGal(3): the same (negq B = B with the four quaternion coefficients negated: the same transformation) *)
From Manif Require Import SE23 SGal3 SE23Proofs Interp_SE23.
Theorem C15_SE23_slerp_zero eps A B : 0 < eps -> se23_valid A -> se23_valid B -> @interpolate_slerp RS (SE23 RS eps) A B 0 = Ok A.
Proof. intros H. exact (se23_slerp_zero eps H A B). Qed.
Theorem C15_SE23_slerp_one eps A B : 0 < eps -> se23_valid A -> se23_valid B ->
  (forall tx ty tz x y z w vx vy vz, se23_compose RS eps (se23_inverse RS A) B = [tx; ty; tz; x; y; z; w; vx; vy; vz] -> eps < x * x + y * y + z * z /\ w <> 0) ->
  @interpolate_slerp RS (SE23 RS eps) A B 1 = Ok B \/ @interpolate_slerp RS (SE23 RS eps) A B 1 = Ok (negq B).
Proof. intros H. exact (se23_slerp_one eps H A B). Qed.
Theorem C15_SGal3_slerp_zero eps A B : 0 < eps -> sg_valid A -> sg_valid B -> @interpolate_slerp RS (SGal3 RS eps) A B 0 = Ok A.
Proof. intros H. exact (sg_slerp_zero eps H A B). Qed.
Theorem C15_SGal3_slerp_one eps A B : 0 < eps -> sg_valid A -> sg_valid B ->
  (forall px py pz x y z w vx vy vz t, sg_compose RS eps (sg_inverse RS A) B = [px; py; pz; x; y; z; w; vx; vy; vz; t] -> eps < x * x + y * y + z * z /\ w <> 0) ->
  @interpolate_slerp RS (SGal3 RS eps) A B 1 = Ok B \/ @interpolate_slerp RS (SGal3 RS eps) A B 1 = Ok (negq B).
Proof. intros H. exact (sg_slerp_one eps H A B). Qed.
Print Assumptions C15_SGal3_slerp_one.
Example C15_negq : negq [1; 2; 3; 4; 5; 6; 7; 8; 9; 10] = [1; 2; 3; -4; -5; -6; -7; 8; 9; 10].
Proof. reflexivity. Qed.
