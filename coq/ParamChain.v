(* ParamChain.v — the chain of ParamRun.run_op_chain closed for particular operations: the dual parts of the dual-number run are
   the derivatives of the REAL-NUMBER run along the seeded direction. *)
From Param Require Import Param.
From Coq Require Import Reals ZArith List Lra Lia.
From Coquelicot Require Import Coquelicot.
From Manif Require Import ParamBase Scalar RInst Dual DualProofs ParamDual Mat Consts Group SO2 SE2 Rn Run ParamRun Tac.
Import ListNotations.
Local Open Scope R_scope.

(* SE2 exp through the entry point (opcode OExp, no Jacobian requested): both branches, theta^2 <> eps *)
Theorem chain_SE2_exp eps x y th dx dy dth j : 0 < eps -> th * th <> eps -> (j < 4)%nat ->
  is_derive (fun h => entry 0 (@run_op RS eps GSE2 OExp [] 0%Z (at_h h [[x; y; th]] [[dx; dy; dth]])) 0 j) 0
    (snd (entry (0, 0) (@run_op (DS RS) (eps, 0) GSE2 OExp [] 0%Z (seed [[x; y; th]] [[dx; dy; dth]])) 0 j)).
Proof.
  intros He Hne Hj.
  assert (Hc : continuous (fun h => (th + h * dth) * (th + h * dth)) 0).
  { apply (ex_derive_continuous (fun h : R => (th + h * dth) * (th + h * dth))). auto_derive. exact I. }
  assert (EK : forall h, kltb (FSh h) (kmul (FSh h) (line1 th dth) (line1 th dth)) (fconst eps) = Rltb ((th + h * dth) * (th + h * dth)) eps) by (intros h; reflexivity).
  assert (E0 : kltb FS (kmul FS (line1 th dth) (line1 th dth)) (fconst eps) = Rltb (th * th) eps) by (cbn; f_equal; ring).
  set (rD := @run_op (DS RS) (eps, 0) GSE2 OExp [] 0%Z (seed [[x; y; th]] [[dx; dy; dth]])).
  assert (ED : exists o, rD = Ok [o] /\ length o = 4%nat).
  { unfold rD. cbn. unfold se2_exp. destruct (se2_AB _ _ _ _ _). eexists. split; reflexivity. }
  destruct ED as (o & ED & Lo). rewrite ED. cbn [entry nth].
  change o with (nth 0 [o] []) at 1.
  destruct (Rlt_dec (th * th) eps) as [Hlt|Hge].
  - apply (run_op_chain eps GSE2 OExp [] 0%Z [[x; y; th]] [[dx; dy; dth]] [o] 0 j); [|exact ED|cbn; lia|cbn [nth]; rewrite Lo; exact Hj|].
    + assert (Hloc : locally 0 (fun h => (th + h * dth) * (th + h * dth) < eps)).
      { apply (Hc (fun v => v < eps)). apply (open_lt eps). rewrite Rmult_0_l, Rplus_0_r. exact Hlt. }
      apply (filter_imp (fun h => (th + h * dth) * (th + h * dth) < eps)); [intros h Hh|exact Hloc].
      cbn [run_op group_of arg bit nth lineF combine map fst snd g_exp SE2 out1]. unfold se2_exp, se2_AB. cbn [vnth nth].
      rewrite EK, E0, (Rltb_lt_true _ _ Hh), (Rltb_lt_true _ _ Hlt). reflexivity.
    + cbn [run_op group_of arg bit nth lineF combine map fst snd g_exp SE2 out1 entry]. unfold se2_exp, se2_AB. cbn [vnth nth].
      rewrite E0, (Rltb_lt_true _ _ Hlt). destruct j as [|[|[|[|j]]]]; [| | | |exfalso; lia]; cbn; tauto.
  - assert (Hgt : eps < th * th) by lra. assert (Hth : th + 0 * dth <> 0) by (rewrite Rmult_0_l, Rplus_0_r; intros ->; lra).
    apply (run_op_chain eps GSE2 OExp [] 0%Z [[x; y; th]] [[dx; dy; dth]] [o] 0 j); [|exact ED|cbn; lia|cbn [nth]; rewrite Lo; exact Hj|].
    + assert (Hloc : locally 0 (fun h => eps < (th + h * dth) * (th + h * dth))).
      { apply (Hc (fun v => eps < v)). apply (open_gt eps). rewrite Rmult_0_l, Rplus_0_r. exact Hgt. }
      apply (filter_imp (fun h => eps < (th + h * dth) * (th + h * dth))); [intros h Hh|exact Hloc].
      cbn [run_op group_of arg bit nth lineF combine map fst snd g_exp SE2 out1]. unfold se2_exp, se2_AB. cbn [vnth nth].
      rewrite EK, E0, (Rltb_lt_false _ _ (Rlt_le _ _ Hh)), (Rltb_lt_false _ _ (Rlt_le _ _ Hgt)). reflexivity.
    + cbn [run_op group_of arg bit nth lineF combine map fst snd g_exp SE2 out1 entry]. unfold se2_exp, se2_AB. cbn [vnth nth].
      rewrite E0, (Rltb_lt_false _ _ (Rlt_le _ _ Hgt)). destruct j as [|[|[|[|j]]]]; [| | | |exfalso; lia]; cbn; tauto.
Qed.

(* operations that make no comparison: the run with comparisons decided at h IS the run with comparisons decided at 0 (by
   computation), and no side condition arises: the dual parts are the derivatives, unconditionally *)
Ltac chain_free g op x dx o j :=
  apply (run_op_chain _ g op [] 0%Z x dx o 0 j);
  [apply filter_forall; intros h; reflexivity | reflexivity | cbn; lia | cbn [nth length]; lia | ].

Theorem chain_SE2_act eps tx ty c s px py dtx dty dc ds dpx dpy j : (j < 2)%nat ->
  is_derive (fun h => entry 0 (@run_op RS eps GSE2 OAct [] 0%Z (at_h h [[tx; ty; c; s]; [px; py]] [[dtx; dty; dc; ds]; [dpx; dpy]])) 0 j) 0
    (snd (entry (0, 0) (@run_op (DS RS) (eps, 0) GSE2 OAct [] 0%Z (seed [[tx; ty; c; s]; [px; py]] [[dtx; dty; dc; ds]; [dpx; dpy]])) 0 j)).
Proof.
  intros Hj.
  set (rD := @run_op (DS RS) (eps, 0) GSE2 OAct [] 0%Z (seed [[tx; ty; c; s]; [px; py]] [[dtx; dty; dc; ds]; [dpx; dpy]])).
  assert (ED : exists o, rD = Ok [o] /\ length o = 2%nat) by (eexists; split; reflexivity).
  destruct ED as (o & ED & Lo). rewrite ED. cbn [entry nth]. change o with (nth 0 [o] []) at 1.
  apply (run_op_chain eps GSE2 OAct [] 0%Z [[tx; ty; c; s]; [px; py]] [[dtx; dty; dc; ds]; [dpx; dpy]] [o] 0 j);
    [apply filter_forall; intros h; reflexivity|exact ED|cbn; lia|cbn [nth]; rewrite Lo; exact Hj|].
  destruct j as [|[|j]]; [| |exfalso; lia]; cbn; tauto.
Qed.

Print Assumptions chain_SE2_exp.

(* SO2 log (atan2 of the imaginary and real parts; no comparison in the program): away from the cut and from real = 0 *)
Theorem chain_SO2_log eps re im dre dim : (0 < re \/ (re < 0 /\ im <> 0)) ->
  is_derive (fun h => entry 0 (@run_op RS eps GSO2 OLog [] 0%Z (at_h h [[re; im]] [[dre; dim]])) 0 0) 0
    (snd (entry (0, 0) (@run_op (DS RS) (eps, 0) GSO2 OLog [] 0%Z (seed [[re; im]] [[dre; dim]])) 0 0)).
Proof.
  intros Hc.
  set (rD := @run_op (DS RS) (eps, 0) GSO2 OLog [] 0%Z (seed [[re; im]] [[dre; dim]])).
  assert (ED : exists o, rD = Ok [o] /\ length o = 1%nat) by (eexists; split; reflexivity).
  destruct ED as (o & ED & Lo). rewrite ED. cbn [entry nth]. change o with (nth 0 [o] []) at 1.
  apply (run_op_chain eps GSO2 OLog [] 0%Z [[re; im]] [[dre; dim]] [o] 0 0);
    [apply filter_forall; intros h; reflexivity|exact ED|cbn; lia|cbn [nth]; rewrite Lo; lia|].
  cbn. rewrite !Rmult_0_l, !Rplus_0_r. tauto.
Qed.
Print Assumptions chain_SO2_log.
