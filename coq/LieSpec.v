(* LieSpec.v — the short specification layer: what it means for a GroupOps
   record (over the reals) to realise a matrix group through transform().
   GroupCore is what is proved per group; GroupLaws (the statement of C01) is
   derived from it once, generically. Every field is a statement about the
   *model's* functions and the generic matrix product / identity of Mat.v. *)
From Coq Require Import Reals List.
From Manif Require Import Scalar Mat Group RInst Generic.
Import ListNotations.
Local Open Scope R_scope.

Record GroupCore (G : GroupOps RS) : Type := mkCore {
  gc_valid : list R -> Prop;             (* right length and unit-norm rotation part *)
  gc_hom : list R -> list R;             (* a point in the homogeneous coordinates act() documents *)
  gc_homo : list R -> list R -> list R;  (* the image point in homogeneous coordinates (SGal3: the time row carries t(X)) *)
  gc_compose_valid : forall X Y, gc_valid X -> gc_valid Y -> gc_valid (g_compose G X Y);
  gc_inverse_valid : forall X, gc_valid X -> gc_valid (g_inverse G X);
  gc_identity_valid : gc_valid (g_identity G);
  gc_compose_M : forall X Y, gc_valid X -> gc_valid Y ->
     g_transform G (g_compose G X Y) = mmul (g_transform G X) (g_transform G Y);
  gc_identity_M : g_transform G (g_identity G) = mid (g_tra G);
  gc_act_M : forall X p, gc_valid X -> length p = g_actdim G ->
     gc_homo X (g_act G X p) = mvmul (g_transform G X) (gc_hom p);
  (* on coefficient vectors *)
  gc_assoc : forall X Y Z, gc_valid X -> gc_valid Y -> gc_valid Z ->
     g_compose G (g_compose G X Y) Z = g_compose G X (g_compose G Y Z);
  gc_neutral_l : forall X, gc_valid X -> g_compose G (g_identity G) X = X;
  gc_neutral_r : forall X, gc_valid X -> g_compose G X (g_identity G) = X;
  gc_inv_l : forall X, gc_valid X -> g_compose G (g_inverse G X) X = g_identity G;
  gc_inv_r : forall X, gc_valid X -> g_compose G X (g_inverse G X) = g_identity G
}.
Arguments gc_valid {G}. Arguments gc_hom {G}. Arguments gc_homo {G}.

(* the statement of property C01 for one group *)
Record GroupLaws (G : GroupOps RS) (valid : list R -> Prop) (hom : list R -> list R)
    (homo : list R -> list R -> list R) : Prop := mkLaws {
  gl_compose_valid : forall X Y, valid X -> valid Y -> valid (g_compose G X Y);
  gl_inverse_valid : forall X, valid X -> valid (g_inverse G X);
  gl_identity_valid : valid (g_identity G);
  (* the matrix of compose is the product of the matrices *)
  gl_compose_M : forall X Y, valid X -> valid Y ->
     g_transform G (g_compose G X Y) = mmul (g_transform G X) (g_transform G Y);
  (* the matrix of inverse is the (two-sided) matrix inverse *)
  gl_inverse_Ml : forall X, valid X ->
     mmul (g_transform G (g_inverse G X)) (g_transform G X) = mid (g_tra G);
  gl_inverse_Mr : forall X, valid X ->
     mmul (g_transform G X) (g_transform G (g_inverse G X)) = mid (g_tra G);
  (* Identity() is the identity matrix *)
  gl_identity_M : g_transform G (g_identity G) = mid (g_tra G);
  (* act is the matrix applied to the homogeneous point *)
  gl_act_M : forall X p, valid X -> length p = g_actdim G ->
     homo X (g_act G X p) = mvmul (g_transform G X) (hom p);
  (* hence: associativity, neutrality, two-sided inverse (on coefficient vectors) *)
  gl_assoc : forall X Y Z, valid X -> valid Y -> valid Z ->
     g_compose G (g_compose G X Y) Z = g_compose G X (g_compose G Y Z);
  gl_neutral_l : forall X, valid X -> g_compose G (g_identity G) X = X;
  gl_neutral_r : forall X, valid X -> g_compose G X (g_identity G) = X;
  gl_inv_l : forall X, valid X -> g_compose G (g_inverse G X) X = g_identity G;
  gl_inv_r : forall X, valid X -> g_compose G X (g_inverse G X) = g_identity G
}.

Lemma laws_of_core (G : GroupOps RS) (C : GroupCore G) : GroupLaws G (gc_valid C) (gc_hom C) (gc_homo C).
Proof.
  destruct C as [valid hom homo cv iv idv cM iM aM asc nl nr il ir]; cbn [gc_valid gc_hom gc_homo].
  constructor; auto.
  - intros X HX. rewrite <- cM by auto. rewrite il by auto. exact iM.
  - intros X HX. rewrite <- cM by auto. rewrite ir by auto. exact iM.
Qed.

(* ---- the adjoint representation (property C06, algebraic part) ---- *)
Definition commutator (A B : list (list R)) : list (list R) :=
  @msub RS (@mmul RS A B) (@mmul RS B A).

(* the matrix of X in the representation the Lie algebra lives in: the top-left LieAlg-sized block
   of the homogeneous matrix (for SO2 / SO3 that is rotation(); for the other groups all of transform()) *)
Definition g_matrep (G : GroupOps RS) (X : list R) : list (list R) :=
  @mblock RS (g_transform G X) 0 0 (g_alg G) (g_alg G).

Record AdjLaws (G : GroupOps RS) (valid : list R -> Prop) : Prop := mkAdj {
  (* X.adj() * s is the vector of X * hat(s) * X^-1 *)
  ad_conj : forall X s, valid X -> length s = g_dof G ->
     @mmul RS (@mmul RS (g_matrep G X) (g_hat G s)) (g_matrep G (g_inverse G X)) = g_hat G (@mvmul RS (g_adj G X) s);
  (* Adj(X*Y) = Adj(X) * Adj(Y); Adj(Identity) = I; Adj(X^-1) is the inverse matrix *)
  ad_hom : forall X Y, valid X -> valid Y -> g_adj G (g_compose G X Y) = mmul (g_adj G X) (g_adj G Y);
  ad_identity : g_adj G (g_identity G) = mid (g_dof G);
  ad_inverse : forall X, valid X -> mmul (g_adj G (g_inverse G X)) (g_adj G X) = mid (g_dof G);
  (* t.smallAdj() * s is the vector of the commutator [hat t, hat s] *)
  ad_small : forall t s, length t = g_dof G -> length s = g_dof G ->
     g_hat G (mvmul (g_smallAdj G t) s) = commutator (g_hat G t) (g_hat G s);
  (* t.ljac() = (-t).rjac() *)
  ad_ljac_rjac : forall t, length t = g_dof G -> g_ljac G t = g_rjac G (vneg t)
}.

(* Adj(X^-1) Adj(X) = I follows from the homomorphism property and C01 *)
Lemma adj_inverse_of_hom (G : GroupOps RS) (C : GroupCore G) :
  (forall X Y, gc_valid C X -> gc_valid C Y -> g_adj G (g_compose G X Y) = mmul (g_adj G X) (g_adj G Y)) ->
  g_adj G (g_identity G) = mid (g_dof G) ->
  forall X, gc_valid C X -> mmul (g_adj G (g_inverse G X)) (g_adj G X) = mid (g_dof G).
Proof.
  intros Hh Hi X HX. rewrite <- Hh by (try apply gc_inverse_valid; assumption).
  rewrite (gc_inv_l G C) by assumption. exact Hi.
Qed.

(* ---- the per-group Jacobians are the chain-rule expressions (property C05, algebraic part) ---- *)
Record JacLaws (G : GroupOps RS) (valid : list R -> Prop) : Prop := mkJac {
  jl_inverse : forall X, valid X -> g_inverse_J G X = @mneg RS (g_adj G X);                       (* -Adj(X) *)
  jl_compose_a : forall X Y, valid X -> valid Y -> g_compose_Ja G X Y = g_adj G (g_inverse G Y);   (* Adj(Y^-1) *)
  jl_compose_a_inv : forall X Y, valid X -> valid Y ->
     @mmul RS (g_compose_Ja G X Y) (g_adj G Y) = @mid RS (g_dof G);                                (* = Adj(Y)^-1 *)
  jl_compose_b : forall X Y, valid X -> valid Y -> g_compose_Jb G X Y = @mid RS (g_dof G);
  jl_exp : forall t, length t = g_dof G -> g_exp_J G t = g_rjac G t;                                                     (* Jr(t) *)
  jl_log : forall X, valid X -> g_log_J G X = g_rjacinv G (g_log G X);                                        (* Jr^-1(log X) *)
  jl_act_v : forall X p, valid X -> length p = g_actdim G ->
     g_act_Jv G X p = @mblock RS (g_transform G X) 0 0 (g_dim G) (g_dim G)                         (* the rotation block *)
}.
