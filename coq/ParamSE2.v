(* ParamSE2.v — the chain of ParamRun.v closed for one operation, SE2's exp, on both of its branches: the dual parts of exp over
   dual numbers are the derivatives of the real-number exp along the seeded direction (side conditions discharged: theta <> 0
   on the closed-form branch; local agreement of the function run with the true function: theta^2 <> eps). *)
From Param Require Import Param.
From Coq Require Import Reals ZArith List Lra Lia.
From Coquelicot Require Import Coquelicot.
From Manif Require Import ParamBase Scalar RInst Dual DualProofs ParamDual Mat Consts Group SO2 SE2 Run ParamRun Tac.
Import ListNotations.
Local Open Scope R_scope.

Section P.
Variables eps x y th dx dy dth : R.
Hypothesis eps_pos : 0 < eps.

Definition outD := se2_exp (DS RS) (eps, 0) [(x, dx); (y, dy); (th, dth)].
Definition outF := se2_exp FS (fconst eps) [line1 x dx; line1 y dy; line1 th dth].
Definition outR (h : R) := se2_exp RS eps [x + h * dx; y + h * dy; th + h * dth].

Lemma outD_outF : Forall2 trk outD outF.
Proof.
  apply list_R_Forall2.
  apply (se2_exp_R (DS RS) FS DF_R (eps, 0) (fconst eps) (trk_const eps)).
  apply list_R_cons_R; [exact (trk_line x dx)|]. apply list_R_cons_R; [exact (trk_line y dy)|]. apply list_R_cons_R; [exact (trk_line th dth)|]. apply list_R_nil_R.
Qed.

Lemma sq_cont : continuous (fun h => (th + h * dth) * (th + h * dth)) 0.
Proof. apply (ex_derive_continuous (fun h : R => (th + h * dth) * (th + h * dth))). auto_derive. exact I. Qed.

Lemma Forall2_nth_rel {A B} (Rl : A -> B -> Prop) l1 l2 j d1 d2 : Forall2 Rl l1 l2 -> (j < length l1)%nat -> Rl (nth j l1 d1) (nth j l2 d2).
Proof. intros H. revert j. induction H as [|a b l1 l2 Hab H IH]; intros j Hj; [cbn in Hj; lia|]. destruct j as [|j]; [exact Hab|]. cbn [nth]. apply IH. cbn in Hj. lia. Qed.

Lemma outF_cond : kltb FS (kmul FS (line1 th dth) (line1 th dth)) (fconst eps) = Rltb (th * th) eps.
Proof. cbn. f_equal. ring. Qed.

Theorem se2_exp_dual_is_derivative j : th * th <> eps -> (j < 4)%nat ->
  is_derive (fun h => nth j (outR h) 0) 0 (snd (nth j outD (0, 0))).
Proof.
  intros Hne Hj.
  assert (HT : trk (nth j outD (0, 0)) (nth j outF (fconst 0))).
  { apply Forall2_nth_rel; [exact outD_outF|]. unfold outD, se2_exp. destruct (se2_AB _ _ _ _ _). exact Hj. }
  destruct HT as [_ Hd].
  assert (HF : th * th < eps -> outF = 
     [ksub FS (kmul FS (ksub FS (kz 1) (kmul FS c_1_6d (kmul FS (line1 th dth) (line1 th dth)))) (line1 x dx))
              (kmul FS (ksub FS (kmul FS c_half (line1 th dth)) (kmul FS (kmul FS c_1_24d (line1 th dth)) (kmul FS (line1 th dth) (line1 th dth)))) (line1 y dy));
      kadd FS (kmul FS (ksub FS (kmul FS c_half (line1 th dth)) (kmul FS (kmul FS c_1_24d (line1 th dth)) (kmul FS (line1 th dth) (line1 th dth)))) (line1 x dx))
              (kmul FS (ksub FS (kz 1) (kmul FS c_1_6d (kmul FS (line1 th dth) (line1 th dth)))) (line1 y dy));
      kcos FS (line1 th dth); ksin FS (line1 th dth)]).
  { intros Hlt. unfold outF, se2_exp, se2_AB. cbn [vnth nth]. rewrite outF_cond, (Rltb_lt_true _ _ Hlt). reflexivity. }
  assert (HG : eps < th * th -> outF =
     [ksub FS (kmul FS (kdiv FS (ksin FS (line1 th dth)) (line1 th dth)) (line1 x dx)) (kmul FS (kdiv FS (ksub FS (kz 1) (kcos FS (line1 th dth))) (line1 th dth)) (line1 y dy));
      kadd FS (kmul FS (kdiv FS (ksub FS (kz 1) (kcos FS (line1 th dth))) (line1 th dth)) (line1 x dx)) (kmul FS (kdiv FS (ksin FS (line1 th dth)) (line1 th dth)) (line1 y dy));
      kcos FS (line1 th dth); ksin FS (line1 th dth)]).
  { intros Hgt. unfold outF, se2_exp, se2_AB. cbn [vnth nth]. rewrite outF_cond, (Rltb_lt_false _ _ (Rlt_le _ _ Hgt)). reflexivity. }
  destruct (Rlt_dec (th * th) eps) as [Hlt|Hge].
  - (* Taylor branch *)
    assert (Hloc : locally 0 (fun h => (th + h * dth) * (th + h * dth) < eps)).
    { apply (sq_cont (fun v => v < eps)). apply (open_lt eps). rewrite Rmult_0_l, Rplus_0_r. exact Hlt. }
    rewrite (HF Hlt) in Hd.
    match type of Hd with fok (nth j ?L _) -> _ => apply (is_derive_ext_loc (fun h => fn (nth j L (fconst 0)) h)) end.
    + apply (filter_imp (fun h => (th + h * dth) * (th + h * dth) < eps)); [intros h Hh|exact Hloc]. unfold outR, se2_exp, se2_AB. cbn [vnth nth kmul kltb RS]. rewrite (Rltb_lt_true _ _ Hh).
      destruct j as [|[|[|[|j]]]]; [| | | |exfalso; lia]; cbn; unfold c_1_6d, c_half, c_1_24d; cbn; lra.
    + apply Hd. destruct j as [|[|[|[|j]]]]; [| | | |exfalso; lia]; cbn; tauto.
  - (* closed-form branch *)
    assert (Hgt : eps < th * th) by lra. assert (Hth : th <> 0) by (intros ->; lra).
    assert (Hloc : locally 0 (fun h => eps < (th + h * dth) * (th + h * dth))).
    { apply (sq_cont (fun v => eps < v)). apply (open_gt eps). rewrite Rmult_0_l, Rplus_0_r. exact Hgt. }
    rewrite (HG Hgt) in Hd.
    match type of Hd with fok (nth j ?L _) -> _ => apply (is_derive_ext_loc (fun h => fn (nth j L (fconst 0)) h)) end.
    + apply (filter_imp (fun h => eps < (th + h * dth) * (th + h * dth))); [intros h Hh|exact Hloc]. unfold outR, se2_exp, se2_AB. cbn [vnth nth kmul kltb RS]. rewrite (Rltb_lt_false _ _ (Rlt_le _ _ Hh)).
      destruct j as [|[|[|[|j]]]]; [| | | |exfalso; lia]; cbn; lra.
    + apply Hd. assert (th + 0 * dth <> 0) by (rewrite Rmult_0_l, Rplus_0_r; exact Hth).
      destruct j as [|[|[|[|j]]]]; [| | | |exfalso; lia]; cbn; tauto.
Qed.
End P.
