(* Jac_All.v — JacLaws (property C05, algebraic part) for every group model. *)
From Coq Require Import Reals ZArith List Lra.
From Manif Require Import Scalar Mat Consts Group RInst Tac Atan2 SO2 SE2 SO3 SE3 SE23 SGal3 Rn Generic LieSpec
  SE2Proofs SO3Proofs SE23Proofs RnProofs AlgTac AdjTac Adj_SO2 Adj_SE2 Adj_SO3 Adj_SE3 Adj_SE23 Adj_SGal3 Adj_Rn.
Import ListNotations.
Local Open Scope R_scope.

Lemma quat_matrix_conj x y z w : quat_matrix RS [- x; - y; - z; w] = @mT RS (quat_matrix RS [x; y; z; w]).
Proof. rcbv. list_eq; ring. Qed.

Section P.
Variable eps : R.
Hypothesis eps_pos : 0 < eps.

Lemma SO2_jac : JacLaws (SO2 RS eps) so2_valid.
Proof.
  constructor; cbn [g_dof g_dim g_actdim g_transform g_inverse g_adj g_compose g_inverse_J g_compose_Ja g_compose_Jb g_exp_J g_rjac g_log_J g_rjacinv g_log g_act_Jv SO2].
  - intros X _. rcbv. list_eq; ring.
  - intros X Y _ _. reflexivity.
  - intros X Y _ _. rcbv. list_eq; ring.
  - intros X Y _ _. rcbv. list_eq; ring.
  - reflexivity.
  - reflexivity.
  - intros X p (r & i & -> & H) Hp. unfold so2_act_Jv. rewrite so2_transform_valid, so2_rotation_valid by assumption. reflexivity.
Qed.

Lemma SE2_jac : JacLaws (SE2 RS eps) se2_valid.
Proof.
  constructor; cbn [g_dof g_dim g_actdim g_transform g_inverse g_adj g_compose g_inverse_J g_compose_Ja g_compose_Jb g_exp_J g_rjac g_log_J g_rjacinv g_log g_act_Jv SE2].
  - reflexivity.
  - reflexivity.
  - intros X Y HX HY. exact (ad_inverse _ _ (SE2_adj eps eps_pos) Y HY).
  - reflexivity.
  - reflexivity.
  - reflexivity.
  - intros X p (x & y & r & i & -> & H) Hp. rcbv. reflexivity.
Qed.

Lemma SO3_jac : JacLaws (SO3 RS eps) so3_valid.
Proof.
  constructor; cbn [g_dof g_dim g_actdim g_transform g_inverse g_adj g_compose g_inverse_J g_compose_Ja g_compose_Jb g_exp_J g_rjac g_log_J g_rjacinv g_log g_act_Jv SO3].
  - reflexivity.
  - intros X Y _ (x & y & z & w & -> & H). unfold so3_compose_Ja, so3_adj, so3_rotation, so3_inverse, quat_conj, qx, qy, qz, qw.
    mat_unfold. symmetry. apply quat_matrix_conj.
  - intros X Y HX HY. destruct HY as (x & y & z & w & -> & H).
    assert (HY : so3_valid [x; y; z; w]) by (eexists _, _, _, _; split; [reflexivity|assumption]).
    replace (so3_compose_Ja RS X [x; y; z; w]) with (so3_adj RS (so3_inverse RS [x; y; z; w])).
    + exact (ad_inverse _ _ (SO3_adj eps eps_pos) _ HY).
    + unfold so3_compose_Ja, so3_adj, so3_rotation, so3_inverse, quat_conj, qx, qy, qz, qw. mat_unfold. apply quat_matrix_conj.
  - reflexivity.
  - intros t Ht. destruct_len t Ht. unfold so3_exp_J, so3_rjac, so3_ljac.
    unfold kleb, kgtb. destruct (kltb RS eps (@sqnorm RS [k; k0; k1])) eqn:E; cbn [negb].
    + set (a := kdiv RS _ _). set (b := kdiv RS _ _). clearbody a b. rcbv. list_eq; ring.
    + rcbv. list_eq; ring.
  - intros X (x & y & z & w & -> & H). unfold so3_log_J, so3_rjacinv, so3_ljacinv.
    assert (Hl : exists a b c, so3_log RS eps [x; y; z; w] = [a; b; c]).
    { unfold so3_log. cbn [firstn]. set (cf := if kgtb _ _ then _ else _). clearbody cf. rcbv. eauto. }
    destruct Hl as (a & b & c & ->).
    unfold kleb, kgtb. destruct (kltb RS eps (@sqnorm RS [a; b; c])) eqn:E; cbn [negb].
    + set (cc := ksub RS _ _). clearbody cc. rcbv. list_eq; ring.
    + rcbv. list_eq; ring.
  - intros X p (x & y & z & w & -> & H) Hp. rcbv. reflexivity.
Qed.

Lemma SE3_jac : JacLaws (SE3 RS eps) se3_valid.
Proof.
  constructor; cbn [g_dof g_dim g_actdim g_transform g_inverse g_adj g_compose g_inverse_J g_compose_Ja g_compose_Jb g_exp_J g_rjac g_log_J g_rjacinv g_log g_act_Jv SE3].
  - reflexivity.
  - reflexivity.
  - intros X Y HX HY. exact (ad_inverse _ _ (SE3_adj eps eps_pos) Y HY).
  - reflexivity.
  - reflexivity.
  - reflexivity.
  - intros X p (tx & ty & tz & x & y & z & w & -> & H) Hp. rcbv. reflexivity.
Qed.

Lemma SE23_jac : JacLaws (SE23 RS eps) se23_valid.
Proof.
  constructor; cbn [g_dof g_dim g_actdim g_transform g_inverse g_adj g_compose g_inverse_J g_compose_Ja g_compose_Jb g_exp_J g_rjac g_log_J g_rjacinv g_log g_act_Jv SE23].
  - reflexivity.
  - reflexivity.
  - intros X Y HX HY. exact (ad_inverse _ _ (SE23_adj eps eps_pos) Y HY).
  - reflexivity.
  - reflexivity.
  - reflexivity.
  - intros X p (tx & ty & tz & x & y & z & w & vx & vy & vz & -> & H) Hp. rcbv. reflexivity.
Qed.

Lemma SGal3_jac : JacLaws (SGal3 RS eps) sg_valid.
Proof.
  constructor; cbn [g_dof g_dim g_actdim g_transform g_inverse g_adj g_compose g_inverse_J g_compose_Ja g_compose_Jb g_exp_J g_rjac g_log_J g_rjacinv g_log g_act_Jv SGal3].
  - reflexivity.
  - reflexivity.
  - intros X Y HX HY. exact (ad_inverse _ _ (SGal3_adj eps eps_pos) Y HY).
  - reflexivity.
  - reflexivity.
  - reflexivity.
  - intros X p (px & py & pz & x & y & z & w & vx & vy & vz & t & -> & H) Hp. rcbv. reflexivity.
Qed.
End P.

Ltac rn_jac :=
  constructor; unfold rn_valid;
  [ intros X HX; rcbv; list_eq; ring
  | intros X Y HX HY; rcbv; list_eq; ring
  | intros X Y HX HY; rcbv; list_eq; ring
  | intros X Y HX HY; reflexivity
  | intros t Ht; reflexivity
  | intros X HX; reflexivity
  | intros X p HX Hp; destruct_len X HX; rcbv; reflexivity ].
Lemma R1_jac : JacLaws (Rn RS 1) (rn_valid 1). Proof. rn_jac. Qed.
Lemma R2_jac : JacLaws (Rn RS 2) (rn_valid 2). Proof. rn_jac. Qed.
Lemma R3_jac : JacLaws (Rn RS 3) (rn_valid 3). Proof. rn_jac. Qed.
Lemma R4_jac : JacLaws (Rn RS 4) (rn_valid 4). Proof. rn_jac. Qed.
Lemma R5_jac : JacLaws (Rn RS 5) (rn_valid 5). Proof. rn_jac. Qed.
Lemma R6_jac : JacLaws (Rn RS 6) (rn_valid 6). Proof. rn_jac. Qed.
Lemma R7_jac : JacLaws (Rn RS 7) (rn_valid 7). Proof. rn_jac. Qed.
Lemma R8_jac : JacLaws (Rn RS 8) (rn_valid 8). Proof. rn_jac. Qed.
Lemma R9_jac : JacLaws (Rn RS 9) (rn_valid 9). Proof. rn_jac. Qed.
