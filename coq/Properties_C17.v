(* Properties_C17.v — property C17: de Casteljau curve fitting terminates, stays in bounds and interpolates.
   The model (Algorithms.v: dc_plan) carries the C++ integer types explicitly (size_t / unsigned int, wrapping),
   every trajectory[i] is a checked access, and the computation is structural recursion over the finite plan, so it
   terminates by construction.  Stated for ALL N, d, k with 3 <= N, 2 <= d <= N, 1 <= k (N and k*d below 2^31).
   decasteljau() is modelled after fix (the segment count was floor((N-d)/d) by operator precedence). *)
From Coq Require Import Reals ZArith List Lia.
From Manif Require Import Scalar Mat Group RInst Generic LieSpec Algorithms InterpProofs InterpInst DcProofs DcCurve SO2 SE2 Rn.
Import ListNotations.

Local Open Scope Z_scope.
(* the plan: the open windows (+ one wrapping window when closed), and the number of curve points per window *)
Theorem C17_plan N d k closed : 3 <= N -> 2 <= d -> d <= N -> 1 <= k -> N < 2147483648 -> k * d < 2147483648 ->
  dc_plan N d k closed = DcOk (open_windows N d ++ (if closed then [closed_window N d] else [])) (seg_points d k).
Proof. exact (dc_plan_spec N d k closed). Qed.
(* the number of open windows, each of d in-bounds consecutive indices starting at t*(d-1) *)
Theorem C17_count N d : length (open_windows N d) = Z.to_nat ((N - d) / (d - 1) + 1).
Proof. exact (open_windows_length N d). Qed.
Theorem C17_in_bounds N d : 2 <= d -> d <= N ->
  Forall (fun w => length w = Z.to_nat d /\ Forall (fun i => 0 <= i < N) w) (open_windows N d).
Proof. exact (open_windows_wf N d). Qed.
Theorem C17_window_shape N d t : (t < Z.to_nat (nseg_spec N d))%nat ->
  nth t (open_windows N d) [] = zseq (Z.of_nat t * (d - 1)) (Z.to_nat d).
Proof. exact (open_window_nth N d t). Qed.
Theorem C17_overlap_by_one d t : 2 <= d -> 0 <= t ->
  nth (Z.to_nat d - 1) (win_spec d t) 0 = nth 0 (win_spec d (t + 1)) 0 /\ nth 0 (win_spec d (t + 1)) 0 = (t + 1) * (d - 1).
Proof. exact (open_windows_overlap d t). Qed.
(* maximal number of windows; fewer than d-1 trailing points unused *)
Theorem C17_maximal N d : 2 <= d -> d <= N ->
  N < nseg_spec N d * (d - 1) + d /\ N - 1 - (nseg_spec N d - 1) * (d - 1) - (d - 1) < d - 1 /\ (nseg_spec N d - 1) * (d - 1) + d <= N.
Proof. exact (open_windows_maximal N d). Qed.
Theorem C17_closed_window N d : 2 <= d -> d <= N ->
  length (closed_window N d) = Z.to_nat d /\ Forall (fun i => 0 <= i < N) (closed_window N d) /\
  nth 0 (closed_window N d) 0 = nseg_spec N d * (d - 1).
Proof. exact (closed_window_wf N d). Qed.
Theorem C17_rejects N d k closed : N < 3 \/ N < d \/ k <= 0 -> dc_plan N d k closed = DcRuntimeError.
Proof. exact (dc_plan_rejects N d k closed). Qed.
Print Assumptions C17_plan.

(* the curve: last point of a window = its last control point; degree 2 = piecewise geodesic (groups with ExpLogCore) *)
Theorem C17_window_end G (E : ExpLogCore G) Qs : Forall (gc_valid (el_core G E)) Qs -> Qs <> [] ->
  hd [] (dc_iter G (length Qs - 1) Qs 1%R) = last Qs [].
Proof. exact (window_end G E Qs). Qed.
Theorem C17_degree2_geodesic (G : GroupOps RS) a b t : (0 <= t <= 1)%R ->
  Ok (hd [] (dc_iter G 1 [a; b] t)) = interpolate_slerp G a b t.
Proof. exact (degree2_is_slerp G a b t). Qed.
Print Assumptions C17_window_end.

(* non-vacuity and two concrete plans (computed by the model) *)
Example C17_example_open : dc_plan 7 3 2 false = DcOk [[0; 1; 2]; [2; 3; 4]; [4; 5; 6]] 6.
Proof. vm_compute. reflexivity. Qed.
Example C17_example_closed : dc_plan 6 3 1 true = DcOk [[0; 1; 2]; [2; 3; 4]; [4; 5; 0]] 3.
Proof. vm_compute. reflexivity. Qed.
Example C17_example_min : dc_plan 3 2 1 true = DcOk [[0; 1]; [1; 2]; [2; 0]] 1.
Proof. vm_compute. reflexivity. Qed.
