(* Properties_C09.v — property C09: optional outputs are transparent; operations are pure and deterministic.
   The model is a pure function of its arguments by construction, so purity / history-independence hold
   on the model definitionally (a Gallina function has no state); the theorems below are the part with
   content on the model: for the executable entry point run_op that the code is compared with,
     - the returned VALUE does not depend on which Jacobians are requested,
     - each Jacobian is the same whichever other Jacobian is requested with it,
     - a Jacobian is produced exactly when requested,
   for every operation, group, threshold and argument list — including lminus, whose three code paths
   per subset are mirrored in Generic.v.  The tie to the code (every subset, block-bound outputs,
   repeated calls, aliased assignments) is the correspondence + predicate P09 run on every check. *)
From Coq Require Import ZArith List Bool.
From Manif Require Import Scalar Mat Group Generic Api Run.
Import ListNotations.

Section AnyScalar.
Variable F : Sc.
Variable eps : K F.

Definition two_output (op : opcode) : bool :=
  match op with
  | OCompose | OAct | ORplus | OLplus | OPlus | ORminus | OLminus | OMinus | OBetween | OTPlus | OTMinus | OAliasGV => true
  | _ => false
  end.
Definition one_output (op : opcode) : bool :=
  match op with OInverse | OLog | OExp => true | _ => false end.

Definition hd_res (r : res (list (list (K F)))) : option (list (K F)) :=
  match r with Ok (v :: _) => Some v | _ => None end.
Definition len_res (r : res (list (list (K F)))) : option nat :=
  match r with Ok l => Some (length l) | _ => None end.

(* the value never depends on the requested subset *)
Theorem C09_value_mask_independent g op iarg args m m' :
  two_output op = true \/ one_output op = true ->
  hd_res (run_op eps g op m iarg args) = hd_res (run_op eps g op m' iarg args).
Proof.
  intros [H|H]; destruct op; try discriminate H; unfold run_op, out2, out1, hd_res, rplus, lplus, plus, rplus, rminus, minus, lminus, between, t_plus, t_minus;
    cbn [fst snd]; repeat match goal with |- context [bit ?a ?b] => destruct (bit a b) end; reflexivity.
Qed.

(* a Jacobian is produced exactly when requested *)
Theorem C09_outputs_as_requested g op iarg args (a b : bool) :
  two_output op = true ->
  len_res (run_op eps g op [a; b] iarg args) = Some (1 + (if a then 1 else 0) + (if b then 1 else 0))%nat.
Proof.
  intros H; destruct op; try discriminate H; unfold run_op, out2, len_res, rplus, lplus, plus, rplus, rminus, minus, lminus, between, t_plus, t_minus, bit;
    cbn [nth]; destruct a, b; reflexivity.
Qed.

(* each Jacobian is the same whichever other one is requested with it *)
Definition nth_res (r : res (list (list (K F)))) (i : nat) : option (list (K F)) :=
  match r with Ok l => nth_error l i | _ => None end.
Theorem C09_jacobian_subset_independent g op iarg args :
  two_output op = true ->
  nth_res (run_op eps g op [true; false] iarg args) 1 = nth_res (run_op eps g op [true; true] iarg args) 1 /\
  nth_res (run_op eps g op [false; true] iarg args) 1 = nth_res (run_op eps g op [true; true] iarg args) 2.
Proof.
  intros H; destruct op; try discriminate H; unfold run_op, out2, nth_res, rplus, lplus, plus, rplus, rminus, minus, lminus, between, t_plus, t_minus, bit;
    cbn [nth]; split; reflexivity.
Qed.

(* the model is a function: equal arguments give equal results, whatever was evaluated before *)
Theorem C09_deterministic g op mask iarg args args' : args = args' -> run_op eps g op mask iarg args = run_op eps g op mask iarg args'.
Proof. intros ->. reflexivity. Qed.
End AnyScalar.
Print Assumptions C09_value_mask_independent.
Print Assumptions C09_jacobian_subset_independent.
