(* Adj_SE23.v — AdjLaws (property C06, algebraic part) for the SE_2(3) model. *)
From Coq Require Import Reals ZArith List Lra.
From Manif Require Import Scalar Mat Consts Group RInst Tac SO2 SO3 SE3 SE23 Generic LieSpec SO3Proofs SE23Proofs RnProofs AlgTac AdjTac Adj_SO3.
Import ListNotations.
Local Open Scope R_scope.
Section P.
Variable eps : R.
Hypothesis eps_pos : 0 < eps.

Lemma SE23_adj : AdjLaws (SE23 RS eps) se23_valid.
Proof.
  assert (Hhom : forall X Y, se23_valid X -> se23_valid Y ->
     se23_adj RS (se23_compose RS eps X Y) = @mmul RS (se23_adj RS X) (se23_adj RS Y)).
  { intros X Y (atx & aty & atz & ax & ay & az & aw & avx & avy & avz & -> & Ha)
               (btx & bty & btz & bx & by_ & bz & bw & bvx & bvy & bvz & -> & Hb).
    rewrite (se23_compose_valid_eq eps eps_pos), quat_mul_eq by assumption.
    pose proof (quat_mul_unit _ _ _ _ _ _ _ _ Ha Hb) as Hc.
    unfold rot_hom at 1 2. mat_unfold. unfold se23_adj.
    rewrite !se23_rotation_unit by assumption. unfold rot_hom.
    pose proof (n4_w _ _ _ _ Ha) as Hw. rcbv. list_eq; ringm1 Hw. }
  assert (Hid : se23_adj RS (g_identity (SE23 RS eps)) = @mid RS 9).
  { rewrite (se23_identity_eq eps eps_pos). rcbv. list_eq; ring. }
  constructor; unfold g_matrep; cbn [g_alg g_dof g_transform g_hat g_inverse g_adj g_compose g_smallAdj g_ljac g_rjac SE23].
  - intros X s (tx & ty & tz & x & y & z & w & vx & vy & vz & -> & H) Hs. destruct_len s Hs.
    rewrite se23_inverse_valid_eq by assumption. unfold rot_hom at 1 2. mat_unfold.
    unfold se23_transform, se23_adj.
    rewrite !se23_rotation_unit by (unfold n4 in *; try assumption; rewrite <- H; ring).
    unfold rot_hom. pose proof (n4_w _ _ _ _ H) as Hw. rcbv. list_eq; ringm1 Hw.
  - exact Hhom.
  - exact Hid.
  - exact (adj_inverse_of_hom _ (SE23_core eps eps_pos) Hhom Hid).
  - intros t s Ht Hs. destruct_len t Ht. destruct_len s Hs. rcbv. list_eq; ring.
  - intros t Ht. destruct_len t Ht.
    unfold se23_ljac, se23_rjac, se23t_ang, se23t_lin2. cbn [vneg map skipn firstn vslice app].
    cbn [K RS kopp]. rewrite (so3_rjac_neg' eps). rewrite !Ropp_involutive. reflexivity.
Qed.
End P.
