(* SO3Proofs.v — C01 for the SO3 and SE3 models at the real instance. *)
From Coq Require Import Reals ZArith List Lra.
From Manif Require Import Scalar Mat Consts Group RInst Tac SO2 SO3 SE3 Generic LieSpec.
Import ListNotations.
Local Open Scope R_scope.

(* the homogeneous (degree-2) rotation matrix of a quaternion: multiplicative for ALL
   quaternions, and equal to Eigen's toRotationMatrix on unit ones *)
Definition rot_hom (q : list R) : list (list R) :=
  match q with
  | [x; y; z; w] =>
    [[w*w + x*x - y*y - z*z; 2*(x*y - w*z); 2*(x*z + w*y)];
     [2*(x*y + w*z); w*w - x*x + y*y - z*z; 2*(y*z - w*x)];
     [2*(x*z - w*y); 2*(y*z + w*x); w*w - x*x - y*y + z*z]]
  | _ => []
  end.

Definition n4 (x y z w : R) := x * x + y * y + z * z + w * w.

Lemma quat_matrix_unit x y z w : n4 x y z w = 1 ->
  quat_matrix RS [x; y; z; w] = rot_hom [x; y; z; w].
Proof.
  unfold n4; intros H. unfold quat_matrix, qx, qy, qz, qw, rot_hom. mat_unfold.
  list_eq; try ring; rewrite <- H; ring.
Qed.

Lemma quat_mul_eq ax ay az aw bx by_ bz bw :
  quat_mul RS [ax; ay; az; aw] [bx; by_; bz; bw] =
  [aw * bx + ax * bw + ay * bz - az * by_; aw * by_ + ay * bw + az * bx - ax * bz;
   aw * bz + az * bw + ax * by_ - ay * bx; aw * bw - ax * bx - ay * by_ - az * bz].
Proof. reflexivity. Qed.

Lemma quat_mul_n4 ax ay az aw bx by_ bz bw :
  n4 (aw * bx + ax * bw + ay * bz - az * by_) (aw * by_ + ay * bw + az * bx - ax * bz)
     (aw * bz + az * bw + ax * by_ - ay * bx) (aw * bw - ax * bx - ay * by_ - az * bz)
  = n4 ax ay az aw * n4 bx by_ bz bw.
Proof. unfold n4; ring. Qed.

Lemma quat_mul_unit ax ay az aw bx by_ bz bw : n4 ax ay az aw = 1 -> n4 bx by_ bz bw = 1 ->
  n4 (aw * bx + ax * bw + ay * bz - az * by_) (aw * by_ + ay * bw + az * bx - ax * bz)
     (aw * bz + az * bw + ax * by_ - ay * bx) (aw * bw - ax * bx - ay * by_ - az * bz) = 1.
Proof. intros Ha Hb. rewrite quat_mul_n4, Ha, Hb; ring. Qed.

Lemma rot_hom_mul ax ay az aw bx by_ bz bw :
  rot_hom (quat_mul RS [ax; ay; az; aw] [bx; by_; bz; bw]) =
  @mmul RS (rot_hom [ax; ay; az; aw]) (rot_hom [bx; by_; bz; bw]).
Proof. rewrite quat_mul_eq. unfold rot_hom. mat_unfold. list_eq; ring. Qed.

Section P.
Variable eps : R.
Hypothesis eps_pos : 0 < eps.

Definition so3_valid (c : list R) : Prop :=
  exists x y z w, c = [x; y; z; w] /\ n4 x y z w = 1.
Definition hom3 (p : list R) : list R := p ++ [1].

Lemma so3_compose_valid_eq ax ay az aw bx by_ bz bw :
  n4 ax ay az aw = 1 -> n4 bx by_ bz bw = 1 ->
  so3_compose RS eps [ax; ay; az; aw] [bx; by_; bz; bw] = quat_mul RS [ax; ay; az; aw] [bx; by_; bz; bw].
Proof.
  intros Ha Hb. unfold so3_compose. rewrite quat_mul_eq.
  set (q := [_; _; _; _]).
  assert (Hn : @sqnorm RS q = 1).
  { subst q. mat_unfold. rewrite <- (quat_mul_unit _ _ _ _ _ _ _ _ Ha Hb). unfold n4. ring. }
  rewrite Hn. mat_unfold. rewrite (renorm_test_unit eps eps_pos). reflexivity.
Qed.

Lemma so3_identity_eq : g_identity (SO3 RS eps) = [0; 0; 0; 1].
Proof.
  unfold g_identity. cbn. unfold so3_exp. mat_unfold.
  replace (0 * 0 + (0 * 0 + (0 * 0 + 0))) with 0 by ring.
  rewrite (Rltb_lt_false eps 0) by lra. list_eq; lra.
Qed.

Lemma so3_transform_unit x y z w : n4 x y z w = 1 ->
  so3_transform RS [x; y; z; w] = @mset_block RS (mid 4) 0 0 (rot_hom [x; y; z; w]).
Proof. intros H. unfold so3_transform, so3_rotation. rewrite quat_matrix_unit by assumption. reflexivity. Qed.

Definition SO3_core : GroupCore (SO3 RS eps).
Proof.
  refine (mkCore _ so3_valid hom3 (fun _ => hom3) _ _ _ _ _ _ _ _ _ _ _); cbn [g_compose g_inverse g_transform g_act g_tra g_actdim SO3].
  - intros X Y (ax & ay & az & aw & -> & Ha) (bx & by_ & bz & bw & -> & Hb).
    rewrite so3_compose_valid_eq, quat_mul_eq by assumption.
    eexists _, _, _, _; split; [reflexivity|]. apply quat_mul_unit; assumption.
  - intros X (x & y & z & w & -> & H). unfold so3_inverse, quat_conj, qx, qy, qz, qw; mat_unfold.
    eexists _, _, _, _; split; [reflexivity|]. unfold n4 in *. rewrite <- H; ring.
  - rewrite so3_identity_eq. exists 0, 0, 0, 1; split; [reflexivity|unfold n4; ring].
  - intros X Y (ax & ay & az & aw & -> & Ha) (bx & by_ & bz & bw & -> & Hb).
    rewrite so3_compose_valid_eq by assumption.
    rewrite (so3_transform_unit _ _ _ _ Ha), (so3_transform_unit _ _ _ _ Hb).
    pose proof (quat_mul_unit _ _ _ _ _ _ _ _ Ha Hb) as Hc.
    rewrite quat_mul_eq. rewrite (so3_transform_unit _ _ _ _ Hc).
    unfold rot_hom. mat_unfold. list_eq; ring.
  - rewrite so3_identity_eq. rewrite so3_transform_unit by (unfold n4; ring).
    unfold rot_hom. mat_unfold. list_eq; ring.
  - intros X p (x & y & z & w & -> & H) Hp.
    destruct p as [|px [|py [|pz [|? ?]]]]; try discriminate Hp.
    unfold so3_act. rewrite so3_transform_unit by assumption.
    unfold so3_rotation. rewrite quat_matrix_unit by assumption.
    unfold hom3, rot_hom. mat_unfold. list_eq; ring.
  - intros X Y Z (ax & ay & az & aw & -> & Ha) (bx & by_ & bz & bw & -> & Hb) (cx & cy & cz & cw & -> & Hc).
    rewrite !so3_compose_valid_eq by assumption. rewrite !quat_mul_eq.
    rewrite !so3_compose_valid_eq by (try apply quat_mul_unit; assumption).
    rewrite !quat_mul_eq. list_eq; ring.
  - intros X (x & y & z & w & -> & H). rewrite so3_identity_eq.
    rewrite so3_compose_valid_eq by (try assumption; unfold n4; ring). rewrite quat_mul_eq. list_eq; ring.
  - intros X (x & y & z & w & -> & H). rewrite so3_identity_eq.
    rewrite so3_compose_valid_eq by (try assumption; unfold n4; ring). rewrite quat_mul_eq. list_eq; ring.
  - intros X (x & y & z & w & -> & H). rewrite so3_identity_eq.
    unfold so3_inverse, quat_conj, qx, qy, qz, qw; mat_unfold.
    rewrite so3_compose_valid_eq by (try assumption; unfold n4 in *; rewrite <- H; ring).
    rewrite quat_mul_eq. unfold n4 in H. list_eq; ring1 H.
  - intros X (x & y & z & w & -> & H). rewrite so3_identity_eq.
    unfold so3_inverse, quat_conj, qx, qy, qz, qw; mat_unfold.
    rewrite so3_compose_valid_eq by (try assumption; unfold n4 in *; rewrite <- H; ring).
    rewrite quat_mul_eq. unfold n4 in H. list_eq; ring1 H.
Defined.

(* ------------------------------ SE3 ------------------------------ *)
Definition se3_valid (c : list R) : Prop :=
  exists tx ty tz x y z w, c = [tx; ty; tz; x; y; z; w] /\ n4 x y z w = 1.

Lemma se3_rotation_unit tx ty tz x y z w : n4 x y z w = 1 ->
  se3_rotation RS [tx; ty; tz; x; y; z; w] = rot_hom [x; y; z; w].
Proof. intros H. unfold se3_rotation, se3_q, so3_rotation. cbn [vslice skipn firstn]. apply quat_matrix_unit; assumption. Qed.

Lemma se3_compose_valid_eq atx aty atz ax ay az aw btx bty btz bx by_ bz bw :
  n4 ax ay az aw = 1 -> n4 bx by_ bz bw = 1 ->
  se3_compose RS eps [atx; aty; atz; ax; ay; az; aw] [btx; bty; btz; bx; by_; bz; bw] =
  @vadd RS (@mvmul RS (rot_hom [ax; ay; az; aw]) [btx; bty; btz]) [atx; aty; atz]
   ++ quat_mul RS [ax; ay; az; aw] [bx; by_; bz; bw].
Proof.
  intros Ha Hb. unfold se3_compose. rewrite se3_rotation_unit by assumption.
  unfold se3_q, se3_t. cbn [vslice skipn firstn]. rewrite so3_compose_valid_eq by assumption. reflexivity.
Qed.

Lemma se3_inverse_valid_eq tx ty tz x y z w : n4 x y z w = 1 ->
  se3_inverse RS [tx; ty; tz; x; y; z; w] =
  @vneg RS (@mvmul RS (rot_hom [- x; - y; - z; w]) [tx; ty; tz]) ++ [- x; - y; - z; w].
Proof.
  intros H. unfold se3_inverse, se3_q, se3_t, so3_inverse, so3_act, so3_rotation, quat_conj, qx, qy, qz, qw.
  cbn [vslice skipn firstn]. mat_unfold.
  rewrite quat_matrix_unit by (unfold n4 in *; rewrite <- H; ring). reflexivity.
Qed.

Lemma se3_identity_eq : g_identity (SE3 RS eps) = [0; 0; 0; 0; 0; 0; 1].
Proof.
  unfold g_identity. cbn. unfold se3_exp, se3t_ang, se3t_lin, so3_exp, so3_ljac, so3_hat. mat_unfold.
  replace (0 * 0 + (0 * 0 + (0 * 0 + 0))) with 0 by ring.
  rewrite (Rltb_lt_false eps 0) by lra. cbn [negb app]. list_eq; try lra; try ring.
Qed.

Definition SE3_core : GroupCore (SE3 RS eps).
Proof.
  refine (mkCore _ se3_valid hom3 (fun _ => hom3) _ _ _ _ _ _ _ _ _ _ _); cbn [g_compose g_inverse g_transform g_act g_tra g_actdim SE3].
  - intros X Y (atx & aty & atz & ax & ay & az & aw & -> & Ha) (btx & bty & btz & bx & by_ & bz & bw & -> & Hb).
    rewrite se3_compose_valid_eq, quat_mul_eq by assumption. unfold rot_hom. mat_unfold.
    eexists _, _, _, _, _, _, _; split; [reflexivity|]. apply quat_mul_unit; assumption.
  - intros X (tx & ty & tz & x & y & z & w & -> & H). rewrite se3_inverse_valid_eq by assumption.
    unfold rot_hom. mat_unfold.
    eexists _, _, _, _, _, _, _; split; [reflexivity|]. unfold n4 in *. rewrite <- H; ring.
  - rewrite se3_identity_eq. exists 0, 0, 0, 0, 0, 0, 1; split; [reflexivity|unfold n4; ring].
  - intros X Y (atx & aty & atz & ax & ay & az & aw & -> & Ha) (btx & bty & btz & bx & by_ & bz & bw & -> & Hb).
    rewrite se3_compose_valid_eq, quat_mul_eq by assumption.
    pose proof (quat_mul_unit _ _ _ _ _ _ _ _ Ha Hb) as Hc.
    unfold se3_transform. unfold rot_hom at 1. mat_unfold.
    rewrite !se3_rotation_unit by assumption. unfold se3_t, rot_hom. mat_unfold. list_eq; ring.
  - rewrite se3_identity_eq. unfold se3_transform. rewrite se3_rotation_unit by (unfold n4; ring).
    unfold se3_t, rot_hom. mat_unfold. list_eq; ring.
  - intros X p (tx & ty & tz & x & y & z & w & -> & H) Hp.
    destruct p as [|px [|py [|pz [|? ?]]]]; try discriminate Hp.
    unfold se3_act, se3_transform. rewrite !se3_rotation_unit by assumption.
    unfold se3_t, hom3, rot_hom. mat_unfold. list_eq; ring.
  - intros X Y Z (atx & aty & atz & ax & ay & az & aw & -> & Ha) (btx & bty & btz & bx & by_ & bz & bw & -> & Hb)
           (ctx & cty & ctz & cx & cy & cz & cw & -> & Hc).
    rewrite !se3_compose_valid_eq by assumption. rewrite !quat_mul_eq. unfold rot_hom. mat_unfold.
    rewrite !se3_compose_valid_eq by (try apply quat_mul_unit; assumption).
    rewrite !quat_mul_eq. unfold rot_hom. mat_unfold. list_eq; ring.
  - intros X (tx & ty & tz & x & y & z & w & -> & H). rewrite se3_identity_eq.
    rewrite se3_compose_valid_eq by (try assumption; unfold n4; ring). rewrite quat_mul_eq.
    unfold rot_hom. mat_unfold. list_eq; ring.
  - intros X (tx & ty & tz & x & y & z & w & -> & H). rewrite se3_identity_eq.
    rewrite se3_compose_valid_eq by (try assumption; unfold n4; ring). rewrite quat_mul_eq.
    unfold rot_hom. mat_unfold. unfold n4 in H. list_eq; ring1 H.
  - intros X (tx & ty & tz & x & y & z & w & -> & H). rewrite se3_identity_eq.
    rewrite se3_inverse_valid_eq by assumption. unfold rot_hom. mat_unfold.
    rewrite se3_compose_valid_eq by (try assumption; unfold n4 in *; rewrite <- H; ring).
    rewrite quat_mul_eq. unfold rot_hom. mat_unfold. unfold n4 in H. list_eq; ring1 H.
  - intros X (tx & ty & tz & x & y & z & w & -> & H). rewrite se3_identity_eq.
    rewrite se3_inverse_valid_eq by assumption. unfold rot_hom. mat_unfold.
    rewrite se3_compose_valid_eq by (try assumption; unfold n4 in *; rewrite <- H; ring).
    rewrite quat_mul_eq. unfold rot_hom. mat_unfold. unfold n4 in H. list_eq; ring1 H.
Defined.
End P.
