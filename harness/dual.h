// dual.h — forward-mode dual-number scalar (the ceres::Jet / autodiff pattern, one infinitesimal direction) over a
// base scalar T (vq::ExQ: exact, compared with the Coq model's DS instance; double: the shipped arithmetic).
// Same rules as coq/Dual.v.  Only the library's documented extension points are specialised: Eigen::NumTraits,
// manif::Constants (defined from the base scalar's, as ceres/constants.h does), manif::internal::is_ad.
#pragma once
#include <Eigen/Core>
#include <cmath>
#include <iostream>
namespace vq {
template<class T> struct Dual {
  T a, b;
  Dual() : a(0), b(0) {}
  Dual(int i) : a(i), b(0) {} Dual(long i) : a(i), b(0) {} Dual(unsigned i) : a(i), b(0) {} Dual(unsigned long i) : a(i), b(0) {}
  Dual(float d) : a(d), b(0) {} Dual(double d) : a(d), b(0) {}
  Dual(const T& p, const T& d) : a(p), b(d) {}
  template<class U, class = typename std::enable_if<std::is_same<U,T>::value && !std::is_arithmetic<U>::value>::type> Dual(const U& p) : a(p), b(0) {}
  explicit operator double() const { return (double)a; }
  explicit operator float() const { return (float)(double)a; }
  explicit operator int() const { return (int)(double)a; }
  // non-template friends, so that the other operand converts implicitly (int, double, unsigned ... as with ExQ)
  friend Dual operator+(const Dual&x,const Dual&y){ return Dual(x.a+y.a, x.b+y.b); }
  friend Dual operator-(const Dual&x,const Dual&y){ return Dual(x.a-y.a, x.b-y.b); }
  friend Dual operator*(const Dual&x,const Dual&y){ return Dual(x.a*y.a, x.a*y.b + x.b*y.a); }
  friend Dual operator/(const Dual&x,const Dual&y){ T q = x.a/y.a; return Dual(q, (x.b - q*y.b)/y.a); }
  friend Dual operator-(const Dual&x){ return Dual(-x.a, -x.b); }
  friend Dual operator+(const Dual&x){ return x; }
  friend Dual& operator+=(Dual&x,const Dual&y){ x = x+y; return x; }
  friend Dual& operator-=(Dual&x,const Dual&y){ x = x-y; return x; }
  friend Dual& operator*=(Dual&x,const Dual&y){ x = x*y; return x; }
  friend Dual& operator/=(Dual&x,const Dual&y){ x = x/y; return x; }
  friend bool operator<(const Dual&x,const Dual&y){ return x.a < y.a; }
  friend bool operator>(const Dual&x,const Dual&y){ return x.a > y.a; }
  friend bool operator<=(const Dual&x,const Dual&y){ return x.a <= y.a; }
  friend bool operator>=(const Dual&x,const Dual&y){ return x.a >= y.a; }
  friend bool operator==(const Dual&x,const Dual&y){ return x.a == y.a; }
  friend bool operator!=(const Dual&x,const Dual&y){ return x.a != y.a; }
};
template<class T> inline std::ostream& operator<<(std::ostream&o,const Dual<T>&x){ return o<<x.a<<"+"<<x.b<<"e"; }
template<class T> inline Dual<T> sin(const Dual<T>&x){ using std::sin; using std::cos; return Dual<T>(sin(x.a), x.b*cos(x.a)); }
template<class T> inline Dual<T> cos(const Dual<T>&x){ using std::sin; using std::cos; return Dual<T>(cos(x.a), -(x.b*sin(x.a))); }
template<class T> inline Dual<T> sqrt(const Dual<T>&x){ using std::sqrt; T r = sqrt(x.a); return Dual<T>(r, x.b/(T(2)*r)); }
template<class T> inline Dual<T> acos(const Dual<T>&x){ using std::acos; using std::sqrt; return Dual<T>(acos(x.a), -(x.b/sqrt(T(1)-x.a*x.a))); }
template<class T> inline Dual<T> atan2(const Dual<T>&y,const Dual<T>&x){ using std::atan2; return Dual<T>(atan2(y.a,x.a), (x.a*y.b - y.a*x.b)/(x.a*x.a + y.a*y.a)); }
template<class T> inline Dual<T> abs(const Dual<T>&x){ return x.a < T(0) ? -x : x; }
template<class T> inline Dual<T> fabs(const Dual<T>&x){ return abs(x); }
template<class T> inline Dual<T> abs2(const Dual<T>&x){ return x*x; }
template<class T> inline bool isfinite(const Dual<T>&x){ using std::isfinite; return isfinite(x.a) && isfinite(x.b); }
template<class T> inline bool isnan(const Dual<T>&x){ using std::isnan; return isnan(x.a) || isnan(x.b); }
template<class T> inline bool isinf(const Dual<T>&x){ using std::isinf; return isinf(x.a) || isinf(x.b); }
template<class T> inline Dual<T> min(const Dual<T>&a,const Dual<T>&b){ return (b<a)?b:a; }
template<class T> inline Dual<T> max(const Dual<T>&a,const Dual<T>&b){ return (a<b)?b:a; }
} // namespace vq
namespace Eigen {
template<class T> struct NumTraits<vq::Dual<T>> : GenericNumTraits<vq::Dual<T>> {
  typedef vq::Dual<T> Real; typedef vq::Dual<T> NonInteger; typedef vq::Dual<T> Nested; typedef vq::Dual<T> Literal;
  enum { IsComplex=0, IsInteger=0, IsSigned=1, RequireInitialization=1, ReadCost=10, AddCost=50, MulCost=100 };
  static inline Real epsilon(){ return Real(NumTraits<T>::epsilon()); }
  static inline Real dummy_precision(){ return Real(NumTraits<T>::dummy_precision()); }
  static inline Real highest(){ return Real(NumTraits<T>::highest()); }
  static inline Real lowest(){ return Real(NumTraits<T>::lowest()); }
  static inline int digits10(){ return NumTraits<T>::digits10(); }
};
}
#include "manif/constants.h"
#include "manif/impl/traits.h"
namespace manif { namespace internal { template<class T> struct is_ad<vq::Dual<T>> : std::integral_constant<bool,true> {}; } }
namespace manif {
template<class T> struct Constants<vq::Dual<T>> { static const vq::Dual<T> eps; };
template<class T> const vq::Dual<T> Constants<vq::Dual<T>>::eps = vq::Dual<T>(Constants<T>::eps);
}
