(* SE23Proofs.v — C01 for the SE_2(3) and SGal(3) models at the real instance. *)
From Coq Require Import Reals ZArith List Lra.
From Manif Require Import Scalar Mat Consts Group RInst Tac SO2 SO3 SE3 SE23 SGal3 Generic LieSpec SO3Proofs.
Import ListNotations.
Local Open Scope R_scope.

Section P.
Variable eps : R.
Hypothesis eps_pos : 0 < eps.

(* ------------------------------ SE_2(3) ------------------------------ *)
Definition se23_valid (c : list R) : Prop :=
  exists tx ty tz x y z w vx vy vz, c = [tx; ty; tz; x; y; z; w; vx; vy; vz] /\ n4 x y z w = 1.
Definition hom10 (p : list R) : list R := p ++ [1; 0].      (* (p; 1; 0) *)

Lemma se23_rotation_unit tx ty tz x y z w vx vy vz : n4 x y z w = 1 ->
  se23_rotation RS [tx; ty; tz; x; y; z; w; vx; vy; vz] = rot_hom [x; y; z; w].
Proof. intros H. unfold se23_rotation, se23_q, so3_rotation. cbn [vslice skipn firstn]. apply quat_matrix_unit; assumption. Qed.

Lemma se23_compose_valid_eq atx aty atz ax ay az aw avx avy avz btx bty btz bx by_ bz bw bvx bvy bvz :
  n4 ax ay az aw = 1 -> n4 bx by_ bz bw = 1 ->
  se23_compose RS eps [atx; aty; atz; ax; ay; az; aw; avx; avy; avz] [btx; bty; btz; bx; by_; bz; bw; bvx; bvy; bvz] =
  @vadd RS (@mvmul RS (rot_hom [ax; ay; az; aw]) [btx; bty; btz]) [atx; aty; atz]
   ++ quat_mul RS [ax; ay; az; aw] [bx; by_; bz; bw]
   ++ @vadd RS (@mvmul RS (rot_hom [ax; ay; az; aw]) [bvx; bvy; bvz]) [avx; avy; avz].
Proof.
  intros Ha Hb. unfold se23_compose. rewrite se23_rotation_unit by assumption.
  unfold se23_q, se23_t, se23_v. cbn [vslice skipn firstn]. rewrite so3_compose_valid_eq by assumption. reflexivity.
Qed.

Lemma se23_inverse_valid_eq tx ty tz x y z w vx vy vz : n4 x y z w = 1 ->
  se23_inverse RS [tx; ty; tz; x; y; z; w; vx; vy; vz] =
  @vneg RS (@mvmul RS (rot_hom [- x; - y; - z; w]) [tx; ty; tz]) ++ [- x; - y; - z; w]
  ++ @vneg RS (@mvmul RS (rot_hom [- x; - y; - z; w]) [vx; vy; vz]).
Proof.
  intros H. unfold se23_inverse, se23_q, se23_t, se23_v, so3_inverse, so3_act, so3_rotation, quat_conj, qx, qy, qz, qw.
  cbn [vslice skipn firstn]. mat_unfold.
  rewrite quat_matrix_unit by (unfold n4 in *; rewrite <- H; ring). reflexivity.
Qed.

Lemma se23_identity_eq : g_identity (SE23 RS eps) = [0; 0; 0; 0; 0; 0; 1; 0; 0; 0].
Proof.
  unfold g_identity. cbn. unfold se23_exp, se23t_ang, se23t_lin, se23t_lin2, so3_exp, so3_ljac, so3_hat. mat_unfold.
  replace (0 * 0 + (0 * 0 + (0 * 0 + 0))) with 0 by ring.
  rewrite (Rltb_lt_false eps 0) by lra. cbn [negb app]. list_eq; try lra; try ring.
Qed.

Definition SE23_core : GroupCore (SE23 RS eps).
Proof.
  refine (mkCore _ se23_valid hom10 (fun _ => hom10) _ _ _ _ _ _ _ _ _ _ _); cbn [g_compose g_inverse g_transform g_act g_tra g_actdim SE23].
  - intros X Y (atx & aty & atz & ax & ay & az & aw & avx & avy & avz & -> & Ha)
               (btx & bty & btz & bx & by_ & bz & bw & bvx & bvy & bvz & -> & Hb).
    rewrite se23_compose_valid_eq, quat_mul_eq by assumption. unfold rot_hom. mat_unfold.
    eexists _, _, _, _, _, _, _, _, _, _; split; [reflexivity|]. apply quat_mul_unit; assumption.
  - intros X (tx & ty & tz & x & y & z & w & vx & vy & vz & -> & H). rewrite se23_inverse_valid_eq by assumption.
    unfold rot_hom. mat_unfold.
    eexists _, _, _, _, _, _, _, _, _, _; split; [reflexivity|]. unfold n4 in *. rewrite <- H; ring.
  - rewrite se23_identity_eq. exists 0, 0, 0, 0, 0, 0, 1, 0, 0, 0; split; [reflexivity|unfold n4; ring].
  - intros X Y (atx & aty & atz & ax & ay & az & aw & avx & avy & avz & -> & Ha)
               (btx & bty & btz & bx & by_ & bz & bw & bvx & bvy & bvz & -> & Hb).
    rewrite se23_compose_valid_eq, quat_mul_eq by assumption.
    pose proof (quat_mul_unit _ _ _ _ _ _ _ _ Ha Hb) as Hc.
    unfold se23_transform. unfold rot_hom at 1 2. mat_unfold.
    rewrite !se23_rotation_unit by assumption. unfold se23_t, se23_v, rot_hom. mat_unfold. list_eq; ring.
  - rewrite se23_identity_eq. unfold se23_transform. rewrite se23_rotation_unit by (unfold n4; ring).
    unfold se23_t, se23_v, rot_hom. mat_unfold. list_eq; ring.
  - intros X p (tx & ty & tz & x & y & z & w & vx & vy & vz & -> & H) Hp.
    destruct p as [|px [|py [|pz [|? ?]]]]; try discriminate Hp.
    unfold se23_act, se23_transform. rewrite !se23_rotation_unit by assumption.
    unfold se23_t, se23_v, hom10, rot_hom. mat_unfold. list_eq; ring.
  - intros X Y Z (atx & aty & atz & ax & ay & az & aw & avx & avy & avz & -> & Ha)
                 (btx & bty & btz & bx & by_ & bz & bw & bvx & bvy & bvz & -> & Hb)
                 (ctx & cty & ctz & cx & cy & cz & cw & cvx & cvy & cvz & -> & Hc).
    rewrite !se23_compose_valid_eq by assumption. rewrite !quat_mul_eq. unfold rot_hom. mat_unfold.
    rewrite !se23_compose_valid_eq by (try apply quat_mul_unit; assumption).
    rewrite !quat_mul_eq. unfold rot_hom. mat_unfold. list_eq; ring.
  - intros X (tx & ty & tz & x & y & z & w & vx & vy & vz & -> & H). rewrite se23_identity_eq.
    rewrite se23_compose_valid_eq by (try assumption; unfold n4; ring). rewrite quat_mul_eq.
    unfold rot_hom. mat_unfold. list_eq; ring.
  - intros X (tx & ty & tz & x & y & z & w & vx & vy & vz & -> & H). rewrite se23_identity_eq.
    rewrite se23_compose_valid_eq by (try assumption; unfold n4; ring). rewrite quat_mul_eq.
    unfold rot_hom. mat_unfold. unfold n4 in H. list_eq; ring1 H.
  - intros X (tx & ty & tz & x & y & z & w & vx & vy & vz & -> & H). rewrite se23_identity_eq.
    rewrite se23_inverse_valid_eq by assumption. unfold rot_hom. mat_unfold.
    rewrite se23_compose_valid_eq by (try assumption; unfold n4 in *; rewrite <- H; ring).
    rewrite quat_mul_eq. unfold rot_hom. mat_unfold. unfold n4 in H. list_eq; ring1 H.
  - intros X (tx & ty & tz & x & y & z & w & vx & vy & vz & -> & H). rewrite se23_identity_eq.
    rewrite se23_inverse_valid_eq by assumption. unfold rot_hom. mat_unfold.
    rewrite se23_compose_valid_eq by (try assumption; unfold n4 in *; rewrite <- H; ring).
    rewrite quat_mul_eq. unfold rot_hom. mat_unfold. unfold n4 in H. list_eq; ring1 H.
Defined.

(* ------------------------------ SGal(3) ------------------------------ *)
Definition sg_valid (c : list R) : Prop :=
  exists px py pz x y z w vx vy vz t, c = [px; py; pz; x; y; z; w; vx; vy; vz; t] /\ n4 x y z w = 1.
Definition hom01 (p : list R) : list R := p ++ [0; 1].      (* the event (p, time 0): (p; 0; 1) *)
Definition hom_t1 (X p : list R) : list R := p ++ [sg_t RS X; 1].   (* its image (p', time t(X)) *)

Lemma sg_rotation_unit px py pz x y z w vx vy vz t : n4 x y z w = 1 ->
  sg_rotation RS [px; py; pz; x; y; z; w; vx; vy; vz; t] = rot_hom [x; y; z; w].
Proof. intros H. unfold sg_rotation, sg_q, so3_rotation. cbn [vslice skipn firstn]. apply quat_matrix_unit; assumption. Qed.

Lemma sg_compose_valid_eq apx apy apz ax ay az aw avx avy avz at_ bpx bpy bpz bx by_ bz bw bvx bvy bvz bt :
  n4 ax ay az aw = 1 -> n4 bx by_ bz bw = 1 ->
  sg_compose RS eps [apx; apy; apz; ax; ay; az; aw; avx; avy; avz; at_] [bpx; bpy; bpz; bx; by_; bz; bw; bvx; bvy; bvz; bt] =
  @vadd RS (@vadd RS (@mvmul RS (rot_hom [ax; ay; az; aw]) [bpx; bpy; bpz]) (@vscale RS bt [avx; avy; avz])) [apx; apy; apz]
   ++ quat_mul RS [ax; ay; az; aw] [bx; by_; bz; bw]
   ++ @vadd RS (@mvmul RS (rot_hom [ax; ay; az; aw]) [bvx; bvy; bvz]) [avx; avy; avz]
   ++ [at_ + bt].
Proof.
  intros Ha Hb. unfold sg_compose. rewrite sg_rotation_unit by assumption.
  unfold sg_q, sg_p, sg_v, sg_t. cbn [vslice skipn firstn]. rewrite so3_compose_valid_eq by assumption. reflexivity.
Qed.

Lemma sg_inverse_valid_eq px py pz x y z w vx vy vz t : n4 x y z w = 1 ->
  sg_inverse RS [px; py; pz; x; y; z; w; vx; vy; vz; t] =
  @vneg RS (@mvmul RS (rot_hom [- x; - y; - z; w]) (@vsub RS [px; py; pz] (@vscale RS t [vx; vy; vz])))
  ++ [- x; - y; - z; w]
  ++ @vneg RS (@mvmul RS (rot_hom [- x; - y; - z; w]) [vx; vy; vz]) ++ [- t].
Proof.
  intros H. unfold sg_inverse, sg_q, sg_p, sg_v, sg_t, so3_inverse, so3_act, so3_rotation, quat_conj, qx, qy, qz, qw.
  cbn [vslice skipn firstn]. mat_unfold.
  rewrite quat_matrix_unit by (unfold n4 in *; rewrite <- H; ring). unfold rot_hom. mat_unfold. list_eq; ring.
Qed.

Lemma sg_identity_eq : g_identity (SGal3 RS eps) = [0; 0; 0; 0; 0; 0; 1; 0; 0; 0; 0].
Proof.
  unfold g_identity. cbn. unfold sg_exp, sgt_ang, sgt_lin, sgt_lin2, sgt_t, fillE, I33, so3_exp, so3_ljac, so3_hat. mat_unfold.
  replace (0 * 0 + (0 * 0 + (0 * 0 + 0))) with 0 by ring.
  rewrite (Rltb_lt_false eps 0) by lra. rewrite (Rltb_lt_true 0 eps) by lra. cbn [negb app].
  mat_unfold. list_eq; try lra; try ring.
Qed.

Definition SGal3_core : GroupCore (SGal3 RS eps).
Proof.
  refine (mkCore _ sg_valid hom01 hom_t1 _ _ _ _ _ _ _ _ _ _ _); cbn [g_compose g_inverse g_transform g_act g_tra g_actdim SGal3].
  - intros X Y (apx & apy & apz & ax & ay & az & aw & avx & avy & avz & at_ & -> & Ha)
               (bpx & bpy & bpz & bx & by_ & bz & bw & bvx & bvy & bvz & bt & -> & Hb).
    rewrite sg_compose_valid_eq, quat_mul_eq by assumption. unfold rot_hom. mat_unfold.
    eexists _, _, _, _, _, _, _, _, _, _, _; split; [reflexivity|]. apply quat_mul_unit; assumption.
  - intros X (px & py & pz & x & y & z & w & vx & vy & vz & t & -> & H). rewrite sg_inverse_valid_eq by assumption.
    unfold rot_hom. mat_unfold.
    eexists _, _, _, _, _, _, _, _, _, _, _; split; [reflexivity|]. unfold n4 in *. rewrite <- H; ring.
  - rewrite sg_identity_eq. exists 0, 0, 0, 0, 0, 0, 1, 0, 0, 0, 0; split; [reflexivity|unfold n4; ring].
  - intros X Y (apx & apy & apz & ax & ay & az & aw & avx & avy & avz & at_ & -> & Ha)
               (bpx & bpy & bpz & bx & by_ & bz & bw & bvx & bvy & bvz & bt & -> & Hb).
    rewrite sg_compose_valid_eq, quat_mul_eq by assumption.
    pose proof (quat_mul_unit _ _ _ _ _ _ _ _ Ha Hb) as Hc.
    unfold sg_transform. unfold rot_hom at 1 2. mat_unfold.
    rewrite !sg_rotation_unit by assumption. unfold sg_p, sg_v, sg_t, rot_hom. mat_unfold. list_eq; ring.
  - rewrite sg_identity_eq. unfold sg_transform. rewrite sg_rotation_unit by (unfold n4; ring).
    unfold sg_p, sg_v, sg_t, rot_hom. mat_unfold. list_eq; ring.
  - intros X p (px & py & pz & x & y & z & w & vx & vy & vz & t & -> & H) Hp.
    destruct p as [|qx [|qy [|qz [|? ?]]]]; try discriminate Hp.
    unfold sg_act, sg_transform. rewrite !sg_rotation_unit by assumption.
    unfold hom01, hom_t1. unfold sg_p, sg_v, sg_t, rot_hom. mat_unfold. list_eq; ring.
  - intros X Y Z (apx & apy & apz & ax & ay & az & aw & avx & avy & avz & at_ & -> & Ha)
                 (bpx & bpy & bpz & bx & by_ & bz & bw & bvx & bvy & bvz & bt & -> & Hb)
                 (cpx & cpy & cpz & cx & cy & cz & cw & cvx & cvy & cvz & ct & -> & Hc).
    rewrite !sg_compose_valid_eq by assumption. rewrite !quat_mul_eq. unfold rot_hom. mat_unfold.
    rewrite !sg_compose_valid_eq by (try apply quat_mul_unit; assumption).
    rewrite !quat_mul_eq. unfold rot_hom. mat_unfold. list_eq; ring.
  - intros X (px & py & pz & x & y & z & w & vx & vy & vz & t & -> & H). rewrite sg_identity_eq.
    rewrite sg_compose_valid_eq by (try assumption; unfold n4; ring). rewrite quat_mul_eq.
    unfold rot_hom. mat_unfold. list_eq; ring.
  - intros X (px & py & pz & x & y & z & w & vx & vy & vz & t & -> & H). rewrite sg_identity_eq.
    rewrite sg_compose_valid_eq by (try assumption; unfold n4; ring). rewrite quat_mul_eq.
    unfold rot_hom. mat_unfold. unfold n4 in H. list_eq; ring1 H.
  - intros X (px & py & pz & x & y & z & w & vx & vy & vz & t & -> & H). rewrite sg_identity_eq.
    rewrite sg_inverse_valid_eq by assumption. unfold rot_hom. mat_unfold.
    rewrite sg_compose_valid_eq by (try assumption; unfold n4 in *; rewrite <- H; ring).
    rewrite quat_mul_eq. unfold rot_hom. mat_unfold. unfold n4 in H. list_eq; ring1 H.
  - intros X (px & py & pz & x & y & z & w & vx & vy & vz & t & -> & H). rewrite sg_identity_eq.
    rewrite sg_inverse_valid_eq by assumption. unfold rot_hom. mat_unfold.
    rewrite sg_compose_valid_eq by (try assumption; unfold n4 in *; rewrite <- H; ring).
    rewrite quat_mul_eq. unfold rot_hom. mat_unfold. unfold n4 in H. list_eq; ring1 H.
Defined.
End P.
