"""api_matrix.py — property C19: the documented generic API as a finite matrix
      entry x group x scalar {float, double} x storage {owning, Map, Map<const>}
and a generator of one C++ translation unit per (group, scalar, storage) in which every applicable entry is a separate function
computing (result of the documented spelling, result of the canonical member on owning copies); main() runs all entries and
compares the two bit for bit.  A cell is OK when its entry compiles, links and forwards.  When a combined unit does not
build, its entries are compiled one by one to find the failing cells.

Entries come from README.md (operation table, Jacobians), docs/pages/cpp/Writing-generic-code.md, functions.h and the three
algorithm headers.  In an entry, X / Y are group operands of the cell's storage kind, Xo / Yo owning copies with the same
coefficients, w / t tangent operands of the cell's storage kind, wo / to owning copies, v a vector."""

GROUPS = {
    "SO2": ("manif::SO2<S>", dict(rot=True, tra=False, norm=True)),
    "SE2": ("manif::SE2<S>", dict(rot=True, tra=True, norm=True)),
    "SO3": ("manif::SO3<S>", dict(rot=True, tra=False, norm=True)),
    "SE3": ("manif::SE3<S>", dict(rot=True, tra=True, norm=True)),
    "SE_2_3": ("manif::SE_2_3<S>", dict(rot=True, tra=True, norm=True)),
    "SGal3": ("manif::SGal3<S>", dict(rot=True, tra=True, norm=True)),
    "R3": ("manif::Rn<S,3>", dict(rot=False, tra=False, norm=False)),
    "Bundle": ("manif::Bundle<S, manif::SE2, manif::SO3, manif::R2>", dict(rot=False, tra=False, norm=False)),
}
SCALARS = ["double", "float"]
STORAGES = ["owning", "map", "cmap", "mixA", "mixB", "mixC"]
# storage of the operands (X, Y, w, t) in each kind; the mixed kinds give every ordered pair of operands of a binary entry two different
# storages (X/Y, w/t and X/w each see owning-const view, view-owning and const view-view once)
KIND = {"owning": "oooo", "map": "mmmm", "cmap": "cccc", "mixA": "ocmo", "mixB": "mocm", "mixC": "cmoc"}
STORAGE_TEXT = {"owning": "owning", "map": "Eigen::Map", "cmap": "Eigen::Map<const>", "mixA": "mixed (X owning, Y Map<const>, w Map, t owning)",
                "mixB": "mixed (X Map, Y owning, w Map<const>, t Map)", "mixC": "mixed (X Map<const>, Y Map, w owning, t Map<const>)"}

# (name, needs, expression, canonical expression)   needs: "" | "mut" (requires a mutable operand) | "same" (both operands of one type by signature) | "rot" | "tra" | "norm" | "own" (owning operand only)
# expressions evaluate to something `val()` can flatten: a group element, a tangent, an Eigen matrix, a scalar or a bool
E = []
def e(name, expr, canon, needs=""): E.append((name, needs, expr, canon))
J2 = "J j1, j2; "
# --- README: base operations
e("X.inverse()", "X.inverse()", "Xo.inverse()")
e("X.inverse(J)", "[&]{ J j; auto r = X.inverse(j); return cat(val(r), val(j)); }()", "[&]{ J j; auto r = Xo.inverse(j); return cat(val(r), val(j)); }()")
e("X * Y", "X * Y", "Xo.compose(Yo)")
e("X.compose(Y)", "X.compose(Y)", "Xo.compose(Yo)")
e("X.compose(Y,J,J)", "[&]{ " + J2 + "auto r = X.compose(Y,j1,j2); return cat(val(r), cat(val(j1), val(j2))); }()", "[&]{ " + J2 + "auto r = Xo.compose(Yo,j1,j2); return cat(val(r), cat(val(j1), val(j2))); }()")
e("w.hat()", "w.hat()", "wo.hat()")
e("X.act(v)", "X.act(v)", "Xo.act(v)")
e("X.act(v,J,J)", "[&]{ Eigen::Matrix<S,G::Dim,G::DoF> a; Eigen::Matrix<S,G::Dim,G::Dim> b; auto r = X.act(v,a,b); return cat(val(r), cat(val(a), val(b))); }()",
  "[&]{ Eigen::Matrix<S,G::Dim,G::DoF> a; Eigen::Matrix<S,G::Dim,G::Dim> b; auto r = Xo.act(v,a,b); return cat(val(r), cat(val(a), val(b))); }()")
e("w.exp()", "w.exp()", "wo.exp()")
e("w.exp(J)", "[&]{ J j; auto r = w.exp(j); return cat(val(r), val(j)); }()", "[&]{ J j; auto r = wo.exp(j); return cat(val(r), val(j)); }()")
e("w.retract()", "w.retract()", "wo.exp()")
e("X.log()", "X.log()", "Xo.log()")
e("X.log(J)", "[&]{ J j; auto r = X.log(j); return cat(val(r), val(j)); }()", "[&]{ J j; auto r = Xo.log(j); return cat(val(r), val(j)); }()")
e("X.lift()", "X.lift()", "Xo.log()")
e("X.adj()", "X.adj()", "Xo.adj()")
e("w.smallAdj()", "w.smallAdj()", "wo.smallAdj()")
# --- composed operations
for sp, ca in (("X + w", "Xo.rplus(wo)"), ("X.plus(w)", "Xo.rplus(wo)"), ("X.rplus(w)", "Xo.rplus(wo)"), ("X.lplus(w)", "Xo.lplus(wo)"),
               ("w + X", "Xo.lplus(wo)"), ("w.plus(X)", "Xo.lplus(wo)"), ("w.lplus(X)", "Xo.lplus(wo)"), ("w.rplus(X)", "Xo.rplus(wo)"),
               ("X - Y", "Xo.rminus(Yo)"), ("X.minus(Y)", "Xo.rminus(Yo)"), ("X.rminus(Y)", "Xo.rminus(Yo)"), ("X.lminus(Y)", "Xo.lminus(Yo)"),
               ("X.between(Y)", "Xo.between(Yo)")):
    e(sp, sp, ca)
for nm in ("plus", "rplus", "lplus"):
    e("X.%s(w,J,J)" % nm, "[&]{ " + J2 + "auto r = X.%s(w,j1,j2); return cat(val(r), cat(val(j1), val(j2))); }()" % nm,
      "[&]{ " + J2 + "auto r = Xo.%s(wo,j1,j2); return cat(val(r), cat(val(j1), val(j2))); }()" % ("rplus" if nm == "plus" else nm))
for nm in ("minus", "rminus", "lminus", "between"):
    e("X.%s(Y,J,J)" % nm, "[&]{ " + J2 + "auto r = X.%s(Y,j1,j2); return cat(val(r), cat(val(j1), val(j2))); }()" % nm,
      "[&]{ " + J2 + "auto r = Xo.%s(Yo,j1,j2); return cat(val(r), cat(val(j1), val(j2))); }()" % ("rminus" if nm == "minus" else nm))
e("w.inner(t)", "w.inner(t)", "wo.inner(to)")
e("w.weightedNorm()", "w.weightedNorm()", "wo.weightedNorm()")
e("w.squaredWeightedNorm()", "w.squaredWeightedNorm()", "wo.squaredWeightedNorm()")
# --- further members of the common API (Writing-generic-code.md, class documentation)
e("X.isApprox(Y)", "X.isApprox(Y)", "Xo.isApprox(Yo)")
e("X == Y", "(X == Y)", "Xo.isApprox(Yo)")
e("X.transform()", "X.transform()", "Xo.transform()")
e("X.rotation()", "X.rotation()", "Xo.rotation()", "rot")
e("X.translation()", "X.translation()", "Xo.translation()", "tra")
e("X.coeffs()", "X.coeffs()", "Xo.coeffs()")
e("X.data()", "Eigen::Matrix<S,G::RepSize,1>(Eigen::Map<const Eigen::Matrix<S,G::RepSize,1>>(X.data()))", "Xo.coeffs()")
e("X.cast<other>()", "X.template cast<OtherS>().template cast<S>()", "Xo.template cast<OtherS>().template cast<S>()")
e("G::Identity()", "G::Identity()", "T::Zero().exp()")
e("G::Random()", "[&]{ G r = G::Random(); return r.isApprox(r); }()", "true")
e("T::Zero()", "T::Zero()", "T(T::DataType::Zero())")
e("T::Random()", "[&]{ T r = T::Random(); return r.isApprox(r); }()", "true")
e("T::Generator(i)", "T::Generator(0)", "[&]{ T u = T::Zero(); u.coeffs()(0) = S(1); return u.hat(); }()")
e("T::InnerWeights()", "T::InnerWeights()", "T::InnerWeights().transpose().eval()")
e("T::Vee(M)", "T::Vee(wo.hat())", "wo")
e("W::Bracket(w,t)", "std::decay<decltype(w)>::type::Bracket(w,t)", "T(wo.smallAdj()*to.coeffs())")     # the static helper of the operand's own class
e("w.bracket(t)", "w.bracket(t)", "T(wo.smallAdj()*to.coeffs())")
e("stream << X", "[&]{ std::ostringstream os; os << X; return (int)os.str().size() > 0; }()", "true")
e("stream << w", "[&]{ std::ostringstream os; os << w; return (int)os.str().size() > 0; }()", "true")
# tangent
for sp, ca in (("w.rjac()", "wo.rjac()"), ("w.ljac()", "wo.ljac()"), ("w.rjacinv()", "wo.rjacinv()"), ("w.ljacinv()", "wo.ljacinv()"),
               ("w + t", "T(wo.coeffs()+to.coeffs())"), ("w - t", "T(wo.coeffs()-to.coeffs())"), ("-w", "T(-wo.coeffs())"),
               ("w * S(2)", "T(wo.coeffs()*S(2))"), ("S(2) * w", "T(wo.coeffs()*S(2))"), ("w / S(2)", "T(wo.coeffs()/S(2))"),
               ("w.plus(t)", "T(wo.coeffs()+to.coeffs())"), ("w.minus(t)", "T(wo.coeffs()-to.coeffs())"),
               ("w.isApprox(t)", "wo.isApprox(to)"), ("w == t", "wo.isApprox(to)"), ("w.coeffs()", "wo.coeffs()"),
               ("J * w", "T(J::Identity()*wo.coeffs())")):
    e(sp, sp if sp != "J * w" else "(J(J::Identity()) * w)", ca)
# mutation (owning and mutable views only)
e("X.setIdentity()", "[&]{ X.setIdentity(); return val(X); }()", "val(G::Identity())", "mut")
e("X.setRandom()", "[&]{ X.setRandom(); return X.isApprox(X); }()", "true", "mut")
e("X = Y", "[&]{ X = Y; return val(X); }()", "val(Yo)", "mut")
e("X += w", "[&]{ X += w; return val(X); }()", "val(Xo.rplus(wo))", "mut")
e("X *= Y", "[&]{ X *= Y; return val(X); }()", "val(Xo.compose(Yo))", "mut")
e("X.normalize()", "[&]{ X.normalize(); return X.isApprox(X); }()", "true", "mut norm")
e("X.coeffs()(i) = s", "[&]{ S s = X.coeffs()(0); X.coeffs()(0) = s; return val(X); }()", "val(Xo)", "mut")
e("w.setZero()", "[&]{ w.setZero(); return val(w); }()", "val(T::Zero())", "mut")
e("w.setRandom()", "[&]{ w.setRandom(); return w.isApprox(w); }()", "true", "mut")
e("w = t", "[&]{ w = t; return val(w); }()", "val(to)", "mut")
e("w += t", "[&]{ w += t; return val(w); }()", "val(T(wo.coeffs()+to.coeffs()))", "mut")
e("w -= t", "[&]{ w -= t; return val(w); }()", "val(T(wo.coeffs()-to.coeffs()))", "mut")
e("w *= s", "[&]{ w *= S(2); return val(w); }()", "val(T(wo.coeffs()*S(2)))", "mut")
e("w /= s", "[&]{ w /= S(2); return val(w); }()", "val(T(wo.coeffs()/S(2)))", "mut")
# --- functions.h
for sp, ca in (("manif::inverse(X)", "Xo.inverse()"), ("manif::compose(X,Y)", "Xo.compose(Yo)"), ("manif::log(X)", "Xo.log()"), ("manif::lift(X)", "Xo.log()"),
               ("manif::exp(w)", "wo.exp()"), ("manif::retract(w)", "wo.exp()"), ("manif::rplus(X,w)", "Xo.rplus(wo)"), ("manif::lplus(X,w)", "Xo.lplus(wo)"),
               ("manif::plus(X,w)", "Xo.rplus(wo)"), ("manif::rminus(X,Y)", "Xo.rminus(Yo)"), ("manif::lminus(X,Y)", "Xo.lminus(Yo)"), ("manif::minus(X,Y)", "Xo.rminus(Yo)"),
               ("manif::between(X,Y)", "Xo.between(Yo)"), ("manif::act(X,v)", "Xo.act(v)")):
    e(sp, sp, ca)
e("manif::identity(X)", "[&]{ manif::identity(X); return val(X); }()", "val(G::Identity())", "mut")
e("manif::zero(w)", "[&]{ manif::zero(w); return val(w); }()", "val(T::Zero())", "mut")
e("manif::random(X)", "[&]{ manif::random(X); return X.isApprox(X); }()", "true", "mut")
e("manif::Identity<G>()", "manif::Identity<G>()", "G::Identity()")
e("manif::Zero<T>()", "manif::Zero<T>()", "T::Zero()")
# --- algorithms
# "same": the documented signature takes both operands as LieGroupBase<_Derived> of ONE derived type (no _DerivedOther), so the mixed-storage kinds are not documented instantiations
e("interpolate(X,Y,u) SLERP", "manif::interpolate(X, Y, S(0.25))", "Xo.rplus(Yo.rminus(Xo)*S(0.25))", "same")
e("interpolate(X,Y,u,CUBIC)", "manif::interpolate(X, Y, S(0), manif::INTERP_METHOD::CUBIC).isApprox(Xo, S(1e-3))", "true", "same")
e("interpolate(X,Y,u,CNSMOOTH)", "manif::interpolate(X, Y, S(1), manif::INTERP_METHOD::CNSMOOTH).isApprox(Yo, S(1e-3))", "true", "same")
for nm in ("average_biinvariant", "average", "average_frechet_left", "average_frechet_right"):
    e("%s(points)" % nm, "[&]{ std::vector<G, Eigen::aligned_allocator<G>> p{Xo, Xo}; return manif::%s(p).isApprox(Xo, S(1e-3)); }()" % nm, "true", "own")
e("decasteljau(points,d,k)", "[&]{ std::vector<G> p{Xo, Yo, Xo}; auto c = manif::decasteljau(p, 2, 2); return (int)c.size(); }()", "4", "own")

ENTRIES = E

import re as _re
def operands_of(entry):
    return sorted(set(_re.findall(r"(?<![A-Za-z0-9_:.])(X|Y|w|t)(?![A-Za-z0-9_(<:])", entry[2])))
def is_binary(entry): return len(operands_of(entry)) >= 2
def mutated(entry):
    """the operand a "mut" entry mutates: the first one its documented spelling names"""
    m = _re.search(r"(?<![A-Za-z0-9_:.])(X|w)(?![A-Za-z0-9_(<:])", entry[0])
    return m.group(1)
def needs_of(entry):
    """the needs as the Coq table has them: mut is split by mutated operand, bin marks the entries with two stored operands"""
    out = []
    for n in entry[1].split():
        out.append(("mutX" if mutated(entry) == "X" else "mutW") if n == "mut" else n)
    if is_binary(entry) and "same" not in out: out.append("bin")
    return out
def applicable(entry, gname, storage):
    name, needs, _, _ = entry
    props = GROUPS[gname][1]
    kind = KIND[storage]
    if storage.startswith("mix") and "bin" not in needs_of(entry): return False
    for n in needs_of(entry):
        if n == "same": continue
        if n == "mutX" and kind[0] == "c": return False
        if n == "mutW" and kind[2] == "c": return False
        if n == "own" and storage != "owning": return False
        if n in ("rot", "tra", "norm") and not props[n]: return False
    return True

def cells():
    return [(en[0], g, sc, st) for en in ENTRIES for g in GROUPS for sc in SCALARS for st in STORAGES if applicable(en, g, st)]

PRELUDE = r'''
#include <manif/manif.h>
#include <manif/Bundle.h>
#include <manif/functions.h>
#include <manif/algorithms/interpolation.h>
#include <manif/algorithms/average.h>
#include <manif/algorithms/decasteljau.h>
#include <sstream>
#include <iostream>
#include <vector>
#include <cstring>
#include <cmath>
#include <limits>
typedef %(scalar)s S; typedef %(other)s OtherS;
typedef %(gtype)s G; typedef G::Tangent T; typedef G::Jacobian J; typedef G::Vector V;
typedef std::vector<double> R;
template<class M> static auto val(const M& m) -> decltype(m.rows(), R()) { R r; for(int i=0;i<m.rows();i++) for(int j=0;j<m.cols();j++) r.push_back((double)m(i,j)); return r; }
template<class D> static R val(const manif::LieGroupBase<D>& g){ return val(g.coeffs()); }
template<class D> static R val(const manif::TangentBase<D>& t){ return val(t.coeffs()); }
static R val(const R& r){ return r; }
static R val(double s){ return R{s}; } static R val(float s){ return R{(double)s}; } static R val(bool b){ return R{b?1.:0.}; } static R val(int i){ return R{(double)i}; }
static R cat(R a, const R& b){ a.insert(a.end(), b.begin(), b.end()); return a; }
struct Data { G::DataType x, y; T::DataType w, t; V v; Data(){ G a = T(T::DataType::Constant(S(0.3))).exp(), b = T(T::DataType::Constant(S(-0.2))).exp(); x = a.coeffs(); y = b.coeffs();
  w = T::DataType::Constant(S(0.1)); t = T::DataType::Constant(S(0.25)); for(int i=0;i<w.size();i++){ w(i) += S(0.01*i); t(i) -= S(0.02*i); } v = V::Constant(S(0.5)); } };
'''
def operands(storage):
    kind = KIND[storage]
    out = "G::DataType bx = d.x, by = d.y; T::DataType bw = d.w, bt = d.t; "
    for nm, ty, k in (("X", "G", kind[0]), ("Y", "G", kind[1]), ("w", "T", kind[2]), ("t", "T", kind[3])):
        if k == "o": out += "%s %s(d.%s); " % (ty, nm, nm.lower())
        elif k == "m": out += "Eigen::Map<%s> %s(b%s.data()); " % (ty, nm, nm.lower())
        else: out += "Eigen::Map<const %s> %s(b%s.data()); " % (ty, nm, nm.lower())
    return out

def entry_fn(i, entry, storage):
    name, needs, expr, canon = entry
    return ("static int e%d(){ Data d; %s const G Xo(d.x), Yo(d.y); const T wo(d.w), to(d.t); const V v = d.v; (void)Y; (void)t; (void)w; (void)X;\n"
            "  R canon = val(%s); R got = val(%s);\n"
            "  bool ok = got.size()==canon.size(); const double tol = 64 * (double)std::numeric_limits<S>::epsilon();\n"
            "  for(size_t k=0; ok && k<got.size(); k++){ double sc = 1 + std::fabs(canon[k]); if(!(std::fabs(got[k]-canon[k]) <= tol*sc)) ok = false; }\n"
            "  std::cout << \"CELL %d \" << (ok?\"ok\":\"FORWARD_MISMATCH\") << \"\\n\"; return ok?0:1; }\n") % (i, operands(storage), canon, expr, i)

def unit(gname, scalar, storage, only=None, skip=()):
    """source of the translation unit of one (group, scalar, storage); `only`: restrict to one entry index"""
    src = PRELUDE % dict(scalar=scalar, other=("float" if scalar == "double" else "double"), gtype=GROUPS[gname][0])
    idxs = [i for i, en in enumerate(ENTRIES) if applicable(en, gname, storage) and (only is None or i == only) and i not in skip]
    for i in idxs: src += entry_fn(i, ENTRIES[i], storage)
    src += "int main(){ int bad = 0;\n" + "".join("  bad += e%d();\n" % i for i in idxs) + "  return bad ? 1 : 0; }\n"
    return src, idxs
