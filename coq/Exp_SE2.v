(* Exp_SE2.v — C02 for SO2 and SE2: the model's exp is the matrix exponential of hat (generic branch exact). *)
From Coq Require Import Reals ZArith List Lra Lia.
From Coquelicot Require Import Coquelicot.
From Manif Require Import Scalar Mat Consts Group RInst Tac Atan2 SO2 SE2 Generic LieSpec SE2Proofs Ode ExpSpec AlgTac.
Import ListNotations.
Local Open Scope R_scope.

Ltac ij3 i j := destruct i as [|[|[|i]]]; destruct j as [|[|[|j]]].
Ltac ij2 i j := destruct i as [|[|i]]; destruct j as [|[|j]].

Section SO2.
Variable th : R.
Definition Hso2 : list (list R) := [[0; - th]; [th; 0]].
Definition Gso2 (s : R) : list (list R) := [[cos (s * th); - sin (s * th)]; [sin (s * th); cos (s * th)]].

Lemma Gso2_ode s i j : is_derive (fun s => fmat 1 (Gso2 s) i j) s (mmul 1 (fmat 1 (Gso2 s)) (fmat 1 Hso2) i j).
Proof.
  unfold mmul. rewrite !sum_Sn, sum_O. unfold plus; simpl.
  ij2 i j; unfold fmat, Gso2, Hso2; cbn [Nat.leb andb mnth nth]; auto_derive; try exact I; unfold Hierarchy.plus; simpl; ring.
Qed.

Lemma so2_matexp : MatExp 1 Hso2 (Gso2 1).
Proof.
  intros i j Hi Hj.
  apply (ode_matexp 1 (fmat 1 Hso2) (fun s => fmat 1 (Gso2 s))) with (a := Rabs th); try assumption.
  - intros i' j' Hi'. unfold fmat, Gso2, mid. rewrite !Rmult_0_l, cos_0, sin_0.
    ij2 i' j'; cbn [Nat.leb andb mnth nth Nat.eqb]; try reflexivity; try lia; ring.
  - apply Gso2_ode.
  - intros i' j'. unfold fmat, Hso2. pose proof (Rabs_pos th).
    ij2 i' j'; cbn [Nat.leb andb mnth nth]; rewrite ?Rabs_Ropp, ?Rabs_R0; lra.
Qed.
End SO2.

Section SE2.
Variables x y th : R.
Hypothesis Hth : th <> 0.
Definition Hse2 : list (list R) := [[0; - th; x]; [th; 0; y]; [0; 0; 0]].
Definition Gse2 (s : R) : list (list R) :=
  [[cos (s * th); - sin (s * th); (sin (s * th) * x - (1 - cos (s * th)) * y) / th];
   [sin (s * th); cos (s * th); ((1 - cos (s * th)) * x + sin (s * th) * y) / th];
   [0; 0; 1]].

Lemma Gse2_ode s i j : is_derive (fun s => fmat 2 (Gse2 s) i j) s (mmul 2 (fmat 2 (Gse2 s)) (fmat 2 Hse2) i j).
Proof.
  unfold mmul. rewrite !sum_Sn, sum_O. unfold plus; simpl.
  ij3 i j; unfold fmat, Gse2, Hse2; cbn [Nat.leb andb mnth nth]; auto_derive; try exact I; unfold Hierarchy.plus; simpl; try (field; exact Hth); ring.
Qed.

Lemma se2_matexp : MatExp 2 Hse2 (Gse2 1).
Proof.
  intros i j Hi Hj.
  apply (ode_matexp 2 (fmat 2 Hse2) (fun s => fmat 2 (Gse2 s))) with (a := Rmax (Rabs th) (Rmax (Rabs x) (Rabs y))); try assumption.
  - intros i' j' Hi'. unfold fmat, Gse2, mid. rewrite !Rmult_0_l, cos_0, sin_0.
    ij3 i' j'; cbn [Nat.leb andb mnth nth Nat.eqb]; try reflexivity; try lia; try (field; exact Hth); ring.
  - apply Gse2_ode.
  - intros i' j'. unfold fmat, Hse2.
    assert (H1 := Rmax_l (Rabs th) (Rmax (Rabs x) (Rabs y))).
    assert (H2 := Rmax_r (Rabs th) (Rmax (Rabs x) (Rabs y))).
    assert (H3 := Rmax_l (Rabs x) (Rabs y)). assert (H4 := Rmax_r (Rabs x) (Rabs y)).
    assert (H0 := Rabs_pos th).
    ij3 i' j'; cbn [Nat.leb andb mnth nth]; rewrite ?Rabs_Ropp, ?Rabs_R0; lra.
Qed.
End SE2.

(* ---- the model's functions are these matrices ---- *)
Theorem SO2_exp_matexp eps th :
  MatExp 1 (g_hat (SO2 RS eps) [th]) (g_matrep (SO2 RS eps) (g_exp (SO2 RS eps) [th])).
Proof.
  assert (Hh : g_hat (SO2 RS eps) [th] = Hso2 th) by (rcbv; list_eq; ring).
  assert (He : g_matrep (SO2 RS eps) (g_exp (SO2 RS eps) [th]) = Gso2 th 1).
  { unfold g_matrep. cbn [g_transform g_exp g_alg SO2]. unfold so2_exp, so2t_angle. cbn [vnth nth K RS kcos ksin].
    assert (Hu : cos th * cos th + sin th * sin th = 1) by (pose proof (sin2_cos2 th) as Hs; unfold Rsqr in Hs; lra).
    rewrite (SE2Proofs.so2_transform_valid _ _ Hu). unfold Gso2. rewrite Rmult_1_l. reflexivity. }
  rewrite Hh, He. apply so2_matexp.
Qed.

Theorem SE2_exp_matexp eps x y th : 0 < eps -> eps <= th * th ->
  MatExp 2 (g_hat (SE2 RS eps) [x; y; th]) (g_transform (SE2 RS eps) (g_exp (SE2 RS eps) [x; y; th])).
Proof.
  intros He Hge.
  assert (Hth : th <> 0) by (intros ->; lra).
  assert (Hh : g_hat (SE2 RS eps) [x; y; th] = Hse2 x y th) by (rcbv; list_eq; ring).
  assert (Hx : g_transform (SE2 RS eps) (g_exp (SE2 RS eps) [x; y; th]) = Gse2 x y th 1).
  { cbn [g_transform g_exp SE2]. unfold se2_exp, se2_AB. cbn [vnth nth K RS kmul kltb kcos ksin].
    rewrite (Rltb_lt_false (th * th) eps Hge). unfold se2_transform, se2_real, se2_imag, se2_x, se2_y, Gse2.
    rewrite Rmult_1_l. rcbv. list_eq; try ring; field; exact Hth. }
  rewrite Hh, Hx. apply se2_matexp. exact Hth.
Qed.
