(* Properties_C10.v — property C10: views over external memory behave exactly like owning objects.
   On the memory model of Views.v (a buffer is a list of scalars, a view is an offset), for ANY scalar and ANY group:
   a view gives the result the owning object with the same coefficients gives; read-only operations leave the buffer
   unchanged; every writing operation (assignment, setIdentity, +=, *=, normalize, coefficient access, view = f(view),
   copy / move / cross-kind assignment, tangent views) changes exactly the written range and nothing adjacent and keeps
   the buffer's size; assignment stores the coefficients exactly.  What the model cannot exhibit (stated in DESIGN.md):
   C++ object lifetime, alignment, reads outside the view that do not influence a value — those are covered only by
   the sanitizer build of the same driver (support, not proof); setRandom is checked for its frame only. *)
From Coq Require Import ZArith List Lia.
From Manif Require Import Scalar Mat Group Generic Algorithms Views ViewProofs.
Import ListNotations.

Theorem C10_view_equals_owning (F : Sc) (G : GroupOps F) mem off off2 Y t k v :
  view_op G 0 mem off off2 Y t k v = Ok ([g_inverse G (vread G mem off)], mem) /\
  view_op G 1 mem off off2 Y t k v = Ok ([g_log G (vread G mem off)], mem) /\
  view_op G 2 mem off off2 Y t k v = Ok ([g_compose G (vread G mem off) Y], mem) /\
  view_op G 4 mem off off2 Y t k v = Ok ([rplus_v G (vread G mem off) t], mem) /\
  view_op G 8 mem off off2 Y t k v = Ok ([rminus_v G (vread G mem off) Y], mem) /\
  view_op G 20 mem off off2 Y t k v = Ok ([vread G mem off], mem).
Proof. exact (view_equals_owning F G mem off off2 Y t k v). Qed.
Theorem C10_reads_pure (F : Sc) (G : GroupOps F) id mem off off2 Y t k v rs mem' : is_read id = true ->
  view_op G id mem off off2 Y t k v = Ok (rs, mem') -> mem' = mem.
Proof. exact (read_ops_pure F G id mem off off2 Y t k v rs mem'). Qed.
Theorem C10_write_frame (F : Sc) (G : GroupOps F) id mem off off2 Y t k v o w a : written F G id mem off off2 Y t k v = Some (o, w) ->
  (o + length w <= length mem)%nat -> (a < o \/ o + length w <= a)%nat ->
  exists mem', view_op G id mem off off2 Y t k v = Ok ([], mem') /\ nth a mem' (k0 F) = nth a mem (k0 F) /\ length mem' = length mem.
Proof. exact (view_write_frame F G id mem off off2 Y t k v o w a). Qed.
Theorem C10_write_then_read (F : Sc) (mem w : list (K F)) off : (off + length w <= length mem)%nat -> vslice (vwrite mem off w) off (length w) = w.
Proof. exact (write_read F mem w off). Qed.
Theorem C10_assign_preserves (F : Sc) (G : GroupOps F) mem off off2 Y t k v mem' : length Y = g_rep G -> (off + g_rep G <= length mem)%nat ->
  view_op G 10 mem off off2 Y t k v = Ok ([], mem') -> vread G mem' off = Y.
Proof. exact (assign_preserves F G mem off off2 Y t k v mem'). Qed.
Theorem C10_view_to_view_preserves (F : Sc) (G : GroupOps F) id mem off off2 Y t k v mem' : (id = 17 \/ id = 18 \/ id = 19)%Z ->
  (off + g_rep G <= length mem)%nat -> (off2 + g_rep G <= length mem)%nat ->
  view_op G id mem off off2 Y t k v = Ok ([], mem') -> vread G mem' off = vread G mem off2.
Proof. exact (view_to_view_preserves F G id mem off off2 Y t k v mem'). Qed.
Print Assumptions C10_write_frame.

(* non-vacuity: every id the harness executes is either a read or a write of the model *)
Example C10_ids_classified (F : Sc) (G : GroupOps F) mem off off2 Y t k v :
  Forall (fun id => is_read id = true \/ written F G id mem off off2 Y t k v <> None)
         [0; 1; 2; 3; 4; 5; 6; 8; 9; 20; 10; 11; 12; 13; 14; 15; 16; 17; 18; 19; 21; 22; 30; 31; 32; 33; 34; 35; 36]%Z.
Proof. repeat (apply Forall_cons; [first [left; reflexivity | right; discriminate]|]). apply Forall_nil. Qed.
