(* Taylor_SE2.v — property C02 on the small-angle branch of SE2: below the switch-over (theta^2 < eps <= 1) the model's exp
   uses A = 1 - theta^2/6, B = theta/2 - theta^3/24 instead of sin(theta)/theta, (1 - cos(theta))/theta.  The truncation
   errors are at most theta^4/120 and |theta|^5/720, so the translation part of exp differs from the matrix exponential's
   by at most (theta^4/120 + |theta|^5/720) (|x| + |y|) <= eps^2/100 * (|x| + |y|): uniformly small relative to the size of
   the translation-like components, for every theta in the branch (zero included, where both are exact). *)
From Coq Require Import Reals ZArith List Lra Psatz.
From Coquelicot Require Import Coquelicot.
From Manif Require Import Scalar Mat Consts Group RInst Tac SE2 Jr_SE2.
Import ListNotations.
Local Open Scope R_scope.

(* g(0) = 0 and g' >= 0 on [0, oo) give g >= 0 there *)
Lemma nonneg_from_deriv (g dg : R -> R) : (forall x, is_derive g x (dg x)) -> (forall x, 0 <= x -> 0 <= dg x) -> g 0 = 0 ->
  forall a, 0 <= a -> 0 <= g a.
Proof.
  intros Hd Hp H0 a Ha.
  destruct (MVT_gen g 0 a dg) as (c & Hc & E).
  - intros x _. apply Hd.
  - intros x _. apply derivable_continuous_pt. exists (dg x). apply is_derive_Reals. apply Hd.
  - rewrite Rmin_left, Rmax_right in Hc by lra. assert (0 <= dg c) by (apply Hp; lra). nra.
Qed.
(* the ladder sin a <= a, cos a >= 1 - a^2/2, sin a >= a - a^3/6, cos a <= 1 - a^2/2 + a^4/24, sin a <= a - a^3/6 + a^5/120,
   cos a >= 1 - a^2/2 + a^4/24 - a^6/720, each from the previous one *)
Lemma L1 a : 0 <= a -> 0 <= a - sin a.
Proof.
  apply (nonneg_from_deriv (fun x => x - sin x) (fun x => 1 - cos x)).
  - intros x. auto_derive; [exact I|ring].
  - intros x _. pose proof (COS_bound x). lra.
  - rewrite sin_0. ring.
Qed.
Lemma L2 a : 0 <= a -> 0 <= cos a - (1 - a * a / 2).
Proof.
  apply (nonneg_from_deriv (fun x => cos x - (1 - x * x / 2)) (fun x => x - sin x)).
  - intros x. auto_derive; [exact I|field].
  - intros x Hx. apply L1; exact Hx.
  - rewrite cos_0. field.
Qed.
Lemma L3 a : 0 <= a -> 0 <= sin a - (a - a * a * a / 6).
Proof.
  apply (nonneg_from_deriv (fun x => sin x - (x - x * x * x / 6)) (fun x => cos x - (1 - x * x / 2))).
  - intros x. auto_derive; [exact I|field].
  - intros x Hx. apply L2; exact Hx.
  - rewrite sin_0. field.
Qed.
Lemma L4 a : 0 <= a -> 0 <= (1 - a * a / 2 + a * a * a * a / 24) - cos a.
Proof.
  apply (nonneg_from_deriv (fun x => (1 - x * x / 2 + x * x * x * x / 24) - cos x) (fun x => sin x - (x - x * x * x / 6))).
  - intros x. auto_derive; [exact I|field].
  - intros x Hx. apply L3; exact Hx.
  - rewrite cos_0. field.
Qed.
Lemma L5 a : 0 <= a -> 0 <= (a - a * a * a / 6 + a * a * a * a * a / 120) - sin a.
Proof.
  apply (nonneg_from_deriv (fun x => (x - x * x * x / 6 + x * x * x * x * x / 120) - sin x) (fun x => (1 - x * x / 2 + x * x * x * x / 24) - cos x)).
  - intros x. auto_derive; [exact I|field].
  - intros x Hx. apply L4; exact Hx.
  - rewrite sin_0. field.
Qed.
Lemma L6 a : 0 <= a -> 0 <= cos a - (1 - a * a / 2 + a * a * a * a / 24 - a * a * a * a * a * a / 720).
Proof.
  apply (nonneg_from_deriv (fun x => cos x - (1 - x * x / 2 + x * x * x * x / 24 - x * x * x * x * x * x / 720))
                           (fun x => (x - x * x * x / 6 + x * x * x * x * x / 120) - sin x)).
  - intros x. auto_derive; [exact I|field].
  - intros x Hx. apply L5; exact Hx.
  - rewrite cos_0. field.
Qed.

(* the two coefficient errors, for 0 < a <= 1 *)
Lemma A_err_pos a : 0 < a -> Rabs ((1 - a * a / 6) - sin a / a) <= a * a * a * a / 120.
Proof.
  intros H0. pose proof (L3 a ltac:(lra)) as Hl. pose proof (L5 a ltac:(lra)) as Hu.
  assert (E : (1 - a * a / 6) - sin a / a = (a - a * a * a / 6 - sin a) / a) by (field; lra). rewrite E.
  apply Rabs_le. split.
  - apply (Rmult_le_reg_r a); [lra|]. replace ((a - a * a * a / 6 - sin a) / a * a) with (a - a * a * a / 6 - sin a) by (field; lra). nra.
  - apply (Rmult_le_reg_r a); [lra|]. replace ((a - a * a * a / 6 - sin a) / a * a) with (a - a * a * a / 6 - sin a) by (field; lra).
    assert (0 <= a * a * a * a / 120 * a) by (assert (0 <= a * a) by nra; nra). lra.
Qed.
Lemma B_err_pos a : 0 < a -> Rabs ((a / 2 - a * a * a / 24) - (1 - cos a) / a) <= a * a * a * a * a / 720.
Proof.
  intros H0. pose proof (L4 a ltac:(lra)) as Hu. pose proof (L6 a ltac:(lra)) as Hl.
  assert (E : (a / 2 - a * a * a / 24) - (1 - cos a) / a = (cos a - (1 - a * a / 2 + a * a * a * a / 24)) / a) by (field; lra). rewrite E.
  apply Rabs_le. split.
  - apply (Rmult_le_reg_r a); [lra|]. replace ((cos a - (1 - a * a / 2 + a * a * a * a / 24)) / a * a) with (cos a - (1 - a * a / 2 + a * a * a * a / 24)) by (field; lra). nra.
  - apply (Rmult_le_reg_r a); [lra|]. replace ((cos a - (1 - a * a / 2 + a * a * a * a / 24)) / a * a) with (cos a - (1 - a * a / 2 + a * a * a * a / 24)) by (field; lra).
    assert (0 <= a * a * a * a * a / 720 * a) by (assert (0 <= a * a) by nra; assert (0 <= a * a * (a * a)) by nra; nra). lra.
Qed.

(* for either sign of theta *)
Lemma A_err th : th <> 0 -> Rabs ((1 - th * th / 6) - sin th / th) <= th * th * th * th / 120.
Proof.
  intros H. destruct (Rlt_dec 0 th) as [Hp|Hn]; [apply A_err_pos; exact Hp|].
  replace ((1 - th * th / 6) - sin th / th) with ((1 - (- th) * (- th) / 6) - sin (- th) / (- th)) by (rewrite sin_neg; field; lra).
  eapply Rle_trans; [apply A_err_pos; lra|]. right. field.
Qed.
Lemma B_err th : th <> 0 -> Rabs ((th / 2 - th * th * th / 24) - (1 - cos th) / th) <= Rabs th * (th * th * th * th) / 720.
Proof.
  intros H. destruct (Rlt_dec 0 th) as [Hp|Hn].
  - rewrite (Rabs_right th) by lra. pose proof (B_err_pos th Hp) as E. lra.
  - replace ((th / 2 - th * th * th / 24) - (1 - cos th) / th) with (- (((- th) / 2 - (- th) * (- th) * (- th) / 24) - (1 - cos (- th)) / (- th))) by (rewrite cos_neg; field; lra).
    rewrite Rabs_Ropp. eapply Rle_trans; [apply B_err_pos; lra|]. rewrite (Rabs_left th) by lra. right. field.
Qed.

(* the code's literals Scalar(1./6.) and Scalar(1./24.) are the doubles nearest 1/6 and 1/24 (Consts.v keeps them as the exact
   rationals 6004799503160661 / 2^55 and 6004799503160661 / 2^57): 1/(3 2^55) and 1/(3 2^57) below the exact fractions *)
Definition c6 : R := 6004799503160661 / 36028797018963968.
Definition c24 : R := 6004799503160661 / 144115188075855872.
Lemma c6_gap : 1 / 6 - c6 = 1 / 108086391056891904.
Proof. unfold c6. field. Qed.
Lemma c24_gap : 1 / 24 - c24 = 1 / 432345564227567616.
Proof. unfold c24. field. Qed.

Lemma A_err_code th : th <> 0 -> Rabs ((1 - c6 * (th * th)) - sin th / th) <= th * th * th * th / 120 + th * th / 108086391056891904.
Proof.
  intros H. pose proof (A_err th H) as E.
  replace ((1 - c6 * (th * th)) - sin th / th) with (((1 - th * th / 6) - sin th / th) + (1 / 6 - c6) * (th * th)) by (field; exact H).
  rewrite c6_gap. eapply Rle_trans; [apply Rabs_triang|]. rewrite (Rabs_right (1 / 108086391056891904 * (th * th))) by nra. lra.
Qed.
Lemma B_err_code th : th <> 0 ->
  Rabs ((1 / 2 * th - c24 * th * (th * th)) - (1 - cos th) / th) <= Rabs th * (th * th * th * th) / 720 + Rabs th * (th * th) / 432345564227567616.
Proof.
  intros H. pose proof (B_err th H) as E.
  replace ((1 / 2 * th - c24 * th * (th * th)) - (1 - cos th) / th) with (((th / 2 - th * th * th / 24) - (1 - cos th) / th) + (1 / 24 - c24) * (th * (th * th))) by (field; exact H).
  rewrite c24_gap. eapply Rle_trans; [apply Rabs_triang|].
  rewrite Rabs_mult, (Rabs_right (1 / 432345564227567616)) by lra. rewrite Rabs_mult, (Rabs_right (th * th)) by nra. lra.
Qed.

Section P.
Variable eps : R.
Hypothesis eps_pos : 0 < eps.

(* the Taylor branch of exp: value, and distance of its translation part from the closed form (= the matrix exponential,
   Exp_SE2.SE2_exp_matexp / Jr_SE2.ex, ey) *)
Definition tay_bound (th : R) : R :=
  th * th * th * th / 120 + th * th / 108086391056891904 + (Rabs th * (th * th * th * th) / 720 + Rabs th * (th * th) / 432345564227567616).
Theorem se2_exp_taylor_bound x y th : th * th < eps -> th <> 0 ->
  exists tx ty, se2_exp RS eps [x; y; th] = [tx; ty; cos th; sin th] /\
    Rabs (tx - ex x y th) <= tay_bound th * (Rabs x + Rabs y) /\ Rabs (ty - ey x y th) <= tay_bound th * (Rabs x + Rabs y).
Proof.
  intros Hlt Hne. unfold se2_exp, se2_AB. mat_unfold. rewrite (Rltb_lt_true (th * th) eps Hlt).
  unfold c_half, c_1_6d, c_1_24d. cbn [klit RS]. eexists _, _. split; [reflexivity|].
  pose proof (A_err_code th Hne) as HA. pose proof (B_err_code th Hne) as HB. unfold c6, c24 in HA, HB. unfold tay_bound.
  set (dA := (1 - 6004799503160661 / 36028797018963968 * (th * th)) - sin th / th) in *.
  set (dB := (1 / 2 * th - 6004799503160661 / 144115188075855872 * th * (th * th)) - (1 - cos th) / th) in *.
  set (bA := th * th * th * th / 120 + th * th / 108086391056891904) in *.
  set (bB := Rabs th * (th * th * th * th) / 720 + Rabs th * (th * th) / 432345564227567616) in *.
  assert (HbA : 0 <= bA) by (pose proof (Rabs_pos dA); lra). assert (HbB : 0 <= bB) by (pose proof (Rabs_pos dB); lra).
  pose proof (Rabs_pos x) as Hx. pose proof (Rabs_pos y) as Hy.
  unfold ex, ey. split.
  - replace ((1 - 6004799503160661 / 36028797018963968 * (th * th)) * x - (1 / 2 * th - 6004799503160661 / 144115188075855872 * th * (th * th)) * y - (sin th / th * x - (1 - cos th) / th * y))
      with (dA * x - dB * y) by (unfold dA, dB; field; exact Hne).
    eapply Rle_trans; [apply Rabs_triang|]. rewrite Rabs_Ropp, !Rabs_mult. nra.
  - replace ((1 / 2 * th - 6004799503160661 / 144115188075855872 * th * (th * th)) * x + (1 - 6004799503160661 / 36028797018963968 * (th * th)) * y - ((1 - cos th) / th * x + sin th / th * y))
      with (dB * x + dA * y) by (unfold dA, dB; field; exact Hne).
    eapply Rle_trans; [apply Rabs_triang|]. rewrite !Rabs_mult. nra.
Qed.
(* uniformly below the switch-over (eps <= 1): the relative truncation error is at most eps^2/100 + 2 eps/10^17 *)
Corollary se2_exp_taylor_uniform x y th : eps <= 1 -> th * th < eps -> th <> 0 ->
  exists tx ty, se2_exp RS eps [x; y; th] = [tx; ty; cos th; sin th] /\
    Rabs (tx - ex x y th) <= (eps * eps / 100 + eps / 50000000000000000) * (Rabs x + Rabs y) /\
    Rabs (ty - ey x y th) <= (eps * eps / 100 + eps / 50000000000000000) * (Rabs x + Rabs y).
Proof.
  intros He Hlt Hne. destruct (se2_exp_taylor_bound x y th Hlt Hne) as (tx & ty & E & H1 & H2). exists tx, ty. split; [exact E|].
  assert (H2' : 0 <= th * th) by nra.
  assert (Ht4 : th * th * th * th <= eps * eps) by nra.
  assert (Hab : Rabs th <= 1) by (apply Rabs_le; split; nra).
  pose proof (Rabs_pos th). pose proof (Rabs_pos x). pose proof (Rabs_pos y).
  assert (H4 : 0 <= th * th * th * th) by nra.
  assert (Hc : tay_bound th <= eps * eps / 100 + eps / 50000000000000000).
  { unfold tay_bound.
    assert (Rabs th * (th * th * th * th) <= th * th * th * th) by nra.
    assert (Rabs th * (th * th) <= th * th) by nra. lra. }
  split; eapply Rle_trans; try eassumption; apply Rmult_le_compat_r; lra.
Qed.
(* theta = 0: exp is the translation, exactly *)
Lemma se2_exp_zero x y : se2_exp RS eps [x; y; 0] = [x; y; 1; 0].
Proof.
  unfold se2_exp, se2_AB. mat_unfold. rewrite (Rltb_lt_true (0 * 0) eps) by lra.
  unfold c_half, c_1_6d, c_1_24d. cbn [klit RS]. rewrite cos_0, sin_0.
  match goal with |- @eq _ ?u ?v => change (@eq (list R) u v) end. list_eq; field.
Qed.
End P.
