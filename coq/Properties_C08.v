(* Properties_C08.v — property C08: elements stay valid under arbitrarily long operation histories.
   Exact arithmetic over the reals, for every threshold 0 < eps <= 1/8 (the library's eps, 2.2e-14, is one):
   the invariant  "coefficient vector of the right shape and | |rotation part|^2 - 1 | <= eps"
   is preserved by every step of the history machine (Hist.v: compose, inverse, between, += (rplus), lplus,
   *=, exp, SLERP interpolation, cast, Random — exp of a random tangent for SO2 / SE2 / Rn, the constructor applied to Eigen's
   UnitRandom quaternion (randQuat) and random translation-like parts for SO3 / SE3 / SE_2(3) / SGal(3), as the code does —
   in any order, on a pair of elements), the
   bound eps does not depend on the length of the history, and every element satisfying the invariant passes
   the constructors' run-time assertion | |rotation part| - 1 | < eps (so no history raises in an
   assertion-enabled build).  Averaging iterations are sequences of such steps (rminus / += with arbitrary
   tangents).  IEEE rounding is outside these theorems: it is monitored on the double / float builds
   (assertion-enabled and NDEBUG) by long random walks on every run of the check. *)
From Coq Require Import Reals ZArith List Lra.
From Manif Require Import Scalar Mat Group RInst Generic Algorithms Hist SO2 SE2 SO3 SE3 SE23 SGal3 Rn HistProofs HistInst.
Import ListNotations.
Local Open Scope R_scope.

(* the renormalisation polynomial: x * approxSqrtInv(x)^2 - 1 is cubic in x - 1 *)
Theorem C08_renorm_cubic d : (1 + d) * (asi (1 + d) * asi (1 + d)) - 1 = d * d * d * (5 / 8 - 15 / 64 * d + 9 / 64 * (d * d)).
Proof. exact (renorm_cubic d). Qed.

(* any group with a NormCore: every history (explicit list of steps, any length) keeps both elements within the
   invariant and accepted by the constructors *)
Theorem C08_history (G : GroupOps RS) cast eps (N : NormCore G cast eps) ts us (ops : list (Z * nat)) X Y :
  Forall (nc_twf N) ts -> Forall (nc_draw N) ts -> nc_inv N X -> nc_inv N Y ->
  let st := fold_left (fun st o => hstep G cast ts us st (fst o) (snd o)) ops (X, Y) in
  nc_inv N (fst st) /\ nc_inv N (snd st) /\ g_assert_ok G (fst st) = true /\ g_assert_ok G (snd st) = true.
Proof. exact (history_inv G cast eps N ts us ops X Y). Qed.
Print Assumptions C08_history.

(* the encoded histories the implementation is compared with on every run are such histories *)
Theorem C08_history_encoded (G : GroupOps RS) cast eps (N : NormCore G cast eps) fuel ts us code s X Y :
  Forall (nc_twf N) ts -> Forall (nc_draw N) ts -> nc_inv N X -> nc_inv N Y ->
  nc_inv N (fst (hrun G cast fuel ts us code s (X, Y))) /\ nc_inv N (snd (hrun G cast fuel ts us code s (X, Y))).
Proof. exact (hrun_inv G cast eps N fuel ts us code s X Y). Qed.

(* the per-group instances: compose (kept or renormalised), inverse, exp, log shape, cast, acceptance *)
Theorem C08_SO2 eps : 0 < eps -> eps <= 1 / 8 -> NormCore (SO2 RS eps) (so2_cast RS) eps.
Proof. exact (SO2_norm eps). Qed.
Theorem C08_SE2 eps : 0 < eps -> eps <= 1 / 8 -> NormCore (SE2 RS eps) (se2_cast RS) eps.
Proof. exact (SE2_norm eps). Qed.
Theorem C08_SO3 eps : 0 < eps -> eps <= 1 / 8 -> NormCore (SO3 RS eps) (so3_cast RS) eps.
Proof. exact (SO3_norm eps). Qed.
Theorem C08_SE3 eps : 0 < eps -> eps <= 1 / 8 -> NormCore (SE3 RS eps) (se3_cast RS) eps.
Proof. exact (SE3_norm eps). Qed.
Theorem C08_SE23 eps : 0 < eps -> eps <= 1 / 8 -> NormCore (SE23 RS eps) (se23_cast RS) eps.
Proof. exact (SE23_norm eps). Qed.
Theorem C08_SGal3 eps : 0 < eps -> eps <= 1 / 8 -> NormCore (SGal3 RS eps) (sg_cast RS) eps.
Proof. exact (SGal3_norm eps). Qed.
Theorem C08_Rn n eps : NormCore (Rn RS n) (fun c => c) eps.
Proof. exact (Rn_norm n eps). Qed.
Print Assumptions C08_SGal3.

(* the range condition on the draws Random() consumes (UnitRandom's first draw u1 in [0, 1]; none for SO2 / SE2 / Rn) *)
Theorem C08_SO3_draw_spelled eps (H1 : 0 < eps) (H2 : eps <= 1 / 8) u : nc_draw (SO3_norm eps H1 H2) u <-> 0 <= @vnth RS u 0 <= 1.
Proof. reflexivity. Qed.
Theorem C08_SE2_draw_spelled eps (H1 : 0 < eps) (H2 : eps <= 1 / 8) u : nc_draw (SE2_norm eps H1 H2) u <-> True.
Proof. reflexivity. Qed.

(* what the invariant says, spelled out for SO3 and SE2 (the records above are transparent) *)
Theorem C08_SO3_inv_spelled eps (H1 : 0 < eps) (H2 : eps <= 1 / 8) X :
  nc_inv (SO3_norm eps H1 H2) X <-> exists x y z w, X = [x; y; z; w] /\ Rabs (x * x + y * y + z * z + w * w - 1) <= eps.
Proof. reflexivity. Qed.
Theorem C08_SE2_inv_spelled eps (H1 : 0 < eps) (H2 : eps <= 1 / 8) X :
  nc_inv (SE2_norm eps H1 H2) X <-> exists x y r i, X = [x; y; r; i] /\ Rabs (r * r + i * i - 1) <= eps.
Proof. reflexivity. Qed.

(* non-vacuity: a non-unit quaternion inside the invariant, and one outside *)
Example C08_nonvacuous : Rabs ((3/5) * (3/5) + (4/5) * (4/5) + 0 * 0 + (1/100) * (1/100) - 1) <= 1 / 8 /\
                         ~ Rabs (1 * 1 + 1 * 1 + 0 * 0 + 0 * 0 - 1) <= 1 / 8.
Proof. split; [|intros H]; unfold Rabs in *; destruct (Rcase_abs _); lra. Qed.
