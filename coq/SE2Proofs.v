(* SE2Proofs.v — C01 for the SO2 and SE2 models at the real instance. *)
From Coq Require Import Reals ZArith List Lra.
From Manif Require Import Scalar Mat Consts Group RInst Tac Atan2 SO2 SE2 Generic LieSpec.
Import ListNotations.
Local Open Scope R_scope.

Section P.
Variable eps : R.
Hypothesis eps_pos : 0 < eps.

Lemma renorm2_unit re im : re * re + im * im = 1 -> renorm2 RS eps re im = (re, im).
Proof.
  intros H. unfold renorm2. mat_unfold. rewrite H.
  rewrite (renorm_test_unit eps eps_pos). reflexivity.
Qed.

Lemma unit_mul ar ai br bi : ar * ar + ai * ai = 1 -> br * br + bi * bi = 1 ->
  (ar * br - ai * bi) * (ar * br - ai * bi) + (ar * bi + ai * br) * (ar * bi + ai * br) = 1.
Proof.
  intros Ha Hb. replace (_ + _) with ((ar * ar + ai * ai) * (br * br + bi * bi)) by ring.
  rewrite Ha, Hb; ring.
Qed.

(* ------------------------------ SO2 ------------------------------ *)
Definition so2_valid (c : list R) : Prop := exists r i, c = [r; i] /\ r * r + i * i = 1.
Definition hom2 (p : list R) : list R := p ++ [1].

Lemma so2_rotation_valid r i : r * r + i * i = 1 -> so2_rotation RS [r; i] = [[r; - i]; [i; r]].
Proof.
  intros H. unfold so2_rotation, so2_angle, so2_real, so2_imag. mat_unfold.
  destruct (atan2_unit i r H) as [-> ->]. reflexivity.
Qed.
Lemma so2_transform_valid r i : r * r + i * i = 1 ->
  so2_transform RS [r; i] = [[r; - i; 0]; [i; r; 0]; [0; 0; 1]].
Proof. intros H. unfold so2_transform. rewrite (so2_rotation_valid _ _ H). reflexivity. Qed.

Lemma so2_compose_valid_eq ar ai br bi : ar * ar + ai * ai = 1 -> br * br + bi * bi = 1 ->
  so2_compose RS eps [ar; ai] [br; bi] = [ar * br - ai * bi; ar * bi + ai * br].
Proof.
  intros Ha Hb. unfold so2_compose, so2_real, so2_imag. mat_unfold.
  rewrite (renorm2_unit _ _ (unit_mul _ _ _ _ Ha Hb)). reflexivity.
Qed.

Lemma so2_identity_eq : g_identity (SO2 RS eps) = [1; 0].
Proof. unfold g_identity. cbn. unfold so2_exp, so2t_angle. mat_unfold. rewrite cos_0, sin_0. reflexivity. Qed.

Definition SO2_core : GroupCore (SO2 RS eps).
Proof.
  refine (mkCore _ so2_valid hom2 (fun _ => hom2) _ _ _ _ _ _ _ _ _ _ _); cbn [g_compose g_inverse g_transform g_act g_tra g_actdim SO2].
  - intros X Y (ar & ai & -> & Ha) (br & bi & -> & Hb). rewrite so2_compose_valid_eq by assumption.
    eexists _, _; split; [reflexivity|]. apply unit_mul; assumption.
  - intros X (r & i & -> & H). unfold so2_inverse, so2_real, so2_imag; mat_unfold.
    eexists _, _; split; [reflexivity|]. rewrite <- H; ring.
  - rewrite so2_identity_eq. exists 1, 0; split; [reflexivity|ring].
  - intros X Y (ar & ai & -> & Ha) (br & bi & -> & Hb). rewrite so2_compose_valid_eq by assumption.
    rewrite !so2_transform_valid by (try apply unit_mul; assumption). mat_unfold. list_eq; ring.
  - rewrite so2_identity_eq, so2_transform_valid by ring. mat_unfold. list_eq; ring.
  - intros X p (r & i & -> & H) Hp.
    destruct p as [|px [|py [|? ?]]]; try discriminate Hp.
    unfold so2_act. rewrite so2_transform_valid, so2_rotation_valid by assumption.
    unfold hom2. mat_unfold. list_eq; ring.
  - intros X Y Z (ar & ai & -> & Ha) (br & bi & -> & Hb) (cr & ci & -> & Hc).
    rewrite !so2_compose_valid_eq by assumption.
    rewrite !so2_compose_valid_eq by (try apply unit_mul; assumption). list_eq; ring.
  - intros X (r & i & -> & H). rewrite so2_identity_eq, so2_compose_valid_eq by (try assumption; ring). list_eq; ring.
  - intros X (r & i & -> & H). rewrite so2_identity_eq, so2_compose_valid_eq by (try assumption; ring). list_eq; ring.
  - intros X (r & i & -> & H). rewrite so2_identity_eq. unfold so2_inverse, so2_real, so2_imag; mat_unfold.
    rewrite so2_compose_valid_eq by (try assumption; rewrite <- H; ring). list_eq; ring1 H.
  - intros X (r & i & -> & H). rewrite so2_identity_eq. unfold so2_inverse, so2_real, so2_imag; mat_unfold.
    rewrite so2_compose_valid_eq by (try assumption; rewrite <- H; ring). list_eq; ring1 H.
Defined.

(* ------------------------------ SE2 ------------------------------ *)
Definition se2_valid (c : list R) : Prop :=
  exists x y r i, c = [x; y; r; i] /\ r * r + i * i = 1.

Lemma se2_compose_valid_eq ax ay ar ai bx by_ br bi : ar * ar + ai * ai = 1 -> br * br + bi * bi = 1 ->
  se2_compose RS eps [ax; ay; ar; ai] [bx; by_; br; bi] =
  [ar * bx - ai * by_ + ax; ai * bx + ar * by_ + ay; ar * br - ai * bi; ar * bi + ai * br].
Proof.
  intros Ha Hb. unfold se2_compose, se2_real, se2_imag, se2_x, se2_y. mat_unfold.
  rewrite (renorm2_unit _ _ (unit_mul _ _ _ _ Ha Hb)). reflexivity.
Qed.

Lemma se2_inverse_valid_eq x y r i : r * r + i * i = 1 ->
  se2_inverse RS [x; y; r; i] = [- x * r - y * i; x * i - y * r; r; - i].
Proof.
  intros H. reflexivity.
Qed.

Lemma se2_identity_eq : g_identity (SE2 RS eps) = [0; 0; 1; 0].
Proof.
  unfold g_identity. cbn. unfold se2_exp, se2_AB. mat_unfold. rewrite cos_0, sin_0.
  replace (0 * 0) with 0 by ring. rewrite (Rltb_lt_true 0 eps) by lra. list_eq; ring.
Qed.

Definition SE2_core : GroupCore (SE2 RS eps).
Proof.
  refine (mkCore _ se2_valid hom2 (fun _ => hom2) _ _ _ _ _ _ _ _ _ _ _); cbn [g_compose g_inverse g_transform g_act g_tra g_actdim SE2].
  - intros X Y (ax & ay & ar & ai & -> & Ha) (bx & by_ & br & bi & -> & Hb).
    rewrite se2_compose_valid_eq by assumption.
    eexists _, _, _, _; split; [reflexivity|]. apply unit_mul; assumption.
  - intros X (x & y & r & i & -> & H). rewrite se2_inverse_valid_eq by assumption.
    eexists _, _, _, _; split; [reflexivity|]. rewrite <- H; ring.
  - rewrite se2_identity_eq. exists 0, 0, 1, 0; split; [reflexivity|ring].
  - intros X Y (ax & ay & ar & ai & -> & Ha) (bx & by_ & br & bi & -> & Hb).
    rewrite se2_compose_valid_eq by assumption.
    unfold se2_transform, se2_real, se2_imag, se2_x, se2_y. mat_unfold. list_eq; ring.
  - rewrite se2_identity_eq. unfold se2_transform, se2_real, se2_imag, se2_x, se2_y. mat_unfold. list_eq; ring.
  - intros X p (x & y & r & i & -> & H) Hp.
    destruct p as [|px [|py [|? ?]]]; try discriminate Hp.
    unfold se2_act, se2_transform, se2_translation, se2_rotation, se2_real, se2_imag, se2_x, se2_y, hom2.
    mat_unfold. list_eq; ring.
  - intros X Y Z (ax & ay & ar & ai & -> & Ha) (bx & by_ & br & bi & -> & Hb) (cx & cy & cr & ci & -> & Hc).
    rewrite !se2_compose_valid_eq by assumption.
    rewrite !se2_compose_valid_eq by (try apply unit_mul; assumption). list_eq; ring.
  - intros X (x & y & r & i & -> & H). rewrite se2_identity_eq, se2_compose_valid_eq by (try assumption; ring). list_eq; ring.
  - intros X (x & y & r & i & -> & H). rewrite se2_identity_eq, se2_compose_valid_eq by (try assumption; ring). list_eq; ring.
  - intros X (x & y & r & i & -> & H). rewrite se2_identity_eq, se2_inverse_valid_eq by assumption.
    rewrite se2_compose_valid_eq by (try assumption; rewrite <- H; ring). list_eq; ring1 H.
  - intros X (x & y & r & i & -> & H). rewrite se2_identity_eq, se2_inverse_valid_eq by assumption.
    rewrite se2_compose_valid_eq by (try assumption; rewrite <- H; ring). list_eq; ring1 H.
Defined.
End P.
