(* Generic.v — the CRTP bases LieGroupBase / TangentBase (lie_group_base.h,
   tangent_base.h), written once over a GroupOps record exactly as the C++ is
   written once over _Derived.  Optional Jacobian outputs are modelled by
   boolean request flags; a Jacobian is computed only when requested, under
   the same `if` structure as the code (lminus has distinct paths per subset). *)
From Coq Require Import ZArith List Bool.
Import ListNotations.
From Manif Require Import Scalar Mat Consts Group.

Section Generic.
Variable F : Sc.
Variable G : GroupOps F.
Local Notation vec := (list (K F)).
Local Notation mat := (list (list (K F))).

Definition t_zero : vec := vzero (g_dof G).
Definition g_identity : vec := g_exp G t_zero.            (* setIdentity: Tangent::Zero().exp() *)

Definition rplus (X t : vec) (ja jb : bool) : vec * option mat * option mat :=
  let Jt := if jb then Some (g_rjac G t) else None in
  let e := g_exp G t in
  (g_compose G X e, (if ja then Some (g_compose_Ja G X e) else None), Jt).

Definition lplus (X t : vec) (ja jb : bool) : vec * option mat * option mat :=
  let Jt := if jb then Some (mmul (g_adj G (g_inverse G X)) (g_rjac G t)) else None in
  let Jm := if ja then Some (mid (g_dof G)) else None in
  (g_compose G (g_exp G t) X, Jm, Jt).

Definition plus := rplus.

Definition rminus (X Y : vec) (ja jb : bool) : vec * option mat * option mat :=
  let t := g_log G (g_compose G (g_inverse G Y) X) in
  (t, (if ja then Some (g_rjacinv G t) else None),
      (if jb then Some (mneg (g_rjacinv G (vneg t))) else None)).

Definition lminus (X Y : vec) (ja jb : bool) : vec * option mat * option mat :=
  let t := g_log G (g_compose G X (g_inverse G Y)) in
  if ja then
    let Ja := mmul (g_rjacinv G t) (g_adj G Y) in
    (t, Some Ja, (if jb then Some (mneg Ja) else None))
  else if jb then (t, None, Some (mneg (mmul (g_rjacinv G t) (g_adj G Y))))
  else (t, None, None).

Definition minus := rminus.

Definition between (X Y : vec) (ja jb : bool) : vec * option mat * option mat :=
  let mc := g_compose G (g_inverse G X) Y in
  (mc, (if ja then Some (mneg (g_adj G (g_inverse G mc))) else None),
       (if jb then Some (mid (g_dof G)) else None)).

(* Eigen: DenseBase::isZero(prec): every |c| <= prec;  isApprox(other,prec):
   |a-b|^2 <= prec^2 * min(|a|^2,|b|^2) *)
Definition eigen_isZero (v : vec) (prec : K F) : bool := forallb (fun c => kleb (kabs c) prec) v.
Definition eigen_isApprox (a b : vec) (prec : K F) : bool :=
  kleb (sqnorm (vsub a b)) (kmul F (kmul F prec prec) (kmin (sqnorm a) (sqnorm b))).

(* TangentBase::isApprox *)
Definition t_isApprox (a b : vec) (e : K F) : bool :=
  if kltb F (kmin (ksqrt F (sqnorm a)) (ksqrt F (sqnorm b))) e
  then eigen_isZero (vsub a b) e
  else eigen_isApprox a b e.

(* LieGroupBase::isApprox: rminus(m).isApprox(Tangent::Zero(), eps) *)
Definition g_isApprox (X Y : vec) (e : K F) : bool :=
  let '(t, _, _) := rminus X Y false false in t_isApprox t t_zero e.

(* tangent plus / minus with their +-I Jacobians *)
Definition t_plus (a b : vec) (ja jb : bool) : vec * option mat * option mat :=
  (vadd a b, (if ja then Some (mid (g_dof G)) else None), (if jb then Some (mid (g_dof G)) else None)).
Definition t_minus (a b : vec) (ja jb : bool) : vec * option mat * option mat :=
  (vsub a b, (if ja then Some (mid (g_dof G)) else None),
             (if jb then Some (mscale_r (mid (g_dof G)) (kz (-1))) else None)).

Definition t_inner (a b : vec) : K F := dot a (mvmul (g_innerweights G) b).
Definition t_sqwnorm (a : vec) : K F := t_inner a a.
Definition t_wnorm (a : vec) : K F := ksqrt F (t_sqwnorm a).

(* setRandom on the group: Tangent::Random().exp() *)
Definition g_random (u : vec) : vec := g_grandom G u.          (* LieGroup::Random() *)

End Generic.

Arguments rplus {F}. Arguments lplus {F}. Arguments plus {F}. Arguments rminus {F}. Arguments lminus {F}.
Arguments minus {F}. Arguments between {F}. Arguments g_identity {F}. Arguments t_zero {F}.
Arguments eigen_isZero {F}. Arguments eigen_isApprox {F}. Arguments t_isApprox {F}. Arguments g_isApprox {F}.
Arguments t_plus {F}. Arguments t_minus {F}. Arguments t_inner {F}. Arguments t_sqwnorm {F}. Arguments t_wnorm {F}.
Arguments g_random {F}.
