(* Log_SE2.v — C03 for SO2 and SE2: log is the principal inverse of exp. *)
From Coq Require Import Reals ZArith List Lra Lia.
From Manif Require Import Scalar Mat Consts Group RInst Tac Atan2 SO2 SE2 Generic LieSpec SE2Proofs AlgTac.
Import ListNotations.
Local Open Scope R_scope.

Section P.
Variable eps : R.
Hypothesis eps_pos : 0 < eps.
Hypothesis eps_le : eps <= 1.

(* ---------------- SO2 ---------------- *)
Lemma so2_exp_log X : so2_valid X -> so2_exp RS (so2_log RS X) = X.
Proof.
  intros (r & i & -> & H). unfold so2_exp, so2_log, so2t_angle, so2_angle, so2_real, so2_imag. cbn [vnth nth K RS kcos ksin katan2].
  destruct (atan2_unit i r H) as [-> ->]. reflexivity.
Qed.
Lemma so2_log_exp th : - PI < th <= PI -> so2_log RS (so2_exp RS [th]) = [th].
Proof.
  intros Hth. unfold so2_exp, so2_log, so2t_angle, so2_angle, so2_real, so2_imag. cbn [vnth nth K RS kcos ksin katan2].
  rewrite (atan2_sin_cos th Hth). reflexivity.
Qed.
Lemma so2_log_range X : exists th, so2_log RS X = [th] /\ - PI < th <= PI.
Proof. eexists; split; [reflexivity|]. apply atan2_range. Qed.

(* ---------------- SE2 ---------------- *)
Lemma cos_lt_1_on th : - PI < th <= PI -> th <> 0 -> cos th < 1.
Proof.
  intros Hth Hne. pose proof PI_RGT_0 as Hpi.
  destruct (Rdichotomy _ _ Hne) as [Hn|Hp].
  - rewrite <- cos_neg, <- cos_0. apply cos_decreasing_1; lra.
  - rewrite <- cos_0. apply cos_decreasing_1; lra.
Qed.

(* the (A,B) pair of exp/log is never the zero pair on the principal range *)
Lemma se2_AB_nonzero th : - PI < th <= PI ->
  let '(A, B) := se2_AB RS eps th (cos th) (sin th) in A * A + B * B <> 0.
Proof.
  intros Hth. unfold se2_AB. cbn [K RS kmul kltb ksub kdiv].
  destruct (Rltb (th * th) eps) eqn:E.
  - apply Rltb_true in E. rcbv.
    assert (Ht : 0 <= th * th < 1) by nra. set (t := th * th) in *. clearbody t.
    set (B := 1 / 2 * th - _). clearbody B.
    set (A := 1 - _ * t).
    assert (HA : 1 / 2 < A) by (unfold A; nra). clearbody A.
    intros H0. nra.
  - apply Rltb_false in E. assert (Hne : th <> 0) by (intros ->; lra).
    pose proof (cos_lt_1_on th Hth Hne) as Hc. rcbv.
    intros H0.
    assert (Hq : (1 - cos th) / th * ((1 - cos th) / th) = 0).
    { pose proof (Rle_0_sqr (sin th / th)) as H1. pose proof (Rle_0_sqr ((1 - cos th) / th)) as H2. unfold Rsqr in H1, H2. lra. }
    apply AlgTac.sq0 in Hq. apply (Rmult_eq_compat_r th) in Hq. unfold Rdiv in Hq.
    rewrite Rmult_assoc, Rinv_l, Rmult_1_r, Rmult_0_l in Hq by exact Hne. lra.
Qed.

Lemma se2_log_exp x y th : - PI < th <= PI -> se2_log RS eps (se2_exp RS eps [x; y; th]) = [x; y; th].
Proof.
  intros Hth. pose proof (se2_AB_nonzero th Hth) as Hnz.
  unfold se2_log, se2_exp, se2_angle, se2_real, se2_imag, se2_x, se2_y. cbn [vnth nth K RS kcos ksin katan2].
  destruct (se2_AB RS eps th (cos th) (sin th)) as [A B] eqn:EAB.
  cbn [vnth nth K RS kcos ksin katan2 kadd ksub kmul kdiv kopp kz klit].
  rewrite (atan2_sin_cos th Hth). rewrite EAB.
  cbn [K RS kadd ksub kmul kdiv kopp kz klit]. list_eq; try reflexivity; field; exact Hnz.
Qed.

Lemma se2_exp_log X : se2_valid X -> se2_exp RS eps (se2_log RS eps X) = X.
Proof.
  intros (x & y & r & i & -> & H).
  pose proof (atan2_range i r) as Hr. pose proof (se2_AB_nonzero (atan2 i r) Hr) as Hnz.
  destruct (atan2_unit i r H) as [Hc Hs]. rewrite Hc, Hs in Hnz.
  unfold se2_log, se2_exp, se2_angle, se2_real, se2_imag, se2_x, se2_y. cbn [vnth nth K RS kcos ksin katan2].
  destruct (se2_AB RS eps (atan2 i r) r i) as [A B] eqn:EAB.
  cbn [vnth nth K RS kcos ksin katan2 kadd ksub kmul kdiv kopp kz klit].
  rewrite Hc, Hs, EAB. cbn [K RS kadd ksub kmul kdiv kopp kz klit]. list_eq; try reflexivity; field; exact Hnz.
Qed.
End P.
