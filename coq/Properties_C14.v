(* Properties_C14.v — property C14: the const API is safe to use concurrently.
   What a theorem can carry: the library's shared mutable state is its set of function-local `static const` caches.
   (a) the regenerated table of every variable with static storage duration / mutable field / const_cast in the library
       must satisfy all_const_after_init (obligation gen_ok in build/StaticsGen.v, re-checked by Coq on every run);
   (b) in the interleaving model of threads using write-once cells (Statics.v) — initialisation atomic with respect
       to other users, as C++11 guarantees for function-local statics (an assumption, named here) — every thread
       observes under EVERY schedule exactly what it observes alone, and no cell ever holds anything but its initial
       value.  Data races at the C++ memory-model level and anything inside Eigen cannot be exhibited by this model:
       that residue is covered by the ThreadSanitizer / plain stress runs of the check (support, not proof). *)
From Coq Require Import String List Bool Arith.
From Manif Require Import Statics.
Import ListNotations.

Theorem C14_schedule_independent (V : Type) (init : nat -> V) progs sched : state_ok V init progs (run V init progs sched).
Proof. exact (schedule_independent V init progs sched). Qed.
Theorem C14_finished_thread_result (V : Type) (init : nat -> V) progs sched i t p :
  nth_error (snd (run V init progs sched)) i = Some t -> nth_error progs i = Some p -> fst t = [] -> rev (snd t) = map init p.
Proof. exact (finished_thread_result V init progs sched i t p). Qed.
(* spelled out: the cells *)
Theorem C14_no_write_after_init (V : Type) (init : nat -> V) progs sched c :
  fst (run V init progs sched) c = None \/ fst (run V init progs sched) c = Some (init c).
Proof. exact (proj1 (schedule_independent V init progs sched) c). Qed.
Print Assumptions C14_schedule_independent.

(* the table predicate rejects what it must: a non-const local static, a mutable field, a const_cast *)
Example C14_predicate_rejects :
  all_const_after_init [mkStatic LocalStatic "Ei" "x.h" 1 false] = false /\
  all_const_after_init [mkStatic MutableField "cache_" "x.h" 2 true] = false /\
  all_const_after_init [mkStatic ConstCast "const_cast" "x.h" 3 true] = false /\
  all_const_after_init [mkStatic LocalStatic "t" "tangent_base.h" 733 true; mkStatic StaticMember "Dim" "x.h" 4 true] = true.
Proof. repeat split. Qed.
(* two threads, three uses, an adversarial schedule (with out-of-range and repeated indices): results as when alone *)
Example C14_example : let r := run nat (fun c => 10 * c) [[1; 2; 1]; [2; 1]] [1; 0; 7; 0; 1; 1; 0; 0] in
  map (fun t => rev (snd t)) (snd r) = [[10; 20; 10]; [20; 10]].
Proof. vm_compute. reflexivity. Qed.
