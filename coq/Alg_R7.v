(* Alg_R7.v — AlgLaws (AlgSpec.v, property C07) for the R7 model at the real instance; one lemma per field. *)
From Coq Require Import Reals ZArith List Lra Lia.
From Manif Require Import Scalar Mat Consts Group RInst Tac SO2 SE2 SO3 SE3 SE23 SGal3 Rn Generic LieSpec AlgSpec RnProofs AlgTac.
Import ListNotations.
Local Open Scope R_scope.
Ltac Zify.zify_post_hook ::= Z.div_mod_to_equations.
Lemma R7_gen_ok : forall i, (i < g_dof (Rn RS 7))%nat -> g_generator (Rn RS 7) (Z.of_nat i) = Ok (g_hat (Rn RS 7) (@unitv RS (g_dof (Rn RS 7)) i)).
Proof. gen_ok. Qed.
Lemma R7_gen_oob : forall i, int_range i -> (i < 0 \/ Z.of_nat (g_dof (Rn RS 7)) <= i)%Z -> g_generator (Rn RS 7) i = InvalidArgument.
Proof. gen_oob. Qed.
Lemma R7_hat_gen : forall t, length t = g_dof (Rn RS 7) -> g_hat (Rn RS 7) t = lincomb (g_dof (Rn RS 7)) (g_alg (Rn RS 7)) t (fun i => g_hat (Rn RS 7) (@unitv RS (g_dof (Rn RS 7)) i)).
Proof. intros t Ht; destruct_len t Ht; rcbv; list_eq; ring. Qed.
Lemma R7_hat_linear : forall a b c, length a = g_dof (Rn RS 7) -> length b = g_dof (Rn RS 7) -> g_hat (Rn RS 7) (@vadd RS a (@vscale RS c b)) = @madd RS (g_hat (Rn RS 7) a) (@mscale RS c (g_hat (Rn RS 7) b)).
Proof. intros a b c Ha Hb; destruct_len a Ha; destruct_len b Hb; rcbv; list_eq; ring. Qed.
Lemma R7_vee_hat : forall t, length t = g_dof (Rn RS 7) -> g_vee (Rn RS 7) (g_hat (Rn RS 7) t) = t.
Proof. intros t Ht; destruct_len t Ht; rcbv; list_eq; ring. Qed.
Lemma R7_bracket : forall a b, length a = g_dof (Rn RS 7) -> length b = g_dof (Rn RS 7) -> g_hat (Rn RS 7) (g_bracket (Rn RS 7) a b) = commutator (g_hat (Rn RS 7) a) (g_hat (Rn RS 7) b).
Proof. intros a b Ha Hb; destruct_len a Ha; destruct_len b Hb; rcbv; list_eq; ring. Qed.
Lemma R7_bracket_len : forall a b, length a = g_dof (Rn RS 7) -> length b = g_dof (Rn RS 7) -> length (g_bracket (Rn RS 7) a b) = g_dof (Rn RS 7).
Proof. intros a b Ha Hb; destruct_len a Ha; destruct_len b Hb; reflexivity. Qed.
Lemma R7_antisym : forall a b, length a = g_dof (Rn RS 7) -> length b = g_dof (Rn RS 7) -> g_bracket (Rn RS 7) a b = @vneg RS (g_bracket (Rn RS 7) b a).
Proof. intros a b Ha Hb; destruct_len a Ha; destruct_len b Hb; rcbv; list_eq; ring. Qed.
Lemma R7_linear_l : forall a b c d, length a = g_dof (Rn RS 7) -> length b = g_dof (Rn RS 7) -> length d = g_dof (Rn RS 7) -> g_bracket (Rn RS 7) (@vadd RS a (@vscale RS c b)) d = @vadd RS (g_bracket (Rn RS 7) a d) (@vscale RS c (g_bracket (Rn RS 7) b d)).
Proof. intros a b c d Ha Hb Hd; destruct_len a Ha; destruct_len b Hb; destruct_len d Hd; rcbv; list_eq; ring. Qed.
Lemma R7_jacobi : forall a b c, length a = g_dof (Rn RS 7) -> length b = g_dof (Rn RS 7) -> length c = g_dof (Rn RS 7) -> @vadd RS (@vadd RS (g_bracket (Rn RS 7) a (g_bracket (Rn RS 7) b c)) (g_bracket (Rn RS 7) b (g_bracket (Rn RS 7) c a))) (g_bracket (Rn RS 7) c (g_bracket (Rn RS 7) a b)) = @vzero RS (g_dof (Rn RS 7)).
Proof. intros a b c Ha Hb Hc; destruct_len a Ha; destruct_len b Hb; destruct_len c Hc; rcbv; list_eq; ring. Qed.
Lemma R7_inner_frob : forall a b, length a = g_dof (Rn RS 7) -> length b = g_dof (Rn RS 7) -> t_inner (Rn RS 7) a b = @trace RS (@mmul RS (g_hat (Rn RS 7) a) (@mT RS (g_hat (Rn RS 7) b))).
Proof. intros a b Ha Hb; destruct_len a Ha; destruct_len b Hb; rcbv; match goal with |- @eq _ ?x ?y => change (@eq R x y) end; ring. Qed.
Lemma R7_w_sym : @mT RS (g_innerweights (Rn RS 7)) = g_innerweights (Rn RS 7).
Proof. rcbv; list_eq; ring. Qed.
Lemma R7_w_pos : forall t, length t = g_dof (Rn RS 7) -> 0 <= t_inner (Rn RS 7) t t.
Proof. intros t Ht; destruct_len t Ht; rcbv; nra. Qed.
Lemma R7_w_def : forall t, length t = g_dof (Rn RS 7) -> t_inner (Rn RS 7) t t = 0 -> t = @vzero RS (g_dof (Rn RS 7)).
Proof. intros t Ht; destruct_len t Ht; rcbv; intros H0; list_eq; apply sq0; nra. Qed.
Lemma R7_wnorm : forall t, length t = g_dof (Rn RS 7) -> t_wnorm (Rn RS 7) t * t_wnorm (Rn RS 7) t = t_sqwnorm (Rn RS 7) t.
Proof. intros t Ht; unfold t_wnorm; cbn [ksqrt RS]; apply sqrt_sqrt; unfold t_sqwnorm; destruct_len t Ht; rcbv; nra. Qed.
Lemma R7_alg : AlgLaws (Rn RS 7).
Proof.
  constructor; [apply R7_gen_ok | apply R7_gen_oob | apply R7_hat_gen | apply R7_hat_linear | apply R7_vee_hat | apply R7_bracket | apply R7_bracket_len | apply R7_antisym | apply R7_linear_l | apply R7_jacobi | apply R7_inner_frob | apply R7_w_sym | apply R7_w_pos | apply R7_w_def | apply R7_wnorm].
Qed.
