(* Alg_SO3.v — AlgLaws (AlgSpec.v, property C07) for the SO3 model at the real instance; one lemma per field. *)
From Coq Require Import Reals ZArith List Lra Lia.
From Manif Require Import Scalar Mat Consts Group RInst Tac SO2 SE2 SO3 SE3 SE23 SGal3 Rn Generic LieSpec AlgSpec RnProofs AlgTac.
Import ListNotations.
Local Open Scope R_scope.
Ltac Zify.zify_post_hook ::= Z.div_mod_to_equations.
Lemma SO3_gen_ok eps : forall i, (i < g_dof (SO3 RS eps))%nat -> g_generator (SO3 RS eps) (Z.of_nat i) = Ok (g_hat (SO3 RS eps) (@unitv RS (g_dof (SO3 RS eps)) i)).
Proof. gen_ok. Qed.
Lemma SO3_gen_oob eps : forall i, int_range i -> (i < 0 \/ Z.of_nat (g_dof (SO3 RS eps)) <= i)%Z -> g_generator (SO3 RS eps) i = InvalidArgument.
Proof. gen_oob. Qed.
Lemma SO3_hat_gen eps : forall t, length t = g_dof (SO3 RS eps) -> g_hat (SO3 RS eps) t = lincomb (g_dof (SO3 RS eps)) (g_alg (SO3 RS eps)) t (fun i => g_hat (SO3 RS eps) (@unitv RS (g_dof (SO3 RS eps)) i)).
Proof. intros t Ht; destruct_len t Ht; rcbv; list_eq; ring. Qed.
Lemma SO3_hat_linear eps : forall a b c, length a = g_dof (SO3 RS eps) -> length b = g_dof (SO3 RS eps) -> g_hat (SO3 RS eps) (@vadd RS a (@vscale RS c b)) = @madd RS (g_hat (SO3 RS eps) a) (@mscale RS c (g_hat (SO3 RS eps) b)).
Proof. intros a b c Ha Hb; destruct_len a Ha; destruct_len b Hb; rcbv; list_eq; ring. Qed.
Lemma SO3_vee_hat eps : forall t, length t = g_dof (SO3 RS eps) -> g_vee (SO3 RS eps) (g_hat (SO3 RS eps) t) = t.
Proof. intros t Ht; destruct_len t Ht; rcbv; list_eq; ring. Qed.
Lemma SO3_bracket eps : forall a b, length a = g_dof (SO3 RS eps) -> length b = g_dof (SO3 RS eps) -> g_hat (SO3 RS eps) (g_bracket (SO3 RS eps) a b) = commutator (g_hat (SO3 RS eps) a) (g_hat (SO3 RS eps) b).
Proof. intros a b Ha Hb; destruct_len a Ha; destruct_len b Hb; rcbv; list_eq; ring. Qed.
Lemma SO3_bracket_len eps : forall a b, length a = g_dof (SO3 RS eps) -> length b = g_dof (SO3 RS eps) -> length (g_bracket (SO3 RS eps) a b) = g_dof (SO3 RS eps).
Proof. intros a b Ha Hb; destruct_len a Ha; destruct_len b Hb; reflexivity. Qed.
Lemma SO3_antisym eps : forall a b, length a = g_dof (SO3 RS eps) -> length b = g_dof (SO3 RS eps) -> g_bracket (SO3 RS eps) a b = @vneg RS (g_bracket (SO3 RS eps) b a).
Proof. intros a b Ha Hb; destruct_len a Ha; destruct_len b Hb; rcbv; list_eq; ring. Qed.
Lemma SO3_linear_l eps : forall a b c d, length a = g_dof (SO3 RS eps) -> length b = g_dof (SO3 RS eps) -> length d = g_dof (SO3 RS eps) -> g_bracket (SO3 RS eps) (@vadd RS a (@vscale RS c b)) d = @vadd RS (g_bracket (SO3 RS eps) a d) (@vscale RS c (g_bracket (SO3 RS eps) b d)).
Proof. intros a b c d Ha Hb Hd; destruct_len a Ha; destruct_len b Hb; destruct_len d Hd; rcbv; list_eq; ring. Qed.
Lemma SO3_jacobi eps : forall a b c, length a = g_dof (SO3 RS eps) -> length b = g_dof (SO3 RS eps) -> length c = g_dof (SO3 RS eps) -> @vadd RS (@vadd RS (g_bracket (SO3 RS eps) a (g_bracket (SO3 RS eps) b c)) (g_bracket (SO3 RS eps) b (g_bracket (SO3 RS eps) c a))) (g_bracket (SO3 RS eps) c (g_bracket (SO3 RS eps) a b)) = @vzero RS (g_dof (SO3 RS eps)).
Proof. intros a b c Ha Hb Hc; destruct_len a Ha; destruct_len b Hb; destruct_len c Hc; rcbv; list_eq; ring. Qed.
Lemma SO3_inner_frob eps : forall a b, length a = g_dof (SO3 RS eps) -> length b = g_dof (SO3 RS eps) -> t_inner (SO3 RS eps) a b = @trace RS (@mmul RS (g_hat (SO3 RS eps) a) (@mT RS (g_hat (SO3 RS eps) b))).
Proof. intros a b Ha Hb; destruct_len a Ha; destruct_len b Hb; rcbv; match goal with |- @eq _ ?x ?y => change (@eq R x y) end; ring. Qed.
Lemma SO3_w_sym eps : @mT RS (g_innerweights (SO3 RS eps)) = g_innerweights (SO3 RS eps).
Proof. rcbv; list_eq; ring. Qed.
Lemma SO3_w_pos eps : forall t, length t = g_dof (SO3 RS eps) -> 0 <= t_inner (SO3 RS eps) t t.
Proof. intros t Ht; destruct_len t Ht; rcbv; nra. Qed.
Lemma SO3_w_def eps : forall t, length t = g_dof (SO3 RS eps) -> t_inner (SO3 RS eps) t t = 0 -> t = @vzero RS (g_dof (SO3 RS eps)).
Proof. intros t Ht; destruct_len t Ht; rcbv; intros H0; list_eq; apply sq0; nra. Qed.
Lemma SO3_wnorm eps : forall t, length t = g_dof (SO3 RS eps) -> t_wnorm (SO3 RS eps) t * t_wnorm (SO3 RS eps) t = t_sqwnorm (SO3 RS eps) t.
Proof. intros t Ht; unfold t_wnorm; cbn [ksqrt RS]; apply sqrt_sqrt; unfold t_sqwnorm; destruct_len t Ht; rcbv; nra. Qed.
Lemma SO3_alg eps : AlgLaws (SO3 RS eps).
Proof.
  constructor; [apply SO3_gen_ok | apply SO3_gen_oob | apply SO3_hat_gen | apply SO3_hat_linear | apply SO3_vee_hat | apply SO3_bracket | apply SO3_bracket_len | apply SO3_antisym | apply SO3_linear_l | apply SO3_jacobi | apply SO3_inner_frob | apply SO3_w_sym | apply SO3_w_pos | apply SO3_w_def | apply SO3_wnorm].
Qed.
