// bundles.h — the bundle layouts instantiated by the harness (compile-time, so a fixed set). Layouts are chosen so that
// Dim, DoF, RepSize, transform size and algebra size differ from each other at every position (an offset table used in
// the wrong role cannot coincide with the right one), each group appears in first / middle / last position somewhere.
#pragma once
#include <manif/Bundle.h>
#if VQ_GROUPSET == 100
#define VQ_GROUPS X("B[SO2,SE3,R5,SGal3]", VQ_B<manif::SO2 VQ_C manif::SE3 VQ_C manif::R5 VQ_C manif::SGal3>)
#elif VQ_GROUPSET == 101
#define VQ_GROUPS X("B[R1,SO3,SE2]", VQ_B<manif::R1 VQ_C manif::SO3 VQ_C manif::SE2>)
#elif VQ_GROUPSET == 102
#define VQ_GROUPS X("B[SE23,R2,SO3]", VQ_B<manif::SE_2_3 VQ_C manif::R2 VQ_C manif::SO3>)
#elif VQ_GROUPSET == 103
#define VQ_GROUPS X("B[SGal3,SO2,SO2,SE23]", VQ_B<manif::SGal3 VQ_C manif::SO2 VQ_C manif::SO2 VQ_C manif::SE_2_3>)
#elif VQ_GROUPSET == 104
#define VQ_GROUPS X("B[SE2]", VQ_B<manif::SE2>) X("B[SE3,SE3]", VQ_B<manif::SE3 VQ_C manif::SE3>)
#elif VQ_GROUPSET == 105
#define VQ_GROUPS X("B[SO3,SGal3,R3,SE2,SE3]", VQ_B<manif::SO3 VQ_C manif::SGal3 VQ_C manif::R3 VQ_C manif::SE2 VQ_C manif::SE3>)
#endif
#define VQ_C ,
template<template<typename> class ... T> using VQ_B = manif::Bundle<S, T...>;

// P11 (property C11): every Bundle operation equals the same operation applied to each element (a standalone owning copy
// built from the element's coefficients) placed at that element's offset; Jacobians are block diagonal with exact zeros
// elsewhere; element<i>() aliases exactly the i-th element's coefficients.  Offsets are recomputed here from the element sizes.
template<class B> struct PredB {
  using S = typename B::Scalar; using T = typename B::Tangent; using J = typename B::Jacobian;
  using Dyn = Eigen::Matrix<S, Eigen::Dynamic, Eigen::Dynamic>;
  static constexpr int N = (int)B::BundleSize;
  struct Offs { int dim=0, dof=0, rep=0, tra=0, alg=0; };
  // expected results assembled element by element
  struct Acc { Dyn inv, invJ, logv, logJ, comp, compJa, compJb, actv, actJm, actJv, adj, tra, expv, expJ, hat, rjac, ljac, rjacinv, ljacinv, sadj, betw, rplus, rminus; std::vector<long> alias; };
  template<int I> static typename std::enable_if<(I>=N)>::type each(const B&, const B&, const T&, const typename B::Vector&, Offs, Acc&){}
  template<int I> static typename std::enable_if<(I<N)>::type each(const B& X, const B& Y, const T& t, const typename B::Vector& v, Offs o, Acc& a){
    using E = typename B::template Element<I>; using ET = typename E::Tangent; using EJ = typename E::Jacobian;
    const int dim=E::Dim, dof=E::DoF, rep=E::RepSize, tra=E::Transformation::RowsAtCompileTime, alg=ET::LieAlg::RowsAtCompileTime;
    E x(X.coeffs().template segment<E::RepSize>(o.rep)), y(Y.coeffs().template segment<E::RepSize>(o.rep));
    ET te(t.coeffs().template segment<E::DoF>(o.dof)); typename E::Vector ve = v.template segment<E::Dim>(o.dim);
    a.alias.push_back((long)(X.template element<I>().coeffs().data() - X.coeffs().data()) - (long)o.rep);
    a.alias.push_back((X.template element<I>().coeffs() - x.coeffs()).squaredNorm()==S(0) ? 0 : 1);
    EJ j1, j2; Eigen::Matrix<S,E::Dim,E::DoF> jm; Eigen::Matrix<S,E::Dim,E::Dim> jv;
    a.inv.block(o.rep,0,rep,1) = x.inverse(j1).coeffs(); a.invJ.block(o.dof,o.dof,dof,dof) = j1;
    a.logv.block(o.dof,0,dof,1) = x.log(j1).coeffs(); a.logJ.block(o.dof,o.dof,dof,dof) = j1;
    a.comp.block(o.rep,0,rep,1) = x.compose(y,j1,j2).coeffs(); a.compJa.block(o.dof,o.dof,dof,dof) = j1; a.compJb.block(o.dof,o.dof,dof,dof) = j2;
    a.actv.block(o.dim,0,dim,1) = x.act(ve,jm,jv); a.actJm.block(o.dim,o.dof,dim,dof) = jm; a.actJv.block(o.dim,o.dim,dim,dim) = jv;
    a.adj.block(o.dof,o.dof,dof,dof) = x.adj(); a.tra.block(o.tra,o.tra,tra,tra) = x.transform();
    a.expv.block(o.rep,0,rep,1) = te.exp(j1).coeffs(); a.expJ.block(o.dof,o.dof,dof,dof) = j1;
    a.hat.block(o.alg,o.alg,alg,alg) = te.hat();
    a.rjac.block(o.dof,o.dof,dof,dof) = te.rjac(); a.ljac.block(o.dof,o.dof,dof,dof) = te.ljac();
    a.rjacinv.block(o.dof,o.dof,dof,dof) = te.rjacinv(); a.ljacinv.block(o.dof,o.dof,dof,dof) = te.ljacinv();
    a.sadj.block(o.dof,o.dof,dof,dof) = te.smallAdj();
    a.betw.block(o.rep,0,rep,1) = x.between(y).coeffs(); a.rplus.block(o.rep,0,rep,1) = x.rplus(te).coeffs(); a.rminus.block(o.dof,0,dof,1) = x.rminus(y).coeffs();
    o.dim+=dim; o.dof+=dof; o.rep+=rep; o.tra+=tra; o.alg+=alg;
    each<I+1>(X,Y,t,v,o,a);
  }
  static bool run(const Case& c, Out<S>& out){
    if(c.op!="P11") return false;
    using DG = typename B::DataType; using DT = typename T::DataType;
    B X(vec_from<S,DG>(c.args[0])), Y(vec_from<S,DG>(c.args[1])); T t(vec_from<S,DT>(c.args[2])); typename B::Vector v = vec_from<S,typename B::Vector>(c.args[3]);
    const int dim=B::Dim, dof=B::DoF, rep=B::RepSize, tra=B::Transformation::RowsAtCompileTime, alg=T::LieAlg::RowsAtCompileTime;
    Acc a; a.inv=a.comp=a.expv=a.betw=a.rplus=Dyn::Zero(rep,1); a.logv=a.rminus=Dyn::Zero(dof,1); a.actv=Dyn::Zero(dim,1);
    a.invJ=a.logJ=a.compJa=a.compJb=a.adj=a.expJ=a.rjac=a.ljac=a.rjacinv=a.ljacinv=a.sadj=Dyn::Zero(dof,dof);
    a.actJm=Dyn::Zero(dim,dof); a.actJv=Dyn::Zero(dim,dim); a.tra=Dyn::Zero(tra,tra); a.hat=Dyn::Zero(alg,alg);
    each<0>(X,Y,t,v,Offs(),a);
    J j1, j2; Eigen::Matrix<S,B::Dim,B::DoF> jm; Eigen::Matrix<S,B::Dim,B::Dim> jv;
    // sentinel-filled outputs: the operation must write the whole matrix (zeros included)
    auto fill=[&](J& m){ for(int i=0;i<m.rows();i++) for(int k=0;k<m.cols();k++) m(i,k)=S(777+i*31+k); };
    fill(j1); out.mat(X.inverse(j1).coeffs()); out.mat(a.inv); out.mat(j1); out.mat(a.invJ);
    fill(j1); out.mat(X.log(j1).coeffs()); out.mat(a.logv); out.mat(j1); out.mat(a.logJ);
    fill(j1); fill(j2); out.mat(X.compose(Y,j1,j2).coeffs()); out.mat(a.comp); out.mat(j1); out.mat(a.compJa); out.mat(j2); out.mat(a.compJb);
    for(int i=0;i<jm.rows();i++) for(int k=0;k<jm.cols();k++) jm(i,k)=S(555); for(int i=0;i<jv.rows();i++) for(int k=0;k<jv.cols();k++) jv(i,k)=S(444);
    out.mat(X.act(v,jm,jv)); out.mat(a.actv); out.mat(jm); out.mat(a.actJm); out.mat(jv); out.mat(a.actJv);
    out.mat(X.adj()); out.mat(a.adj); out.mat(X.transform()); out.mat(a.tra);
    fill(j1); out.mat(t.exp(j1).coeffs()); out.mat(a.expv); out.mat(j1); out.mat(a.expJ);
    out.mat(t.hat()); out.mat(a.hat);
    out.mat(t.rjac()); out.mat(a.rjac); out.mat(t.ljac()); out.mat(a.ljac); out.mat(t.rjacinv()); out.mat(a.rjacinv); out.mat(t.ljacinv()); out.mat(a.ljacinv);
    out.mat(t.smallAdj()); out.mat(a.sadj);
    out.mat(X.between(Y).coeffs()); out.mat(a.betw); out.mat(X.rplus(t).coeffs()); out.mat(a.rplus); out.mat(X.rminus(Y).coeffs()); out.mat(a.rminus);
    { Dyn al(a.alias.size(),1), z = Dyn::Zero(a.alias.size(),1); for(size_t i=0;i<a.alias.size();i++) al(i,0)=S((int)a.alias[i]); out.mat(al); out.mat(z); }
    { // Vee(hat) and the generators: hat(t) = sum_i t_i Generator(i)
      typename T::LieAlg H = t.hat(), sum = T::LieAlg::Zero(); for(int i=0;i<dof;i++) sum += t.coeffs()(i)*T::Generator(i);
      out.mat(H); out.mat(sum); out.mat(T::Vee(H).coeffs()); out.mat(t.coeffs()); }
    return true;
  }
};
