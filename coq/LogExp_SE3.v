(* LogExp_SE3.v — property C03 for SE3: log(exp t) = t for every tangent with rotation angle below pi, on the generic
   branches (eps < theta^2, eps < sin^2(theta/2)).  The rotation part is LogExp_SO3; the translation part is
   V^-1 (V rho) = rho with V = ljac, V^-1 = ljacinv (JacInv_SO3: two-sided inverse wherever sin theta <> 0). *)
From Coq Require Import Reals ZArith List Lra Psatz.
From Manif Require Import Scalar Mat Consts Group RInst Tac Atan2 SO3 SE3 Generic LieSpec SO3Proofs Log_SO3 JacInv_SO3 Log_SE3 LogExp_SO3.
Import ListNotations.
Local Open Scope R_scope.

Section P.
Variable eps : R.
Hypothesis eps_pos : 0 < eps.

Lemma mid3_mvmul a b c : @mvmul RS (@mid RS 3) [a; b; c] = [a; b; c].
Proof. mat_unfold. match goal with |- @eq _ ?u ?v => change (@eq (list R) u v) end. list_eq; ring. Qed.

Theorem se3_log_exp_generic a b c x y z :
  let n := x * x + y * y + z * z in let th := sqrt n in
  eps < n -> th < PI -> eps < sin (th / 2) * sin (th / 2) ->
  se3_log RS eps (se3_exp RS eps [a; b; c; x; y; z]) = [a; b; c; x; y; z].
Proof.
  cbv zeta. intros Hgt Hpi Hsin.
  pose proof (so3_log_exp_generic eps eps_pos x y z Hgt Hpi Hsin) as HL.
  set (n := x * x + y * y + z * z) in *. set (th := sqrt n) in *.
  assert (Hn : 0 < n) by lra. assert (Hth : 0 < th) by (apply sqrt_lt_R0; exact Hn).
  assert (HS : sin th <> 0) by (apply Rgt_not_eq; apply sin_gt_0; lra).
  destruct (so3_ljac_ljacinv eps eps_pos x y z Hgt HS) as [_ Hinv].
  unfold se3_exp, se3_log, se3t_ang, se3t_lin. cbn [skipn firstn]. cbn [K RS].
  assert (Hq : exists q0 q1 q2 q3, so3_exp RS eps [x; y; z] = [q0; q1; q2; q3]).
  { unfold so3_exp. destruct (kgtb _ _); [|do 4 eexists; reflexivity].
    unfold quat_of_angle_axis, eigen_normalized. destruct (kgtb _ _); do 4 eexists; reflexivity. }
  destruct Hq as (q0 & q1 & q2 & q3 & Eq). rewrite Eq in HL |- *.
  assert (Hm : exists p0 p1 p2, @mvmul RS (so3_ljac RS eps [x; y; z]) [a; b; c] = [p0; p1; p2]).
  { rewrite (so3_ljac_poly eps x y z Hgt). cbv zeta. unfold poly3. mat_unfold. do 3 eexists. reflexivity. }
  destruct Hm as (p0 & p1 & p2 & Ep). rewrite Ep.
  unfold se3_q, se3_t. cbn [app vslice skipn firstn]. rewrite HL. rewrite <- Ep.
  rewrite mvmul_mmul3.
  - rewrite Hinv. rewrite mid3_mvmul. reflexivity.
  - rewrite (so3_ljacinv_poly eps x y z Hgt). cbv zeta. unfold poly3. mat_unfold. do 9 eexists. reflexivity.
  - rewrite (so3_ljac_poly eps x y z Hgt). cbv zeta. unfold poly3. mat_unfold. do 9 eexists. reflexivity.
  - do 3 eexists. reflexivity.
Qed.
End P.
