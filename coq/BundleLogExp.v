(* BundleLogExp.v — C03 for Bundles, the other direction: log(exp t) = t lifts from the element groups to a Bundle of any
   layout (BundleLaws.bundle_log_exp); instance: the layout [SO3; R3; SE3] with every rotation below pi on the closed-form
   branches of exp and log. *)
From Coq Require Import Reals List Lia Lra.
From Manif Require Import Scalar Mat Group RInst Generic LieSpec Bundle BundleProofs BundleLaws BundleInst
  SO3 SE3 Rn LogExp_SO3 LogExp_SE3.
Import ListNotations.
Local Open Scope R_scope.

Section Inst.
Variable eps : R.
Hypothesis eps_pos : 0 < eps.

Definition rot_ok (x y z : R) : Prop :=
  eps < x * x + y * y + z * z /\ sqrt (x * x + y * y + z * z) < PI /\
  eps < sin (sqrt (x * x + y * y + z * z) / 2) * sin (sqrt (x * x + y * y + z * z) / 2).

Definition L3 : list (GroupOps RS) := [SO3 RS eps; Rn RS 3; SE3 RS eps].
Definition D3 (i : nat) (t : list R) : Prop :=
  match i with
  | 0%nat => exists x y z, t = [x; y; z] /\ rot_ok x y z
  | 1%nat => exists a b c, t = [a; b; c]
  | _ => exists a b c x y z, t = [a; b; c; x; y; z] /\ rot_ok x y z
  end.
(* the elements reached: exp of such a tangent *)
Definition V3 (i : nat) (X : list R) : Prop := exists t, D3 i t /\ X = g_exp (nth i L3 (Rn RS 3)) t.

Lemma D3_size i t : (i < length L3)%nat -> D3 i t -> length t = g_dof (nth i L3 (Rn RS 3)).
Proof.
  intros Hi H. destruct i as [|[|[|i]]]; [| | |cbn in Hi; lia]; cbn in H.
  - destruct H as (x & y & z & -> & _). reflexivity.
  - destruct H as (a & b & c & ->). reflexivity.
  - destruct H as (a & b & c & x & y & z & -> & _). reflexivity.
Qed.

Lemma E3_log_exp i t : (i < length L3)%nat -> D3 i t -> g_log (nth i L3 (Rn RS 3)) (g_exp (nth i L3 (Rn RS 3)) t) = t.
Proof.
  intros Hi H. destruct i as [|[|[|i]]]; [| | |cbn in Hi; lia]; cbn in H.
  - destruct H as (x & y & z & -> & H1 & H2 & H3). exact (so3_log_exp_generic eps eps_pos x y z H1 H2 H3).
  - reflexivity.
  - destruct H as (a & b & c & x & y & z & -> & H1 & H2 & H3). exact (se3_log_exp_generic eps eps_pos a b c x y z H1 H2 H3).
Qed.

Lemma V3_logsize i X : (i < length L3)%nat -> V3 i X -> length (g_log (nth i L3 (Rn RS 3)) X) = g_dof (nth i L3 (Rn RS 3)).
Proof.
  intros Hi (t & Ht & ->). rewrite (E3_log_exp i t Hi Ht). apply D3_size; assumption.
Qed.

Lemma V3_size i X : (i < length L3)%nat -> V3 i X -> length X = g_rep (nth i L3 (Rn RS 3)).
Proof.
  intros Hi (t & Ht & ->). destruct i as [|[|[|i]]]; [| | |cbn in Hi; lia]; cbn in Ht.
  - destruct Ht as (x & y & z & -> & _). cbn [nth L3 g_exp SO3 g_rep]. unfold so3_exp, quat_of_angle_axis, eigen_normalized.
    repeat match goal with |- context [if ?b then _ else _] => destruct b end; reflexivity.
  - destruct Ht as (a & b & c & ->). reflexivity.
  - destruct Ht as (a & b & c & x & y & z & -> & _). cbn [nth L3 g_exp SE3 g_rep]. unfold se3_exp, so3_exp, so3_ljac, quat_of_angle_axis, eigen_normalized, se3t_ang, se3t_lin. cbn [firstn skipn].
    repeat match goal with |- context [if ?b then _ else _] => destruct b end; reflexivity.
Qed.

Theorem bundle3_log_exp ts : tangent_parts RS L3 D3 ts -> g_log (Bundle L3) (g_exp (Bundle L3) (concat ts)) = concat ts.
Proof.
  apply (bundle_log_exp RS L3 (Rn RS 3) V3 V3_size D3 D3_size).
  - intros i t Hi Ht. exists t. split; [exact Ht|reflexivity].
  - exact V3_logsize.
  - exact E3_log_exp.
Qed.
End Inst.
