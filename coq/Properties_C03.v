(* Properties_C03.v — property C03: log is the principal inverse of exp.  Closed so far (exact over the reals):
   SO2 and SE2 — exp(log X) = X for every valid X (any hemisphere of the complex number, any translation),
   log(exp t) = t for every tangent with rotation in (-pi, pi] (both the Taylor and the generic branch of
   SE2's V matrix: only A^2+B^2 <> 0 is needed), and the rotation angle of log is in (-pi, pi];
   Rn (log and exp are the identity).  SO3 / SE3 / SE_2(3) / SGal(3): tested on every run (100-digit and
   double), including q / -q pairs and elements with w < 0 and a tiny vector part (the defect repaired by
   fix edde36d); not proved. *)
From Coq Require Import Reals List Lra.
From Manif Require Import Scalar Mat Group RInst Generic LieSpec SO2 SE2 SO3 Rn SE2Proofs SO3Proofs RnProofs Log_SE2 Approx_Inst SE3 Log_SO3 Log_SE3.
Import ListNotations.
Local Open Scope R_scope.

Theorem C03_SO2_exp_log X : so2_valid X -> so2_exp RS (so2_log RS X) = X.
Proof. exact (so2_exp_log X). Qed.
Theorem C03_SO2_log_exp th : - PI < th <= PI -> so2_log RS (so2_exp RS [th]) = [th].
Proof. exact (so2_log_exp th). Qed.
Theorem C03_SO2_log_range X : exists th, so2_log RS X = [th] /\ - PI < th <= PI.
Proof. exact (so2_log_range X). Qed.
Print Assumptions C03_SO2_log_exp.

Theorem C03_SE2_exp_log eps X : 0 < eps -> eps <= 1 -> se2_valid X -> se2_exp RS eps (se2_log RS eps X) = X.
Proof. intros H1 H2. exact (se2_exp_log eps H1 H2 X). Qed.
Theorem C03_SE2_log_exp eps x y th : 0 < eps -> eps <= 1 -> - PI < th <= PI ->
  se2_log RS eps (se2_exp RS eps [x; y; th]) = [x; y; th].
Proof. intros H1 H2. exact (se2_log_exp eps H1 H2 x y th). Qed.
Print Assumptions C03_SE2_log_exp.

Theorem C03_Rn n t : rn_log RS (rn_exp RS t) = t /\ rn_exp RS (rn_log RS t) = t /\ g_log (Rn RS n) t = t.
Proof. repeat split. Qed.

(* two coefficient vectors of one rotation (q and -q) have the same logarithm: any quaternion, both branches of
   SO3::log, off the exact half turn w = 0 (where the rotation has two principal logarithms); the SE3-family logs
   are functions of this one and of the other coefficients, which q -> -q does not touch *)
Theorem C03_SO3_log_double_cover eps x y z w : 0 < eps -> w <> 0 ->
  so3_log RS eps [- x; - y; - z; - w] = so3_log RS eps [x; y; z; w].
Proof. intros H. exact (so3_log_neg eps H x y z w). Qed.
Theorem C03_SO3_log_conj eps x y z w : so3_log RS eps [- x; - y; - z; w] = @vneg RS (so3_log RS eps [x; y; z; w]).
Proof. exact (so3_log_conj eps x y z w). Qed.
Print Assumptions C03_SO3_log_double_cover.

(* SO3, generic branch (vector part of the quaternion with squared norm above eps), BOTH hemispheres: exp(log q) is q when
   w >= 0 and -q when w < 0, i.e. the same rotation; and the rotation angle of the logarithm is at most pi *)
Theorem C03_SO3_exp_log_generic eps x y z w : 0 < eps -> n4 x y z w = 1 -> eps < x * x + y * y + z * z ->
  so3_exp RS eps (so3_log RS eps [x; y; z; w]) = if Rlt_dec w 0 then [- x; - y; - z; - w] else [x; y; z; w].
Proof. intros H. exact (so3_exp_log_generic eps H x y z w). Qed.
Theorem C03_SO3_exp_log_rotation eps x y z w : 0 < eps -> n4 x y z w = 1 -> eps < x * x + y * y + z * z ->
  so3_rotation RS (so3_exp RS eps (so3_log RS eps [x; y; z; w])) = so3_rotation RS [x; y; z; w].
Proof. intros H. exact (so3_exp_log_rotation eps H x y z w). Qed.
Theorem C03_SO3_log_angle_le_pi eps x y z w : 0 < eps -> n4 x y z w = 1 -> eps < x * x + y * y + z * z ->
  @sqnorm RS (so3_log RS eps [x; y; z; w]) <= PI * PI.
Proof. intros H. exact (so3_log_angle_le_pi eps H x y z w). Qed.
(* SE3, generic branch, off the exact half turn (where the code's V^-1 divides by sin(theta) = 0): the translation is recovered exactly *)
Theorem C03_SE3_exp_log_generic eps tx ty tz x y z w : 0 < eps -> n4 x y z w = 1 -> eps < x * x + y * y + z * z -> w <> 0 ->
  se3_exp RS eps (se3_log RS eps [tx; ty; tz; x; y; z; w]) = [tx; ty; tz] ++ (if Rlt_dec w 0 then [- x; - y; - z; - w] else [x; y; z; w]).
Proof. intros H. exact (se3_exp_log_generic eps H tx ty tz x y z w). Qed.
Print Assumptions C03_SE3_exp_log_generic.

Example C03_nonvacuous : se2_valid [1000000; -3; -3/5; 4/5] /\ - PI < 1 <= PI.
Proof. split; [exists 1000000, (-3), (-3/5), (4/5); split; [reflexivity|lra] | pose proof PI2_1; pose proof PI_RGT_0; lra]. Qed.
