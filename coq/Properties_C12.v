(* Properties_C12.v — property C12: generic in the scalar — dual numbers differentiate every operation correctly.
   The scalar-generic model instantiated at DS S (Dual.v) IS the model of manif over a dual-number scalar.
   Closed: (i) primal transparency of the scalar layer, for any base scalar: every operation and every comparison of
   DS S acts on primal parts exactly as S does, literals have zero dual part (so every branch taken, and every primal
   value computed, by any model function over DS S is the one taken / computed over S); (ii) over the reals each lifted
   operation carries the derivative, and by induction forward mode is sound for every expression over the scalar
   operations under the side conditions that make it differentiable (C12_forward_mode_sound).
   (iii) by parametricity (Paramcoq's abstraction theorem for the model's entry point run_op, generated, axiom-free:
   ParamBase / ParamDual / ParamRun): for EVERY group (bundles of any layout), EVERY opcode, mask, index and argument list the
   dual-number run returns the same error as, or is entry by entry related to, the run of the same program over functions of
   the perturbation size h (arithmetic pointwise, comparisons decided at h = 0): primal part = value at 0, dual part =
   derivative at 0 whenever the entry's side conditions hold (no division by zero, sqrt away from 0, acos inside (-1, 1),
   atan2 away from its cut and from x = 0); the function run read at 0 is the real-number run (so the primal parts of the
   whole dual run are the real-number results), and with comparisons decided at h it is the real-number run at the perturbed
   arguments.  (iv) the chain closed for one operation, SE2 exp on both branches (ParamSE2): the dual parts ARE the
   derivatives of the real-number exp along the seeded direction, for theta^2 <> eps.
   Partial: for the other operations the two remaining steps of (iv) — discharging the side conditions and the local agreement
   of the function run with the true function of h (the comparisons an operation makes come out the same near h = 0) — are
   not closed in general (they fail exactly on branch boundaries, where forward mode differentiates the branch taken);
   "dual derivative = analytic Jacobian" for every operation is evaluated on the implementation on every run (exactly over
   dual rationals against the model's DS instance, and in double). *)
From Coq Require Import Reals ZArith List Lra.
From Coquelicot Require Import Coquelicot.
From Manif Require Import Scalar RInst Dual DualProofs ParamBase ParamDual Mat Consts Group SO2 SE2 Run ParamRun ParamSE2 ParamChain SO3 SE3 Jr_SO3 Jr_SE3 ParamSO3 ParamGen ParamJac SE23 SGal3 Jr_SE23 ParamSE23.
Import ListNotations.
Local Open Scope R_scope.

Theorem C12_primal_arith (S : Sc) x y :
  fst (kadd (DS S) x y) = kadd S (fst x) (fst y) /\ fst (ksub (DS S) x y) = ksub S (fst x) (fst y) /\
  fst (kmul (DS S) x y) = kmul S (fst x) (fst y) /\ fst (kdiv (DS S) x y) = kdiv S (fst x) (fst y) /\
  fst (kopp (DS S) x) = kopp S (fst x).
Proof. repeat split. Qed.
Theorem C12_primal_compare (S : Sc) x y : kltb (DS S) x y = kltb S (fst x) (fst y).
Proof. exact (primal_ltb S x y). Qed.
Theorem C12_primal_functions (S : Sc) x y :
  fst (ksin (DS S) x) = ksin S (fst x) /\ fst (kcos (DS S) x) = kcos S (fst x) /\ fst (ksqrt (DS S) x) = ksqrt S (fst x) /\
  fst (kacos (DS S) x) = kacos S (fst x) /\ fst (katan2 (DS S) y x) = katan2 S (fst y) (fst x).
Proof. repeat split. Qed.
Theorem C12_primal_literals (S : Sc) n d : klit (DS S) n d = (klit S n d, k0 S).
Proof. reflexivity. Qed.
Theorem C12_primal_abs_min (S : Sc) x y : fst (@kabs (DS S) x) = @kabs S (fst x) /\ fst (@kmin (DS S) x y) = @kmin S (fst x) (fst y).
Proof. split; [exact (primal_abs S x)|exact (primal_min S x y)]. Qed.

Theorem C12_tracks_mul f g x y : tracks f x -> tracks g y -> tracks (fun s => f s * g s) (kmul (DS RS) x y).
Proof. exact (tracks_mul f g x y). Qed.
Theorem C12_tracks_div f g x y : tracks f x -> tracks g y -> fst y <> 0 -> tracks (fun s => f s / g s) (kdiv (DS RS) x y).
Proof. exact (tracks_div f g x y). Qed.
Theorem C12_tracks_sin f x : tracks f x -> tracks (fun s => sin (f s)) (ksin (DS RS) x).
Proof. exact (tracks_sin f x). Qed.
Theorem C12_tracks_cos f x : tracks f x -> tracks (fun s => cos (f s)) (kcos (DS RS) x).
Proof. exact (tracks_cos f x). Qed.
Theorem C12_tracks_sqrt f x : tracks f x -> 0 < fst x -> tracks (fun s => sqrt (f s)) (ksqrt (DS RS) x).
Proof. exact (tracks_sqrt f x). Qed.

(* forward mode: value and directional derivative of any expression over + - * / sin cos sqrt *)
Theorem C12_forward_mode_sound (e : expr) (x dx : list R) : length x = length dx -> defined x e ->
  eval RS (fun c => c) (line x dx 0) e = fst (eval (DS RS) (fun c => (c, 0)) (dual_env x dx) e) /\
  is_derive (fun s => eval RS (fun c => c) (line x dx s) e) 0 (snd (eval (DS RS) (fun c => (c, 0)) (dual_env x dx) e)).
Proof. exact (forward_mode_sound e x dx). Qed.
Print Assumptions C12_forward_mode_sound.

(* non-vacuity: d/ds [ sqrt((2+s)*(2+s) + 5) / (cos(2+s) + 3) ] at 0 is computed by evaluation over dual numbers *)
Example C12_example : defined [2] (EDiv (ESqrt (EAdd (EMul (EVar 0) (EVar 0)) (EConst 5))) (EAdd (ECos (EVar 0)) (EConst 3))).
Proof. cbn. repeat split; try lra. pose proof (COS_bound 2). lra. Qed.

(* ---- parametricity: every operation of the model at once ---- *)
Theorem C12_every_operation_dual_tracks (eps : R) g op mask z (args1 : list (list (R * R))) (args2 : list (list fk)) :
  Forall2 (Forall2 trk) args1 args2 ->
  same_result (Forall2 (Forall2 trk)) (@run_op (DS RS) (eps, 0) g op mask z args1) (@run_op FS (fconst eps) g op mask z args2).
Proof. exact (run_op_dual_tracks eps g op mask z args1 args2). Qed.
Theorem C12_every_operation_dual_is_derivative (eps : R) g op mask z (x dx : list (list R)) :
  same_result (Forall2 (Forall2 trk)) (@run_op (DS RS) (eps, 0) g op mask z (seed x dx)) (@run_op FS (fconst eps) g op mask z (lineF x dx)).
Proof. exact (run_op_dual_is_derivative eps g op mask z x dx). Qed.
Theorem C12_every_operation_primal (eps : R) g op mask z (x dx : list (list R)) :
  same_result (Forall2 (Forall2 (fun (d : R * R) (r : R) => fst d = r)))
    (@run_op (DS RS) (eps, 0) g op mask z (seed x dx)) (@run_op RS eps g op mask z (at_h 0 x dx)).
Proof. exact (run_op_primal eps g op mask z x dx). Qed.
Theorem C12_function_run_at_h (h0 eps : R) g op mask z (x dx : list (list R)) :
  same_result (Forall2 (Forall2 (evh h0))) (@run_op (FSh h0) (fconst eps) g op mask z (lineF x dx)) (@run_op RS eps g op mask z (at_h h0 x dx)).
Proof. exact (run_op_fsh h0 eps g op mask z (lineF x dx) (at_h h0 x dx) (lineF_at_h h0 x dx)). Qed.
Theorem C12_SE2_exp_dual_is_derivative eps x y th dx dy dth j : 0 < eps -> th * th <> eps -> (j < 4)%nat ->
  is_derive (fun h => nth j (se2_exp RS eps [x + h * dx; y + h * dy; th + h * dth]) 0) 0
            (snd (nth j (se2_exp (DS RS) (eps, 0) [(x, dx); (y, dy); (th, dth)]) (0, 0))).
Proof. intros H. exact (se2_exp_dual_is_derivative eps x y th dx dy dth H j). Qed.
(* closing the chain for an operation: local (syntactic) agreement of the run with comparisons decided at h and at 0, plus the
   entry's side conditions, give: dual part = derivative of the REAL-NUMBER run's entry along the seeded direction *)
Theorem C12_chain (eps : R) g op mask z (x dx : list (list R)) outD i j :
  locally 0 (fun h => @run_op (FSh h) (fconst eps) g op mask z (lineF x dx) = @run_op FS (fconst eps) g op mask z (lineF x dx)) ->
  @run_op (DS RS) (eps, 0) g op mask z (seed x dx) = Ok outD -> (i < length outD)%nat -> (j < length (nth i outD []))%nat ->
  fok (entry (fconst 0) (@run_op FS (fconst eps) g op mask z (lineF x dx)) i j) ->
  is_derive (fun h => entry 0 (@run_op RS eps g op mask z (at_h h x dx)) i j) 0 (snd (nth j (nth i outD []) (0, 0))).
Proof. exact (run_op_chain eps g op mask z x dx outD i j). Qed.
Theorem C12_chain_SE2_exp eps x y th dx dy dth j : 0 < eps -> th * th <> eps -> (j < 4)%nat ->
  is_derive (fun h => entry 0 (@run_op RS eps GSE2 OExp [] 0%Z (at_h h [[x; y; th]] [[dx; dy; dth]])) 0 j) 0
    (snd (entry (0, 0) (@run_op (DS RS) (eps, 0) GSE2 OExp [] 0%Z (seed [[x; y; th]] [[dx; dy; dth]])) 0 j)).
Proof. exact (chain_SE2_exp eps x y th dx dy dth j). Qed.
Theorem C12_chain_SE2_act eps tx ty c s px py dtx dty dc ds dpx dpy j : (j < 2)%nat ->
  is_derive (fun h => entry 0 (@run_op RS eps GSE2 OAct [] 0%Z (at_h h [[tx; ty; c; s]; [px; py]] [[dtx; dty; dc; ds]; [dpx; dpy]])) 0 j) 0
    (snd (entry (0, 0) (@run_op (DS RS) (eps, 0) GSE2 OAct [] 0%Z (seed [[tx; ty; c; s]; [px; py]] [[dtx; dty; dc; ds]; [dpx; dpy]])) 0 j)).
Proof. exact (chain_SE2_act eps tx ty c s px py dtx dty dc ds dpx dpy j). Qed.
Theorem C12_chain_SO2_log eps re im dre dim : (0 < re \/ (re < 0 /\ im <> 0)) ->
  is_derive (fun h => entry 0 (@run_op RS eps GSO2 OLog [] 0%Z (at_h h [[re; im]] [[dre; dim]])) 0 0) 0
    (snd (entry (0, 0) (@run_op (DS RS) (eps, 0) GSO2 OLog [] 0%Z (seed [[re; im]] [[dre; dim]])) 0 0)).
Proof. exact (chain_SO2_log eps re im dre dim). Qed.
Theorem C12_chain_SE2_log eps x y re im dx dy dre dim j : 0 < eps -> (0 < re \/ (re < 0 /\ im <> 0)) ->
  eps < atan2 im re * atan2 im re -> (j < 3)%nat ->
  is_derive (fun h => entry 0 (@run_op RS eps GSE2 OLog [] 0%Z (at_h h [[x; y; re; im]] [[dx; dy; dre; dim]])) 0 j) 0
    (snd (entry (0, 0) (@run_op (DS RS) (eps, 0) GSE2 OLog [] 0%Z (seed [[x; y; re; im]] [[dx; dy; dre; dim]])) 0 j)).
Proof. exact (chain_SE2_log eps x y re im dx dy dre dim j). Qed.
Theorem C12_chain_SO3_exp eps x y z dx dy dz j : 0 < eps -> x * x + y * y + z * z <> eps -> (j < 4)%nat ->
  is_derive (fun h => entry 0 (@run_op RS eps GSO3 OExp [] 0%Z (at_h h [[x; y; z]] [[dx; dy; dz]])) 0 j) 0
    (snd (entry (0, 0) (@run_op (DS RS) (eps, 0) GSO3 OExp [] 0%Z (seed [[x; y; z]] [[dx; dy; dz]])) 0 j)).
Proof. exact (chain_SO3_exp eps x y z dx dy dz j). Qed.
Theorem C12_chain_SO3_log eps x y z w dx dy dz dw j : 0 < eps -> eps < x * x + y * y + z * z -> 0 < w -> (j < 3)%nat ->
  is_derive (fun h => entry 0 (@run_op RS eps GSO3 OLog [] 0%Z (at_h h [[x; y; z; w]] [[dx; dy; dz; dw]])) 0 j) 0
    (snd (entry (0, 0) (@run_op (DS RS) (eps, 0) GSO3 OLog [] 0%Z (seed [[x; y; z; w]] [[dx; dy; dz; dw]])) 0 j)).
Proof. exact (chain_SO3_log eps x y z w dx dy dz dw j). Qed.
Theorem C12_chain_SE3_exp eps a b c x y z da db dc dx dy dz j : 0 < eps -> x * x + y * y + z * z <> eps -> (j < 7)%nat ->
  is_derive (fun h => entry 0 (@run_op RS eps GSE3 OExp [] 0%Z (at_h h [[a; b; c; x; y; z]] [[da; db; dc; dx; dy; dz]])) 0 j) 0
    (snd (entry (0, 0) (@run_op (DS RS) (eps, 0) GSE3 OExp [] 0%Z (seed [[a; b; c; x; y; z]] [[da; db; dc; dx; dy; dz]])) 0 j)).
Proof. exact (chain_SE3_exp eps a b c x y z da db dc dx dy dz j). Qed.
(* "the dual parts reproduce the analytic Jacobian" as a theorem: the translation of SE3's exp (C12 chain + C05) *)
Theorem C12_SE3_exp_dual_is_analytic_jacobian eps a b c x y z da db dc dx dy dz i : 0 < eps -> eps < x * x + y * y + z * z -> (i < 3)%nat ->
  snd (entry (0, 0) (@run_op (DS RS) (eps, 0) GSE3 OExp [] 0%Z (seed [[a; b; c; x; y; z]] [[da; db; dc; dx; dy; dz]])) 0 i) =
  nth i (@mvmul RS (so3_rotation RS (so3_exp RS eps [x; y; z])) (rjac_lin eps a b c x y z da db dc dx dy dz)) 0.
Proof. exact (se3_exp_dual_is_analytic eps a b c x y z da db dc dx dy dz i). Qed.
(* the chain for ANY function over the scalar record, given its abstraction theorem (one Paramcoq command) *)
Theorem C12_chain_generic (f : forall F : Sc, K F -> list (K F) -> list (K F))
  (f_R : forall (F1 F2 : Sc) (FR : Sc_R F1 F2) (e1 : K F1) (e2 : K F2), K_R F1 F2 FR e1 e2 ->
     forall (a1 : list (K F1)) (a2 : list (K F2)), list_R (K F1) (K F2) (K_R F1 F2 FR) a1 a2 ->
     list_R (K F1) (K F2) (K_R F1 F2 FR) (f F1 e1 a1) (f F2 e2 a2)) (eps : R) (x dx : list R) j :
  locally 0 (fun h => f (FSh h) (fconst eps) (linev x dx) = f FS (fconst eps) (linev x dx)) ->
  (j < length (f (DS RS) (eps, 0%R) (seedv x dx)))%nat ->
  fok (nth j (f FS (fconst eps) (linev x dx)) (fconst 0)) ->
  is_derive (fun h => nth j (f RS eps (atv h x dx)) 0) 0 (snd (nth j (f (DS RS) (eps, 0%R) (seedv x dx)) (0%R, 0%R))).
Proof. exact (chain_generic f f_R eps x dx j). Qed.
(* SO3: every entry of the rotation matrix of exp(t + eps d) over dual numbers has dual part (R(exp t) hat(rjac(t) d))_ij *)
Theorem C12_SO3_exp_dual_is_analytic_jacobian eps x y z dx dy dz i j : 0 < eps -> eps < x * x + y * y + z * z -> (i < 3)%nat -> (j < 3)%nat ->
  snd (nth (3 * i + j) (rotexp (DS RS) (eps, 0) (seedv [x; y; z] [dx; dy; dz])) (0, 0)) =
  @mnth RS (@Mat.mmul RS (so3_rotation RS (so3_exp RS eps [x; y; z])) (@skew3 RS (rjac_d eps x y z dx dy dz))) i j.
Proof. exact (so3_exp_dual_is_analytic eps x y z dx dy dz i j). Qed.
(* SE2: the dual parts of exp(t + eps d) are X * hat(rjac(t) d) *)
Theorem C12_SE2_exp_dual_is_analytic_jacobian eps x y th dx dy dth : 0 < eps -> eps < th * th ->
  let u := @mvmul RS (se2_rjac RS eps [x; y; th]) [dx; dy; dth] in
  let u1 := nth 0 u 0 in let u2 := nth 1 u 0 in let u3 := nth 2 u 0 in
  let D j := snd (entry (0, 0) (@run_op (DS RS) (eps, 0) GSE2 OExp [] 0%Z (seed [[x; y; th]] [[dx; dy; dth]])) 0 j) in
  D 0%nat = cos th * u1 - sin th * u2 /\ D 1%nat = sin th * u1 + cos th * u2 /\ D 2%nat = - sin th * u3 /\ D 3%nat = cos th * u3.
Proof. exact (se2_exp_dual_is_analytic eps x y th dx dy dth). Qed.
(* SE_2(3): translation and velocity of exp(t + eps d); SGal(3): the chain for all 11 coefficients of exp *)
Theorem C12_SE23_exp_dual_is_analytic_jacobian eps a b c x y z d e f da db dc dx dy dz dd de df i : 0 < eps -> eps < x * x + y * y + z * z -> (i < 3)%nat ->
  let t := [[a; b; c; x; y; z; d; e; f]] in let dt := [[da; db; dc; dx; dy; dz; dd; de; df]] in
  let R := so3_rotation RS (so3_exp RS eps [x; y; z]) in
  let u := rjac23 eps a b c x y z d e f da db dc dx dy dz dd de df in
  snd (entry (0, 0) (@run_op (DS RS) (eps, 0) GSE23 OExp [] 0%Z (seed t dt)) 0 i) = nth i (@mvmul RS R (firstn 3 u)) 0 /\
  snd (entry (0, 0) (@run_op (DS RS) (eps, 0) GSE23 OExp [] 0%Z (seed t dt)) 0 (7 + i)) = nth i (@mvmul RS R (skipn 6 u)) 0.
Proof. exact (se23_exp_dual_is_analytic eps a b c x y z d e f da db dc dx dy dz dd de df i). Qed.
Theorem C12_chain_SGal3_exp eps a b c d e f x y z tau da db dc dd de df dx dy dz dtau j : 0 < eps -> eps < x * x + y * y + z * z -> (j < 11)%nat ->
  let t := [[a; b; c; d; e; f; x; y; z; tau]] in let dt := [[da; db; dc; dd; de; df; dx; dy; dz; dtau]] in
  is_derive (fun h => entry 0 (@run_op RS eps GSGal3 OExp [] 0%Z (at_h h t dt)) 0 j) 0
    (snd (entry (0, 0) (@run_op (DS RS) (eps, 0) GSGal3 OExp [] 0%Z (seed t dt)) 0 j)).
Proof. exact (chain_SGal3_exp eps a b c d e f x y z tau da db dc dd de df dx dy dz dtau j). Qed.
Print Assumptions C12_SO3_exp_dual_is_analytic_jacobian.
Print Assumptions C12_SE3_exp_dual_is_analytic_jacobian.
Print Assumptions C12_every_operation_dual_is_derivative.
Print Assumptions C12_SE2_exp_dual_is_derivative.
(* what the relation says about one entry *)
Example C12_trk_reading d f : trk d f -> fn f 0 = fst d /\ (fok f -> is_derive (fn f) 0 (snd d)).
Proof. intros H. exact H. Qed.
(* non-vacuity: SO2 compose over dual numbers, seeded in the first argument: the run succeeds and every side condition holds
   wherever no renormalisation division by zero occurs; here the simplest case, the identity of R3 translated *)
Example C12_seed_line : Forall2 (Forall2 trk) (seed [[1; 2]] [[3; 4]]) (lineF [[1; 2]] [[3; 4]]).
Proof. exact (seed_line_related [[1; 2]] [[3; 4]]). Qed.
