(* Statics.v — property C14: the library's only shared mutable state is its set of function-local `static const`
   objects (lazily initialised caches: Identity, Zero, generators, inner weights, constant Jacobians).
   (1) the table type of the regenerated scan (tools/statics_scan.py -> build/StaticsGen.v) and the predicate the
       scan must satisfy: every variable with static storage duration is const (or constexpr), there is no `mutable`
       field and no const_cast in the library;
   (2) a small-step interleaving model of threads using such cells — each cell is written once, atomically with
       respect to other users (what C++11 [stmt.dcl] guarantees for function-local statics: an assumption, visible
       here as the atomicity of `use`), with a value that does not depend on other mutable state — and the theorem
       that every thread observes, under EVERY schedule, exactly what it observes when run alone. *)
From Coq Require Import String List Bool Arith Lia.
Import ListNotations.

Inductive static_kind := LocalStatic | StaticMember | NamespaceScope | MutableField | ConstCast.
Record static_decl := mkStatic { sd_kind : static_kind; sd_name : string; sd_file : string; sd_line : nat; sd_const : bool }.

Definition decl_ok (d : static_decl) : bool :=
  match sd_kind d with
  | LocalStatic | StaticMember | NamespaceScope => sd_const d
  | MutableField | ConstCast => false
  end.
Definition all_const_after_init (l : list static_decl) : bool := forallb decl_ok l.

(* ---- the interleaving model ---- *)
Section Threads.
Variable V : Type.
Variable init : nat -> V.          (* the value cell c is initialised with: a function of the cell only *)

Definition cells := nat -> option V.
Definition empty : cells := fun _ => None.
(* a use of cell c: initialise it if needed (atomically), return its value *)
Definition use (s : cells) (c : nat) : cells * V :=
  match s c with
  | Some v => (s, v)
  | None => ((fun c' => if Nat.eqb c' c then Some (init c) else s c'), init c)
  end.

(* thread state: remaining program (cells still to use) and the values observed so far (most recent first) *)
Definition tstate := (list nat * list V)%type.
Definition step_thread (s : cells) (t : tstate) : cells * tstate :=
  match fst t with
  | [] => (s, t)
  | c :: rest => let '(s', v) := use s c in (s', (rest, v :: snd t))
  end.
Fixpoint update {A} (l : list A) (i : nat) (x : A) : list A :=
  match l, i with
  | [], _ => []
  | _ :: l', O => x :: l'
  | a :: l', S i' => a :: update l' i' x
  end.
(* one scheduling decision: thread i (if it exists) performs its next use *)
Definition step (st : cells * list tstate) (i : nat) : cells * list tstate :=
  match nth_error (snd st) i with
  | None => st
  | Some t => let '(s', t') := step_thread (fst st) t in (s', update (snd st) i t')
  end.
Definition run (progs : list (list nat)) (sched : list nat) : cells * list tstate :=
  fold_left step sched (empty, map (fun p => (p, [])) progs).

(* invariants: every cell is uninitialised or holds its initial value; every thread has observed exactly the initial
   values of the cells it has used so far *)
Definition cells_ok (s : cells) : Prop := forall c, s c = None \/ s c = Some (init c).
Definition thread_ok (prog : list nat) (t : tstate) : Prop :=
  exists done, prog = done ++ fst t /\ snd t = rev (map init done).

Lemma use_ok s c : cells_ok s -> cells_ok (fst (use s c)) /\ snd (use s c) = init c.
Proof.
  intros H. unfold use. destruct (H c) as [E|E]; rewrite E; cbn [fst snd]; split; try reflexivity; try exact H.
  intros c'. destruct (Nat.eqb c' c) eqn:Ec; [apply Nat.eqb_eq in Ec; subst; right; reflexivity|apply H].
Qed.
Lemma step_thread_ok s prog t : cells_ok s -> thread_ok prog t ->
  cells_ok (fst (step_thread s t)) /\ thread_ok prog (snd (step_thread s t)).
Proof.
  intros Hs (done & Hp & Ho). unfold step_thread. destruct t as [[|c rest] obs]; cbn [fst snd] in *.
  - split; [exact Hs|]. exists done. split; assumption.
  - destruct (use_ok s c Hs) as [Hs' Hv]. destruct (use s c) as [s' v]. cbn [fst snd] in *. subst v. split; [exact Hs'|].
    exists (done ++ [c]). split; [rewrite <- app_assoc; exact Hp|]. cbn [snd]. rewrite map_app, rev_app_distr. cbn. rewrite Ho. reflexivity.
Qed.

Lemma Forall2_update {A B} (R : A -> B -> Prop) la lb i x : Forall2 R la lb -> (forall b, nth_error lb i = Some b -> R (nth i la x) b -> True) ->
  forall a', (forall b, nth_error lb i = Some b -> R a' b) -> Forall2 R (update la i a') lb.
Proof.
  intros H _. revert i. induction H as [|a b la lb Hab H IH]; intros i a' Ha; [constructor|].
  destruct i as [|i]; cbn [update].
  - constructor; [apply Ha; reflexivity|exact H].
  - constructor; [exact Hab|]. apply IH. intros b' Hb'. apply Ha. exact Hb'.
Qed.
Lemma Forall2_nth_error {A B} (R : A -> B -> Prop) la lb i a : Forall2 R la lb -> nth_error la i = Some a -> exists b, nth_error lb i = Some b /\ R a b.
Proof.
  intros H. revert i. induction H as [|x y la lb Hxy H IH]; intros i Hi; [destruct i; discriminate|].
  destruct i as [|i]; cbn in *; [inversion Hi; subst; eauto|apply IH; exact Hi].
Qed.

Definition state_ok (progs : list (list nat)) (st : cells * list tstate) : Prop :=
  cells_ok (fst st) /\ Forall2 (fun t p => thread_ok p t) (snd st) progs.

Lemma step_ok progs st i : state_ok progs st -> state_ok progs (step st i).
Proof.
  intros [Hs Ht]. unfold step. destruct (nth_error (snd st) i) as [t|] eqn:E; [|split; assumption].
  destruct (Forall2_nth_error _ _ _ i t Ht E) as (p & Hp & Htp).
  destruct (step_thread_ok (fst st) p t Hs Htp) as [Hs' Ht']. destruct (step_thread (fst st) t) as [s' t']. cbn [fst snd] in *.
  split; [exact Hs'|]. apply (Forall2_update _ _ _ i t Ht); [intros; exact I|]. intros b Hb. rewrite Hp in Hb. inversion Hb; subst. exact Ht'.
Qed.

(* under EVERY schedule: no cell ever holds anything but its initial value, and what each thread has observed is exactly
   the initial values of the cells it has used so far, in its own program order — i.e. what it observes when it runs alone *)
Theorem schedule_independent progs sched : state_ok progs (run progs sched).
Proof.
  unfold run. assert (H0 : state_ok progs (empty, map (fun p : list nat => (p, @nil V)) progs)).
  { split; [intros c; left; reflexivity|]. cbn [snd]. induction progs as [|p progs IH]; cbn; constructor; [|exact IH]. exists []. split; reflexivity. }
  revert H0. generalize (empty, map (fun p : list nat => (p, @nil V)) progs). induction sched as [|i sched IH]; intros st H; cbn [fold_left]; [exact H|].
  apply IH. apply step_ok. exact H.
Qed.

(* a thread that has finished has observed exactly the sequential result *)
Corollary finished_thread_result progs sched i t p : nth_error (snd (run progs sched)) i = Some t -> nth_error progs i = Some p ->
  fst t = [] -> rev (snd t) = map init p.
Proof.
  intros Ht Hp Hf. destruct (schedule_independent progs sched) as [_ H].
  destruct (Forall2_nth_error _ _ _ i t H Ht) as (p' & Hp' & Hok). destruct Hok as (done & Hd & Ho). rewrite Hp in Hp'. inversion Hp'; subst p'.
  rewrite Hf, app_nil_r, Ho, rev_involutive. reflexivity.
Qed.
End Threads.
