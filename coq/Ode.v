From Coq Require Import Reals Lra Lia.
From Coquelicot Require Import Coquelicot.
Local Open Scope R_scope.

Lemma sum_n_ext_R (a b : nat -> R) n : (forall k, a k = b k) -> sum_n a n = sum_n b n.
Proof. intros H. apply sum_n_ext. exact H. Qed.

Section OdeMatExp.
Variable p : nat.                       (* matrices are (S p) x (S p) *)
Definition mat := nat -> nat -> R.
Definition mmul (A B : mat) : mat := fun i j => sum_n (fun l => A i l * B l j) p.
Definition mid : mat := fun i j => if Nat.eqb i j then 1 else 0.
Fixpoint mpow (A : mat) (k : nat) : mat := match k with O => mid | S k => mmul A (mpow A k) end.

Lemma mmul_assoc A B C i j : mmul (mmul A B) C i j = mmul A (mmul B C) i j.
Proof.
  unfold mmul.
  transitivity (sum_n (fun l => sum_n (fun l0 => A i l0 * B l0 l * C l j) p) p).
  { apply sum_n_ext; intros l. rewrite <- (sum_n_mult_r (K:=R_Ring) (C l j)). apply sum_n_ext; intros. reflexivity. }
  rewrite sum_n_switch. apply sum_n_ext; intros l0.
  rewrite <- (sum_n_mult_l (K:=R_Ring) (A i l0)). apply sum_n_ext; intros l. unfold mult; simpl. ring.
Qed.

Lemma sum_n_single (f : nat -> R) i : (i <= p)%nat -> (forall l, l <> i -> f l = 0) -> sum_n f p = f i.
Proof.
  intros Hi Hz. revert Hi. generalize p as q. induction q as [|q IH]; intros Hi.
  - rewrite sum_O. f_equal; lia.
  - rewrite sum_Sn. destruct (Nat.eq_dec i (S q)) as [->|Hne].
    + rewrite (sum_n_ext_loc _ (fun _ => 0)). 2:{ intros n Hn. apply Hz. lia. }
      rewrite sum_n_const. unfold plus; simpl. ring.
    + rewrite IH by lia. rewrite (Hz (S q)) by lia. unfold plus; simpl; ring.
Qed.

Lemma mid_l A i j : (i <= p)%nat -> mmul mid A i j = A i j.
Proof.
  intros Hi. unfold mmul. rewrite (sum_n_single _ i Hi).
  - unfold mid. rewrite Nat.eqb_refl. ring.
  - intros l Hl. unfold mid. destruct (Nat.eqb_spec i l); [congruence|ring].
Qed.

Variable A : mat.
Variable G : R -> mat.
Hypothesis G0 : forall i j, (i <= p)%nat -> G 0 i j = mid i j.
Hypothesis Gd : forall s i j, is_derive (fun s => G s i j) s (mmul (G s) A i j).


Lemma mid_r B i j : (j <= p)%nat -> mmul B mid i j = B i j.
Proof.
  intros Hj. unfold mmul. rewrite (sum_n_single _ j Hj).
  - unfold mid. rewrite Nat.eqb_refl. ring.
  - intros l Hl. unfold mid. destruct (Nat.eqb_spec l j); [congruence|ring].
Qed.

Lemma Gdn k : forall s i j, (j <= p)%nat ->
   is_derive_n (fun s => G s i j) k s (mmul (G s) (mpow A k) i j)
   /\ Derive_n (fun s => G s i j) k s = mmul (G s) (mpow A k) i j.
Proof.
  induction k as [|k IH]; intros s i j Hj.
  - simpl. rewrite mid_r by exact Hj. split; reflexivity.
  - assert (D : is_derive (Derive_n (fun s => G s i j) k) s (mmul (G s) (mpow A (S k)) i j)).
    { apply is_derive_ext with (f := fun s => mmul (G s) (mpow A k) i j).
      { intros t. symmetry. apply IH. exact Hj. }
      unfold mmul at 1.
      replace (mmul (G s) (mpow A (S k)) i j) with (sum_n (fun l => mpow A k l j * mmul (G s) A i l) p).
      2:{ symmetry. simpl mpow. rewrite <- mmul_assoc. unfold mmul at 1. apply sum_n_ext; intros l. apply Rmult_comm. }
      apply (is_derive_sum_n (fun l s => G s i l * mpow A k l j)). intros l _.
      apply is_derive_ext with (f := fun s => mpow A k l j * G s i l). { intros t; apply Rmult_comm. }
      apply is_derive_scal. apply Gd. }
    split; [exact D|]. simpl. apply is_derive_unique. exact D.
Qed.

(* entry bounds *)
Variable a : R.
Hypothesis a_pos : 0 <= a.
Hypothesis A_bound : forall i j, Rabs (A i j) <= a.

Lemma sum_n_abs_le (f : nat -> R) (c : R) n : (forall l, (l <= n)%nat -> Rabs (f l) <= c) -> Rabs (sum_n f n) <= INR (S n) * c.
Proof.
  induction n as [|n IH]; intros H.
  - rewrite sum_O. simpl. rewrite Rmult_1_l. apply H; lia.
  - rewrite sum_Sn. unfold plus; simpl plus. eapply Rle_trans; [apply Rabs_triang|].
    rewrite (S_INR (S n)). specialize (H (S n) (le_n _)) as HS.
    assert (Rabs (sum_n f n) <= INR (S n) * c) by (apply IH; intros; apply H; lia). simpl in *. lra.
Qed.


Let c := INR (S p) * a.
Lemma c_pos : 0 <= c.
Proof. unfold c. apply Rmult_le_pos; [apply pos_INR|exact a_pos]. Qed.

Lemma mpow_bound k : forall i j, Rabs (mpow A k i j) <= c ^ k.
Proof.
  induction k as [|k IH]; intros i j.
  - simpl. unfold mid. destruct (Nat.eqb i j); [rewrite Rabs_R1|rewrite Rabs_R0]; lra.
  - simpl mpow. unfold mmul.
    eapply Rle_trans. { apply sum_n_abs_le with (c := a * c ^ k). intros l _. rewrite Rabs_mult.
      apply Rmult_le_compat; try apply Rabs_pos; [apply A_bound|apply IH]. }
    simpl pow. unfold c. apply Req_le. ring.
Qed.

Lemma bounded_on_01 (h : R -> R) : (forall s, ex_derive h s) -> exists b, forall s, 0 <= s <= 1 -> Rabs (h s) <= b.
Proof.
  intros Hd.
  assert (Hc : forall x, 0 <= x <= 1 -> continuity_pt h x).
  { intros x _. apply continuity_pt_filterlim. apply (ex_derive_continuous h x). apply Hd. }
  destruct (continuity_ab_maj h 0 1 Rle_0_1 Hc) as [Mx [HM _]].
  destruct (continuity_ab_min h 0 1 Rle_0_1 Hc) as [mx [Hm _]].
  exists (Rmax (Rabs (h Mx)) (Rabs (h mx))). intros s Hs.
  specialize (HM s Hs). specialize (Hm s Hs).
  apply Rabs_le. split.
  - apply Rle_trans with (h mx); [|exact Hm]. apply Rle_trans with (- Rabs (h mx)).
    + apply Ropp_le_contravar. apply Rmax_r.
    + rewrite <- (Ropp_involutive (h mx)) at 2. apply Ropp_le_contravar. rewrite <- Rabs_Ropp. apply Rle_abs.
  - apply Rle_trans with (h Mx); [exact HM|]. apply Rle_trans with (Rabs (h Mx)); [apply Rle_abs|apply Rmax_l].
Qed.

Lemma uniform_bound (g : nat -> R -> R) n : (forall l, exists b, forall s, 0 <= s <= 1 -> Rabs (g l s) <= b) ->
  exists B, 0 <= B /\ forall l, (l <= n)%nat -> forall s, 0 <= s <= 1 -> Rabs (g l s) <= B.
Proof.
  intros H. induction n as [|n [B [HB0 HB]]].
  - destruct (H O) as [b Hb]. exists (Rmax 0 b). split; [apply Rmax_l|]. intros l Hl s Hs. replace l with O by lia.
    eapply Rle_trans; [apply Hb, Hs|apply Rmax_r].
  - destruct (H (S n)) as [b Hb]. exists (Rmax B b). split. { eapply Rle_trans; [exact HB0|apply Rmax_l]. }
    intros l Hl s Hs. destruct (Nat.eq_dec l (S n)) as [->|Hne].
    + eapply Rle_trans; [apply Hb, Hs|apply Rmax_r].
    + eapply Rle_trans; [apply HB; [lia|exact Hs]|apply Rmax_l].
Qed.

Theorem ode_matexp i j : (i <= p)%nat -> (j <= p)%nat ->
  is_series (fun k => mpow A k i j / INR (fact k)) (G 1 i j).
Proof.
  intros Hi Hj.
  destruct (uniform_bound (fun l s => G s i l) p) as [B [HB0 HB]].
  { intros l. apply bounded_on_01. intros s. eexists. apply Gd. }
  set (f := fun s => G s i j).
  assert (Hex : forall n t k, (k <= S n)%nat -> ex_derive_n f k t).
  { intros n t [|k] _; [exact I|]. simpl. eexists. apply (proj1 (Gdn (S k) t i j Hj)). }
  assert (Hrem : forall n, Rabs (G 1 i j - sum_n (fun k => mpow A k i j / INR (fact k)) n)
                    <= (INR (S p) * B) * (c ^ (S n) / INR (fact (S n)))).
  { intros n. destruct (Taylor_Lagrange f n 0 1 Rlt_0_1 (fun t _ k Hk => Hex n t k Hk)) as [z [Hz Ht]].
    assert (Hsum : sum_f_R0 (fun m => (1 - 0) ^ m / INR (fact m) * Derive_n f m 0) n
                   = sum_n (fun k => mpow A k i j / INR (fact k)) n).
    { rewrite <- sum_n_Reals. apply sum_n_ext_R; intros m. rewrite Rminus_0_r, pow1.
      unfold f. rewrite (proj2 (Gdn m 0 i j Hj)).
      replace (mmul (G 0) (mpow A m) i j) with (mpow A m i j).
      2:{ rewrite <- (mid_l (mpow A m) i j Hi). unfold mmul. apply sum_n_ext_R; intros l. rewrite G0 by exact Hi. reflexivity. }
      field. apply INR_fact_neq_0. }
    unfold f at 1 in Ht. rewrite Ht, Hsum. 
    match goal with |- Rabs (?x + ?y - ?x) <= _ => replace (x + y - x) with y by ring end.
    rewrite Rminus_0_r, pow1. unfold f. rewrite (proj2 (Gdn (S n) z i j Hj)).
    rewrite Rabs_mult. rewrite (Rabs_right (1 / _)).
    2:{ apply Rle_ge. apply Rdiv_le_0_compat; [lra|apply INR_fact_lt_0]. }
    assert (Hm : Rabs (mmul (G z) (mpow A (S n)) i j) <= INR (S p) * (B * c ^ S n)).
    { unfold mmul. apply sum_n_abs_le. intros l Hl. rewrite Rabs_mult.
      apply Rmult_le_compat; try apply Rabs_pos; [apply HB; [exact Hl|lra]|apply mpow_bound]. }
    assert (Hf : 0 < / INR (fact (S n))) by (apply Rinv_0_lt_compat, INR_fact_lt_0).
    unfold Rdiv. rewrite Rmult_1_l.
    apply Rle_trans with (/ INR (fact (S n)) * (INR (S p) * (B * c ^ S n))).
    { apply Rmult_le_compat_l; [lra|exact Hm]. }
    apply Req_le. ring. }
  unfold is_series. change (is_lim_seq (sum_n (fun k => mpow A k i j / INR (fact k))) (G 1 i j)).
  apply is_lim_seq_ext with (u := fun n => G 1 i j - (G 1 i j - sum_n (fun k => mpow A k i j / INR (fact k)) n)).
  { intros n; ring. }
  replace (Finite (G 1 i j)) with (Rbar_minus (Finite (G 1 i j)) (Finite 0)) by (simpl; f_equal; ring).
  apply is_lim_seq_minus'; [apply is_lim_seq_const|].
  apply is_lim_seq_abs_0.
  apply is_lim_seq_le_le with (u := fun _ => 0) (w := fun n => (INR (S p) * B) * (c ^ (S n) / INR (fact (S n)))).
  { intros n; split; [apply Rabs_pos|apply Hrem]. }
  { apply is_lim_seq_const. }
  replace (Finite 0) with (Rbar_mult (Finite (INR (S p) * B)) (Finite 0)) by (simpl; f_equal; ring).
  apply is_lim_seq_scal_l.
  apply (is_lim_seq_incr_1 (fun n => c ^ n / INR (fact n))).
  apply is_lim_seq_Reals. apply cv_speed_pow_fact.
Qed.
End OdeMatExp.


